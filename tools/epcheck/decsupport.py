"""Shared generation / parsing helpers for the dec.* property checks (C01-C07)."""
import re

from . import pktgen
from .gen import hx

IPOPS_SLICE = ["ip_slice", "ipv4_slice", "ipv6_slice", "ipv6_slice_lax", "lax_ip_slice", "lax_ipv4_slice", "lax_ipv6_slice"]
IPOPS_STRUCT = ["iph", "iph_lax", "iph_v4", "iph_v4_lax", "iph_v6", "iph_v6_lax"]


def base_inputs(rng, n, truncation_bases=0):
    """yields (start, et, data(bytes), meta): structured mostly valid packets, perturbed ones, noise,
    and every truncation of some base packets."""
    for i in range(n):
        p = pktgen.gen_packet(rng)
        r = rng.random()
        if r < 0.25:
            data, notes = bytes(p["data"]), []
        elif r < 0.93:
            data, notes = pktgen.perturb(rng, p)
        else:
            data, notes = pktgen.noise(rng), ["noise"]
        yield p["start"], p["et"], data, mkmeta(rng, p, data, notes)
    for i in range(truncation_bases):
        p = pktgen.gen_packet(rng)
        data = bytes(p["data"])
        if len(data) > 160:
            continue
        for cut in range(len(data) + 1):
            yield p["start"], p["et"], data[:cut], mkmeta(rng, p, data[:cut], ["cut@%d" % cut])
        # the same with the IP length field zeroed ("to the end of the slice" for IPv6, smaller than the header for
        # IPv4): every truncation again, among them the bare header
        for (fname, off, w, kind) in p["fields"]:
            if fname in ("ipv6.plen", "ipv4.tl") and i % 2 == 0:
                z = data[:off] + bytes(w) + data[off + w :]
                for cut in range(off + w, len(z) + 1):
                    yield p["start"], p["et"], z[:cut], mkmeta(rng, p, z[:cut], ["%s=0" % fname, "cut@%d" % cut])
                break
    # every header octet of some base packets with each single bit flipped and set to 0 / 255: reserved bits, flag
    # combinations, length octets and type numbers that no serialiser produces, one at a time and systematically
    for i in range(max(2, truncation_bases // 10)):
        p = pktgen.gen_packet(rng)
        data = bytes(p["data"])
        hdr = len(data) - p.get("paylen", 0)
        if len(data) > 200 or hdr <= 0:
            continue
        tail = bytes(rng.randrange(256) for _ in range(rng.choice([0, 0, 8, 24])))
        for pos in range(min(hdr, 120)):
            for v in sorted({data[pos] ^ (1 << b) for b in range(8)} | {0, 255}):
                if v == data[pos]:
                    continue
                d = data[:pos] + bytes([v]) + data[pos + 1 :] + tail
                yield p["start"], p["et"], d, mkmeta(rng, p, d, ["sweep@%d=%d" % (pos, v)])


def mkmeta(rng, p, data, notes):
    """everything a property module needs to rebuild the op lines of a case from its input bytes"""
    return {"layers": "/".join(p["layers"]), "notes": notes, "start": p["start"], "et": p["et"], "data": hx(data),
            "nh": rng.choice([0, 43, 44, 51, 60, 17]), "k": rng.randrange(4)}


def meta_bytes(meta):
    return bytes.fromhex(meta["data"]) if meta["data"] != "-" else b""


def entry_suffix(start, et):
    """(suffix, argument prefix) of the whole-packet ops for a start point."""
    if start == "eth":
        return "eth", ""
    if start == "sll":
        return "sll", ""
    if start == "et":
        return "et", "%d\t" % et
    return "ip", ""


def spec_line(start, et, data, lax=False):
    op = "spec.dec.decode_lax" if lax else "spec.dec.decode"
    if start == "et":
        return "%s\tet\t%d\t%s" % (op, et, hx(data))
    return "%s\t%s\t%s" % (op, start, hx(data))


# ----------------------------------------------------------------------------------------------
# parsing of canonical outputs

LEN_RE = re.compile(r"len\(req=(\d+),len=(\d+),src=(\w+),layer=(\w+),off=(\d+)\)")
FAULT_RE = re.compile(r"fault\(cls=(\w+),unit=(\w+),off=(\d+),avail=(\d+),need=(\d+),lim=(\w+),value=(\d+)\)")


def strip_src(s):
    """remove len_source annotations (not part of what C03 / C05 compare)."""
    if s is None:
        return s
    s = re.sub(r"plsrc=\w+", "plsrc=_", s)
    s = re.sub(r"src=[A-Z]\w+", "src=_", s)
    return s


def parse_len(s):
    m = LEN_RE.search(s)
    if not m:
        return None
    return {"req": int(m.group(1)), "len": int(m.group(2)), "src": m.group(3), "layer": m.group(4), "off": int(m.group(5))}


def parse_fault(s):
    m = FAULT_RE.search(s)
    if not m:
        return None
    return {"cls": m.group(1), "unit": m.group(2), "off": int(m.group(3)), "avail": int(m.group(4)), "need": int(m.group(5)), "lim": m.group(6), "value": int(m.group(7))}


UNIT_LAYERS = {
    "eth": {"Ethernet2Header"},
    "sll": {"LinuxSllHeader"},
    "vlan": {"VlanHeader"},
    "macsecHeader": {"MacsecHeader"},
    "macsecPacket": {"MacsecPacket"},
    "ipAny": {"IpHeader"},
    "ipv4Header": {"Ipv4Header"},
    "ipv4Packet": {"Ipv4Packet"},
    "ipv6Header": {"Ipv6Header"},
    "ipv6Packet": {"Ipv6Packet"},
    "auth": {"IpAuthHeader"},
    "hopByHop": {"Ipv6ExtHeader"},
    "destOpts": {"Ipv6ExtHeader"},
    "route": {"Ipv6ExtHeader"},
    "fragHeader": {"Ipv6FragHeader"},
    "arp": {"Arp"},
    "udpHeader": {"UdpHeader"},
    "udpPayload": {"UdpPayload"},
    "tcp": {"TcpHeader"},
    "icmp4": {"Icmpv4", "Icmpv4Timestamp", "Icmpv4TimestampReply"},
    "icmp6": {"Icmpv6"},
}

UNIT_STOP_LAYER = {
    "vlan": "VlanHeader",
    "macsecHeader": "MacsecHeader",
    "ipAny": "IpHeader",
    "ipv4Header": "IpHeader",
    "ipv6Header": "IpHeader",
    "auth": "IpAuthHeader",
    "hopByHop": "Ipv6HopByHopHeader",
    "destOpts": "Ipv6DestOptionsHeader",
    "route": "Ipv6RouteHeader",
    "fragHeader": "Ipv6FragHeader",
    "arp": "Arp",
    "udpHeader": "UdpHeader",
    "tcp": "TcpHeader",
    "icmp4": "Icmpv4",
    "icmp6": "Icmpv6",
}

CONTENT_RE = [
    ("sll", re.compile(r"LinuxSll\((?:PacketType|ArpHw)\((\d+)\)\)")),
    ("macsecHeader", re.compile(r"Macsec\((UnexpectedVersion|InvalidUnmodifiedShortLen)\)")),
    ("ipAny", re.compile(r"Ip\(Version\((\d+)\)\)")),
    ("ipv4Header", re.compile(r"(?:Ipv4|Ip)\((?:Version|Ihl)\((\d+)\)\)")),
    ("ipv6Header", re.compile(r"Ipv6\(Version\((\d+)\)\)")),
    ("auth", re.compile(r"(?:Ipv4Exts\(ZeroPayloadLen\)|Ipv6Exts\(IpAuth\(ZeroPayloadLen\)\))")),
    ("hopByHop", re.compile(r"Ipv6Exts\(HopByHopNotAtStart\)")),
    ("tcp", re.compile(r"Tcp\(DataOffset\((\d+)\)\)")),
]


def error_vs_fault(err_text, fault, data):
    """C07 core: compare an implementation error (text inside err(...) or a stop tuple) with the
    Spec fault of the same input.  returns list of (oracle_name, detail)."""
    out = []
    if fault is None:
        return [("error-without-spec-fault", {"impl": err_text})]
    le = parse_len(err_text)
    if le is not None:
        if fault["cls"] == "content":
            # two faults at once (e.g. bad IHL and a cut header): the crate may legitimately report the
            # length fault first; check it against the bytes it is about
            if le["off"] != fault["off"] or le["layer"] not in UNIT_LAYERS.get(fault["unit"], set()):
                return [("len-error-for-content-fault", {"impl": err_text, "spec": fault})]
            if not (le["req"] > le["len"] and le["len"] == fault["avail"]):
                return [("len-error-for-content-fault", {"impl": err_text, "spec": fault})]
            return []
        # layer
        if le["layer"] not in UNIT_LAYERS.get(fault["unit"], set()):
            out.append(("wrong-layer", {"impl": le, "spec": fault}))
        if le["off"] != fault["off"]:
            out.append(("wrong-offset", {"impl": le, "spec": fault}))
        if le["len"] != fault["avail"]:
            out.append(("wrong-len", {"impl": le, "spec": fault}))
        need_ok = {fault["need"]}
        if fault["unit"] == "ipv4Header" and fault["avail"] < 20 and fault["off"] < len(data):
            ihl4 = (data[fault["off"]] & 0x0F) * 4
            if ihl4 >= 20:
                need_ok.add(ihl4)
        if fault["cls"] in ("cutShort", "claimsMore", "claimsLess"):
            if not (le["req"] > le["len"]) or le["req"] not in need_ok:
                out.append(("wrong-required-len", {"impl": le, "spec": fault}))
        elif fault["cls"] == "tooLong":
            if not (le["req"] < le["len"]) or le["req"] not in need_ok:
                out.append(("wrong-required-len", {"impl": le, "spec": fault}))
        if le["src"] != "Slice" and le["src"] != fault["lim"]:
            if le["src"] == "ArpAddrLengths" and le["layer"] == "Arp":
                out.append(("len-source-arp-addr-lengths", {"impl": le, "spec": fault}))
            elif le["src"] == "MacsecShortLength" and le["layer"] == "MacsecPacket":
                out.append(("len-source-macsec-short-length", {"impl": le, "spec": fault}))
            else:
                out.append(("wrong-len-source", {"impl": le, "spec": fault}))
        return out
    # content error: the offending value must be present in the bytes of the faulting unit
    return content_vs_bytes(err_text, fault, data)


def _be16(data, o):
    return (data[o] << 8) | data[o + 1] if o + 1 < len(data) else -1


def content_vs_bytes(err_text, fault, data):
    off = fault["off"]
    unit = fault["unit"]

    def b(i):
        return data[off + i] if off + i < len(data) else -1

    def bad(name):
        return [(name, {"impl": err_text, "spec": fault})]

    m = re.search(r"(\w+)\((\w+)\((\d+)\)\)", err_text)
    if "LinuxSll(PacketType" in err_text:
        v = int(m.group(3))
        return [] if unit == "sll" and v == _be16(data, off) and v > 7 else bad("wrong-content-value")
    if "LinuxSll(ArpHw" in err_text:
        v = int(m.group(3))
        return [] if unit == "sll" and v == _be16(data, off + 2) and v not in (1, 770, 778, 803, 824) else bad("wrong-content-value")
    if "Macsec(UnexpectedVersion)" in err_text:
        return [] if unit in ("macsecHeader",) and b(0) >= 0 and b(0) & 0x80 else bad("wrong-content-error")
    if "Macsec(InvalidUnmodifiedShortLen)" in err_text:
        return [] if unit == "macsecHeader" and b(0) & 0x0C == 0 and b(1) & 0x3F == 1 else bad("wrong-content-error")
    if "Ip(Version(" in err_text:
        v = int(m.group(3))
        return [] if unit in ("ipAny", "ipv4Header", "ipv6Header") and v == b(0) >> 4 and v not in (4, 6) else bad("wrong-content-value")
    if "Ipv4(Version(" in err_text:
        v = int(m.group(3))
        return [] if unit in ("ipAny", "ipv4Header") and v == b(0) >> 4 and v != 4 else bad("wrong-content-value")
    if "Ipv6(Version(" in err_text:
        v = int(m.group(3))
        return [] if unit in ("ipAny", "ipv6Header") and v == b(0) >> 4 and v != 6 else bad("wrong-content-value")
    if "(Ihl(" in err_text:
        v = int(m.group(3))
        return [] if unit in ("ipAny", "ipv4Header") and b(0) >> 4 == 4 and v == b(0) & 0x0F and v < 5 else bad("wrong-content-value")
    if "ZeroPayloadLen" in err_text:
        return [] if unit == "auth" and b(1) == 0 else bad("wrong-content-error")
    if "HopByHopNotAtStart" in err_text:
        return [] if unit == "hopByHop" and fault["cls"] == "content" else bad("wrong-content-error")
    if "Tcp(DataOffset(" in err_text:
        v = int(m.group(3))
        return [] if unit == "tcp" and v == b(12) >> 4 and v < 5 else bad("wrong-content-value")
    return bad("unknown-content-error")


def split_top(s):
    """split 'ok(a;b;c)' body at top-level ';' into dict key->value."""
    if not s.startswith("ok(") or not s.endswith(")"):
        return None
    body = s[3:-1]
    parts = []
    depth = 0
    cur = ""
    for ch in body:
        if ch in "([":
            depth += 1
        elif ch in ")]":
            depth -= 1
        if ch == ";" and depth == 0:
            parts.append(cur)
            cur = ""
        else:
            cur += ch
    parts.append(cur)
    d = {}
    for p in parts:
        if "=" in p:
            k, v = p.split("=", 1)
            d[k] = v
    return d


def shift_windows(s, k):
    """add k to every window offset and error offset in a canonical output."""
    s = re.sub(r"\((\d+),(\d+)\)", lambda m: "(%d,%s)" % (int(m.group(1)) + k, m.group(2)), s)
    s = re.sub(r"(?<![a-z])off=(\d+)", lambda m: "off=%d" % (int(m.group(1)) + k), s)
    return s


def bad_markers(s):
    """runtime-oracle markers printed by the harness."""
    if s is None:
        return ["no-output"]
    return [m for m in ("panic", "fault(", "!outside", "!accessor-mismatch", "runaway", "!placement", "!doors-differ") if m in s and not (m == "fault(" and s.startswith("ok(") and ";fault=" in s)]


def search_decode(prop, rng, corr_failures, run_cases, limit=10):
    """After a correspondence difference in a decode family: look for an input on which the property's
    own oracle fails, in the neighbourhood of the inputs that differ - every truncation of each
    (windows that end inside a header are where unchecked reads show), byte flips in the first headers,
    and a few extensions.  Returns a core.Failure or None."""
    from .core import Failure

    seen = set()
    cands = []
    # a spread of the differing inputs: the first ones and the longest ones
    by_len = sorted(corr_failures, key=lambda f: -len(f.case.meta.get("data") or ""))
    chosen = []
    for f in list(corr_failures[: limit // 2]) + by_len[: limit - limit // 2]:
        h = f.case.meta.get("data")
        if isinstance(h, str) and h not in seen:
            seen.add(h)
            chosen.append(f)
    for f in chosen:
        meta = f.case.meta
        h = meta["data"]
        d = b"" if h == "-" else bytes.fromhex(h)
        variants = [d[:k] for k in range(0, min(len(d), 96) + 1)]
        for i in range(min(len(d), 20)):
            for bit in (0x01, 0x04, 0x10, 0x40, 0x0F, 0xF0):
                e = bytearray(d)
                e[i] ^= bit
                variants.append(bytes(e))
        for _ in range(6):
            variants.append(d + bytes(rng.randrange(256) for _ in range(rng.randrange(1, 24))))
        # truncations whose IP length field is made consistent with the new end (so that the strict doors
        # do not reject the cut for its length field): IPv4 total length / IPv6 payload length, for the
        # usual positions of the IP header
        for L in range(1, min(len(d), 130) + 1):
            for ip in (0, 14, 16, 18, 22, 26):
                if ip + 4 <= L:
                    e = bytearray(d[:L])
                    e[ip + 2 : ip + 4] = (L - ip).to_bytes(2, "big")
                    variants.append(bytes(e))
                if ip + 6 <= L and L - ip >= 40:
                    e = bytearray(d[:L])
                    e[ip + 4 : ip + 6] = (L - ip - 40).to_bytes(2, "big")
                    variants.append(bytes(e))
        for v in variants:
            m = dict(meta)
            m["data"] = v.hex() if v else "-"
            mk = getattr(prop, "build", None) or getattr(prop, "rebuild", None)
            c = mk(m) if mk else None
            if c is not None:
                cands.append(c)
    if not cands:
        return None
    run_cases(cands)
    for c in cands:
        fs = prop.oracle(c)
        if fs:
            return Failure("oracle", fs[0][0], c, fs[0][1])
    if getattr(prop, "RELEASE_SEARCH", False):
        # the debug build stops at a panic or an overflow check; the optimised build goes on, and then the
        # guard pages and the range check of every returned slice show whether memory outside the input is used
        from . import core
        import copy

        for profile, what in (("relcheck", "optimised harness (opt-level 2)"), ("nocheck", "unoptimised harness (opt-level 0)")):
            exe = core.build_harness_profile(profile)
            if exe is None:
                continue
            rel = [copy.deepcopy(c) for c in cands]
            core.run_cases_with(exe, rel)
            for c in rel:
                fs = prop.oracle(c)
                if fs:
                    d = dict(fs[0][1])
                    d["build"] = "%s, cargo build --profile %s: no debug assertions, no overflow checks" % (what, profile)
                    return Failure("oracle", fs[0][0], c, d)
    return None


# ----------------------------------------------------------------------------------------------
# the length-limited readers (`read_limited`, LimitedReader) against the slice cut at the limit


def _ext_header(rng, kind, nxt):
    """one extension header of the given kind (0/43/60 raw, 44 fragment, 51 auth) naming `nxt`"""
    if kind == 44:
        return bytes([nxt, rng.randrange(256)]) + bytes(rng.randrange(256) for _ in range(6))
    if kind == 51:
        pl = rng.choice([1, 1, 2, 3, 4, 0, rng.randrange(256)])
        n = (pl + 2) * 4 if pl >= 1 else 8
        return bytes([nxt, pl]) + bytes(rng.randrange(256) for _ in range(max(n, 8) - 2))
    el = rng.choice([0, 0, 1, 2, 3])
    return bytes([nxt, el]) + bytes(rng.randrange(256) for _ in range((el + 1) * 8 - 2))


def readlim_cases(rng, n):
    """(lines, meta) of `impl.dec.readlim_*` operations: extension chains with the limit around every header
    boundary, inside headers, and beyond the chain"""
    from .core import Case
    from .gen import hx

    for i in range(n):
        kinds = [rng.choice([0, 43, 60, 44, 51, 60, 44]) for _ in range(rng.choice([1, 1, 2, 2, 3, 4, 5]))]
        if rng.random() < 0.5:
            # the canonical order the struct accepts
            order = {0: 0, 60: 1, 43: 2, 44: 3, 51: 4}
            kinds = sorted(set(kinds), key=lambda k: order[k])
            if rng.random() < 0.3 and 43 in kinds:
                kinds.insert(kinds.index(43) + 1, 60)
        last = rng.choice([6, 17, 58, 59, 44, 51, 0])
        chain, bounds = b"", [0]
        for j, k in enumerate(kinds):
            nxt = kinds[j + 1] if j + 1 < len(kinds) else last
            chain += _ext_header(rng, k, nxt)
            bounds.append(len(chain))
        tail = bytes(rng.randrange(256) for _ in range(rng.choice([0, 3, 8, 20, 40])))
        data = chain + tail
        cut_at = rng.choice(bounds)
        lim = max(0, min(len(data), cut_at + rng.choice([0, 0, -1, -4, -7, 1, 2, 4, 7, 8, 11, 12, 40])))
        if rng.random() < 0.15:
            lim = len(data)
        lines = ["impl.dec.readlim_v6exts\t%d\t%s" % (lim, hx(bytes([kinds[0]]) + data))]
        # the single-header readers on the first header
        one = {44: "frag", 51: "ah"}.get(kinds[0], "rawext")
        lines.append("impl.dec.readlim_%s\t%d\t%s" % (one, lim, hx(bytes([kinds[0]]) + data)))
        if kinds[0] == 51 or i % 7 == 0:
            lines.append("impl.dec.readlim_v4exts\t%d\t%s" % (lim, hx(bytes([kinds[0]]) + data)))
        yield Case(lines, {"readlim": 1, "kinds": kinds, "lim": lim, "len": len(data)})


_LENERR = re.compile(r"LenError \{ required_len: (?P<req>\d+), len: (?P<len>\d+), len_source: (?P<src>\w+), layer: (?P<layer>\w+), layer_start_offset: (?P<off>\d+) \}")


def readlim_oracle(c, out):
    for line, o in zip(c.lines, c.impl):
        if o is None or not line.startswith("impl.dec.readlim_"):
            continue
        op = line.split("\t", 1)[0]
        if not o.startswith("slice="):
            out.append((op + "-no-result", {"impl": o[:300]}))
            continue
        sl, rd = o[6:].split("|read=", 1)
        if "!accessor-mismatch" in rd:
            out.append(("limited-reader-accessor-mismatch", {"op": op, "impl": o[:400]}))
            rd = rd.replace("!accessor-mismatch", "")
        if sl == rd:
            continue
        # a reader fetches a header in pieces and may know its real size when it runs into the limit, so the
        # two sides may name different required lengths; each has to be a number of bytes the header really
        # requires (more than there are, no more than its true size) and everything else has to be equal
        ms, mr = _LENERR.search(sl), _LENERR.search(rd)
        if ms and mr and sl.startswith("err(len(") and rd.startswith("err(len("):
            fs, fr = ms.groupdict(), mr.groupdict()
            lim = int(line.split("\t")[1])
            data = bytes.fromhex(line.split("\t")[2])[1:][:lim]
            off = int(fr["off"]) - 40
            hdr = data[off:] if 0 <= off <= len(data) else b""
            if fr["layer"] == "Ipv6FragHeader":
                true = 8
            elif fr["layer"] == "IpAuthHeader":
                true = (hdr[1] + 2) * 4 if len(hdr) >= 2 and hdr[1] >= 1 else 12
            else:
                true = (hdr[1] + 1) * 8 if len(hdr) >= 2 else 8
            same_rest = all(fs[k] == fr[k] for k in ("len", "src", "layer", "off"))
            if same_rest and int(fr["len"]) < int(fr["req"]) <= true and int(fs["len"]) < int(fs["req"]) <= true:
                continue
        out.append((op + "-differs-from-slice-cut-at-limit", {"slice": sl[:500], "read": rd[:500], "line": line[:300]}))
