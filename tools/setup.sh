#!/bin/bash
# Builds the framework offline from files on disk: Lean model + theorems + driver, Rust harness.
set -e
cd "$(dirname "$0")/.."
export CARGO_NET_OFFLINE=true
(cd lean && lake build EpModel epdrv)
(cd harness && cargo build --offline)
echo "setup ok"
