#!/usr/bin/env python3
"""tools/coverage.py [quick|thorough] [Cxx...]

Validation aid for the correspondence (not a check, not registered in MANIFEST.json): which code of the
crate do the generated operations actually reach?  Runs the named checks (default: all 17, quick) with
VERIF_DUMP_OPS set, replays every operation line they sent to the implementation on a build of the harness
with source based coverage (-C instrument-coverage, nightly toolchain for its llvm-profdata / llvm-cov), and
writes notes/coverage.md: per source file of etherparse/src the line coverage and every function no
operation reached.  The scratch build lives under /tmp and is removed at the end."""
import json, os, shutil, subprocess, sys, tempfile

ROOT = os.path.dirname(os.path.dirname(os.path.abspath(__file__)))
TOOLBIN = "/root/.rustup/toolchains/nightly-x86_64-unknown-linux-gnu/lib/rustlib/x86_64-unknown-linux-gnu/bin"


def sh(cmd, **kw):
    return subprocess.run(cmd, stdout=subprocess.PIPE, stderr=subprocess.STDOUT, **kw)


def fn_name(name, line):
    """`line:fn name` for the function whose first region starts at that line"""
    import re
    try:
        src = open("/repo/etherparse/src/" + name).read().split("\n")
    except OSError:
        return str(line)
    j = line - 1
    while j < len(src) and "fn " not in src[j]:
        j += 1
    m = re.search(r"fn (\w+)", src[j]) if j < len(src) else None
    return "%d:%s" % (line, m.group(1)) if m else str(line)


def main():
    args = sys.argv[1:]
    tier = "quick"
    if args and args[0] in ("quick", "thorough"):
        tier = args.pop(0)
    ids = args or ["C%02d" % i for i in range(1, 18)]
    work = tempfile.mkdtemp(prefix="ephar_cov_")
    try:
        ops = os.environ.get("VERIF_COV_OPS") or os.path.join(work, "ops.txt")   # VERIF_COV_OPS: keep / reuse the operation file
        if not (os.environ.get("VERIF_COV_OPS") and os.path.exists(ops)):
            env = dict(os.environ, VERIF_DUMP_OPS=ops)
            for i in ids:
                r = sh([sys.executable, os.path.join(ROOT, "tools", "check.py"), i, tier], env=env)
                print(i, "rc=%d" % r.returncode, flush=True)
        tgt = os.path.join(work, "target")
        benv = dict(os.environ, RUSTFLAGS="-C instrument-coverage", CARGO_TARGET_DIR=tgt, CARGO_NET_OFFLINE="true")
        r = sh(["cargo", "+nightly", "build", "--offline"], cwd=os.path.join(ROOT, "harness"), env=benv)
        if r.returncode != 0:
            print(r.stdout.decode()[-3000:])
            return 2
        exe = os.path.join(tgt, "debug", "ephar")
        # the harness restarts behind a line that kills the process: do the same, one profile per run
        lines = open(ops, "rb").read().split(b"\n")
        pos, runs = 0, 0
        while pos < len(lines):
            penv = dict(os.environ, LLVM_PROFILE_FILE=os.path.join(work, "p%d.profraw" % runs))
            p = subprocess.run([exe], input=b"\n".join(lines[pos:]) + b"\n", stdout=subprocess.PIPE, stderr=subprocess.DEVNULL, env=penv)
            done = p.stdout.count(b"\n")
            runs += 1
            if p.returncode == 0 or done >= len(lines) - pos:
                break
            pos += done + 1
        raws = [os.path.join(work, f) for f in os.listdir(work) if f.endswith(".profraw")]
        prof = os.path.join(work, "all.profdata")
        r = sh([os.path.join(TOOLBIN, "llvm-profdata"), "merge", "-sparse", "-o", prof] + raws)
        if r.returncode != 0:
            print(r.stdout.decode()[-3000:])
            return 2
        r = subprocess.run([os.path.join(TOOLBIN, "llvm-cov"), "export", "-format=text", "-instr-profile", prof, exe,
                            "-ignore-filename-regex", r"(\.cargo|rustc|harness/src)"], stdout=subprocess.PIPE, stderr=subprocess.DEVNULL)
        data = json.loads(r.stdout)["data"][0]
        out = ["# Which code of etherparse the generated operations reach", "",
               "Written by `tools/coverage.py %s %s` (source based coverage of a build of the harness; %d operation lines," % (tier, " ".join(ids) if args else "(all)", len(lines)),
               "%d process runs).  A validation aid for the generators, not a check.  Functions that are generic or `#[inline]` and" % runs,
               "never instantiated by the harness do not appear at all in the binary, so the list is a lower bound of what is missed.", ""]
        # functions never executed, per file
        missed = {}
        # a generic function has one record per instantiation: it counts as reached when any of them ran
        hits = {}
        for f in data["functions"]:
            fn = f["filenames"][0]
            if "/etherparse/src/" not in fn:
                continue
            key = (fn.split("/etherparse/src/")[1], f["regions"][0][0])
            hits[key] = hits.get(key, 0) + f["count"]
        for (name, line), cnt in hits.items():
            if cnt == 0:
                missed.setdefault(name, set()).add((line, ""))
        tot_l = tot_c = 0
        rows = []
        for f in data["files"]:
            fn = f["filename"]
            if "/etherparse/src/" not in fn:
                continue
            s = f["summary"]["lines"]
            tot_l += s["count"]
            tot_c += s["covered"]
            rows.append((fn.split("/etherparse/src/")[1], s["covered"], s["count"], f["summary"]["functions"]["covered"], f["summary"]["functions"]["count"]))
        out.append("Total: %d of %d lines (%.1f %%)." % (tot_c, tot_l, 100.0 * tot_c / max(1, tot_l)))
        out += ["", "| file | lines covered | functions covered | first lines of functions never run |", "|---|---|---|---|"]
        for name, c, n, fc, fcount in sorted(rows):
            ms = sorted(missed.get(name, ()))
            out.append("| %s | %d/%d | %d/%d | %s |" % (name, c, n, fc, fcount, ", ".join(fn_name(name, l) for l, _ in ms)))
        os.makedirs(os.path.join(ROOT, "notes"), exist_ok=True)
        open(os.path.join(ROOT, "notes", "coverage.md"), "w").write("\n".join(out) + "\n")
        # per-line detail for interactive use
        r = subprocess.run([os.path.join(TOOLBIN, "llvm-cov"), "show", "-instr-profile", prof, exe, "-show-line-counts-or-regions",
                            "-ignore-filename-regex", r"(\.cargo|rustc|harness/src)"], stdout=subprocess.PIPE, stderr=subprocess.DEVNULL)
        detail = os.environ.get("VERIF_COV_DETAIL")
        if detail:
            open(detail, "wb").write(r.stdout)
        print("\n".join(out[:8]))
        return 0
    finally:
        shutil.rmtree(work, ignore_errors=True)


if __name__ == "__main__":
    sys.exit(main())
