#!/usr/bin/env python3
"""Entry point registered in MANIFEST.json:  tools/check.py <Cxx> [quick|thorough] [--replay file]"""
import importlib
import os
import sys

sys.path.insert(0, os.path.dirname(os.path.abspath(__file__)))
from epcheck import core  # noqa: E402


def main():
    if len(sys.argv) < 2:
        print("usage: check.py <property id> [quick|thorough] [--replay <file>]")
        sys.exit(2)
    pid = sys.argv[1].upper()
    try:
        prop = importlib.import_module("epcheck.props." + pid.lower())
    except ModuleNotFoundError:
        print("no check for property %s" % pid)
        sys.exit(2)
    core.run_check(prop, sys.argv[2:])


if __name__ == "__main__":
    main()
