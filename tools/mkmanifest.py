#!/usr/bin/env python3
"""Regenerates /verif/MANIFEST.json from the table below (kept in one place so it stays valid)."""
import json
import os

VERIF = os.path.abspath(os.path.join(os.path.dirname(__file__), ".."))

# property id -> (technique, level text, level note, design ref)
CLAIMED = {
    "C09": (
        "Lean 4 proof (accumulator invariants mod 65535, equality with RFC 1071) + model/implementation correspondence",
        "Machine-checked theorems in EpModel/Props/C09.lean: for every byte string and accumulator state the modelled "
        "u32/u64 accumulators add the data modulo 65535 without losing a carry, folding gives the RFC 1071 one's complement "
        "sum, the result is independent of even splits and of the accumulator width. The model (EpModel/Model/Checksum.lean) "
        "is tied to checksum.rs on every run by running both on the same generated inputs; an RFC 1071 reference and the Lean "
        "Spec act as oracle on the implementation's outputs.",
        "Trusted: Lean kernel, axioms propext/Classical.choice/Quot.sound, the hand-written model and Spec, the correspondence "
        "harness; 64-bit little-endian target. The theorems are about the model; the code is covered for the explored inputs.",
        "DESIGN.md section 5 C09",
    ),
}

NOT_YET = {}


def main():
    props = [json.loads(l) for l in open(os.path.join(VERIF, "properties.jsonl"))]
    checks = []
    na = []
    for p in props:
        pid = p["id"]
        if pid in CLAIMED:
            tech, text, note, ref = CLAIMED[pid]
            checks.append(
                {
                    "property_id": pid,
                    "quick_cmd": "python3 tools/check.py %s quick" % pid,
                    "thorough_cmd": "python3 tools/check.py %s thorough" % pid,
                    "evidence_file": "/verif/evidence/%s.json" % pid,
                    "replay_cmd_template": "python3 tools/check.py %s --replay {path}" % pid,
                    "engine": "epcheck",
                    "level_claimed": {"category": "proof", "text": text, "design_ref": ref},
                    "level_note": note,
                    "technique": tech,
                }
            )
        else:
            na.append({"property_id": pid, "reason": NOT_YET.get(pid, "check under construction in this session: the Lean model/theorems for this property are not yet committed, so it is not claimed yet (the technique applies; see DESIGN.md section 5)")})
    m = {
        "version": 1,
        "setup_cmd": "bash tools/setup.sh",
        "hooks": {
            "guard": "etherparse_verif",
            "enable": "RUSTFLAGS --cfg etherparse_verif (set in /verif/harness/.cargo/config.toml)",
            "baseline_off_cmd": "cd /repo && cargo test --workspace --no-fail-fast --offline",
            "source_commits": [],
            "add_only": True,
        },
        "engines": [
            {
                "name": "epcheck",
                "path": "/verif/tools/check.py",
                "serves_properties": sorted(CLAIMED.keys()),
                "kind_free_text": "Lean 4 theorems over a hand-written executable model (lean/EpModel) + differential correspondence of model and implementation (harness/, lean/Main.lean) + per-property oracles",
            }
        ],
        "checks": checks,
        "not_applicable": na,
        "notes": "See DESIGN.md. Every check: lake build of the property's theorem module, axiom audit, cargo build of the harness against /repo's working tree, correspondence run, oracle, decision.",
    }
    with open(os.path.join(VERIF, "MANIFEST.json"), "w") as f:
        json.dump(m, f, indent=1)


if __name__ == "__main__":
    main()
