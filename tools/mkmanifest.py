#!/usr/bin/env python3
"""Regenerates /verif/MANIFEST.json from the table below (kept in one place so it stays valid)."""
import json
import os

VERIF = os.path.abspath(os.path.join(os.path.dirname(__file__), ".."))

def load_claims():
    """one JSON file per claimed property: tools/claims/<id>.json with technique, level_text, level_note, design_ref"""
    d = {}
    cdir = os.path.join(VERIF, "tools", "claims")
    for fn in sorted(os.listdir(cdir)):
        if fn.endswith(".json"):
            c = json.load(open(os.path.join(cdir, fn)))
            d[fn[:-5]] = (c["technique"], c["level_text"], c["level_note"], c.get("design_ref", "DESIGN.md section 5"))
    return d


CLAIMED = load_claims()

NOT_YET = {}


def main():
    props = [json.loads(l) for l in open(os.path.join(VERIF, "properties.jsonl"))]
    checks = []
    na = []
    for p in props:
        pid = p["id"]
        if pid in CLAIMED:
            tech, text, note, ref = CLAIMED[pid]
            checks.append(
                {
                    "property_id": pid,
                    "quick_cmd": "python3 tools/check.py %s quick" % pid,
                    "thorough_cmd": "python3 tools/check.py %s thorough" % pid,
                    "evidence_file": "/verif/evidence/%s.json" % pid,
                    "replay_cmd_template": "python3 tools/check.py %s --replay {path}" % pid,
                    "engine": "epcheck",
                    "level_claimed": {"category": "proof", "text": text, "design_ref": ref},
                    "level_note": note,
                    "technique": tech,
                }
            )
        else:
            na.append({"property_id": pid, "reason": NOT_YET.get(pid, "check under construction in this session: the Lean model/theorems for this property are not yet committed, so it is not claimed yet (the technique applies; see DESIGN.md section 5)")})
    m = {
        "version": 1,
        "setup_cmd": "bash tools/setup.sh",
        "hooks": {
            "guard": "etherparse_verif",
            "enable": "RUSTFLAGS --cfg etherparse_verif (set in /verif/harness/.cargo/config.toml)",
            "baseline_off_cmd": "cd /repo && cargo test --workspace --no-fail-fast --offline",
            "source_commits": [],
            "add_only": True,
        },
        "engines": [
            {
                "name": "epcheck",
                "path": "/verif/tools/check.py",
                "serves_properties": sorted(CLAIMED.keys()),
                "kind_free_text": "Lean 4 theorems over a hand-written executable model (lean/EpModel) + differential correspondence of model and implementation (harness/, lean/Main.lean) + per-property oracles",
            }
        ],
        "checks": checks,
        "not_applicable": na,
        "notes": "See DESIGN.md. Every check: lake build of the property's theorem module, axiom audit, cargo build of the harness against /repo's working tree, correspondence run, oracle, decision.",
    }
    with open(os.path.join(VERIF, "MANIFEST.json"), "w") as f:
        json.dump(m, f, indent=1)


if __name__ == "__main__":
    main()
