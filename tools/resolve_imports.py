#!/usr/bin/env python3
"""resolve a merge conflict in lean/EpModel.lean (an import list): keep the union of the import lines."""
import sys
p = sys.argv[1] if len(sys.argv) > 1 else "/verif/lean/EpModel.lean"
seen = set()
res = []
for l in open(p).read().split("\n"):
    if l.startswith(("<<<<<<<", "=======", ">>>>>>>")):
        continue
    if l.startswith("import "):
        if l in seen:
            continue
        seen.add(l)
    res.append(l)
open(p, "w").write("\n".join(res).rstrip("\n") + "\n")
