import EpModel.Model.Dec.Headers
import EpModel.Lemmas.DecWithin
/- PacketHeaders (struct decoding) against SlicedPacket (slicing), strict: same verdict, same headers,
   same payload range, except where an IPv6 extension header no longer fits the struct (C04). -/
set_option linter.unusedSimpArgs false
set_option linter.unusedVariables false
namespace EpModel.Lemmas.StructSlice
open EpModel EpModel.Dec EpModel.Lemmas.Dec

/-- struct-mode walk against slice-mode walk: same outcome, or the struct walk ended without an error at
    an extension header that no longer fits `Ipv6Extensions` -/
def ExtsAgree (rs rf : ExtsOut) : Prop :=
  (rs.next = rf.next ∧ rs.frag = rf.frag ∧ rs.rest = rf.rest ∧ rs.stop = rf.stop) ∨
  (rs.stop = none ∧ (rs.next = 43 ∨ rs.next = 44 ∨ rs.next = 51 ∨ rs.next = 60))

theorem extsLoop_struct_slice (g : Mem) (l0 nh : Nat) (frag : Bool) (slots slotsF : ExtSlots) (o l : Nat) :
    ExtsAgree (extsLoop g true l0 nh frag slots o l) (extsLoop g false l0 nh frag slotsF o l) := by
  fun_induction extsLoop g true l0 nh frag slots o l generalizing slotsF
  all_goals (conv => arg 2; rw [extsLoop])
  case case1 => simp [ExtsAgree, extsFail]
  case case2 nh frag slots o l h0 h1 hfit =>
    right
    simp only [extsDone, true_and]
    omega
  case case3 nh frag slots o l h0 h1 hfit h8 =>
    simp [h0, h1, h8, ExtsAgree, extsFail]
  case case4 nh frag slots o l h0 h1 hfit h8 hl =>
    simp [h0, h1, h8, hl, ExtsAgree, extsFail]
  case case5 nh frag slots o l h0 h1 hfit h8 hl ih =>
    simp only [h0, h1, h8, hl, if_false, if_true, Bool.false_eq_true, false_and, dite_false]
    exact ih _
  case case6 frag slots o l hfs _ _ =>
    right; simp [extsDone]
  case case7 frag slots o l hfs h8 _ _ =>
    simp [h8, ExtsAgree, extsFail]
  case case8 frag slots o l hfs h8 _ _ ih =>
    simp only [show ¬ ((44 : Nat) = 0) by omega, show ¬ ((44 : Nat) = 60 ∨ (44 : Nat) = 43) by omega, h8, if_false,
      if_true, Bool.false_eq_true, false_and, dite_false]
    exact ih _
  case case9 frag slots o l has _ _ _ =>
    right; simp [extsDone]
  case case10 frag slots o l has h12 _ _ _ =>
    simp [h12, ExtsAgree, extsFail]
  case case11 frag slots o l has h12 hz _ _ _ =>
    simp [h12, hz, ExtsAgree, extsFail]
  case case12 frag slots o l has h12 hz hl _ _ _ =>
    simp [h12, hz, hl, ExtsAgree, extsFail]
  case case13 frag slots o l has h12 hz hl _ _ _ ih =>
    simp only [show ¬ ((51 : Nat) = 0) by omega, show ¬ ((51 : Nat) = 60 ∨ (51 : Nat) = 43) by omega,
      show ¬ ((51 : Nat) = 44) by omega, h12, hz, hl, if_false, if_true, Bool.false_eq_true, false_and, dite_false]
    exact ih _
  case case14 nh frag slots o l h0 h1 h2 h3 =>
    simp [h0, h1, h2, h3, ExtsAgree, extsDone]

theorem extsWalk_struct_slice (g : Mem) (nh o l : Nat) :
    ExtsAgree (extsWalk g true nh o l) (extsWalk g false nh o l) := by
  unfold extsWalk
  split
  · split
    · left; simp
    · exact extsLoop_struct_slice g l _ false _ _ _ _
  · exact extsLoop_struct_slice g l nh false _ _ o l

/-- struct decoding stopped at an extension header that no longer fits `Ipv6Extensions`: the
    documented exception of C04 -/
def EarlyIp (s : IpR) : Prop :=
  s.v4 = false ∧ (s.pl.num = 43 ∨ s.pl.num = 44 ∨ s.pl.num = 51 ∨ s.pl.num = 60)

/-- the same IP layer, up to the slots only the struct keeps -/
def IpAgree (s f : IpR) : Prop :=
  s.v4 = f.v4 ∧ s.hdr = f.hdr ∧ s.auth = f.auth ∧ s.exts = f.exts ∧ s.first = f.first ∧ s.pl = f.pl

/-- verdicts and results of a struct decoder against the slice decoder of the same bytes -/
def IpVerdict (s f : Except PErr IpR) : Prop :=
  match s, f with
  | .ok a, .ok b => IpAgree a b ∨ EarlyIp a
  | .error e, .error e' => e = e'
  | .ok a, .error _ => EarlyIp a
  | .error _, .ok _ => False

theorem ipv6Chain_struct_slice (g : Mem) (o : Nat) (hp : Win) (src : LenSource) :
    IpVerdict (ipv6ChainStrict g true o hp src) (ipv6ChainStrict g false o hp src) := by
  have h := extsWalk_struct_slice g (g (o + 6)) hp.o hp.l
  unfold ipv6ChainStrict extsWalkStrict
  simp only
  generalize extsWalk g true (g (o + 6)) hp.o hp.l = rs at h
  generalize extsWalk g false (g (o + 6)) hp.o hp.l = rf at h
  rcases h with ⟨h1, h2, h3, h4⟩ | ⟨h1, h2⟩
  · rw [h4]
    cases hst : rf.stop with
    | none =>
      simp only [IpVerdict]
      left
      simp [IpAgree, mkV6, h1, h2, h3, extsFirst]
    | some x =>
      obtain ⟨e, ly⟩ := x
      cases e <;> simp [IpVerdict]
  · rw [h1]
    simp only
    cases hst : rf.stop with
    | none => simp only [IpVerdict]; right; exact ⟨rfl, h2⟩
    | some x =>
      obtain ⟨e, ly⟩ := x
      cases e <;> (simp only [IpVerdict]; exact ⟨rfl, h2⟩)

theorem ipv6_struct_slice (g : Mem) (o l : Nat) :
    IpVerdict (ipHeadersFromIpv6Slice g o l) (ipv6SliceFromSlice g o l) := by
  unfold ipHeadersFromIpv6Slice ipv6SliceFromSlice
  cases ipv6HeaderFromSlice g o l with
  | error e => simp [IpVerdict]
  | ok u =>
    dsimp only
    unfold ipv6AfterHeaderStrict
    cases ipv6BoundStrict o l (g16 g (o + 4)) with
    | error e => simp [IpVerdict]
    | ok x => obtain ⟨hp, src⟩ := x; exact ipv6Chain_struct_slice g o hp src

/-! ### transport -/

/-- `PacketHeaders.payload` for a sliced packet: what lies behind its transport header, else the IP
    payload, else nothing behind ARP (link-level payloads are not compared here) -/
def PayAgree (g : Mem) (pay : Pay) (p : Packet) : Prop :=
  match p.tp, p.net with
  | some (.udp w), _ => pay = .udp ⟨w.o + 8, w.l - 8⟩ false
  | some (.tcp w hl), _ => pay = .tcp ⟨w.o + hl, w.l - hl⟩ false
  | some (.icmp4 w), _ => pay = .icmp4 ⟨w.o + icmp4HeaderLen g w.o, w.l - icmp4HeaderLen g w.o⟩ false
  | some (.icmp6 w), _ => pay = .icmp6 ⟨w.o + 8, w.l - 8⟩ false
  | none, some (.ip f) => pay = .ip f.pl
  | none, some (.arp _) => pay = .empty
  | none, none => True

theorem srcIfSlice_addOffset (e : LenError) (k : Nat) (s : LenSource) :
    (e.addOffset k).srcIfSlice s = (e.srcIfSlice s).addOffset k := by
  unfold LenError.srcIfSlice LenError.addOffset LenError.withSrc
  simp only
  split <;> rfl

theorem lenAddOff_add (a b : Nat) (e : PErr) : lenAddOff (a + b) e = lenAddOff b (lenAddOff a e) := by
  cases e <;> simp [lenAddOff, LenError.addOffset]
  omega

theorem len_addOffset_add (a b : Nat) (e : LenError) :
    PErr.len (e.addOffset (a + b)) = lenAddOff b (PErr.len (e.addOffset a)) := by
  simp [lenAddOff, LenError.addOffset]; omega

/-- `read_transport` against the cursor's transport step on the same IP payload -/
theorem transport_agree (c : Cur) (g : Mem) (pl : IpPl) (hsrc : c.src = pl.src) (hnf : pl.frag = false)
    (htp : c.r.tp = none) :
    match c.sliceTransport g pl.num pl.w.o pl.w.l, readTransport g pl with
    | .ok p, .ok (tp, pay) =>
      p.link = c.r.link ∧ p.exts = c.r.exts ∧ p.net = c.r.net ∧ p.stop = c.r.stop ∧ p.tp = tp ∧
        (match tp with
         | some (.udp w) => pay = .udp ⟨w.o + 8, w.l - 8⟩ false
         | some (.tcp w hl) => pay = .tcp ⟨w.o + hl, w.l - hl⟩ false
         | some (.icmp4 w) => pay = .icmp4 ⟨w.o + icmp4HeaderLen g w.o, w.l - icmp4HeaderLen g w.o⟩ false
         | some (.icmp6 w) => pay = .icmp6 ⟨w.o + 8, w.l - 8⟩ false
         | none => pay = .ip pl)
    | .error e, .error e' => e = lenAddOff c.off e'
    | _, _ => False := by
  unfold Cur.sliceTransport readTransport
  simp only [hnf, Bool.false_eq_true, if_false, hsrc]
  by_cases h1 : pl.num = 1
  · simp only [h1, if_true]
    cases hx : icmp4FromSlice g pl.w.o pl.w.l with
    | error e => simp [lenAddOff, srcIfSlice_addOffset]
    | ok w =>
      have hw : w = ⟨pl.w.o, pl.w.l⟩ := by
        unfold icmp4FromSlice at hx
        repeat' split at hx
        all_goals first | cases hx | skip
        rfl
      subst hw
      simp [Packet.setTp]
  · simp only [h1, if_false]
    by_cases h17 : pl.num = 17
    · have h58 : ¬ pl.num = 58 := by omega
      simp only [h17, if_true, show ¬ ((17 : Nat) = 58) by omega, if_false]
      cases hx : udpFromSlice g pl.w.o pl.w.l with
      | error e => simp [lenAddOff, srcIfSlice_addOffset]
      | ok w => simp [Packet.setTp]
    · simp only [h17, if_false]
      by_cases h6 : pl.num = 6
      · simp only [h6, if_true, show ¬ ((6 : Nat) = 58) by omega, if_false]
        cases hx : tcpFromSlice g pl.w.o pl.w.l with
        | error e =>
          cases e <;> simp [lenAddOff, srcIfSlice_addOffset]
        | ok hl => simp [Packet.setTp]
      · simp only [h6, if_false]
        by_cases h58 : pl.num = 58
        · simp only [h58, if_true]
          cases hx : icmp6FromSlice pl.w.o pl.w.l with
          | error e => simp [lenAddOff, srcIfSlice_addOffset]
          | ok w =>
            have hw : w = ⟨pl.w.o, pl.w.l⟩ := by
              unfold icmp6FromSlice at hx
              repeat' split at hx
              all_goals first | cases hx | skip
              rfl
            subst hw
            simp [Packet.setTp]
        · simp [h58, htp]

/-! ### network layer and what follows -/

/-- the header PacketHeaders keeps of a link extension the slicing result holds as header + payload -/
def hdrExt : ExtR → ExtR
  | .vlan w => .vlan ⟨w.o, 4⟩
  | x => x

def NetAgree : Option NetR → Option NetR → Prop
  | some (.ip s), some (.ip f) => IpAgree s f
  | some (.arp a), some (.arp b) => a = b
  | none, none => True
  | _, _ => False

/-- the documented exception at packet level: struct decoding ended at an extension header that no
    longer fits, which it reports as the payload's protocol -/
def Early (x : Headers) : Prop :=
  ∃ ip, x.p.net = some (.ip ip) ∧ EarlyIp ip ∧ x.p.tp = none ∧ x.pay = .ip ip.pl

/-- struct result `x` agrees with slicing result `p`; `r` / `cr` = what the two loops had collected in
    front of the network layer (their link entries are passed through unchanged) -/
structure Agree (g : Mem) (x : Headers) (p : Packet) (r cr : Packet) : Prop where
  linkS : x.p.link = r.link
  linkF : p.link = cr.link
  exts : x.p.exts = p.exts.map hdrExt
  net : NetAgree x.p.net p.net
  tp : x.p.tp = p.tp
  pay : PayAgree g x.pay p

def Verdict (g : Mem) (K : Nat) (r cr : Packet) (s : Except PErr Packet) (h : Except PErr Headers) : Prop :=
  match s, h with
  | .ok p, .ok x => Agree g x p r cr ∨ Early x
  | .error e, .error e' => e = lenAddOff K e'
  | .error _, .ok x => Early x
  | .ok _, .error _ => False

/-- the IP part of the cursor -/
def ipPartF (c : Cur) (g : Mem) (o : Nat) (ipr : Except PErr IpR) : Except PErr Packet :=
  match ipr with
  | .error e => .error (lenAddOff c.off e)
  | .ok ip => c.afterIp g o ip

theorem readTransport_early (g : Mem) (pl : IpPl)
    (h : pl.num = 43 ∨ pl.num = 44 ∨ pl.num = 51 ∨ pl.num = 60) : readTransport g pl = .ok (none, .ip pl) := by
  unfold readTransport
  split
  · rfl
  · have h1 : ¬ pl.num = 1 := by omega
    have h2 : ¬ pl.num = 58 := by omega
    have h3 : ¬ pl.num = 17 := by omega
    have h4 : ¬ pl.num = 6 := by omega
    simp [h1, h2, h3, h4]

theorem ip_agree (c : Cur) (g : Mem) (K o0 o : Nat) (r : Packet) (ipS ipF : Except PErr IpR)
    (hv : IpVerdict ipS ipF) (hoff : c.off = (o - o0) + K) (ho0 : o0 ≤ o)
    (hin : ∀ f, ipF = .ok f → o ≤ f.pl.w.o)
    (hexts : r.exts = c.r.exts.map hdrExt) (htp : c.r.tp = none) :
    Verdict g K r c.r (ipPartF c g o ipF) (phIpPart g o0 o r ipS) := by
  have early : ∀ a : IpR, EarlyIp a → ∃ x, phIpPart g o0 o r (.ok a) = .ok x ∧ Early x := by
    intro a ha
    refine ⟨{ p := { link := r.link, exts := r.exts, net := some (.ip a), tp := none, stop := none },
              pay := .ip a.pl }, ?_, a, rfl, ha, rfl, rfl⟩
    unfold phIpPart
    simp only [readTransport_early g a.pl ha.2]
  cases ipS with
  | error e =>
    cases ipF with
    | error e' =>
      simp only [IpVerdict] at hv
      subst hv
      simp [ipPartF, phIpPart, Verdict, hoff, lenAddOff_add]
    | ok b => simp [IpVerdict] at hv
  | ok a =>
    cases ipF with
    | error e' =>
      simp only [IpVerdict] at hv
      obtain ⟨x, hx, hE⟩ := early a hv
      rw [hx]
      simpa [ipPartF, Verdict] using hE
    | ok b =>
      simp only [IpVerdict] at hv
      rcases hv with hag | hE
      · obtain ⟨h1, h2, h3, h4, h5, h6⟩ := hag
        have hle := hin b rfl
        simp only [ipPartF, phIpPart, Cur.afterIp, h6]
        by_cases hfr : b.pl.frag = true
        · have hrt : readTransport g b.pl = .ok (none, .ip b.pl) := by
            unfold readTransport; simp [hfr]
          simp only [hfr, if_true, hrt, Verdict]
          left
          exact ⟨rfl, rfl, by simpa [Packet.setNet] using hexts, by simp [NetAgree, Packet.setNet, IpAgree, h1, h2, h3, h4, h5, h6],
            by simp [Packet.setNet, htp], by simp [PayAgree, Packet.setNet, htp]⟩
        · simp only [hfr, if_false, Bool.false_eq_true]
          have hfr' : b.pl.frag = false := by simpa using hfr
          have key := transport_agree
            { off := c.off + (b.pl.w.o - o), src := b.pl.src, r := c.r.setNet (.ip b) } g b.pl rfl hfr'
            (by simpa [Packet.setNet] using htp)
          revert key
          generalize Cur.sliceTransport { off := c.off + (b.pl.w.o - o), src := b.pl.src, r := c.r.setNet (.ip b) }
            g b.pl.num b.pl.w.o b.pl.w.l = sres
          generalize readTransport g b.pl = rres
          intro key
          cases sres with
          | error e =>
            cases rres with
            | error e' =>
              simp only at key
              simp only [Verdict]
              rw [key, ← lenAddOff_add]
              congr 1
              omega
            | ok y => simp at key
          | ok p =>
            cases rres with
            | error e' => simp at key
            | ok y =>
              obtain ⟨tp, pay⟩ := y
              simp only at key
              obtain ⟨k1, k2, k3, k4, k5, k6⟩ := key
              simp only [Verdict]
              left
              refine ⟨rfl, by simpa [Packet.setNet] using k1, ?_, ?_, k5.symm, ?_⟩
              · simp only [k2, Packet.setNet]; exact hexts
              · simp only [k3, Packet.setNet, NetAgree]
                exact ⟨h1, h2, h3, h4, h5, h6⟩
              · unfold PayAgree
                rw [k5, k3]
                cases tp with
                | none => simpa [Packet.setNet, h6] using k6
                | some t => cases t <;> simpa using k6
      · obtain ⟨x, hx, hE'⟩ := early a hE
        rw [hx]
        cases hs : ipPartF c g o (Except.ok b) with
        | error e => simpa [Verdict] using hE'
        | ok p => simp only [Verdict]; right; exact hE'

/-! ### the link-extension loops -/

theorem macsec_shape (g : Mem) (o l : Nat) (hdr pl : Win) (src : LenSource) (inc : Bool)
    (h : macsecFromSlice g o l = .ok (.macsec hdr pl src inc)) : pl.o = o + hdr.l := by
  unfold macsecFromSlice at h
  split at h
  · cases h
  · split at h
    · simp only at h
      split at h
      · cases h
      · cases h; rfl
    · cases h; rfl

theorem Verdict.relink {g : Mem} {K : Nat} {r r' cr cr' : Packet} {s : Except PErr Packet} {h : Except PErr Headers}
    (hv : Verdict g K r' cr' s h) (h1 : r'.link = r.link) (h2 : cr'.link = cr.link) : Verdict g K r cr s h := by
  cases s <;> cases h <;> simp only [Verdict] at hv ⊢
  all_goals first
    | exact hv
    | (rcases hv with hv | hv
       · left; exact ⟨hv.linkS.trans h1, hv.linkF.trans h2, hv.exts, hv.net, hv.tp, hv.pay⟩
       · right; exact hv)

theorem sliceIpv4_eq (c : Cur) (g : Mem) (o l : Nat) :
    c.sliceIpv4 g o l = ipPartF c g o (ipv4SliceFromSlice g o l) := by
  unfold Cur.sliceIpv4 ipPartF
  cases ipv4SliceFromSlice g o l <;> rfl

theorem sliceIpv6_eq (c : Cur) (g : Mem) (o l : Nat) :
    c.sliceIpv6 g o l = ipPartF c g o (ipv6SliceFromSlice g o l) := by
  unfold Cur.sliceIpv6 ipPartF
  cases ipv6SliceFromSlice g o l <;> rfl

theorem phNet_agree (c : Cur) (g : Mem) (K o0 et o l : Nat) (r : Packet) (pay : Pay)
    (hnv : ¬ (et = 0x8100 ∨ et = 0x88a8 ∨ et = 0x9100)) (hnm : ¬ et = 0x88e5)
    (hoff : c.off = (o - o0) + K) (ho0 : o0 ≤ o) (hexts : r.exts = c.r.exts.map hdrExt)
    (hr : r.net = none ∧ r.tp = none) (hc : c.r.net = none ∧ c.r.tp = none) :
    Verdict g K r c.r
      (if et = 0x0806 then c.sliceArp g o l else if et = 0x0800 then c.sliceIpv4 g o l
        else if et = 0x86dd then c.sliceIpv6 g o l else .ok c.r)
      (phNet g o0 et o l r pay) := by
  unfold phNet
  by_cases h4 : et = 0x0800
  · subst h4
    simp only [show ¬ ((0x0800 : Nat) = 0x0806) by omega, if_false, if_true]
    have := ip_agree c g K o0 o r (ipHeadersFromIpv4Slice g o l) (ipv4SliceFromSlice g o l)
      (by
        rw [show ipHeadersFromIpv4Slice g o l = ipv4SliceFromSlice g o l from rfl]
        cases ipv4SliceFromSlice g o l with
        | error e => simp [IpVerdict]
        | ok a => simp only [IpVerdict]; left; exact ⟨rfl, rfl, rfl, rfl, rfl, rfl⟩)
      hoff ho0 (fun f hf => (ipv4Slice_in g o l f hf).2.2.2.2.1) hexts hc.2
    rw [sliceIpv4_eq]; exact this
  · by_cases h6 : et = 0x86dd
    · subst h6
      simp only [show ¬ ((0x86dd : Nat) = 0x0806) by omega, show ¬ ((0x86dd : Nat) = 0x0800) by omega, if_false,
        if_true]
      have := ip_agree c g K o0 o r (ipHeadersFromIpv6Slice g o l) (ipv6SliceFromSlice g o l)
        (ipv6_struct_slice g o l) hoff ho0 (fun f hf => (ipv6Slice_in g o l f hf).2.2.2.2.1) hexts hc.2
      rw [sliceIpv6_eq]; exact this
    · by_cases ha : et = 0x0806
      · subst ha
        simp only [show ¬ ((0x0806 : Nat) = 0x0800) by omega, show ¬ ((0x0806 : Nat) = 0x86dd) by omega, if_false,
          if_true]
        unfold Cur.sliceArp
        cases arpFromSlice g o l with
        | error e => simp [Verdict, hoff, len_addOffset_add]
        | ok w =>
          simp only [Verdict]
          left
          exact ⟨rfl, rfl, by simpa [Packet.setNet] using hexts, by simp [Packet.setNet, NetAgree],
            by simp [Packet.setNet, hr.2, hc.2], by simp [PayAgree, Packet.setNet, hc.2]⟩
      · simp only [h4, h6, ha, if_false, Verdict]
        left
        exact ⟨rfl, rfl, hexts, by simp [hr.1, hc.1, NetAgree], by simp [hr.2, hc.2], by simp [PayAgree, hc.1, hc.2]⟩

/-- the loop of `PacketHeaders::from_ether_type` against the loop of the slicing cursor -/
theorem loop_agree (c : Cur) (g : Mem) (K n et o l o0 : Nat) (src : LenSource) (r : Packet) (pay : Pay)
    (hoff : c.off = (o - o0) + K) (ho0 : o0 ≤ o) (hexts : r.exts = c.r.exts.map hdrExt)
    (hr : r.net = none ∧ r.tp = none) (hc : c.r.net = none ∧ c.r.tp = none) :
    Verdict g K r c.r (c.sliceEtherType g n et o l) (phLoop g o0 n et o l src r pay) := by
  fun_induction Cur.sliceEtherType c g n et o l generalizing r pay src
  case case1 c et o l het =>
    rw [phLoop.eq_def]
    simp only [het, if_true]
    have := phNet_agree c g K o0 et o l r pay
    -- a VLAN ether type with no room left: both stop in front of it
    unfold phNet
    have h1 : ¬ et = 0x0800 := by omega
    have h2 : ¬ et = 0x86dd := by omega
    have h3 : ¬ et = 0x0806 := by omega
    simp only [h1, h2, h3, if_false, Verdict]
    left
    exact ⟨rfl, rfl, hexts, by simp [hr.1, hc.1, NetAgree], by simp [hr.2, hc.2], by simp [PayAgree, hc.1, hc.2]⟩
  case case2 c et o l het n e hv =>
    rw [phLoop.eq_def]
    simp only [het, if_true, hv, Verdict, hoff, len_addOffset_add]
  case case3 c et o l het n w hv ih =>
    rw [phLoop.eq_def]
    simp only [het, if_true, hv]
    have hw := vlan_in o l w hv
    refine Verdict.relink (ih (src := src) (r := r.pushExt (.vlan ⟨w.o, 4⟩)) (pay := _)
      (by simp only; omega) (by omega) ?_ (by simpa [Packet.pushExt] using hr)
      (by simpa [Packet.pushExt] using hc)) rfl rfl
    simp [Packet.pushExt, hexts, hdrExt]
  case case4 c o l hnv =>
    rw [phLoop.eq_def]
    simp only [hnv, if_false, if_true]
    unfold phNet
    simp only [show ¬ ((0x88e5 : Nat) = 0x0800) by omega, show ¬ ((0x88e5 : Nat) = 0x86dd) by omega,
      show ¬ ((0x88e5 : Nat) = 0x0806) by omega, if_false, Verdict]
    left
    exact ⟨rfl, rfl, hexts, by simp [hr.1, hc.1, NetAgree], by simp [hr.2, hc.2], by simp [PayAgree, hc.1, hc.2]⟩
  case case5 c o l n e he hnv =>
    rw [phLoop]
    simp only [hnv, if_false, if_true, he, Verdict, hoff, len_addOffset_add]
  case case6 c o l n e hnl he hnv =>
    rw [phLoop]
    simp only [hnv, if_false, if_true, he]
    cases e with
    | len le => exact absurd rfl (fun h => hnl le h)
    | _ => simp only [Verdict, lenAddOff]
  case case7 c o l n hdr pl msrc inc hm c' et' hnx hnv ih =>
    rw [phLoop]
    simp only [hnv, if_false, if_true, hm, hnx]
    have hsh := macsec_shape g o l hdr pl msrc inc hm
    refine Verdict.relink (ih (src := _) (r := r.pushExt (.macsec hdr pl msrc inc)) (pay := _)
      (by simp only [c']; omega) (by omega) ?_ (by simpa [Packet.pushExt] using hr)
      (by simpa [c', Packet.pushExt] using hc)) rfl rfl
    simp [c', Packet.pushExt, hexts, hdrExt]
  case case8 c o l n hdr pl msrc inc hm c' hnx hnv =>
    rw [phLoop]
    simp only [hnv, if_false, if_true, hm, hnx, Verdict]
    left
    exact ⟨rfl, rfl, by simp [c', Packet.pushExt, hexts, hdrExt], by simp [c', Packet.pushExt, hr.1, hc.1, NetAgree],
      by simp [c', Packet.pushExt, hr.2, hc.2], by simp [PayAgree, c', Packet.pushExt, hc.1, hc.2]⟩
  case case9 c o l n x hno hx hnv =>
    rw [phLoop]
    simp only [hnv, if_false, if_true, hx]
    cases x with
    | macsec a b c d => exact (hno _ _ _ _ rfl).elim
    | _ =>
      simp only [Verdict]
      left
      exact ⟨rfl, rfl, hexts, by simp [hr.1, hc.1, NetAgree], by simp [hr.2, hc.2], by simp [PayAgree, hc.1, hc.2]⟩
  case case10 n c o l h1 h2 =>
    unfold phLoop
    simp only [h1, h2, if_false]
    have := phNet_agree c g K o0 0x0806 o l r pay h1 h2 hoff ho0 hexts hr hc
    simpa using this
  case case11 n c o l h1 h2 h3 =>
    unfold phLoop
    simp only [h1, h2, if_false]
    have := phNet_agree c g K o0 0x0800 o l r pay h1 h2 hoff ho0 hexts hr hc
    simpa using this
  case case12 n c o l h1 h2 h3 h4 =>
    unfold phLoop
    simp only [h1, h2, if_false]
    have := phNet_agree c g K o0 0x86dd o l r pay h1 h2 hoff ho0 hexts hr hc
    simpa using this
  case case13 n c et o l h1 h2 h3 h4 h5 =>
    unfold phLoop
    simp only [h1, h2, if_false]
    have := phNet_agree c g K o0 et o l r pay h1 h2 hoff ho0 hexts hr hc
    simpa [h3, h4, h5] using this

/-! ### the three doors -/

/-- PacketHeaders::from_ether_type against SlicedPacket::from_ether_type -/
theorem from_ether_type_agree (g : Mem) (et n : Nat) :
    Verdict g 0 Packet.empty (Packet.empty.setLink (.etherPayload et ⟨0, n⟩))
      (slicedFromEtherType g et n) (phFromEtherType g et 0 n) := by
  unfold slicedFromEtherType phFromEtherType
  exact loop_agree _ g 0 3 et 0 n 0 .slice Packet.empty _ (by simp) (by omega) (by simp [Packet.empty, Packet.setLink])
    (by simp [Packet.empty]) (by simp [Packet.empty, Packet.setLink])

/-- PacketHeaders::from_ethernet_slice against SlicedPacket::from_ethernet; the struct keeps the 14 header
    bytes of the Ethernet II header, the slice header + payload -/
theorem from_ethernet_agree (g : Mem) (n : Nat) :
    match slicedFromEthernet g n, phFromEthernet g n with
    | .ok p, .ok x =>
      (x.p.link = some (.eth2 ⟨0, 14⟩) ∧ p.link = some (.eth2 ⟨0, n⟩) ∧ x.p.exts = p.exts.map hdrExt ∧
        NetAgree x.p.net p.net ∧ x.p.tp = p.tp ∧ PayAgree g x.pay p) ∨ Early x
    | .error e, .error e' => e = e'
    | .error _, .ok x => Early x
    | .ok _, .error _ => False := by
  unfold slicedFromEthernet phFromEthernet
  cases hh : eth2FromSlice 0 n with
  | error e =>
    simp only
    cases e; simp [LenError.addOffset]
  | ok w =>
    have hw : w = ⟨0, n⟩ := by
      unfold eth2FromSlice at hh
      split at hh
      · cases hh
      · cases hh; rfl
    subst hw
    simp only
    have key := loop_agree { off := 14, src := .slice, r := Packet.empty.setLink (.eth2 ⟨0, n⟩) } g 14 3 (g16 g 12) 14
      (n - 14) 14 .slice Packet.empty (.ether (g16 g 12) .slice ⟨14, n - 14⟩ false) (by simp) (by omega)
      (by simp [Packet.empty, Packet.setLink]) (by simp [Packet.empty]) (by simp [Packet.empty, Packet.setLink])
    unfold phFromEtherType
    revert key
    generalize Cur.sliceEtherType { off := 14, src := .slice, r := Packet.empty.setLink (.eth2 ⟨0, n⟩) } g 3
      (g16 g 12) 14 (n - 14) = sres
    generalize phLoop g 14 3 (g16 g 12) 14 (n - 14) .slice Packet.empty
      (.ether (g16 g 12) .slice ⟨14, n - 14⟩ false) = hres
    intro key
    cases sres <;> cases hres <;> simp only [Verdict] at key ⊢
    · exact key
    · obtain ⟨ip, h1, h2, h3, h4⟩ := key
      exact ⟨ip, by simpa [Packet.setLink] using h1, h2, by simpa [Packet.setLink] using h3, h4⟩
    · rcases key with key | key
      · left
        exact ⟨by simp [Packet.setLink], by simpa [Packet.setLink] using key.linkF,
          by simpa [Packet.setLink] using key.exts, by simpa [Packet.setLink] using key.net,
          by simpa [Packet.setLink] using key.tp, key.pay⟩
      · right
        obtain ⟨ip, h1, h2, h3, h4⟩ := key
        exact ⟨ip, by simpa [Packet.setLink] using h1, h2, by simpa [Packet.setLink] using h3, h4⟩

theorem lenAddOff_zero (e : PErr) : lenAddOff 0 e = e := by
  cases e <;> simp [lenAddOff, LenError.addOffset]

theorem ipv6After_struct_slice (g : Mem) (o l : Nat) :
    IpVerdict (ipv6AfterHeaderStrict g true o l) (ipv6AfterHeaderStrict g false o l) := by
  unfold ipv6AfterHeaderStrict
  cases ipv6BoundStrict o l (g16 g (o + 4)) with
  | error e => simp [IpVerdict]
  | ok x => obtain ⟨hp, src⟩ := x; exact ipv6Chain_struct_slice g o hp src

theorem ipVerdict_refl (x : Except PErr IpR) : IpVerdict x x := by
  cases x with
  | error e => simp [IpVerdict]
  | ok a => simp only [IpVerdict]; left; exact ⟨rfl, rfl, rfl, rfl, rfl, rfl⟩

/-- IpHeaders::from_slice against IpSlice::from_slice: the struct door checks `len < 20` before the
    IHL, the slice door does not - on an IPv4 nibble in fewer than 20 bytes both reject, with
    different (both true) errors -/
theorem ipHeaders_vs_ipSlice (g : Mem) (o l : Nat) :
    (g o / 16 = 4 ∧ l < 20 ∧ (∃ e, ipHeadersFromSlice g o l = .error e) ∧ ∃ e, ipSliceFromSlice g o l = .error e) ∨
      IpVerdict (ipHeadersFromSlice g o l) (ipSliceFromSlice g o l) := by
  by_cases h0 : l = 0
  · right
    unfold ipHeadersFromSlice ipSliceFromSlice ipDispatchHeader
    simp [h0, IpVerdict]
  · by_cases h4 : g o / 16 = 4
    · by_cases h20 : l < 20
      · left
        refine ⟨h4, h20, ?_, ?_⟩
        · unfold ipHeadersFromSlice ipDispatchHeader
          simp [h0, h4, h20]
        · unfold ipSliceFromSlice ipDispatchHeader
          simp only [h0, h4, if_true, if_false, Bool.false_eq_true, false_and]
          by_cases hi : g o % 16 < 5
          · simp [hi]
          · have : l < g o % 16 * 4 := by omega
            simp [hi, this]
      · right
        unfold ipHeadersFromSlice ipSliceFromSlice ipDispatchHeader
        simp only [h0, h4, h20, if_true, if_false, true_and, Bool.false_eq_true, false_and]
        by_cases hi : g o % 16 < 5
        · simp [hi, IpVerdict]
        · simp only [hi, if_false]
          by_cases hl : l < g o % 16 * 4
          · simp [hl, IpVerdict]
          · simp only [hl, if_false]
            exact ipVerdict_refl _
    · right
      unfold ipHeadersFromSlice ipSliceFromSlice ipDispatchHeader
      simp only [h0, h4, if_false]
      by_cases h6 : g o / 16 = 6
      · simp only [h6, if_true]
        by_cases h40 : l < 40
        · simp [h40, IpVerdict]
        · simp only [h40, if_false]
          exact ipv6After_struct_slice g o l
      · simp [h6, IpVerdict]

theorem phFromIp_eq (g : Mem) (n : Nat) :
    phFromIp g n = phIpPart g 0 0 Packet.empty (ipHeadersFromSlice g 0 n) := by
  unfold phFromIp phIpPart
  cases ipHeadersFromSlice g 0 n with
  | error e => simp [lenAddOff_zero]
  | ok ip =>
    simp only
    cases readTransport g ip.pl with
    | error e => simp
    | ok y => obtain ⟨tp, pay⟩ := y; simp [Packet.empty]

theorem slicedFromIp_eq (g : Mem) (n : Nat) :
    slicedFromIp g n = ipPartF Cur.new g 0 (ipSliceFromSlice g 0 n) := by
  unfold slicedFromIp Cur.sliceIp ipPartF
  cases ipSliceFromSlice g 0 n <;> rfl

/-- PacketHeaders::from_ip_slice against SlicedPacket::from_ip -/
theorem from_ip_agree (g : Mem) (n : Nat) :
    (g 0 / 16 = 4 ∧ n < 20 ∧ (∃ e, phFromIp g n = .error e) ∧ ∃ e, slicedFromIp g n = .error e) ∨
      Verdict g 0 Packet.empty Packet.empty (slicedFromIp g n) (phFromIp g n) := by
  rw [phFromIp_eq, slicedFromIp_eq]
  rcases ipHeaders_vs_ipSlice g 0 n with ⟨h4, h20, ⟨e1, he1⟩, ⟨e2, he2⟩⟩ | hv
  · left
    refine ⟨h4, h20, ⟨lenAddOff (0 - 0) e1, ?_⟩, ⟨lenAddOff Cur.new.off e2, ?_⟩⟩
    · rw [he1]; rfl
    · rw [he2]; rfl
  · right
    exact ip_agree Cur.new g 0 0 0 Packet.empty _ _ hv (by simp [Cur.new]) (by omega)
      (fun f hf => (ipSlice_in g 0 n f hf).2.2.2.2.1) (by simp [Cur.new, Packet.empty]) (by simp [Cur.new, Packet.empty])

end EpModel.Lemmas.StructSlice
