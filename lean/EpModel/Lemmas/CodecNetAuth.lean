import EpModel.Lemmas.CodecNetBits
import EpModel.Model.Codec.NetAuth
/- Helper lemmas about the IpAuthHeader / IpAuthHeaderSlice model. -/
namespace EpModel.Lemmas.CodecNet.Auth
open EpModel EpModel.CodecNet EpModel.Lemmas.CodecNet

theorem enc32_be32 (a b c d : UInt8) :
    enc32 (a.toNat * 16777216 + b.toNat * 65536 + c.toNat * 256 + d.toNat) = [a, b, c, d] := by
  have := a.toNat_lt; have := b.toNat_lt; have := c.toNat_lt; have := d.toNat_lt
  unfold enc32
  simp only [List.cons.injEq, and_true]
  exact ⟨u8_eq_of (by omega), u8_eq_of (by omega), u8_eq_of (by omega), u8_eq_of (by omega)⟩

theorem be32_enc32 (n : Nat) (hn : n < 4294967296) (r : Bytes) : be32 (enc32 n ++ r) 0 = n := by
  simp [be32, enc32]; omega

theorem rawIcvLen_eq (h : IpAuthHeader) (wf : h.WF) : h.rawIcvLen = h.rawIcv.length / 4 := by
  obtain ⟨_, _, _, h4, _⟩ := wf
  unfold IpAuthHeader.rawIcvLen; omega

theorem headerLen_eq (h : IpAuthHeader) (wf : h.WF) : h.headerLen = 12 + h.rawIcv.length := by
  have := rawIcvLen_eq h wf
  obtain ⟨_, _, _, _, h5⟩ := wf
  unfold IpAuthHeader.headerLen; omega

theorem fixedPart_length (h : IpAuthHeader) : h.fixedPart.length = 12 := by
  simp [IpAuthHeader.fixedPart]

/-- `raw_icv()` returns the ICV the value was built from. -/
theorem rawIcvAcc_eq (h : IpAuthHeader) (wf : h.WF) : h.rawIcvAcc = h.rawIcv := by
  have e := rawIcvLen_eq h wf
  obtain ⟨_, _, _, _, h5⟩ := wf
  unfold IpAuthHeader.rawIcvAcc IpAuthHeader.rawIcvBuffer
  rw [e, List.take_left']
  omega

/-- `to_bytes` (buffer appended whole, then `set_len`) is the fixed part followed by the ICV. -/
theorem toBytes_eq (h : IpAuthHeader) (wf : h.WF) : h.toBytes = h.fixedPart ++ h.rawIcv := by
  unfold IpAuthHeader.toBytes IpAuthHeader.rawIcvBuffer
  rw [headerLen_eq h wf, ← List.append_assoc, List.take_left']
  simp [fixedPart_length]

theorem toBytes_length (h : IpAuthHeader) (wf : h.WF) : h.toBytes.length = 12 + h.rawIcv.length := by
  rw [toBytes_eq h wf, List.length_append, fixedPart_length]

theorem slice_of_toBytes (h : IpAuthHeader) (tail : Bytes) (wf : h.WF) :
    IpAuthHeaderSlice.fromSlice (h.toBytes ++ tail) = .ok { slice := h.toBytes } := by
  have hl := toBytes_length h wf
  have e := rawIcvLen_eq h wf
  have hb1 : bAt (h.toBytes ++ tail) 1 = h.rawIcv.length / 4 + 1 := by
    rw [toBytes_eq h wf]
    have := wf.2.2.2.1
    simp [IpAuthHeader.fixedPart, e]; omega
  obtain ⟨_, _, _, h4, h5⟩ := wf
  unfold IpAuthHeaderSlice.fromSlice
  simp only [hb1, List.length_append, hl]
  have c1 : ¬ (12 + h.rawIcv.length + tail.length < 12) := by omega
  have c2 : ¬ (h.rawIcv.length / 4 + 1 < 1) := by omega
  have c3 : (h.rawIcv.length / 4 + 1 + 2) * 4 = 12 + h.rawIcv.length := by omega
  have c4 : ¬ (12 + h.rawIcv.length + tail.length < 12 + h.rawIcv.length) := by omega
  simp only [c1, c2, c3, c4, if_false]
  rw [List.take_left' hl]

theorem toHeader_toBytes (h : IpAuthHeader) (wf : h.WF) :
    IpAuthHeaderSlice.toHeader { slice := h.toBytes } = some h := by
  have hb := toBytes_eq h wf
  obtain ⟨nh, spi, seq, icv⟩ := h
  obtain ⟨h1, h2, h3, h4, h5⟩ := wf
  simp only at h1 h2 h3 h4 h5
  have c1 : ¬ (icv.length > 1016) := by omega
  have c2 : ¬ (0 ≠ icv.length % 4) := by omega
  simp only [IpAuthHeaderSlice.toHeader, IpAuthHeaderSlice.nextHeader, IpAuthHeaderSlice.spi,
    IpAuthHeaderSlice.sequenceNumber, IpAuthHeaderSlice.rawIcv, hb, IpAuthHeader.fixedPart]
  simp [IpAuthHeader.new, c1, c2, be32, enc32]
  refine ⟨by omega, by omega, by omega⟩

/-- `to_header` never hits the `unwrap` panic for a slice the constructor can produce. -/
theorem toHeader_eq (s : IpAuthHeaderSlice) (h12 : 12 ≤ s.slice.length)
    (hmax : s.slice.length ≤ 1028) (h4 : s.slice.length % 4 = 0) :
    s.toHeader = some { nextHeader := bAt s.slice 0, spi := be32 s.slice 4,
                        sequenceNumber := be32 s.slice 8, rawIcv := s.slice.drop 12 } := by
  have c1 : ¬ ((s.slice.drop 12).length > 1016) := by simp; omega
  have c2 : ¬ (0 ≠ (s.slice.drop 12).length % 4) := by simp; omega
  simp only [IpAuthHeaderSlice.toHeader, IpAuthHeader.new, IpAuthHeaderSlice.rawIcv, c1, c2,
    if_false, IpAuthHeaderSlice.nextHeader, IpAuthHeaderSlice.spi, IpAuthHeaderSlice.sequenceNumber]

/-- every slice `IpAuthHeaderSlice::from_slice` returns has 12..1028 bytes, a multiple of 4. -/
theorem sliceFromSlice_ok (b : Bytes) (s : IpAuthHeaderSlice)
    (hs : IpAuthHeaderSlice.fromSlice b = .ok s) :
    12 ≤ s.slice.length ∧ s.slice.length ≤ 1028 ∧ s.slice.length % 4 = 0 := by
  unfold IpAuthHeaderSlice.fromSlice at hs
  have hlt := bAt_lt b 1
  by_cases c1 : b.length < 12
  · simp [c1] at hs
  · by_cases c2 : bAt b 1 < 1
    · simp [c1, c2] at hs
    · by_cases c3 : b.length < (bAt b 1 + 2) * 4
      · simp [c1, c2, c3] at hs
      · simp only [c1, c2, c3, if_false, Except.ok.injEq] at hs
        subst hs
        simp only [List.length_take]
        omega

/-- what a successful `IpAuthHeader::from_slice` says about its input. -/
theorem fromSlice_ok (b : Bytes) (h : IpAuthHeader) (rest : Bytes)
    (hd : IpAuthHeader.fromSlice b = .ok (h, rest)) :
    12 ≤ b.length ∧ 1 ≤ bAt b 1 ∧ (bAt b 1 + 2) * 4 ≤ b.length ∧
      h = { nextHeader := bAt b 0, spi := be32 b 4, sequenceNumber := be32 b 8,
            rawIcv := (b.take ((bAt b 1 + 2) * 4)).drop 12 } ∧
      rest = b.drop ((bAt b 1 + 2) * 4) := by
  unfold IpAuthHeader.fromSlice IpAuthHeaderSlice.fromSlice at hd
  have hlt := bAt_lt b 1
  by_cases c1 : b.length < 12
  · simp [c1] at hd
  · by_cases c2 : bAt b 1 < 1
    · simp [c1, c2] at hd
    · by_cases c3 : b.length < (bAt b 1 + 2) * 4
      · simp [c1, c2, c3] at hd
      · simp only [c1, c2, c3, if_false] at hd
        have hl : (b.take ((bAt b 1 + 2) * 4)).length = (bAt b 1 + 2) * 4 := by simp; omega
        rw [toHeader_eq _ (by rw [hl]; omega) (by rw [hl]; omega) (by rw [hl]; omega)] at hd
        simp only [Except.ok.injEq, Prod.mk.injEq, hl] at hd
        rw [bAt_take _ _ _ (by omega), be32_take _ _ _ (by omega), be32_take _ _ _ (by omega)] at hd
        exact ⟨by omega, by omega, by omega, hd.1.symm, hd.2.symm⟩

/-- the `unwrap` in `to_header` is unreachable through `from_slice`. -/
theorem fromSlice_no_panic (b : Bytes) : IpAuthHeader.fromSlice b ≠ .error .panicUnwrap := by
  unfold IpAuthHeader.fromSlice IpAuthHeaderSlice.fromSlice
  have hlt := bAt_lt b 1
  by_cases c1 : b.length < 12
  · simp [c1]
  · by_cases c2 : bAt b 1 < 1
    · simp [c1, c2]
    · by_cases c3 : b.length < (bAt b 1 + 2) * 4
      · simp [c1, c2, c3]
      · simp only [c1, c2, c3, if_false]
        have hl : (b.take ((bAt b 1 + 2) * 4)).length = (bAt b 1 + 2) * 4 := by simp; omega
        rw [toHeader_eq _ (by rw [hl]; omega) (by rw [hl]; omega) (by rw [hl]; omega)]
        simp

/-- re-encoding the header decoded from `(p+2)*4` bytes (`p` = payload length byte ≥ 1) gives the
    bytes back with the two reserved bytes zeroed. -/
theorem toBytes_decoded (b0 b1 b4 b5 b6 b7 b8 b9 b10 b11 : UInt8) (r : Bytes)
    (hp : 1 ≤ b1.toNat) (hr : r.length + 4 = b1.toNat * 4) :
    IpAuthHeader.toBytes
      { nextHeader := b0.toNat,
        spi := b4.toNat * 16777216 + b5.toNat * 65536 + b6.toNat * 256 + b7.toNat,
        sequenceNumber := b8.toNat * 16777216 + b9.toNat * 65536 + b10.toNat * 256 + b11.toNat,
        rawIcv := r }
      = b0 :: b1 :: 0 :: 0 :: b4 :: b5 :: b6 :: b7 :: b8 :: b9 :: b10 :: b11 :: r := by
  have l0 := b0.toNat_lt; have l1 := b1.toNat_lt
  have l4 := b4.toNat_lt; have l5 := b5.toNat_lt; have l6 := b6.toNat_lt; have l7 := b7.toNat_lt
  have l8 := b8.toNat_lt; have l9 := b9.toNat_lt; have l10 := b10.toNat_lt
  have l11 := b11.toNat_lt
  have wf : IpAuthHeader.WF
      { nextHeader := b0.toNat,
        spi := b4.toNat * 16777216 + b5.toNat * 65536 + b6.toNat * 256 + b7.toNat,
        sequenceNumber := b8.toNat * 16777216 + b9.toNat * 65536 + b10.toNat * 256 + b11.toNat,
        rawIcv := r } := by
    refine ⟨l0, ?_, ?_, ?_, ?_⟩ <;> simp only <;> omega
  rw [toBytes_eq _ wf]
  simp only [IpAuthHeader.fixedPart, rawIcvLen_eq _ wf, enc32_be32]
  simp only [List.cons_append, List.nil_append, List.cons.injEq, and_true]
  exact ⟨u8_eq_of (by omega), u8_eq_of (by omega)⟩

/-- the reserved-bit table of the authentication header applied to at least 4 bytes. -/
theorem maskReserved_eq (b0 b1 b2 b3 : UInt8) (r : Bytes) :
    maskReserved .ipAuth (b0 :: b1 :: b2 :: b3 :: r) = b0 :: b1 :: 0 :: 0 :: r := by
  simp [maskReserved, reservedTable, clearBits]
  rfl

end EpModel.Lemmas.CodecNet.Auth
