import EpModel.Lemmas.Defrag
/-
  Helper lemmas for C11: fragments that are consistent with one original payload
  (order / duplication invariance, recovery of the original).
-/
namespace EpModel.Lemmas.Defrag
open EpModel EpModel.Defrag Spec.Reasm

/-- fragment `f` is a piece of the datagram payload `P`: it lies inside `P`, carries the bytes of
    `P` at its position, is flagged last only if it ends where `P` ends, and has a length that is
    a multiple of 8 unless it is flagged last. -/
def Consistent (P : Bytes) (f : Frag) : Prop :=
  f.stop ≤ P.length ∧ f.bytes = (P.drop f.off).take f.bytes.length ∧
  (f.last = true → f.stop = P.length) ∧ (f.last = false → f.bytes.length % 8 = 0)

instance (P : Bytes) (f : Frag) : Decidable (Consistent P f) := by
  unfold Consistent; exact inferInstance

theorem consistent_byte {P : Bytes} {f : Frag} (h : Consistent P f) {i : Nat}
    (h1 : f.off ≤ i) (h2 : i < f.stop) : f.bytes[i - f.off]? = P[i]? := by
  obtain ⟨hs, hb, _, _⟩ := h
  rw [hb, List.getElem?_take, List.getElem?_drop]
  unfold Frag.stop at h2 hs
  have : i - f.off < f.bytes.length := by omega
  simp only [this, if_true]
  congr 1; omega

theorem byteAt_consistent {P : Bytes} : ∀ {fs : List Frag}, (∀ g ∈ fs, Consistent P g) →
    ∀ i, covered fs i → byteAt fs i = P[i]?
  | [], _, i, hc => by simp [covered] at hc
  | f :: fs, h, i, hc => by
    simp only [byteAt]
    split
    · rename_i hin
      exact consistent_byte (h f (by simp)) hin.1 hin.2
    · rename_i hout
      rw [covered_cons] at hc
      rcases hc with hc | hc
      · exact absurd hc hout
      · exact byteAt_consistent (fun g hg => h g (by simp [hg])) i hc

theorem endOf_consistent {P : Bytes} : ∀ {fs : List Frag}, (∀ g ∈ fs, Consistent P g) →
    ∀ e, endOf fs = some e → e = P.length
  | [], _, e, he => by simp [endOf] at he
  | f :: fs, h, e, he => by
    simp only [endOf] at he
    split at he
    · rename_i hl
      cases he
      exact (h f (by simp)).2.2.1 hl
    · exact endOf_consistent (fun g hg => h g (by simp [hg])) e he

theorem endOf_isSome_iff : ∀ (fs : List Frag), (endOf fs).isSome ↔ ∃ g ∈ fs, g.last = true
  | [] => by simp [endOf]
  | f :: fs => by
    simp only [endOf]
    split
    · rename_i hl; simp [hl]
    · rename_i hl
      rw [endOf_isSome_iff fs]
      simp [hl]

theorem extent_consistent {P : Bytes} : ∀ {fs : List Frag}, (∀ g ∈ fs, Consistent P g) →
    extent fs ≤ P.length
  | [], _ => by simp [extent]
  | f :: fs, h => by
    simp only [extent]
    have h1 := (h f (by simp)).1
    have h2 : extent fs ≤ P.length :=
      extent_consistent (fs := fs) (fun g hg => h g (by simp [hg]))
    omega

/-- pieces of one payload are never rejected, in whatever order they arrive -/
theorem check_consistent {P : Bytes} (hP : P.length ≤ 65535) {fs : List Frag}
    (h : ∀ g ∈ fs, Consistent P g) {f : Frag} (hf : Consistent P f) : check fs f = none := by
  obtain ⟨h1, _, h3, h4⟩ := hf
  unfold check
  have c1 : ¬ f.stop > 65535 := by omega
  have c2 : ¬ (f.last = false ∧ f.bytes.length % 8 ≠ 0) := fun hh => hh.2 (h4 hh.1)
  simp only [c1, c2, if_false]
  cases he : endOf fs with
  | some e =>
    have := endOf_consistent h e he
    subst this
    simp only []
    have c3 : ¬ (P.length < f.stop ∨ (f.last = true ∧ f.stop ≠ P.length)) := by
      rintro (hh | ⟨hl, hne⟩)
      · omega
      · exact hne (h3 hl)
    simp only [c3, if_false]
  | none =>
    simp only []
    have := extent_consistent h
    have c3 : ¬ (f.last = true ∧ f.stop < extent fs) := by
      rintro ⟨hl, hlt⟩
      have := h3 hl; omega
    simp only [c3, if_false]

/-- completeness of consistent facts depends only on *which* fragments were delivered -/
theorem emit_isSome_consistent {P : Bytes} {fs : List Frag} (h : ∀ g ∈ fs, Consistent P g) :
    (emit fs).isSome ↔ (∃ g ∈ fs, g.last = true) ∧ ∀ i, i < P.length → covered fs i := by
  rw [emit_isSome_iff, ← endOf_isSome_iff]
  constructor
  · rintro ⟨e, he, hc⟩
    have := endOf_consistent h e he
    subst this
    exact ⟨by simp [he], hc⟩
  · rintro ⟨hs, hc⟩
    cases he : endOf fs with
    | none => simp [he] at hs
    | some e =>
      have := endOf_consistent h e he
      subst this
      exact ⟨_, he, hc⟩

/-- the payload assembled from consistent facts is the original -/
theorem emit_consistent {P : Bytes} {fs : List Frag} (h : ∀ g ∈ fs, Consistent P g) {bs : Bytes}
    (he : emit fs = some bs) : bs = P := by
  unfold emit at he
  split at he
  · rename_i e hend
    have := endOf_consistent h e hend
    subst this
    split at he
    · rename_i hc
      cases he
      apply List.ext_getElem?
      intro i
      simp only [payload, List.getElem?_map]
      by_cases hi : i < P.length
      · rw [List.getElem?_range hi, Option.map_some, byteAt_consistent h i (hc i hi),
          List.getElem?_eq_getElem hi]
        rfl
      · rw [List.getElem?_eq_none (by simp; omega), List.getElem?_eq_none (by omega)]
        rfl
    · cases he
  · cases he

/-- **order / duplication invariance**: two fact lists with the same members (any permutation, any
    duplication) that are pieces of one payload emit the same thing. -/
theorem emit_order_invariant {P : Bytes} {fs1 fs2 : List Frag} (h : ∀ g ∈ fs1, Consistent P g)
    (hm : ∀ g, g ∈ fs1 ↔ g ∈ fs2) : emit fs1 = emit fs2 := by
  have h2 : ∀ g ∈ fs2, Consistent P g := fun g hg => h g ((hm g).2 hg)
  have hiff : (emit fs1).isSome ↔ (emit fs2).isSome := by
    rw [emit_isSome_consistent h, emit_isSome_consistent h2]
    simp only [covered]
    constructor
    · rintro ⟨⟨g, hg, hl⟩, hc⟩
      refine ⟨⟨g, (hm g).1 hg, hl⟩, fun i hi => ?_⟩
      obtain ⟨f, hf, hh⟩ := hc i hi
      exact ⟨f, (hm f).1 hf, hh⟩
    · rintro ⟨⟨g, hg, hl⟩, hc⟩
      refine ⟨⟨g, (hm g).2 hg, hl⟩, fun i hi => ?_⟩
      obtain ⟨f, hf, hh⟩ := hc i hi
      exact ⟨f, (hm f).2 hf, hh⟩
  cases h1 : emit fs1 with
  | none =>
    cases h2' : emit fs2 with
    | none => rfl
    | some b => rw [h1, h2'] at hiff; simp at hiff
  | some a =>
    cases h2' : emit fs2 with
    | none => rw [h1, h2'] at hiff; simp at hiff
    | some b => rw [emit_consistent h h1, emit_consistent h2 h2']

/-- every byte of an emitted payload is a byte of an accepted fragment at that position -/
theorem emit_bytes_delivered {fs : List Frag} {bs : Bytes} (he : emit fs = some bs) (i : Nat)
    (hi : i < bs.length) : ∃ f ∈ fs, f.off ≤ i ∧ i < f.stop ∧ bs[i]? = f.bytes[i - f.off]? := by
  unfold emit at he
  split at he
  · rename_i e hend
    split at he
    · rename_i hc
      cases he
      have hie : i < e := by simpa [payload] using hi
      have hcov := hc i hie
      simp only [payload, List.getElem?_map, List.getElem?_range hie, Option.map_some]
      clear hc hend hi
      induction fs with
      | nil => simp [covered] at hcov
      | cons f fs ih =>
        simp only [byteAt]
        split
        · rename_i hin
          refine ⟨f, by simp, hin.1, hin.2, ?_⟩
          have : i - f.off < f.bytes.length := by have := hin.2; unfold Frag.stop at this; omega
          rw [List.getElem?_eq_getElem this]; rfl
        · rename_i hout
          rw [covered_cons] at hcov
          rcases hcov with hcov | hcov
          · exact absurd hcov hout
          · obtain ⟨g, hg, h1, h2, h3⟩ := ih hcov
            exact ⟨g, by simp [hg], h1, h2, h3⟩
    · cases he
  · cases he

end EpModel.Lemmas.Defrag
