import EpModel.Model.Io
import EpModel.Model.Ipv6Exts
import EpModel.Lemmas.CodecNetAuth
import EpModel.Lemmas.CodecNetRawExt
import EpModel.Lemmas.Ext
import EpModel.Model.Dec.Ip
/-
  C06, readers vs slices: every `read` function (read programs of Model/Io.lean, namespace `Reads`, and
  `ipHeadersRead`, tied to the code by the `io.read.*` correspondence of C16) against the `from_slice` of the
  same header type (Model/Codec/*.lean: `enc.*` correspondence of C08; Model/Ipv6Exts.lean `Ext.Exts.fromSlice`:
  `ext.from_slice` of C12; Model/Dec/Ip.lean `Dec.ipHeadersFromSlice`: `dec.*`).

  Glue defined here (not in Model/): the reader that stands at the start of a byte string and never fails on
  its own (`readerAt`), the three outcomes of a read program on it (`ReadsOk`, `ReadsEof`, `ReadsContent`), the
  byte-string semantics of a read program (`evalOn`, with `run_at`) and of a limited read program over a
  `LimitedReader` (`evalOnL`, with `runL_adv`), the canonical text of the content errors of the slice decoders
  (`linkText`, `ipv4ErrText`, … - the strings of the drivers), and the decoding of what the composite readers
  gather (`gathered`, `decodeGot`, `GotMatch`, `IpViewMatch`).

  For every header type there is one *table* lemma (`*_table`): for each outcome of the slice decoder, what the
  read program does on the same bytes.  Since both are functions, the table determines both directions; the
  theorems of Props/C06.lean are read off it.  Sections: single headers of the link, transport and network
  layer; Ipv4Extensions; Ipv6Extensions (`loop_rel`: induction along `Ext.fromSliceLoop` with the reader's
  free-slot list in step, `fromSliceLoop_take`: the decoder only looks at what it consumes); LimitedReader
  semantics, the limited extension chain against the struct-mode chain walk `Dec.extsLoop` (`lchain_rel`),
  and `IpHeaders::read` against `IpHeaders::from_slice` (`ipheaders_table`).
-/
namespace EpModel.Lemmas.ReadVsSlice
open EpModel EpModel.Io

/-! ## readers over a byte string -/

/-- the reader over `pre ++ b` that has handed out `pre` and `n` bytes of `b`; it has no injected
    fault, it only runs dry at the end of `b`. -/
def readerAdv (pre b : Bytes) (n : Nat) : Reader :=
  { data := pre ++ b, pos := pre.length + n, failAt := none }

/-- the reader that stands at the start of `b` (`pre = []`: a fresh reader over `b`). -/
def readerAt (pre b : Bytes) : Reader := readerAdv pre b 0

/-- the read program succeeds with `a`, having consumed exactly `n` bytes of `b`. -/
def ReadsOk {α : Type} (p : RProg α) (pre b : Bytes) (n : Nat) (a : α) : Prop :=
  p.run (readerAt pre b) = (readerAdv pre b n, .ok a)

/-- the read program ends in the reader's end-of-data error; everything was consumed. -/
def ReadsEof {α : Type} (p : RProg α) (pre b : Bytes) : Prop :=
  p.run (readerAt pre b) = (readerAdv pre b b.length, .error (.io .unexpectedEof))

/-- the read program ends in the content error with canonical text `s` after `n` bytes. -/
def ReadsContent {α : Type} (p : RProg α) (pre b : Bytes) (n : Nat) (s : String) : Prop :=
  p.run (readerAt pre b) = (readerAdv pre b n, .error (.other s))

/-- byte-string semantics of a read program: result and number of bytes consumed. -/
def evalOn {α : Type} : RProg α → Bytes → Except RErr α × Nat
  | .done (.ok a), _ => (.ok a, 0)
  | .done (.error s), _ => (.error (.other s), 0)
  | .read n k, b =>
    if n ≤ b.length then
      ((evalOn (k (b.take n)) (b.drop n)).1, n + (evalOn (k (b.take n)) (b.drop n)).2)
    else (.error (.io .unexpectedEof), b.length)

theorem run_adv {α : Type} (p : RProg α) (pre b : Bytes) (m : Nat) (hm : m ≤ b.length) :
    p.run (readerAdv pre b m) =
      (readerAdv pre b (m + (evalOn p (b.drop m)).2), (evalOn p (b.drop m)).1) := by
  induction p generalizing m with
  | done res => cases res <;> simp [RProg.run, evalOn]
  | read n k ih =>
    by_cases hn : n = 0
    · subst hn
      have : (readerAdv pre b m).readExact 0 = (readerAdv pre b m, .ok []) := by simp [Reader.readExact]
      simp only [RProg.run, this, evalOn, Nat.zero_le, if_true, List.take_zero, List.drop_zero, Nat.zero_add]
      exact ih [] m hm
    · by_cases hfit : n ≤ (b.drop m).length
      · have hfit' : m + n ≤ b.length := by simp at hfit; omega
        have : (readerAdv pre b m).readExact n = (readerAdv pre b (m + n), .ok ((b.drop m).take n)) := by
          have e2 : List.drop (pre.length + m) pre = [] := List.drop_eq_nil_of_le (by omega)
          simp [Reader.readExact, readerAdv, Reader.limit, hn, sub, List.drop_append, e2, Nat.add_assoc, hfit']
        simp only [RProg.run, this, evalOn, hfit, if_true]
        rw [ih _ (m + n) hfit']
        simp [List.drop_drop, Nat.add_assoc]
      · have hfit' : ¬ m + n ≤ b.length := by simp at hfit; omega
        have : (readerAdv pre b m).readExact n = (readerAdv pre b b.length, .error .unexpectedEof) := by
          have e1 : ¬ pre.length + m + n ≤ pre.length + b.length := by omega
          have e2 : max m b.length = b.length := by omega
          simp [Reader.readExact, readerAdv, Reader.limit, Reader.dryError, hn, e1, e2]
        simp only [RProg.run, this, evalOn, hfit, if_false]
        simp; congr 1; omega

/-- running a read program on the reader at the start of `b` is its byte-string semantics. -/
theorem run_at {α : Type} (p : RProg α) (pre b : Bytes) :
    p.run (readerAt pre b) = (readerAdv pre b (evalOn p b).2, (evalOn p b).1) := by
  have := run_adv p pre b 0 (Nat.zero_le _)
  simpa [readerAt] using this

theorem readsOk_of_eval {α : Type} {p : RProg α} {pre b : Bytes} {n : Nat} {a : α}
    (h : evalOn p b = (.ok a, n)) : ReadsOk p pre b n a := by
  unfold ReadsOk; rw [run_at, h]

theorem readsEof_of_eval {α : Type} {p : RProg α} {pre b : Bytes}
    (h : evalOn p b = (.error (.io .unexpectedEof), b.length)) : ReadsEof p pre b := by
  unfold ReadsEof; rw [run_at, h]

theorem readsContent_of_eval {α : Type} {p : RProg α} {pre b : Bytes} {n : Nat} {s : String}
    (h : evalOn p b = (.error (.other s), n)) : ReadsContent p pre b n s := by
  unfold ReadsContent; rw [run_at, h]

/-- the three outcomes exclude each other (used to read the converse directions off a table). -/
theorem readerAdv_inj {pre b : Bytes} {n m : Nat} (h : readerAdv pre b n = readerAdv pre b m) : n = m := by
  simp [readerAdv] at h; exact h

theorem ReadsOk.fst {α : Type} {p : RProg α} {pre b : Bytes} {n : Nat} {a : α} (t : ReadsOk p pre b n a) :
    (p.run (readerAt pre b)).1 = readerAdv pre b n := by rw [t]
theorem ReadsOk.snd {α : Type} {p : RProg α} {pre b : Bytes} {n : Nat} {a : α} (t : ReadsOk p pre b n a) :
    (p.run (readerAt pre b)).2 = .ok a := by rw [t]
theorem ReadsEof.fst {α : Type} {p : RProg α} {pre b : Bytes} (t : ReadsEof p pre b) :
    (p.run (readerAt pre b)).1 = readerAdv pre b b.length := by rw [t]
theorem ReadsEof.snd {α : Type} {p : RProg α} {pre b : Bytes} (t : ReadsEof p pre b) :
    (p.run (readerAt pre b)).2 = .error (.io .unexpectedEof) := by rw [t]
theorem ReadsContent.fst {α : Type} {p : RProg α} {pre b : Bytes} {n : Nat} {s : String}
    (t : ReadsContent p pre b n s) : (p.run (readerAt pre b)).1 = readerAdv pre b n := by rw [t]
theorem ReadsContent.snd {α : Type} {p : RProg α} {pre b : Bytes} {n : Nat} {s : String}
    (t : ReadsContent p pre b n s) : (p.run (readerAt pre b)).2 = .error (.other s) := by rw [t]

/-! ## bytes of a prefix -/

theorem bAt_take (b : Bytes) (n i : Nat) (h : i < n) : bAt (b.take n) i = bAt b i := by
  simp [bAt, List.getD_eq_getElem?_getD, h]

theorem be16_take (b : Bytes) (n i : Nat) (h : i + 1 < n) : be16 (b.take n) i = be16 b i := by
  unfold be16; rw [bAt_take b n i (by omega), bAt_take b n (i + 1) h]

theorem be32_take (b : Bytes) (n i : Nat) (h : i + 3 < n) : be32 (b.take n) i = be32 b i := by
  unfold be32
  rw [bAt_take b n i (by omega), bAt_take b n (i + 1) (by omega), bAt_take b n (i + 2) (by omega),
    bAt_take b n (i + 3) h]

theorem be64_take (b : Bytes) (n i : Nat) (h : i + 7 < n) : Codec.be64 (b.take n) i = Codec.be64 b i := by
  unfold Codec.be64; rw [be32_take b n i (by omega), be32_take b n (i + 4) (by omega)]

theorem sub_take (b : Bytes) (n o l : Nat) (h : o + l ≤ n) : sub (b.take n) o l = sub b o l := by
  unfold sub
  rw [List.drop_take, List.take_take]
  congr 1; omega

theorem drop_take_self (b : Bytes) (n : Nat) : (b.take n).drop n = [] :=
  List.drop_eq_nil_of_le (by simp [List.length_take]; omega)

theorem take_len_sub_drop (b : Bytes) (n : Nat) (h : n ≤ b.length) :
    b.length - (b.drop n).length = n := by simp [List.length_drop]; omega

/-- the row of a table for a successful slice decoding: the read program succeeds, gathers exactly
    the bytes in front of `rest`, consumes exactly those, and decoding them gives the same header. -/
def OkRow {ε H : Type} (p : RProg Bytes) (dec : Bytes → Except ε (H × Bytes)) (pre b : Bytes) (h : H)
    (rest : Bytes) : Prop :=
  ReadsOk p pre b (b.length - rest.length) (b.take (b.length - rest.length)) ∧
  b = b.take (b.length - rest.length) ++ rest ∧
  dec (b.take (b.length - rest.length)) = .ok (h, [])

theorem okRow_of {ε H : Type} {p : RProg Bytes} {dec : Bytes → Except ε (H × Bytes)} {pre b : Bytes}
    {h : H} (n : Nat) (hn : n ≤ b.length) (he : evalOn p b = (.ok (b.take n), n))
    (hd : dec (b.take n) = .ok (h, [])) : OkRow p dec pre b h (b.drop n) := by
  unfold OkRow
  rw [take_len_sub_drop b n hn]
  exact ⟨readsOk_of_eval he, (List.take_append_drop n b).symm, hd⟩

/-- the converse reading of an `OkRow`: if the read program returns `g`, then `g` is the part of `b` in
    front of `rest`, exactly `g.length` bytes were consumed, and `g` decodes to the same header. -/
theorem OkRow.converse {ε H : Type} {p : RProg Bytes} {dec : Bytes → Except ε (H × Bytes)} {pre b : Bytes}
    {h : H} {rest g : Bytes} (t : OkRow p dec pre b h rest) (hr : (p.run (readerAt pre b)).2 = .ok g) :
    b = g ++ rest ∧ (p.run (readerAt pre b)).1 = readerAdv pre b g.length ∧ dec g = .ok (h, []) := by
  obtain ⟨t1, t2, t3⟩ := t
  rw [t1.snd] at hr
  cases hr
  have hl : (b.take (b.length - rest.length)).length = b.length - rest.length := by
    simp [List.length_take]
  rw [hl]
  exact ⟨t2, t1.fst, t3⟩

theorem evalOn_readN (n : Nat) (b : Bytes) :
    evalOn (readN n) b =
      if n ≤ b.length then (.ok (b.take n), n) else (.error (.io .unexpectedEof), b.length) := by
  simp [readN, evalOn]


/-! ## link layer -/

section Link
open EpModel.Codec

theorem eth2_table (pre b : Bytes) :
    match Eth2.fromSlice b with
    | .ok (h, rest) => OkRow Reads.eth2 Eth2.fromSlice pre b h rest
    | .error e => e = lenErrSlice 14 b.length "Ethernet2Header" ∧ b.length < 14 ∧ ReadsEof Reads.eth2 pre b := by
  by_cases hl : b.length < 14
  · unfold Eth2.fromSlice; rw [if_pos hl]
    refine ⟨rfl, hl, readsEof_of_eval ?_⟩
    rw [Reads.eth2, evalOn_readN, if_neg (by omega)]
  · unfold Eth2.fromSlice; rw [if_neg hl]
    refine okRow_of 14 (by omega) ?_ ?_
    · rw [Reads.eth2, evalOn_readN, if_pos (by omega)]
    · have : ¬ (b.take 14).length < 14 := by simp [List.length_take]; omega
      simp only [this, if_false, drop_take_self]
      simp (disch := omega) only [sub_take, be16_take]

theorem vlan_table (pre b : Bytes) :
    match Vlan.fromSlice b with
    | .ok (h, rest) => OkRow Reads.vlan Vlan.fromSlice pre b h rest
    | .error e => e = lenErrSlice 4 b.length "VlanHeader" ∧ b.length < 4 ∧ ReadsEof Reads.vlan pre b := by
  by_cases hl : b.length < 4
  · unfold Vlan.fromSlice; rw [if_pos hl]
    refine ⟨rfl, hl, readsEof_of_eval ?_⟩
    rw [Reads.vlan, evalOn_readN, if_neg (by omega)]
  · unfold Vlan.fromSlice; rw [if_neg hl]
    refine okRow_of 4 (by omega) ?_ ?_
    · rw [Reads.vlan, evalOn_readN, if_pos (by omega)]
    · have : ¬ (b.take 4).length < 4 := by simp [List.length_take]; omega
      simp only [this, if_false, drop_take_self]
      simp (disch := omega) only [bAt_take, be16_take]

theorem udp_table (pre b : Bytes) :
    match Udp.fromSlice b with
    | .ok (h, rest) => OkRow Reads.udp Udp.fromSlice pre b h rest
    | .error e => e = lenErrSlice 8 b.length "UdpHeader" ∧ b.length < 8 ∧ ReadsEof Reads.udp pre b := by
  by_cases hl : b.length < 8
  · unfold Udp.fromSlice; rw [if_pos hl]
    refine ⟨rfl, hl, readsEof_of_eval ?_⟩
    rw [Reads.udp, evalOn_readN, if_neg (by omega)]
  · unfold Udp.fromSlice; rw [if_neg hl]
    refine okRow_of 8 (by omega) ?_ ?_
    · rw [Reads.udp, evalOn_readN, if_pos (by omega)]
    · have : ¬ (b.take 8).length < 8 := by simp [List.length_take]; omega
      simp only [this, if_false, drop_take_self]
      simp (disch := omega) only [be16_take]

/-- canonical text of a content error of the link / transport decoders; `none`: not a content error -/
def linkText : Codec.Err → Option String
  | .content w => some (Err.render (.content w))
  | _ => none

theorem sll_take (b : Bytes) (h16 : 16 ≤ b.length) :
    Sll.fromSlice (b.take 16) =
      match Sll.fromSlice b with
      | .ok (h, _) => .ok (h, [])
      | .error e => .error e := by
  have h1 : ¬ (b.take 16).length < 16 := by simp [List.length_take]; omega
  have h2 : ¬ b.length < 16 := by omega
  unfold Sll.fromSlice
  rw [if_neg h1, if_neg h2]
  simp (disch := omega) only [be16_take, sub_take, drop_take_self]
  cases Sll.ptypeTryFrom (be16 b 0) with
  | error e => rfl
  | ok pt =>
    cases sllProtoTryFrom (be16 b 2) (be16 b 14) with
    | error e => rfl
    | ok p => rfl

theorem ptype_err_content (v : Nat) (e : Codec.Err) (he : Sll.ptypeTryFrom v = .error e) :
    ∃ w, e = .content w := by
  unfold Sll.ptypeTryFrom at he
  split at he
  · contradiction
  · cases he; exact ⟨_, rfl⟩

theorem sllProto_err_content (a v : Nat) (e : Codec.Err) (he : sllProtoTryFrom a v = .error e) :
    ∃ w, e = .content w := by
  unfold sllProtoTryFrom at he
  repeat' split at he
  all_goals first | contradiction | (cases he; exact ⟨_, rfl⟩)

theorem sll_err_content (b : Bytes) (h16 : 16 ≤ b.length) (e : Codec.Err) (he : Sll.fromSlice b = .error e) :
    ∃ w, e = .content w := by
  have h2 : ¬ b.length < 16 := by omega
  unfold Sll.fromSlice at he
  rw [if_neg h2] at he
  cases h1 : Sll.ptypeTryFrom (be16 b 0) with
  | error e1 => rw [h1] at he; cases he; exact ptype_err_content _ _ h1
  | ok pt =>
    rw [h1] at he
    cases h3 : sllProtoTryFrom (be16 b 2) (be16 b 14) with
    | error e1 => rw [h3] at he; cases he; exact sllProto_err_content _ _ _ h3
    | ok p => rw [h3] at he; cases he

theorem sll_table (pre b : Bytes) :
    match Sll.fromSlice b with
    | .ok (h, rest) => OkRow Reads.sll Sll.fromSlice pre b h rest
    | .error e =>
      (b.length < 16 ∧ e = lenErrSlice 16 b.length "LinuxSllHeader" ∧ ReadsEof Reads.sll pre b) ∨
      (16 ≤ b.length ∧ (∃ w, e = .content w) ∧ ReadsContent Reads.sll pre b 16 e.render) := by
  by_cases hl : b.length < 16
  · have : Sll.fromSlice b = .error (lenErrSlice 16 b.length "LinuxSllHeader") := by
      unfold Sll.fromSlice; rw [if_pos hl]
    rw [this]
    refine .inl ⟨hl, rfl, readsEof_of_eval ?_⟩
    simp only [Reads.sll, evalOn]; rw [if_neg (by omega)]
  · have h16 : 16 ≤ b.length := by omega
    have ht := sll_take b h16
    have hev : evalOn Reads.sll b =
        (match Sll.fromSlice (b.take 16) with
         | .ok _ => (.ok (b.take 16), 16)
         | .error e => (.error (.other e.render), 16)) := by
      simp only [Reads.sll, evalOn]; rw [if_pos h16]
      cases Sll.fromSlice (b.take 16) <;> rfl
    cases hd : Sll.fromSlice b with
    | error e =>
      rw [hd] at ht
      rw [ht] at hev
      exact .inr ⟨h16, sll_err_content b h16 e hd, readsContent_of_eval hev⟩
    | ok x =>
      obtain ⟨h, rest⟩ := x
      rw [hd] at ht
      rw [ht] at hev
      have hr : rest = b.drop 16 := by
        unfold Sll.fromSlice at hd
        rw [if_neg hl] at hd
        repeat' split at hd
        all_goals first | contradiction | (cases hd; rfl)
      subst hr
      exact okRow_of 16 h16 hev ht

def macsecReq (b : Bytes) : Nat :=
  6 + (if (bAt b 0 &&& 0b1100) = 0 then 2 else 0) + (if (bAt b 0 &&& 0b10_0000) ≠ 0 then 8 else 0)

set_option maxRecDepth 8000 in
theorem bits12 : ∀ t, t < 256 → ((t &&& 12 = 0) ↔ (t &&& 8 = 0 ∧ t &&& 4 = 0)) := by decide

/-- the header `MacsecHeaderSlice::to_header` builds (the success branch of `Macsec.fromSlice`) -/
def macsecHdr (b : Bytes) : Macsec :=
  { ptype :=
      if (bAt b 0 &&& 0b1000) ≠ 0 then (if (bAt b 0 &&& 0b100) ≠ 0 then .encrypted else .encryptedUnmodified)
      else if (bAt b 0 &&& 0b100) ≠ 0 then .modified
      else if (bAt b 0 &&& 0b10_0000) ≠ 0 then .unmodified (be16 b 14)
      else .unmodified (be16 b 6),
    es := (bAt b 0 &&& 0b100_0000) ≠ 0,
    scb := (bAt b 0 &&& 0b1_0000) ≠ 0,
    an := bAt b 0 &&& 0b11,
    sl := bAt b 1 &&& 0b0011_1111,
    pn := be32 b 2,
    sci := if (bAt b 0 &&& 0b10_0000) ≠ 0 then some (be64 b 6) else none }

theorem macsec_dec (b : Bytes) :
    Macsec.fromSlice b =
      if b.length < 6 then .error (lenErrSlice 6 b.length "MacsecHeader")
      else if (bAt b 0 &&& 0b1000_0000) ≠ 0 then .error (.content "UnexpectedVersion")
      else if (bAt b 0 &&& 0b1100) = 0 ∧ (bAt b 1 &&& 0b0011_1111) = 1 then
        .error (.content "InvalidUnmodifiedShortLen")
      else if b.length < macsecReq b then .error (lenErrSlice (macsecReq b) b.length "MacsecHeader")
      else .ok (macsecHdr b, b.drop (macsecReq b)) := by
  unfold Macsec.fromSlice macsecReq macsecHdr
  simp only [decide_eq_true_eq]

theorem macsecHdr_take (b : Bytes) :
    macsecHdr (b.take (macsecReq b)) = macsecHdr b := by
  have ht := bAt_lt b 0
  have hb := bits12 _ ht
  have hreq6 : 6 ≤ macsecReq b := by unfold macsecReq; omega
  unfold macsecHdr
  simp (disch := omega) only [bAt_take, be32_take]
  by_cases hsci : (bAt b 0 &&& 0b10_0000) ≠ 0
  · have h14 : 14 ≤ macsecReq b := by unfold macsecReq; rw [if_pos hsci]; omega
    rw [be64_take b _ 6 (by omega)]
    by_cases h8 : (bAt b 0 &&& 0b1000) ≠ 0
    · simp only [if_pos h8]
    · by_cases h4 : (bAt b 0 &&& 0b100) ≠ 0
      · simp only [if_neg h8, if_pos h4]
      · have h12 : bAt b 0 &&& 12 = 0 := hb.2 ⟨by simpa using h8, by simpa using h4⟩
        have : 16 ≤ macsecReq b := by unfold macsecReq; rw [if_pos hsci, if_pos h12]; omega
        rw [be16_take b _ 14 (by omega)]
        simp only [if_neg h8, if_neg h4, if_pos hsci]
  · simp only [if_neg hsci]
    by_cases h8 : (bAt b 0 &&& 0b1000) ≠ 0
    · simp only [if_pos h8]
    · by_cases h4 : (bAt b 0 &&& 0b100) ≠ 0
      · simp only [if_neg h8, if_pos h4]
      · have h12 : bAt b 0 &&& 12 = 0 := hb.2 ⟨by simpa using h8, by simpa using h4⟩
        have : 8 ≤ macsecReq b := by unfold macsecReq; rw [if_pos h12]; omega
        rw [be16_take b _ 6 (by omega)]

theorem macsecReq_take (b : Bytes) (n : Nat) (hn : 0 < n) : macsecReq (b.take n) = macsecReq b := by
  unfold macsecReq; rw [bAt_take b n 0 hn]

theorem macsec_eval (b : Bytes) :
    evalOn Reads.macsec b =
      if b.length < 6 then (.error (.io .unexpectedEof), b.length)
      else if (bAt b 0 &&& 0b1000_0000) ≠ 0 then (.error (.other "err(content(UnexpectedVersion))"), 6)
      else if (bAt b 0 &&& 0b1100) = 0 ∧ (bAt b 1 &&& 0b0011_1111) = 1 then
        (.error (.other "err(content(InvalidUnmodifiedShortLen))"), 6)
      else if b.length < macsecReq b then (.error (.io .unexpectedEof), b.length)
      else (.ok (b.take (macsecReq b)), macsecReq b) := by
  by_cases hl : b.length < 6
  · rw [if_pos hl]; simp only [Reads.macsec, evalOn]; rw [if_neg (by omega)]
  · rw [if_neg hl]
    have h6 : 6 ≤ b.length := by omega
    simp only [Reads.macsec, evalOn]; rw [if_pos h6]
    simp (disch := omega) only [bAt_take]
    by_cases hv : (bAt b 0 &&& 0b1000_0000) ≠ 0
    · rw [if_pos hv, if_pos hv]; rfl
    · rw [if_neg hv, if_neg hv]
      by_cases hs : (bAt b 0 &&& 0b1100) = 0 ∧ (bAt b 1 &&& 0b0011_1111) = 1
      · rw [if_pos hs, if_pos (by simpa using hs)]; rfl
      · rw [if_neg hs, if_neg (by simpa using hs)]
        simp only [decide_eq_true_eq]
        have hreq : (6 + (if (bAt b 0 &&& 0b1100) = 0 then 2 else 0) + (if (bAt b 0 &&& 0b10_0000) ≠ 0 then 8 else 0)) = macsecReq b := rfl
        rw [hreq]
        by_cases hg : macsecReq b > 6
        · rw [if_pos hg]
          simp only [evalOn, List.length_drop]
          by_cases hr : b.length < macsecReq b
          · rw [if_pos hr, if_neg (by omega)]; simp only [Prod.mk.injEq, true_and]; omega
          · rw [if_neg hr, if_pos (by omega)]
            have : 6 + (macsecReq b - 6) = macsecReq b := by omega
            rw [← List.take_add, this]; simp only [Prod.mk.injEq, true_and]; omega
        · rw [if_neg hg, if_neg (by omega)]
          have : macsecReq b = 6 := by unfold macsecReq at hg ⊢; omega
          rw [this]; rfl

theorem macsec_table (pre b : Bytes) :
    match Macsec.fromSlice b with
    | .ok (h, rest) => OkRow Reads.macsec Macsec.fromSlice pre b h rest
    | .error e =>
      ((∃ le, e = .len le) ∧ ReadsEof Reads.macsec pre b) ∨
      (6 ≤ b.length ∧ (∃ w, e = .content w) ∧ ReadsContent Reads.macsec pre b 6 e.render) := by
  have he := macsec_eval b
  rw [macsec_dec b]
  by_cases hl : b.length < 6
  · rw [if_pos hl] at he ⊢; exact .inl ⟨⟨_, rfl⟩, readsEof_of_eval he⟩
  · rw [if_neg hl] at he ⊢
    by_cases hv : (bAt b 0 &&& 0b1000_0000) ≠ 0
    · rw [if_pos hv] at he ⊢; exact .inr ⟨by omega, ⟨_, rfl⟩, readsContent_of_eval he⟩
    · rw [if_neg hv] at he ⊢
      by_cases hs : (bAt b 0 &&& 0b1100) = 0 ∧ (bAt b 1 &&& 0b0011_1111) = 1
      · rw [if_pos hs] at he ⊢; exact .inr ⟨by omega, ⟨_, rfl⟩, readsContent_of_eval he⟩
      · rw [if_neg hs] at he ⊢
        by_cases hr : b.length < macsecReq b
        · rw [if_pos hr] at he ⊢; exact .inl ⟨⟨_, rfl⟩, readsEof_of_eval he⟩
        · rw [if_neg hr] at he ⊢
          have hreq6 : 6 ≤ macsecReq b := by unfold macsecReq; omega
          refine okRow_of (macsecReq b) (by omega) he ?_
          have hlen : (b.take (macsecReq b)).length = macsecReq b := by simp [List.length_take]; omega
          rw [macsec_dec, hlen, macsecReq_take b _ (by omega), bAt_take b _ 0 (by omega),
            bAt_take b _ 1 (by omega), if_neg (by omega), if_neg hv, if_neg hs, if_neg (by omega),
            macsecHdr_take b, drop_take_self]

/-! ### ARP -/

/-- `ArpPacketSlice::from_slice`: the length the two address sizes announce -/
def arpLen (b : Bytes) : Nat := 8 + bAt b 4 * 2 + bAt b 5 * 2

theorem arp_eval (b : Bytes) :
    evalOn Reads.arp b =
      if b.length < 8 ∨ b.length < arpLen b then (.error (.io .unexpectedEof), b.length)
      else (.ok (b.take (arpLen b)), arpLen b) := by
  unfold arpLen
  by_cases h8 : b.length < 8
  · rw [if_pos (.inl h8)]; simp only [Reads.arp, evalOn]; rw [if_neg (by omega)]
  · simp only [Reads.arp, evalOn]
    rw [if_pos (by omega)]
    simp (disch := omega) only [bAt_take, List.length_drop, List.drop_drop]
    generalize bAt b 4 = hs
    generalize bAt b 5 = ps
    by_cases h1 : hs ≤ b.length - 8
    · rw [if_pos h1]
      by_cases h2 : ps ≤ b.length - (8 + hs)
      · rw [if_pos h2]
        by_cases h3 : hs ≤ b.length - (8 + hs + ps)
        · rw [if_pos h3]
          by_cases h4 : ps ≤ b.length - (8 + hs + ps + hs)
          · rw [if_pos h4, if_neg (by omega)]
            simp only [← List.take_add]
            simp only [Prod.mk.injEq]
            refine ⟨by congr 2; omega, by omega⟩
          · rw [if_neg h4, if_pos (by omega)]; simp only [Prod.mk.injEq, true_and]; omega
        · rw [if_neg h3, if_pos (by omega)]; simp only [Prod.mk.injEq, true_and]; omega
      · rw [if_neg h2, if_pos (by omega)]; simp only [Prod.mk.injEq, true_and]; omega
    · rw [if_neg h1, if_pos (by omega)]; simp only [Prod.mk.injEq, true_and]; omega

/-- the packet `ArpPacketSlice::to_packet` builds (the success branch of `Arp.fromSlice`) -/
def arpHdr (b : Bytes) : Arp :=
  { hw := be16 b 0, proto := be16 b 2, op := be16 b 6,
    shw := sub b 8 (bAt b 4),
    sp := sub b (8 + bAt b 4) (bAt b 5),
    thw := sub b (8 + bAt b 4 + bAt b 5) (bAt b 4),
    tp := sub b (8 + bAt b 4 * 2 + bAt b 5) (bAt b 5) }

theorem arp_dec (b : Bytes) :
    Arp.fromSlice b =
      if b.length < 8 then .error (lenErrSlice 8 b.length "Arp")
      else if b.length < arpLen b then
        .error (.len { req := arpLen b, len := b.length, src := "ArpAddrLengths", layer := "Arp" })
      else .ok (arpHdr b, b.drop (arpLen b)) := rfl

theorem arpLen_take (b : Bytes) (n : Nat) (hn : 8 ≤ n) : arpLen (b.take n) = arpLen b := by
  unfold arpLen; rw [bAt_take b n 4 (by omega), bAt_take b n 5 (by omega)]

theorem arpHdr_take (b : Bytes) : arpHdr (b.take (arpLen b)) = arpHdr b := by
  have h : 8 + bAt b 4 * 2 + bAt b 5 * 2 = arpLen b := rfl
  unfold arpHdr
  simp (disch := omega) only [bAt_take, be16_take, sub_take]

theorem arp_table (pre b : Bytes) :
    match Arp.fromSlice b with
    | .ok (h, rest) => OkRow Reads.arp Arp.fromSlice pre b h rest
    | .error e => (∃ le, e = .len le) ∧ (b.length < 8 ∨ b.length < arpLen b) ∧ ReadsEof Reads.arp pre b := by
  have he := arp_eval b
  rw [arp_dec b]
  by_cases h8 : b.length < 8
  · rw [if_pos (.inl h8)] at he; rw [if_pos h8]
    exact ⟨⟨_, rfl⟩, .inl h8, readsEof_of_eval he⟩
  · rw [if_neg h8]
    by_cases hr : b.length < arpLen b
    · rw [if_pos (.inr hr)] at he; rw [if_pos hr]
      exact ⟨⟨_, rfl⟩, .inr hr, readsEof_of_eval he⟩
    · rw [if_neg (by omega)] at he; rw [if_neg hr]
      have h8' : 8 ≤ arpLen b := by unfold arpLen; omega
      refine okRow_of (arpLen b) (by omega) he ?_
      have hlen : (b.take (arpLen b)).length = arpLen b := by simp [List.length_take]; omega
      rw [arp_dec, hlen, arpLen_take b _ h8', if_neg (by omega), if_neg (by omega), arpHdr_take,
        drop_take_self]

end Link

/-! ## transport layer -/

section Transport
open EpModel.Codec

/-- `TcpHeaderSlice::from_slice`: the header length the data offset announces -/
def tcpLen (b : Bytes) : Nat := (bAt b 12 &&& 0xf0) >>> 2

set_option maxRecDepth 100000 in
theorem tcp_bits : ∀ x, x < 256 →
    (((x &&& 0xf0) >>> 4 < 5) ↔ ((x &&& 0xf0) >>> 2 < 20)) ∧
    (((x &&& 0xf0) >>> 2) >>> 2) % 256 = (x &&& 0xf0) >>> 4 ∧
    ((x &&& 0xf0) >>> 4) * 4 = (x &&& 0xf0) >>> 2 ∧
    (20 ≤ (x &&& 0xf0) >>> 2 → 20 + (((x &&& 0xf0) >>> 4 - 5) <<< 2) % 256 = (x &&& 0xf0) >>> 2) := by
  decide

theorem tcpText (d : Nat) :
    s!"err(content(DataOffsetTooSmall(data_offset={d})))" =
      Err.render (.content s!"DataOffsetTooSmall(data_offset={d})") := by
  unfold Err.render
  simp only [toString, String.append_assoc]
  have h1 : ")" ++ "))" = ")))" := by decide
  have h2 : "err(content(" ++ "DataOffsetTooSmall(data_offset=" =
      "err(content(DataOffsetTooSmall(data_offset=" := by decide
  rw [h1, ← String.append_assoc (s₁ := "err(content("), h2]

theorem tcp_dec (b : Bytes) :
    Tcp.fromSlice b =
      if b.length < 20 then .error (lenErrSlice 20 b.length "TcpHeader")
      else if tcpLen b < 20 then
        .error (.content s!"DataOffsetTooSmall(data_offset={(tcpLen b >>> 2) % 256})")
      else if b.length < tcpLen b then .error (lenErrSlice (tcpLen b) b.length "TcpHeader")
      else .ok (Tcp.toHeader b, b.drop (tcpLen b)) := rfl

theorem tcp_eval (b : Bytes) :
    evalOn Reads.tcp b =
      if b.length < 20 then (.error (.io .unexpectedEof), b.length)
      else if tcpLen b < 20 then
        (.error (.other (Err.render (.content s!"DataOffsetTooSmall(data_offset={(tcpLen b >>> 2) % 256})"))), 20)
      else if b.length < tcpLen b then (.error (.io .unexpectedEof), b.length)
      else (.ok (b.take (tcpLen b)), tcpLen b) := by
  obtain ⟨k1, k2, k3, k4⟩ := tcp_bits _ (bAt_lt b 12)
  by_cases hl : b.length < 20
  · rw [if_pos hl]; simp only [Reads.tcp, evalOn]; rw [if_neg (by omega)]
  · rw [if_neg hl]
    simp only [Reads.tcp, evalOn]; rw [if_pos (by omega)]
    simp (disch := omega) only [bAt_take]
    by_cases hd : tcpLen b < 20
    · rw [if_pos hd, if_pos (k1.2 hd), tcpText]
      unfold tcpLen; rw [k2]; rfl
    · rw [if_neg hd, if_neg (fun h => hd (k1.1 h))]
      have k4' := k4 (by unfold tcpLen at hd; omega)
      generalize hg : (((bAt b 12 &&& 0xf0) >>> 4 - 5) <<< 2) % 256 = len at k4' ⊢
      have k4'' : 20 + len = tcpLen b := k4'
      by_cases hp : len > 0
      · rw [if_pos hp]
        simp only [evalOn, List.length_drop]
        by_cases hr : b.length < tcpLen b
        · rw [if_pos hr, if_neg (by omega)]; simp only [Prod.mk.injEq, true_and]; omega
        · rw [if_neg hr, if_pos (by omega), ← List.take_add, k4'']
          simp only [Prod.mk.injEq, true_and]; omega
      · rw [if_neg hp, if_neg (by omega)]
        have : tcpLen b = 20 := by omega
        rw [this]; rfl

theorem tcpLen_take (b : Bytes) (n : Nat) (hn : 20 ≤ n) : tcpLen (b.take n) = tcpLen b := by
  unfold tcpLen; rw [bAt_take b n 12 (by omega)]

theorem tcpHdr_take (b : Bytes) (h20 : 20 ≤ tcpLen b) : Tcp.toHeader (b.take (tcpLen b)) = Tcp.toHeader b := by
  obtain ⟨_, _, k3, _⟩ := tcp_bits _ (bAt_lt b 12)
  have k3' : ((bAt b 12 &&& 0xf0) >>> 4) * 4 = tcpLen b := k3
  unfold Tcp.toHeader
  simp (disch := omega) only [bAt_take, be16_take, be32_take, sub_take]

theorem tcp_table (pre b : Bytes) :
    match Tcp.fromSlice b with
    | .ok (h, rest) => OkRow Reads.tcp Tcp.fromSlice pre b h rest
    | .error e =>
      ((∃ le, e = .len le) ∧ ReadsEof Reads.tcp pre b) ∨
      (20 ≤ b.length ∧ (∃ w, e = .content w) ∧ ReadsContent Reads.tcp pre b 20 e.render) := by
  have he := tcp_eval b
  rw [tcp_dec b]
  by_cases hl : b.length < 20
  · rw [if_pos hl] at he ⊢; exact .inl ⟨⟨_, rfl⟩, readsEof_of_eval he⟩
  · rw [if_neg hl] at he ⊢
    by_cases hd : tcpLen b < 20
    · rw [if_pos hd] at he ⊢; exact .inr ⟨by omega, ⟨_, rfl⟩, readsContent_of_eval he⟩
    · rw [if_neg hd] at he ⊢
      by_cases hr : b.length < tcpLen b
      · rw [if_pos hr] at he ⊢; exact .inl ⟨⟨_, rfl⟩, readsEof_of_eval he⟩
      · rw [if_neg hr] at he ⊢
        refine okRow_of (tcpLen b) (by omega) he ?_
        have hlen : (b.take (tcpLen b)).length = tcpLen b := by simp [List.length_take]; omega
        rw [tcp_dec, hlen, tcpLen_take b _ (by omega), if_neg (by omega), if_neg hd, if_neg (by omega),
          tcpHdr_take b (by omega), drop_take_self]

/-- `Icmpv4Type::header_len` of the type the first two bytes select: 20 for the timestamp and
    timestamp reply messages (type 13 / 14, code 0), 8 otherwise -/
def icmp4Len (b : Bytes) : Nat := if (bAt b 0 = 14 ∨ bAt b 0 = 13) ∧ bAt b 1 = 0 then 20 else 8

theorem icmp4_headerLen (b : Bytes) (c : Nat) :
    Icmp4.headerLen { ty := Icmp4.icmpType b, ck := c } = icmp4Len b := by
  unfold icmp4Len Icmp4.icmpType
  simp only []
  generalize bAt b 0 = t
  generalize bAt b 1 = cd
  by_cases h : (t = 14 ∨ t = 13) ∧ cd = 0
  · rw [if_pos h]
    obtain ⟨h1 | h1, h2⟩ := h <;> subst h1 <;> subst h2 <;> simp [Icmp4.headerLen]
  · rw [if_neg h]
    repeat' split
    all_goals first | rfl | (exfalso; omega)

theorem icmp4Type_take (b : Bytes) (n : Nat) (hn : icmp4Len b ≤ n) :
    Icmp4.icmpType (b.take n) = Icmp4.icmpType b := by
  have h8 : 8 ≤ n := by unfold icmp4Len at hn; split at hn <;> omega
  unfold Icmp4.icmpType
  simp (disch := omega) only [bAt_take, be16_take, sub_take]
  by_cases h : (bAt b 0 = 14 ∨ bAt b 0 = 13) ∧ bAt b 1 = 0
  · have h20 : 20 ≤ n := by unfold icmp4Len at hn; rw [if_pos h] at hn; exact hn
    simp (disch := omega) only [be32_take]
  · have h13 : ¬ (bAt b 0 = 13 ∧ bAt b 1 = 0) := fun hh => h ⟨.inr hh.1, hh.2⟩
    have h14 : ¬ (bAt b 0 = 14 ∧ bAt b 1 = 0) := fun hh => h ⟨.inl hh.1, hh.2⟩
    simp only [if_neg h13, if_neg h14]

theorem icmp4_dec (b : Bytes) :
    Icmp4.fromSlice b =
      if b.length < 8 then .error (lenErrSlice 8 b.length "Icmpv4")
      else if bAt b 0 = 13 ∧ bAt b 1 = 0 ∧ b.length ≠ 20 then
        .error (lenErrSlice 20 b.length "Icmpv4Timestamp")
      else if bAt b 0 = 14 ∧ bAt b 1 = 0 ∧ b.length ≠ 20 then
        .error (lenErrSlice 20 b.length "Icmpv4TimestampReply")
      else .ok ({ ty := Icmp4.icmpType b, ck := be16 b 2 }, b.drop (icmp4Len b)) := by
  unfold Icmp4.fromSlice
  simp only [icmp4_headerLen]

theorem icmp4_eval (b : Bytes) :
    evalOn Reads.icmpv4 b =
      if b.length < icmp4Len b then (.error (.io .unexpectedEof), b.length)
      else (.ok (b.take (icmp4Len b)), icmp4Len b) := by
  unfold icmp4Len
  by_cases h8 : b.length < 8
  · rw [if_pos (by split <;> omega)]; simp only [Reads.icmpv4, evalOn]; rw [if_neg (by omega)]
  · simp only [Reads.icmpv4, evalOn]; rw [if_pos (by omega)]
    simp (disch := omega) only [bAt_take]
    by_cases h : (bAt b 0 = 14 ∨ bAt b 0 = 13) ∧ bAt b 1 = 0
    · simp only [if_pos h, evalOn, List.length_drop]
      by_cases hr : b.length < 20
      · rw [if_pos hr, if_neg (by omega)]; simp only [Prod.mk.injEq, true_and]; omega
      · rw [if_neg hr, if_pos (by omega), ← List.take_add]; rfl
    · simp only [if_neg h, evalOn]
      rw [if_neg h8]

theorem icmp4Len_take (b : Bytes) (n : Nat) (hn : 2 ≤ n) : icmp4Len (b.take n) = icmp4Len b := by
  unfold icmp4Len; rw [bAt_take b n 0 (by omega), bAt_take b n 1 (by omega)]

theorem icmp4Len_cases (b : Bytes) : icmp4Len b = 8 ∨ icmp4Len b = 20 := by
  unfold icmp4Len; split <;> simp

/-- decoding exactly the header's bytes always succeeds (the exact-size rule is met) -/
theorem icmp4_dec_take (b : Bytes) (hr : icmp4Len b ≤ b.length) :
    Icmp4.fromSlice (b.take (icmp4Len b)) =
      .ok ({ ty := Icmp4.icmpType b, ck := be16 b 2 }, []) := by
  have hc := icmp4Len_cases b
  have hlen : (b.take (icmp4Len b)).length = icmp4Len b := by simp [List.length_take]; omega
  rw [icmp4_dec, hlen, icmp4Len_take b _ (by omega), bAt_take b _ 0 (by omega), bAt_take b _ 1 (by omega),
    icmp4Type_take b _ (Nat.le_refl _), be16_take b _ 2 (by omega), drop_take_self, if_neg (by omega)]
  have e13 : ¬ (bAt b 0 = 13 ∧ bAt b 1 = 0 ∧ icmp4Len b ≠ 20) := by
    rintro ⟨h1, h2, h3⟩; apply h3; unfold icmp4Len; rw [if_pos ⟨.inr h1, h2⟩]
  have e14 : ¬ (bAt b 0 = 14 ∧ bAt b 1 = 0 ∧ icmp4Len b ≠ 20) := by
    rintro ⟨h1, h2, h3⟩; apply h3; unfold icmp4Len; rw [if_pos ⟨.inl h1, h2⟩]
  rw [if_neg e13, if_neg e14]

theorem icmpv4_table (pre b : Bytes) :
    match Icmp4.fromSlice b with
    | .ok (h, rest) => OkRow Reads.icmpv4 Icmp4.fromSlice pre b h rest
    | .error e =>
      (∃ le, e = .len le) ∧
      ((b.length < icmp4Len b ∧ ReadsEof Reads.icmpv4 pre b) ∨
       (icmp4Len b = 20 ∧ 20 < b.length ∧ ReadsOk Reads.icmpv4 pre b 20 (b.take 20) ∧
         ∃ h, Icmp4.fromSlice (b.take 20) = .ok (h, []))) := by
  have he := icmp4_eval b
  have hc := icmp4Len_cases b
  by_cases hr : b.length < icmp4Len b
  · rw [if_pos hr] at he
    have hd : ∃ le, Icmp4.fromSlice b = .error (.len le) := by
      rw [icmp4_dec]
      by_cases h8 : b.length < 8
      · rw [if_pos h8]; exact ⟨_, rfl⟩
      · rw [if_neg h8]
        have h20 : icmp4Len b = 20 := by omega
        unfold icmp4Len at h20
        split at h20
        · rename_i hts
          obtain ⟨h1 | h1, h2⟩ := hts
          · rw [if_neg (by omega), if_pos ⟨h1, h2, by omega⟩]; exact ⟨_, rfl⟩
          · rw [if_pos ⟨h1, h2, by omega⟩]; exact ⟨_, rfl⟩
        · omega
    obtain ⟨le, hd⟩ := hd
    rw [hd]
    exact ⟨⟨_, rfl⟩, .inl ⟨hr, readsEof_of_eval he⟩⟩
  · rw [if_neg hr] at he
    have htake := icmp4_dec_take b (by omega)
    cases hd : Icmp4.fromSlice b with
    | error e =>
      have hd' := hd
      rw [icmp4_dec] at hd'
      rw [if_neg (by omega)] at hd'
      have hts : icmp4Len b = 20 ∧ 20 < b.length ∧ ∃ le, e = .len le := by
        split at hd'
        · rename_i h; cases hd'
          have : icmp4Len b = 20 := by unfold icmp4Len; rw [if_pos ⟨.inr h.1, h.2.1⟩]
          exact ⟨this, by omega, _, rfl⟩
        · split at hd'
          · rename_i h; cases hd'
            have : icmp4Len b = 20 := by unfold icmp4Len; rw [if_pos ⟨.inl h.1, h.2.1⟩]
            exact ⟨this, by omega, _, rfl⟩
          · cases hd'
      obtain ⟨h20, hlt, hle⟩ := hts
      rw [h20] at he htake
      exact ⟨hle, .inr ⟨h20, hlt, readsOk_of_eval he, _, htake⟩⟩
    | ok x =>
      obtain ⟨h, rest⟩ := x
      have hd' := hd
      rw [icmp4_dec] at hd'
      repeat' split at hd'
      all_goals first | contradiction | skip
      cases hd'
      exact okRow_of (icmp4Len b) (by omega) he htake

theorem icmp6Type_take (b : Bytes) (n : Nat) (hn : 8 ≤ n) :
    Icmp6.icmpType (b.take n) = Icmp6.icmpType b := by
  unfold Icmp6.icmpType
  rw [bAt_take b n 0 (by omega), bAt_take b n 1 (by omega), bAt_take b n 4 (by omega),
    bAt_take b n 5 (by omega), be16_take b n 4 (by omega), be16_take b n 6 (by omega),
    be32_take b n 4 (by omega), sub_take b n 4 4 (by omega)]

/-- decoding exactly the 8 header bytes always succeeds -/
theorem icmp6_dec_take (b : Bytes) (h8 : 8 ≤ b.length) :
    Icmp6.fromSlice (b.take 8) = .ok ({ ty := Icmp6.icmpType b, ck := be16 b 2 }, []) := by
  have hlen : (b.take 8).length = 8 := by simp [List.length_take]; omega
  unfold Icmp6.fromSlice
  rw [hlen, if_neg (by omega), if_neg (by omega), icmp6Type_take b 8 (by omega),
    be16_take b 8 2 (by omega), drop_take_self]

theorem icmpv6_table (pre b : Bytes) :
    match Icmp6.fromSlice b with
    | .ok (h, rest) => OkRow Reads.icmpv6 Icmp6.fromSlice pre b h rest
    | .error e =>
      (b.length < 8 ∧ e = lenErrSlice 8 b.length "Icmpv6" ∧ ReadsEof Reads.icmpv6 pre b) ∨
      (4294967295 < b.length ∧ e = lenErrSlice 4294967295 b.length "Icmpv6" ∧
        ReadsOk Reads.icmpv6 pre b 8 (b.take 8) ∧ ∃ h, Icmp6.fromSlice (b.take 8) = .ok (h, [])) := by
  have he : evalOn Reads.icmpv6 b = _ := evalOn_readN 8 b
  by_cases hl : b.length < 8
  · rw [if_neg (by omega)] at he
    unfold Icmp6.fromSlice; rw [if_pos hl]
    exact .inl ⟨hl, rfl, readsEof_of_eval he⟩
  · rw [if_pos (by omega)] at he
    have htake := icmp6_dec_take b (by omega)
    by_cases hb : b.length > 4294967295
    · have : Icmp6.fromSlice b = .error (lenErrSlice 4294967295 b.length "Icmpv6") := by
        unfold Icmp6.fromSlice; rw [if_neg hl, if_pos hb]
      rw [this]
      exact .inr ⟨hb, rfl, readsOk_of_eval he, _, htake⟩
    · have : Icmp6.fromSlice b = .ok ({ ty := Icmp6.icmpType b, ck := be16 b 2 }, b.drop 8) := by
        unfold Icmp6.fromSlice; rw [if_neg hl, if_neg hb]
      rw [this]
      exact okRow_of 8 (by omega) he htake

end Transport

/-! ## network layer -/

section Net
open EpModel.CodecNet

theorem take_take_self (b : Bytes) (n : Nat) : (b.take n).take n = b.take n := by
  rw [List.take_take, Nat.min_self]

theorem length_take_of_le (b : Bytes) (n : Nat) (h : n ≤ b.length) : (b.take n).length = n := by
  simp [List.length_take]; omega

/-! ### IPv4 header -/

/-- canonical text of the content errors of `Ipv4Header::from_slice` (as Driver/EncNet.lean prints
    them); `none`: a length error -/
def ipv4ErrText : Ipv4Err → Option String
  | .unexpectedVersion v => some s!"err(version({v}))"
  | .headerLengthSmallerThanHeader i => some s!"err(ihl({i}))"
  | .len _ => none

/-- the header length the IHL nibble announces -/
def ipv4Len (b : Bytes) : Nat := (bAt b 0 &&& 0xf) * 4

theorem ipv4_dec (b : Bytes) :
    Ipv4Header.fromSlice b =
      if b.length < 20 then .error (.len (sliceLenErr 20 b.length .ipv4Header))
      else if bAt b 0 >>> 4 ≠ 4 then .error (.unexpectedVersion (bAt b 0 >>> 4))
      else if bAt b 0 &&& 0xf < 5 then .error (.headerLengthSmallerThanHeader (bAt b 0 &&& 0xf))
      else if b.length < ipv4Len b then .error (.len (sliceLenErr (ipv4Len b) b.length .ipv4Header))
      else .ok (Ipv4HeaderSlice.toHeader { slice := b.take (ipv4Len b) }, b.drop (ipv4Len b)) := by
  unfold Ipv4Header.fromSlice Ipv4HeaderSlice.fromSlice ipv4Len
  by_cases hl : b.length < 20
  · simp only [if_pos hl]
  · simp only [if_neg hl]
    by_cases hv : bAt b 0 >>> 4 ≠ 4
    · rw [if_pos hv, if_pos (fun h => hv h.symm)]
    · rw [if_neg hv, if_neg (fun h => hv (fun h' => h h'.symm))]
      by_cases hi : bAt b 0 &&& 0xf < 5
      · simp only [if_pos hi]
      · simp only [if_neg hi]
        by_cases hr : b.length < (bAt b 0 &&& 0xf) * 4
        · simp only [if_pos hr]
        · simp only [if_neg hr]
          have : Ipv4Header.headerLen (Ipv4HeaderSlice.toHeader { slice := b.take ((bAt b 0 &&& 0xf) * 4) })
              = (bAt b 0 &&& 0xf) * 4 := by
            show 20 + (sub (b.take ((bAt b 0 &&& 0xf) * 4)) 20
              ((b.take ((bAt b 0 &&& 0xf) * 4)).length - 20)).length = _
            rw [length_take_of_le b _ (by omega), sub_length _ _ _ (by rw [length_take_of_le b _ (by omega)]; omega)]
            omega
          rw [this]

theorem ipv4_eval (b : Bytes) :
    evalOn Reads.ipv4 b =
      if b.length < 1 then (.error (.io .unexpectedEof), b.length)
      else if bAt b 0 >>> 4 ≠ 4 then (.error (.other s!"err(version({bAt b 0 >>> 4}))"), 1)
      else if b.length < 20 then (.error (.io .unexpectedEof), b.length)
      else if bAt b 0 &&& 0xf < 5 then (.error (.other s!"err(ihl({bAt b 0 &&& 0xf}))"), 20)
      else if b.length < ipv4Len b then (.error (.io .unexpectedEof), b.length)
      else (.ok (b.take (ipv4Len b)), ipv4Len b) := by
  unfold ipv4Len
  by_cases h1 : b.length < 1
  · rw [if_pos h1]; simp only [Reads.ipv4, evalOn]; rw [if_neg (by omega)]
  · rw [if_neg h1]
    simp only [Reads.ipv4, evalOn]; rw [if_pos (by omega)]
    simp (disch := omega) only [bAt_take]
    by_cases hv : bAt b 0 >>> 4 ≠ 4
    · simp only [if_pos hv, evalOn]
    · simp only [if_neg hv, evalOn, List.length_drop]
      by_cases hl : b.length < 20
      · rw [if_pos hl, if_neg (by omega)]; simp only [Prod.mk.injEq, true_and]; omega
      · rw [if_neg hl, if_pos (by omega)]
        by_cases hi : bAt b 0 &&& 0xf < 5
        · simp only [if_pos hi, evalOn]
        · simp only [if_neg hi]
          generalize bAt b 0 &&& 0xf = ihl at hi ⊢
          by_cases ho : (ihl - 5) * 4 ≠ 0
          · simp only [if_pos ho, evalOn, List.length_drop, List.drop_drop]
            by_cases hr : b.length < ihl * 4
            · rw [if_pos hr, if_neg (by omega)]; simp only [Prod.mk.injEq, true_and]; omega
            · rw [if_neg hr, if_pos (by omega)]
              simp only [← List.take_add, Prod.mk.injEq]
              exact ⟨by congr 2; omega, by omega⟩
          · simp only [if_neg ho, evalOn]
            have : ihl * 4 = 20 := by omega
            rw [this, if_neg (by omega), ← List.take_add]

theorem ipv4Len_take (b : Bytes) (n : Nat) (hn : 1 ≤ n) : ipv4Len (b.take n) = ipv4Len b := by
  unfold ipv4Len; rw [bAt_take b n 0 (by omega)]

theorem ipv4_table (pre b : Bytes) :
    match Ipv4Header.fromSlice b with
    | .ok (h, rest) => OkRow Reads.ipv4 Ipv4Header.fromSlice pre b h rest
    | .error (.unexpectedVersion v) =>
      20 ≤ b.length ∧ v = bAt b 0 >>> 4 ∧ v ≠ 4 ∧ ReadsContent Reads.ipv4 pre b 1 s!"err(version({v}))"
    | .error (.headerLengthSmallerThanHeader i) =>
      20 ≤ b.length ∧ i = bAt b 0 &&& 0xf ∧ i < 5 ∧ ReadsContent Reads.ipv4 pre b 20 s!"err(ihl({i}))"
    | .error (.len le) =>
      ((b.length < 20 ∧ le = sliceLenErr 20 b.length .ipv4Header) ∨
       (20 ≤ b.length ∧ b.length < ipv4Len b ∧ le = sliceLenErr (ipv4Len b) b.length .ipv4Header)) ∧
      (((b = [] ∨ bAt b 0 >>> 4 = 4) ∧ ReadsEof Reads.ipv4 pre b) ∨
       (b ≠ [] ∧ b.length < 20 ∧ bAt b 0 >>> 4 ≠ 4 ∧
         ReadsContent Reads.ipv4 pre b 1 s!"err(version({bAt b 0 >>> 4}))")) := by
  have he := ipv4_eval b
  rw [ipv4_dec b]
  by_cases hl : b.length < 20
  · rw [if_pos hl]
    refine ⟨.inl ⟨hl, rfl⟩, ?_⟩
    by_cases h1 : b.length < 1
    · rw [if_pos h1] at he
      have : b = [] := List.eq_nil_of_length_eq_zero (by omega)
      exact .inl ⟨.inl this, readsEof_of_eval he⟩
    · rw [if_neg h1] at he
      have hne : b ≠ [] := by intro h; subst h; simp at h1
      by_cases hv : bAt b 0 >>> 4 ≠ 4
      · rw [if_pos hv] at he; exact .inr ⟨hne, hl, hv, readsContent_of_eval he⟩
      · rw [if_neg hv, if_pos hl] at he
        exact .inl ⟨.inr (by omega), readsEof_of_eval he⟩
  · rw [if_neg hl]
    rw [if_neg (by omega)] at he
    by_cases hv : bAt b 0 >>> 4 ≠ 4
    · rw [if_pos hv] at he ⊢; exact ⟨by omega, rfl, hv, readsContent_of_eval he⟩
    · rw [if_neg hv] at he ⊢; rw [if_neg hl] at he
      by_cases hi : bAt b 0 &&& 0xf < 5
      · rw [if_pos hi] at he ⊢; exact ⟨by omega, rfl, hi, readsContent_of_eval he⟩
      · rw [if_neg hi] at he ⊢
        by_cases hr : b.length < ipv4Len b
        · rw [if_pos hr] at he ⊢
          exact ⟨.inr ⟨by omega, hr, rfl⟩, .inl ⟨.inr (by omega), readsEof_of_eval he⟩⟩
        · rw [if_neg hr] at he ⊢
          have h20 : 20 ≤ ipv4Len b := by unfold ipv4Len; omega
          refine okRow_of (ipv4Len b) (by omega) he ?_
          rw [ipv4_dec, length_take_of_le b _ (by omega), ipv4Len_take b _ (by omega),
            bAt_take b _ 0 (by omega), if_neg (by omega), if_neg hv, if_neg hi, if_neg (by omega),
            take_take_self, drop_take_self]

/-! ### IPv6 header -/

/-- canonical text of the content errors of `Ipv6Header::from_slice` (as Driver/EncNet.lean prints
    them); `none`: a length error -/
def ipv6ErrText : Ipv6Err → Option String
  | .unexpectedVersion v => some s!"err(version({v}))"
  | .len _ => none

theorem ipv6_dec (b : Bytes) :
    Ipv6Header.fromSlice b =
      if b.length < 40 then .error (.len (sliceLenErr 40 b.length .ipv6Header))
      else if bAt b 0 >>> 4 ≠ 6 then .error (.unexpectedVersion (bAt b 0 >>> 4))
      else .ok (Ipv6HeaderSlice.toHeader { slice := b.take 40 }, b.drop 40) := by
  unfold Ipv6Header.fromSlice Ipv6HeaderSlice.fromSlice
  by_cases hl : b.length < 40
  · simp only [if_pos hl]
  · simp only [if_neg hl]
    by_cases hv : bAt b 0 >>> 4 ≠ 6
    · rw [if_pos hv, if_pos (fun h => hv h.symm)]
    · rw [if_neg hv, if_neg (fun h => hv (fun h' => h h'.symm))]

theorem ipv6_eval (b : Bytes) :
    evalOn Reads.ipv6 b =
      if b.length < 1 then (.error (.io .unexpectedEof), b.length)
      else if bAt b 0 >>> 4 ≠ 6 then (.error (.other s!"err(version({bAt b 0 >>> 4}))"), 1)
      else if b.length < 40 then (.error (.io .unexpectedEof), b.length)
      else (.ok (b.take 40), 40) := by
  by_cases h1 : b.length < 1
  · rw [if_pos h1]; simp only [Reads.ipv6, evalOn]; rw [if_neg (by omega)]
  · rw [if_neg h1]
    simp only [Reads.ipv6, evalOn]; rw [if_pos (by omega)]
    simp (disch := omega) only [bAt_take]
    by_cases hv : bAt b 0 >>> 4 ≠ 6
    · simp only [if_pos hv, evalOn]
    · simp only [if_neg hv, evalOn, List.length_drop]
      by_cases hl : b.length < 40
      · rw [if_pos hl, if_neg (by omega)]; simp only [Prod.mk.injEq, true_and]; omega
      · rw [if_neg hl, if_pos (by omega), ← List.take_add]; rfl

theorem ipv6_table (pre b : Bytes) :
    match Ipv6Header.fromSlice b with
    | .ok (h, rest) => OkRow Reads.ipv6 Ipv6Header.fromSlice pre b h rest
    | .error (.unexpectedVersion v) =>
      40 ≤ b.length ∧ v = bAt b 0 >>> 4 ∧ v ≠ 6 ∧ ReadsContent Reads.ipv6 pre b 1 s!"err(version({v}))"
    | .error (.len le) =>
      b.length < 40 ∧ le = sliceLenErr 40 b.length .ipv6Header ∧
      (((b = [] ∨ bAt b 0 >>> 4 = 6) ∧ ReadsEof Reads.ipv6 pre b) ∨
       (b ≠ [] ∧ bAt b 0 >>> 4 ≠ 6 ∧
         ReadsContent Reads.ipv6 pre b 1 s!"err(version({bAt b 0 >>> 4}))")) := by
  have he := ipv6_eval b
  rw [ipv6_dec b]
  by_cases hl : b.length < 40
  · rw [if_pos hl]
    refine ⟨hl, rfl, ?_⟩
    by_cases h1 : b.length < 1
    · rw [if_pos h1] at he
      have : b = [] := List.eq_nil_of_length_eq_zero (by omega)
      exact .inl ⟨.inl this, readsEof_of_eval he⟩
    · rw [if_neg h1] at he
      have hne : b ≠ [] := by intro h; subst h; simp at h1
      by_cases hv : bAt b 0 >>> 4 ≠ 6
      · rw [if_pos hv] at he; exact .inr ⟨hne, hv, readsContent_of_eval he⟩
      · rw [if_neg hv, if_pos hl] at he
        exact .inl ⟨.inr (by omega), readsEof_of_eval he⟩
  · rw [if_neg hl]
    rw [if_neg (by omega)] at he
    by_cases hv : bAt b 0 >>> 4 ≠ 6
    · rw [if_pos hv] at he ⊢; exact ⟨by omega, rfl, hv, readsContent_of_eval he⟩
    · rw [if_neg hv] at he ⊢; rw [if_neg hl] at he
      refine okRow_of 40 (by omega) he ?_
      rw [ipv6_dec, length_take_of_le b 40 (by omega), bAt_take b 40 0 (by omega), if_neg (by omega),
        if_neg hv, take_take_self, drop_take_self]

/-! ### IPv6 fragment header -/

theorem frag_dec (b : Bytes) :
    Ipv6FragmentHeader.fromSlice b =
      if b.length < 8 then .error (sliceLenErr 8 b.length .ipv6FragHeader)
      else .ok (Ipv6FragmentHeaderSlice.toHeader { slice := b.take 8 }, b.drop 8) := by
  unfold Ipv6FragmentHeader.fromSlice Ipv6FragmentHeaderSlice.fromSlice
  by_cases hl : b.length < 8
  · simp only [if_pos hl]
  · simp only [if_neg hl]

theorem ipv6frag_table (pre b : Bytes) :
    match Ipv6FragmentHeader.fromSlice b with
    | .ok (h, rest) => OkRow Reads.ipv6frag Ipv6FragmentHeader.fromSlice pre b h rest
    | .error e => e = sliceLenErr 8 b.length .ipv6FragHeader ∧ b.length < 8 ∧ ReadsEof Reads.ipv6frag pre b := by
  have he : evalOn Reads.ipv6frag b = _ := evalOn_readN 8 b
  rw [frag_dec]
  by_cases hl : b.length < 8
  · rw [if_neg (by omega)] at he; rw [if_pos hl]
    exact ⟨rfl, hl, readsEof_of_eval he⟩
  · rw [if_pos (by omega)] at he; rw [if_neg hl]
    refine okRow_of 8 (by omega) he ?_
    rw [frag_dec, length_take_of_le b 8 (by omega), if_neg (by omega), take_take_self, drop_take_self]

/-! ### IPv6 raw extension header -/

/-- the header length the `hdr ext len` byte announces -/
def rawextLen (b : Bytes) : Nat := (bAt b 1 + 1) * 8

theorem rawext_dec (b : Bytes) :
    Ipv6RawExtHeader.fromSlice b =
      if b.length < 8 then .error (.len (sliceLenErr 8 b.length .ipv6ExtHeader))
      else if b.length < rawextLen b then .error (.len (sliceLenErr (rawextLen b) b.length .ipv6ExtHeader))
      else .ok ({ nextHeader := bAt b 0, payload := (b.take (rawextLen b)).drop 2 }, b.drop (rawextLen b)) := by
  have hlt := bAt_lt b 1
  unfold Ipv6RawExtHeader.fromSlice Ipv6RawExtHeaderSlice.fromSlice rawextLen
  by_cases hl : b.length < 8
  · simp only [if_pos hl]
  · simp only [if_neg hl]
    by_cases hr : b.length < (bAt b 1 + 1) * 8
    · simp only [if_pos hr]
    · simp only [if_neg hr]
      have hlen := length_take_of_le b ((bAt b 1 + 1) * 8) (by omega)
      rw [EpModel.Lemmas.CodecNet.RawExt.toHeader_eq _ (by simp only [hlen]; omega) (by simp only [hlen]; omega)
        (by simp only [hlen]; omega)]
      simp only [hlen, bAt_take b _ 0 (show 0 < (bAt b 1 + 1) * 8 by omega)]

theorem rawext_eval (b : Bytes) :
    evalOn Reads.rawext b =
      if b.length < 8 ∨ b.length < rawextLen b then (.error (.io .unexpectedEof), b.length)
      else (.ok (b.take (rawextLen b)), rawextLen b) := by
  unfold rawextLen
  by_cases h2 : b.length < 2
  · rw [if_pos (.inl (by omega))]; simp only [Reads.rawext, evalOn]; rw [if_neg (by omega)]
  · simp only [Reads.rawext, evalOn]; rw [if_pos (by omega)]
    simp (disch := omega) only [bAt_take, List.length_drop]
    by_cases hr : b.length < 8 ∨ b.length < (bAt b 1 + 1) * 8
    · rw [if_pos hr, if_neg (by omega)]; simp only [Prod.mk.injEq, true_and]; omega
    · rw [if_neg hr, if_pos (by omega)]
      simp only [← List.take_add, Prod.mk.injEq]
      exact ⟨by congr 2; omega, by omega⟩

theorem rawextLen_take (b : Bytes) (n : Nat) (hn : 2 ≤ n) : rawextLen (b.take n) = rawextLen b := by
  unfold rawextLen; rw [bAt_take b n 1 (by omega)]

theorem rawext_table (pre b : Bytes) :
    match Ipv6RawExtHeader.fromSlice b with
    | .ok (h, rest) => OkRow Reads.rawext Ipv6RawExtHeader.fromSlice pre b h rest
    | .error e =>
      (∃ le, e = .len le) ∧ (b.length < 8 ∨ b.length < rawextLen b) ∧ ReadsEof Reads.rawext pre b := by
  have he := rawext_eval b
  rw [rawext_dec b]
  by_cases hl : b.length < 8
  · rw [if_pos (.inl hl)] at he; rw [if_pos hl]
    exact ⟨⟨_, rfl⟩, .inl hl, readsEof_of_eval he⟩
  · rw [if_neg hl]
    by_cases hr : b.length < rawextLen b
    · rw [if_pos (.inr hr)] at he; rw [if_pos hr]
      exact ⟨⟨_, rfl⟩, .inr hr, readsEof_of_eval he⟩
    · rw [if_neg (by omega)] at he; rw [if_neg hr]
      have h8 : 8 ≤ rawextLen b := by unfold rawextLen; omega
      refine okRow_of (rawextLen b) (by omega) he ?_
      rw [rawext_dec, length_take_of_le b _ (by omega), rawextLen_take b _ (by omega),
        bAt_take b _ 0 (by omega), if_neg (by omega), if_neg (by omega), take_take_self, drop_take_self]

/-! ### IP authentication header -/

/-- canonical text of the content error of `IpAuthHeader::from_slice` (as Driver/EncNet.lean prints
    it); `none`: a length error (`panicUnwrap` is unreachable: `Auth.fromSlice_no_panic`) -/
def authErrText : IpAuthErr → Option String
  | .zeroPayloadLen => some "err(zeropayloadlen)"
  | _ => none

/-- the header length the `payload len` byte announces -/
def authLen (b : Bytes) : Nat := (bAt b 1 + 2) * 4

theorem auth_dec (b : Bytes) :
    IpAuthHeader.fromSlice b =
      if b.length < 12 then .error (.len (sliceLenErr 12 b.length .ipAuthHeader))
      else if bAt b 1 < 1 then .error .zeroPayloadLen
      else if b.length < authLen b then .error (.len (sliceLenErr (authLen b) b.length .ipAuthHeader))
      else .ok ({ nextHeader := bAt b 0, spi := be32 b 4, sequenceNumber := be32 b 8,
                  rawIcv := (b.take (authLen b)).drop 12 }, b.drop (authLen b)) := by
  have hlt := bAt_lt b 1
  unfold IpAuthHeader.fromSlice IpAuthHeaderSlice.fromSlice authLen
  by_cases hl : b.length < 12
  · simp only [if_pos hl]
  · simp only [if_neg hl]
    by_cases hz : bAt b 1 < 1
    · simp only [if_pos hz]
    · simp only [if_neg hz]
      by_cases hr : b.length < (bAt b 1 + 2) * 4
      · simp only [if_pos hr]
      · simp only [if_neg hr]
        have hlen := length_take_of_le b ((bAt b 1 + 2) * 4) (by omega)
        rw [EpModel.Lemmas.CodecNet.Auth.toHeader_eq _ (by simp only [hlen]; omega) (by simp only [hlen]; omega)
          (by simp only [hlen]; omega)]
        simp only [hlen, bAt_take b _ 0 (show 0 < (bAt b 1 + 2) * 4 by omega),
          be32_take b _ 4 (show 4 + 3 < (bAt b 1 + 2) * 4 by omega),
          be32_take b _ 8 (show 8 + 3 < (bAt b 1 + 2) * 4 by omega)]

theorem auth_eval (b : Bytes) :
    evalOn Reads.auth b =
      if b.length < 12 then (.error (.io .unexpectedEof), b.length)
      else if bAt b 1 < 1 then (.error (.other "err(zeropayloadlen)"), 12)
      else if b.length < authLen b then (.error (.io .unexpectedEof), b.length)
      else (.ok (b.take (authLen b)), authLen b) := by
  unfold authLen
  by_cases hl : b.length < 12
  · rw [if_pos hl]; simp only [Reads.auth, evalOn]; rw [if_neg (by omega)]
  · rw [if_neg hl]; simp only [Reads.auth, evalOn]; rw [if_pos (by omega)]
    simp (disch := omega) only [bAt_take]
    by_cases hz : bAt b 1 < 1
    · simp only [if_pos hz, evalOn]
    · simp only [if_neg hz, evalOn, List.length_drop]
      by_cases hr : b.length < (bAt b 1 + 2) * 4
      · rw [if_pos hr, if_neg (by omega)]; simp only [Prod.mk.injEq, true_and]; omega
      · rw [if_neg hr, if_pos (by omega)]
        simp only [← List.take_add, Prod.mk.injEq]
        exact ⟨by congr 2; omega, by omega⟩

theorem authLen_take (b : Bytes) (n : Nat) (hn : 2 ≤ n) : authLen (b.take n) = authLen b := by
  unfold authLen; rw [bAt_take b n 1 (by omega)]

theorem auth_table (pre b : Bytes) :
    match IpAuthHeader.fromSlice b with
    | .ok (h, rest) => OkRow Reads.auth IpAuthHeader.fromSlice pre b h rest
    | .error .zeroPayloadLen =>
      12 ≤ b.length ∧ bAt b 1 = 0 ∧ ReadsContent Reads.auth pre b 12 "err(zeropayloadlen)"
    | .error (.len le) =>
      ((b.length < 12 ∧ le = sliceLenErr 12 b.length .ipAuthHeader) ∨
       (12 ≤ b.length ∧ b.length < authLen b ∧ le = sliceLenErr (authLen b) b.length .ipAuthHeader)) ∧
      ReadsEof Reads.auth pre b
    | .error .panicUnwrap => False := by
  have he := auth_eval b
  rw [auth_dec b]
  by_cases hl : b.length < 12
  · rw [if_pos hl] at he ⊢; exact ⟨.inl ⟨hl, rfl⟩, readsEof_of_eval he⟩
  · rw [if_neg hl] at he ⊢
    by_cases hz : bAt b 1 < 1
    · rw [if_pos hz] at he ⊢; exact ⟨by omega, by omega, readsContent_of_eval he⟩
    · rw [if_neg hz] at he ⊢
      by_cases hr : b.length < authLen b
      · rw [if_pos hr] at he ⊢; exact ⟨.inr ⟨by omega, hr, rfl⟩, readsEof_of_eval he⟩
      · rw [if_neg hr] at he ⊢
        have h12 : 12 ≤ authLen b := by unfold authLen; omega
        refine okRow_of (authLen b) (by omega) he ?_
        rw [auth_dec, length_take_of_le b _ (by omega), authLen_take b _ (by omega),
          bAt_take b _ 0 (by omega), bAt_take b _ 1 (by omega), be32_take b _ 4 (by omega),
          be32_take b _ 8 (by omega), if_neg (by omega), if_neg hz, if_neg (by omega), take_take_self,
          drop_take_self]

end Net

/-! ## composite readers -/

section Composite
open EpModel.CodecNet

theorem evalOn_bind {α β : Type} (p : RProg α) (f : α → RProg β) (b : Bytes) :
    evalOn (p.bind f) b =
      match evalOn p b with
      | (.ok a, n) => ((evalOn (f a) (b.drop n)).1, n + (evalOn (f a) (b.drop n)).2)
      | (.error e, n) => (.error e, n) := by
  induction p generalizing b with
  | done res =>
    cases res with
    | ok a => simp [RProg.bind, evalOn]
    | error s => simp [RProg.bind, evalOn]
  | read n k ih =>
    simp only [RProg.bind, evalOn]
    by_cases hn : n ≤ b.length
    · simp only [if_pos hn]
      rw [ih]
      cases h : evalOn (k (b.take n)) (b.drop n) with
      | mk r m =>
        cases r with
        | ok a => simp only [List.drop_drop, Nat.add_assoc]
        | error e => simp only
    · simp only [if_neg hn]

/-! ### Ipv4Extensions -/

theorem authSlice_ok (b : Bytes) (s : IpAuthHeaderSlice) (h : IpAuthHeaderSlice.fromSlice b = .ok s) :
    s.slice = b.take (authLen b) ∧ 12 ≤ authLen b ∧ authLen b ≤ b.length := by
  unfold IpAuthHeaderSlice.fromSlice at h
  unfold authLen
  by_cases c1 : b.length < 12
  · simp [c1] at h
  · by_cases c2 : bAt b 1 < 1
    · simp [c1, c2] at h
    · by_cases c3 : b.length < (bAt b 1 + 2) * 4
      · simp [c1, c2, c3] at h
      · simp only [c1, c2, c3, if_false, Except.ok.injEq] at h
        subst h
        exact ⟨rfl, by omega, by omega⟩

theorem ipv4exts_dec (start : Nat) (b : Bytes) :
    Ipv4Extensions.fromSlice start b =
      if ipNumberAuth = start then
        match IpAuthHeader.fromSlice b with
        | .error e => .error e
        | .ok (h, rest) => .ok ({ auth := some h }, bAt b 0, rest)
      else .ok ({ auth := none }, start, b) := by
  unfold Ipv4Extensions.fromSlice Ipv4ExtensionsSlice.fromSlice
  by_cases hs : ipNumberAuth = start
  · simp only [if_pos hs]
    unfold IpAuthHeader.fromSlice
    cases h1 : IpAuthHeaderSlice.fromSlice b with
    | error e => rfl
    | ok s =>
      have hk := EpModel.Lemmas.CodecNet.Auth.sliceFromSlice_ok b s h1
      simp only [Ipv4ExtensionsSlice.toHeader]
      cases h2 : s.toHeader with
      | none => rfl
      | some h =>
        simp only
        have : s.nextHeader = bAt b 0 := by
          obtain ⟨e1, e2, _⟩ := authSlice_ok b s h1
          unfold IpAuthHeaderSlice.nextHeader
          rw [e1, bAt_take b _ 0 (by omega)]
        rw [this]
  · simp only [if_neg hs, Ipv4ExtensionsSlice.toHeader]

theorem ipv4exts_eval (start : Nat) (b : Bytes) :
    evalOn (Reads.ipv4exts start) b =
      if ipNumberAuth = start then
        match evalOn Reads.auth b with
        | (.ok g, n) => (.ok (some g, bAt g 0), n)
        | (.error e, n) => (.error e, n)
      else (.ok (none, start), 0) := by
  unfold Reads.ipv4exts
  by_cases hs : ipNumberAuth = start
  · simp only [if_pos hs, evalOn_bind]
    cases h : evalOn Reads.auth b with
    | mk r m => cases r <;> simp [evalOn]
  · simp only [if_neg hs, evalOn]

/-- the table for `Ipv4Extensions`: `g` = what the reader returns (the bytes of the authentication
    header if the start number announces one, and the next ip number) -/
theorem ipv4exts_table (start : Nat) (pre b : Bytes) :
    match Ipv4Extensions.fromSlice start b with
    | .ok (e, next, rest) =>
      ReadsOk (Reads.ipv4exts start) pre b (b.length - rest.length)
        (if ipNumberAuth = start then some (b.take (b.length - rest.length)) else none, next) ∧
      b = b.take (b.length - rest.length) ++ rest ∧
      Ipv4Extensions.fromSlice start (b.take (b.length - rest.length)) = .ok (e, next, [])
    | .error .zeroPayloadLen =>
      ipNumberAuth = start ∧ 12 ≤ b.length ∧ bAt b 1 = 0 ∧
      ReadsContent (Reads.ipv4exts start) pre b 12 "err(zeropayloadlen)"
    | .error (.len le) =>
      ipNumberAuth = start ∧
      ((b.length < 12 ∧ le = sliceLenErr 12 b.length .ipAuthHeader) ∨
       (12 ≤ b.length ∧ b.length < authLen b ∧ le = sliceLenErr (authLen b) b.length .ipAuthHeader)) ∧
      ReadsEof (Reads.ipv4exts start) pre b
    | .error .panicUnwrap => False := by
  have he := ipv4exts_eval start b
  rw [ipv4exts_dec]
  by_cases hs : ipNumberAuth = start
  · rw [if_pos hs] at he ⊢
    have hae := auth_eval b
    have hd := auth_dec b
    by_cases hl : b.length < 12
    · rw [if_pos hl] at hae hd; rw [hae] at he; rw [hd]
      exact ⟨hs, .inl ⟨hl, rfl⟩, readsEof_of_eval he⟩
    · rw [if_neg hl] at hae hd
      by_cases hz : bAt b 1 < 1
      · rw [if_pos hz] at hae hd; rw [hae] at he; rw [hd]
        exact ⟨hs, by omega, by omega, readsContent_of_eval he⟩
      · rw [if_neg hz] at hae hd
        by_cases hr : b.length < authLen b
        · rw [if_pos hr] at hae hd; rw [hae] at he; rw [hd]
          exact ⟨hs, .inr ⟨by omega, hr, rfl⟩, readsEof_of_eval he⟩
        · rw [if_neg hr] at hae hd; rw [hae] at he; rw [hd]
          have h12 : 12 ≤ authLen b := by unfold authLen; omega
          simp only
          rw [take_len_sub_drop b _ (by omega), if_pos hs]
          simp only [] at he
          rw [bAt_take b _ 0 (by omega)] at he
          refine ⟨readsOk_of_eval he, (List.take_append_drop _ b).symm, ?_⟩
          rw [ipv4exts_dec, if_pos hs, auth_dec, length_take_of_le b _ (by omega), authLen_take b _ (by omega),
            bAt_take b _ 0 (by omega), bAt_take b _ 1 (by omega), be32_take b _ 4 (by omega),
            be32_take b _ 8 (by omega), if_neg (by omega), if_neg hz, if_neg (by omega), take_take_self,
            drop_take_self]
  · rw [if_neg hs] at he ⊢
    simp only [Nat.sub_self, List.take_zero, if_neg hs, List.nil_append, true_and]
    refine ⟨readsOk_of_eval he, ?_⟩
    rw [ipv4exts_dec, if_neg hs]

end Composite

section Ipv6ExtsChain
open EpModel.Ext

/-! ### Ipv6Extensions: `Ipv6Extensions::read` (`Reads.ipv6exts`) against `Ipv6Extensions::from_slice`
  (`Ext.Exts.fromSlice`, the model of C12, `ext.from_slice` correspondence) -/

/-- all bytes a chain reader gathered, in reading order -/
def gathered (got : List (ExtKind × Bytes)) : Bytes := (got.map (·.2)).flatten

/-- decoding of one gathered header with the slice decoder of its type (what `read` returns for it) -/
def decodeRaw (g : Bytes) : Option Raw :=
  match rawSliceLen g with
  | .ok len => (match rawToHeader g len with | .ok r => some r | .error _ => none)
  | .error _ => none

def decodeFrag (g : Bytes) : Option Frag :=
  match fragFromSlice g with
  | .ok f => some f
  | .error _ => none

def decodeAuth (g : Bytes) : Option Auth :=
  match authSliceLen g with
  | .ok len => (match authToHeader (ε := Ext.SliceErr) g len with | .ok a => some a | .error _ => none)
  | .error _ => none

/-- put one decoded header into the slot the reader filled -/
def putGot (e : Exts) : ExtKind × Bytes → Option Exts
  | (.hbh, g) => (decodeRaw g).map fun r => { e with hopByHopOptions := some r }
  | (.dst, g) => (decodeRaw g).map fun r => { e with destinationOptions := some r }
  | (.rt, g) => (decodeRaw g).map fun r =>
      { e with routing := some { routing := r, finalDestinationOptions := none } }
  | (.fdst, g) =>
    match e.routing with
    | some ro => (decodeRaw g).map fun r =>
        { e with routing := some { routing := ro.routing, finalDestinationOptions := some r } }
    | none => none
  | (.frag, g) => (decodeFrag g).map fun f => { e with fragment := some f }
  | (.auth, g) => (decodeAuth g).map fun a => { e with auth := some a }

/-- `decode ∘ gather` for `Ipv6Extensions::read`: the struct the gathered headers make up -/
def decodeGot (got : List (ExtKind × Bytes)) : Option Exts := got.foldlM putGot Exts.empty

theorem decodeGot_snoc (got : List (ExtKind × Bytes)) (x : ExtKind × Bytes) (e : Exts)
    (h : decodeGot got = some e) : decodeGot (got ++ [x]) = putGot e x := by
  unfold decodeGot at h ⊢
  rw [List.foldlM_append, h]
  simp [List.foldlM]

theorem gathered_snoc (got : List (ExtKind × Bytes)) (k : ExtKind) (g : Bytes) :
    gathered (got ++ [(k, g)]) = gathered got ++ g := by
  simp [gathered]

/-! #### the per-header steps -/

theorem rawSliceLen_ok (s : Bytes) (len : Nat) (h : rawSliceLen s = .ok len) :
    len = rawextLen s ∧ 8 ≤ len ∧ len ≤ s.length := by
  unfold rawSliceLen at h
  unfold rawextLen
  split at h
  · cases h
  · simp only at h
    split at h
    · cases h
    · cases h; exact ⟨rfl, by omega, by omega⟩

theorem rawSliceLen_err (s : Bytes) (err : LenError) (h : rawSliceLen s = .error err) :
    s.length < 8 ∨ s.length < rawextLen s := by
  unfold rawSliceLen at h
  unfold rawextLen
  split at h
  · left; assumption
  · simp only at h
    split at h
    · right; assumption
    · cases h

theorem newRaw_nextHeader (n : Nat) (p : Bytes) (r : Raw) (h : Raw.newRaw n p = .ok r) : r.nextHeader = n := by
  unfold Raw.newRaw at h
  repeat' split at h
  all_goals first | contradiction | skip
  cases h; rfl

theorem decodeRaw_take (s : Bytes) (len : Nat) (header : Raw) (hl : rawSliceLen s = .ok len)
    (hh : rawToHeader s len = .ok header) :
    decodeRaw (s.take len) = some header ∧ header.nextHeader = bAt (s.take len) 0 := by
  obtain ⟨e1, e2, e3⟩ := rawSliceLen_ok s len hl
  have hlen : (s.take len).length = len := length_take_of_le s len e3
  have h1 : rawSliceLen (s.take len) = .ok len := by
    unfold rawSliceLen
    rw [hlen, if_neg (by omega), bAt_take s len 1 (by omega)]
    simp only
    rw [if_neg (by unfold rawextLen at e1; omega)]
    unfold rawextLen at e1; rw [e1]
  have h2 : rawToHeader (s.take len) len = .ok header := by
    rw [← hh]; unfold rawToHeader
    rw [bAt_take s len 0 (by omega), sub_take s len 2 (len - 2) (by omega)]
  refine ⟨by unfold decodeRaw; rw [h1]; simp only [h2], ?_⟩
  rw [bAt_take s len 0 (by omega)]
  unfold rawToHeader at hh
  cases hn : Raw.newRaw (bAt s 0) (sub s 2 (len - 2)) with
  | error e => rw [hn] at hh; cases hh
  | ok r =>
    rw [hn] at hh; cases hh
    exact newRaw_nextHeader _ _ _ hn

theorem step_raw {β : Type} (f : Bytes → RProg β) (s : Bytes) :
    (∀ err, rawSliceLen s = .error err →
      evalOn (Reads.rawext.bind f) s = (.error (.io .unexpectedEof), s.length)) ∧
    (∀ len, rawSliceLen s = .ok len →
      evalOn (Reads.rawext.bind f) s =
        ((evalOn (f (s.take len)) (s.drop len)).1, len + (evalOn (f (s.take len)) (s.drop len)).2)) := by
  refine ⟨fun err h => ?_, fun len h => ?_⟩
  · rw [evalOn_bind, rawext_eval, if_pos (rawSliceLen_err s err h)]
  · obtain ⟨e1, e2, e3⟩ := rawSliceLen_ok s len h
    rw [evalOn_bind, rawext_eval, if_neg (by omega), ← e1]

theorem fragFromSlice_err (s : Bytes) (err : LenError) (h : fragFromSlice s = .error err) : s.length < 8 := by
  unfold fragFromSlice at h
  split at h
  · assumption
  · cases h

theorem decodeFrag_take (s : Bytes) (header : Frag) (h : fragFromSlice s = .ok header) :
    8 ≤ s.length ∧ decodeFrag (s.take 8) = some header ∧ header.nextHeader = bAt (s.take 8) 0 := by
  unfold fragFromSlice at h
  split at h
  · cases h
  · rename_i h8
    cases h
    have hlen : (s.take 8).length = 8 := length_take_of_le s 8 (by omega)
    refine ⟨by omega, ?_, by rw [bAt_take s 8 0 (by omega)]⟩
    unfold decodeFrag fragFromSlice
    rw [hlen, if_neg (by omega), bAt_take s 8 0 (by omega), be16_take s 8 2 (by omega),
      bAt_take s 8 3 (by omega), be32_take s 8 4 (by omega)]

theorem step_frag {β : Type} (f : Bytes → RProg β) (s : Bytes) :
    (s.length < 8 → evalOn (Reads.ipv6frag.bind f) s = (.error (.io .unexpectedEof), s.length)) ∧
    (8 ≤ s.length →
      evalOn (Reads.ipv6frag.bind f) s =
        ((evalOn (f (s.take 8)) (s.drop 8)).1, 8 + (evalOn (f (s.take 8)) (s.drop 8)).2)) := by
  refine ⟨fun h => ?_, fun h => ?_⟩
  · rw [evalOn_bind, Reads.ipv6frag, evalOn_readN, if_neg (by omega)]
  · rw [evalOn_bind, Reads.ipv6frag, evalOn_readN, if_pos h]

theorem authSliceLen_ok (s : Bytes) (len : Nat) (h : authSliceLen s = .ok len) :
    len = authLen s ∧ 12 ≤ len ∧ len ≤ s.length ∧ ¬ s.length < 12 ∧ ¬ bAt s 1 < 1 := by
  unfold authSliceLen at h
  unfold authLen
  split at h
  · cases h
  · simp only at h
    split at h
    · cases h
    · split at h
      · cases h
      · cases h; exact ⟨rfl, by omega, by omega, by omega, by omega⟩

theorem authSliceLen_len (s : Bytes) (err : LenError) (h : authSliceLen s = .error (.len err)) :
    s.length < 12 ∨ (¬ s.length < 12 ∧ ¬ bAt s 1 < 1 ∧ s.length < authLen s) := by
  unfold authSliceLen at h
  unfold authLen
  split at h
  · left; assumption
  · simp only at h
    split at h
    · cases h
    · split at h
      · right; exact ⟨by omega, by omega, by assumption⟩
      · cases h

theorem authSliceLen_content (s : Bytes) (err : AuthHeaderError) (h : authSliceLen s = .error (.content err)) :
    ¬ s.length < 12 ∧ bAt s 1 < 1 := by
  unfold authSliceLen at h
  split at h
  · cases h
  · simp only at h
    split at h
    · exact ⟨by assumption, by assumption⟩
    · split at h <;> cases h

theorem authNew_nextHeader (n a c : Nat) (p : Bytes) (r : Auth) (h : Auth.new n a c p = .ok r) :
    r.nextHeader = n := by
  unfold Auth.new at h
  repeat' split at h
  all_goals first | contradiction | skip
  cases h; rfl

theorem decodeAuth_take (s : Bytes) (len : Nat) (header : Auth) (hl : authSliceLen s = .ok len)
    (hh : authToHeader (ε := Ext.SliceErr) s len = .ok header) :
    decodeAuth (s.take len) = some header ∧ header.nextHeader = bAt (s.take len) 0 := by
  obtain ⟨e1, e2, e3, e4, e5⟩ := authSliceLen_ok s len hl
  have hlen : (s.take len).length = len := length_take_of_le s len e3
  have h1 : authSliceLen (s.take len) = .ok len := by
    unfold authSliceLen
    rw [hlen, if_neg (by omega), bAt_take s len 1 (by omega)]
    simp only
    rw [if_neg e5, if_neg (by unfold authLen at e1; omega)]
    unfold authLen at e1; rw [e1]
  have h2 : authToHeader (ε := Ext.SliceErr) (s.take len) len = .ok header := by
    rw [← hh]; unfold authToHeader
    rw [bAt_take s len 0 (by omega), be32_take s len 4 (by omega), be32_take s len 8 (by omega),
      sub_take s len 12 (len - 12) (by omega)]
  refine ⟨by unfold decodeAuth; rw [h1]; simp only [h2], ?_⟩
  rw [bAt_take s len 0 (by omega)]
  unfold authToHeader at hh
  cases hn : Auth.new (bAt s 0) (be32 s 4) (be32 s 8) (sub s 12 (len - 12)) with
  | error e => rw [hn] at hh; cases hh
  | ok r =>
    rw [hn] at hh; cases hh
    exact authNew_nextHeader _ _ _ _ _ hn

theorem step_auth {β : Type} (f : Bytes → RProg β) (s : Bytes) :
    (∀ err, authSliceLen s = .error (.len err) →
      evalOn (Reads.auth.bind f) s = (.error (.io .unexpectedEof), s.length)) ∧
    (∀ err, authSliceLen s = .error (.content err) →
      evalOn (Reads.auth.bind f) s = (.error (.other "err(zeropayloadlen)"), 12) ∧ 12 ≤ s.length) ∧
    (∀ len, authSliceLen s = .ok len →
      evalOn (Reads.auth.bind f) s =
        ((evalOn (f (s.take len)) (s.drop len)).1, len + (evalOn (f (s.take len)) (s.drop len)).2)) := by
  refine ⟨fun err h => ?_, fun err h => ?_, fun len h => ?_⟩
  · rw [evalOn_bind, auth_eval]
    rcases authSliceLen_len s err h with h1 | ⟨h1, h2, h3⟩
    · rw [if_pos h1]
    · rw [if_neg h1, if_neg h2, if_pos h3]
  · obtain ⟨h1, h2⟩ := authSliceLen_content s err h
    rw [evalOn_bind, auth_eval, if_neg h1, if_pos h2]
    exact ⟨rfl, by omega⟩
  · obtain ⟨e1, e2, e3, e4, e5⟩ := authSliceLen_ok s len h
    rw [evalOn_bind, auth_eval, if_neg e4, if_neg e5, if_neg (by omega), ← e1]

/-! #### the reader's loop, unfolded; the free-slot invariant -/

theorem extsLoop_zero (free : List ExtKind) (got : List (ExtKind × Bytes)) :
    Reads.extsLoop 0 free got = .done (.error "err(hbhnotatstart)") := by
  rw [Reads.extsLoop]; simp

theorem extsLoop_none (next : Nat) (free : List ExtKind) (got : List (ExtKind × Bytes)) (h0 : next ≠ 0)
    (hs : Reads.slot next free = none) :
    Reads.extsLoop next free got = .done (.ok { got := got, next := next }) := by
  rw [Reads.extsLoop]; simp [h0, hs]

theorem extsLoop_some (next : Nat) (free : List ExtKind) (got : List (ExtKind × Bytes)) (h0 : next ≠ 0)
    (k : ExtKind) (hm : k ∈ free) (p : RProg Bytes) (hs : Reads.slot next free = some (⟨k, hm⟩, p)) :
    Reads.extsLoop next free got =
      p.bind fun b => Reads.extsLoop (bAt b 0) (free.erase k) (got ++ [(k, b)]) := by
  rw [Reads.extsLoop]; simp [h0, hs]

/-- the slots the reader still regards as free are the slots that are empty in the struct decoded so
    far (`fdst`: the final destination options slot, which only exists behind a routing header) -/
structure FreeInv (free : List ExtKind) (r : Exts) : Prop where
  nodup : free.Nodup
  dst : .dst ∈ free ↔ r.destinationOptions = none
  rt : .rt ∈ free ↔ r.routing = none
  frag : .frag ∈ free ↔ r.fragment = none
  auth : .auth ∈ free ↔ r.auth = none
  fdst : .fdst ∈ free ↔ ∀ ro, r.routing = some ro → ro.finalDestinationOptions = none

theorem FreeInv.init (hbh : Option Raw) :
    FreeInv [.dst, .rt, .frag, .auth, .fdst] { Exts.empty with hopByHopOptions := hbh } := by
  refine ⟨by decide, ?_, ?_, ?_, ?_, ?_⟩ <;> simp [Exts.empty]

theorem mem_erase_iff {free : List ExtKind} (hn : free.Nodup) (a k : ExtKind) :
    a ∈ free.erase k ↔ a ≠ k ∧ a ∈ free := hn.mem_erase_iff

theorem slot_stop_60_rt {free : List ExtKind} {r : Exts} (hi : FreeInv free r) (ro : Routing) (v : Raw)
    (hr : r.routing = some ro) (hf : ro.finalDestinationOptions = some v) : Reads.slot 60 free = none := by
  have h1 : .rt ∉ free := fun h => by have := hi.rt.1 h; rw [hr] at this; cases this
  have h2 : .fdst ∉ free := fun h => by have := hi.fdst.1 h ro hr; rw [hf] at this; cases this
  simp [Reads.slot, h1, h2]

theorem slot_go_60_fdst {free : List ExtKind} {r : Exts} (hi : FreeInv free r) (ro : Routing)
    (hr : r.routing = some ro) (hf : ro.finalDestinationOptions = none) :
    ∃ hm, Reads.slot 60 free = some (⟨.fdst, hm⟩, Reads.rawext) := by
  have h1 : .rt ∉ free := fun h => by have := hi.rt.1 h; rw [hr] at this; cases this
  have h2 : .fdst ∈ free := hi.fdst.2 fun ro' h => by rw [hr] at h; cases h; exact hf
  exact ⟨h2, by simp [Reads.slot, h1, h2]⟩

theorem slot_stop_60_dst {free : List ExtKind} {r : Exts} (hi : FreeInv free r) (v : Raw)
    (hr : r.routing = none) (hd : r.destinationOptions = some v) : Reads.slot 60 free = none := by
  have h1 : .rt ∈ free := hi.rt.2 hr
  have h2 : .dst ∉ free := fun h => by have := hi.dst.1 h; rw [hd] at this; cases this
  simp [Reads.slot, h1, h2]

theorem slot_go_60_dst {free : List ExtKind} {r : Exts} (hi : FreeInv free r)
    (hr : r.routing = none) (hd : r.destinationOptions = none) :
    ∃ hm, Reads.slot 60 free = some (⟨.dst, hm⟩, Reads.rawext) := by
  have h1 : .rt ∈ free := hi.rt.2 hr
  have h2 : .dst ∈ free := hi.dst.2 hd
  exact ⟨h2, by simp [Reads.slot, h1, h2]⟩

theorem slot_stop_43 {free : List ExtKind} {r : Exts} (hi : FreeInv free r) (ro : Routing)
    (hr : r.routing = some ro) : Reads.slot 43 free = none := by
  have h1 : .rt ∉ free := fun h => by have := hi.rt.1 h; rw [hr] at this; cases this
  simp [Reads.slot, h1]

theorem slot_go_43 {free : List ExtKind} {r : Exts} (hi : FreeInv free r) (hr : r.routing = none) :
    ∃ hm, Reads.slot 43 free = some (⟨.rt, hm⟩, Reads.rawext) := by
  have h1 : .rt ∈ free := hi.rt.2 hr
  exact ⟨h1, by simp [Reads.slot, h1]⟩

theorem slot_stop_44 {free : List ExtKind} {r : Exts} (hi : FreeInv free r) (v : Frag)
    (hr : r.fragment = some v) : Reads.slot 44 free = none := by
  have h1 : .frag ∉ free := fun h => by have := hi.frag.1 h; rw [hr] at this; cases this
  simp [Reads.slot, h1]

theorem slot_go_44 {free : List ExtKind} {r : Exts} (hi : FreeInv free r) (hr : r.fragment = none) :
    ∃ hm, Reads.slot 44 free = some (⟨.frag, hm⟩, Reads.ipv6frag) := by
  have h1 : .frag ∈ free := hi.frag.2 hr
  exact ⟨h1, by simp [Reads.slot, h1]⟩

theorem slot_stop_51 {free : List ExtKind} {r : Exts} (hi : FreeInv free r) (v : Auth)
    (hr : r.auth = some v) : Reads.slot 51 free = none := by
  have h1 : .auth ∉ free := fun h => by have := hi.auth.1 h; rw [hr] at this; cases this
  simp [Reads.slot, h1]

theorem slot_go_51 {free : List ExtKind} {r : Exts} (hi : FreeInv free r) (hr : r.auth = none) :
    ∃ hm, Reads.slot 51 free = some (⟨.auth, hm⟩, Reads.auth) := by
  have h1 : .auth ∈ free := hi.auth.2 hr
  exact ⟨h1, by simp [Reads.slot, h1]⟩

theorem slot_stop_other (free : List ExtKind) (n : Nat) (h60 : n ≠ 60) (h43 : n ≠ 43) (h44 : n ≠ 44)
    (h51 : n ≠ 51) : Reads.slot n free = none := by
  simp [Reads.slot, h60, h43, h44, h51]

/-! invariant after filling a slot -/

theorem FreeInv.fill_fdst {free : List ExtKind} {r : Exts} (hi : FreeInv free r) (ro : Routing) (h : Raw)
    (hr : r.routing = some ro) :
    FreeInv (free.erase .fdst)
      { hopByHopOptions := r.hopByHopOptions, destinationOptions := r.destinationOptions,
        routing := some { routing := ro.routing, finalDestinationOptions := some h },
        fragment := r.fragment, auth := r.auth } := by
  have hn := hi.nodup
  refine ⟨hn.erase _, ?_, ?_, ?_, ?_, ?_⟩ <;> simp only [mem_erase_iff hn]
  · simpa using hi.dst
  · simp; intro h; have := hi.rt.1 h; rw [hr] at this; cases this
  · simpa using hi.frag
  · simpa using hi.auth
  · simp

theorem FreeInv.fill_dst {free : List ExtKind} {r : Exts} (hi : FreeInv free r) (h : Raw) :
    FreeInv (free.erase .dst)
      { hopByHopOptions := r.hopByHopOptions, destinationOptions := some h, routing := r.routing,
        fragment := r.fragment, auth := r.auth } := by
  have hn := hi.nodup
  refine ⟨hn.erase _, ?_, ?_, ?_, ?_, ?_⟩ <;> simp only [mem_erase_iff hn]
  · simp
  · simpa using hi.rt
  · simpa using hi.frag
  · simpa using hi.auth
  · simpa using hi.fdst

theorem FreeInv.fill_rt {free : List ExtKind} {r : Exts} (hi : FreeInv free r) (h : Raw)
    (hr : r.routing = none) :
    FreeInv (free.erase .rt)
      { hopByHopOptions := r.hopByHopOptions, destinationOptions := r.destinationOptions,
        routing := some { routing := h, finalDestinationOptions := none },
        fragment := r.fragment, auth := r.auth } := by
  have hn := hi.nodup
  refine ⟨hn.erase _, ?_, ?_, ?_, ?_, ?_⟩ <;> simp only [mem_erase_iff hn]
  · simpa using hi.dst
  · simp
  · simpa using hi.frag
  · simpa using hi.auth
  · simp; exact hi.fdst.2 (fun ro h => by rw [hr] at h; cases h)

theorem FreeInv.fill_frag {free : List ExtKind} {r : Exts} (hi : FreeInv free r) (h : Frag) :
    FreeInv (free.erase .frag)
      { hopByHopOptions := r.hopByHopOptions, destinationOptions := r.destinationOptions,
        routing := r.routing, fragment := some h, auth := r.auth } := by
  have hn := hi.nodup
  refine ⟨hn.erase _, ?_, ?_, ?_, ?_, ?_⟩ <;> simp only [mem_erase_iff hn]
  · simpa using hi.dst
  · simpa using hi.rt
  · simp
  · simpa using hi.auth
  · simpa using hi.fdst

theorem FreeInv.fill_auth {free : List ExtKind} {r : Exts} (hi : FreeInv free r) (h : Auth) :
    FreeInv (free.erase .auth)
      { hopByHopOptions := r.hopByHopOptions, destinationOptions := r.destinationOptions,
        routing := r.routing, fragment := r.fragment, auth := some h } := by
  have hn := hi.nodup
  refine ⟨hn.erase _, ?_, ?_, ?_, ?_, ?_⟩ <;> simp only [mem_erase_iff hn]
  · simpa using hi.dst
  · simpa using hi.rt
  · simpa using hi.frag
  · simp
  · simpa using hi.fdst

/-! #### the two loops, step by step -/

/-- canonical text of the content errors of `Ipv6Extensions::from_slice` (as `Reads.ipv6exts` and the
    drivers print them) -/
def extsErrText : HeaderError → String
  | .hopByHopNotAtStart => "err(hbhnotatstart)"
  | .ipAuth .zeroPayloadLen => "err(zeropayloadlen)"

/-- outcome of the slice decoder's loop (standing at `rest`, headers `got` gathered so far) against the
    outcome of the reader's loop on the same bytes (`out` = result and bytes consumed) -/
def LoopRel (rest : Bytes) (got : List (ExtKind × Bytes)) :
    Except (Fault Ext.SliceErr) (Exts × Nat × Bytes) → Except RErr Reads.ExtsRead × Nat → Prop
  | .ok (e, n, rest'), out =>
    ∃ got', out = (.ok { got := got', next := n }, rest.length - rest'.length) ∧
      rest = rest.take (rest.length - rest'.length) ++ rest' ∧
      gathered got' = gathered got ++ rest.take (rest.length - rest'.length) ∧
      decodeGot got' = some e
  | .error (.err (.len _)), out => out = (.error (.io .unexpectedEof), rest.length)
  | .error (.err (.content c)), out => ∃ n, n ≤ rest.length ∧ out = (.error (.other (extsErrText c)), n)
  | .error .panic, _ => False

/-- one header of `len` bytes read in front: the relation moves from the rest to the whole -/
theorem LoopRel.lift (rest : Bytes) (got : List (ExtKind × Bytes)) (k : ExtKind) (len : Nat)
    (hlen : len ≤ rest.length) (o : Except (Fault Ext.SliceErr) (Exts × Nat × Bytes))
    (out : Except RErr Reads.ExtsRead × Nat)
    (h : LoopRel (rest.drop len) (got ++ [(k, rest.take len)]) o out) :
    LoopRel rest got o (out.1, len + out.2) := by
  cases o with
  | ok x =>
    obtain ⟨e, n, rest'⟩ := x
    obtain ⟨got', h1, h2, h3, h4⟩ := h
    have hl : (rest.drop len).length = rest.length - len := List.length_drop
    have hr' : rest'.length ≤ rest.length - len := by
      have := congrArg List.length h2
      rw [List.length_append, List.length_take, hl] at this
      omega
    have hsum : len + (rest.length - len - rest'.length) = rest.length - rest'.length := by omega
    rw [hl] at h1 h2 h3
    refine ⟨got', ?_, ?_, ?_, h4⟩
    · rw [h1]; simp only [Prod.mk.injEq, true_and]; exact hsum
    · rw [← hsum, List.take_add, List.append_assoc, ← h2, List.take_append_drop]
    · rw [h3, gathered_snoc, ← hsum, List.take_add, List.append_assoc]
  | error f =>
    cases f with
    | panic => exact h
    | err se =>
      cases se with
      | len le =>
        have h' : out = (.error (.io .unexpectedEof), (rest.drop len).length) := h
        show (out.1, len + out.2) = _
        rw [h']; simp only [List.length_drop, Prod.mk.injEq, true_and]; omega
      | content c =>
        obtain ⟨n, hn, h'⟩ := h
        refine ⟨len + n, ?_, ?_⟩
        · simp only [List.length_drop] at hn; omega
        · rw [h']

theorem LoopRel.stop (rest : Bytes) (got : List (ExtKind × Bytes)) (result : Exts) (n : Nat)
    (hg : decodeGot got = some result) :
    LoopRel rest got (.ok (result, n, rest)) (evalOn (.done (.ok { got := got, next := n })) rest) := by
  refine ⟨got, ?_, ?_, ?_, hg⟩ <;> simp [evalOn]

theorem LoopRel.lenErr (slice rest : Bytes) (got : List (ExtKind × Bytes)) (err : LenError)
    (hle : rest.length ≤ slice.length) (out : Except RErr Reads.ExtsRead × Nat)
    (h : out = (.error (.io .unexpectedEof), rest.length)) :
    LoopRel rest got (.error (lenErrAt slice rest err)) out := by
  unfold lenErrAt; rw [if_pos hle]; exact h

theorem loop_rel (slice : Bytes) (result : Exts) (rest : Bytes) (next : Nat)
    (free : List ExtKind) (got : List (ExtKind × Bytes))
    (hi : FreeInv free result) (hg : decodeGot got = some result) (hle : rest.length ≤ slice.length) :
    LoopRel rest got (fromSliceLoop slice result rest next)
      (evalOn (Reads.extsLoop next free got) rest) := by
  fun_induction fromSliceLoop slice result rest next generalizing free got
  case case1 result rest =>
    rw [extsLoop_zero]; exact ⟨0, Nat.zero_le _, rfl⟩
  case case2 result rest routing hr val hf =>
    rw [extsLoop_none _ _ _ (by decide) (slot_stop_60_rt hi routing val hr hf)]
    exact LoopRel.stop rest got result 60 hg
  case case3 result rest routing hr hf err hl =>
    obtain ⟨hm, hs⟩ := slot_go_60_fdst hi routing hr hf
    rw [extsLoop_some _ _ _ (by decide) _ hm _ hs]
    exact LoopRel.lenErr slice rest got err hle _ ((step_raw _ rest).1 err hl)
  case case4 result rest routing hr hf len hl f hh =>
    obtain ⟨r, hr'⟩ := rawToHeader_ok _ _ hl; rw [hr'] at hh; cases hh
  case case5 result rest routing hr hf len hl header hh ih =>
    obtain ⟨hm, hs⟩ := slot_go_60_fdst hi routing hr hf
    obtain ⟨e1, e2, e3⟩ := rawSliceLen_ok rest len hl
    obtain ⟨d1, d2⟩ := decodeRaw_take rest len header hl hh
    rw [extsLoop_some _ _ _ (by decide) _ hm _ hs, (step_raw _ rest).2 len hl]
    apply LoopRel.lift rest got .fdst len e3
    rw [← d2]
    refine ih _ _ (hi.fill_fdst routing header hr) ?_ (by simp only [List.length_drop]; omega)
    rw [decodeGot_snoc got _ result hg]
    simp only [putGot, hr, d1, Option.map_some]
  case case6 result rest hr val hd =>
    rw [extsLoop_none _ _ _ (by decide) (slot_stop_60_dst hi val hr hd)]
    exact LoopRel.stop rest got result 60 hg
  case case7 result rest hr hd err hl =>
    obtain ⟨hm, hs⟩ := slot_go_60_dst hi hr hd
    rw [extsLoop_some _ _ _ (by decide) _ hm _ hs]
    exact LoopRel.lenErr slice rest got err hle _ ((step_raw _ rest).1 err hl)
  case case8 result rest hr hd len hl f hh =>
    obtain ⟨r, hr'⟩ := rawToHeader_ok _ _ hl; rw [hr'] at hh; cases hh
  case case9 result rest hr hd len hl header hh ih =>
    obtain ⟨hm, hs⟩ := slot_go_60_dst hi hr hd
    obtain ⟨e1, e2, e3⟩ := rawSliceLen_ok rest len hl
    obtain ⟨d1, d2⟩ := decodeRaw_take rest len header hl hh
    rw [extsLoop_some _ _ _ (by decide) _ hm _ hs, (step_raw _ rest).2 len hl]
    apply LoopRel.lift rest got .dst len e3
    rw [← d2]
    refine ih _ _ (hi.fill_dst header) ?_ (by simp only [List.length_drop]; omega)
    rw [decodeGot_snoc got _ result hg]
    simp only [putGot, d1, Option.map_some]
  case case10 result rest routing hr =>
    rw [extsLoop_none _ _ _ (by decide) (slot_stop_43 hi routing hr)]
    exact LoopRel.stop rest got result 43 hg
  case case11 result rest hr err hl =>
    obtain ⟨hm, hs⟩ := slot_go_43 hi hr
    rw [extsLoop_some _ _ _ (by decide) _ hm _ hs]
    exact LoopRel.lenErr slice rest got err hle _ ((step_raw _ rest).1 err hl)
  case case12 result rest hr len hl f hh =>
    obtain ⟨r, hr'⟩ := rawToHeader_ok _ _ hl; rw [hr'] at hh; cases hh
  case case13 result rest hr len hl header hh ih =>
    obtain ⟨hm, hs⟩ := slot_go_43 hi hr
    obtain ⟨e1, e2, e3⟩ := rawSliceLen_ok rest len hl
    obtain ⟨d1, d2⟩ := decodeRaw_take rest len header hl hh
    rw [extsLoop_some _ _ _ (by decide) _ hm _ hs, (step_raw _ rest).2 len hl]
    apply LoopRel.lift rest got .rt len e3
    rw [← d2]
    refine ih _ _ (hi.fill_rt header hr) ?_ (by simp only [List.length_drop]; omega)
    rw [decodeGot_snoc got _ result hg]
    simp only [putGot, d1, Option.map_some]
  case case14 result rest val hf =>
    rw [extsLoop_none _ _ _ (by decide) (slot_stop_44 hi val hf)]
    exact LoopRel.stop rest got result 44 hg
  case case15 result rest hf err hl =>
    obtain ⟨hm, hs⟩ := slot_go_44 hi hf
    rw [extsLoop_some _ _ _ (by decide) _ hm _ hs]
    exact LoopRel.lenErr slice rest got err hle _ ((step_frag _ rest).1 (fragFromSlice_err rest err hl))
  case case16 result rest hf header hh ih =>
    obtain ⟨hm, hs⟩ := slot_go_44 hi hf
    obtain ⟨e3, d1, d2⟩ := decodeFrag_take rest header hh
    rw [extsLoop_some _ _ _ (by decide) _ hm _ hs, (step_frag _ rest).2 e3]
    apply LoopRel.lift rest got .frag 8 e3
    rw [← d2]
    refine ih _ _ (hi.fill_frag header) ?_ (by simp only [List.length_drop]; omega)
    rw [decodeGot_snoc got _ result hg]
    simp only [putGot, d1, Option.map_some]
  case case17 result rest val ha =>
    rw [extsLoop_none _ _ _ (by decide) (slot_stop_51 hi val ha)]
    exact LoopRel.stop rest got result 51 hg
  case case18 result rest ha err hl =>
    obtain ⟨hm, hs⟩ := slot_go_51 hi ha
    rw [extsLoop_some _ _ _ (by decide) _ hm _ hs]
    exact LoopRel.lenErr slice rest got err hle _ ((step_auth _ rest).1 err hl)
  case case19 result rest ha err hl =>
    obtain ⟨hm, hs⟩ := slot_go_51 hi ha
    rw [extsLoop_some _ _ _ (by decide) _ hm _ hs]
    obtain ⟨h1, h2⟩ := (step_auth _ rest).2.1 err hl
    cases err
    exact ⟨12, h2, h1⟩
  case case20 result rest ha len hl f hh =>
    obtain ⟨r, hr'⟩ := authToHeader_ok (ε := Ext.SliceErr) _ _ hl; rw [hr'] at hh; cases hh
  case case21 result rest ha len hl header hh ih =>
    obtain ⟨hm, hs⟩ := slot_go_51 hi ha
    obtain ⟨e1, e2, e3, _, _⟩ := authSliceLen_ok rest len hl
    obtain ⟨d1, d2⟩ := decodeAuth_take rest len header hl hh
    rw [extsLoop_some _ _ _ (by decide) _ hm _ hs, (step_auth _ rest).2.2 len hl]
    apply LoopRel.lift rest got .auth len e3
    rw [← d2]
    refine ih _ _ (hi.fill_auth header) ?_ (by simp only [List.length_drop]; omega)
    rw [decodeGot_snoc got _ result hg]
    simp only [putGot, d1, Option.map_some]
  case case22 result rest n h0 h60 h43 h44 h51 =>
    rw [extsLoop_none _ _ _ (fun h => h0 h) (slot_stop_other free n (fun h => h60 h) (fun h => h43 h)
      (fun h => h44 h) (fun h => h51 h))]
    exact LoopRel.stop rest got result n hg

theorem ipv6exts_rel (start : Nat) (b : Bytes) :
    LoopRel b [] (Exts.fromSlice start b) (evalOn (Reads.ipv6exts start) b) := by
  unfold Exts.fromSlice Reads.ipv6exts
  by_cases hs : start = 0
  · subst hs
    simp only [if_true]
    cases hl : rawSliceLen b with
    | error err => exact (step_raw _ b).1 err hl
    | ok len =>
      simp only
      obtain ⟨header, hh⟩ := rawToHeader_ok _ _ hl
      obtain ⟨e1, e2, e3⟩ := rawSliceLen_ok b len hl
      obtain ⟨d1, d2⟩ := decodeRaw_take b len header hl hh
      rw [hh, (step_raw _ b).2 len hl]
      simp only
      apply LoopRel.lift b [] .hbh len e3
      rw [← d2]
      refine loop_rel b _ _ _ _ _ (FreeInv.init (some header)) ?_ (by simp only [List.length_drop]; omega)
      simp [decodeGot, List.foldlM, putGot, d1]
  · rw [if_neg (fun h => hs h.symm), if_neg hs]
    exact loop_rel b _ _ _ _ _ (FreeInv.init none) rfl (Nat.le_refl _)

/-! #### `from_slice` only looks at the bytes it consumes -/

theorem rawSliceLen_take (s : Bytes) (m len : Nat) (h : rawSliceLen s = .ok len) (hm : len ≤ m) :
    rawSliceLen (s.take m) = .ok len ∧ rawToHeader (s.take m) len = rawToHeader s len := by
  obtain ⟨e1, e2, e3⟩ := rawSliceLen_ok s len h
  have hlen : len ≤ (s.take m).length := by simp only [List.length_take]; omega
  unfold rawextLen at e1
  refine ⟨?_, ?_⟩
  · unfold rawSliceLen
    rw [if_neg (by omega), bAt_take s m 1 (by omega)]
    simp only
    rw [if_neg (by omega), e1]
  · unfold rawToHeader
    rw [bAt_take s m 0 (by omega), sub_take s m 2 (len - 2) (by omega)]

theorem fragFromSlice_take (s : Bytes) (m : Nat) (f : Frag) (h : fragFromSlice s = .ok f) (hm : 8 ≤ m) :
    fragFromSlice (s.take m) = .ok f := by
  have h8 := (decodeFrag_take s f h).1
  unfold fragFromSlice at h ⊢
  have hlen : 8 ≤ (s.take m).length := by simp only [List.length_take]; omega
  rw [if_neg (by omega)] at h ⊢
  rw [bAt_take s m 0 (by omega), be16_take s m 2 (by omega), bAt_take s m 3 (by omega),
    be32_take s m 4 (by omega)]
  exact h

theorem authSliceLen_take (s : Bytes) (m len : Nat) (h : authSliceLen s = .ok len) (hm : len ≤ m) :
    authSliceLen (s.take m) = .ok len ∧
      authToHeader (ε := Ext.SliceErr) (s.take m) len = authToHeader s len := by
  obtain ⟨e1, e2, e3, e4, e5⟩ := authSliceLen_ok s len h
  have hlen : len ≤ (s.take m).length := by simp only [List.length_take]; omega
  unfold authLen at e1
  refine ⟨?_, ?_⟩
  · unfold authSliceLen
    rw [if_neg (by omega), bAt_take s m 1 (by omega)]
    simp only
    rw [if_neg e5, if_neg (by omega), e1]
  · unfold authToHeader
    rw [bAt_take s m 0 (by omega), be32_take s m 4 (by omega), be32_take s m 8 (by omega),
      sub_take s m 12 (len - 12) (by omega)]

theorem drop_take_sub (s : Bytes) (len m : Nat) : (s.take m).drop len = (s.drop len).take (m - len) := by
  rw [List.drop_take]

/-- the loop of `Ipv6Extensions::from_slice` only looks at the bytes it consumes: on exactly those bytes
    it returns the same struct and next ip number (and nothing is left) -/
theorem fromSliceLoop_take (slice slice' : Bytes) (result : Exts) (rest : Bytes) (next : Nat) :
    ∀ e n rest', fromSliceLoop slice result rest next = .ok (e, n, rest') →
      rest'.length ≤ rest.length ∧
      fromSliceLoop slice' result (rest.take (rest.length - rest'.length)) next = .ok (e, n, []) := by
  fun_induction fromSliceLoop slice result rest next
  all_goals intro e n rest' h
  all_goals try (simp at h; done)
  case case2 result rest routing hr val hf =>
    cases h
    refine ⟨Nat.le_refl _, ?_⟩
    rw [fromSliceLoop]
    split
    · rename_i routing' hr'
      have : routing' = routing := by rw [hr] at hr'; cases hr'; rfl
      subst this
      split
      · simp
      · rename_i hv; rw [hf] at hv; cases hv
    · rename_i hr'; rw [hr] at hr'; cases hr'
  case case5 result rest routing hr hf len hl header hh ih =>
    obtain ⟨i1, i2⟩ := ih e n rest' h
    obtain ⟨e1, e2, e3⟩ := rawSliceLen_ok rest len hl
    simp only [List.length_drop] at i1 i2
    refine ⟨by omega, ?_⟩
    obtain ⟨t1, t2⟩ := rawSliceLen_take rest (rest.length - rest'.length) len hl (by omega)
    rw [fromSliceLoop]
    split
    · rename_i routing' hr'
      have : routing' = routing := by rw [hr] at hr'; cases hr'; rfl
      subst this
      split
      · rename_i v hv; rw [hf] at hv; cases hv
      · simp only [t1, t2, hh, drop_take_sub]
        rw [show rest.length - rest'.length - len = rest.length - len - rest'.length by omega]
        exact i2
    · rename_i hr'; rw [hr] at hr'; cases hr'
  case case6 result rest hr val hd =>
    cases h
    refine ⟨Nat.le_refl _, ?_⟩
    rw [fromSliceLoop]
    split
    · rename_i routing' hr'; rw [hr] at hr'; cases hr'
    · split
      · simp
      · rename_i hv; rw [hd] at hv; cases hv
  case case9 result rest hr hd len hl header hh ih =>
    obtain ⟨i1, i2⟩ := ih e n rest' h
    obtain ⟨e1, e2, e3⟩ := rawSliceLen_ok rest len hl
    simp only [List.length_drop] at i1 i2
    refine ⟨by omega, ?_⟩
    obtain ⟨t1, t2⟩ := rawSliceLen_take rest (rest.length - rest'.length) len hl (by omega)
    rw [fromSliceLoop]
    split
    · rename_i routing' hr'; rw [hr] at hr'; cases hr'
    · split
      · rename_i v hv; rw [hd] at hv; cases hv
      · simp only [t1, t2, hh, drop_take_sub]
        rw [show rest.length - rest'.length - len = rest.length - len - rest'.length by omega]
        exact i2
  case case10 result rest routing hr =>
    cases h
    refine ⟨Nat.le_refl _, ?_⟩
    rw [fromSliceLoop]
    split
    · simp
    · rename_i hr'; rw [hr] at hr'; cases hr'
  case case13 result rest hr len hl header hh ih =>
    obtain ⟨i1, i2⟩ := ih e n rest' h
    obtain ⟨e1, e2, e3⟩ := rawSliceLen_ok rest len hl
    simp only [List.length_drop] at i1 i2
    refine ⟨by omega, ?_⟩
    obtain ⟨t1, t2⟩ := rawSliceLen_take rest (rest.length - rest'.length) len hl (by omega)
    rw [fromSliceLoop]
    split
    · rename_i v hr'; rw [hr] at hr'; cases hr'
    · simp only [t1, t2, hh, drop_take_sub]
      rw [show rest.length - rest'.length - len = rest.length - len - rest'.length by omega]
      exact i2
  case case14 result rest val hf =>
    cases h
    refine ⟨Nat.le_refl _, ?_⟩
    rw [fromSliceLoop]
    split
    · simp
    · rename_i hr'; rw [hf] at hr'; cases hr'
  case case16 result rest hf header hh ih =>
    obtain ⟨i1, i2⟩ := ih e n rest' h
    have h8 := (decodeFrag_take rest header hh).1
    simp only [List.length_drop] at i1 i2
    refine ⟨by omega, ?_⟩
    have t1 := fragFromSlice_take rest (rest.length - rest'.length) header hh (by omega)
    rw [fromSliceLoop]
    split
    · rename_i v hr'; rw [hf] at hr'; cases hr'
    · simp only [t1, drop_take_sub]
      rw [show rest.length - rest'.length - 8 = rest.length - 8 - rest'.length by omega]
      exact i2
  case case17 result rest val ha =>
    cases h
    refine ⟨Nat.le_refl _, ?_⟩
    rw [fromSliceLoop]
    split
    · simp
    · rename_i hr'; rw [ha] at hr'; cases hr'
  case case21 result rest ha len hl header hh ih =>
    obtain ⟨i1, i2⟩ := ih e n rest' h
    obtain ⟨e1, e2, e3, _, _⟩ := authSliceLen_ok rest len hl
    simp only [List.length_drop] at i1 i2
    refine ⟨by omega, ?_⟩
    obtain ⟨t1, t2⟩ := authSliceLen_take rest (rest.length - rest'.length) len hl (by omega)
    rw [fromSliceLoop]
    split
    · rename_i v hr'; rw [ha] at hr'; cases hr'
    · simp only [t1, t2, hh, drop_take_sub]
      rw [show rest.length - rest'.length - len = rest.length - len - rest'.length by omega]
      exact i2
  case case22 result rest n h0 h60 h43 h44 h51 =>
    cases h
    refine ⟨Nat.le_refl _, ?_⟩
    rw [fromSliceLoop]
    · simp
    all_goals (intro hh; first | exact h0 hh | exact h60 hh | exact h43 hh | exact h44 hh | exact h51 hh)

/-- `Ipv6Extensions::from_slice` on exactly the bytes it consumed gives the same struct and next ip
    number, and nothing is left -/
theorem extsFromSlice_take (start : Nat) (b : Bytes) (e : Exts) (n : Nat) (rest : Bytes)
    (h : Exts.fromSlice start b = .ok (e, n, rest)) :
    rest.length ≤ b.length ∧ Exts.fromSlice start (b.take (b.length - rest.length)) = .ok (e, n, []) := by
  unfold Exts.fromSlice at h ⊢
  by_cases hs : IPV6_HOP_BY_HOP = start
  · simp only [if_pos hs] at h ⊢
    cases hl : rawSliceLen b with
    | error err => rw [hl] at h; cases h
    | ok len =>
      rw [hl] at h
      simp only at h
      obtain ⟨header, hh⟩ := rawToHeader_ok _ _ hl
      rw [hh] at h
      simp only at h
      obtain ⟨e1, e2, e3⟩ := rawSliceLen_ok b len hl
      obtain ⟨i1, i2⟩ := fromSliceLoop_take b (b.take (b.length - rest.length)) _ _ _ e n rest h
      simp only [List.length_drop] at i1 i2
      refine ⟨by omega, ?_⟩
      obtain ⟨t1, t2⟩ := rawSliceLen_take b (b.length - rest.length) len hl (by omega)
      simp only [t1, t2, hh, drop_take_sub]
      rw [show b.length - rest.length - len = b.length - len - rest.length by omega]
      exact i2
  · simp only [if_neg hs] at h ⊢
    exact fromSliceLoop_take b _ _ _ _ e n rest h

/-- the table for `Ipv6Extensions`: `got` = the bytes the reader gathered for each header, in reading
    order; concatenated they are exactly the bytes in front of `rest`, and decoded header by header
    (`decodeGot`) they make up the struct `from_slice` returns - as does `from_slice` itself on exactly those bytes -/
theorem ipv6exts_table (start : Nat) (pre b : Bytes) :
    match Exts.fromSlice start b with
    | .ok (e, next, rest) =>
      ∃ got, ReadsOk (Reads.ipv6exts start) pre b (b.length - rest.length) { got := got, next := next } ∧
        b = b.take (b.length - rest.length) ++ rest ∧
        gathered got = b.take (b.length - rest.length) ∧ decodeGot got = some e ∧
        Exts.fromSlice start (b.take (b.length - rest.length)) = .ok (e, next, [])
    | .error (.err (.len _)) => ReadsEof (Reads.ipv6exts start) pre b
    | .error (.err (.content c)) =>
      ∃ n, n ≤ b.length ∧ ReadsContent (Reads.ipv6exts start) pre b n (extsErrText c)
    | .error .panic => False := by
  have h := ipv6exts_rel start b
  cases hd : Exts.fromSlice start b with
  | ok x =>
    obtain ⟨e, n, rest⟩ := x
    rw [hd] at h
    obtain ⟨got', h1, h2, h3, h4⟩ := h
    exact ⟨got', readsOk_of_eval h1, h2, by simpa [gathered] using h3, h4, (extsFromSlice_take start b e n rest hd).2⟩
  | error f =>
    rw [hd] at h
    cases f with
    | panic => exact h
    | err se =>
      cases se with
      | len le => exact readsEof_of_eval h
      | content c =>
        obtain ⟨n, hn, h'⟩ := h
        exact ⟨n, hn, readsContent_of_eval h'⟩

end Ipv6ExtsChain

section LimitedReaders

/-! ## LimitedReader over a byte string -/

theorem readExact_adv_zero (pre b : Bytes) (m : Nat) :
    (readerAdv pre b m).readExact 0 = (readerAdv pre b m, .ok []) := by simp [Reader.readExact]

theorem readExact_adv_ok (pre b : Bytes) (m n : Nat) (hn : n ≠ 0) (hfit : m + n ≤ b.length) :
    (readerAdv pre b m).readExact n = (readerAdv pre b (m + n), .ok ((b.drop m).take n)) := by
  have e2 : List.drop (pre.length + m) pre = [] := List.drop_eq_nil_of_le (by omega)
  simp [Reader.readExact, readerAdv, Reader.limit, hn, sub, List.drop_append, e2, Nat.add_assoc, hfit]

theorem readExact_adv_eof (pre b : Bytes) (m n : Nat) (hm : m ≤ b.length) (hfit : ¬ m + n ≤ b.length) :
    (readerAdv pre b m).readExact n = (readerAdv pre b b.length, .error .unexpectedEof) := by
  have hn : n ≠ 0 := by omega
  have e1 : ¬ pre.length + m + n ≤ pre.length + b.length := by omega
  have e2 : max m b.length = b.length := by omega
  simp [Reader.readExact, readerAdv, Reader.limit, Reader.dryError, hn, e1, e2]

/-- `read_exact(n)` on the reader `m` bytes into `b` -/
theorem readExact_adv (pre b : Bytes) (m n : Nat) (hm : m ≤ b.length) :
    (readerAdv pre b m).readExact n =
      if n ≤ (b.drop m).length then (readerAdv pre b (m + n), .ok ((b.drop m).take n))
      else (readerAdv pre b b.length, .error .unexpectedEof) := by
  by_cases hfit : n ≤ (b.drop m).length
  · rw [if_pos hfit]
    by_cases hn : n = 0
    · subst hn; rw [readExact_adv_zero]; simp
    · exact readExact_adv_ok pre b m n hn (by simp at hfit; omega)
  · rw [if_neg hfit]
    exact readExact_adv_eof pre b m n hm (by simp at hfit; omega)

/-- the bookkeeping fields of a `LimitedReader` -/
structure LSt where
  maxLen : Nat
  readLen : Nat
  layerOffset : Nat
  layer : String
  src : String

/-- bookkeeping after a successful `read_exact(n)` -/
def LSt.adv (st : LSt) (n : Nat) : LSt :=
  { maxLen := st.maxLen, readLen := st.readLen + n, layerOffset := st.layerOffset, layer := st.layer,
    src := st.src }

/-- bookkeeping after `start_layer(layer)` -/
def LSt.started (st : LSt) (layer : String) : LSt :=
  { maxLen := st.maxLen - st.readLen, readLen := 0, layerOffset := st.layerOffset + st.readLen,
    layer := layer, src := st.src }

/-- the length error a `LimitedReader` reports when `n` more bytes exceed the limit -/
def LSt.lenErr (st : LSt) (n : Nat) : LenErr :=
  { required := st.readLen + n, len := st.maxLen, src := st.src, layer := st.layer, off := st.layerOffset }

/-- the `LimitedReader` with bookkeeping `st` around the reader `m` bytes into `b` -/
def limitedAdv (pre b : Bytes) (m : Nat) (st : LSt) : Limited :=
  { inner := readerAdv pre b m, maxLen := st.maxLen, lenSource := st.src, layer := st.layer,
    layerOffset := st.layerOffset, readLen := st.readLen, panicked := false }

/-- byte-string semantics of a limited read program: result, bytes consumed, bookkeeping afterwards -/
def evalOnL {α : Type} : LProg α → LSt → Bytes → Except LErr α × Nat × LSt
  | .done (.ok a), st, _ => (.ok a, 0, st)
  | .done (.error s), st, _ => (.error (.other s), 0, st)
  | .read n k, st, b =>
    if st.maxLen - st.readLen < n then (.error (.len (st.lenErr n)), 0, st)
    else if n ≤ b.length then
      ((evalOnL (k (b.take n)) (st.adv n) (b.drop n)).1, n + (evalOnL (k (b.take n)) (st.adv n) (b.drop n)).2.1,
        (evalOnL (k (b.take n)) (st.adv n) (b.drop n)).2.2)
    else (.error (.io .unexpectedEof), b.length, st)
  | .start layer k, st, b => evalOnL k (st.started layer) b

theorem limited_readExact_adv (pre b : Bytes) (m : Nat) (st : LSt) (n : Nat) (hm : m ≤ b.length)
    (hst : st.readLen ≤ st.maxLen) :
    (limitedAdv pre b m st).readExact n =
      if st.maxLen - st.readLen < n then (limitedAdv pre b m st, .error (.len (st.lenErr n)))
      else if n ≤ (b.drop m).length then
        (limitedAdv pre b (m + n) (st.adv n), .ok ((b.drop m).take n))
      else (limitedAdv pre b b.length st, .error (.io .unexpectedEof)) := by
  have h1 : ¬ (limitedAdv pre b m st).maxLen < (limitedAdv pre b m st).readLen := by
    simp only [limitedAdv]; omega
  unfold Limited.readExact
  rw [if_neg h1]
  by_cases hlim : st.maxLen - st.readLen < n
  · rw [if_pos hlim, if_pos (by simpa [limitedAdv] using hlim)]
    rfl
  · rw [if_neg hlim, if_neg (by simpa [limitedAdv] using hlim)]
    have : (limitedAdv pre b m st).inner = readerAdv pre b m := rfl
    rw [this, readExact_adv pre b m n hm]
    by_cases hfit : n ≤ (b.drop m).length
    · rw [if_pos hfit, if_pos hfit]; rfl
    · rw [if_neg hfit, if_neg hfit]; rfl

theorem runL_adv {α : Type} (p : LProg α) (pre b : Bytes) (m : Nat) (st : LSt) (hm : m ≤ b.length)
    (hst : st.readLen ≤ st.maxLen) :
    p.run (limitedAdv pre b m st) =
      (limitedAdv pre b (m + (evalOnL p st (b.drop m)).2.1) (evalOnL p st (b.drop m)).2.2,
       (evalOnL p st (b.drop m)).1) := by
  induction p generalizing m st with
  | done res => cases res <;> simp [LProg.run, evalOnL]
  | read n k ih =>
    simp only [LProg.run, evalOnL]
    rw [limited_readExact_adv pre b m st n hm hst]
    by_cases hlim : st.maxLen - st.readLen < n
    · simp only [if_pos hlim, Nat.add_zero]
    · simp only [if_neg hlim]
      by_cases hfit : n ≤ (b.drop m).length
      · simp only [if_pos hfit]
        have hfit' : m + n ≤ b.length := by simp at hfit; omega
        rw [ih ((b.drop m).take n) (m + n) (st.adv n) hfit' (by simp only [LSt.adv]; omega)]
        simp only [List.drop_drop, Nat.add_assoc]
      · simp only [if_neg hfit]
        simp at hfit
        have : m + (b.length - m) = b.length := by omega
        simp only [List.length_drop, this]
  | start layer k ih =>
    simp only [LProg.run, evalOnL]
    have hs : (limitedAdv pre b m st).startLayer layer = limitedAdv pre b m (st.started layer) := by
      unfold Limited.startLayer
      rw [if_pos (show (limitedAdv pre b m st).readLen ≤ (limitedAdv pre b m st).maxLen from hst)]
      rfl
    rw [hs]
    have : (limitedAdv pre b m (st.started layer)).panicked = false := rfl
    rw [this]
    simp only [Bool.false_eq_true, if_false]
    exact ih m _ hm (by simp [LSt.started])

/-! ### the limited header readers, one header at a time -/

theorem evalOnL_bind {α β : Type} (p : LProg α) (f : α → LProg β) (st : LSt) (b : Bytes) :
    evalOnL (p.bind f) st b =
      match evalOnL p st b with
      | (.ok a, n, st') =>
        ((evalOnL (f a) st' (b.drop n)).1, n + (evalOnL (f a) st' (b.drop n)).2.1,
          (evalOnL (f a) st' (b.drop n)).2.2)
      | (.error e, n, st') => (.error e, n, st') := by
  induction p generalizing st b with
  | done res =>
    cases res with
    | ok a => simp [LProg.bind, evalOnL]
    | error s => simp [LProg.bind, evalOnL]
  | read n k ih =>
    simp only [LProg.bind, evalOnL]
    by_cases hlim : st.maxLen - st.readLen < n
    · simp only [if_pos hlim]
    · simp only [if_neg hlim]
      by_cases hn : n ≤ b.length
      · simp only [if_pos hn]
        rw [ih]
        cases h : evalOnL (k (b.take n)) (st.adv n) (b.drop n) with
        | mk r rest =>
          obtain ⟨m, st'⟩ := rest
          cases r with
          | ok a => simp only [List.drop_drop, Nat.add_assoc]
          | error e => simp only
      · simp only [if_neg hn]
  | start layer k ih =>
    simp only [LProg.bind, evalOnL]
    exact ih _ _

/-- bookkeeping after a complete header of `len` bytes was read through `start_layer(layer)` -/
def LSt.after (st : LSt) (layer : String) (len : Nat) : LSt :=
  { maxLen := st.maxLen - st.readLen, readLen := len, layerOffset := st.layerOffset + st.readLen,
    layer := layer, src := st.src }

/-- a length error of a limited header read: the limit (`len`), its source, the layer and the offset of
    the header are fixed; `required` is whatever the failing `read_exact` asked for -/
def LimitErr (st : LSt) (layer : String) (le : LenErr) : Prop :=
  le.len = st.maxLen - st.readLen ∧ le.src = st.src ∧ le.layer = layer ∧
  le.off = st.layerOffset + st.readLen ∧ le.len < le.required

theorem lrawext_step {β : Type} (f : Bytes → LProg β) (st : LSt) (s : Bytes)
    (hR : st.maxLen - st.readLen ≤ s.length) :
    (st.maxLen - st.readLen < rawextLen s →
      ∃ le c st', evalOnL (LReads.rawext.bind f) st s = (.error (.len le), c, st') ∧
        LimitErr st "Ipv6ExtHeader" le ∧ (8 ≤ st.maxLen - st.readLen → le.required = rawextLen s)) ∧
    (rawextLen s ≤ st.maxLen - st.readLen →
      evalOnL (LReads.rawext.bind f) st s =
        ((evalOnL (f (s.take (rawextLen s))) (st.after "Ipv6ExtHeader" (rawextLen s)) (s.drop (rawextLen s))).1,
         rawextLen s +
          (evalOnL (f (s.take (rawextLen s))) (st.after "Ipv6ExtHeader" (rawextLen s)) (s.drop (rawextLen s))).2.1,
         (evalOnL (f (s.take (rawextLen s))) (st.after "Ipv6ExtHeader" (rawextLen s)) (s.drop (rawextLen s))).2.2)) := by
  have hlen : rawextLen s = 2 + (bAt s 1 * 8 + 6) := by unfold rawextLen; omega
  rw [evalOnL_bind]
  simp only [LReads.rawext, evalOnL, LSt.started, LSt.adv, LSt.lenErr, Nat.sub_zero, Nat.zero_add]
  refine ⟨fun h => ?_, fun h => ?_⟩
  · by_cases h2 : st.maxLen - st.readLen < 2
    · rw [if_pos h2]
      exact ⟨_, _, _, rfl, ⟨rfl, rfl, rfl, rfl, h2⟩, fun h8 => by omega⟩
    · rw [if_neg h2, if_pos (by omega)]
      simp only [bAt_take s 2 1 (by omega)]
      rw [if_pos (by omega)]
      exact ⟨_, _, _, rfl, ⟨rfl, rfl, rfl, rfl, by simp only; omega⟩, fun _ => by simp only; omega⟩
  · rw [if_neg (by omega), if_pos (by omega)]
    simp only [bAt_take s 2 1 (by omega)]
    rw [if_neg (by omega), if_pos (by simp only [List.length_drop]; omega)]
    simp only [← List.take_add, ← hlen, LSt.after, Nat.add_zero]

theorem lfrag_step {β : Type} (f : Bytes → LProg β) (st : LSt) (s : Bytes)
    (hR : st.maxLen - st.readLen ≤ s.length) :
    (st.maxLen - st.readLen < 8 →
      ∃ le c st', evalOnL (LReads.ipv6frag.bind f) st s = (.error (.len le), c, st') ∧
        LimitErr st "Ipv6FragHeader" le ∧ le.required = 8) ∧
    (8 ≤ st.maxLen - st.readLen →
      evalOnL (LReads.ipv6frag.bind f) st s =
        ((evalOnL (f (s.take 8)) (st.after "Ipv6FragHeader" 8) (s.drop 8)).1,
         8 + (evalOnL (f (s.take 8)) (st.after "Ipv6FragHeader" 8) (s.drop 8)).2.1,
         (evalOnL (f (s.take 8)) (st.after "Ipv6FragHeader" 8) (s.drop 8)).2.2)) := by
  rw [evalOnL_bind]
  simp only [LReads.ipv6frag, evalOnL, LSt.started, LSt.adv, LSt.lenErr, Nat.sub_zero, Nat.zero_add]
  refine ⟨fun h => ?_, fun h => ?_⟩
  · rw [if_pos h]
    exact ⟨_, _, _, rfl, ⟨rfl, rfl, rfl, rfl, h⟩, rfl⟩
  · rw [if_neg (by omega), if_pos (by omega)]
    simp only [LSt.after, Nat.add_zero]

theorem lauth_step {β : Type} (f : Bytes → LProg β) (st : LSt) (s : Bytes)
    (hR : st.maxLen - st.readLen ≤ s.length) :
    (st.maxLen - st.readLen < 12 →
      ∃ le c st', evalOnL (LReads.auth.bind f) st s = (.error (.len le), c, st') ∧
        LimitErr st "IpAuthHeader" le ∧ le.required = 12) ∧
    (12 ≤ st.maxLen - st.readLen → bAt s 1 < 1 →
      ∃ st', evalOnL (LReads.auth.bind f) st s = (.error (.other "err(zeropayloadlen)"), 12, st')) ∧
    (12 ≤ st.maxLen - st.readLen → ¬ bAt s 1 < 1 → st.maxLen - st.readLen < authLen s →
      ∃ le c st', evalOnL (LReads.auth.bind f) st s = (.error (.len le), c, st') ∧
        LimitErr st "IpAuthHeader" le ∧ le.required = authLen s) ∧
    (12 ≤ st.maxLen - st.readLen → ¬ bAt s 1 < 1 → authLen s ≤ st.maxLen - st.readLen →
      evalOnL (LReads.auth.bind f) st s =
        ((evalOnL (f (s.take (authLen s))) (st.after "IpAuthHeader" (authLen s)) (s.drop (authLen s))).1,
         authLen s +
          (evalOnL (f (s.take (authLen s))) (st.after "IpAuthHeader" (authLen s)) (s.drop (authLen s))).2.1,
         (evalOnL (f (s.take (authLen s))) (st.after "IpAuthHeader" (authLen s)) (s.drop (authLen s))).2.2)) := by
  have hlen : ¬ bAt s 1 < 1 → authLen s = 12 + (bAt s 1 - 1) * 4 := by unfold authLen; omega
  rw [evalOnL_bind]
  simp only [LReads.auth, evalOnL, LSt.started, LSt.adv, LSt.lenErr, Nat.sub_zero, Nat.zero_add]
  refine ⟨fun h => ?_, fun h hz => ?_, fun h hz hr => ?_, fun h hz hr => ?_⟩
  · rw [if_pos h]
    exact ⟨_, _, _, rfl, ⟨rfl, rfl, rfl, rfl, h⟩, rfl⟩
  · rw [if_neg (by omega), if_pos (by omega)]
    simp only [bAt_take s 12 1 (by omega), if_pos hz, evalOnL]
    exact ⟨_, rfl⟩
  · rw [if_neg (by omega), if_pos (by omega)]
    simp only [bAt_take s 12 1 (by omega), if_neg hz, evalOnL]
    have := hlen hz
    rw [if_pos (by omega)]
    exact ⟨_, _, _, rfl, ⟨rfl, rfl, rfl, rfl, by show st.maxLen - st.readLen < 12 + (bAt s 1 - 1) * 4; omega⟩, this.symm⟩
  · rw [if_neg (by omega), if_pos (by omega)]
    simp only [bAt_take s 12 1 (by omega), if_neg hz, evalOnL]
    have := hlen hz
    rw [if_neg (by omega), if_pos (by simp only [List.length_drop]; omega)]
    simp only [← List.take_add, ← this, LSt.after, LSt.adv, Nat.add_zero]

/-! ### the limited extension chain reader against the struct-mode chain walk of the slice decoder
  (`Dec.extsLoop … true …`, the model of `Ipv6Extensions::from_slice` inside `IpHeaders::from_slice`, C03/C06 `dec.*` correspondence) -/

theorem lextsLoop_zero (free : List ExtKind) (got : List (ExtKind × Bytes)) :
    LReads.extsLoop 0 free got = .done (.error "err(hbhnotatstart)") := by
  rw [LReads.extsLoop]; simp

theorem lextsLoop_none (next : Nat) (free : List ExtKind) (got : List (ExtKind × Bytes)) (h0 : next ≠ 0)
    (hs : LReads.slot next free = none) :
    LReads.extsLoop next free got = .done (.ok { got := got, next := next }) := by
  rw [LReads.extsLoop]; simp [h0, hs]

theorem lextsLoop_some (next : Nat) (free : List ExtKind) (got : List (ExtKind × Bytes)) (h0 : next ≠ 0)
    (k : ExtKind) (hm : k ∈ free) (p : LProg Bytes) (hs : LReads.slot next free = some (⟨k, hm⟩, p)) :
    LReads.extsLoop next free got =
      p.bind fun b => LReads.extsLoop (bAt b 0) (free.erase k) (got ++ [(k, b)]) := by
  rw [LReads.extsLoop]; simp [h0, hs]

/-- the slot of `Ipv6Extensions` a kind of the reader's bookkeeping stands for -/
def slotOf (sl : Dec.ExtSlots) : ExtKind → Option Dec.Win
  | .hbh => sl.hbh
  | .dst => sl.dest
  | .rt => sl.routing
  | .fdst => sl.finalDest
  | .frag => sl.frag
  | .auth => sl.auth

/-- the bytes the reader gathered for a kind of header (as the driver of C16 looks them up) -/
def lookupGot (got : List (ExtKind × Bytes)) (k : ExtKind) : Option Bytes :=
  (got.find? fun p => p.1 == k).map (·.2)

/-- what the reader gathered for each kind is what the window in the same slot of the struct-mode
    slice decoder covers -/
def GotMatch (b : Bytes) (got : List (ExtKind × Bytes)) (sl : Dec.ExtSlots) : Prop :=
  ∀ k, lookupGot got k = (slotOf sl k).map fun w => sub b w.o w.l

theorem lookupGot_snoc (got : List (ExtKind × Bytes)) (k k' : ExtKind) (g : Bytes)
    (hk : lookupGot got k = none) :
    lookupGot (got ++ [(k, g)]) k' = if k' = k then some g else lookupGot got k' := by
  unfold lookupGot at hk ⊢
  rw [List.find?_append]
  by_cases h : k' = k
  · subst h
    rw [if_pos rfl]
    have : got.find? (fun p => p.1 == k') = none := by
      cases hf : got.find? (fun p => p.1 == k') with
      | none => rfl
      | some x => rw [hf] at hk; cases hk
    simp [this]
  · rw [if_neg h]
    cases hf : got.find? (fun p => p.1 == k') with
    | some x => simp
    | none =>
      have : ¬ (k == k') = true := by simpa using fun e => h e.symm
      simp [this]

/-- the reader's free list against the slots of the struct-mode decoder -/
structure FreeInvW (free : List ExtKind) (sl : Dec.ExtSlots) : Prop where
  nodup : free.Nodup
  dst : .dst ∈ free ↔ sl.dest = none
  rt : .rt ∈ free ↔ sl.routing = none
  frag : .frag ∈ free ↔ sl.frag = none
  auth : .auth ∈ free ↔ sl.auth = none
  fdst : .fdst ∈ free ↔ sl.finalDest = none

/-- the kind a destination options (60) / routing (43) header is stored as -/
def rawKind (nh : Nat) (sl : Dec.ExtSlots) : ExtKind :=
  if nh = 60 then (if sl.routing.isSome then .fdst else .dst) else .rt

theorem lslot_raw_stop {free : List ExtKind} {sl : Dec.ExtSlots} (hi : FreeInvW free sl) (nh : Nat)
    (hn : nh = 60 ∨ nh = 43) (hf : Dec.rawFits nh sl = false) : LReads.slot nh free = none := by
  unfold Dec.rawFits at hf
  rcases hn with rfl | rfl
  · simp only [if_true] at hf
    by_cases hr : sl.routing.isSome
    · have h1 : .rt ∉ free := fun h => by have := hi.rt.1 h; rw [this] at hr; cases hr
      simp only [if_pos hr] at hf
      have h2 : .fdst ∉ free := fun h => by have := hi.fdst.1 h; rw [this] at hf; simp at hf
      simp [LReads.slot, h1, h2]
    · have h1 : .rt ∈ free := hi.rt.2 (by simpa using hr)
      simp only [if_neg hr] at hf
      have h2 : .dst ∉ free := fun h => by have := hi.dst.1 h; rw [this] at hf; simp at hf
      simp [LReads.slot, h1, h2]
  · simp only [show ¬ ((43 : Nat) = 60) by omega, if_false] at hf
    have h1 : .rt ∉ free := fun h => by have := hi.rt.1 h; rw [this] at hf; simp at hf
    simp [LReads.slot, h1]

theorem lslot_raw_go {free : List ExtKind} {sl : Dec.ExtSlots} (hi : FreeInvW free sl) (nh : Nat)
    (hn : nh = 60 ∨ nh = 43) (hf : Dec.rawFits nh sl = true) :
    ∃ hm, LReads.slot nh free = some (⟨rawKind nh sl, hm⟩, LReads.rawext) ∧ slotOf sl (rawKind nh sl) = none := by
  unfold Dec.rawFits at hf
  unfold rawKind
  rcases hn with rfl | rfl
  · simp only [if_true] at hf ⊢
    by_cases hr : sl.routing.isSome
    · have h1 : .rt ∉ free := fun h => by have := hi.rt.1 h; rw [this] at hr; cases hr
      simp only [if_pos hr] at hf ⊢
      have hn : sl.finalDest = none := by simpa using hf
      have h2 : .fdst ∈ free := hi.fdst.2 hn
      exact ⟨h2, by simp [LReads.slot, h1, h2], hn⟩
    · have h1 : .rt ∈ free := hi.rt.2 (by simpa using hr)
      simp only [if_neg hr] at hf ⊢
      have hn : sl.dest = none := by simpa using hf
      have h2 : .dst ∈ free := hi.dst.2 hn
      exact ⟨h2, by simp [LReads.slot, h1, h2], hn⟩
  · simp only [show ¬ ((43 : Nat) = 60) by omega, if_false] at hf ⊢
    have hn : sl.routing = none := by simpa using hf
    have h1 : .rt ∈ free := hi.rt.2 hn
    exact ⟨h1, by simp [LReads.slot, h1], hn⟩

theorem lslot_frag_stop {free : List ExtKind} {sl : Dec.ExtSlots} (hi : FreeInvW free sl)
    (hf : sl.frag.isSome = true) : LReads.slot 44 free = none := by
  have h1 : .frag ∉ free := fun h => by have := hi.frag.1 h; rw [this] at hf; cases hf
  simp [LReads.slot, h1]

theorem lslot_frag_go {free : List ExtKind} {sl : Dec.ExtSlots} (hi : FreeInvW free sl)
    (hf : ¬ sl.frag.isSome = true) :
    ∃ hm, LReads.slot 44 free = some (⟨.frag, hm⟩, LReads.ipv6frag) ∧ sl.frag = none := by
  have hn : sl.frag = none := by simpa using hf
  have h1 : .frag ∈ free := hi.frag.2 hn
  exact ⟨h1, by simp [LReads.slot, h1], hn⟩

theorem lslot_auth_stop {free : List ExtKind} {sl : Dec.ExtSlots} (hi : FreeInvW free sl)
    (hf : sl.auth.isSome = true) : LReads.slot 51 free = none := by
  have h1 : .auth ∉ free := fun h => by have := hi.auth.1 h; rw [this] at hf; cases hf
  simp [LReads.slot, h1]

theorem lslot_auth_go {free : List ExtKind} {sl : Dec.ExtSlots} (hi : FreeInvW free sl)
    (hf : ¬ sl.auth.isSome = true) :
    ∃ hm, LReads.slot 51 free = some (⟨.auth, hm⟩, LReads.auth) ∧ sl.auth = none := by
  have hn : sl.auth = none := by simpa using hf
  have h1 : .auth ∈ free := hi.auth.2 hn
  exact ⟨h1, by simp [LReads.slot, h1], hn⟩

theorem lslot_other (free : List ExtKind) (n : Nat) (h60 : n ≠ 60) (h43 : n ≠ 43) (h44 : n ≠ 44)
    (h51 : n ≠ 51) : LReads.slot n free = none := by
  simp [LReads.slot, h60, h43, h44, h51]

theorem GotMatch.store {b : Bytes} {got : List (ExtKind × Bytes)} {sl sl' : Dec.ExtSlots}
    (hg : GotMatch b got sl) (k : ExtKind) (w : Dec.Win) (hnone : slotOf sl k = none)
    (hs : ∀ k', slotOf sl' k' = if k' = k then some w else slotOf sl k') :
    GotMatch b (got ++ [(k, sub b w.o w.l)]) sl' := by
  intro k'
  have hk : lookupGot got k = none := by rw [hg k, hnone]; rfl
  rw [lookupGot_snoc got k k' _ hk, hs k']
  by_cases h : k' = k
  · simp [h]
  · simp [h, hg k']

theorem slotOf_rawStore (nh : Nat) (hn : nh = 60 ∨ nh = 43) (sl : Dec.ExtSlots) (w : Dec.Win) (k' : ExtKind) :
    slotOf (Dec.rawStore nh sl w) k' = if k' = rawKind nh sl then some w else slotOf sl k' := by
  unfold Dec.rawStore rawKind
  rcases hn with rfl | rfl
  · by_cases hr : sl.routing.isSome
    · simp only [if_true, if_pos hr]; cases k' <;> simp [slotOf]
    · simp only [if_true, if_neg hr]; cases k' <;> simp [slotOf]
  · simp only [show ¬ ((43 : Nat) = 60) by omega, if_false]; cases k' <;> simp [slotOf]

theorem slotOf_fragStore (sl : Dec.ExtSlots) (w : Dec.Win) (k' : ExtKind) :
    slotOf (Dec.fragStore sl w) k' = if k' = .frag then some w else slotOf sl k' := by
  unfold Dec.fragStore; cases k' <;> simp [slotOf]

theorem slotOf_authStore (sl : Dec.ExtSlots) (w : Dec.Win) (k' : ExtKind) :
    slotOf (Dec.authStore sl w) k' = if k' = .auth then some w else slotOf sl k' := by
  unfold Dec.authStore; cases k' <;> simp [slotOf]

/-- the free list after the reader filled slot `k`, against the slots after the decoder stored there -/
theorem FreeInvW.store {free : List ExtKind} {sl sl' : Dec.ExtSlots} (hi : FreeInvW free sl) (k : ExtKind)
    (_hk : k ≠ .hbh) (w : Dec.Win)
    (hs : ∀ k', slotOf sl' k' = if k' = k then some w else slotOf sl k') :
    FreeInvW (free.erase k) sl' := by
  have hn := hi.nodup
  have key : ∀ k', k' ≠ .hbh → ((k' ∈ free ↔ slotOf sl k' = none) →
      (k' ∈ free.erase k ↔ slotOf sl' k' = none)) := by
    intro k' _ h
    rw [mem_erase_iff hn, hs k']
    by_cases e : k' = k
    · simp [e]
    · simp [e, h]
  exact ⟨hn.erase _, key .dst (by decide) hi.dst, key .rt (by decide) hi.rt, key .frag (by decide) hi.frag,
    key .auth (by decide) hi.auth, key .fdst (by decide) hi.fdst⟩

theorem FreeInvW.init (hbh : Option Dec.Win) :
    FreeInvW [.dst, .rt, .frag, .auth, .fdst]
      { hbh := hbh, dest := none, routing := none, finalDest := none, frag := none, auth := none } := by
  refine ⟨by decide, ?_, ?_, ?_, ?_, ?_⟩ <;> simp

/-- names of the layers / length sources as `LimitedReader` and the drivers print them -/
def layerText : Dec.Layer → String
  | .ipHeader => "IpHeader"
  | .ipv4Header => "Ipv4Header"
  | .ipv4Packet => "Ipv4Packet"
  | .ipAuthHeader => "IpAuthHeader"
  | .ipv6Header => "Ipv6Header"
  | .ipv6Packet => "Ipv6Packet"
  | .ipv6ExtHeader => "Ipv6ExtHeader"
  | .ipv6FragHeader => "Ipv6FragHeader"
  | _ => "(not an IP layer)"

def srcText : Dec.LenSource → String
  | .slice => "Slice"
  | .macsecShortLength => "MacsecShortLength"
  | .ipv4HeaderTotalLen => "Ipv4HeaderTotalLen"
  | .ipv6HeaderPayloadLen => "Ipv6HeaderPayloadLen"
  | .udpHeaderLen => "UdpHeaderLen"
  | .tcpHeaderLen => "TcpHeaderLen"
  | .arpAddrLengths => "ArpAddrLengths"

/-- a length error of the limited reader against the length error `e` of the slice decoder (offsets of
    `e` relative to `base`): same limit, source, layer and offset; the same `required_len` except on an
    IPv6 raw extension header with fewer than 8 bytes left (the reader asks for 2 bytes first, the slice
    decoder for 8) -/
def LenErrAgrees (src : String) (base : Nat) (e : Dec.LenError) (le : LenErr) : Prop :=
  le.len = e.len ∧ le.src = src ∧ le.layer = layerText e.layer ∧ le.off = base + e.off ∧
  le.len < le.required ∧ (8 ≤ e.len ∨ e.layer ≠ .ipv6ExtHeader → le.required = e.req)

/-- outcome of the struct-mode chain walk of the slice decoder (`out`) against the outcome of the limited
    chain reader (`res`) that stands at offset `o` of `b` -/
def LChainRel (b : Bytes) (src : String) (base o : Nat) (got : List (ExtKind × Bytes)) (out : Dec.ExtsOut)
    (res : Except LErr Reads.ExtsRead × Nat × LSt) : Prop :=
  match out.stop with
  | none =>
    ∃ got', res.1 = .ok { got := got', next := out.next } ∧ o + res.2.1 = out.rest.o ∧
      GotMatch b got' out.slots ∧ gathered got' = gathered got ++ sub b o res.2.1
  | some (.len e, _) => ∃ le, res.1 = .error (.len le) ∧ LenErrAgrees src base e le
  | some (.hopByHop, _) => res.1 = .error (.other "err(hbhnotatstart)")
  | some (.authZero, _) => res.1 = .error (.other "err(zeropayloadlen)")

theorem sub_sub_append (b : Bytes) (o n m : Nat) : sub b o n ++ sub b (o + n) m = sub b o (n + m) := by
  unfold sub
  rw [List.take_add, List.drop_drop]

theorem LChainRel.lift (b : Bytes) (src : String) (base o len : Nat) (got : List (ExtKind × Bytes))
    (k : ExtKind) (out : Dec.ExtsOut) (r : Except LErr Reads.ExtsRead × Nat × LSt)
    (h : LChainRel b src base (o + len) (got ++ [(k, sub b o len)]) out r) :
    LChainRel b src base o got out (r.1, len + r.2.1, r.2.2) := by
  unfold LChainRel at h ⊢
  cases hs : out.stop with
  | none =>
    rw [hs] at h
    obtain ⟨got', h1, h2, h3, h4⟩ := h
    refine ⟨got', h1, by simp only; omega, h3, ?_⟩
    rw [h4, gathered_snoc, List.append_assoc, sub_sub_append]
  | some x =>
    rw [hs] at h
    obtain ⟨e, ly⟩ := x
    cases e <;> exact h

theorem bAt_drop (b : Bytes) (o i : Nat) : bAt (b.drop o) i = Dec.memOf b (o + i) := by
  simp [bAt, Dec.memOf, List.getD_eq_getElem?_getD, List.getElem?_drop]

theorem rawextLen_drop (b : Bytes) (o : Nat) : rawextLen (b.drop o) = (Dec.memOf b (o + 1) + 1) * 8 := by
  unfold rawextLen; rw [bAt_drop]

theorem authLen_drop (b : Bytes) (o : Nat) : authLen (b.drop o) = (Dec.memOf b (o + 1) + 2) * 4 := by
  unfold authLen; rw [bAt_drop]

theorem bAt_sub_zero (b : Bytes) (o len : Nat) (h : 0 < len) : bAt (sub b o len) 0 = Dec.memOf b o := by
  unfold sub; rw [bAt_take _ _ _ h, bAt_drop]; rfl

theorem LChainRel.done (b : Bytes) (src : String) (base o l : Nat) (got : List (ExtKind × Bytes))
    (nh : Nat) (frag : Bool) (sl : Dec.ExtSlots) (st : LSt) (hg : GotMatch b got sl) :
    LChainRel b src base o got (Dec.extsDone nh frag sl o l)
      (evalOnL (.done (.ok { got := got, next := nh })) st (b.drop o)) := by
  unfold LChainRel Dec.extsDone
  simp only [evalOnL]
  exact ⟨got, rfl, rfl, hg, by simp [sub]⟩

theorem lchain_rel (b : Bytes) (base l0 nh : Nat) (frag : Bool) (sl : Dec.ExtSlots) (o l : Nat) :
    ∀ (free : List ExtKind) (got : List (ExtKind × Bytes)) (st : LSt),
      FreeInvW free sl → GotMatch b got sl →
      st.maxLen - st.readLen = l → st.readLen ≤ st.maxLen → st.layerOffset + st.readLen = o →
      o + l ≤ b.length → l ≤ l0 → o = base + (l0 - l) →
      LChainRel b st.src base o got (Dec.extsLoop (Dec.memOf b) true l0 nh frag sl o l)
        (evalOnL (LReads.extsLoop nh free got) st (b.drop o)) := by
  fun_induction Dec.extsLoop (Dec.memOf b) true l0 nh frag sl o l
  case case1 frag sl o l =>
    intro free got st hi hg h1 h2 h3 h4 h5 h6
    rw [lextsLoop_zero]
    simp only [LChainRel, Dec.extsFail, evalOnL]
  case case2 nh frag sl o l h0 hn hfit =>
    intro free got st hi hg h1 h2 h3 h4 h5 h6
    have hf : Dec.rawFits nh sl = false := by simpa using hfit.2
    rw [lextsLoop_none _ _ _ h0 (lslot_raw_stop hi nh hn hf)]
    exact LChainRel.done b _ base o l got nh frag sl st hg
  case case3 nh frag sl o l h0 hn hfit h8 =>
    intro free got st hi hg h1 h2 h3 h4 h5 h6
    have hf : Dec.rawFits nh sl = true := by simpa using hfit
    obtain ⟨hm, hs, _⟩ := lslot_raw_go hi nh hn hf
    rw [lextsLoop_some _ _ _ h0 _ hm _ hs]
    have hR : st.maxLen - st.readLen ≤ (b.drop o).length := by simp only [List.length_drop]; omega
    have hlen : 8 ≤ rawextLen (b.drop o) := by unfold rawextLen; omega
    obtain ⟨le, c, st', he, hle, hreq⟩ := (lrawext_step _ st (b.drop o) hR).1 (by omega)
    rw [he]
    simp only [LChainRel, Dec.extsFail, Dec.extLenErr]
    obtain ⟨e1, e2, e3, e4, e5⟩ := hle
    exact ⟨le, rfl, by simp only; omega, e2, e3, by simp only; omega, e5, fun h => by
      rcases h with h | h
      · simp only at h; omega
      · exact absurd rfl h⟩
  case case4 nh frag sl o l h0 hn hfit h8 hl =>
    intro free got st hi hg h1 h2 h3 h4 h5 h6
    have hf : Dec.rawFits nh sl = true := by simpa using hfit
    obtain ⟨hm, hs, _⟩ := lslot_raw_go hi nh hn hf
    rw [lextsLoop_some _ _ _ h0 _ hm _ hs]
    have hR : st.maxLen - st.readLen ≤ (b.drop o).length := by simp only [List.length_drop]; omega
    have hlen := rawextLen_drop b o
    obtain ⟨le, c, st', he, hle, hreq⟩ := (lrawext_step _ st (b.drop o) hR).1 (by omega)
    rw [he]
    simp only [LChainRel, Dec.extsFail, Dec.extLenErr]
    obtain ⟨e1, e2, e3, e4, e5⟩ := hle
    exact ⟨le, rfl, by simp only; omega, e2, e3, by simp only; omega, e5, fun _ => by
      simp only; rw [hreq (by omega), hlen]⟩
  case case5 nh frag sl o l h0 hn hfit h8 hl ih =>
    intro free got st hi hg h1 h2 h3 h4 h5 h6
    have hf : Dec.rawFits nh sl = true := by simpa using hfit
    obtain ⟨hm, hs, hnone⟩ := lslot_raw_go hi nh hn hf
    rw [lextsLoop_some _ _ _ h0 _ hm _ hs]
    have hR : st.maxLen - st.readLen ≤ (b.drop o).length := by simp only [List.length_drop]; omega
    have hlen := rawextLen_drop b o
    rw [(lrawext_step _ st (b.drop o) hR).2 (by omega), hlen, List.drop_drop]
    have htk : (b.drop o).take ((Dec.memOf b (o + 1) + 1) * 8) = sub b o ((Dec.memOf b (o + 1) + 1) * 8) := rfl
    rw [htk, bAt_sub_zero b o _ (by omega)]
    apply LChainRel.lift b st.src base o _ got (rawKind nh sl)
    exact ih _ _ (st.after "Ipv6ExtHeader" ((Dec.memOf b (o + 1) + 1) * 8))
      (hi.store _ (by unfold rawKind; split <;> (try split) <;> decide) _ (slotOf_rawStore nh hn sl _))
      (hg.store (rawKind nh sl) ⟨o, (Dec.memOf b (o + 1) + 1) * 8⟩ hnone (slotOf_rawStore nh hn sl _))
      (by simp only [LSt.after]; omega) (by simp only [LSt.after]; omega) (by simp only [LSt.after]; omega)
      (by omega) (by omega) (by omega)
  case case6 frag sl o l hfs _ _ =>
    intro free got st hi hg h1 h2 h3 h4 h5 h6
    rw [lextsLoop_none _ _ _ (by decide) (lslot_frag_stop hi hfs.2)]
    exact LChainRel.done b _ base o l got 44 frag sl st hg
  case case7 frag sl o l hfs h8 _ _ =>
    intro free got st hi hg h1 h2 h3 h4 h5 h6
    obtain ⟨hm, hs, _⟩ := lslot_frag_go hi (by simpa using hfs)
    rw [lextsLoop_some _ _ _ (by decide) _ hm _ hs]
    have hR : st.maxLen - st.readLen ≤ (b.drop o).length := by simp only [List.length_drop]; omega
    obtain ⟨le, c, st', he, hle, hreq⟩ := (lfrag_step _ st (b.drop o) hR).1 (by omega)
    rw [he]
    simp only [LChainRel, Dec.extsFail, Dec.extLenErr]
    obtain ⟨e1, e2, e3, e4, e5⟩ := hle
    exact ⟨le, rfl, by simp only; omega, e2, e3, by simp only; omega, e5, fun _ => hreq⟩
  case case8 frag sl o l hfs h8 _ _ ih =>
    intro free got st hi hg h1 h2 h3 h4 h5 h6
    obtain ⟨hm, hs, hnone⟩ := lslot_frag_go hi (by simpa using hfs)
    rw [lextsLoop_some _ _ _ (by decide) _ hm _ hs]
    have hR : st.maxLen - st.readLen ≤ (b.drop o).length := by simp only [List.length_drop]; omega
    rw [(lfrag_step _ st (b.drop o) hR).2 (by omega), List.drop_drop]
    have htk : (b.drop o).take 8 = sub b o 8 := rfl
    rw [htk, bAt_sub_zero b o _ (by omega)]
    apply LChainRel.lift b st.src base o _ got .frag
    exact ih _ _ (st.after "Ipv6FragHeader" 8)
      (hi.store _ (by decide) _ (slotOf_fragStore sl _))
      (hg.store .frag ⟨o, 8⟩ hnone (slotOf_fragStore sl _))
      (by simp only [LSt.after]; omega) (by simp only [LSt.after]; omega) (by simp only [LSt.after]; omega)
      (by omega) (by omega) (by omega)
  case case9 frag sl o l has _ _ _ =>
    intro free got st hi hg h1 h2 h3 h4 h5 h6
    rw [lextsLoop_none _ _ _ (by decide) (lslot_auth_stop hi has.2)]
    exact LChainRel.done b _ base o l got 51 frag sl st hg
  case case10 frag sl o l has h12 _ _ _ =>
    intro free got st hi hg h1 h2 h3 h4 h5 h6
    obtain ⟨hm, hs, _⟩ := lslot_auth_go hi (by simpa using has)
    rw [lextsLoop_some _ _ _ (by decide) _ hm _ hs]
    have hR : st.maxLen - st.readLen ≤ (b.drop o).length := by simp only [List.length_drop]; omega
    obtain ⟨le, c, st', he, hle, hreq⟩ := (lauth_step _ st (b.drop o) hR).1 (by omega)
    rw [he]
    simp only [LChainRel, Dec.extsFail, Dec.extLenErr]
    obtain ⟨e1, e2, e3, e4, e5⟩ := hle
    exact ⟨le, rfl, by simp only; omega, e2, e3, by simp only; omega, e5, fun _ => hreq⟩
  case case11 frag sl o l has h12 hz _ _ _ =>
    intro free got st hi hg h1 h2 h3 h4 h5 h6
    obtain ⟨hm, hs, _⟩ := lslot_auth_go hi (by simpa using has)
    rw [lextsLoop_some _ _ _ (by decide) _ hm _ hs]
    have hR : st.maxLen - st.readLen ≤ (b.drop o).length := by simp only [List.length_drop]; omega
    obtain ⟨st', he⟩ := (lauth_step _ st (b.drop o) hR).2.1 (by omega) (by rw [bAt_drop]; exact hz)
    rw [he]
    simp only [LChainRel, Dec.extsFail]
  case case12 frag sl o l has h12 hz hl _ _ _ =>
    intro free got st hi hg h1 h2 h3 h4 h5 h6
    obtain ⟨hm, hs, _⟩ := lslot_auth_go hi (by simpa using has)
    rw [lextsLoop_some _ _ _ (by decide) _ hm _ hs]
    have hR : st.maxLen - st.readLen ≤ (b.drop o).length := by simp only [List.length_drop]; omega
    have hlen := authLen_drop b o
    obtain ⟨le, c, st', he, hle, hreq⟩ :=
      (lauth_step _ st (b.drop o) hR).2.2.1 (by omega) (by rw [bAt_drop]; exact hz) (by omega)
    rw [he]
    simp only [LChainRel, Dec.extsFail, Dec.extLenErr]
    obtain ⟨e1, e2, e3, e4, e5⟩ := hle
    exact ⟨le, rfl, by simp only; omega, e2, e3, by simp only; omega, e5, fun _ => by
      simp only; rw [hreq, hlen]⟩
  case case13 frag sl o l has h12 hz hl _ _ _ ih =>
    intro free got st hi hg h1 h2 h3 h4 h5 h6
    obtain ⟨hm, hs, hnone⟩ := lslot_auth_go hi (by simpa using has)
    rw [lextsLoop_some _ _ _ (by decide) _ hm _ hs]
    have hR : st.maxLen - st.readLen ≤ (b.drop o).length := by simp only [List.length_drop]; omega
    have hlen := authLen_drop b o
    rw [(lauth_step _ st (b.drop o) hR).2.2.2 (by omega) (by rw [bAt_drop]; exact hz) (by omega), hlen,
      List.drop_drop]
    have htk : (b.drop o).take ((Dec.memOf b (o + 1) + 2) * 4) = sub b o ((Dec.memOf b (o + 1) + 2) * 4) := rfl
    rw [htk, bAt_sub_zero b o _ (by omega)]
    apply LChainRel.lift b st.src base o _ got .auth
    exact ih _ _ (st.after "IpAuthHeader" ((Dec.memOf b (o + 1) + 2) * 4))
      (hi.store _ (by decide) _ (slotOf_authStore sl _))
      (hg.store .auth ⟨o, (Dec.memOf b (o + 1) + 2) * 4⟩ hnone (slotOf_authStore sl _))
      (by simp only [LSt.after]; omega) (by simp only [LSt.after]; omega) (by simp only [LSt.after]; omega)
      (by omega) (by omega) (by omega)
  case case14 nh frag sl o l h0 hn h44 h51 =>
    intro free got st hi hg h1 h2 h3 h4 h5 h6
    rw [lextsLoop_none _ _ _ h0 (lslot_other free nh (fun h => hn (.inl h)) (fun h => hn (.inr h)) h44 h51)]
    exact LChainRel.done b _ base o l got nh frag sl st hg

theorem gotMatch_nil (b : Bytes) : GotMatch b [] Dec.ExtSlots.none := by
  intro k; cases k <;> rfl

/-- `Ipv6Extensions::read_limited` against `Ipv6Extensions::from_slice` (struct mode) on the window
    `(o, l)` of `b`: the optional hop-by-hop header, then the loop -/
theorem lwalk_rel (b : Bytes) (nh o l : Nat) (st : LSt)
    (h1 : st.maxLen - st.readLen = l) (h2 : st.readLen ≤ st.maxLen) (h3 : st.layerOffset + st.readLen = o)
    (h4 : o + l ≤ b.length) :
    LChainRel b st.src o o [] (Dec.extsWalk (Dec.memOf b) true nh o l)
      (evalOnL (LReads.ipv6exts nh) st (b.drop o)) := by
  unfold Dec.extsWalk LReads.ipv6exts
  by_cases hs : nh = 0
  · subst hs
    simp only [if_true]
    have hR : st.maxLen - st.readLen ≤ (b.drop o).length := by simp only [List.length_drop]; omega
    have hlen := rawextLen_drop b o
    unfold Dec.rawExtFromSlice
    by_cases h8 : l < 8
    · simp only [if_pos h8]
      have : 8 ≤ rawextLen (b.drop o) := by unfold rawextLen; omega
      obtain ⟨le, c, st', he, hle, hreq⟩ := (lrawext_step _ st (b.drop o) hR).1 (by omega)
      rw [he]
      simp only [LChainRel]
      obtain ⟨e1, e2, e3, e4, e5⟩ := hle
      exact ⟨le, rfl, by simp only; omega, e2, e3, by simp only; omega, e5, fun h => by
        rcases h with h | h
        · simp only at h; omega
        · exact absurd rfl h⟩
    · simp only [if_neg h8]
      by_cases hl : l < (Dec.memOf b (o + 1) + 1) * 8
      · simp only [if_pos hl]
        obtain ⟨le, c, st', he, hle, hreq⟩ := (lrawext_step _ st (b.drop o) hR).1 (by omega)
        rw [he]
        simp only [LChainRel]
        obtain ⟨e1, e2, e3, e4, e5⟩ := hle
        exact ⟨le, rfl, by simp only; omega, e2, e3, by simp only; omega, e5, fun _ => by
          simp only; rw [hreq (by omega), hlen]⟩
      · simp only [if_neg hl]
        rw [(lrawext_step _ st (b.drop o) hR).2 (by omega), hlen, List.drop_drop]
        have htk : (b.drop o).take ((Dec.memOf b (o + 1) + 1) * 8) = sub b o ((Dec.memOf b (o + 1) + 1) * 8) := rfl
        rw [htk, bAt_sub_zero b o _ (by omega)]
        apply LChainRel.lift b st.src o o _ [] .hbh
        refine lchain_rel b o l _ false _ _ _ _ _ (st.after "Ipv6ExtHeader" ((Dec.memOf b (o + 1) + 1) * 8))
          (FreeInvW.init _) ?_ (by simp only [LSt.after]; omega) (by simp only [LSt.after]; omega)
          (by simp only [LSt.after]; omega) (by omega) (by omega) (by omega)
        intro k; cases k <;> rfl
  · simp only [if_neg hs]
    exact lchain_rel b o l nh false _ o l _ [] st (FreeInvW.init none) (gotMatch_nil b) h1 h2 h3 h4
      (Nat.le_refl _) (by omega)

/-! ### `IpHeaders::read` on a byte string -/

theorem liftErr_run {α : Type} (p : LProg α) (pre b : Bytes) (m : Nat) (st : LSt) (hm : m ≤ b.length)
    (hst : st.readLen ≤ st.maxLen) :
    liftErr (p.run (limitedAdv pre b m st)) =
      (readerAdv pre b (m + (evalOnL p st (b.drop m)).2.1), (evalOnL p st (b.drop m)).1) := by
  rw [runL_adv p pre b m st hm hst]; rfl

/-- bookkeeping of the `LimitedReader` `IpHeaders::read` creates behind an IPv4 / IPv6 header -/
def st4 (hl tl : Nat) : LSt :=
  { maxLen := tl - hl, readLen := 0, layerOffset := hl, layer := "Ipv4Header", src := "Ipv4HeaderTotalLen" }
def st6 (pl : Nat) : LSt :=
  { maxLen := pl, readLen := 0, layerOffset := 40, layer := "Ipv6Header", src := "Ipv6HeaderPayloadLen" }

theorem ipHeadersRead_empty (pre b : Bytes) (h : b.length < 1) :
    ipHeadersRead (readerAt pre b) = (readerAdv pre b b.length, .error (.io .unexpectedEof)) := by
  unfold ipHeadersRead readerAt
  rw [readExact_adv pre b 0 1 (Nat.zero_le _), if_neg (by simp only [List.drop_zero]; omega)]

theorem ipHeadersRead_first (pre b : Bytes) (h : 1 ≤ b.length) :
    (readerAdv pre b 0).readExact 1 = (readerAdv pre b 1, .ok (b.take 1)) := by
  rw [readExact_adv pre b 0 1 (Nat.zero_le _), if_pos (by simp only [List.drop_zero]; omega)]
  simp

theorem ipHeadersRead_fail (pre b : Bytes) (h : 1 ≤ b.length) (s : String)
    (hp : ipHeadersPlan (b.take 1) = .fail s) :
    ipHeadersRead (readerAt pre b) = (readerAdv pre b 1, .error (.other s)) := by
  unfold ipHeadersRead readerAt
  rw [ipHeadersRead_first pre b h]
  simp only [hp]

theorem ipHeadersRead_v4_short (pre b : Bytes) (h : 1 ≤ b.length) (rest : Nat)
    (hp : ipHeadersPlan (b.take 1) = .v4 rest) (hs : b.length < 1 + rest) :
    ipHeadersRead (readerAt pre b) = (readerAdv pre b b.length, .error (.io .unexpectedEof)) := by
  unfold ipHeadersRead readerAt
  rw [ipHeadersRead_first pre b h]
  simp only [hp]
  rw [readExact_adv pre b 1 rest h, if_neg (by simp only [List.length_drop]; omega)]

theorem ipHeadersRead_v4_total (pre b : Bytes) (h : 1 ≤ b.length) (rest : Nat)
    (hp : ipHeadersPlan (b.take 1) = .v4 rest) (hs : 1 + rest ≤ b.length) (ht : be16 b 2 < 1 + rest)
    (h4 : 4 ≤ 1 + rest) :
    ipHeadersRead (readerAt pre b) =
      (readerAdv pre b (1 + rest),
        .error (.len { required := 1 + rest, len := be16 b 2, src := "Ipv4HeaderTotalLen",
                       layer := "Ipv4Packet", off := 0 })) := by
  unfold ipHeadersRead readerAt
  rw [ipHeadersRead_first pre b h]
  simp only [hp]
  rw [readExact_adv pre b 1 rest h, if_pos (by simp only [List.length_drop]; omega)]
  simp only [← List.take_add]
  rw [be16_take b (1 + rest) 2 (by omega), if_pos (by omega)]
  simp only [Nat.add_comm rest 1]

theorem ipHeadersRead_v4_exts (pre b : Bytes) (h : 1 ≤ b.length) (rest : Nat)
    (hp : ipHeadersPlan (b.take 1) = .v4 rest) (hs : 1 + rest ≤ b.length) (ht : ¬ be16 b 2 < 1 + rest)
    (h10 : 10 ≤ 1 + rest) :
    ipHeadersRead (readerAt pre b) =
      (readerAdv pre b (1 + rest +
          (evalOnL (LReads.ipv4exts (bAt b 9)) (st4 (1 + rest) (be16 b 2)) (b.drop (1 + rest))).2.1),
        match (evalOnL (LReads.ipv4exts (bAt b 9)) (st4 (1 + rest) (be16 b 2)) (b.drop (1 + rest))).1 with
        | .ok (a, next) => .ok (.v4 (b.take (1 + rest)) a next)
        | .error e => .error e) := by
  unfold ipHeadersRead readerAt
  rw [ipHeadersRead_first pre b h]
  simp only [hp]
  rw [readExact_adv pre b 1 rest h, if_pos (by simp only [List.length_drop]; omega)]
  simp only [← List.take_add]
  rw [be16_take b (1 + rest) 2 (by omega), bAt_take b (1 + rest) 9 (by omega), if_neg (by omega)]
  have hnew : Limited.new (readerAdv pre b (1 + rest)) (be16 b 2 - (rest + 1)) "Ipv4HeaderTotalLen" (rest + 1)
      "Ipv4Header" = limitedAdv pre b (1 + rest) (st4 (1 + rest) (be16 b 2)) := by
    simp only [Limited.new, limitedAdv, st4, Nat.add_comm rest 1]
  rw [hnew, liftErr_run _ pre b (1 + rest) _ hs (by simp [st4])]
  cases (evalOnL (LReads.ipv4exts (bAt b 9)) (st4 (1 + rest) (be16 b 2)) (b.drop (1 + rest))).1 with
  | ok x => rfl
  | error e => rfl

theorem ipHeadersRead_v6_short (pre b : Bytes) (h : 1 ≤ b.length)
    (hp : ipHeadersPlan (b.take 1) = .v6) (hs : b.length < 40) :
    ipHeadersRead (readerAt pre b) = (readerAdv pre b b.length, .error (.io .unexpectedEof)) := by
  unfold ipHeadersRead readerAt
  rw [ipHeadersRead_first pre b h]
  simp only [hp]
  rw [readExact_adv pre b 1 39 h, if_neg (by simp only [List.length_drop]; omega)]

theorem ipHeadersRead_v6_exts (pre b : Bytes) (h : 1 ≤ b.length)
    (hp : ipHeadersPlan (b.take 1) = .v6) (hs : 40 ≤ b.length) :
    ipHeadersRead (readerAt pre b) =
      (readerAdv pre b (40 + (evalOnL (LReads.ipv6exts (bAt b 6)) (st6 (be16 b 4)) (b.drop 40)).2.1),
        match (evalOnL (LReads.ipv6exts (bAt b 6)) (st6 (be16 b 4)) (b.drop 40)).1 with
        | .ok e => .ok (.v6 (b.take 40) e)
        | .error e => .error e) := by
  unfold ipHeadersRead readerAt
  rw [ipHeadersRead_first pre b h]
  simp only [hp]
  rw [readExact_adv pre b 1 39 h, if_pos (by simp only [List.length_drop]; omega)]
  simp only [← List.take_add]
  rw [be16_take b (1 + 39) 4 (by omega), bAt_take b (1 + 39) 6 (by omega)]
  have hnew : Limited.new (readerAdv pre b (1 + 39)) (be16 b 4) "Ipv6HeaderPayloadLen" 40 "Ipv6Header" =
      limitedAdv pre b 40 (st6 (be16 b 4)) := rfl
  rw [hnew, liftErr_run _ pre b 40 _ hs (by simp [st6])]
  cases (evalOnL (LReads.ipv6exts (bAt b 6)) (st6 (be16 b 4)) (b.drop 40)).1 with
  | ok x => rfl
  | error e => rfl

/-! ### `IpHeaders::read` against `IpHeaders::from_slice` -/

/-- the slice holds the packet its IP header announces, and the announced length is what bounds the
    payload: the two rules of `IpHeaders::from_slice` that need the end of the slice (total_len /
    payload_length against the slice length; payload_length 0 = "to the end of the slice") do not fire -/
def HoldsAnnounced (b : Bytes) : Prop :=
  (bAt b 0 / 16 = 4 → be16 b 2 ≤ b.length) ∧
  (bAt b 0 / 16 = 6 → 40 + be16 b 4 ≤ b.length ∧ ¬ (be16 b 4 = 0 ∧ 40 < b.length))

instance (b : Bytes) : Decidable (HoldsAnnounced b) := by unfold HoldsAnnounced; infer_instance

/-- what `IpHeaders::read` returned against the struct-mode result of `IpHeaders::from_slice` (windows of
    `b`): same header bytes, same extension headers in the same slots, same next ip number -/
def IpViewMatch (b : Bytes) (r : Dec.IpR) : IpRead → Prop
  | .v4 h a next =>
    r.v4 = true ∧ h = sub b r.hdr.o r.hdr.l ∧ a = r.auth.map (fun w => sub b w.o w.l) ∧ next = r.pl.num
  | .v6 h e =>
    r.v4 = false ∧ h = sub b r.hdr.o r.hdr.l ∧ e.next = r.pl.num ∧ GotMatch b e.got r.slots ∧
      gathered e.got = sub b 40 (r.pl.w.o - 40)

/-- the error of `IpHeaders::from_slice` against the error of `IpHeaders::read` -/
def IpErrAgrees (b : Bytes) : Dec.PErr → LErr → Prop
  | .len e, le =>
    if e.src = .slice then
      -- the header itself is cut by the end of the slice: the reader runs dry - or, on fewer than 20
      -- bytes, has already seen the bad IHL in the first byte
      le = .io .unexpectedEof ∨ (b.length < 20 ∧ le = .other s!"err(ihl({bAt b 0 % 16}))")
    else ∃ l', le = .len l' ∧ LenErrAgrees (srcText e.src) 0 e l'
  | .ipVersion v, le => le = .other s!"err(version({v}))"
  | .ipIhl i, le => le = .other s!"err(ihl({i}))"
  | .ipv4ExtsZeroLen, le => le = .other "err(zeropayloadlen)"
  | .ipv6ExtsAuthZeroLen, le => le = .other "err(zeropayloadlen)"
  | .ipv6HopByHop, le => le = .other "err(hbhnotatstart)"
  | _, _ => False

theorem g16_memOf (b : Bytes) (i : Nat) : Dec.g16 (Dec.memOf b) i = be16 b i := rfl

theorem sub_zero' (b : Bytes) (n : Nat) : sub b 0 n = b.take n := by simp [sub]

theorem and15' (x : Nat) : x &&& 0xf = x % 16 := Nat.and_two_pow_sub_one_eq_mod x 4
theorem shr4 (x : Nat) : x >>> 4 = x / 16 := Nat.shiftRight_eq_div_pow x 4

theorem plan_take (b : Bytes) :
    ipHeadersPlan (b.take 1) =
      if bAt b 0 / 16 = 4 then
        (if bAt b 0 % 16 < 5 then .fail s!"err(ihl({bAt b 0 % 16}))" else .v4 (bAt b 0 % 16 * 4 - 1))
      else if bAt b 0 / 16 = 6 then .v6
      else .fail s!"err(version({bAt b 0 / 16}))" := by
  unfold ipHeadersPlan
  simp only [bAt_take b 1 0 (by omega), and15', shr4]

/-- IPv4: the part behind the header (`hl ≤ total_len ≤ slice length`) -/
theorem ipv4_after (pre b : Bytes) (hl : Nat) (h20 : 20 ≤ hl) (hfit : hl ≤ b.length)
    (hp : ipHeadersPlan (b.take 1) = .v4 (hl - 1)) (htl : be16 b 2 ≤ b.length) :
    match Dec.ipv4AfterHeaderStrict (Dec.memOf b) 0 b.length hl with
    | .ok r => ∃ v, ipHeadersRead (readerAt pre b) = (readerAdv pre b r.pl.w.o, .ok v) ∧ IpViewMatch b r v
    | .error e => ∃ n le, ipHeadersRead (readerAt pre b) = (readerAdv pre b n, .error le) ∧ IpErrAgrees b e le := by
  have h1 : 1 ≤ b.length := by omega
  have hrest : 1 + (hl - 1) = hl := by omega
  unfold Dec.ipv4AfterHeaderStrict Dec.ipv4BoundStrict
  simp only [g16_memOf, Nat.zero_add]
  by_cases ht : be16 b 2 < hl
  · simp only [if_pos ht]
    have := ipHeadersRead_v4_total pre b h1 (hl - 1) hp (by omega) (by omega) (by omega)
    rw [hrest] at this
    refine ⟨_, _, this, ?_⟩
    simp only [IpErrAgrees, show ¬ (Dec.LenSource.ipv4HeaderTotalLen = Dec.LenSource.slice) by decide, if_false]
    exact ⟨_, rfl, rfl, rfl, rfl, rfl, ht, fun _ => rfl⟩
  · simp only [if_neg ht, if_neg (show ¬ b.length < be16 b 2 by omega)]
    have hr := ipHeadersRead_v4_exts pre b h1 (hl - 1) hp (by omega) (by omega) (by omega)
    rw [hrest] at hr
    have hproto : Dec.memOf b 9 = bAt b 9 := rfl
    rw [hproto]
    have hR : (st4 hl (be16 b 2)).maxLen - (st4 hl (be16 b 2)).readLen ≤ (b.drop hl).length := by
      simp only [st4, List.length_drop]; omega
    by_cases h51 : bAt b 9 = 51
    · simp only [if_pos h51]
      have hprog : LReads.ipv4exts (bAt b 9) =
          LReads.auth.bind fun g => .done (.ok (some g, bAt g 0)) := by
        unfold LReads.ipv4exts CodecNet.ipNumberAuth; rw [if_pos h51.symm]
      rw [hprog] at hr
      have hstep := lauth_step (fun g => (.done (.ok (some g, bAt g 0)) : LProg (Option Bytes × Nat)))
        (st4 hl (be16 b 2)) (b.drop hl) hR
      have hRv : (st4 hl (be16 b 2)).maxLen - (st4 hl (be16 b 2)).readLen = be16 b 2 - hl := by simp [st4]
      have hlenA := authLen_drop b hl
      have hb1 : bAt (b.drop hl) 1 = Dec.memOf b (hl + 1) := bAt_drop b hl 1
      unfold Dec.ahFromSlice
      by_cases c12 : be16 b 2 - hl < 12
      · simp only [if_pos c12]
        obtain ⟨le, c, st', he, hle, hreq⟩ := hstep.1 (by omega)
        rw [he] at hr
        refine ⟨_, _, hr, ?_⟩
        simp only [IpErrAgrees, Dec.LenError.withSrc, Dec.LenError.addOffset,
          show ¬ (Dec.LenSource.ipv4HeaderTotalLen = Dec.LenSource.slice) by decide, if_false]
        obtain ⟨e1, e2, e3, e4, e5⟩ := hle
        exact ⟨le, rfl, by simp only; omega, e2, e3, by simp only [e4, st4]; omega, e5, fun _ => hreq⟩
      · simp only [if_neg c12]
        by_cases cz : Dec.memOf b (hl + 1) < 1
        · simp only [if_pos cz]
          obtain ⟨st', he⟩ := hstep.2.1 (by omega) (by rw [hb1]; exact cz)
          rw [he] at hr
          exact ⟨_, _, hr, rfl⟩
        · simp only [if_neg cz]
          by_cases cl : be16 b 2 - hl < (Dec.memOf b (hl + 1) + 2) * 4
          · simp only [if_pos cl]
            obtain ⟨le, c, st', he, hle, hreq⟩ := hstep.2.2.1 (by omega) (by rw [hb1]; exact cz) (by omega)
            rw [he] at hr
            refine ⟨_, _, hr, ?_⟩
            simp only [IpErrAgrees, Dec.LenError.withSrc, Dec.LenError.addOffset,
              show ¬ (Dec.LenSource.ipv4HeaderTotalLen = Dec.LenSource.slice) by decide, if_false]
            obtain ⟨e1, e2, e3, e4, e5⟩ := hle
            exact ⟨le, rfl, by simp only; omega, e2, e3, by simp only [e4, st4]; omega, e5,
              fun _ => by simp only; rw [hreq, hlenA]⟩
          · simp only [if_neg cl]
            have he := hstep.2.2.2 (by omega) (by rw [hb1]; exact cz) (by omega)
            rw [he, hlenA] at hr
            simp only [evalOnL, Nat.add_zero] at hr
            refine ⟨_, hr, ?_⟩
            have htk : (b.drop hl).take ((Dec.memOf b (hl + 1) + 2) * 4) =
                sub b hl ((Dec.memOf b (hl + 1) + 2) * 4) := rfl
            simp only [IpViewMatch, Dec.mkV4, htk, sub_zero', Option.map_some, true_and]
            exact bAt_sub_zero b hl _ (by omega)
    · simp only [if_neg h51]
      have hprog : LReads.ipv4exts (bAt b 9) = .done (.ok (none, bAt b 9)) := by
        unfold LReads.ipv4exts CodecNet.ipNumberAuth; rw [if_neg (fun h => h51 h.symm)]
      rw [hprog] at hr
      simp only [evalOnL, Nat.add_zero] at hr
      refine ⟨_, hr, ?_⟩
      simp only [IpViewMatch, Dec.mkV4, sub_zero', Option.map_none, true_and]

theorem lenErrAgrees_wrap (src : Dec.LenSource) (e : Dec.LenError) (le : LenErr)
    (h : LenErrAgrees (srcText src) 40 e le) :
    LenErrAgrees (srcText ((e.withSrc src).addOffset 40).src) 0 ((e.withSrc src).addOffset 40) le := by
  obtain ⟨h1, h2, h3, h4, h5, h6⟩ := h
  exact ⟨h1, h2, h3, by simp only [Dec.LenError.withSrc, Dec.LenError.addOffset]; omega, h5, h6⟩

/-- IPv6: the part behind the header (`40 + payload_length ≤ slice length`, payload_length not the
    "to the end of the slice" zero) -/
theorem ipv6_after (pre b : Bytes) (h40 : 40 ≤ b.length) (hp : ipHeadersPlan (b.take 1) = .v6)
    (hpl : 40 + be16 b 4 ≤ b.length) (hz : ¬ (be16 b 4 = 0 ∧ 40 < b.length)) :
    match Dec.ipv6AfterHeaderStrict (Dec.memOf b) true 0 b.length with
    | .ok r => ∃ v, ipHeadersRead (readerAt pre b) = (readerAdv pre b r.pl.w.o, .ok v) ∧ IpViewMatch b r v
    | .error e => ∃ n le, ipHeadersRead (readerAt pre b) = (readerAdv pre b n, .error le) ∧ IpErrAgrees b e le := by
  have h1 : 1 ≤ b.length := by omega
  have hr := ipHeadersRead_v6_exts pre b h1 hp h40
  have hw := lwalk_rel b (bAt b 6) 40 (be16 b 4) (st6 (be16 b 4)) (by simp [st6]) (by simp [st6])
    (by simp [st6]) hpl
  unfold Dec.ipv6AfterHeaderStrict Dec.ipv6BoundStrict
  simp only [g16_memOf, Nat.zero_add]
  rw [if_neg (by omega), if_neg (by omega)]
  simp only [Dec.ipv6ChainStrict, Dec.extsWalkStrict]
  have hnh : Dec.memOf b 6 = bAt b 6 := rfl
  simp only [Nat.zero_add, hnh]
  unfold LChainRel at hw
  cases hstop : (Dec.extsWalk (Dec.memOf b) true (bAt b 6) 40 (be16 b 4)).stop with
  | none =>
    rw [hstop] at hw
    obtain ⟨got', w1, w2, w3, w4⟩ := hw
    simp only
    rw [w1, w2] at hr
    refine ⟨_, hr, ?_⟩
    simp only [IpViewMatch, Dec.mkV6, sub_zero', if_true, true_and]
    refine ⟨w3, ?_⟩
    rw [w4, ← w2]
    simp [gathered]
  | some x =>
    obtain ⟨e, ly⟩ := x
    rw [hstop] at hw
    simp only
    cases e with
    | len e =>
      obtain ⟨le, w1, w2⟩ := hw
      rw [w1] at hr
      refine ⟨_, _, hr, ?_⟩
      have hsrc : ¬ (((e.withSrc Dec.LenSource.ipv6HeaderPayloadLen).addOffset 40).src = Dec.LenSource.slice) := by
        simp [Dec.LenError.withSrc, Dec.LenError.addOffset]
      simp only [IpErrAgrees, if_neg hsrc]
      exact ⟨le, rfl, lenErrAgrees_wrap _ e le w2⟩
    | hopByHop =>
      rw [hw] at hr
      exact ⟨_, _, hr, rfl⟩
    | authZero =>
      rw [hw] at hr
      exact ⟨_, _, hr, rfl⟩

/-- **`IpHeaders::read` against `IpHeaders::from_slice`** for every byte string that holds the packet its
    header announces -/
theorem ipheaders_table (pre b : Bytes) (hH : HoldsAnnounced b) :
    match Dec.ipHeadersFromSlice (Dec.memOf b) 0 b.length with
    | .ok r => ∃ v, ipHeadersRead (readerAt pre b) = (readerAdv pre b r.pl.w.o, .ok v) ∧ IpViewMatch b r v
    | .error e => ∃ n le, ipHeadersRead (readerAt pre b) = (readerAdv pre b n, .error le) ∧ IpErrAgrees b e le := by
  have hg0 : Dec.memOf b 0 = bAt b 0 := rfl
  unfold Dec.ipHeadersFromSlice Dec.ipDispatchHeader
  simp only [hg0]
  by_cases h0 : b.length = 0
  · simp only [if_pos h0]
    refine ⟨_, _, ipHeadersRead_empty pre b (by omega), ?_⟩
    simp [IpErrAgrees]
  · simp only [if_neg h0]
    have h1 : 1 ≤ b.length := by omega
    have hplan := plan_take b
    by_cases hv4 : bAt b 0 / 16 = 4
    · simp only [if_pos hv4] at hplan ⊢
      by_cases hl20 : b.length < 20
      · simp only [hl20, and_self, if_true]
        by_cases hi : bAt b 0 % 16 < 5
        · rw [if_pos hi] at hplan
          refine ⟨_, _, ipHeadersRead_fail pre b h1 _ hplan, ?_⟩
          simp only [IpErrAgrees, if_true]
          exact .inr ⟨hl20, trivial⟩
        · rw [if_neg hi] at hplan
          refine ⟨_, _, ipHeadersRead_v4_short pre b h1 _ hplan (by omega), ?_⟩
          simp [IpErrAgrees]
      · simp only [hl20, and_false, if_false]
        by_cases hi : bAt b 0 % 16 < 5
        · rw [if_pos hi] at hplan
          simp only [if_pos hi]
          exact ⟨_, _, ipHeadersRead_fail pre b h1 _ hplan, rfl⟩
        · rw [if_neg hi] at hplan
          simp only [if_neg hi]
          by_cases hs : b.length < bAt b 0 % 16 * 4
          · simp only [if_pos hs]
            refine ⟨_, _, ipHeadersRead_v4_short pre b h1 _ hplan (by omega), ?_⟩
            simp [IpErrAgrees]
          · simp only [if_neg hs]
            exact ipv4_after pre b (bAt b 0 % 16 * 4) (by omega) (by omega) hplan (hH.1 hv4)
    · simp only [if_neg hv4] at hplan ⊢
      by_cases hv6 : bAt b 0 / 16 = 6
      · simp only [if_pos hv6] at hplan ⊢
        by_cases hl40 : b.length < 40
        · simp only [if_pos hl40]
          refine ⟨_, _, ipHeadersRead_v6_short pre b h1 hplan hl40, ?_⟩
          simp [IpErrAgrees]
        · simp only [if_neg hl40]
          exact ipv6_after pre b (by omega) hplan (hH.2 hv6).1 (hH.2 hv6).2
      · simp only [if_neg hv6] at hplan ⊢
        exact ⟨_, _, ipHeadersRead_fail pre b h1 _ hplan, rfl⟩

/-- a successful `IpHeaders::from_slice` already says that the slice holds the announced packet; what is
    left of the hypothesis is the IPv6 "payload_length 0 = to the end of the slice" rule -/
theorem holdsAnnounced_of_ok (b : Bytes) (r : Dec.IpR)
    (hd : Dec.ipHeadersFromSlice (Dec.memOf b) 0 b.length = .ok r)
    (hz : bAt b 0 / 16 = 6 → ¬ (be16 b 4 = 0 ∧ 40 < b.length)) : HoldsAnnounced b := by
  have hg0 : Dec.memOf b 0 = bAt b 0 := rfl
  unfold Dec.ipHeadersFromSlice Dec.ipDispatchHeader at hd
  simp only [hg0] at hd
  by_cases h0 : b.length = 0
  · simp only [if_pos h0] at hd; cases hd
  · simp only [if_neg h0] at hd
    refine ⟨fun hv4 => ?_, fun hv6 => ?_⟩
    · simp only [if_pos hv4] at hd
      by_cases hl20 : b.length < 20
      · simp only [hl20, and_self, if_true] at hd; cases hd
      · simp only [hl20, and_false, if_false] at hd
        by_cases hi : bAt b 0 % 16 < 5
        · simp only [if_pos hi] at hd; cases hd
        · simp only [if_neg hi] at hd
          by_cases hs : b.length < bAt b 0 % 16 * 4
          · simp only [if_pos hs] at hd; cases hd
          · simp only [if_neg hs] at hd
            unfold Dec.ipv4AfterHeaderStrict Dec.ipv4BoundStrict at hd
            simp only [g16_memOf, Nat.zero_add] at hd
            by_cases ht : be16 b 2 < bAt b 0 % 16 * 4
            · simp only [if_pos ht] at hd; cases hd
            · simp only [if_neg ht] at hd
              by_cases hl : b.length < be16 b 2
              · simp only [if_pos hl] at hd; cases hd
              · omega
    · have hv4 : ¬ bAt b 0 / 16 = 4 := by omega
      simp only [if_neg hv4, if_pos hv6] at hd
      by_cases hl40 : b.length < 40
      · simp only [if_pos hl40] at hd; cases hd
      · simp only [if_neg hl40] at hd
        refine ⟨?_, hz hv6⟩
        unfold Dec.ipv6AfterHeaderStrict Dec.ipv6BoundStrict at hd
        simp only [g16_memOf, Nat.zero_add] at hd
        have hz' := hz hv6
        rw [if_neg (by omega)] at hd
        by_cases hl : b.length < 40 + be16 b 4
        · simp only [if_pos hl] at hd; cases hd
        · omega

end LimitedReaders

end EpModel.Lemmas.ReadVsSlice
