import EpModel.Lemmas.DecLax
import EpModel.Spec.Decode
/- Refinement of the strict slicing cursor to Spec.decode (C03) with error/fault matching (C07). -/
namespace EpModel.Lemmas.Refine
set_option linter.unusedSimpArgs false
open EpModel EpModel.Dec EpModel.Spec

/-- which crate layers may name a spec unit -/
def LayerUnit : Layer → Unit_ → Prop
  | .ethernet2Header, .eth => True
  | .linuxSllHeader, .sll => True
  | .vlanHeader, .vlan => True
  | .macsecHeader, .macsecHeader => True
  | .macsecPacket, .macsecPacket => True
  | .ipHeader, .ipAny => True
  | .ipv4Header, .ipv4Header => True
  | .ipv4Packet, .ipv4Packet => True
  | .ipv6Header, .ipv6Header => True
  | .ipv6Packet, .ipv6Packet => True
  | .ipAuthHeader, .auth => True
  | .ipv6ExtHeader, .hopByHop => True
  | .ipv6ExtHeader, .destOpts => True
  | .ipv6ExtHeader, .route => True
  | .ipv6FragHeader, .fragHeader => True
  | .arp, .arp => True
  | .udpHeader, .udpHeader => True
  | .udpPayload, .udpPayload => True
  | .tcpHeader, .tcp => True
  | .icmpv4, .icmp4 => True
  | .icmpv4Timestamp, .icmp4 => True
  | .icmpv4TimestampReply, .icmp4 => True
  | .icmpv6, .icmp6 => True
  | _, _ => False

/-- the two call sites whose `len_source` names the field that produced `required_len` instead of
    what limited `len` (known findings F9 / F12, pinned by the crate's tests) -/
def KnownSrcException (e : LenError) : Prop :=
  (e.layer = .arp ∧ e.src = .arpAddrLengths) ∨ (e.layer = .macsecPacket ∧ e.src = .macsecShortLength)

/-- a length error describes the spec fault: layer, true offset, bytes available, bytes required,
    and a length source that is the slice or the field that limited the data -/
structure LenMatch (e : LenError) (f : Fault) : Prop where
  cls : f.cls ≠ .content
  layer : LayerUnit e.layer f.unit
  off : e.off = f.off
  len : e.len = f.avail
  req : e.req = f.need
  src : e.src = .slice ∨ e.src = f.lim ∨ KnownSrcException e

/-- a content error carries the offending value the spec sees in the bytes -/
def ContentMatch (e : PErr) (f : Fault) : Prop :=
  f.cls = .content ∧
  match e with
  | .sllPacketType v => f.unit = .sll ∧ f.value = v
  | .sllArpHw v => f.unit = .sll ∧ f.value = v
  | .macsecVersion => f.unit = .macsecHeader
  | .macsecShortLen => f.unit = .macsecHeader
  | .ipVersion v => f.unit = .ipAny ∧ f.value = v
  | .ipIhl v => f.unit = .ipv4Header ∧ f.value = v
  | .ipv4Version v => f.unit = .ipv4Header ∧ f.value = v
  | .ipv4Ihl v => f.unit = .ipv4Header ∧ f.value = v
  | .ipv6Version v => f.unit = .ipv6Header ∧ f.value = v
  | .ipv4ExtsZeroLen => f.unit = .auth
  | .ipv6HopByHop => f.unit = .hopByHop
  | .ipv6ExtsAuthZeroLen => f.unit = .auth
  | .tcpDataOffset v => f.unit = .tcp ∧ f.value = v
  | .len _ => False

def ErrMatch (e : PErr) (f : Fault) : Prop :=
  match e with
  | .len le => LenMatch le f
  | e => ContentMatch e f

/-- model result vs spec walk result -/
def Rel (m : Except PErr Packet) (s : Packet × Option Fault) : Prop :=
  match m, s with
  | .ok p, (p', none) => p = p'
  | .error e, (_, some f) => ErrMatch e f
  | _, _ => False

/-- invariants tying a cursor to a spec context at a window `(o, l)` -/
structure Tied (c : Cur) (ctx : Ctx) (o l : Nat) : Prop where
  off : c.off = o
  coff : ctx.off = o
  stop : ctx.stop = o + l
  src : c.src = .slice ∨ c.src = ctx.lim

theorem walkN_done (lax : Bool) (g : Mem) (k : Nat) (p : Packet) (c : Ctx) : walkN lax g k p .done c = (p, none) := by
  cases k <;> simp [walkN]

theorem srcIfSlice_src (e : LenError) (s : LenSource) : (e.srcIfSlice s).src = (if e.src = .slice then s else e.src) := by
  unfold LenError.srcIfSlice LenError.withSrc; split <;> simp_all

/-- a *relative* length error (as a single-layer decoder returns it for the slice at `o`) describes
    the fault `f`; `lim` is the limiter of the enclosing data -/
structure LenRel (e : LenError) (f : Fault) (o : Nat) (lim : LenSource) : Prop where
  cls : f.cls ≠ .content
  layer : LayerUnit e.layer f.unit
  off : e.off + o = f.off
  len : e.len = f.avail
  req : e.req = f.need
  src : (e.src = .slice ∧ f.lim = lim) ∨ (e.src ≠ .slice ∧ (e.src = f.lim ∨ KnownSrcException e))

theorem lenRel_fix (e : LenError) (f : Fault) (c : Cur) (ctx : Ctx) (o l : Nat) (ht : Tied c ctx o l)
    (h : LenRel e f o ctx.lim) : LenMatch ((e.addOffset c.off).srcIfSlice c.src) f := by
  obtain ⟨hoff, hcoff, hstop, hsrc⟩ := ht
  obtain ⟨h1, h2, h3, h4, h5, h6⟩ := h
  have key : (e.addOffset c.off).srcIfSlice c.src =
      { req := e.req, len := e.len, src := if e.src = .slice then c.src else e.src, layer := e.layer,
        off := e.off + c.off } := by
    unfold LenError.srcIfSlice LenError.addOffset LenError.withSrc
    simp only
    split <;> simp_all
  rw [key]
  refine ⟨h1, h2, by simp only; omega, h4, h5, ?_⟩
  simp only
  rcases h6 with ⟨hs, hl⟩ | ⟨hs, h6⟩
  · simp only [hs, if_true]
    rcases hsrc with hsrc | hsrc
    · left; exact hsrc
    · right; left; rw [hsrc, hl]
  · simp only [hs, if_false]
    rcases h6 with h6 | h6
    · right; left; exact h6
    · right; right
      unfold KnownSrcException at *
      simpa using h6

macro "lenrel" : tactic =>
  `(tactic| (refine ⟨by simp [mkFault], by simp [mkFault, LayerUnit], by simp [mkFault, *], by simp [mkFault, *],
      by simp [mkFault], by simp [mkFault]⟩))

theorem udp_step (g : Mem) (p : Packet) (ctx : Ctx) (o l : Nat) (hc : ctx.off = o) (hs : ctx.stop = o + l) :
    match udpFromSlice g o l with
    | .ok w => Spec.step false g p (.tp 17) ctx = ⟨setTp p (.udp w), .done, ctx, none⟩
    | .error e => ∃ f, Spec.step false g p (.tp 17) ctx = ⟨p, .done, ctx, some f⟩ ∧ LenRel e f o ctx.lim := by
  have hav : ctx.avail = l := by unfold Ctx.avail; omega
  unfold udpFromSlice
  simp only [Spec.step, hav, hc]
  by_cases h8 : l < 8
  · simp only [h8, if_true]
    exact ⟨_, rfl, by lenrel⟩
  · simp only [h8, if_false]
    by_cases hlt : l < g16 g (o + 4)
    · have hz : ¬ g16 g (o + 4) = 0 := by omega
      simp only [hlt, hz, if_true, if_false, Bool.false_eq_true]
      exact ⟨_, rfl, by lenrel⟩
    · simp only [hlt, if_false]
      by_cases hz : g16 g (o + 4) = 0
      · simp [hz]
      · simp only [hz, if_false]
        by_cases hl8 : g16 g (o + 4) < 8
        · simp only [hl8, if_true, Bool.false_eq_true, if_false]
          exact ⟨_, rfl, ⟨by simp, by simp [LayerUnit], by simp, by simp, by simp, by simp⟩⟩
        · simp [hl8]

theorem tcp_step (g : Mem) (p : Packet) (ctx : Ctx) (o l : Nat) (hc : ctx.off = o) (hs : ctx.stop = o + l) :
    match tcpFromSlice g o l with
    | .ok hl => Spec.step false g p (.tp 6) ctx = ⟨setTp p (.tcp ⟨o, l⟩ hl), .done, ctx, none⟩
    | .error (.len e) => ∃ f, Spec.step false g p (.tp 6) ctx = ⟨p, .done, ctx, some f⟩ ∧ LenRel e f o ctx.lim
    | .error e => ∃ f, Spec.step false g p (.tp 6) ctx = ⟨p, .done, ctx, some f⟩ ∧ ContentMatch e f := by
  have hav : ctx.avail = l := by unfold Ctx.avail; omega
  unfold tcpFromSlice
  simp only [Spec.step, hav, hc, show ¬ ((6 : Nat) = 17) by omega, if_false, if_true]
  by_cases h20 : l < 20
  · simp only [h20, if_true]
    exact ⟨_, rfl, by lenrel⟩
  · simp only [h20, if_false]
    have e1 : g (o + 12) / 16 * 4 < 20 ↔ g (o + 12) / 16 < 5 := by omega
    by_cases h5 : g (o + 12) / 16 < 5
    · have : g (o + 12) / 16 * 4 < 20 := e1.mpr h5
      simp only [this, h5, if_true]
      refine ⟨_, rfl, by simp [mkFault], ?_⟩
      simp [mkFault]
    · have : ¬ g (o + 12) / 16 * 4 < 20 := fun h => h5 (e1.mp h)
      simp only [this, h5, if_false]
      by_cases hl : l < g (o + 12) / 16 * 4
      · simp only [hl, if_true]
        exact ⟨_, rfl, by lenrel⟩
      · simp [hl]

theorem icmp4_step (g : Mem) (p : Packet) (ctx : Ctx) (o l : Nat) (hc : ctx.off = o) (hs : ctx.stop = o + l) :
    match icmp4FromSlice g o l with
    | .ok w => Spec.step false g p (.tp 1) ctx = ⟨setTp p (.icmp4 w), .done, ctx, none⟩
    | .error e => ∃ f, Spec.step false g p (.tp 1) ctx = ⟨p, .done, ctx, some f⟩ ∧ LenRel e f o ctx.lim := by
  have hav : ctx.avail = l := by unfold Ctx.avail; omega
  unfold icmp4FromSlice
  simp only [Spec.step, hav, hc, show ¬ ((1 : Nat) = 17) by omega, show ¬ ((1 : Nat) = 6) by omega, if_false, if_true]
  by_cases h8 : l < 8
  · simp only [h8, if_true]
    exact ⟨_, rfl, by lenrel⟩
  · simp only [h8, if_false]
    by_cases h13 : g o = 13 ∧ g (o + 1) = 0 ∧ l ≠ 20
    · have : (g o = 13 ∨ g o = 14) ∧ g (o + 1) = 0 ∧ l ≠ 20 := ⟨Or.inl h13.1, h13.2⟩
      rw [if_pos h13, if_pos this]
      refine ⟨_, rfl, ?_⟩
      refine ⟨?_, by simp [mkFault, LayerUnit], by simp [mkFault, *], by simp [mkFault, *], by simp [mkFault], by simp [mkFault]⟩
      simp only [mkFault]; split <;> simp
    · rw [if_neg h13]
      by_cases h14 : g o = 14 ∧ g (o + 1) = 0 ∧ l ≠ 20
      · have : (g o = 13 ∨ g o = 14) ∧ g (o + 1) = 0 ∧ l ≠ 20 := ⟨Or.inr h14.1, h14.2⟩
        rw [if_pos h14, if_pos this]
        refine ⟨_, rfl, ?_⟩
        refine ⟨?_, by simp [mkFault, LayerUnit], by simp [mkFault, *], by simp [mkFault, *], by simp [mkFault], by simp [mkFault]⟩
        simp only [mkFault]; split <;> simp
      · have : ¬ ((g o = 13 ∨ g o = 14) ∧ g (o + 1) = 0 ∧ l ≠ 20) := by
          intro ⟨h1, h2⟩
          rcases h1 with h1 | h1
          · exact h13 ⟨h1, h2⟩
          · exact h14 ⟨h1, h2⟩
        rw [if_neg h14, if_neg this]

theorem icmp6_step (g : Mem) (p : Packet) (ctx : Ctx) (o l : Nat) (hc : ctx.off = o) (hs : ctx.stop = o + l) :
    match icmp6FromSlice o l with
    | .ok w => Spec.step false g p (.tp 58) ctx = ⟨setTp p (.icmp6 w), .done, ctx, none⟩
    | .error e => ∃ f, Spec.step false g p (.tp 58) ctx = ⟨p, .done, ctx, some f⟩ ∧ LenRel e f o ctx.lim := by
  have hav : ctx.avail = l := by unfold Ctx.avail; omega
  unfold icmp6FromSlice
  simp only [Spec.step, hav, hc, show ¬ ((58 : Nat) = 17) by omega, show ¬ ((58 : Nat) = 6) by omega,
    show ¬ ((58 : Nat) = 1) by omega, if_false, if_true]
  by_cases h8 : l < 8
  · simp only [h8, if_true]
    exact ⟨_, rfl, by lenrel⟩
  · simp only [h8, if_false]
    by_cases hb : l > 4294967295
    · simp only [hb, if_true]
      exact ⟨_, rfl, by lenrel⟩
    · simp [hb]

theorem walkN_next (lax : Bool) (g : Mem) (k : Nat) (p p' : Packet) (t t' : Tag) (c c' : Ctx) (ht : t ≠ .done)
    (h : Spec.step lax g p t c = ⟨p', t', c', none⟩) : walkN lax g (k + 1) p t c = walkN lax g k p' t' c' := by
  simp [walkN, ht, h]

theorem walkN_fault (lax : Bool) (g : Mem) (k : Nat) (p p' : Packet) (t t' : Tag) (c c' : Ctx) (f : Fault)
    (ht : t ≠ .done) (h : Spec.step lax g p t c = ⟨p', t', c', some f⟩) :
    walkN lax g (k + 1) p t c = (p', some f) := by
  simp [walkN, ht, h]

theorem setTp_eq (p : Packet) (x : TpR) : Spec.setTp p x = p.setTp x := rfl
theorem setNet_eq (p : Packet) (x : NetR) : Spec.setNet p x = p.setNet x := rfl
theorem setLink_eq (p : Packet) (x : LinkR) : Spec.setLink p x = p.setLink x := rfl
theorem addExt_eq (p : Packet) (x : ExtR) : Spec.addExt p x = p.pushExt x := rfl

/-- transport layer -/
theorem tp_refines (c : Cur) (g : Mem) (num o l : Nat) (ctx : Ctx) (k : Nat) (ht : Tied c ctx o l) :
    Rel (c.sliceTransport g num o l) (walkN false g (k + 1) c.r (.tp num) ctx) := by
  have hc := ht.coff
  have hs := ht.stop
  unfold Cur.sliceTransport
  simp only
  by_cases h1 : num = 1
  · subst h1
    simp only [if_true]
    have := icmp4_step g c.r ctx o l hc hs
    split at this
    · rename_i w hw
      rw [hw, walkN_next false g k _ _ _ _ _ _ (by simp) this, walkN_done]
      simp [Rel, setTp_eq]
    · rename_i e he
      obtain ⟨f, hf, hrel⟩ := this
      rw [he, walkN_fault false g k _ _ _ _ _ _ f (by simp) hf]
      simp only [Rel, ErrMatch]
      exact lenRel_fix e f c ctx o l ht hrel
  · simp only [h1, if_false]
    by_cases h17 : num = 17
    · subst h17
      simp only [if_true]
      have := udp_step g c.r ctx o l hc hs
      split at this
      · rename_i w hw
        rw [hw, walkN_next false g k _ _ _ _ _ _ (by simp) this, walkN_done]
        simp [Rel, setTp_eq]
      · rename_i e he
        obtain ⟨f, hf, hrel⟩ := this
        rw [he, walkN_fault false g k _ _ _ _ _ _ f (by simp) hf]
        simp only [Rel, ErrMatch]
        exact lenRel_fix e f c ctx o l ht hrel
    · simp only [h17, if_false]
      by_cases h6 : num = 6
      · subst h6
        simp only [if_true]
        have := tcp_step g c.r ctx o l hc hs
        split at this
        · rename_i hl hw
          rw [hw, walkN_next false g k _ _ _ _ _ _ (by simp) this, walkN_done]
          simp [Rel, setTp_eq]
        · rename_i e he
          obtain ⟨f, hf, hrel⟩ := this
          rw [he, walkN_fault false g k _ _ _ _ _ _ f (by simp) hf]
          simp only [Rel, ErrMatch]
          exact lenRel_fix e f c ctx o l ht hrel
        · rename_i e hne he
          obtain ⟨f, hf, hrel⟩ := this
          rw [he, walkN_fault false g k _ _ _ _ _ _ f (by simp) hf]
          cases e
          · exact absurd rfl (hne _)
          all_goals (simp only [Rel, ErrMatch]; exact hrel)
      · simp only [h6, if_false]
        by_cases h58 : num = 58
        · subst h58
          simp only [if_true]
          have := icmp6_step g c.r ctx o l hc hs
          split at this
          · rename_i w hw
            rw [hw, walkN_next false g k _ _ _ _ _ _ (by simp) this, walkN_done]
            simp [Rel, setTp_eq]
          · rename_i e he
            obtain ⟨f, hf, hrel⟩ := this
            rw [he, walkN_fault false g k _ _ _ _ _ _ f (by simp) hf]
            simp only [Rel, ErrMatch]
            exact lenRel_fix e f c ctx o l ht hrel
        · simp only [h58, if_false]
          have hstep : Spec.step false g c.r (.tp num) ctx = ⟨c.r, .done, ctx, none⟩ := by
            simp [Spec.step, h1, h17, h6, h58]
          rw [walkN_next false g k _ _ _ _ _ _ (by simp) hstep, walkN_done]
          simp [Rel]

/-! ### IPv4 -/

/-- the memory holds bytes -/
def ByteMem (g : Mem) : Prop := ∀ i, g i < 256

theorem frag4_eq (g : Mem) (hg : ByteMem g) (o : Nat) : Spec.v4Fragmented g o = ipv4IsFragmenting g o := by
  have h6 := hg (o + 6)
  have h7 := hg (o + 7)
  unfold Spec.v4Fragmented ipv4IsFragmenting g16
  simp only
  have e1 : (g (o + 6) * 256 + g (o + 6 + 1)) / 8192 % 2 = g (o + 6) / 32 % 2 := by
    have := hg (o + 6 + 1); omega
  have e2 : (g (o + 6) * 256 + g (o + 6 + 1)) % 8192 = g (o + 6) % 32 * 256 + g (o + 7) := by
    have := hg (o + 6 + 1)
    have : o + 6 + 1 = o + 7 := by omega
    rw [this]; omega
  rw [e1, e2]

theorem lenRel_addOff (e : LenError) (f : Fault) (c : Cur) (o : Nat) (lim : LenSource) (hoff : c.off = o)
    (h : LenRel e f o lim) (hsl : e.src = .slice ∨ e.src = f.lim ∨ KnownSrcException e) :
    LenMatch (e.addOffset c.off) f := by
  obtain ⟨h1, h2, h3, h4, h5, _⟩ := h
  refine ⟨h1, h2, by simp [LenError.addOffset]; omega, by simpa [LenError.addOffset] using h4,
    by simpa [LenError.addOffset] using h5, ?_⟩
  simpa [LenError.addOffset, KnownSrcException] using hsl

/-- what the IPv4 step of the spec yields, against `Ipv4Slice::from_slice` -/
theorem ipv4_step (g : Mem) (hg : ByteMem g) (p : Packet) (ctx : Ctx) (o l : Nat) (hc : ctx.off = o)
    (hs : ctx.stop = o + l) :
    match ipv4SliceFromSlice g o l with
    | .ok ip =>
      Spec.step false g p .ipv4 ctx =
        ⟨p.setNet (.ip ip), if ip.pl.frag then .done else .tp ip.pl.num,
          { off := ip.pl.w.o, stop := ip.pl.w.o + ip.pl.w.l, lim := .ipv4HeaderTotalLen, nExt := ctx.nExt }, none⟩ ∧
        ip.pl.src = .ipv4HeaderTotalLen ∧ o ≤ ip.pl.w.o
    | .error (.len e) =>
      ∃ p' t' c' f, Spec.step false g p .ipv4 ctx = ⟨p', t', c', some f⟩ ∧ LenRel e f o ctx.lim
    | .error e => ∃ p' t' c' f, Spec.step false g p .ipv4 ctx = ⟨p', t', c', some f⟩ ∧ ContentMatch e f := by
  have hav : ctx.avail = l := by unfold Ctx.avail; omega
  unfold ipv4SliceFromSlice ipv4HeaderFromSlice
  simp only [Spec.step, hav, hc]
  by_cases h20 : l < 20
  · simp only [h20, if_true]
    exact ⟨_, _, _, _, rfl, by lenrel⟩
  · simp only [h20, if_false]
    by_cases hv : g o / 16 ≠ 4
    · simp only [hv, ne_eq, not_false_eq_true, if_true]
      exact ⟨_, _, _, _, rfl, by simp [mkFault], by simp [mkFault]⟩
    · simp only [hv, if_false]
      by_cases hi : g o % 16 < 5
      · simp only [hi, if_true]
        exact ⟨_, _, _, _, rfl, by simp [mkFault], by simp [mkFault]⟩
      · simp only [hi, if_false]
        by_cases hl : l < g o % 16 * 4
        · simp only [hl, if_true]
          exact ⟨_, _, _, _, rfl, by lenrel⟩
        · simp only [hl, if_false]
          unfold ipv4AfterHeaderStrict ipv4BoundStrict Spec.bound
          simp only [hav, hc, Bool.false_eq_true, if_false]
          by_cases htl : g16 g (o + 2) < g o % 16 * 4
          · simp only [htl, if_true]
            exact ⟨_, _, _, _, rfl, ⟨by simp, by simp [LayerUnit], by simp, by simp, by simp, by simp⟩⟩
          · simp only [htl, if_false]
            by_cases hlt : l < g16 g (o + 2)
            · simp only [hlt, if_true]
              exact ⟨_, _, _, _, rfl, by lenrel⟩
            · simp only [hlt, if_false]
              rw [frag4_eq g hg o]
              have hinh : inherit ctx.lim LenSource.ipv4HeaderTotalLen = .ipv4HeaderTotalLen := by simp [inherit]
              simp only [hinh, Ctx.avail]
              generalize hhl : g o % 16 * 4 = H at *
              generalize htl' : g16 g (o + 2) = T at *
              have e1 : o + T - (o + H) = T - H := by omega
              simp only [e1]
              by_cases h51 : g (o + 9) = 51
              · simp only [h51, if_true]
                unfold ahFromSlice
                by_cases h12 : T - H < 12
                · simp only [h12, if_true]
                  refine ⟨_, _, _, _, rfl, ?_⟩
                  refine ⟨by simp [mkFault], by simp [mkFault, LayerUnit, LenError.addOffset, LenError.withSrc],
                    by simp [mkFault, LenError.addOffset, LenError.withSrc]; omega,
                    by simp [mkFault, LenError.addOffset, LenError.withSrc, Ctx.avail]; omega,
                    by simp [mkFault, LenError.addOffset, LenError.withSrc],
                    by simp [mkFault, LenError.addOffset, LenError.withSrc]⟩
                · simp only [h12, if_false]
                  by_cases hz : g (o + H + 1) < 1
                  · have hz' : g (o + H + 1) = 0 := by omega
                    simp only [hz, hz', if_true]
                    exact ⟨_, _, _, _, rfl, by simp [mkFault], by simp [mkFault]⟩
                  · have hz' : ¬ g (o + H + 1) = 0 := by omega
                    simp only [hz, hz', if_false]
                    by_cases hal : T - H < (g (o + H + 1) + 2) * 4
                    · simp only [hal, if_true]
                      refine ⟨_, _, _, _, rfl, ?_⟩
                      refine ⟨by simp [mkFault], by simp [mkFault, LayerUnit, LenError.addOffset, LenError.withSrc],
                        by simp [mkFault, LenError.addOffset, LenError.withSrc]; omega,
                        by simp [mkFault, LenError.addOffset, LenError.withSrc, Ctx.avail]; omega,
                        by simp [mkFault, LenError.addOffset, LenError.withSrc],
                        by simp [mkFault, LenError.addOffset, LenError.withSrc]⟩
                    · simp only [hal, if_false]
                      generalize (g (o + H + 1) + 2) * 4 = al at *
                      have e2 : o + T - (o + H + al) = T - H - al := by omega
                      have e3 : o + H + al + (T - H - al) = o + T := by omega
                      simp [mkV4, noExts, setNet_eq, e2, e3]
                      refine ⟨?_, by omega⟩
                      by_cases hf : ipv4IsFragmenting g o = true <;> simp [hf]
              · simp only [h51, if_false]
                have e3 : o + H + (T - H) = o + T := by omega
                simp [mkV4, noExts, setNet_eq, e3]
                by_cases hf : ipv4IsFragmenting g o = true <;> simp [hf]

theorem lenRel_src_weak {e : LenError} {f : Fault} {o : Nat} {lim : LenSource} (h : LenRel e f o lim) :
    e.src = .slice ∨ e.src = f.lim ∨ KnownSrcException e := by
  rcases h.src with ⟨h1, _⟩ | ⟨_, h2 | h2⟩
  · left; exact h1
  · right; left; exact h2
  · right; right; exact h2

theorem lenAddOff_nonlen (k : Nat) (e : PErr) (h : ∀ le, e ≠ .len le) : lenAddOff k e = e := by
  cases e <;> simp_all [lenAddOff]

/-- what the strict cursor does after an IP layer, against the continuation of the spec walk -/
theorem afterIp_refines (c : Cur) (g : Mem) (o l : Nat) (ip : IpR) (ctx : Ctx) (k : Nat) (hoff : c.off = o)
    (hge : o ≤ ip.pl.w.o) (lim : LenSource) (hsrc : ip.pl.src = .slice ∨ ip.pl.src = lim) :
    Rel (c.afterIp g o ip)
      (walkN false g (k + 1) (c.r.setNet (.ip ip)) (if ip.pl.frag then .done else .tp ip.pl.num)
        { off := ip.pl.w.o, stop := ip.pl.w.o + ip.pl.w.l, lim := lim, nExt := ctx.nExt }) := by
  unfold Cur.afterIp
  simp only
  by_cases hf : ip.pl.frag = true
  · simp only [hf, if_true, walkN_done]
    simp [Rel]
  · simp only [hf, if_false]
    apply tp_refines
    exact ⟨by simp only; omega, rfl, rfl, by simpa using hsrc⟩

theorem ipv4_refines (c : Cur) (g : Mem) (hg : ByteMem g) (o l : Nat) (ctx : Ctx) (k : Nat) (ht : Tied c ctx o l) :
    Rel (c.sliceIpv4 g o l) (walkN false g (k + 2) c.r .ipv4 ctx) := by
  have hstep := ipv4_step g hg c.r ctx o l ht.coff ht.stop
  unfold Cur.sliceIpv4
  split at hstep
  · rename_i ip hip
    obtain ⟨hs1, hs2, hs3⟩ := hstep
    rw [hip, walkN_next false g (k + 1) _ _ _ _ _ _ (by simp) hs1]
    exact afterIp_refines c g o l ip ctx k ht.off hs3 .ipv4HeaderTotalLen (Or.inr hs2)
  · rename_i e he
    obtain ⟨p', t', c', f, hf, hrel⟩ := hstep
    rw [he, walkN_fault false g (k + 1) _ _ _ _ _ _ f (by simp) hf]
    simp only [Rel, lenAddOff, ErrMatch]
    exact lenRel_addOff e f c o ctx.lim ht.off hrel (lenRel_src_weak hrel)
  · rename_i e hne he
    obtain ⟨p', t', c', f, hf, hrel⟩ := hstep
    rw [he, walkN_fault false g (k + 1) _ _ _ _ _ _ f (by simp) hf]
    simp only
    rw [lenAddOff_nonlen _ _ (fun le h => hne le h)]
    cases e
    · exact absurd rfl (hne _)
    all_goals (simp only [Rel, ErrMatch]; exact hrel)


/-! ### IPv6 -/

theorem frag6_eq (g : Mem) (hg : ByteMem g) (o : Nat) : Spec.v6Fragmented g o = fragIsFragmenting g o := by
  have h3 := hg (o + 3)
  unfold Spec.v6Fragmented fragIsFragmenting g16
  simp only
  have e : o + 2 + 1 = o + 3 := by omega
  rw [e]
  have e1 : (g (o + 2) * 256 + g (o + 3)) % 2 = g (o + 3) % 2 := by omega
  rw [e1]

def ExtRel (e : ExtErr) (f : Fault) (o0 : Nat) (lim : LenSource) : Prop :=
  match e with
  | .len le => LenRel le f o0 lim ∧ le.src = .slice
  | .hopByHop => f.cls = .content ∧ f.unit = .hopByHop
  | .authZero => f.cls = .content ∧ f.unit = .auth

/-- the slice-mode loop against the spec chain (behind the first header) -/
theorem chain_loop (g : Mem) (hg : ByteMem g) (lim : LenSource) (l0 nh : Nat) (frag : Bool) (slots : ExtSlots)
    (o l o0 : Nat) (hinv : o + l = o0 + l0) (ho : o0 ≤ o) :
    (Spec.chain g lim false nh frag o (o + l)).1 =
        ⟨(extsLoop g false l0 nh frag slots o l).next, (extsLoop g false l0 nh frag slots o l).frag,
          (extsLoop g false l0 nh frag slots o l).rest.o⟩ ∧
      match (extsLoop g false l0 nh frag slots o l).stop, (Spec.chain g lim false nh frag o (o + l)).2 with
      | none, none => True
      | some (e, _), some f => ExtRel e f o0 lim
      | _, _ => False := by
  fun_induction extsLoop g false l0 nh frag slots o l
  case case1 frag slots o l =>
    rw [Spec.chain]
    simp [extsFail, ExtRel, mkFault]
  case case2 h => simp at h
  case case3 nh frag slots o l h0 hor _ h8 =>
    rw [Spec.chain]
    rcases hor with h60 | h43
    · subst h60
      simp only [show ¬ ((60 : Nat) = 0) by omega, if_false, if_true, Nat.add_sub_cancel_left, h8, dite_true]
      simp only [extsFail, ExtRel, extLenErr, true_and]
      refine ⟨⟨by simp [mkFault], by simp [mkFault, LayerUnit], by simp [mkFault]; omega,
        by simp [mkFault, Ctx.avail], by simp [mkFault], by simp [mkFault]⟩, by simp⟩
    · subst h43
      simp only [show ¬ ((43 : Nat) = 0) by omega, show ¬ ((43 : Nat) = 60) by omega, if_false, if_true,
        Nat.add_sub_cancel_left, h8, dite_true]
      simp only [extsFail, ExtRel, extLenErr, true_and]
      refine ⟨⟨by simp [mkFault], by simp [mkFault, LayerUnit], by simp [mkFault]; omega,
        by simp [mkFault, Ctx.avail], by simp [mkFault], by simp [mkFault]⟩, by simp⟩
  case case4 nh frag slots o l h0 hor _ h8 hl =>
    rw [Spec.chain]
    rcases hor with h60 | h43
    · subst h60
      simp only [show ¬ ((60 : Nat) = 0) by omega, if_false, if_true, Nat.add_sub_cancel_left, h8, hl, dite_true, dite_false]
      simp only [extsFail, ExtRel, extLenErr, true_and]
      refine ⟨⟨by simp [mkFault], by simp [mkFault, LayerUnit], by simp [mkFault]; omega,
        by simp [mkFault, Ctx.avail], by simp [mkFault], by simp [mkFault]⟩, by simp⟩
    · subst h43
      simp only [show ¬ ((43 : Nat) = 0) by omega, show ¬ ((43 : Nat) = 60) by omega, if_false, if_true,
        Nat.add_sub_cancel_left, h8, hl, dite_true, dite_false]
      simp only [extsFail, ExtRel, extLenErr, true_and]
      refine ⟨⟨by simp [mkFault], by simp [mkFault, LayerUnit], by simp [mkFault]; omega,
        by simp [mkFault, Ctx.avail], by simp [mkFault], by simp [mkFault]⟩, by simp⟩
  case case5 nh frag slots o l h0 hor _ h8 hl ih =>
    rw [Spec.chain]
    have e : o + l = o + (g (o + 1) + 1) * 8 + (l - (g (o + 1) + 1) * 8) := by omega
    have ih' := ih (by omega) (by omega)
    rw [← e] at ih'
    rcases hor with h60 | h43
    · subst h60
      simp only [show ¬ ((60 : Nat) = 0) by omega, if_false, if_true, Nat.add_sub_cancel_left, h8, hl, dite_false]
      exact ih'
    · subst h43
      simp only [show ¬ ((43 : Nat) = 0) by omega, show ¬ ((43 : Nat) = 60) by omega, if_false, if_true,
        Nat.add_sub_cancel_left, h8, hl, dite_false]
      exact ih'
  case case6 h _ _ => simp at h
  case case7 frag slots o l _ h8 _ _ =>
    rw [Spec.chain]
    simp only [show ¬ ((44 : Nat) = 0) by omega, show ¬ ((44 : Nat) = 60) by omega, show ¬ ((44 : Nat) = 43) by omega,
      if_false, if_true, Nat.add_sub_cancel_left, h8, dite_true]
    simp only [extsFail, ExtRel, extLenErr, true_and]
    refine ⟨⟨by simp [mkFault], by simp [mkFault, LayerUnit], by simp [mkFault]; omega,
      by simp [mkFault, Ctx.avail], by simp [mkFault], by simp [mkFault]⟩, by simp⟩
  case case8 frag slots o l _ h8 _ _ ih =>
    rw [Spec.chain]
    have e : o + l = o + 8 + (l - 8) := by omega
    have ih' := ih (by omega) (by omega)
    rw [← e] at ih'
    simp only [show ¬ ((44 : Nat) = 0) by omega, show ¬ ((44 : Nat) = 60) by omega, show ¬ ((44 : Nat) = 43) by omega,
      if_false, if_true, Nat.add_sub_cancel_left, h8, dite_false, frag6_eq g hg o]
    exact ih'
  case case9 h _ _ _ => simp at h
  case case10 frag slots o l _ h12 _ _ _ =>
    rw [Spec.chain]
    simp only [show ¬ ((51 : Nat) = 0) by omega, show ¬ ((51 : Nat) = 60) by omega, show ¬ ((51 : Nat) = 43) by omega,
      show ¬ ((51 : Nat) = 44) by omega, if_false, if_true, Nat.add_sub_cancel_left, h12, dite_true]
    simp only [extsFail, ExtRel, extLenErr, true_and]
    refine ⟨⟨by simp [mkFault], by simp [mkFault, LayerUnit], by simp [mkFault]; omega,
      by simp [mkFault, Ctx.avail], by simp [mkFault], by simp [mkFault]⟩, by simp⟩
  case case11 frag slots o l _ h12 hz _ _ _ =>
    rw [Spec.chain]
    have hz' : g (o + 1) = 0 := by omega
    simp only [show ¬ ((51 : Nat) = 0) by omega, show ¬ ((51 : Nat) = 60) by omega, show ¬ ((51 : Nat) = 43) by omega,
      show ¬ ((51 : Nat) = 44) by omega, if_false, if_true, Nat.add_sub_cancel_left, h12, dite_false, hz']
    simp [extsFail, ExtRel, mkFault]
  case case12 frag slots o l _ h12 hz hl _ _ _ =>
    rw [Spec.chain]
    have hz' : ¬ g (o + 1) = 0 := by omega
    simp only [show ¬ ((51 : Nat) = 0) by omega, show ¬ ((51 : Nat) = 60) by omega, show ¬ ((51 : Nat) = 43) by omega,
      show ¬ ((51 : Nat) = 44) by omega, if_false, if_true, Nat.add_sub_cancel_left, h12, dite_false, hz', hl, dite_true]
    simp only [extsFail, ExtRel, extLenErr, true_and]
    refine ⟨⟨by simp [mkFault], by simp [mkFault, LayerUnit], by simp [mkFault]; omega,
      by simp [mkFault, Ctx.avail], by simp [mkFault], by simp [mkFault]⟩, by simp⟩
  case case13 frag slots o l _ h12 hz hl _ _ _ ih =>
    rw [Spec.chain]
    have hz' : ¬ g (o + 1) = 0 := by omega
    have e : o + l = o + (g (o + 1) + 2) * 4 + (l - (g (o + 1) + 2) * 4) := by omega
    have ih' := ih (by omega) (by omega)
    rw [← e] at ih'
    simp only [show ¬ ((51 : Nat) = 0) by omega, show ¬ ((51 : Nat) = 60) by omega, show ¬ ((51 : Nat) = 43) by omega,
      show ¬ ((51 : Nat) = 44) by omega, if_false, if_true, Nat.add_sub_cancel_left, h12, dite_false, hz', hl]
    exact ih'
  case case14 nh frag slots o l h0 h1 h2 h3 =>
    rw [Spec.chain]
    have h60 : ¬ nh = 60 := by omega
    have h43 : ¬ nh = 43 := by omega
    simp [h0, h60, h43, h2, h3, extsDone]

theorem chain_first_irrelevant (g : Mem) (lim : LenSource) (nh : Nat) (frag : Bool) (o stop : Nat) (h : nh ≠ 0) :
    Spec.chain g lim true nh frag o stop = Spec.chain g lim false nh frag o stop := by
  conv => lhs; rw [Spec.chain]
  conv => rhs; rw [Spec.chain]
  simp [h]

/-- the slice-mode walk (optional hop-by-hop header first) against the spec chain -/
theorem chain_walk (g : Mem) (hg : ByteMem g) (lim : LenSource) (nh o l : Nat) :
    (Spec.chain g lim true nh false o (o + l)).1 =
        ⟨(extsWalk g false nh o l).next, (extsWalk g false nh o l).frag, (extsWalk g false nh o l).rest.o⟩ ∧
      match (extsWalk g false nh o l).stop, (Spec.chain g lim true nh false o (o + l)).2 with
      | none, none => True
      | some (e, _), some f => ExtRel e f o lim
      | _, _ => False := by
  unfold extsWalk
  by_cases h0 : nh = 0
  · subst h0
    simp only [if_true]
    rw [Spec.chain]
    unfold rawExtFromSlice
    simp only [if_true, Nat.add_sub_cancel_left]
    by_cases h8 : l < 8
    · simp only [h8, if_true, dite_true, ExtRel, true_and]
      refine ⟨⟨by simp [mkFault], by simp [mkFault, LayerUnit], by simp [mkFault],
        by simp [mkFault, Ctx.avail], by simp [mkFault], by simp [mkFault]⟩, by simp⟩
    · simp only [h8, if_false, dite_false]
      by_cases hl : l < (g (o + 1) + 1) * 8
      · simp only [hl, if_true, dite_true, ExtRel, true_and]
        refine ⟨⟨by simp [mkFault], by simp [mkFault, LayerUnit], by simp [mkFault],
          by simp [mkFault, Ctx.avail], by simp [mkFault], by simp [mkFault]⟩, by simp⟩
      · simp only [hl, if_false, dite_false]
        have e : o + l = o + (g (o + 1) + 1) * 8 + (l - (g (o + 1) + 1) * 8) := by omega
        have := chain_loop g hg lim l (g o) false
          { hbh := some ⟨o, (g (o + 1) + 1) * 8⟩, dest := none, routing := none, finalDest := none, frag := none,
            auth := none } (o + (g (o + 1) + 1) * 8) (l - (g (o + 1) + 1) * 8) o (by omega) (by omega)
        rw [← e] at this
        exact this
  · simp only [h0, if_false]
    rw [chain_first_irrelevant g lim nh false o (o + l) h0]
    exact chain_loop g hg lim l nh false ExtSlots.none o l o rfl (Nat.le_refl _)

/-- after the boundary: the chain and the resulting IPv6 layer; `hp = (o + 40, L)` is the header
    payload, `src` its length source -/
theorem ipv6_after_bound (g : Mem) (hg : ByteMem g) (p : Packet) (ctx : Ctx) (o L : Nat) (src : LenSource)
    (hsrc : src = .slice ∨ src = .ipv6HeaderPayloadLen) :
    let lim'' := inherit ctx.lim src
    let chf := Spec.chain g lim'' true (g (o + 6)) false (o + 40) (o + 40 + L)
    let p' : Packet :=
      setNet p (.ip
        { v4 := false, hdr := ⟨o, 40⟩, auth := none, exts := ⟨o + 40, chf.1.off - (o + 40)⟩,
          first := if chf.1.off = o + 40 then none else some (g (o + 6)), slots := ExtSlots.none,
          pl := { num := chf.1.next, frag := chf.1.frag, src := src, w := ⟨chf.1.off, o + 40 + L - chf.1.off⟩,
                  inc := false } })
    match ipv6ChainStrict g false o ⟨o + 40, L⟩ src with
    | .ok ip =>
      chf.2 = none ∧ p' = p.setNet (.ip ip) ∧ ip.pl.src = src ∧ o ≤ ip.pl.w.o ∧
        chf.1.off = ip.pl.w.o ∧ o + 40 + L = ip.pl.w.o + ip.pl.w.l ∧ chf.1.frag = ip.pl.frag ∧ chf.1.next = ip.pl.num
    | .error (.len e) => ∃ f, chf.2 = some f ∧ LenRel e f o ctx.lim
    | .error e => ∃ f, chf.2 = some f ∧ ContentMatch e f := by
  intro lim'' chf p'
  have hw := chain_walk g hg lim'' (g (o + 6)) (o + 40) L
  have hsuf := EpModel.Lemmas.Dec.extsWalk_suffix g false (g (o + 6)) (o + 40) L
  unfold ipv6ChainStrict extsWalkStrict
  simp only
  generalize hr : extsWalk g false (g (o + 6)) (o + 40) L = r at *
  obtain ⟨h1, h2⟩ := hw
  have hch : chf.1 = ⟨r.next, r.frag, r.rest.o⟩ := h1
  have hoff : chf.1.off = r.rest.o := by rw [hch]
  have hnext : chf.1.next = r.next := by rw [hch]
  have hfrag : chf.1.frag = r.frag := by rw [hch]
  have h2' : match r.stop, chf.2 with
      | none, none => True
      | some (e, _), some f => ExtRel e f (o + 40) lim''
      | _, _ => False := h2
  clear h2 h1
  cases hst : r.stop with
  | none =>
    rw [hst] at h2'
    simp only
    have hf : chf.2 = none := by
      cases hc2 : chf.2 with
      | none => rfl
      | some f => rw [hc2] at h2'; exact absurd h2' (by simp)
    refine ⟨hf, ?_, ?_, ?_, ?_, ?_, ?_, ?_⟩
    · simp only [p', setNet_eq, mkV6, extsFirst, hoff, hnext, hfrag]
      have e1 : r.rest.o - (o + 40) = L - r.rest.l := by omega
      have e2 : o + 40 + L - r.rest.o = r.rest.l := by omega
      rw [e1, e2]
      have hrw : (⟨r.rest.o, r.rest.l⟩ : Win) = r.rest := rfl
      rw [hrw]
      by_cases hx : r.rest.l = L
      · have : r.rest.o = o + 40 := by omega
        simp [hx, this]
      · have : ¬ r.rest.o = o + 40 := by omega
        simp [hx, this]
    · simp [mkV6]
    · simp [mkV6]; omega
    · simp [mkV6, hoff]
    · simp [mkV6]; omega
    · simp [mkV6, hfrag]
    · simp [mkV6, hnext]
  | some x =>
    obtain ⟨e, ly⟩ := x
    rw [hst] at h2'
    simp only
    cases hc2 : chf.2 with
    | none => rw [hc2] at h2'; exact absurd h2' (by simp)
    | some f =>
      rw [hc2] at h2'
      have h2 := h2'
      cases e with
      | len le =>
        simp only [ExtRel] at h2
        obtain ⟨hrel, hsl⟩ := h2
        refine ⟨f, rfl, ?_⟩
        obtain ⟨c1, c2, c3, c4, c5, c6⟩ := hrel
        have hlim : f.lim = lim'' := by
          rcases c6 with ⟨_, hl⟩ | ⟨hne, _⟩
          · exact hl
          · exact absurd hsl hne
        refine ⟨c1, by simpa [LenError.addOffset, LenError.withSrc] using c2,
          by simp [LenError.addOffset, LenError.withSrc]; omega,
          by simpa [LenError.addOffset, LenError.withSrc] using c4,
          by simpa [LenError.addOffset, LenError.withSrc] using c5, ?_⟩
        simp only [LenError.addOffset, LenError.withSrc]
        rcases hsrc with hs | hs
        · left
          subst hs
          simp [hlim, lim'', inherit]
        · right
          subst hs
          simp [hlim, lim'', inherit]
      | hopByHop =>
        simp only [ExtRel] at h2
        exact ⟨f, rfl, by simp [extErrToPErr, ContentMatch, h2.1, h2.2]⟩
      | authZero =>
        simp only [ExtRel] at h2
        exact ⟨f, rfl, by simp [extErrToPErr, ContentMatch, h2.1, h2.2]⟩

theorem ipv6_step (g : Mem) (hg : ByteMem g) (p : Packet) (ctx : Ctx) (o l : Nat) (hc : ctx.off = o)
    (hs : ctx.stop = o + l) :
    match ipv6SliceFromSlice g o l with
    | .ok ip =>
      Spec.step false g p .ipv6 ctx =
        ⟨p.setNet (.ip ip), if ip.pl.frag then .done else .tp ip.pl.num,
          { off := ip.pl.w.o, stop := ip.pl.w.o + ip.pl.w.l, lim := inherit ctx.lim ip.pl.src, nExt := ctx.nExt },
          none⟩ ∧ o ≤ ip.pl.w.o ∧ (ip.pl.src = .slice ∨ ip.pl.src = .ipv6HeaderPayloadLen)
    | .error (.len e) =>
      ∃ p' t' c' f, Spec.step false g p .ipv6 ctx = ⟨p', t', c', some f⟩ ∧ LenRel e f o ctx.lim
    | .error e => ∃ p' t' c' f, Spec.step false g p .ipv6 ctx = ⟨p', t', c', some f⟩ ∧ ContentMatch e f := by
  have hav : ctx.avail = l := by unfold Ctx.avail; omega
  -- the part behind the boundary, for a header payload (o + 40, L) with source `src`
  have finish : ∀ (L : Nat) (src : LenSource) (hsrc : src = .slice ∨ src = .ipv6HeaderPayloadLen),
      match ipv6ChainStrict g false o ⟨o + 40, L⟩ src with
      | .ok ip =>
        (match (Spec.chain g (inherit ctx.lim src) true (g (o + 6)) false (o + 40) (o + 40 + L)).2 with
          | some f =>
            ({ p := setNet p (.ip
                { v4 := false, hdr := ⟨o, 40⟩, auth := none,
                  exts := ⟨o + 40, (Spec.chain g (inherit ctx.lim src) true (g (o + 6)) false (o + 40) (o + 40 + L)).1.off - (o + 40)⟩,
                  first := if (Spec.chain g (inherit ctx.lim src) true (g (o + 6)) false (o + 40) (o + 40 + L)).1.off = o + 40 then none else some (g (o + 6)),
                  slots := ExtSlots.none,
                  pl := { num := (Spec.chain g (inherit ctx.lim src) true (g (o + 6)) false (o + 40) (o + 40 + L)).1.next,
                          frag := (Spec.chain g (inherit ctx.lim src) true (g (o + 6)) false (o + 40) (o + 40 + L)).1.frag,
                          src := src,
                          w := ⟨(Spec.chain g (inherit ctx.lim src) true (g (o + 6)) false (o + 40) (o + 40 + L)).1.off,
                                o + 40 + L - (Spec.chain g (inherit ctx.lim src) true (g (o + 6)) false (o + 40) (o + 40 + L)).1.off⟩,
                          inc := false } }),
               next := Tag.done,
               c := { off := (Spec.chain g (inherit ctx.lim src) true (g (o + 6)) false (o + 40) (o + 40 + L)).1.off,
                      stop := o + 40 + L, lim := inherit ctx.lim src, nExt := ctx.nExt },
               fault := some f } : StepR)
          | none =>
            { p := setNet p (.ip
                { v4 := false, hdr := ⟨o, 40⟩, auth := none,
                  exts := ⟨o + 40, (Spec.chain g (inherit ctx.lim src) true (g (o + 6)) false (o + 40) (o + 40 + L)).1.off - (o + 40)⟩,
                  first := if (Spec.chain g (inherit ctx.lim src) true (g (o + 6)) false (o + 40) (o + 40 + L)).1.off = o + 40 then none else some (g (o + 6)),
                  slots := ExtSlots.none,
                  pl := { num := (Spec.chain g (inherit ctx.lim src) true (g (o + 6)) false (o + 40) (o + 40 + L)).1.next,
                          frag := (Spec.chain g (inherit ctx.lim src) true (g (o + 6)) false (o + 40) (o + 40 + L)).1.frag,
                          src := src,
                          w := ⟨(Spec.chain g (inherit ctx.lim src) true (g (o + 6)) false (o + 40) (o + 40 + L)).1.off,
                                o + 40 + L - (Spec.chain g (inherit ctx.lim src) true (g (o + 6)) false (o + 40) (o + 40 + L)).1.off⟩,
                          inc := false } }),
               next := if (Spec.chain g (inherit ctx.lim src) true (g (o + 6)) false (o + 40) (o + 40 + L)).1.frag = true then Tag.done
                       else Tag.tp (Spec.chain g (inherit ctx.lim src) true (g (o + 6)) false (o + 40) (o + 40 + L)).1.next,
               c := { off := (Spec.chain g (inherit ctx.lim src) true (g (o + 6)) false (o + 40) (o + 40 + L)).1.off,
                      stop := o + 40 + L, lim := inherit ctx.lim src, nExt := ctx.nExt },
               fault := none }) =
          ⟨p.setNet (.ip ip), if ip.pl.frag then .done else .tp ip.pl.num,
            { off := ip.pl.w.o, stop := ip.pl.w.o + ip.pl.w.l, lim := inherit ctx.lim ip.pl.src, nExt := ctx.nExt },
            none⟩ ∧ o ≤ ip.pl.w.o ∧ (ip.pl.src = .slice ∨ ip.pl.src = .ipv6HeaderPayloadLen)
      | .error (.len e) =>
        ∃ f, (Spec.chain g (inherit ctx.lim src) true (g (o + 6)) false (o + 40) (o + 40 + L)).2 = some f ∧
          LenRel e f o ctx.lim
      | .error e =>
        ∃ f, (Spec.chain g (inherit ctx.lim src) true (g (o + 6)) false (o + 40) (o + 40 + L)).2 = some f ∧
          ContentMatch e f := by
    intro L src hsrc
    have key := ipv6_after_bound g hg p ctx o L src hsrc
    simp only at key
    generalize Spec.chain g (inherit ctx.lim src) true (g (o + 6)) false (o + 40) (o + 40 + L) = ch at key ⊢
    split at key
    · rename_i ip hm
      obtain ⟨k1, k2, k3, k4, k5, k6, k7, k8⟩ := key
      simp only [k1]
      refine ⟨?_, k4, by rw [k3]; exact hsrc⟩
      simp only [k5, k7, k8, k6] at k2 ⊢
      simp only [k3]
      rw [k2]
    · rename_i e hm
      exact key
    · rename_i e hne hm
      cases e with
      | len le => exact absurd rfl (hne le)
      | _ => exact key
  unfold ipv6SliceFromSlice ipv6HeaderFromSlice
  simp only [Spec.step, hav, hc]
  by_cases h40 : l < 40
  · simp only [h40, if_true]
    exact ⟨_, _, _, _, rfl, by lenrel⟩
  · simp only [h40, if_false]
    by_cases hv : g o / 16 ≠ 6
    · simp only [hv, ne_eq, not_false_eq_true, if_true]
      exact ⟨_, _, _, _, rfl, by simp [mkFault], by simp [mkFault]⟩
    · simp only [hv, if_false]
      unfold ipv6AfterHeaderStrict ipv6BoundStrict Spec.bound
      simp only [hav, hc, hs, Bool.false_eq_true, if_false]
      by_cases hz : g16 g (o + 4) = 0 ∧ l > 40
      · simp only [hz, and_self, if_true]
        have key := finish (l - 40) .slice (Or.inl rfl)
        have e : o + 40 + (l - 40) = o + l := by omega
        simp only [e] at key
        split at key
        · rename_i ip hm
          exact key
        · rename_i e' hm
          obtain ⟨f, hf, hrel⟩ := key
          simp only [hf]
          exact ⟨_, _, _, _, rfl, hrel⟩
        · rename_i e' hne hm
          obtain ⟨f, hf, hrel⟩ := key
          simp only [hf]
          exact ⟨_, _, _, _, rfl, hrel⟩
      · simp only [hz, if_false]
        have hnl : ¬ (40 + g16 g (o + 4) < 40) := by omega
        simp only [hnl, if_false]
        by_cases hlt : l < 40 + g16 g (o + 4)
        · simp only [hlt, if_true]
          exact ⟨_, _, _, _, rfl, by lenrel⟩
        · simp only [hlt, if_false]
          have key := finish (g16 g (o + 4)) .ipv6HeaderPayloadLen (Or.inr rfl)
          have e : o + 40 + g16 g (o + 4) = o + (40 + g16 g (o + 4)) := by omega
          simp only [e] at key
          split at key
          · rename_i ip hm
            exact key
          · rename_i e' hm
            obtain ⟨f, hf, hrel⟩ := key
            simp only [hf]
            exact ⟨_, _, _, _, rfl, hrel⟩
          · rename_i e' hne hm
            obtain ⟨f, hf, hrel⟩ := key
            simp only [hf]
            exact ⟨_, _, _, _, rfl, hrel⟩

theorem ipv6_refines (c : Cur) (g : Mem) (hg : ByteMem g) (o l : Nat) (ctx : Ctx) (k : Nat) (ht : Tied c ctx o l) :
    Rel (c.sliceIpv6 g o l) (walkN false g (k + 2) c.r .ipv6 ctx) := by
  have hstep := ipv6_step g hg c.r ctx o l ht.coff ht.stop
  unfold Cur.sliceIpv6
  split at hstep
  · rename_i ip hip
    obtain ⟨hs1, hs2, hs3⟩ := hstep
    rw [hip, walkN_next false g (k + 1) _ _ _ _ _ _ (by simp) hs1]
    apply afterIp_refines c g o l ip ctx k ht.off hs2 (inherit ctx.lim ip.pl.src)
    rcases hs3 with h | h
    · left; exact h
    · right; rw [h]; simp [inherit]
  · rename_i e he
    obtain ⟨p', t', c', f, hf, hrel⟩ := hstep
    rw [he, walkN_fault false g (k + 1) _ _ _ _ _ _ f (by simp) hf]
    simp only [Rel, lenAddOff, ErrMatch]
    exact lenRel_addOff e f c o ctx.lim ht.off hrel (lenRel_src_weak hrel)
  · rename_i e hne he
    obtain ⟨p', t', c', f, hf, hrel⟩ := hstep
    rw [he, walkN_fault false g (k + 1) _ _ _ _ _ _ f (by simp) hf]
    simp only
    rw [lenAddOff_nonlen _ _ (fun le h => hne le h)]
    cases e
    · exact absurd rfl (hne _)
    all_goals (simp only [Rel, ErrMatch]; exact hrel)


/-! ### ARP, MACsec -/

theorem arp_step (g : Mem) (p : Packet) (ctx : Ctx) (o l : Nat) (hc : ctx.off = o) (hs : ctx.stop = o + l) :
    match arpFromSlice g o l with
    | .ok w => ∃ c', Spec.step false g p (.ether 0x0806) ctx = ⟨p.setNet (.arp w), .done, c', none⟩
    | .error e => ∃ f, Spec.step false g p (.ether 0x0806) ctx = ⟨p, .done, ctx, some f⟩ ∧ LenRel e f o ctx.lim := by
  have hav : ctx.avail = l := by unfold Ctx.avail; omega
  unfold arpFromSlice
  simp only [Spec.step, hav, hc, isVlanType]
  simp only [show ¬ ((0x0806 : Nat) = 0x8100 ∨ (0x0806 : Nat) = 0x88a8 ∨ (0x0806 : Nat) = 0x9100) by omega,
    decide_false, Bool.false_eq_true, if_false, show ¬ ((0x0806 : Nat) = 0x88e5) by omega, if_true]
  by_cases h8 : l < 8
  · simp only [h8, if_true]
    exact ⟨_, rfl, by lenrel⟩
  · simp only [h8, if_false]
    have e : 8 + 2 * g (o + 4) + 2 * g (o + 5) = 8 + g (o + 4) * 2 + g (o + 5) * 2 := by omega
    rw [e]
    by_cases hl : l < 8 + g (o + 4) * 2 + g (o + 5) * 2
    · simp only [hl, if_true]
      refine ⟨_, rfl, ?_⟩
      refine ⟨by simp [mkFault], by simp [mkFault, LayerUnit], by simp [mkFault, *], by simp [mkFault, *],
        by simp [mkFault], ?_⟩
      right
      simp [KnownSrcException]
    · simp only [hl, if_false]
      exact ⟨{ off := o + (8 + g (o + 4) * 2 + g (o + 5) * 2), stop := ctx.stop, lim := ctx.lim, nExt := ctx.nExt },
        by simp [setNet_eq]⟩

theorem macsec_unmod_eq (t : Nat) : (macsecUnmodified t = true) ↔ ((t / 8) % 2 = 0 ∧ (t / 4) % 2 = 0) := by
  unfold macsecUnmodified; simp; omega

theorem macsec_step (g : Mem) (hg : ByteMem g) (p : Packet) (ctx : Ctx) (o l : Nat) (hc : ctx.off = o)
    (hs : ctx.stop = o + l) (hn : ctx.nExt ≠ 3) :
    match macsecFromSlice g o l with
    | .ok (.macsec hdr pl src inc) =>
      Spec.step false g p (.ether 0x88e5) ctx =
        ⟨p.pushExt (.macsec hdr pl src inc),
          (match macsecNextEtherType g o with | some et' => .ether et' | none => .done),
          { off := pl.o, stop := pl.o + pl.l, lim := inherit ctx.lim src, nExt := ctx.nExt + 1 }, none⟩ ∧
        pl.o = o + hdr.l ∧ o ≤ pl.o ∧ pl.o + pl.l ≤ o + l ∧
        ((0 < g (o + 1) % 64) ↔ src = .macsecShortLength) ∧ (src = .slice ∨ src = .macsecShortLength)
    | .ok _ => False
    | .error (.len e) =>
      ∃ f, Spec.step false g p (.ether 0x88e5) ctx = ⟨p, .done, ctx, some f⟩ ∧ LenRel e f o ctx.lim
    | .error e => ∃ f, Spec.step false g p (.ether 0x88e5) ctx = ⟨p, .done, ctx, some f⟩ ∧ ContentMatch e f := by
  have hav : ctx.avail = l := by unfold Ctx.avail; omega
  have hb0 := hg o
  unfold macsecFromSlice macsecHeaderFromSlice
  simp only [Spec.step, hav, hc, isVlanType]
  simp only [show ¬ ((0x88e5 : Nat) = 0x8100 ∨ (0x88e5 : Nat) = 0x88a8 ∨ (0x88e5 : Nat) = 0x9100) by omega,
    decide_false, Bool.false_eq_true, if_false, if_true, hn]
  by_cases h6 : l < 6
  · simp only [h6, if_true]
    exact ⟨_, rfl, by lenrel⟩
  · simp only [h6, if_false]
    by_cases hv : g o / 128 % 2 = 1
    · have hv' : g o / 128 = 1 := by omega
      simp only [hv, hv', if_true]
      exact ⟨_, rfl, by simp [mkFault], by simp [mkFault]⟩
    · have hv' : ¬ g o / 128 = 1 := by omega
      simp only [hv, hv', if_false]
      have hsl : g (o + 1) % 64 < 64 := Nat.mod_lt _ (by omega)
      generalize hslv : g (o + 1) % 64 = sl at *
      by_cases hU : macsecUnmodified (g o) = true
      · have hUs : (g o / 8 % 2 = 0 ∧ g o / 4 % 2 = 0) := (macsec_unmod_eq (g o)).mp hU
        by_cases hS : macsecSciPresent (g o) = true
        · have hSs : g o / 32 % 2 = 1 := by simpa [macsecSciPresent] using hS
          simp only [macsecHeaderLen, secTagLen, macsecExpectedPayloadLen, macsecNextEtherType, hU, hS, hUs, hSs, hslv,
                and_self, true_and, and_true, and_false, false_and, decide_true, decide_false, if_true, not_true_eq_false, not_false_eq_true, if_false,
                Bool.false_eq_true]
          by_cases h1 : sl = 1
          · simp only [h1, if_true]
            exact ⟨_, rfl, by simp [mkFault], by simp [mkFault]⟩
          · simp only [h1, if_false]
            by_cases hlt : l < 6 + 2 + 8
            · have : l < 6 + 8 + 2 := by omega
              simp only [hlt, this, if_true]
              exact ⟨_, rfl, by lenrel⟩
            · have : ¬ l < 6 + 8 + 2 := by omega
              simp only [hlt, this, if_false]
              by_cases h0 : sl = 0
              · subst h0
                have e1 : o + l - (o + 16) = l - 16 := by omega
                simp [addExt_eq, hs, inherit, e1]
                omega
              · have hpos : 0 < sl := by omega
                have h2 : ¬ sl < 2 := by omega
                simp only [hpos, h0, h2, if_true, if_false]
                by_cases hp : l < 6 + 2 + 8 + (sl - 2)
                · have : l < 6 + 8 + 2 + (sl - 2) := by omega
                  simp only [hp, this, if_true]
                  refine ⟨_, rfl, ?_⟩
                  refine ⟨by simp [mkFault], by simp [mkFault, LayerUnit], by simp [mkFault, *], by simp [mkFault, *],
                    by simp [mkFault], ?_⟩
                  right
                  simp [KnownSrcException]
                · have : ¬ l < 6 + 8 + 2 + (sl - 2) := by omega
                  simp only [hp, this, if_false]
                  simp [addExt_eq, inherit]
                  try omega
        · have hSs : ¬ g o / 32 % 2 = 1 := by simpa [macsecSciPresent] using hS
          simp only [macsecHeaderLen, secTagLen, macsecExpectedPayloadLen, macsecNextEtherType, hU, hS, hUs, hSs, hslv,
                and_self, true_and, and_true, and_false, false_and, decide_true, decide_false, if_true, not_true_eq_false, not_false_eq_true, if_false,
                Bool.false_eq_true]
          by_cases h1 : sl = 1
          · simp only [h1, if_true]
            exact ⟨_, rfl, by simp [mkFault], by simp [mkFault]⟩
          · simp only [h1, if_false]
            by_cases hlt : l < 6 + 2 + 0
            · have : l < 6 + 0 + 2 := by omega
              simp only [hlt, this, if_true]
              exact ⟨_, rfl, by lenrel⟩
            · have : ¬ l < 6 + 0 + 2 := by omega
              simp only [hlt, this, if_false]
              by_cases h0 : sl = 0
              · subst h0
                have e1 : o + l - (o + 8) = l - 8 := by omega
                simp [addExt_eq, hs, inherit, e1]
                omega
              · have hpos : 0 < sl := by omega
                have h2 : ¬ sl < 2 := by omega
                simp only [hpos, h0, h2, if_true, if_false]
                by_cases hp : l < 6 + 2 + 0 + (sl - 2)
                · have : l < 6 + 0 + 2 + (sl - 2) := by omega
                  simp only [hp, this, if_true]
                  refine ⟨_, rfl, ?_⟩
                  refine ⟨by simp [mkFault], by simp [mkFault, LayerUnit], by simp [mkFault, *], by simp [mkFault, *],
                    by simp [mkFault], ?_⟩
                  right
                  simp [KnownSrcException]
                · have : ¬ l < 6 + 0 + 2 + (sl - 2) := by omega
                  simp only [hp, this, if_false]
                  simp [addExt_eq, inherit]
                  try omega
      · have hUs : ¬ (g o / 8 % 2 = 0 ∧ g o / 4 % 2 = 0) := fun h => hU ((macsec_unmod_eq (g o)).mpr h)
        by_cases hS : macsecSciPresent (g o) = true
        · have hSs : g o / 32 % 2 = 1 := by simpa [macsecSciPresent] using hS
          simp only [macsecHeaderLen, secTagLen, macsecExpectedPayloadLen, macsecNextEtherType, hU, hS, hUs, hSs, hslv,
                and_self, true_and, and_true, and_false, false_and, decide_true, decide_false, if_true, not_true_eq_false, not_false_eq_true, if_false,
                Bool.false_eq_true]
          by_cases hlt : l < 6 + 0 + 8
          · have : l < 6 + 8 + 0 := by omega
            simp only [hlt, this, if_true]
            exact ⟨_, rfl, by lenrel⟩
          · have : ¬ l < 6 + 8 + 0 := by omega
            simp only [hlt, this, if_false]
            by_cases h0 : sl = 0
            · subst h0
              have e1 : o + l - (o + 14) = l - 14 := by omega
              simp [addExt_eq, hs, inherit, e1]
              omega
            · have hpos : 0 < sl := by omega
              simp only [hpos, h0, if_true, if_false]
              by_cases hp : l < 6 + 0 + 8 + sl
              · have : l < 6 + 8 + 0 + sl := by omega
                simp only [hp, this, if_true]
                refine ⟨_, rfl, ?_⟩
                refine ⟨by simp [mkFault], by simp [mkFault, LayerUnit], by simp [mkFault, *], by simp [mkFault, *],
                  by simp [mkFault], ?_⟩
                right
                simp [KnownSrcException]
              · have : ¬ l < 6 + 8 + 0 + sl := by omega
                simp only [hp, this, if_false]
                simp [addExt_eq, inherit]
                try omega
        · have hSs : ¬ g o / 32 % 2 = 1 := by simpa [macsecSciPresent] using hS
          simp only [macsecHeaderLen, secTagLen, macsecExpectedPayloadLen, macsecNextEtherType, hU, hS, hUs, hSs, hslv,
                and_self, true_and, and_true, and_false, false_and, decide_true, decide_false, if_true, not_true_eq_false, not_false_eq_true, if_false,
                Bool.false_eq_true]
          by_cases hlt : l < 6 + 0 + 0
          · have : l < 6 + 0 + 0 := by omega
            simp only [hlt, this, if_true]
            exact ⟨_, rfl, by lenrel⟩
          · have : ¬ l < 6 + 0 + 0 := by omega
            simp only [hlt, this, if_false]
            by_cases h0 : sl = 0
            · subst h0
              have e1 : o + l - (o + 6) = l - 6 := by omega
              simp [addExt_eq, hs, inherit, e1]
              omega
            · have hpos : 0 < sl := by omega
              simp only [hpos, h0, if_true, if_false]
              by_cases hp : l < 6 + 0 + 0 + sl
              · have : l < 6 + 0 + 0 + sl := by omega
                simp only [hp, this, if_true]
                refine ⟨_, rfl, ?_⟩
                refine ⟨by simp [mkFault], by simp [mkFault, LayerUnit], by simp [mkFault, *], by simp [mkFault, *],
                  by simp [mkFault], ?_⟩
                right
                simp [KnownSrcException]
              · have : ¬ l < 6 + 0 + 0 + sl := by omega
                simp only [hp, this, if_false]
                simp [addExt_eq, inherit]
                try omega


end EpModel.Lemmas.Refine
