import EpModel.Lemmas.CodecNetBits
import EpModel.Model.Codec.NetIpv6
/- Helper lemmas about the Ipv6Header / Ipv6HeaderSlice model. -/
namespace EpModel.Lemmas.CodecNet.Ipv6
open EpModel EpModel.CodecNet EpModel.Lemmas.CodecNet

theorem toBytes_length (h : Ipv6Header) (wf : h.WF) : h.toBytes.length = 40 := by
  obtain ⟨_, _, _, _, _, h6, h7⟩ := wf
  simp [Ipv6Header.toBytes, h6, h7]

theorem slice_of_toBytes (h : Ipv6Header) (tail : Bytes) (wf : h.WF) :
    Ipv6HeaderSlice.fromSlice (h.toBytes ++ tail) = .ok { slice := h.toBytes } := by
  have hl := toBytes_length h wf
  obtain ⟨h1, _, _, _, _, _, _⟩ := wf
  have hv : bAt (h.toBytes ++ tail) 0 >>> 4 = 6 := by
    simp [Ipv6Header.toBytes, Nat.shiftRight_eq_div_pow]
    rw [or_eq_add 4 (by omega) (by omega)]; omega
  unfold Ipv6HeaderSlice.fromSlice
  simp only [hv, List.length_append, hl]
  have : ¬ (40 + tail.length < 40) := by omega
  simp [this, hl]

theorem toHeader_toBytes (h : Ipv6Header) (wf : h.WF) :
    Ipv6HeaderSlice.toHeader { slice := h.toBytes } = h := by
  obtain ⟨tc, fl, pl, nh, hop, src, dst⟩ := h
  obtain ⟨h1, h2, h3, h4, h5, h6, h7⟩ := wf
  simp only at h1 h2 h3 h4 h5 h6 h7
  simp [Ipv6HeaderSlice.toHeader, Ipv6HeaderSlice.trafficClass, Ipv6HeaderSlice.flowLabel,
    Ipv6HeaderSlice.payloadLength, Ipv6HeaderSlice.nextHeader, Ipv6HeaderSlice.hopLimit,
    Ipv6HeaderSlice.source, Ipv6HeaderSlice.destination, Ipv6Header.toBytes, be16, sub,
    shl8, Nat.shiftRight_eq_div_pow, Nat.shiftLeft_eq, and15]
  rw [or_eq_add 4 (by omega) (by omega), or_eq_add 4 (by omega) (by omega),
    or_eq_add 4 (by omega) (by omega)]
  refine ⟨by omega, by omega, by omega, by omega, by omega, List.take_left' h6, ?_⟩
  rw [List.drop_left' h6]; exact List.take_of_length_le (by omega)

/-- re-encoding the header decoded from 40 bytes with version nibble 6 gives the 40 bytes back. -/
theorem toBytes_toHeader (b0 b1 b2 b3 b4 b5 b6 b7 : UInt8) (r : Bytes) (hr : r.length = 32)
    (hv : b0.toNat / 16 = 6) :
    (Ipv6HeaderSlice.toHeader { slice := b0 :: b1 :: b2 :: b3 :: b4 :: b5 :: b6 :: b7 :: r }).toBytes
      = b0 :: b1 :: b2 :: b3 :: b4 :: b5 :: b6 :: b7 :: r := by
  have l0 := b0.toNat_lt; have l1 := b1.toNat_lt; have l2 := b2.toNat_lt; have l3 := b3.toNat_lt
  have l4 := b4.toNat_lt; have l5 := b5.toNat_lt; have l6 := b6.toNat_lt; have l7 := b7.toNat_lt
  have htc : shl8 b0.toNat 4 ||| b1.toNat / 16 = b0.toNat % 16 * 16 + b1.toNat / 16 := by
    unfold shl8; rw [Nat.shiftLeft_eq, or_eq_add 4 (by omega) (by omega)]; omega
  simp [Ipv6HeaderSlice.toHeader, Ipv6HeaderSlice.trafficClass, Ipv6HeaderSlice.flowLabel,
    Ipv6HeaderSlice.payloadLength, Ipv6HeaderSlice.nextHeader, Ipv6HeaderSlice.hopLimit,
    Ipv6HeaderSlice.source, Ipv6HeaderSlice.destination, Ipv6Header.toBytes, be16, sub,
    Nat.shiftRight_eq_div_pow, and15, htc]
  have h96 : 96 ||| (b0.toNat % 16 * 16 + b1.toNat / 16) / 16 = 96 + b0.toNat % 16 := by
    rw [or_eq_add 4 (by omega) (by omega)]; omega
  have h1 : shl8 (b0.toNat % 16 * 16 + b1.toNat / 16) 4 |||
      (b1.toNat % 16 * 65536 + b2.toNat * 256 + b3.toNat) / 65536 % 256 = b1.toNat := by
    unfold shl8; rw [Nat.shiftLeft_eq, or_eq_add 4 (by omega) (by omega)]; omega
  rw [h96, h1]
  refine ⟨u8_eq_of (by omega), u8_eq_of (by omega), u8_eq_of (by omega), u8_eq_of (by omega),
    u8_eq_of (by omega), u8_eq_of (by omega), u8_eq_of (by omega), u8_eq_of (by omega), ?_⟩
  rw [← List.take_add, List.take_of_length_le (by omega)]

/-- what a successful `Ipv6Header::from_slice` says about its input. -/
theorem fromSlice_ok (b : Bytes) (h : Ipv6Header) (rest : Bytes)
    (hd : Ipv6Header.fromSlice b = .ok (h, rest)) :
    40 ≤ b.length ∧ bAt b 0 / 16 = 6 ∧ h = Ipv6HeaderSlice.toHeader { slice := b.take 40 } ∧
      rest = b.drop 40 := by
  unfold Ipv6Header.fromSlice Ipv6HeaderSlice.fromSlice at hd
  by_cases hlen : b.length < 40
  · simp [hlen] at hd
  · by_cases hver : 6 = bAt b 0 >>> 4
    · simp [hlen, ← hver] at hd
      rw [Nat.shiftRight_eq_div_pow] at hver
      exact ⟨by omega, by omega, hd.1.symm, hd.2.symm⟩
    · simp [hlen, hver] at hd

/-- every header decoded from a 40 byte slice is in range. -/
theorem toHeader_wf (s : Ipv6HeaderSlice) (hs : s.slice.length = 40) : s.toHeader.WF := by
  have a0 := bAt_lt s.slice 0; have a1 := bAt_lt s.slice 1; have a2 := bAt_lt s.slice 2
  have a3 := bAt_lt s.slice 3
  refine ⟨?_, ?_, be16_lt _ _, bAt_lt _ _, bAt_lt _ _, ?_, ?_⟩
  · show shl8 (bAt s.slice 0) 4 ||| bAt s.slice 1 >>> 4 < 2 ^ 8
    apply Nat.or_lt_two_pow
    · unfold shl8; omega
    · rw [Nat.shiftRight_eq_div_pow]; omega
  · show (bAt s.slice 1 &&& 0xf) * 65536 + bAt s.slice 2 * 256 + bAt s.slice 3 < 1048576
    rw [and15]; omega
  · exact sub_length _ _ _ (by omega)
  · exact sub_length _ _ _ (by omega)

end EpModel.Lemmas.CodecNet.Ipv6
