import EpModel.Spec.Decode
/-
  Placement independence of the wire-format walk (used by C06).

  `shM k g` is the memory `g` seen from offset `k`.  Every window the walk hands out, every context
  and every fault carries absolute offsets; `shW`, `shPacket`, `shCtx`, `shFault` add `k` to exactly
  those.  `step_shift` / `walkN_shift`: the walk over the shifted memory, shifted afterwards, is the
  walk over the original memory started at the shifted context.
-/
namespace EpModel.Spec
set_option linter.unusedSimpArgs false
open EpModel EpModel.Dec

/-! ### A. shift operators -/

/-- the memory seen from offset `k` -/
def shM (k : Nat) (g : Mem) : Mem := fun i => g (k + i)

def shW (k : Nat) (w : Win) : Win := ⟨k + w.o, w.l⟩

def shLink (k : Nat) : LinkR → LinkR
  | .eth2 w => .eth2 (shW k w)
  | .sll w => .sll (shW k w)
  | .etherPayload et w => .etherPayload et (shW k w)

def shExt (k : Nat) : ExtR → ExtR
  | .vlan w => .vlan (shW k w)
  | .macsec hdr pl src inc => .macsec (shW k hdr) (shW k pl) src inc

def shSlots (k : Nat) (s : ExtSlots) : ExtSlots :=
  { hbh := s.hbh.map (shW k), dest := s.dest.map (shW k), routing := s.routing.map (shW k),
    finalDest := s.finalDest.map (shW k), frag := s.frag.map (shW k), auth := s.auth.map (shW k) }

def shPl (k : Nat) (x : IpPl) : IpPl :=
  { num := x.num, frag := x.frag, src := x.src, w := shW k x.w, inc := x.inc }

def shIp (k : Nat) (r : IpR) : IpR :=
  { v4 := r.v4, hdr := shW k r.hdr, auth := r.auth.map (shW k), exts := shW k r.exts, first := r.first,
    slots := shSlots k r.slots, pl := shPl k r.pl }

def shNet (k : Nat) : NetR → NetR
  | .arp w => .arp (shW k w)
  | .ip r => .ip (shIp k r)

def shTp (k : Nat) : TpR → TpR
  | .udp w => .udp (shW k w)
  | .tcp w hl => .tcp (shW k w) hl
  | .icmp4 w => .icmp4 (shW k w)
  | .icmp6 w => .icmp6 (shW k w)

/-- every window of a packet moved by `k`; nothing else changes -/
def shPacket (k : Nat) (p : Packet) : Packet :=
  { link := p.link.map (shLink k), exts := p.exts.map (shExt k), net := p.net.map (shNet k),
    tp := p.tp.map (shTp k), stop := p.stop }

def shCtx (k : Nat) (c : Ctx) : Ctx := { off := k + c.off, stop := k + c.stop, lim := c.lim, nExt := c.nExt }

def shFault (k : Nat) (f : Fault) : Fault :=
  { cls := f.cls, unit := f.unit, off := k + f.off, avail := f.avail, need := f.need, lim := f.lim,
    value := f.value }

def shStepR (k : Nat) (r : StepR) : StepR :=
  { p := shPacket k r.p, next := r.next, c := shCtx k r.c, fault := r.fault.map (shFault k) }

def shChain (k : Nat) (r : Chain × Option Fault) : Chain × Option Fault :=
  ({ next := r.1.next, frag := r.1.frag, off := k + r.1.off }, r.2.map (shFault k))

@[simp] theorem shM_apply (k : Nat) (g : Mem) (i : Nat) : shM k g i = g (k + i) := rfl

@[simp] theorem g16_shM (k : Nat) (g : Mem) (i : Nat) : g16 (shM k g) i = g16 g (k + i) := by
  simp [g16, shM, Nat.add_assoc]

@[simp] theorem shCtx_avail (k : Nat) (c : Ctx) : (shCtx k c).avail = c.avail := by
  simp [shCtx, Ctx.avail, Nat.add_sub_add_left]

@[simp] theorem shCtx_off (k : Nat) (c : Ctx) : (shCtx k c).off = k + c.off := rfl
@[simp] theorem shCtx_stop (k : Nat) (c : Ctx) : (shCtx k c).stop = k + c.stop := rfl
@[simp] theorem shCtx_lim (k : Nat) (c : Ctx) : (shCtx k c).lim = c.lim := rfl
@[simp] theorem shCtx_nExt (k : Nat) (c : Ctx) : (shCtx k c).nExt = c.nExt := rfl

theorem shFault_mkFault (k : Nat) (c : Ctx) (cls : FaultClass) (u : Unit_) (need value : Nat) :
    shFault k (mkFault c cls u need value) = mkFault (shCtx k c) cls u need value := by
  simp [shFault, mkFault]

theorem shPacket_setLink (k : Nat) (p : Packet) (x : LinkR) :
    shPacket k (setLink p x) = setLink (shPacket k p) (shLink k x) := by
  simp [shPacket, setLink]

theorem shPacket_addExt (k : Nat) (p : Packet) (x : ExtR) :
    shPacket k (addExt p x) = addExt (shPacket k p) (shExt k x) := by
  simp [shPacket, addExt]

theorem shPacket_setNet (k : Nat) (p : Packet) (x : NetR) :
    shPacket k (setNet p x) = setNet (shPacket k p) (shNet k x) := by
  simp [shPacket, setNet]

theorem shPacket_setTp (k : Nat) (p : Packet) (x : TpR) :
    shPacket k (setTp p x) = setTp (shPacket k p) (shTp k x) := by
  simp [shPacket, setTp]

@[simp] theorem shPacket_empty (k : Nat) : shPacket k Packet.empty = Packet.empty := rfl

/-! ### B. fragmentation flags, the payload rule and the IPv6 extension chain -/

@[simp] theorem v4Fragmented_shM (k : Nat) (g : Mem) (o : Nat) :
    v4Fragmented (shM k g) o = v4Fragmented g (k + o) := by
  simp [v4Fragmented, Nat.add_assoc]

@[simp] theorem v6Fragmented_shM (k : Nat) (g : Mem) (o : Nat) :
    v6Fragmented (shM k g) o = v6Fragmented g (k + o) := by
  simp [v6Fragmented, Nat.add_assoc]

/-- what `bound` returns, shifted -/
def shBound (k : Nat) : Except Fault (Nat × LenSource × Bool) → Except Fault (Nat × LenSource × Bool)
  | .error f => .error (shFault k f)
  | .ok (s, l, i) => .ok (k + s, l, i)

theorem bound_shift (k : Nat) (lax : Bool) (c : Ctx) (u : Unit_) (field : LenSource) (hl total : Nat) :
    bound lax (shCtx k c) u field hl total = shBound k (bound lax c u field hl total) := by
  unfold bound
  simp only [shCtx_avail, shCtx_off, shCtx_stop]
  split
  · split <;> simp [shBound, shFault]
  · split
    · split <;> simp [shBound, shFault_mkFault]
    · simp [shBound, Nat.add_assoc]

theorem chain_shift' (k : Nat) (g g' : Mem) (hg : ∀ i, g' i = g (k + i)) (lim : LenSource) (first : Bool)
    (nh : Nat) (frag : Bool) (o stop : Nat) :
    chain g lim first nh frag (k + o) (k + stop) = shChain k (chain g' lim first nh frag o stop) := by
  have h6 : ∀ o, v6Fragmented g' o = v6Fragmented g (k + o) := by
    intro o; simp [v6Fragmented, g16, hg, Nat.add_assoc]
  fun_induction chain g' lim first nh frag o stop <;>
    (conv => lhs; unfold chain) <;>
    simp_all +zetaDelta [mkFault, Ctx.avail, Nat.add_sub_add_left, Nat.add_assoc] <;>
    (repeat' split) <;> simp_all [shChain, shFault] <;> (try intros) <;> omega

theorem chain_shift (k : Nat) (g : Mem) (lim : LenSource) (first : Bool) (nh : Nat) (frag : Bool)
    (o stop : Nat) :
    chain g lim first nh frag (k + o) (k + stop) = shChain k (chain (shM k g) lim first nh frag o stop) :=
  chain_shift' k g (shM k g) (fun _ => rfl) lim first nh frag o stop

/-! ### C. one step -/

theorem g16_sh (k : Nat) (g g' : Mem) (hg : ∀ i, g' i = g (k + i)) (i : Nat) : g16 g' i = g16 g (k + i) := by
  simp [g16, hg, Nat.add_assoc]

theorem v4Fragmented_sh (k : Nat) (g g' : Mem) (hg : ∀ i, g' i = g (k + i)) (o : Nat) :
    v4Fragmented g' o = v4Fragmented g (k + o) := by
  simp [v4Fragmented, g16_sh k g g' hg, Nat.add_assoc]

/-- `C` is the context `c` moved by `k`, stated by equations: rewriting with them is a proper `simp`
    rewrite (a definitional unfolding of `shCtx` inside the conditions of `step` would leave stale
    `Decidable` instances behind, and `split`/`generalize` would no longer see both sides alike) -/
structure ShC (k : Nat) (c C : Ctx) : Prop where
  off : C.off = k + c.off
  stop : C.stop = k + c.stop
  lim : C.lim = c.lim
  nExt : C.nExt = c.nExt

theorem ShC.avail {k : Nat} {c C : Ctx} (h : ShC k c C) : C.avail = c.avail := by
  simp [Ctx.avail, h.off, h.stop, Nat.add_sub_add_left]

theorem ShC.eq {k : Nat} {c C : Ctx} (h : ShC k c C) : C = shCtx k c := by
  obtain ⟨h1, h2, h3, h4⟩ := h
  cases C; cases c; simp_all [shCtx]

theorem shC_shCtx (k : Nat) (c : Ctx) : ShC k c (shCtx k c) := ⟨rfl, rfl, rfl, rfl⟩

theorem avail_mk (a b : Nat) (l : LenSource) (n : Nat) : (Ctx.mk a b l n).avail = b - a := by
  simp [Ctx.avail]

macro "shclose" : tactic =>
  `(tactic| simp_all [shStepR, shFault, mkFault, Ctx.avail, Nat.add_sub_add_left, shPacket_setLink,
      shPacket_setTp, shPacket_setNet, shPacket_addExt, shLink, shTp, shNet, shExt, shW, shCtx, shIp, shPl,
      shSlots, ExtSlots.none, Nat.add_assoc])

section
variable (k : Nat) (g g' : Mem) (hg : ∀ i, g' i = g (k + i)) (lax : Bool) (p : Packet) (c C : Ctx)
  (hc : ShC k c C)
include hg hc

theorem step_shift_eth : step lax g (shPacket k p) .eth C = shStepR k (step lax g' p .eth c) := by
  have hC := hc.eq
  simp only [step, hc.off, hc.stop, hc.lim, hc.nExt, hc.avail, hg, g16_sh k g g' hg, Nat.add_assoc]
  repeat' split
  all_goals shclose

theorem step_shift_sll : step lax g (shPacket k p) .sll C = shStepR k (step lax g' p .sll c) := by
  have hC := hc.eq
  simp only [step, hc.off, hc.stop, hc.lim, hc.nExt, hc.avail, hg, g16_sh k g g' hg, Nat.add_assoc]
  repeat' split
  all_goals shclose

theorem step_shift_ipAny : step lax g (shPacket k p) .ipAny C = shStepR k (step lax g' p .ipAny c) := by
  have hC := hc.eq
  simp only [step, hc.off, hc.stop, hc.lim, hc.nExt, hc.avail, hg, g16_sh k g g' hg, Nat.add_assoc]
  repeat' split
  all_goals shclose

theorem step_shift_tp (num : Nat) :
    step lax g (shPacket k p) (.tp num) C = shStepR k (step lax g' p (.tp num) c) := by
  have hC := hc.eq
  simp only [step, hc.off, hc.stop, hc.lim, hc.nExt, hc.avail, hg, g16_sh k g g' hg, Nat.add_assoc]
  repeat' split
  all_goals shclose

theorem step_shift_macsec :
    step lax g (shPacket k p) (.ether 0x88e5) C = shStepR k (step lax g' p (.ether 0x88e5) c) := by
  have hv : isVlanType 0x88e5 = false := by decide
  have hC := hc.eq
  simp only [step, hv, if_true, if_false, Bool.false_eq_true, hc.off, hc.stop, hc.lim, hc.nExt, hc.avail, hg,
    g16_sh k g g' hg, Nat.add_assoc]
  generalize g (k + c.off) = tci
  generalize g (k + (c.off + 1)) = slb
  have h6' : ∀ a b, 6 ≤ secTagLen a b := by intro a b; unfold secTagLen; omega
  generalize hhl : secTagLen (decide (tci / 32 % 2 = 1)) (decide (tci / 8 % 2 = 0 ∧ tci / 4 % 2 = 0)) = hl
  have hl6 := h6' (decide (tci / 32 % 2 = 1)) (decide (tci / 8 % 2 = 0 ∧ tci / 4 % 2 = 0))
  rw [hhl] at hl6
  -- the ether type of an unmodified frame sits in the last two octets of the SecTAG
  have hsub : k + (c.off + hl) - 2 = k + (c.off + hl - 2) := by omega
  clear hhl h6'
  generalize (if tci / 8 % 2 = 0 ∧ tci / 4 % 2 = 0 then slb % 64 - 2 else slb % 64) = plen
  by_cases hs0 : slb % 64 = 0 <;> by_cases hlt : c.avail < hl + plen <;> cases lax <;>
    simp only [hs0, hlt, if_true, if_false, Bool.false_eq_true] <;> (repeat' split) <;> shclose

theorem step_shift_ether (et : Nat) :
    step lax g (shPacket k p) (.ether et) C = shStepR k (step lax g' p (.ether et) c) := by
  by_cases hv : isVlanType et = true
  · have hC := hc.eq
    simp only [step, hv, if_true, hc.off, hc.stop, hc.lim, hc.nExt, hc.avail, hg, g16_sh k g g' hg, Nat.add_assoc]
    repeat' split
    all_goals shclose
  · by_cases hm : et = 0x88e5
    · subst hm; exact step_shift_macsec k g g' hg lax p c C hc
    · have hC := hc.eq
      simp only [step, hv, hm, if_true, if_false, Bool.false_eq_true, hc.off, hc.stop, hc.lim, hc.nExt, hc.avail,
        hg, g16_sh k g g' hg, Nat.add_assoc]
      repeat' split
      all_goals shclose

theorem step_shift_ipv4 : step lax g (shPacket k p) .ipv4 C = shStepR k (step lax g' p .ipv4 c) := by
  have hC := hc.eq
  have hb : ∀ u f hl total, bound lax C u f hl total = shBound k (bound lax c u f hl total) := by
    intro u f hl total; rw [hC]; exact bound_shift k lax c u f hl total
  simp only [step, hc.off, hc.stop, hc.lim, hc.nExt, hc.avail, hg, g16_sh k g g' hg, v4Fragmented_sh k g g' hg, hb,
    Nat.add_assoc]
  generalize g (k + c.off) = b0
  generalize g16 g (k + (c.off + 2)) = tl
  generalize g (k + (c.off + 9)) = proto
  generalize v4Fragmented g (k + c.off) = fr
  generalize bound lax c Unit_.ipv4Packet LenSource.ipv4HeaderTotalLen (b0 % 16 * 4) tl = r
  rcases r with f | ⟨s, l, i⟩
  · simp only [shBound]
    repeat' split
    all_goals shclose
  · simp only [shBound, avail_mk, Nat.add_sub_add_left, Nat.add_assoc]
    generalize b0 % 16 * 4 = hl
    generalize g (k + (c.off + (hl + 1))) = alb
    generalize g (k + (c.off + hl)) = nh
    repeat' split
    all_goals shclose

theorem step_shift_ipv6 : step lax g (shPacket k p) .ipv6 C = shStepR k (step lax g' p .ipv6 c) := by
  have hC := hc.eq
  have hb : ∀ u f hl total, bound lax C u f hl total = shBound k (bound lax c u f hl total) := by
    intro u f hl total; rw [hC]; exact bound_shift k lax c u f hl total
  have hch : ∀ lim first nh frag o stop, chain g lim first nh frag (k + o) (k + stop) =
      shChain k (chain g' lim first nh frag o stop) := chain_shift' k g g' hg
  simp only [step, hc.off, hc.stop, hc.lim, hc.nExt, hc.avail, hg, g16_sh k g g' hg, hb, Nat.add_assoc]
  generalize g (k + c.off) = b0
  generalize g16 g (k + (c.off + 4)) = plen
  generalize g (k + (c.off + 6)) = nh
  by_cases h40 : c.avail < 40
  · simp only [h40, if_true]; shclose
  · by_cases hver : b0 / 16 ≠ 6
    · simp only [h40, hver, if_true, if_false]; shclose
    · simp only [h40, hver, if_true, if_false]
      by_cases hz : plen = 0 ∧ c.avail > 40
      · simp only [hz, and_self, if_true, hch]
        generalize chain g' (inherit c.lim LenSource.slice) true nh false (c.off + 40) c.stop = chf
        obtain ⟨⟨nx, fr, o'⟩, fo⟩ := chf
        cases fo <;> simp only [shChain, Option.map] <;> shclose <;> cases fr <;> rfl
      · simp only [hz, if_false]
        generalize bound lax c Unit_.ipv6Packet LenSource.ipv6HeaderPayloadLen 40 (40 + plen) = r
        rcases r with f | ⟨s, l, i⟩
        · simp only [shBound]; shclose
        · simp only [shBound, hch]
          generalize chain g' (inherit c.lim l) true nh false (c.off + 40) s = chf
          obtain ⟨⟨nx, fr, o'⟩, fo⟩ := chf
          cases fo <;> simp only [shChain, Option.map] <;> shclose <;> cases fr <;> rfl

/-- one step of the walk commutes with the shift -/
theorem step_shift_gen (t : Tag) : step lax g (shPacket k p) t C = shStepR k (step lax g' p t c) := by
  cases t with
  | done => have hC := hc.eq; simp [step, shStepR, hC]
  | eth => exact step_shift_eth k g g' hg lax p c C hc
  | sll => exact step_shift_sll k g g' hg lax p c C hc
  | ether et => exact step_shift_ether k g g' hg lax p c C hc et
  | ipAny => exact step_shift_ipAny k g g' hg lax p c C hc
  | ipv4 => exact step_shift_ipv4 k g g' hg lax p c C hc
  | ipv6 => exact step_shift_ipv6 k g g' hg lax p c C hc
  | tp num => exact step_shift_tp k g g' hg lax p c C hc num

end

/-- **one step is placement independent**: the step over the memory seen from offset `k`, with every
    offset of its outcome moved by `k`, is the step over the original memory at the moved context -/
theorem step_shift (k : Nat) (lax : Bool) (g : Mem) (p : Packet) (t : Tag) (c : Ctx) :
    step lax g (shPacket k p) t (shCtx k c) = shStepR k (step lax (shM k g) p t c) :=
  step_shift_gen k g (shM k g) (fun _ => rfl) lax p c (shCtx k c) (shC_shCtx k c) t

/-! ### D. the walk -/

def shRes (k : Nat) (r : Packet × Option Fault) : Packet × Option Fault :=
  (shPacket k r.1, r.2.map (shFault k))

/-- **the walk is placement independent**: walking the memory seen from offset `k` and moving every
    offset of the result by `k` is walking the original memory from the moved context -/
theorem walkN_shift (k : Nat) (lax : Bool) (g : Mem) (n : Nat) (p : Packet) (t : Tag) (c : Ctx) :
    walkN lax g n (shPacket k p) t (shCtx k c) = shRes k (walkN lax (shM k g) n p t c) := by
  induction n generalizing p t c with
  | zero =>
    simp only [walkN]
    split <;> simp [shRes, shFault_mkFault]
  | succ n ih =>
    simp only [walkN]
    split
    · simp [shRes]
    · rw [step_shift]
      cases hf : (step lax (shM k g) p t c).fault with
      | some f => simp [shStepR, hf, shRes]
      | none => simp [shStepR, hf, ih]

/-! #### the link field is not touched behind the link layer; fuel -/

/-- a packet with the link field replaced -/
def setLk (lk : Option LinkR) (p : Packet) : Packet :=
  { link := lk, exts := p.exts, net := p.net, tp := p.tp, stop := p.stop }

def stepLk (lk : Option LinkR) (r : StepR) : StepR := { p := setLk lk r.p, next := r.next, c := r.c, fault := r.fault }

theorem setNet_setLk (lk : Option LinkR) (p : Packet) (x : NetR) : setNet (setLk lk p) x = setLk lk (setNet p x) := rfl
theorem setTp_setLk (lk : Option LinkR) (p : Packet) (x : TpR) : setTp (setLk lk p) x = setLk lk (setTp p x) := rfl
theorem addExt_setLk (lk : Option LinkR) (p : Packet) (x : ExtR) : addExt (setLk lk p) x = setLk lk (addExt p x) := rfl
theorem stepLk_mk (lk : Option LinkR) (p : Packet) (t : Tag) (c : Ctx) (f : Option Fault) :
    stepLk lk ⟨p, t, c, f⟩ = ⟨setLk lk p, t, c, f⟩ := rfl

theorem step_link_ipv4 (lax : Bool) (g : Mem) (p : Packet) (c : Ctx) (lk : Option LinkR) :
    step lax g (setLk lk p) .ipv4 c = stepLk lk (step lax g p .ipv4 c) := by
  simp only [step, setNet_setLk]
  generalize bound lax c .ipv4Packet .ipv4HeaderTotalLen (g c.off % 16 * 4) (g16 g (c.off + 2)) = r
  rcases r with f | ⟨s, l, i⟩ <;> simp only [apply_ite (stepLk lk), stepLk_mk]

theorem step_link_ipv6 (lax : Bool) (g : Mem) (p : Packet) (c : Ctx) (lk : Option LinkR) :
    step lax g (setLk lk p) .ipv6 c = stepLk lk (step lax g p .ipv6 c) := by
  simp only [step, setNet_setLk]
  generalize g16 g (c.off + 4) = plen
  generalize (if plen = 0 ∧ c.avail > 40 then Except.ok (c.stop, LenSource.slice, false)
        else bound lax c .ipv6Packet .ipv6HeaderPayloadLen 40 (40 + plen)) = r
  rcases r with f | ⟨s, l, i⟩
  · simp only [apply_ite (stepLk lk), stepLk_mk]
  · simp only
    generalize chain g (inherit c.lim l) true (g (c.off + 6)) false (c.off + 40) s = chf
    obtain ⟨ch, fo⟩ := chf
    cases fo <;> simp only [apply_ite (stepLk lk), stepLk_mk]

theorem step_link_macsec (lax : Bool) (g : Mem) (p : Packet) (c : Ctx) (lk : Option LinkR) :
    step lax g (setLk lk p) (.ether 0x88e5) c = stepLk lk (step lax g p (.ether 0x88e5) c) := by
  have hv' : isVlanType 0x88e5 = false := by decide
  simp only [step, hv', if_true, if_false, Bool.false_eq_true, addExt_setLk]
  generalize g c.off = tci
  generalize g (c.off + 1) = slb
  generalize secTagLen (decide (tci / 32 % 2 = 1)) (decide (tci / 8 % 2 = 0 ∧ tci / 4 % 2 = 0)) = hl
  generalize (if tci / 8 % 2 = 0 ∧ tci / 4 % 2 = 0 then slb % 64 - 2 else slb % 64) = plen
  generalize (if slb % 64 = 0 then (Except.ok (c.stop, LenSource.slice, false) : Except Fault (Nat × LenSource × Bool))
    else if c.avail < hl + plen then
      if lax = true then Except.ok (c.stop, LenSource.slice, true)
      else Except.error (mkFault c FaultClass.claimsMore Unit_.macsecPacket (hl + plen))
    else Except.ok (c.off + hl + plen, LenSource.macsecShortLength, false)) = r
  rcases r with f | ⟨s, l, i⟩ <;> simp only [apply_ite (stepLk lk), stepLk_mk]

theorem step_link (lax : Bool) (g : Mem) (p : Packet) (t : Tag) (c : Ctx) (lk : Option LinkR)
    (h1 : t ≠ .eth) (h2 : t ≠ .sll) :
    step lax g (setLk lk p) t c = stepLk lk (step lax g p t c) := by
  cases t with
  | eth => exact absurd rfl h1
  | sll => exact absurd rfl h2
  | done => simp [step, stepLk]
  | ipAny => simp only [step, apply_ite (stepLk lk), stepLk_mk]
  | tp num => simp only [step, setTp_setLk, apply_ite (stepLk lk), stepLk_mk]
  | ether et =>
    by_cases hv : isVlanType et = true
    · simp only [step, hv, if_true, addExt_setLk, apply_ite (stepLk lk), stepLk_mk]
    · by_cases hm : et = 0x88e5
      · subst hm; exact step_link_macsec lax g p c lk
      · simp only [step, hv, hm, if_true, if_false, Bool.false_eq_true, setNet_setLk, apply_ite (stepLk lk), stepLk_mk]
  | ipv4 => exact step_link_ipv4 lax g p c lk
  | ipv6 => exact step_link_ipv6 lax g p c lk
/-- an upper bound on the number of steps that can still follow (`e`: link extensions so far) -/
def rank : Tag → Nat → Nat
  | .done, _ => 0
  | .tp _, _ => 1
  | .ipv4, _ => 2
  | .ipv6, _ => 2
  | .ipAny, _ => 3
  | .ether _, e => 7 - e
  | .eth, _ => 8
  | .sll, _ => 8

/-- what a step does to the rank -/
def Desc (t : Tag) (c : Ctx) (r : StepR) : Prop :=
  r.c.nExt ≤ 3 ∧ (r.fault = none → rank r.next r.c.nExt < rank t c.nExt)

theorem desc_mk (t : Tag) (c : Ctx) (p : Packet) (t' : Tag) (c' : Ctx) (f : Option Fault) :
    Desc t c ⟨p, t', c', f⟩ = (c'.nExt ≤ 3 ∧ (f = none → rank t' c'.nExt < rank t c.nExt)) := rfl

macro "descfin" : tactic => `(tactic| ((repeat' split) <;> (try simp_all [rank]) <;> (try omega)))

theorem step_desc (lax : Bool) (g : Mem) (p : Packet) (t : Tag) (c : Ctx) (h3 : c.nExt ≤ 3) (ht : t ≠ .done) :
    Desc t c (step lax g p t c) := by
  cases t with
  | done => exact absurd rfl ht
  | eth => simp only [step, apply_ite (Desc _ c), desc_mk]; descfin
  | sll => simp only [step, apply_ite (Desc _ c), desc_mk]; descfin
  | ipAny => simp only [step, apply_ite (Desc _ c), desc_mk]; descfin
  | tp num => simp only [step, apply_ite (Desc _ c), desc_mk]; descfin
  | ether et =>
    by_cases hv : isVlanType et = true
    · simp only [step, hv, if_true, apply_ite (Desc _ c), desc_mk]; descfin
    · by_cases hm : et = 0x88e5
      · subst hm
        have hv' : isVlanType 0x88e5 = false := by decide
        simp only [step, hv', if_true, if_false, Bool.false_eq_true]
        generalize g c.off = tci
        generalize g (c.off + 1) = slb
        generalize secTagLen (decide (tci / 32 % 2 = 1)) (decide (tci / 8 % 2 = 0 ∧ tci / 4 % 2 = 0)) = hl
        generalize (if tci / 8 % 2 = 0 ∧ tci / 4 % 2 = 0 then slb % 64 - 2 else slb % 64) = plen
        generalize (if slb % 64 = 0 then (Except.ok (c.stop, LenSource.slice, false) : Except Fault (Nat × LenSource × Bool))
          else if c.avail < hl + plen then
            if lax = true then Except.ok (c.stop, LenSource.slice, true)
            else Except.error (mkFault c FaultClass.claimsMore Unit_.macsecPacket (hl + plen))
          else Except.ok (c.off + hl + plen, LenSource.macsecShortLength, false)) = r
        rcases r with f | ⟨s, l, i⟩ <;> simp only [apply_ite (Desc _ c), desc_mk] <;> descfin
      · simp only [step, hv, hm, if_true, if_false, Bool.false_eq_true, apply_ite (Desc _ c), desc_mk]; descfin
  | ipv4 =>
    simp only [step]
    generalize bound lax c .ipv4Packet .ipv4HeaderTotalLen (g c.off % 16 * 4) (g16 g (c.off + 2)) = r
    rcases r with f | ⟨s, l, i⟩ <;> simp only [apply_ite (Desc _ c), desc_mk] <;> descfin
  | ipv6 =>
    simp only [step]
    generalize g16 g (c.off + 4) = plen
    generalize (if plen = 0 ∧ c.avail > 40 then Except.ok (c.stop, LenSource.slice, false)
          else bound lax c .ipv6Packet .ipv6HeaderPayloadLen 40 (40 + plen)) = r
    rcases r with f | ⟨s, l, i⟩
    · simp only [apply_ite (Desc _ c), desc_mk]; descfin
    · simp only
      generalize chain g (inherit c.lim l) true (g (c.off + 6)) false (c.off + 40) s = chf
      obtain ⟨ch, fo⟩ := chf
      cases fo <;> simp only [apply_ite (Desc _ c), desc_mk] <;> descfin
theorem walkN_done' (lax : Bool) (g : Mem) (n : Nat) (p : Packet) (c : Ctx) : walkN lax g n p .done c = (p, none) := by
  cases n <;> simp [walkN]

theorem rank_zero {t : Tag} {e : Nat} (he : e ≤ 3) (h : rank t e = 0) : t = .done := by
  cases t <;> simp [rank] at h ⊢
  omega

/-- the walk needs no more fuel than its rank: any two sufficient amounts give the same result -/
theorem walkN_fuel (lax : Bool) (g : Mem) (n m : Nat) (p : Packet) (t : Tag) (c : Ctx) (h3 : c.nExt ≤ 3)
    (hn : rank t c.nExt ≤ n) (hm : rank t c.nExt ≤ m) : walkN lax g n p t c = walkN lax g m p t c := by
  induction n generalizing m p t c with
  | zero =>
    have := rank_zero h3 (by omega : rank t c.nExt = 0)
    subst this
    simp [walkN_done']
  | succ n ih =>
    by_cases ht : t = .done
    · subst ht; simp [walkN_done']
    · cases m with
      | zero => exact absurd (rank_zero h3 (by omega : rank t c.nExt = 0)) ht
      | succ m =>
        simp only [walkN, ht, if_false]
        have hd := step_desc lax g p t c h3 ht
        cases hf : (step lax g p t c).fault with
        | some f => rfl
        | none =>
          simp only
          have := hd.2 hf
          exact ih m _ _ _ hd.1 (by omega) (by omega)

/-- from a tag behind the link layer the walk neither reads nor changes the link field -/
theorem walkN_link (lax : Bool) (g : Mem) (n : Nat) (p : Packet) (t : Tag) (c : Ctx) (lk : Option LinkR)
    (h1 : t ≠ .eth) (h2 : t ≠ .sll) (h3 : c.nExt ≤ 3) :
    walkN lax g n (setLk lk p) t c = (setLk lk (walkN lax g n p t c).1, (walkN lax g n p t c).2) := by
  induction n generalizing p t c with
  | zero => simp only [walkN]; split <;> rfl
  | succ n ih =>
    simp only [walkN]
    split
    · rfl
    · rename_i ht
      rw [step_link lax g p t c lk h1 h2]
      have hd := step_desc lax g p t c h3 ht
      cases hf : (step lax g p t c).fault with
      | some f => simp [stepLk, hf]
      | none =>
        simp only [stepLk, hf]
        have hlt := hd.2 hf
        refine ih _ _ _ ?_ ?_ hd.1
        · intro h; rw [h] at hlt; cases t <;> simp [rank] at hlt <;> first | exact h1 rfl | exact h2 rfl | omega
        · intro h; rw [h] at hlt; cases t <;> simp [rank] at hlt <;> first | exact h1 rfl | exact h2 rfl | omega

/-! ### E. starting at an Ethernet II header = starting at its ether type behind it -/

/-- what the Ethernet II start makes of the result of the ether-type start on the bytes behind the
    header: every offset moved by 14, the link is the Ethernet II frame -/
def ethOfEtherType (n : Nat) (r : Packet × Option Fault) : Packet × Option Fault :=
  (setLk (some (.eth2 ⟨0, n⟩)) (shPacket 14 r.1), r.2.map (shFault 14))

theorem walk_eth_eq_ether_shift (lax : Bool) (g : Mem) (n : Nat) (h : 14 ≤ n) :
    walkN lax g maxSteps Packet.empty .eth { off := 0, stop := n, lim := .slice, nExt := 0 } =
      ethOfEtherType n
        (walkN lax (shM 14 g) maxSteps (startPacket (n - 14) (.etherType (g16 g 12))) (.ether (g16 g 12))
          { off := 0, stop := n - 14, lim := .slice, nExt := 0 }) := by
  have hav : ({ off := 0, stop := n, lim := .slice, nExt := 0 } : Ctx).avail = n := by simp [Ctx.avail]
  have h14 : ¬ n < 14 := by omega
  rw [show maxSteps = 11 + 1 from rfl]
  have hstep : step lax g Packet.empty .eth { off := 0, stop := n, lim := .slice, nExt := 0 } =
      ⟨setLink Packet.empty (.eth2 ⟨0, n⟩), .ether (g16 g 12), { off := 0 + 14, stop := n, lim := .slice, nExt := 0 }, none⟩ := by
    simp only [step, hav, h14, if_false]
  have hw : ∀ p c, walkN lax g (11 + 1) p .eth c =
      match (step lax g p .eth c).fault with
      | some f => ((step lax g p .eth c).p, some f)
      | none => walkN lax g 11 (step lax g p .eth c).p (step lax g p .eth c).next (step lax g p .eth c).c := by
    intro p c; rfl
  rw [hw, hstep]
  simp only
  have hc : ({ off := 0 + 14, stop := n, lim := .slice, nExt := 0 } : Ctx) =
      shCtx 14 { off := 0, stop := n - 14, lim := .slice, nExt := 0 } := by
    simp [shCtx]; omega
  have hp : setLink Packet.empty (.eth2 ⟨0, n⟩) =
      setLk (some (.eth2 ⟨0, n⟩)) (shPacket 14 (startPacket (n - 14) (.etherType (g16 g 12)))) := by
    simp [setLink, setLk, shPacket, startPacket, Packet.empty]
  rw [hc, hp, walkN_link _ _ _ _ _ _ _ (by simp) (by simp) (by simp [shCtx]), walkN_shift]
  rw [walkN_fuel lax (shM 14 g) 11 (11 + 1) _ _ _ (by simp) (by simp [rank]) (by simp [rank])]
  rfl
/-- **lax wire-format decoding, Ethernet II start = ether-type start on the bytes behind the header** -/
theorem decodeLax_eth_eq_ether_type (g : Mem) (n : Nat) (h : 14 ≤ n) :
    decodeLax .eth g n = ethOfEtherType n (decodeLax (.etherType (g16 g 12)) (shM 14 g) (n - 14)) :=
  walk_eth_eq_ether_shift true g n h

/-- **strict wire-format decoding, Ethernet II start = ether-type start on the bytes behind the header**:
    the same verdict; the packet with every offset moved by 14 and the Ethernet II frame as link; the
    fault with its offset moved by 14 -/
theorem decode_eth_eq_ether_type (g : Mem) (n : Nat) (h : 14 ≤ n) :
    decode .eth g n =
      match decode (.etherType (g16 g 12)) (shM 14 g) (n - 14) with
      | .ok p => .ok (setLk (some (.eth2 ⟨0, n⟩)) (shPacket 14 p))
      | .error f => .error (shFault 14 f) := by
  unfold decode
  rw [show startTag false .eth = .eth from rfl, show startPacket n .eth = Packet.empty from rfl,
    walk_eth_eq_ether_shift false g n h]
  rw [show startTag false (.etherType (g16 g 12)) = .ether (g16 g 12) from rfl]
  generalize walkN false (shM 14 g) maxSteps (startPacket (n - 14) (.etherType (g16 g 12))) (.ether (g16 g 12))
    { off := 0, stop := n - 14, lim := .slice, nExt := 0 } = r
  obtain ⟨p, fo⟩ := r
  cases fo <;> rfl

/-- fewer than 14 bytes: the Ethernet II start faults at the Ethernet II header (strict and lax) -/
theorem walk_eth_short (lax : Bool) (g : Mem) (n : Nat) (h : n < 14) :
    walkN lax g maxSteps Packet.empty .eth { off := 0, stop := n, lim := .slice, nExt := 0 } =
      (Packet.empty, some (mkFault { off := 0, stop := n, lim := .slice, nExt := 0 } .cutShort .eth 14)) := by
  have hav : ({ off := 0, stop := n, lim := .slice, nExt := 0 } : Ctx).avail = n := by simp [Ctx.avail]
  have hstep : step lax g Packet.empty .eth { off := 0, stop := n, lim := .slice, nExt := 0 } =
      ⟨Packet.empty, .done, { off := 0, stop := n, lim := .slice, nExt := 0 },
        some (mkFault { off := 0, stop := n, lim := .slice, nExt := 0 } .cutShort .eth 14)⟩ := by
    simp only [step, hav, h, if_true]
  have hw : ∀ p c, walkN lax g maxSteps p .eth c =
      match (step lax g p .eth c).fault with
      | some f => ((step lax g p .eth c).p, some f)
      | none => walkN lax g 11 (step lax g p .eth c).p (step lax g p .eth c).next (step lax g p .eth c).c := by
    intro p c; rfl
  rw [hw, hstep]

theorem decode_eth_short (g : Mem) (n : Nat) (h : n < 14) :
    decode .eth g n = .error (mkFault { off := 0, stop := n, lim := .slice, nExt := 0 } .cutShort .eth 14) := by
  unfold decode
  rw [show startTag false .eth = .eth from rfl, show startPacket n .eth = Packet.empty from rfl,
    walk_eth_short false g n h]
  rfl

end EpModel.Spec
