import EpModel.Spec.Decode
/-
  Placement independence of the wire-format walk (used by C06).

  `shM k g` is the memory `g` seen from offset `k`.  Every window the walk hands out, every context
  and every fault carries absolute offsets; `shW`, `shPacket`, `shCtx`, `shFault` add `k` to exactly
  those.  `step_shift` / `walkN_shift`: the walk over the shifted memory, shifted afterwards, is the
  walk over the original memory started at the shifted context.
-/
namespace EpModel.Spec
set_option linter.unusedSimpArgs false
open EpModel EpModel.Dec

/-! ### A. shift operators -/

/-- the memory seen from offset `k` -/
def shM (k : Nat) (g : Mem) : Mem := fun i => g (k + i)

def shW (k : Nat) (w : Win) : Win := ⟨k + w.o, w.l⟩

def shLink (k : Nat) : LinkR → LinkR
  | .eth2 w => .eth2 (shW k w)
  | .sll w => .sll (shW k w)
  | .etherPayload et w => .etherPayload et (shW k w)

def shExt (k : Nat) : ExtR → ExtR
  | .vlan w => .vlan (shW k w)
  | .macsec hdr pl src inc => .macsec (shW k hdr) (shW k pl) src inc

def shSlots (k : Nat) (s : ExtSlots) : ExtSlots :=
  { hbh := s.hbh.map (shW k), dest := s.dest.map (shW k), routing := s.routing.map (shW k),
    finalDest := s.finalDest.map (shW k), frag := s.frag.map (shW k), auth := s.auth.map (shW k) }

def shPl (k : Nat) (x : IpPl) : IpPl :=
  { num := x.num, frag := x.frag, src := x.src, w := shW k x.w, inc := x.inc }

def shIp (k : Nat) (r : IpR) : IpR :=
  { v4 := r.v4, hdr := shW k r.hdr, auth := r.auth.map (shW k), exts := shW k r.exts, first := r.first,
    slots := shSlots k r.slots, pl := shPl k r.pl }

def shNet (k : Nat) : NetR → NetR
  | .arp w => .arp (shW k w)
  | .ip r => .ip (shIp k r)

def shTp (k : Nat) : TpR → TpR
  | .udp w => .udp (shW k w)
  | .tcp w hl => .tcp (shW k w) hl
  | .icmp4 w => .icmp4 (shW k w)
  | .icmp6 w => .icmp6 (shW k w)

/-- every window of a packet moved by `k`; nothing else changes -/
def shPacket (k : Nat) (p : Packet) : Packet :=
  { link := p.link.map (shLink k), exts := p.exts.map (shExt k), net := p.net.map (shNet k),
    tp := p.tp.map (shTp k), stop := p.stop }

def shCtx (k : Nat) (c : Ctx) : Ctx := { off := k + c.off, stop := k + c.stop, lim := c.lim, nExt := c.nExt }

def shFault (k : Nat) (f : Fault) : Fault :=
  { cls := f.cls, unit := f.unit, off := k + f.off, avail := f.avail, need := f.need, lim := f.lim,
    value := f.value }

def shStepR (k : Nat) (r : StepR) : StepR :=
  { p := shPacket k r.p, next := r.next, c := shCtx k r.c, fault := r.fault.map (shFault k) }

def shChain (k : Nat) (r : Chain × Option Fault) : Chain × Option Fault :=
  ({ next := r.1.next, frag := r.1.frag, off := k + r.1.off }, r.2.map (shFault k))

@[simp] theorem shM_apply (k : Nat) (g : Mem) (i : Nat) : shM k g i = g (k + i) := rfl

@[simp] theorem g16_shM (k : Nat) (g : Mem) (i : Nat) : g16 (shM k g) i = g16 g (k + i) := by
  simp [g16, shM, Nat.add_assoc]

@[simp] theorem shCtx_avail (k : Nat) (c : Ctx) : (shCtx k c).avail = c.avail := by
  simp [shCtx, Ctx.avail, Nat.add_sub_add_left]

@[simp] theorem shCtx_off (k : Nat) (c : Ctx) : (shCtx k c).off = k + c.off := rfl
@[simp] theorem shCtx_stop (k : Nat) (c : Ctx) : (shCtx k c).stop = k + c.stop := rfl
@[simp] theorem shCtx_lim (k : Nat) (c : Ctx) : (shCtx k c).lim = c.lim := rfl
@[simp] theorem shCtx_nExt (k : Nat) (c : Ctx) : (shCtx k c).nExt = c.nExt := rfl

theorem shFault_mkFault (k : Nat) (c : Ctx) (cls : FaultClass) (u : Unit_) (need value : Nat) :
    shFault k (mkFault c cls u need value) = mkFault (shCtx k c) cls u need value := by
  simp [shFault, mkFault]

theorem shPacket_setLink (k : Nat) (p : Packet) (x : LinkR) :
    shPacket k (setLink p x) = setLink (shPacket k p) (shLink k x) := by
  simp [shPacket, setLink]

theorem shPacket_addExt (k : Nat) (p : Packet) (x : ExtR) :
    shPacket k (addExt p x) = addExt (shPacket k p) (shExt k x) := by
  simp [shPacket, addExt]

theorem shPacket_setNet (k : Nat) (p : Packet) (x : NetR) :
    shPacket k (setNet p x) = setNet (shPacket k p) (shNet k x) := by
  simp [shPacket, setNet]

theorem shPacket_setTp (k : Nat) (p : Packet) (x : TpR) :
    shPacket k (setTp p x) = setTp (shPacket k p) (shTp k x) := by
  simp [shPacket, setTp]

@[simp] theorem shPacket_empty (k : Nat) : shPacket k Packet.empty = Packet.empty := rfl

/-! ### B. fragmentation flags, the payload rule and the IPv6 extension chain -/

@[simp] theorem v4Fragmented_shM (k : Nat) (g : Mem) (o : Nat) :
    v4Fragmented (shM k g) o = v4Fragmented g (k + o) := by
  simp [v4Fragmented, Nat.add_assoc]

@[simp] theorem v6Fragmented_shM (k : Nat) (g : Mem) (o : Nat) :
    v6Fragmented (shM k g) o = v6Fragmented g (k + o) := by
  simp [v6Fragmented, Nat.add_assoc]

/-- what `bound` returns, shifted -/
def shBound (k : Nat) : Except Fault (Nat × LenSource × Bool) → Except Fault (Nat × LenSource × Bool)
  | .error f => .error (shFault k f)
  | .ok (s, l, i) => .ok (k + s, l, i)

theorem bound_shift (k : Nat) (lax : Bool) (c : Ctx) (u : Unit_) (field : LenSource) (hl total : Nat) :
    bound lax (shCtx k c) u field hl total = shBound k (bound lax c u field hl total) := by
  unfold bound
  simp only [shCtx_avail, shCtx_off, shCtx_stop]
  split
  · split <;> simp [shBound, shFault]
  · split
    · split <;> simp [shBound, shFault_mkFault]
    · simp [shBound, Nat.add_assoc]

theorem chain_shift' (k : Nat) (g g' : Mem) (hg : ∀ i, g' i = g (k + i)) (lim : LenSource) (first : Bool)
    (nh : Nat) (frag : Bool) (o stop : Nat) :
    chain g lim first nh frag (k + o) (k + stop) = shChain k (chain g' lim first nh frag o stop) := by
  have h6 : ∀ o, v6Fragmented g' o = v6Fragmented g (k + o) := by
    intro o; simp [v6Fragmented, g16, hg, Nat.add_assoc]
  fun_induction chain g' lim first nh frag o stop <;>
    (conv => lhs; unfold chain) <;>
    simp_all +zetaDelta [mkFault, Ctx.avail, Nat.add_sub_add_left, Nat.add_assoc] <;>
    (repeat' split) <;> simp_all [shChain, shFault] <;> (try intros) <;> omega

theorem chain_shift (k : Nat) (g : Mem) (lim : LenSource) (first : Bool) (nh : Nat) (frag : Bool)
    (o stop : Nat) :
    chain g lim first nh frag (k + o) (k + stop) = shChain k (chain (shM k g) lim first nh frag o stop) :=
  chain_shift' k g (shM k g) (fun _ => rfl) lim first nh frag o stop

end EpModel.Spec
