import EpModel.Spec.Decode
/-
  Placement independence of the wire-format walk (used by C06).

  `shM k g` is the memory `g` seen from offset `k`.  Every window the walk hands out, every context
  and every fault carries absolute offsets; `shW`, `shPacket`, `shCtx`, `shFault` add `k` to exactly
  those.  `step_shift` / `walkN_shift`: the walk over the shifted memory, shifted afterwards, is the
  walk over the original memory started at the shifted context.
-/
namespace EpModel.Spec
set_option linter.unusedSimpArgs false
open EpModel EpModel.Dec

/-! ### A. shift operators -/

/-- the memory seen from offset `k` -/
def shM (k : Nat) (g : Mem) : Mem := fun i => g (k + i)

def shW (k : Nat) (w : Win) : Win := ⟨k + w.o, w.l⟩

def shLink (k : Nat) : LinkR → LinkR
  | .eth2 w => .eth2 (shW k w)
  | .sll w => .sll (shW k w)
  | .etherPayload et w => .etherPayload et (shW k w)

def shExt (k : Nat) : ExtR → ExtR
  | .vlan w => .vlan (shW k w)
  | .macsec hdr pl src inc => .macsec (shW k hdr) (shW k pl) src inc

def shSlots (k : Nat) (s : ExtSlots) : ExtSlots :=
  { hbh := s.hbh.map (shW k), dest := s.dest.map (shW k), routing := s.routing.map (shW k),
    finalDest := s.finalDest.map (shW k), frag := s.frag.map (shW k), auth := s.auth.map (shW k) }

def shPl (k : Nat) (x : IpPl) : IpPl :=
  { num := x.num, frag := x.frag, src := x.src, w := shW k x.w, inc := x.inc }

def shIp (k : Nat) (r : IpR) : IpR :=
  { v4 := r.v4, hdr := shW k r.hdr, auth := r.auth.map (shW k), exts := shW k r.exts, first := r.first,
    slots := shSlots k r.slots, pl := shPl k r.pl }

def shNet (k : Nat) : NetR → NetR
  | .arp w => .arp (shW k w)
  | .ip r => .ip (shIp k r)

def shTp (k : Nat) : TpR → TpR
  | .udp w => .udp (shW k w)
  | .tcp w hl => .tcp (shW k w) hl
  | .icmp4 w => .icmp4 (shW k w)
  | .icmp6 w => .icmp6 (shW k w)

/-- every window of a packet moved by `k`; nothing else changes -/
def shPacket (k : Nat) (p : Packet) : Packet :=
  { link := p.link.map (shLink k), exts := p.exts.map (shExt k), net := p.net.map (shNet k),
    tp := p.tp.map (shTp k), stop := p.stop }

def shCtx (k : Nat) (c : Ctx) : Ctx := { off := k + c.off, stop := k + c.stop, lim := c.lim, nExt := c.nExt }

def shFault (k : Nat) (f : Fault) : Fault :=
  { cls := f.cls, unit := f.unit, off := k + f.off, avail := f.avail, need := f.need, lim := f.lim,
    value := f.value }

def shStepR (k : Nat) (r : StepR) : StepR :=
  { p := shPacket k r.p, next := r.next, c := shCtx k r.c, fault := r.fault.map (shFault k) }

def shChain (k : Nat) (r : Chain × Option Fault) : Chain × Option Fault :=
  ({ next := r.1.next, frag := r.1.frag, off := k + r.1.off }, r.2.map (shFault k))

@[simp] theorem shM_apply (k : Nat) (g : Mem) (i : Nat) : shM k g i = g (k + i) := rfl

@[simp] theorem g16_shM (k : Nat) (g : Mem) (i : Nat) : g16 (shM k g) i = g16 g (k + i) := by
  simp [g16, shM, Nat.add_assoc]

@[simp] theorem shCtx_avail (k : Nat) (c : Ctx) : (shCtx k c).avail = c.avail := by
  simp [shCtx, Ctx.avail, Nat.add_sub_add_left]

@[simp] theorem shCtx_off (k : Nat) (c : Ctx) : (shCtx k c).off = k + c.off := rfl
@[simp] theorem shCtx_stop (k : Nat) (c : Ctx) : (shCtx k c).stop = k + c.stop := rfl
@[simp] theorem shCtx_lim (k : Nat) (c : Ctx) : (shCtx k c).lim = c.lim := rfl
@[simp] theorem shCtx_nExt (k : Nat) (c : Ctx) : (shCtx k c).nExt = c.nExt := rfl

theorem shFault_mkFault (k : Nat) (c : Ctx) (cls : FaultClass) (u : Unit_) (need value : Nat) :
    shFault k (mkFault c cls u need value) = mkFault (shCtx k c) cls u need value := by
  simp [shFault, mkFault]

theorem shPacket_setLink (k : Nat) (p : Packet) (x : LinkR) :
    shPacket k (setLink p x) = setLink (shPacket k p) (shLink k x) := by
  simp [shPacket, setLink]

theorem shPacket_addExt (k : Nat) (p : Packet) (x : ExtR) :
    shPacket k (addExt p x) = addExt (shPacket k p) (shExt k x) := by
  simp [shPacket, addExt]

theorem shPacket_setNet (k : Nat) (p : Packet) (x : NetR) :
    shPacket k (setNet p x) = setNet (shPacket k p) (shNet k x) := by
  simp [shPacket, setNet]

theorem shPacket_setTp (k : Nat) (p : Packet) (x : TpR) :
    shPacket k (setTp p x) = setTp (shPacket k p) (shTp k x) := by
  simp [shPacket, setTp]

@[simp] theorem shPacket_empty (k : Nat) : shPacket k Packet.empty = Packet.empty := rfl

/-! ### B. fragmentation flags, the payload rule and the IPv6 extension chain -/

@[simp] theorem v4Fragmented_shM (k : Nat) (g : Mem) (o : Nat) :
    v4Fragmented (shM k g) o = v4Fragmented g (k + o) := by
  simp [v4Fragmented, Nat.add_assoc]

@[simp] theorem v6Fragmented_shM (k : Nat) (g : Mem) (o : Nat) :
    v6Fragmented (shM k g) o = v6Fragmented g (k + o) := by
  simp [v6Fragmented, Nat.add_assoc]

/-- what `bound` returns, shifted -/
def shBound (k : Nat) : Except Fault (Nat × LenSource × Bool) → Except Fault (Nat × LenSource × Bool)
  | .error f => .error (shFault k f)
  | .ok (s, l, i) => .ok (k + s, l, i)

theorem bound_shift (k : Nat) (lax : Bool) (c : Ctx) (u : Unit_) (field : LenSource) (hl total : Nat) :
    bound lax (shCtx k c) u field hl total = shBound k (bound lax c u field hl total) := by
  unfold bound
  simp only [shCtx_avail, shCtx_off, shCtx_stop]
  split
  · split <;> simp [shBound, shFault]
  · split
    · split <;> simp [shBound, shFault_mkFault]
    · simp [shBound, Nat.add_assoc]

theorem chain_shift' (k : Nat) (g g' : Mem) (hg : ∀ i, g' i = g (k + i)) (lim : LenSource) (first : Bool)
    (nh : Nat) (frag : Bool) (o stop : Nat) :
    chain g lim first nh frag (k + o) (k + stop) = shChain k (chain g' lim first nh frag o stop) := by
  have h6 : ∀ o, v6Fragmented g' o = v6Fragmented g (k + o) := by
    intro o; simp [v6Fragmented, g16, hg, Nat.add_assoc]
  fun_induction chain g' lim first nh frag o stop <;>
    (conv => lhs; unfold chain) <;>
    simp_all +zetaDelta [mkFault, Ctx.avail, Nat.add_sub_add_left, Nat.add_assoc] <;>
    (repeat' split) <;> simp_all [shChain, shFault] <;> (try intros) <;> omega

theorem chain_shift (k : Nat) (g : Mem) (lim : LenSource) (first : Bool) (nh : Nat) (frag : Bool)
    (o stop : Nat) :
    chain g lim first nh frag (k + o) (k + stop) = shChain k (chain (shM k g) lim first nh frag o stop) :=
  chain_shift' k g (shM k g) (fun _ => rfl) lim first nh frag o stop

/-! ### C. one step -/

theorem g16_sh (k : Nat) (g g' : Mem) (hg : ∀ i, g' i = g (k + i)) (i : Nat) : g16 g' i = g16 g (k + i) := by
  simp [g16, hg, Nat.add_assoc]

theorem v4Fragmented_sh (k : Nat) (g g' : Mem) (hg : ∀ i, g' i = g (k + i)) (o : Nat) :
    v4Fragmented g' o = v4Fragmented g (k + o) := by
  simp [v4Fragmented, g16_sh k g g' hg, Nat.add_assoc]

/-- `C` is the context `c` moved by `k`, stated by equations: rewriting with them is a proper `simp`
    rewrite (a definitional unfolding of `shCtx` inside the conditions of `step` would leave stale
    `Decidable` instances behind, and `split`/`generalize` would no longer see both sides alike) -/
structure ShC (k : Nat) (c C : Ctx) : Prop where
  off : C.off = k + c.off
  stop : C.stop = k + c.stop
  lim : C.lim = c.lim
  nExt : C.nExt = c.nExt

theorem ShC.avail {k : Nat} {c C : Ctx} (h : ShC k c C) : C.avail = c.avail := by
  simp [Ctx.avail, h.off, h.stop, Nat.add_sub_add_left]

theorem ShC.eq {k : Nat} {c C : Ctx} (h : ShC k c C) : C = shCtx k c := by
  obtain ⟨h1, h2, h3, h4⟩ := h
  cases C; cases c; simp_all [shCtx]

theorem shC_shCtx (k : Nat) (c : Ctx) : ShC k c (shCtx k c) := ⟨rfl, rfl, rfl, rfl⟩

theorem avail_mk (a b : Nat) (l : LenSource) (n : Nat) : (Ctx.mk a b l n).avail = b - a := by
  simp [Ctx.avail]

macro "shclose" : tactic =>
  `(tactic| simp_all [shStepR, shFault, mkFault, Ctx.avail, Nat.add_sub_add_left, shPacket_setLink,
      shPacket_setTp, shPacket_setNet, shPacket_addExt, shLink, shTp, shNet, shExt, shW, shCtx, shIp, shPl,
      shSlots, ExtSlots.none, Nat.add_assoc])

section
variable (k : Nat) (g g' : Mem) (hg : ∀ i, g' i = g (k + i)) (lax : Bool) (p : Packet) (c C : Ctx)
  (hc : ShC k c C)
include hg hc

theorem step_shift_eth : step lax g (shPacket k p) .eth C = shStepR k (step lax g' p .eth c) := by
  have hC := hc.eq
  simp only [step, hc.off, hc.stop, hc.lim, hc.nExt, hc.avail, hg, g16_sh k g g' hg, Nat.add_assoc]
  repeat' split
  all_goals shclose

theorem step_shift_sll : step lax g (shPacket k p) .sll C = shStepR k (step lax g' p .sll c) := by
  have hC := hc.eq
  simp only [step, hc.off, hc.stop, hc.lim, hc.nExt, hc.avail, hg, g16_sh k g g' hg, Nat.add_assoc]
  repeat' split
  all_goals shclose

theorem step_shift_ipAny : step lax g (shPacket k p) .ipAny C = shStepR k (step lax g' p .ipAny c) := by
  have hC := hc.eq
  simp only [step, hc.off, hc.stop, hc.lim, hc.nExt, hc.avail, hg, g16_sh k g g' hg, Nat.add_assoc]
  repeat' split
  all_goals shclose

theorem step_shift_tp (num : Nat) :
    step lax g (shPacket k p) (.tp num) C = shStepR k (step lax g' p (.tp num) c) := by
  have hC := hc.eq
  simp only [step, hc.off, hc.stop, hc.lim, hc.nExt, hc.avail, hg, g16_sh k g g' hg, Nat.add_assoc]
  repeat' split
  all_goals shclose

theorem step_shift_macsec :
    step lax g (shPacket k p) (.ether 0x88e5) C = shStepR k (step lax g' p (.ether 0x88e5) c) := by
  have hv : isVlanType 0x88e5 = false := by decide
  have hC := hc.eq
  simp only [step, hv, if_true, if_false, Bool.false_eq_true, hc.off, hc.stop, hc.lim, hc.nExt, hc.avail, hg,
    g16_sh k g g' hg, Nat.add_assoc]
  generalize g (k + c.off) = tci
  generalize g (k + (c.off + 1)) = slb
  have h6' : ∀ a b, 6 ≤ secTagLen a b := by intro a b; unfold secTagLen; omega
  generalize hhl : secTagLen (decide (tci / 32 % 2 = 1)) (decide (tci / 8 % 2 = 0 ∧ tci / 4 % 2 = 0)) = hl
  have hl6 := h6' (decide (tci / 32 % 2 = 1)) (decide (tci / 8 % 2 = 0 ∧ tci / 4 % 2 = 0))
  rw [hhl] at hl6
  -- the ether type of an unmodified frame sits in the last two octets of the SecTAG
  have hsub : k + (c.off + hl) - 2 = k + (c.off + hl - 2) := by omega
  clear hhl h6'
  generalize (if tci / 8 % 2 = 0 ∧ tci / 4 % 2 = 0 then slb % 64 - 2 else slb % 64) = plen
  by_cases hs0 : slb % 64 = 0 <;> by_cases hlt : c.avail < hl + plen <;> cases lax <;>
    simp only [hs0, hlt, if_true, if_false, Bool.false_eq_true] <;> (repeat' split) <;> shclose

theorem step_shift_ether (et : Nat) :
    step lax g (shPacket k p) (.ether et) C = shStepR k (step lax g' p (.ether et) c) := by
  by_cases hv : isVlanType et = true
  · have hC := hc.eq
    simp only [step, hv, if_true, hc.off, hc.stop, hc.lim, hc.nExt, hc.avail, hg, g16_sh k g g' hg, Nat.add_assoc]
    repeat' split
    all_goals shclose
  · by_cases hm : et = 0x88e5
    · subst hm; exact step_shift_macsec k g g' hg lax p c C hc
    · have hC := hc.eq
      simp only [step, hv, hm, if_true, if_false, Bool.false_eq_true, hc.off, hc.stop, hc.lim, hc.nExt, hc.avail,
        hg, g16_sh k g g' hg, Nat.add_assoc]
      repeat' split
      all_goals shclose

theorem step_shift_ipv4 : step lax g (shPacket k p) .ipv4 C = shStepR k (step lax g' p .ipv4 c) := by
  have hC := hc.eq
  have hb : ∀ u f hl total, bound lax C u f hl total = shBound k (bound lax c u f hl total) := by
    intro u f hl total; rw [hC]; exact bound_shift k lax c u f hl total
  simp only [step, hc.off, hc.stop, hc.lim, hc.nExt, hc.avail, hg, g16_sh k g g' hg, v4Fragmented_sh k g g' hg, hb,
    Nat.add_assoc]
  generalize g (k + c.off) = b0
  generalize g16 g (k + (c.off + 2)) = tl
  generalize g (k + (c.off + 9)) = proto
  generalize v4Fragmented g (k + c.off) = fr
  generalize bound lax c Unit_.ipv4Packet LenSource.ipv4HeaderTotalLen (b0 % 16 * 4) tl = r
  rcases r with f | ⟨s, l, i⟩
  · simp only [shBound]
    repeat' split
    all_goals shclose
  · simp only [shBound, avail_mk, Nat.add_sub_add_left, Nat.add_assoc]
    generalize b0 % 16 * 4 = hl
    generalize g (k + (c.off + (hl + 1))) = alb
    generalize g (k + (c.off + hl)) = nh
    repeat' split
    all_goals shclose

theorem step_shift_ipv6 : step lax g (shPacket k p) .ipv6 C = shStepR k (step lax g' p .ipv6 c) := by
  have hC := hc.eq
  have hb : ∀ u f hl total, bound lax C u f hl total = shBound k (bound lax c u f hl total) := by
    intro u f hl total; rw [hC]; exact bound_shift k lax c u f hl total
  have hch : ∀ lim first nh frag o stop, chain g lim first nh frag (k + o) (k + stop) =
      shChain k (chain g' lim first nh frag o stop) := chain_shift' k g g' hg
  simp only [step, hc.off, hc.stop, hc.lim, hc.nExt, hc.avail, hg, g16_sh k g g' hg, hb, Nat.add_assoc]
  generalize g (k + c.off) = b0
  generalize g16 g (k + (c.off + 4)) = plen
  generalize g (k + (c.off + 6)) = nh
  by_cases h40 : c.avail < 40
  · simp only [h40, if_true]; shclose
  · by_cases hver : b0 / 16 ≠ 6
    · simp only [h40, hver, if_true, if_false]; shclose
    · simp only [h40, hver, if_true, if_false]
      by_cases hz : plen = 0 ∧ c.avail > 40
      · simp only [hz, and_self, if_true, hch]
        generalize chain g' (inherit c.lim LenSource.slice) true nh false (c.off + 40) c.stop = chf
        obtain ⟨⟨nx, fr, o'⟩, fo⟩ := chf
        cases fo <;> simp only [shChain, Option.map] <;> shclose <;> cases fr <;> rfl
      · simp only [hz, if_false]
        generalize bound lax c Unit_.ipv6Packet LenSource.ipv6HeaderPayloadLen 40 (40 + plen) = r
        rcases r with f | ⟨s, l, i⟩
        · simp only [shBound]; shclose
        · simp only [shBound, hch]
          generalize chain g' (inherit c.lim l) true nh false (c.off + 40) s = chf
          obtain ⟨⟨nx, fr, o'⟩, fo⟩ := chf
          cases fo <;> simp only [shChain, Option.map] <;> shclose <;> cases fr <;> rfl

/-- one step of the walk commutes with the shift -/
theorem step_shift_gen (t : Tag) : step lax g (shPacket k p) t C = shStepR k (step lax g' p t c) := by
  cases t with
  | done => have hC := hc.eq; simp [step, shStepR, hC]
  | eth => exact step_shift_eth k g g' hg lax p c C hc
  | sll => exact step_shift_sll k g g' hg lax p c C hc
  | ether et => exact step_shift_ether k g g' hg lax p c C hc et
  | ipAny => exact step_shift_ipAny k g g' hg lax p c C hc
  | ipv4 => exact step_shift_ipv4 k g g' hg lax p c C hc
  | ipv6 => exact step_shift_ipv6 k g g' hg lax p c C hc
  | tp num => exact step_shift_tp k g g' hg lax p c C hc num

end

/-- **one step is placement independent**: the step over the memory seen from offset `k`, with every
    offset of its outcome moved by `k`, is the step over the original memory at the moved context -/
theorem step_shift (k : Nat) (lax : Bool) (g : Mem) (p : Packet) (t : Tag) (c : Ctx) :
    step lax g (shPacket k p) t (shCtx k c) = shStepR k (step lax (shM k g) p t c) :=
  step_shift_gen k g (shM k g) (fun _ => rfl) lax p c (shCtx k c) (shC_shCtx k c) t

end EpModel.Spec
