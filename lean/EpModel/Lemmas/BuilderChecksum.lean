import EpModel.Lemmas.Builder
import EpModel.Props.C09
/- Helper lemmas for C10: the protocol checksum chains of the builder are RFC 1071 checksums (via C09). -/
namespace EpModel.Lemmas.Builder
open EpModel EpModel.Codec EpModel.CodecNet EpModel.Builder EpModel.Checksum EpModel.Spec
open EpModel.Lemmas.Checksum

/-- an `add_2bytes` / `add_4bytes` / `add_8bytes` call is `add_slice` of the same bytes -/
theorem add_eq_slice (s : Nat) (p : Bytes) (h : p.length = 2 ∨ p.length = 4 ∨ p.length = 8) :
    addCarry 64 s (leVal p) = addSlice64 s p := by
  match p, h with
  | [a, b], _ =>
    rw [addSlice64]; simp [tail64, add2_64, sub]
  | [a, b, c, d], _ =>
    rw [addSlice64]; simp [tail64, add4_64]
  | [a, b, c, d, e, f, g, i], _ =>
    rw [addSlice64]; simp [add8_64, addSlice64_nil]
  | [], h | [_], h | [_, _, _], h | [_, _, _, _, _], h | [_, _, _, _, _, _], h
  | [_, _, _, _, _, _, _], h => simp at h
  | _ :: _ :: _ :: _ :: _ :: _ :: _ :: _ :: _ :: _, h => simp at h

def PartOk (p : Bytes) : Prop := p.length = 2 ∨ p.length = 4 ∨ p.length = 8

theorem addParts_eq_foldl (parts : List Bytes) (s : Nat) (h : ∀ p ∈ parts, PartOk p) :
    addParts s parts = parts.foldl addSlice64 s := by
  induction parts generalizing s with
  | nil => rfl
  | cons p ps ih =>
    simp only [addParts, List.foldl_cons]
    rw [add_eq_slice s p (h p (by simp))]
    exact ih _ (fun q hq => h q (by simp [hq]))

theorem partOk_even {p : Bytes} (h : PartOk p) : p.length % 2 = 0 := by
  rcases h with h | h | h <;> omega

/-- a chain of fixed-size adds followed by one slice: the RFC 1071 checksum of the concatenation -/
theorem chain_eq (parts : List Bytes) (last : Bytes) (h : ∀ p ∈ parts, PartOk p) :
    swap16 (onesComplement64 (addSlice64 (addParts 0 parts) last)) = Spec.checksum (parts.flatten ++ last) := by
  rw [addParts_eq_foldl parts 0 h, ← EpModel.Props.C09.parts_even parts last (fun p hp => partOk_even (h p hp))]
  simp [List.foldl_append]

/-- … followed by two slices, the first of even length (TCP: options, payload) -/
theorem chain_eq2 (parts : List Bytes) (mid last : Bytes) (h : ∀ p ∈ parts, PartOk p) (hm : mid.length % 2 = 0) :
    swap16 (onesComplement64 (addSlice64 (addSlice64 (addParts 0 parts) mid) last))
      = Spec.checksum (parts.flatten ++ mid ++ last) := by
  rw [addParts_eq_foldl parts 0 h]
  have := EpModel.Props.C09.parts_even (parts ++ [mid]) last (by
    intro p hp
    simp only [List.mem_append, List.mem_singleton] at hp
    rcases hp with hp | hp
    · exact partOk_even (h p hp)
    · rw [hp]; exact hm)
  simp only [List.foldl_append, List.foldl_cons, List.foldl_nil, List.flatten_append, List.flatten_cons,
    List.flatten_nil, List.append_nil] at this
  exact this

theorem beWords_append_even : ∀ (xs ys : Bytes), xs.length % 2 = 0 → beWords (xs ++ ys) = beWords xs + beWords ys
  | [], ys, _ => by simp [beWords]
  | [a], ys, h => by simp at h
  | a :: b :: r, ys, h => by
    have ih := beWords_append_even r ys (by simp at h; omega)
    simp only [List.cons_append, beWords, ih]; omega

theorem checksum_congr (a b : Bytes) (h : beWords a = beWords b) : Spec.checksum a = Spec.checksum b := by
  unfold Spec.checksum; rw [ocSum_eq_fold, ocSum_eq_fold, h]

/-- a zero 16 bit word at an even offset does not change the checksum (the checksum field itself) -/
theorem checksum_insert_zero (a b : Bytes) (ha : a.length % 2 = 0) :
    Spec.checksum (a ++ [0, 0] ++ b) = Spec.checksum (a ++ b) := by
  apply checksum_congr
  rw [List.append_assoc, beWords_append_even a _ ha, beWords_append_even a _ ha]
  simp [beWords]


theorem swap16_noZero (s : Nat) :
    swap16 (onesComplementNoZero64 s) = noZero (swap16 (onesComplement64 s)) := by
  have hb : onesComplement64 s ≤ 65535 := by unfold onesComplement64; simp only; omega
  unfold onesComplementNoZero64
  generalize onesComplement64 s = v at hb
  by_cases hv : v = 0
  · subst hv; decide
  · have h1 : swap16 v ≠ 0 := by unfold swap16; omega
    simp [noZero, hv, h1]

theorem split16_ok (v : Bytes) (h : v.length = 16) : ∀ p ∈ split16 v, PartOk p := by
  intro p hp
  simp only [split16, List.mem_cons, List.not_mem_nil, or_false] at hp
  rcases hp with hp | hp <;> rw [hp] <;> simp [PartOk, h]

theorem split16_flatten (v : Bytes) : (split16 v).flatten = v := by simp [split16]

theorem split16_flatten_app (a : Bytes) (rest : List Bytes) :
    (split16 a ++ rest).flatten = a ++ rest.flatten := by
  simp only [split16, List.cons_append, List.nil_append, List.flatten_cons]
  rw [← List.append_assoc, List.take_append_drop]

theorem enc16_ok (n : Nat) : PartOk (enc16 n) := .inl rfl
theorem enc32_ok (n : Nat) : PartOk (enc32 n) := .inr (.inl rfl)

/-- pseudo header words the crate adds for IPv4 / IPv6 (the IPv6 form has the same 16 bit words as
    RFC 8200 8.1: the upper half of the 32 bit length and the three zero bytes add nothing) -/
def pseudo4 (ip : Ipv4Header) (num len : Nat) : Bytes := ip.source ++ ip.destination ++ [0, u8 num] ++ enc16 len

theorem udp4_words (h : Udp) (ip : Ipv4Header) (p : Bytes) (hs : ip.source.length = 4)
    (hd : ip.destination.length = 4) :
    ck4 (.udp h) ip p
      = noZero (Spec.checksum (ip.source ++ ip.destination ++ [0, 17] ++ enc16 h.len
                                ++ (enc16 h.sp ++ enc16 h.dp ++ enc16 h.len) ++ p)) := by
  simp only [ck4, udpPostIp, swap16_noZero]
  rw [chain_eq]
  · simp
  · simp [PartOk, hs, hd]

/-- UDP over IPv4 in header-byte form: the stored value is the RFC 768 checksum over pseudo header,
    UDP header with a zero checksum field, and payload (0 transmitted as 0xffff). -/
theorem udp4_bytes (h : Udp) (ip : Ipv4Header) (p : Bytes) (hs : ip.source.length = 4)
    (hd : ip.destination.length = 4) :
    ck4 (.udp h) ip p
      = noZero (Spec.checksum (ip.source ++ ip.destination ++ [0, 17] ++ enc16 h.len
                                ++ Udp.toBytes { sp := h.sp, dp := h.dp, len := h.len, ck := 0 } ++ p)) := by
  rw [udp4_words h ip p hs hd]
  congr 1
  have e0 : enc16 0 = [0, 0] := by decide
  have e : Udp.toBytes { sp := h.sp, dp := h.dp, len := h.len, ck := 0 }
      = enc16 h.sp ++ enc16 h.dp ++ enc16 h.len ++ [0, 0] := by
    simp only [Udp.toBytes, e0]
  rw [e]
  have := checksum_insert_zero (ip.source ++ ip.destination ++ [0, 17] ++ enc16 h.len
      ++ (enc16 h.sp ++ enc16 h.dp ++ enc16 h.len)) p (by
        simp only [List.length_append, enc16_length, hs, hd, List.length_cons, List.length_nil])
  rw [← this]
  simp only [List.append_assoc]

theorem udp6_words (h : Udp) (ip : Ipv6Header) (p : Bytes) (hs : ip.source.length = 16)
    (hd : ip.destination.length = 16) :
    ck6 (.udp h) ip p
      = noZero (Spec.checksum (ip.source ++ ip.destination ++ [0, 17] ++ enc16 h.len
                                ++ (enc16 h.sp ++ enc16 h.dp ++ enc16 h.len) ++ p)) := by
  simp only [ck6, udpPostIp, swap16_noZero]
  rw [chain_eq]
  · simp only [List.append_assoc]
    rw [split16_flatten_app, split16_flatten_app]
    simp
  · simp [PartOk, split16, hs, hd]

theorem tcp4_words (h : Tcp) (ip : Ipv4Header) (p : Bytes) (hs : ip.source.length = 4)
    (hd : ip.destination.length = 4) (ho : h.opts.asSlice.length % 2 = 0) :
    ck4 (.tcp h) ip p
      = Spec.checksum (ip.source ++ ip.destination ++ [0, 6] ++ enc16 (h.headerLen + p.length)
          ++ (enc16 h.sp ++ enc16 h.dp ++ enc32 h.seq ++ enc32 h.ack ++ [u8 h.byte12, u8 h.byte13]
              ++ enc16 h.win ++ enc16 h.urgp) ++ h.opts.asSlice ++ p) := by
  simp only [ck4, tcpPostIp]
  rw [chain_eq2 _ _ _ _ ho]
  · simp
  · simp [PartOk, hs, hd]

theorem tcp6_words (h : Tcp) (ip : Ipv6Header) (p : Bytes) (hs : ip.source.length = 16)
    (hd : ip.destination.length = 16) (ho : h.opts.asSlice.length % 2 = 0) :
    ck6 (.tcp h) ip p
      = Spec.checksum (ip.source ++ ip.destination ++ enc32 (h.headerLen + p.length) ++ [0, 6]
          ++ (enc16 h.sp ++ enc16 h.dp ++ enc32 h.seq ++ enc32 h.ack ++ [u8 h.byte12, u8 h.byte13]
              ++ enc16 h.win ++ enc16 h.urgp) ++ h.opts.asSlice ++ p) := by
  simp only [ck6, tcpPostIp]
  rw [chain_eq2 _ _ _ _ ho]
  · simp only [List.append_assoc]
    rw [split16_flatten_app, split16_flatten_app]
    simp
  · simp [PartOk, split16, hs, hd]

theorem icmp4Parts_ok (t : Icmp4Type) (ok : icmp4LenOk t) : ∀ p ∈ icmp4Parts t, PartOk p := by
  cases t <;> simp only [icmp4Parts] <;> (try split) <;> simp_all [PartOk, icmp4LenOk]

theorem icmp6Parts_ok (t : Icmp6Type) (ok : icmp6LenOk t) : ∀ p ∈ icmp6Parts t, PartOk p := by
  cases t <;> simp_all [icmp6Parts, PartOk, icmp6LenOk, Icmp6.raBytes, Icmp6.naBytes]

/-- ICMPv4 (no pseudo header): RFC 1071 over the header words except the checksum field, then
    the payload -/
theorem icmp4_words (t : Icmp4Type) (p : Bytes) (ok : icmp4LenOk t) :
    icmp4Checksum t p = Spec.checksum ((icmp4Parts t).flatten ++ p) := by
  unfold icmp4Checksum
  exact chain_eq _ _ (icmp4Parts_ok t ok)

/-- ICMPv6: pseudo header (addresses, next header 58, 32 bit length), header words, payload -/
theorem icmp6_words (h : Icmp6) (ip : Ipv6Header) (p : Bytes) (hs : ip.source.length = 16)
    (hd : ip.destination.length = 16) (ok : icmp6LenOk h.ty) :
    ck6 (.icmp6 h) ip p
      = Spec.checksum (ip.source ++ ip.destination ++ [0, 58] ++ enc32 (p.length + 8)
                        ++ (icmp6Parts h.ty).flatten ++ p) := by
  simp only [ck6]
  rw [chain_eq]
  · simp only [List.append_assoc]
    rw [split16_flatten_app, split16_flatten_app]
    simp
  · have := icmp6Parts_ok _ ok
    simp only [List.forall_mem_append]
    refine ⟨⟨?_, ?_⟩, this⟩ <;> simp [PartOk, split16, hs, hd]

/-- IPv4 header checksum: RFC 791 / 1071 over the header words except the checksum field -/
theorem ipv4_header_words (h : Ipv4Header) (hs : h.source.length = 4) (hd : h.destination.length = 4) :
    h.calcHeaderChecksum
      = Spec.checksum ([u8 ((4 <<< 4) ||| h.ihl), u8 (shl8 h.dscp 2 ||| h.ecn)] ++ enc16 h.totalLen
          ++ enc16 h.identification ++ [u8 h.fragAndFlags.1, u8 h.fragAndFlags.2]
          ++ [u8 h.timeToLive, u8 h.protocol] ++ h.source ++ h.destination ++ h.options) := by
  have e : h.calcHeaderChecksum = swap16 (onesComplement64 (addSlice64 (addParts 0
      [[u8 ((4 <<< 4) ||| h.ihl), u8 (shl8 h.dscp 2 ||| h.ecn)], enc16 h.totalLen, enc16 h.identification,
       [u8 h.fragAndFlags.1, u8 h.fragAndFlags.2], [u8 h.timeToLive, u8 h.protocol], h.source,
       h.destination]) h.options)) := rfl
  rw [e, chain_eq]
  · simp
  · simp [PartOk, hs, hd]

end EpModel.Lemmas.Builder
