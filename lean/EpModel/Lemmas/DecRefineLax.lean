import EpModel.Lemmas.DecRefineEntry
/-
  Refinement of the LAX slicing cursor (LaxSlicedPacketCursor) to the lax wire-format walk
  (`Spec.walkN true`, i.e. `Spec.decodeLax`) — property C05.

  Part 1: the relation `RelLax`, the transport layer, ARP.
-/
namespace EpModel.Lemmas.RefineLax
set_option linter.unusedSimpArgs false
open EpModel EpModel.Dec EpModel.Spec EpModel.Lemmas.Refine

/-- a packet without its stop error -/
def noStop (p : Packet) : Packet :=
  { link := p.link, exts := p.exts, net := p.net, tp := p.tp, stop := none }

/-- the `Layer` a lax result records next to its stop error, against the spec unit that faulted -/
def StopLayer : Layer → Unit_ → Prop
  | .vlanHeader, .vlan => True
  | .macsecHeader, .macsecHeader => True
  | .arp, .arp => True
  | .ipHeader, .ipAny => True
  | .ipHeader, .ipv4Header => True
  | .ipHeader, .ipv6Header => True
  | .ipAuthHeader, .auth => True
  | .ipv6HopByHopHeader, .hopByHop => True
  | .ipv6DestOptionsHeader, .destOpts => True
  | .ipv6RouteHeader, .route => True
  | .ipv6FragHeader, .fragHeader => True
  | .udpHeader, .udpHeader => True
  | .tcpHeader, .tcp => True
  | .icmpv4, .icmp4 => True
  | .icmpv6, .icmp6 => True
  | _, _ => False

/-- a stop error describes the spec fault: the recorded layer names the faulting unit and the error
    matches the fault in the sense of the strict refinement (`ErrMatch`) -/
def StopMatch (e : PErr) (ly : Layer) (f : Fault) : Prop := StopLayer ly f.unit ∧ ErrMatch e f

/-- The one known wrinkle (the same as `ShortV4` of the strict `from_ip`): every lax door decodes IP
    through the version-dispatching `LaxIpSlice::from_slice`, which looks at the IHL before the length.
    For an IPv4 version nibble in 1..19 bytes it names the bad IHL, or requires `ihl*4` bytes, where
    the wire-format reading says "20 bytes needed".  Both describe the bytes; offset, available bytes
    and length source agree. -/
def ShortV4Stop (g : Mem) (e : PErr) (ly : Layer) (f : Fault) : Prop :=
  ly = .ipHeader ∧ f.cls = .cutShort ∧ f.unit = .ipv4Header ∧ f.need = 20 ∧ 0 < f.avail ∧ f.avail < 20 ∧
  g f.off / 16 = 4 ∧
  ((g f.off % 16 < 5 ∧ e = .ipIhl (g f.off % 16)) ∨
   (5 ≤ g f.off % 16 ∧ ∃ s, (s = .slice ∨ s = f.lim) ∧
      e = .len { req := g f.off % 16 * 4, len := f.avail, src := s, layer := .ipv4Header, off := f.off }))

/-- lax model result vs lax spec walk, with the wrinkle admitted -/
def RelLaxW (g : Mem) (m : Packet) (s : Packet × Option Fault) : Prop :=
  noStop m = s.1 ∧
  match m.stop, s.2 with
  | none, none => True
  | some (e, ly), some f => StopMatch e ly f ∨ ShortV4Stop g e ly f
  | _, _ => False

/-- lax model result vs lax spec walk: the same layers in front of the fault (windows, flags, length
    sources, incomplete marks), a stop error exactly when the walk reports a fault, and the stop error
    describes that fault -/
def RelLax (m : Packet) (s : Packet × Option Fault) : Prop :=
  noStop m = s.1 ∧
  match m.stop, s.2 with
  | none, none => True
  | some (e, ly), some f => StopMatch e ly f
  | _, _ => False

/-- the input class of the wrinkle, seen from the spec: the walk ends at an IPv4 header that has
    fewer than 20 bytes -/
def ShortV4Fault (s : Packet × Option Fault) : Prop :=
  ∃ f, s.2 = some f ∧ f.unit = .ipv4Header ∧ f.avail < 20

theorem relLax_of_W {g : Mem} {m : Packet} {s : Packet × Option Fault} (h : RelLaxW g m s)
    (hn : ¬ ShortV4Fault s) : RelLax m s := by
  obtain ⟨h1, h2⟩ := h
  refine ⟨h1, ?_⟩
  obtain ⟨p, fo⟩ := s
  cases hm : m.stop with
  | none => rw [hm] at h2; cases fo <;> simp_all
  | some x =>
    obtain ⟨e, ly⟩ := x
    rw [hm] at h2
    cases fo with
    | none => simp at h2
    | some f =>
      simp only at h2 ⊢
      rcases h2 with h2 | h2
      · exact h2
      · exact absurd ⟨f, rfl, h2.2.2.1, h2.2.2.2.2.2.1⟩ hn

theorem relLaxW_of {g : Mem} {m : Packet} {s : Packet × Option Fault} (h : RelLax m s) : RelLaxW g m s := by
  obtain ⟨h1, h2⟩ := h
  refine ⟨h1, ?_⟩
  obtain ⟨p, fo⟩ := s
  cases hm : m.stop with
  | none => rw [hm] at h2; cases fo <;> simp_all
  | some x =>
    obtain ⟨e, ly⟩ := x
    rw [hm] at h2
    cases fo with
    | none => simp at h2
    | some f => exact Or.inl h2

/-! ### small facts about packets -/

theorem noStop_of_none {p : Packet} (h : p.stop = none) : noStop p = p := by
  cases p; simp_all [noStop]

@[simp] theorem noStop_setStop (p : Packet) (e : PErr) (ly : Layer) : noStop (p.setStop e ly) = noStop p := rfl
@[simp] theorem stop_setStop (p : Packet) (e : PErr) (ly : Layer) : (p.setStop e ly).stop = some (e, ly) := rfl
@[simp] theorem stop_setTp (p : Packet) (x : TpR) : (p.setTp x).stop = p.stop := rfl
@[simp] theorem stop_setNet (p : Packet) (x : NetR) : (p.setNet x).stop = p.stop := rfl
@[simp] theorem stop_pushExt (p : Packet) (x : ExtR) : (p.pushExt x).stop = p.stop := rfl
@[simp] theorem stop_setLink (p : Packet) (x : LinkR) : (p.setLink x).stop = p.stop := rfl

/-- a finished model packet without stop against a finished fault-free walk -/
theorem relLax_ok {m : Packet} (h : m.stop = none) : RelLax m (m, none) := by
  refine ⟨noStop_of_none h, ?_⟩
  rw [h]
  trivial

/-- a model packet stopped with `(e, ly)` against a walk that faulted in front of the same layers -/
theorem relLax_stop {p : Packet} {e : PErr} {ly : Layer} {f : Fault} (h : p.stop = none)
    (hm : StopMatch e ly f) : RelLax (p.setStop e ly) (p, some f) :=
  ⟨by simp [noStop_of_none h], hm⟩

/-! ### steps of the spec that do not depend on `lax` -/

theorem step_tp_indep (lax : Bool) (g : Mem) (p : Packet) (num : Nat) (ctx : Ctx) (h : num ≠ 17) :
    Spec.step lax g p (.tp num) ctx = Spec.step false g p (.tp num) ctx := by
  simp only [Spec.step, h, if_false]

theorem step_arp_indep (lax : Bool) (g : Mem) (p : Packet) (ctx : Ctx) :
    Spec.step lax g p (.ether 0x0806) ctx = Spec.step false g p (.ether 0x0806) ctx := by
  simp [Spec.step, isVlanType]

theorem step_vlan_indep (lax : Bool) (g : Mem) (p : Packet) (et : Nat) (ctx : Ctx) (h : isVlanType et = true) :
    Spec.step lax g p (.ether et) ctx = Spec.step false g p (.ether et) ctx := by
  simp only [Spec.step, h, if_true]

theorem step_eth_indep (lax : Bool) (g : Mem) (p : Packet) (ctx : Ctx) :
    Spec.step lax g p .eth ctx = Spec.step false g p .eth ctx := by
  simp only [Spec.step]

/-! ### transport -/

theorem udp_stepL (g : Mem) (p : Packet) (ctx : Ctx) (o l : Nat) (hc : ctx.off = o) (hs : ctx.stop = o + l) :
    match udpFromSliceLax g o l with
    | .ok w => Spec.step true g p (.tp 17) ctx = ⟨setTp p (.udp w), .done, ctx, none⟩
    | .error e => ∃ f, Spec.step true g p (.tp 17) ctx = ⟨p, .done, ctx, some f⟩ ∧ LenRel e f o ctx.lim ∧
        f.unit = .udpHeader := by
  have hav : ctx.avail = l := by unfold Ctx.avail; omega
  unfold udpFromSliceLax
  simp only [Spec.step, hav, hc]
  by_cases h8 : l < 8
  · simp only [h8, if_true]
    exact ⟨_, rfl, by lenrel, rfl⟩
  · simp only [h8, if_false]
    by_cases hz : g16 g (o + 4) = 0
    · have : l < g16 g (o + 4) ∨ g16 g (o + 4) < 8 := by omega
      simp [hz, this]
    · simp only [hz, if_false]
      by_cases hlt : l < g16 g (o + 4)
      · simp [hlt]
      · simp only [hlt, if_false, false_or]
        by_cases hl8 : g16 g (o + 4) < 8
        · simp [hl8]
        · simp [hl8]

theorem tp_fault_unit (lax : Bool) (g : Mem) (p : Packet) (num : Nat) (ctx : Ctx) (f : Fault)
    (h : (Spec.step lax g p (.tp num) ctx).fault = some f) :
    (num = 6 → f.unit = .tcp) ∧ (num = 1 → f.unit = .icmp4) ∧ (num = 58 → f.unit = .icmp6) := by
  simp only [Spec.step] at h
  repeat' split at h
  all_goals (simp at h)
  all_goals (subst h; simp_all [mkFault])

theorem tp_refinesL (c : Cur) (g : Mem) (pl : IpPl) (ctx : Ctx) (k : Nat)
    (hst : c.r.stop = none) (hoff : c.off = pl.w.o) (hco : ctx.off = pl.w.o)
    (hs : ctx.stop = pl.w.o + pl.w.l) (hsrc : pl.src = .slice ∨ pl.src = ctx.lim) :
    RelLax (c.laxSliceTransport g pl)
      (walkN true g (k + 1) c.r (if pl.frag then .done else .tp pl.num) ctx) := by
  unfold Cur.laxSliceTransport
  by_cases hf : pl.frag = true
  · simp only [hf, true_or, if_true, walkN_done]
    exact relLax_ok hst
  · have hfr : pl.frag = false := by simpa using hf
    simp only [hfr, hst, Option.isSome_none, Bool.false_eq_true, or_self, if_false]
    have ht : Tied { off := c.off, src := pl.src, r := c.r } ctx pl.w.o pl.w.l := ⟨hoff, hco, hs, hsrc⟩
    by_cases h1 : pl.num = 1
    · simp only [h1, if_true]
      have := icmp4_step g c.r ctx pl.w.o pl.w.l hco hs
      rw [← step_tp_indep true g c.r 1 ctx (by omega)] at this
      split at this
      · rename_i w hw
        rw [hw, walkN_next true g k _ _ _ _ _ _ (by simp) this, walkN_done]
        exact relLax_ok (by simp [setTp_eq, hst])
      · rename_i e he
        obtain ⟨f, hf, hrel⟩ := this
        rw [he, walkN_fault true g k _ _ _ _ _ _ f (by simp) hf]
        have hu := (tp_fault_unit true g c.r 1 ctx f (by rw [hf])).2.1 rfl
        exact relLax_stop hst ⟨by rw [hu]; trivial, lenRel_fix e f _ ctx _ _ ht hrel⟩
    · simp only [h1, if_false]
      by_cases h17 : pl.num = 17
      · simp only [h17, if_true]
        have := udp_stepL g c.r ctx pl.w.o pl.w.l hco hs
        split at this
        · rename_i w hw
          rw [hw, walkN_next true g k _ _ _ _ _ _ (by simp) this, walkN_done]
          exact relLax_ok (by simp [setTp_eq, hst])
        · rename_i e he
          obtain ⟨f, hf, hrel, hu⟩ := this
          rw [he, walkN_fault true g k _ _ _ _ _ _ f (by simp) hf]
          exact relLax_stop hst ⟨by rw [hu]; trivial, lenRel_fix e f _ ctx _ _ ht hrel⟩
      · simp only [h17, if_false]
        by_cases h6 : pl.num = 6
        · simp only [h6, if_true]
          have := tcp_step g c.r ctx pl.w.o pl.w.l hco hs
          rw [← step_tp_indep true g c.r 6 ctx (by omega)] at this
          split at this
          · rename_i hl hw
            rw [hw, walkN_next true g k _ _ _ _ _ _ (by simp) this, walkN_done]
            exact relLax_ok (by simp [setTp_eq, hst])
          · rename_i e he
            obtain ⟨f, hf, hrel⟩ := this
            rw [he, walkN_fault true g k _ _ _ _ _ _ f (by simp) hf]
            have hu := (tp_fault_unit true g c.r 6 ctx f (by rw [hf])).1 rfl
            exact relLax_stop hst ⟨by rw [hu]; trivial, lenRel_fix e f _ ctx _ _ ht hrel⟩
          · rename_i e hne he
            obtain ⟨f, hf, hrel⟩ := this
            rw [he, walkN_fault true g k _ _ _ _ _ _ f (by simp) hf]
            have hu := (tp_fault_unit true g c.r 6 ctx f (by rw [hf])).1 rfl
            cases e
            · exact absurd rfl (hne _)
            all_goals exact relLax_stop hst ⟨by rw [hu]; trivial, hrel⟩
        · simp only [h6, if_false]
          by_cases h58 : pl.num = 58
          · simp only [h58, if_true]
            have := icmp6_step g c.r ctx pl.w.o pl.w.l hco hs
            rw [← step_tp_indep true g c.r 58 ctx (by omega)] at this
            split at this
            · rename_i w hw
              rw [hw, walkN_next true g k _ _ _ _ _ _ (by simp) this, walkN_done]
              exact relLax_ok (by simp [setTp_eq, hst])
            · rename_i e he
              obtain ⟨f, hf, hrel⟩ := this
              rw [he, walkN_fault true g k _ _ _ _ _ _ f (by simp) hf]
              have hu := (tp_fault_unit true g c.r 58 ctx f (by rw [hf])).2.2 rfl
              exact relLax_stop hst ⟨by rw [hu]; trivial, lenRel_fix e f _ ctx _ _ ht hrel⟩
          · simp only [h58, if_false]
            have hstep : Spec.step true g c.r (.tp pl.num) ctx = ⟨c.r, .done, ctx, none⟩ := by
              simp [Spec.step, h1, h17, h6, h58]
            rw [walkN_next true g k _ _ _ _ _ _ (by simp) hstep, walkN_done]
            exact relLax_ok hst

theorem macsec_stepL (g : Mem) (hg : ByteMem g) (p : Packet) (ctx : Ctx) (o l : Nat) (hc : ctx.off = o)
    (hs : ctx.stop = o + l) (hn : ctx.nExt ≠ 3) :
    match laxMacsecFromSlice g o l with
    | .ok (.macsec hdr pl src inc) =>
      Spec.step true g p (.ether 0x88e5) ctx =
        ⟨p.pushExt (.macsec hdr pl src inc),
          (match macsecNextEtherType g o with | some et' => .ether et' | none => .done),
          { off := pl.o, stop := pl.o + pl.l, lim := inherit ctx.lim src, nExt := ctx.nExt + 1 }, none⟩ ∧
        pl.o = o + hdr.l ∧ o ≤ pl.o ∧ pl.o + pl.l ≤ o + l ∧ (src = .slice ∨ src = .macsecShortLength)
    | .ok _ => False
    | .error (.len e) =>
      ∃ f, Spec.step true g p (.ether 0x88e5) ctx = ⟨p, .done, ctx, some f⟩ ∧ LenRel e f o ctx.lim ∧
        e.layer = .macsecHeader ∧ f.unit = .macsecHeader
    | .error e => ∃ f, Spec.step true g p (.ether 0x88e5) ctx = ⟨p, .done, ctx, some f⟩ ∧ ContentMatch e f ∧
        f.unit = .macsecHeader := by
  have hav : ctx.avail = l := by unfold Ctx.avail; omega
  have hb0 := hg o
  unfold laxMacsecFromSlice macsecHeaderFromSlice
  simp only [Spec.step, hav, hc, isVlanType]
  simp only [show ¬ ((0x88e5 : Nat) = 0x8100 ∨ (0x88e5 : Nat) = 0x88a8 ∨ (0x88e5 : Nat) = 0x9100) by omega,
    decide_false, Bool.false_eq_true, if_false, if_true, hn]
  by_cases h6 : l < 6
  · simp only [h6, if_true]
    exact ⟨_, rfl, by lenrel, by first | rfl | trivial, by first | rfl | trivial⟩
  · simp only [h6, if_false]
    by_cases hv : g o / 128 % 2 = 1
    · have hv' : g o / 128 = 1 := by omega
      simp only [hv, hv', if_true]
      exact ⟨_, rfl, ⟨by simp [mkFault], by simp [mkFault]⟩, rfl⟩
    · have hv' : ¬ g o / 128 = 1 := by omega
      simp only [hv, hv', if_false]
      have hsl : g (o + 1) % 64 < 64 := Nat.mod_lt _ (by omega)
      generalize hslv : g (o + 1) % 64 = sl at *
      by_cases hU : macsecUnmodified (g o) = true
      · have hUs : (g o / 8 % 2 = 0 ∧ g o / 4 % 2 = 0) := (macsec_unmod_eq (g o)).mp hU
        by_cases hS : macsecSciPresent (g o) = true
        · have hSs : g o / 32 % 2 = 1 := by simpa [macsecSciPresent] using hS
          simp only [macsecHeaderLen, secTagLen, macsecExpectedPayloadLen, macsecNextEtherType, hU, hS, hUs, hSs, hslv,
                and_self, true_and, and_true, and_false, false_and, decide_true, decide_false, if_true, not_true_eq_false, not_false_eq_true, if_false,
                Bool.false_eq_true]
          by_cases h1 : sl = 1
          · simp only [h1, if_true]
            exact ⟨_, rfl, ⟨by simp [mkFault], by simp [mkFault]⟩, rfl⟩
          · simp only [h1, if_false]
            by_cases hlt : l < 6 + 2 + 8
            · have : l < 6 + 8 + 2 := by omega
              simp only [hlt, this, if_true]
              exact ⟨_, rfl, by lenrel, by first | rfl | trivial, by first | rfl | trivial⟩
            · have : ¬ l < 6 + 8 + 2 := by omega
              simp only [hlt, this, if_false]
              by_cases h0 : sl = 0
              · subst h0
                have e1 : o + l - (o + 16) = l - 16 := by omega
                simp [addExt_eq, hs, inherit, e1]
                omega
              · have hpos : 0 < sl := by omega
                have h2 : ¬ sl < 2 := by omega
                simp only [hpos, h0, h2, if_true, if_false]
                by_cases hp : l < 6 + 2 + 8 + (sl - 2)
                · have : l < 6 + 8 + 2 + (sl - 2) := by omega
                  simp only [hp, this, if_true]
                  have e1 : o + l - (o + 16) = l - 16 := by omega
                  simp [addExt_eq, hs, inherit, e1]
                  omega
                · have : ¬ l < 6 + 8 + 2 + (sl - 2) := by omega
                  simp only [hp, this, if_false]
                  simp [addExt_eq, inherit]
                  try omega
        · have hSs : ¬ g o / 32 % 2 = 1 := by simpa [macsecSciPresent] using hS
          simp only [macsecHeaderLen, secTagLen, macsecExpectedPayloadLen, macsecNextEtherType, hU, hS, hUs, hSs, hslv,
                and_self, true_and, and_true, and_false, false_and, decide_true, decide_false, if_true, not_true_eq_false, not_false_eq_true, if_false,
                Bool.false_eq_true]
          by_cases h1 : sl = 1
          · simp only [h1, if_true]
            exact ⟨_, rfl, ⟨by simp [mkFault], by simp [mkFault]⟩, rfl⟩
          · simp only [h1, if_false]
            by_cases hlt : l < 6 + 2 + 0
            · have : l < 6 + 0 + 2 := by omega
              simp only [hlt, this, if_true]
              exact ⟨_, rfl, by lenrel, by first | rfl | trivial, by first | rfl | trivial⟩
            · have : ¬ l < 6 + 0 + 2 := by omega
              simp only [hlt, this, if_false]
              by_cases h0 : sl = 0
              · subst h0
                have e1 : o + l - (o + 8) = l - 8 := by omega
                simp [addExt_eq, hs, inherit, e1]
                omega
              · have hpos : 0 < sl := by omega
                have h2 : ¬ sl < 2 := by omega
                simp only [hpos, h0, h2, if_true, if_false]
                by_cases hp : l < 6 + 2 + 0 + (sl - 2)
                · have : l < 6 + 0 + 2 + (sl - 2) := by omega
                  simp only [hp, this, if_true]
                  have e1 : o + l - (o + 8) = l - 8 := by omega
                  simp [addExt_eq, hs, inherit, e1]
                  omega
                · have : ¬ l < 6 + 0 + 2 + (sl - 2) := by omega
                  simp only [hp, this, if_false]
                  simp [addExt_eq, inherit]
                  try omega
      · have hUs : ¬ (g o / 8 % 2 = 0 ∧ g o / 4 % 2 = 0) := fun h => hU ((macsec_unmod_eq (g o)).mpr h)
        by_cases hS : macsecSciPresent (g o) = true
        · have hSs : g o / 32 % 2 = 1 := by simpa [macsecSciPresent] using hS
          simp only [macsecHeaderLen, secTagLen, macsecExpectedPayloadLen, macsecNextEtherType, hU, hS, hUs, hSs, hslv,
                and_self, true_and, and_true, and_false, false_and, decide_true, decide_false, if_true, not_true_eq_false, not_false_eq_true, if_false,
                Bool.false_eq_true]
          by_cases hlt : l < 6 + 0 + 8
          · have : l < 6 + 8 + 0 := by omega
            simp only [hlt, this, if_true]
            exact ⟨_, rfl, by lenrel, by first | rfl | trivial, by first | rfl | trivial⟩
          · have : ¬ l < 6 + 8 + 0 := by omega
            simp only [hlt, this, if_false]
            by_cases h0 : sl = 0
            · subst h0
              have e1 : o + l - (o + 14) = l - 14 := by omega
              simp [addExt_eq, hs, inherit, e1]
              omega
            · have hpos : 0 < sl := by omega
              simp only [hpos, h0, if_true, if_false]
              by_cases hp : l < 6 + 0 + 8 + sl
              · have : l < 6 + 8 + 0 + sl := by omega
                simp only [hp, this, if_true]
                have e1 : o + l - (o + 14) = l - 14 := by omega
                simp [addExt_eq, hs, inherit, e1]
                omega
              · have : ¬ l < 6 + 8 + 0 + sl := by omega
                simp only [hp, this, if_false]
                simp [addExt_eq, inherit]
                try omega
        · have hSs : ¬ g o / 32 % 2 = 1 := by simpa [macsecSciPresent] using hS
          simp only [macsecHeaderLen, secTagLen, macsecExpectedPayloadLen, macsecNextEtherType, hU, hS, hUs, hSs, hslv,
                and_self, true_and, and_true, and_false, false_and, decide_true, decide_false, if_true, not_true_eq_false, not_false_eq_true, if_false,
                Bool.false_eq_true]
          by_cases hlt : l < 6 + 0 + 0
          · have : l < 6 + 0 + 0 := by omega
            simp only [hlt, this, if_true]
            exact ⟨_, rfl, by lenrel, by first | rfl | trivial, by first | rfl | trivial⟩
          · have : ¬ l < 6 + 0 + 0 := by omega
            simp only [hlt, this, if_false]
            by_cases h0 : sl = 0
            · subst h0
              have e1 : o + l - (o + 6) = l - 6 := by omega
              simp [addExt_eq, hs, inherit, e1]
              omega
            · have hpos : 0 < sl := by omega
              simp only [hpos, h0, if_true, if_false]
              by_cases hp : l < 6 + 0 + 0 + sl
              · have : l < 6 + 0 + 0 + sl := by omega
                simp only [hp, this, if_true]
                have e1 : o + l - (o + 6) = l - 6 := by omega
                simp [addExt_eq, hs, inherit, e1]
                omega
              · have : ¬ l < 6 + 0 + 0 + sl := by omega
                simp only [hp, this, if_false]
                simp [addExt_eq, inherit]
                try omega

end EpModel.Lemmas.RefineLax
