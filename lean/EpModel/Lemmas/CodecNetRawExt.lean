import EpModel.Lemmas.CodecNetBits
import EpModel.Model.Codec.NetRawExt
/- Helper lemmas about the Ipv6RawExtHeader / Ipv6RawExtHeaderSlice model. -/
namespace EpModel.Lemmas.CodecNet.RawExt
open EpModel EpModel.CodecNet EpModel.Lemmas.CodecNet

theorem headerLength_eq (h : Ipv6RawExtHeader) (wf : h.WF) :
    h.headerLength = (h.payload.length - 6) / 8 := by
  obtain ⟨_, _, h3, _⟩ := wf
  unfold Ipv6RawExtHeader.headerLength; omega

theorem headerLen_eq (h : Ipv6RawExtHeader) (wf : h.WF) : h.headerLen = 2 + h.payload.length := by
  have := headerLength_eq h wf
  obtain ⟨_, h2, _, h4⟩ := wf
  unfold Ipv6RawExtHeader.headerLen; omega

/-- `payload()` returns the payload the value was built from. -/
theorem payloadAcc_eq (h : Ipv6RawExtHeader) (wf : h.WF) : h.payloadAcc = h.payload := by
  have e := headerLength_eq h wf
  obtain ⟨_, h2, _, h4⟩ := wf
  unfold Ipv6RawExtHeader.payloadAcc Ipv6RawExtHeader.payloadBuffer
  rw [e, List.take_left']
  omega

theorem toBytes_eq (h : Ipv6RawExtHeader) (wf : h.WF) :
    h.toBytes = u8 h.nextHeader :: u8 ((h.payload.length - 6) / 8) :: h.payload := by
  unfold Ipv6RawExtHeader.toBytes
  rw [payloadAcc_eq h wf, headerLength_eq h wf]; rfl

theorem toBytes_length (h : Ipv6RawExtHeader) (wf : h.WF) :
    h.toBytes.length = 2 + h.payload.length := by
  rw [toBytes_eq h wf]; simp; omega

/-- `to_header` never hits the `unwrap` panic for a slice the constructor can produce. -/
theorem toHeader_eq (s : Ipv6RawExtHeaderSlice) (h8 : 8 ≤ s.slice.length)
    (hmax : s.slice.length ≤ 2048) (hm : s.slice.length % 8 = 0) :
    s.toHeader = some { nextHeader := bAt s.slice 0, payload := s.slice.drop 2 } := by
  have hp : s.payload = s.slice.drop 2 := by
    unfold Ipv6RawExtHeaderSlice.payload sub
    exact List.take_of_length_le (by simp)
  have c1 : ¬ ((s.slice.drop 2).length < 6) := by simp; omega
  have c2 : ¬ ((s.slice.drop 2).length > 2046) := by simp; omega
  have c3 : ¬ (0 ≠ ((s.slice.drop 2).length + 2) % 8) := by simp; omega
  simp only [Ipv6RawExtHeaderSlice.toHeader, Ipv6RawExtHeader.newRaw, hp, c1, c2, c3, if_false,
    Ipv6RawExtHeaderSlice.nextHeader]

theorem sliceFromSlice_ok (b : Bytes) (s : Ipv6RawExtHeaderSlice)
    (hs : Ipv6RawExtHeaderSlice.fromSlice b = .ok s) :
    8 ≤ b.length ∧ (bAt b 1 + 1) * 8 ≤ b.length ∧ s.slice = b.take ((bAt b 1 + 1) * 8) := by
  unfold Ipv6RawExtHeaderSlice.fromSlice at hs
  by_cases c1 : b.length < 8
  · simp [c1] at hs
  · by_cases c2 : b.length < (bAt b 1 + 1) * 8
    · simp [c1, c2] at hs
    · simp only [c1, c2, if_false, Except.ok.injEq] at hs
      subst hs
      exact ⟨by omega, by omega, rfl⟩

theorem slice_of_toBytes (h : Ipv6RawExtHeader) (tail : Bytes) (wf : h.WF) :
    Ipv6RawExtHeaderSlice.fromSlice (h.toBytes ++ tail) = .ok { slice := h.toBytes } := by
  have hl := toBytes_length h wf
  have hb1 : bAt (h.toBytes ++ tail) 1 = (h.payload.length - 6) / 8 := by
    rw [toBytes_eq h wf]
    have := wf.2.2.1
    simp; omega
  obtain ⟨_, h2, h3, h4⟩ := wf
  unfold Ipv6RawExtHeaderSlice.fromSlice
  simp only [hb1, List.length_append, hl]
  have c1 : ¬ (2 + h.payload.length + tail.length < 8) := by omega
  have c2 : ((h.payload.length - 6) / 8 + 1) * 8 = 2 + h.payload.length := by omega
  have c3 : ¬ (2 + h.payload.length + tail.length < 2 + h.payload.length) := by omega
  simp only [c1, c2, c3, if_false]
  rw [List.take_left' hl]

theorem toHeader_toBytes (h : Ipv6RawExtHeader) (wf : h.WF) :
    Ipv6RawExtHeaderSlice.toHeader { slice := h.toBytes } = some h := by
  have hl := toBytes_length h wf
  have hb := toBytes_eq h wf
  have w := wf
  obtain ⟨h1, h2, h3, h4⟩ := w
  rw [toHeader_eq _ (by simp only [hl]; omega) (by simp only [hl]; omega)
    (by simp only [hl]; omega)]
  simp only [hb]
  obtain ⟨nh, p⟩ := h
  simp at h1 ⊢
  omega

/-- what a successful `Ipv6RawExtHeader::from_slice` says about its input. -/
theorem fromSlice_ok (b : Bytes) (h : Ipv6RawExtHeader) (rest : Bytes)
    (hd : Ipv6RawExtHeader.fromSlice b = .ok (h, rest)) :
    8 ≤ b.length ∧ (bAt b 1 + 1) * 8 ≤ b.length ∧
      h = { nextHeader := bAt b 0, payload := (b.take ((bAt b 1 + 1) * 8)).drop 2 } ∧
      rest = b.drop ((bAt b 1 + 1) * 8) := by
  unfold Ipv6RawExtHeader.fromSlice at hd
  have hlt := bAt_lt b 1
  cases hs : Ipv6RawExtHeaderSlice.fromSlice b with
  | error e => simp [hs] at hd
  | ok s =>
    obtain ⟨h8, hfull, hsl⟩ := sliceFromSlice_ok b s hs
    have hl : s.slice.length = (bAt b 1 + 1) * 8 := by rw [hsl]; simp; omega
    simp only [hs, toHeader_eq s (by omega) (by omega) (by omega), Except.ok.injEq,
      Prod.mk.injEq] at hd
    rw [hl, hsl, bAt_take _ _ _ (by omega)] at hd
    exact ⟨h8, hfull, hd.1.symm, hd.2.symm⟩

theorem fromSlice_no_panic (b : Bytes) : Ipv6RawExtHeader.fromSlice b ≠ .error .panicUnwrap := by
  unfold Ipv6RawExtHeader.fromSlice
  have hlt := bAt_lt b 1
  cases hs : Ipv6RawExtHeaderSlice.fromSlice b with
  | error e =>
    unfold Ipv6RawExtHeaderSlice.fromSlice at hs
    by_cases c1 : b.length < 8
    · simp [c1] at hs; subst hs; simp
    · by_cases c2 : b.length < (bAt b 1 + 1) * 8
      · simp [c1, c2] at hs; subst hs; simp
      · simp [c1, c2] at hs
  | ok s =>
    obtain ⟨h8, hfull, hsl⟩ := sliceFromSlice_ok b s hs
    have hl : s.slice.length = (bAt b 1 + 1) * 8 := by rw [hsl]; simp; omega
    simp [toHeader_eq s (by omega) (by omega) (by omega)]

/-- re-encoding the header decoded from `(l+1)*8` bytes gives exactly those bytes back. -/
theorem toBytes_decoded (b0 b1 : UInt8) (r : Bytes) (hr : r.length + 2 = (b1.toNat + 1) * 8) :
    Ipv6RawExtHeader.toBytes { nextHeader := b0.toNat, payload := r } = b0 :: b1 :: r := by
  have l0 := b0.toNat_lt; have l1 := b1.toNat_lt
  have wf : Ipv6RawExtHeader.WF { nextHeader := b0.toNat, payload := r } := by
    refine ⟨l0, ?_, ?_, ?_⟩ <;> simp only <;> omega
  rw [toBytes_eq _ wf]
  simp only [List.cons.injEq, and_true]
  exact ⟨u8_eq_of (by omega), u8_eq_of (by omega)⟩

end EpModel.Lemmas.CodecNet.RawExt
