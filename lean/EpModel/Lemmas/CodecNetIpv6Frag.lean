import EpModel.Lemmas.CodecNetBits
import EpModel.Model.Codec.NetIpv6Frag
/- Helper lemmas about the Ipv6FragmentHeader / Ipv6FragmentHeaderSlice model. -/
namespace EpModel.Lemmas.CodecNet.Ipv6Frag
open EpModel EpModel.CodecNet EpModel.Lemmas.CodecNet

theorem toBytes_length (h : Ipv6FragmentHeader) : h.toBytes.length = 8 := rfl

/-- the 16 bit word behind the reserved byte: offset in the upper 13 bits, M flag in bit 0. -/
theorem foWord_eq (h : Ipv6FragmentHeader) (hfo : h.fragmentOffset < 8192) :
    h.foWord = h.fragmentOffset * 8 + (if h.moreFragments then 1 else 0) := by
  unfold Ipv6FragmentHeader.foWord shl16
  rw [Nat.shiftLeft_eq, or_eq_add 3 (by omega) (by split <;> omega)]
  have : h.fragmentOffset * 2 ^ 3 % 65536 = h.fragmentOffset * 8 := by omega
  rw [this]

theorem slice_of_toBytes (h : Ipv6FragmentHeader) (tail : Bytes) :
    Ipv6FragmentHeaderSlice.fromSlice (h.toBytes ++ tail) = .ok { slice := h.toBytes } := by
  unfold Ipv6FragmentHeaderSlice.fromSlice
  have : ¬ ((h.toBytes ++ tail).length < 8) := by simp [toBytes_length]
  simp only [this, if_false]
  rw [List.take_left' (toBytes_length h)]

theorem toHeader_toBytes (h : Ipv6FragmentHeader) (wf : h.WF) :
    Ipv6FragmentHeaderSlice.toHeader { slice := h.toBytes } = h := by
  have hw := foWord_eq h wf.2.1
  obtain ⟨nh, fo, mf, id⟩ := h
  obtain ⟨h1, h2, h3⟩ := wf
  simp only at h1 h2 h3 hw
  simp [Ipv6FragmentHeaderSlice.toHeader, Ipv6FragmentHeaderSlice.nextHeader,
    Ipv6FragmentHeaderSlice.fragmentOffset, Ipv6FragmentHeaderSlice.moreFragments,
    Ipv6FragmentHeaderSlice.identification, Ipv6FragmentHeader.toBytes, be16, be32,
    Nat.shiftRight_eq_div_pow, hw]
  refine ⟨by omega, ?_, ?_, by omega⟩
  · cases mf <;> simp <;> omega
  · cases mf <;> simp <;> omega

/-- re-encoding the header decoded from 8 bytes gives the 8 bytes back with the reserved byte 1
    and the reserved bits 1–2 of byte 3 cleared. -/
theorem toBytes_toHeader (b0 b1 b2 b3 b4 b5 b6 b7 : UInt8) :
    (Ipv6FragmentHeaderSlice.toHeader { slice := [b0, b1, b2, b3, b4, b5, b6, b7] }).toBytes
      = [b0, 0, b2, u8 (b3.toNat &&& 249), b4, b5, b6, b7] := by
  have l0 := b0.toNat_lt; have l2 := b2.toNat_lt; have l3 := b3.toNat_lt
  have l4 := b4.toNat_lt; have l5 := b5.toNat_lt; have l6 := b6.toNat_lt; have l7 := b7.toNat_lt
  have hw : Ipv6FragmentHeader.foWord
      (Ipv6FragmentHeaderSlice.toHeader { slice := [b0, b1, b2, b3, b4, b5, b6, b7] })
      = b2.toNat * 256 + b3.toNat / 8 * 8 + b3.toNat % 2 := by
    rw [foWord_eq]
    · simp [Ipv6FragmentHeaderSlice.toHeader, Ipv6FragmentHeaderSlice.fragmentOffset,
        Ipv6FragmentHeaderSlice.moreFragments, be16, Nat.shiftRight_eq_div_pow]
      by_cases hb : b3.toNat % 2 = 0
      · simp [hb]; omega
      · have : b3.toNat % 2 = 1 := by omega
        simp [this]; omega
    · simp [Ipv6FragmentHeaderSlice.toHeader, Ipv6FragmentHeaderSlice.fragmentOffset, be16,
        Nat.shiftRight_eq_div_pow]; omega
  simp only [Ipv6FragmentHeader.toBytes, hw]
  simp [Ipv6FragmentHeaderSlice.toHeader, Ipv6FragmentHeaderSlice.nextHeader,
    Ipv6FragmentHeaderSlice.identification, be32, and249 _ l3]
  refine ⟨u8_eq_of (by omega), u8_eq_of (by omega), ?_, u8_eq_of (by omega), u8_eq_of (by omega),
    u8_eq_of (by omega), u8_eq_of (by omega)⟩
  apply UInt8.toNat_inj.mp; simp; omega

theorem fromSlice_ok (b : Bytes) (h : Ipv6FragmentHeader) (rest : Bytes)
    (hd : Ipv6FragmentHeader.fromSlice b = .ok (h, rest)) :
    8 ≤ b.length ∧ h = Ipv6FragmentHeaderSlice.toHeader { slice := b.take 8 } ∧
      rest = b.drop 8 := by
  unfold Ipv6FragmentHeader.fromSlice Ipv6FragmentHeaderSlice.fromSlice at hd
  by_cases hlen : b.length < 8
  · simp [hlen] at hd
  · simp [hlen] at hd
    exact ⟨by omega, hd.1.symm, hd.2.symm⟩

theorem toHeader_wf (s : Ipv6FragmentHeaderSlice) : s.toHeader.WF := by
  refine ⟨bAt_lt _ _, ?_, be32_lt _ _⟩
  show be16 s.slice 2 >>> 3 < 8192
  have := be16_lt s.slice 2
  rw [Nat.shiftRight_eq_div_pow]; omega

/-- the reserved-bit table of the fragment header applied to 8 bytes. -/
theorem maskReserved_eq (b0 b1 b2 b3 b4 b5 b6 b7 : UInt8) :
    maskReserved .ipv6Frag [b0, b1, b2, b3, b4, b5, b6, b7]
      = [b0, 0, b2, u8 (b3.toNat &&& 249), b4, b5, b6, b7] := by
  simp [maskReserved, reservedTable, clearBits]
  rfl

end EpModel.Lemmas.CodecNet.Ipv6Frag
