import EpModel.Lemmas.Defrag
/-
  Helper lemmas for C11, pool level: simulation between `IpDefragPool` (model) and the abstract
  pool of fact sets (Spec.Reasm).
-/
namespace EpModel.Lemmas.Defrag
open EpModel EpModel.Defrag Spec.Reasm

/-- simulation relation: same keys in the same order, same time stamps, every buffer represents
    the facts of its stream.  (The recycled vectors of the pool do not occur: they are irrelevant.) -/
def Rel : List (Key × Buf × Nat) → Pool Key → Prop
  | [], [] => True
  | (k, b, t) :: m, (k', t', fs) :: s => k = k' ∧ t = t' ∧ Inv b fs ∧ Rel m s
  | _, _ => False

theorem rel_length : ∀ {m : List (Key × Buf × Nat)} {s : Pool Key}, Rel m s → m.length = s.length
  | [], [], _ => rfl
  | (_, _, _) :: m, (_, _, _) :: s, h => by
    simp only [List.length_cons]; rw [rel_length h.2.2.2]
  | [], _ :: _, h => by cases h
  | _ :: _, [], h => by cases h

theorem rel_lookup : ∀ {m : List (Key × Buf × Nat)} {s : Pool Key}, Rel m s → ∀ k,
    (lookup k m = none ∧ find k s = none) ∨
    (∃ b t fs, lookup k m = some (b, t) ∧ find k s = some fs ∧ Inv b fs)
  | [], [], _, k => Or.inl ⟨rfl, rfl⟩
  | (k1, b, t) :: m, (k2, t2, fs) :: s, h, k => by
    obtain ⟨hk, ht, hi, hr⟩ := h
    subst hk
    simp only [lookup, find]
    by_cases hkk : k1 = k
    · simp only [hkk, if_true]
      exact Or.inr ⟨b, t, fs, rfl, rfl, hi⟩
    · simp only [hkk, if_false]
      exact rel_lookup hr k
  | [], _ :: _, h, _ => by cases h
  | _ :: _, [], h, _ => by cases h

theorem rel_erase : ∀ {m : List (Key × Buf × Nat)} {s : Pool Key}, Rel m s → ∀ k,
    Rel (erase k m) (remove k s)
  | [], [], _, k => trivial
  | (k1, b, t) :: m, (k2, t2, fs) :: s, h, k => by
    obtain ⟨hk, ht, hi, hr⟩ := h
    subst hk
    simp only [erase, remove]
    by_cases hkk : k1 = k
    · simp only [hkk, if_true]; exact hr
    · simp only [hkk, if_false]; exact ⟨rfl, ht, hi, rel_erase hr k⟩
  | [], _ :: _, h, _ => by cases h
  | _ :: _, [], h, _ => by cases h

theorem rel_replace : ∀ {m : List (Key × Buf × Nat)} {s : Pool Key}, Rel m s → ∀ k b' ts fs',
    Inv b' fs' → lookup k m ≠ none → Rel (replace k (b', ts) m) (put k ts fs' s)
  | [], [], _, k, _, _, _, _, hl => by simp [lookup] at hl
  | (k1, b, t) :: m, (k2, t2, fs) :: s, h, k, b', ts, fs', hi', hl => by
    obtain ⟨hk, ht, hi, hr⟩ := h
    subst hk
    simp only [replace, put]
    by_cases hkk : k1 = k
    · simp only [hkk, if_true]; exact ⟨rfl, rfl, hi', hr⟩
    · simp only [hkk, if_false]
      simp only [lookup, hkk, if_false] at hl
      exact ⟨rfl, ht, hi, rel_replace hr k b' ts fs' hi' hl⟩
  | [], _ :: _, h, _, _, _, _, _, _ => by cases h
  | _ :: _, [], h, _, _, _, _, _, _ => by cases h

theorem rel_insert : ∀ {m : List (Key × Buf × Nat)} {s : Pool Key}, Rel m s → ∀ k b' ts fs',
    Inv b' fs' → lookup k m = none → Rel (m ++ [(k, b', ts)]) (put k ts fs' s)
  | [], [], _, k, _, _, _, hi', _ => ⟨rfl, rfl, hi', trivial⟩
  | (k1, b, t) :: m, (k2, t2, fs) :: s, h, k, b', ts, fs', hi', hl => by
    obtain ⟨hk, ht, hi, hr⟩ := h
    subst hk
    simp only [List.cons_append, put]
    by_cases hkk : k1 = k
    · simp [lookup, hkk] at hl
    · simp only [hkk, if_false]
      simp only [lookup, hkk, if_false] at hl
      exact ⟨rfl, ht, hi, rel_insert hr k b' ts fs' hi' hl⟩
  | [], _ :: _, h, _, _, _, _, _, _ => by cases h
  | _ :: _, [], h, _, _, _, _, _, _ => by cases h

theorem rel_filter (f : Nat → Bool) : ∀ {m : List (Key × Buf × Nat)} {s : Pool Key}, Rel m s →
    Rel (m.filter (fun e => f e.2.2)) (s.filter (fun e => f e.2.1))
  | [], [], _ => trivial
  | (k1, b, t) :: m, (k2, t2, fs) :: s, h => by
    obtain ⟨hk, ht, hi, hr⟩ := h
    subst hk; subst ht
    simp only [List.filter_cons]
    cases hf : f t with
    | true => simp only [if_true]; exact ⟨rfl, rfl, hi, rel_filter f hr⟩
    | false => simp only [Bool.false_eq_true, if_false]; exact rel_filter f hr
  | [], _ :: _, h => by cases h
  | _ :: _, [], h => by cases h

/-- the first fragment of a stream never completes a datagram -/
theorem emit_first (f : Frag) (h : ¬ (f.last = true ∧ f.fo = 0)) : emit [f] = none := by
  unfold emit
  simp only [endOf]
  split
  · rename_i e he
    split at he
    · rename_i hl
      cases he
      split
      · rename_i hc
        have hfo : f.fo ≠ 0 := fun h0 => h ⟨hl, h0⟩
        have h0 := hc 0 (by unfold Frag.stop Frag.off; omega)
        simp only [covered, List.mem_singleton, exists_eq_left] at h0
        unfold Frag.off at h0; omega
      · rfl
    · cases he
  · rfl

/-! ### `process_sliced_packet`, case by case -/

theorem process_notfrag (p : Pool) (k : Key) (fo : Nat) (mf : Bool) (pl : Bytes) (ts : Nat)
    (h : ¬ (mf = true ∨ fo ≠ 0)) : p.process (.frag k fo mf pl) ts = (p, .ok none) := by
  simp only [Pool.process, h, not_false_eq_true, if_true]

theorem process_occupied_err (p : Pool) (k : Key) (fo : Nat) (mf : Bool) (pl : Bytes) (ts : Nat)
    (h : mf = true ∨ fo ≠ 0) {b : Buf} {t : Nat} (hl : lookup k p.active = some (b, t)) {e : Err}
    (ha : b.add fo mf pl = .error e) : p.process (.frag k fo mf pl) ts = (p, .error e) := by
  simp only [Pool.process, h, not_true_eq_false, if_false, hl, ha]

theorem process_occupied_complete (p : Pool) (k : Key) (fo : Nat) (mf : Bool) (pl : Bytes) (ts : Nat)
    (h : mf = true ∨ fo ≠ 0) {b : Buf} {t : Nat} (hl : lookup k p.active = some (b, t)) {b' : Buf}
    (ha : b.add fo mf pl = .ok b') (hc : b'.isComplete = true) :
    p.process (.frag k fo mf pl) ts =
      ({ active := erase k p.active, finishedDataBufs := p.finishedDataBufs,
         finishedSectionBufs := b'.sections :: p.finishedSectionBufs },
       .ok (some { ipNumber := k.payloadIpNumber, isIpv4 := k.ver = 4, payload := b'.data })) := by
  simp only [Pool.process, h, not_true_eq_false, if_false, hl, ha, hc, if_true]

theorem process_occupied_more (p : Pool) (k : Key) (fo : Nat) (mf : Bool) (pl : Bytes) (ts : Nat)
    (h : mf = true ∨ fo ≠ 0) {b : Buf} {t : Nat} (hl : lookup k p.active = some (b, t)) {b' : Buf}
    (ha : b.add fo mf pl = .ok b') (hc : b'.isComplete = false) :
    p.process (.frag k fo mf pl) ts =
      ({ active := replace k (b', ts) p.active, finishedDataBufs := p.finishedDataBufs,
         finishedSectionBufs := p.finishedSectionBufs }, .ok none) := by
  simp only [Pool.process, h, not_true_eq_false, if_false, hl, ha, hc, Bool.false_eq_true]

theorem process_vacant_ok (p : Pool) (k : Key) (fo : Nat) (mf : Bool) (pl : Bytes) (ts : Nat)
    (h : mf = true ∨ fo ≠ 0) (hl : lookup k p.active = none) {b' : Buf}
    (ha : (Buf.new k.payloadIpNumber).add fo mf pl = .ok b') :
    p.process (.frag k fo mf pl) ts =
      ({ active := p.active ++ [(k, b', ts)], finishedDataBufs := p.finishedDataBufs.tail,
         finishedSectionBufs := p.finishedSectionBufs.tail }, .ok none) := by
  simp only [Pool.process, h, not_true_eq_false, if_false, hl, ha]

theorem process_vacant_err (p : Pool) (k : Key) (fo : Nat) (mf : Bool) (pl : Bytes) (ts : Nat)
    (h : mf = true ∨ fo ≠ 0) (hl : lookup k p.active = none) {e : Err}
    (ha : (Buf.new k.payloadIpNumber).add fo mf pl = .error e) :
    p.process (.frag k fo mf pl) ts =
      ({ active := p.active, finishedDataBufs := [] :: p.finishedDataBufs.tail,
         finishedSectionBufs := [] :: p.finishedSectionBufs.tail }, .error e) := by
  simp only [Pool.process, h, not_true_eq_false, if_false, hl, ha]

/-! ### one step of a history -/

/-- the abstract operation a pool operation stands for -/
def specOp : Defrag.Op → Spec.Reasm.Op Key
  | .deliver (.frag k fo mf p) ts => .frag k ts (factOf fo mf p)
  | .deliver (.plain _ _) _ => .other
  | .deliver .nonIp _ => .other
  | .ret => .other
  | .retain m => .expire m

/-- the observable result of a pool operation agrees with the abstract one -/
def OutMatches (op : Defrag.Op) (o : Defrag.Out) (so : Spec.Reasm.Out) : Prop :=
  match op, so with
  | .ret, _ => ∃ n, o = .returned n
  | .deliver (.frag k _ _ _) _, .payload bs =>
    o = .ok { ipNumber := k.payloadIpNumber, isIpv4 := k.ver = 4, payload := bs.map some }
  | _, .none => o = .none
  | _, .rejected r => o = .err (errOf r)
  | _, .live n => o = .retained n
  | _, .payload _ => False

theorem step_refines_frag {s : Session} {sp : Pool Key} (hr : Rel s.pool.active sp)
    (k : Key) (fo : Nat) (mf : Bool) (pl : Bytes) (ts : Nat) :
    Rel (s.step (.deliver (.frag k fo mf pl) ts)).1.pool.active
        (deliver sp k ts (factOf fo mf pl)).1 ∧
    OutMatches (.deliver (.frag k fo mf pl) ts) (s.step (.deliver (.frag k fo mf pl) ts)).2
        (deliver sp k ts (factOf fo mf pl)).2 := by
  by_cases hfrag : mf = true ∨ fo ≠ 0
  · have hspec : ¬ ((factOf fo mf pl).last = true ∧ (factOf fo mf pl).fo = 0) := by
      simp only [factOf]; cases mf <;> simp at hfrag ⊢ <;> omega
    rcases rel_lookup hr k with ⟨hl, hf⟩ | ⟨b, t, fs, hl, hf, hi⟩
    · -- Entry::Vacant
      have hadd := add_eq (inv_new k.payloadIpNumber) fo mf pl
      cases hc : check [] (factOf fo mf pl) with
      | some r =>
        rw [hc] at hadd
        simp only [Session.step, process_vacant_err _ k fo mf pl ts hfrag hl hadd, deliver, hspec,
          if_false, hf, Option.getD_none, hc, OutMatches]
        exact ⟨hr, trivial⟩
      | none =>
        rw [hc] at hadd
        simp only [Session.step, process_vacant_ok _ k fo mf pl ts hfrag hl hadd, deliver, hspec,
          if_false, hf, Option.getD_none, hc, emit_first _ hspec, OutMatches]
        exact ⟨rel_insert hr k _ ts _ (addCore_inv (inv_new _) fo mf pl hc) hl, trivial⟩
    · -- Entry::Occupied
      have hadd := add_eq hi fo mf pl
      cases hc : check fs (factOf fo mf pl) with
      | some r =>
        rw [hc] at hadd
        simp only [Session.step, process_occupied_err _ k fo mf pl ts hfrag hl hadd, deliver, hspec,
          if_false, hf, Option.getD_some, hc, OutMatches]
        exact ⟨hr, trivial⟩
      | none =>
        rw [hc] at hadd
        have hi' := addCore_inv hi fo mf pl hc
        cases he : emit (factOf fo mf pl :: fs) with
        | some bs =>
          have hcomp : (b.addCore fo mf pl).isComplete = true :=
            (isComplete_iff hi').2 ((emit_isSome_iff _).1 (by simp [he]))
          simp only [Session.step, process_occupied_complete _ k fo mf pl ts hfrag hl hadd hcomp,
            deliver, hspec, if_false, hf, Option.getD_some, hc, he, OutMatches,
            complete_data hi' he]
          exact ⟨rel_erase hr k, trivial⟩
        | none =>
          have hcomp : (b.addCore fo mf pl).isComplete = false := by
            cases hx : (b.addCore fo mf pl).isComplete with
            | false => rfl
            | true =>
              have := (emit_isSome_iff _).2 ((isComplete_iff hi').1 hx)
              simp [he] at this
          simp only [Session.step, process_occupied_more _ k fo mf pl ts hfrag hl hadd hcomp,
            deliver, hspec, if_false, hf, Option.getD_some, hc, he, OutMatches]
          exact ⟨rel_replace hr k _ ts _ hi' (by simp [hl]), trivial⟩
  · have hspec : (factOf fo mf pl).last = true ∧ (factOf fo mf pl).fo = 0 := by
      simp only [factOf]; cases mf <;> simp at hfrag ⊢ <;> omega
    simp only [Session.step, process_notfrag _ k fo mf pl ts hfrag, deliver, hspec, and_self,
      if_true, OutMatches]
    exact ⟨hr, trivial⟩

theorem step_refines {s : Session} {sp : Pool Key} (hr : Rel s.pool.active sp) (op : Defrag.Op) :
    Rel (s.step op).1.pool.active (Spec.Reasm.step sp (specOp op)).1 ∧
    OutMatches op (s.step op).2 (Spec.Reasm.step sp (specOp op)).2 := by
  cases op with
  | deliver pkt ts =>
    cases pkt with
    | frag k fo mf pl => exact step_refines_frag hr k fo mf pl ts
    | plain k pl => simp only [Session.step, Pool.process, specOp, Spec.Reasm.step, OutMatches]; exact ⟨hr, trivial⟩
    | nonIp => simp only [Session.step, Pool.process, specOp, Spec.Reasm.step, OutMatches]; exact ⟨hr, trivial⟩
  | ret =>
    simp only [Session.step, specOp, Spec.Reasm.step, OutMatches]
    cases s.outstanding with
    | nil => exact ⟨hr, 0, rfl⟩
    | cons pl rest => exact ⟨hr, 1, rfl⟩
  | retain m =>
    simp only [Session.step, Pool.retain, specOp, Spec.Reasm.step, OutMatches]
    have := rel_filter (fun t => decide (t ≥ m)) hr
    exact ⟨this, by rw [rel_length this]⟩

/-! ### lookups in the map, key uniqueness, matching of output lists -/

theorem lookup_erase_ne (k k' : Key) (hne : k' ≠ k) : ∀ m : List (Key × Buf × Nat),
    lookup k' (erase k m) = lookup k' m
  | [] => rfl
  | (k1, v) :: m => by
    simp only [erase]
    by_cases h1 : k1 = k
    · simp only [h1, if_true, lookup]
      have : ¬ k = k' := fun hh => hne hh.symm
      simp [this]
    · simp only [h1, if_false, lookup]
      rw [lookup_erase_ne k k' hne m]

theorem lookup_replace_ne (k k' : Key) (v : Buf × Nat) (hne : k' ≠ k) :
    ∀ m : List (Key × Buf × Nat), lookup k' (replace k v m) = lookup k' m
  | [] => rfl
  | (k1, v1) :: m => by
    simp only [replace]
    by_cases h1 : k1 = k
    · simp only [h1, if_true, lookup]
      have : ¬ k = k' := fun hh => hne hh.symm
      simp [this]
    · simp only [h1, if_false, lookup]
      rw [lookup_replace_ne k k' v hne m]

theorem lookup_append_ne (k k' : Key) (v : Buf × Nat) (hne : k' ≠ k) :
    ∀ m : List (Key × Buf × Nat), lookup k' (m ++ [(k, v)]) = lookup k' m
  | [] => by
    have : ¬ k = k' := fun hh => hne hh.symm
    simp [lookup, this]
  | (k1, v1) :: m => by
    simp only [List.cons_append, lookup]
    rw [lookup_append_ne k k' v hne m]

/-- outputs of a history agree, operation by operation -/
def AllMatch : List Defrag.Op → List Defrag.Out → List Spec.Reasm.Out → Prop
  | [], [], [] => True
  | op :: ops, o :: os, so :: sos => OutMatches op o so ∧ AllMatch ops os sos
  | _, _, _ => False

theorem outMatches_ok {op : Defrag.Op} {p : Payload} {so : Spec.Reasm.Out}
    (h : OutMatches op (.ok p) so) : ∃ bs : Bytes, p.payload = bs.map some := by
  unfold OutMatches at h
  split at h
  · obtain ⟨n, hn⟩ := h; cases hn
  · cases h; exact ⟨_, rfl⟩
  · cases h
  · cases h
  · cases h
  · cases h

theorem allMatch_ok : ∀ {ops : List Defrag.Op} {os : List Defrag.Out} {sos : List Spec.Reasm.Out},
    AllMatch ops os sos → ∀ p, Out.ok p ∈ os → ∃ bs : Bytes, p.payload = bs.map some
  | [], [], [], _, p, hm => by cases hm
  | op :: ops, o :: os, so :: sos, h, p, hm => by
    rcases List.mem_cons.1 hm with hm | hm
    · rw [← hm] at h; exact outMatches_ok h.1
    · exact allMatch_ok h.2 p hm
  | [], [], _ :: _, h, _, _ => by cases h
  | [], _ :: _, _, h, _, _ => by cases h
  | _ :: _, [], _, h, _, _ => by cases h
  | _ :: _, _ :: _, [], h, _, _ => by cases h

/-- no key occurs twice in the map (the HashMap property; an invariant of the model's list) -/
def UniqueKeys : List (Key × Buf × Nat) → Prop
  | [] => True
  | (k, _) :: m => lookup k m = none ∧ UniqueKeys m

theorem lookup_replace_none (k : Key) (v : Buf × Nat) (k' : Key) :
    ∀ m : List (Key × Buf × Nat), lookup k' (replace k v m) = none ↔ lookup k' m = none
  | [] => by simp [replace]
  | (k1, v1) :: m => by
    simp only [replace]
    by_cases h1 : k1 = k
    · simp only [h1, if_true, lookup]
      by_cases h2 : k = k' <;> simp [h2]
    · simp only [h1, if_false, lookup]
      by_cases h2 : k1 = k'
      · simp [h2]
      · simp only [h2, if_false]; exact lookup_replace_none k v k' m

theorem lookup_filter_none (f : Key × Buf × Nat → Bool) (k : Key) :
    ∀ m : List (Key × Buf × Nat), lookup k m = none → lookup k (m.filter f) = none
  | [], _ => rfl
  | (k1, v1) :: m, h => by
    simp only [lookup] at h
    by_cases h1 : k1 = k
    · simp [h1] at h
    · simp only [h1, if_false] at h
      simp only [List.filter_cons]
      split
      · simp only [lookup, h1, if_false]; exact lookup_filter_none f k m h
      · exact lookup_filter_none f k m h

theorem unique_erase (k : Key) : ∀ m : List (Key × Buf × Nat), UniqueKeys m → UniqueKeys (erase k m)
  | [], _ => trivial
  | (k1, v1) :: m, h => by
    simp only [erase]
    by_cases h1 : k1 = k
    · simp only [h1, if_true]; exact h.2
    · simp only [h1, if_false]
      exact ⟨by rw [lookup_erase_ne k k1 h1 m]; exact h.1, unique_erase k m h.2⟩

theorem unique_replace (k : Key) (v : Buf × Nat) :
    ∀ m : List (Key × Buf × Nat), UniqueKeys m → UniqueKeys (replace k v m)
  | [], _ => trivial
  | (k1, v1) :: m, h => by
    simp only [replace]
    by_cases h1 : k1 = k
    · simp only [h1, if_true]; exact ⟨by rw [← h1]; exact h.1, h.2⟩
    · simp only [h1, if_false]
      exact ⟨(lookup_replace_none k v k1 m).2 h.1, unique_replace k v m h.2⟩

theorem unique_append (k : Key) (v : Buf × Nat) :
    ∀ m : List (Key × Buf × Nat), UniqueKeys m → lookup k m = none → UniqueKeys (m ++ [(k, v)])
  | [], _, _ => ⟨rfl, trivial⟩
  | (k1, v1) :: m, h, hl => by
    simp only [lookup] at hl
    by_cases h1 : k1 = k
    · simp [h1] at hl
    · simp only [h1, if_false] at hl
      simp only [List.cons_append]
      exact ⟨by rw [lookup_append_ne k k1 v h1 m]; exact h.1, unique_append k v m h.2 hl⟩

theorem unique_filter (f : Key × Buf × Nat → Bool) :
    ∀ m : List (Key × Buf × Nat), UniqueKeys m → UniqueKeys (m.filter f)
  | [], _ => trivial
  | (k1, v1) :: m, h => by
    simp only [List.filter_cons]
    split
    · exact ⟨lookup_filter_none f k1 m h.1, unique_filter f m h.2⟩
    · exact unique_filter f m h.2

theorem lookup_erase_self (k : Key) :
    ∀ m : List (Key × Buf × Nat), UniqueKeys m → lookup k (erase k m) = none
  | [], _ => rfl
  | (k1, v1) :: m, h => by
    simp only [erase]
    by_cases h1 : k1 = k
    · simp only [h1, if_true]; rw [← h1]; exact h.1
    · simp only [h1, if_false, lookup]; exact lookup_erase_self k m h.2

/-- key uniqueness is kept by `process_sliced_packet` -/
theorem unique_process (p : Pool) (pkt : Packet) (ts : Nat) (h : UniqueKeys p.active) :
    UniqueKeys (p.process pkt ts).1.active := by
  cases pkt with
  | nonIp => exact h
  | plain k pl => exact h
  | frag k fo mf pl =>
    by_cases hf : mf = true ∨ fo ≠ 0
    · cases hl : lookup k p.active with
      | none =>
        cases ha : (Buf.new k.payloadIpNumber).add fo mf pl with
        | ok b' =>
          rw [process_vacant_ok p k fo mf pl ts hf hl ha]
          exact unique_append k _ _ h hl
        | error e' => rw [process_vacant_err p k fo mf pl ts hf hl ha]; exact h
      | some v =>
        obtain ⟨b, t⟩ := v
        cases ha : b.add fo mf pl with
        | error e' => rw [process_occupied_err p k fo mf pl ts hf hl ha]; exact h
        | ok b' =>
          cases hc : b'.isComplete with
          | true =>
            rw [process_occupied_complete p k fo mf pl ts hf hl ha hc]
            exact unique_erase k _ h
          | false =>
            rw [process_occupied_more p k fo mf pl ts hf hl ha hc]
            exact unique_replace k _ _ h
    · rw [process_notfrag p k fo mf pl ts hf]; exact h

/-! ### a stream only depends on its own entry -/

theorem step_pool (s : Session) (pkt : Packet) (ts : Nat) :
    (s.step (.deliver pkt ts)).1.pool = (s.pool.process pkt ts).1 := by
  simp only [Session.step]
  split <;> rename_i h <;> simp [h]

theorem unique_step (s : Session) (op : Defrag.Op) (h : UniqueKeys s.pool.active) :
    UniqueKeys (s.step op).1.pool.active := by
  cases op with
  | deliver pkt ts => rw [step_pool]; exact unique_process s.pool pkt ts h
  | ret =>
    simp only [Session.step]
    split
    · exact h
    · exact h
  | retain m => exact unique_filter _ _ h

theorem lookup_append_self (k : Key) (v : Buf × Nat) :
    ∀ m : List (Key × Buf × Nat), lookup k m = none → lookup k (m ++ [(k, v)]) = some v
  | [], _ => by simp [lookup]
  | (k1, v1) :: m, h => by
    simp only [lookup] at h
    by_cases h1 : k1 = k
    · simp [h1] at h
    · simp only [h1, if_false] at h
      simp only [List.cons_append, lookup, h1, if_false]
      exact lookup_append_self k v m h

theorem lookup_replace_self (k : Key) (v : Buf × Nat) :
    ∀ m : List (Key × Buf × Nat), lookup k m ≠ none → lookup k (replace k v m) = some v
  | [], h => by simp [lookup] at h
  | (k1, v1) :: m, h => by
    simp only [replace]
    by_cases h1 : k1 = k
    · simp [h1, lookup]
    · simp only [h1, if_false, lookup] at h ⊢
      exact lookup_replace_self k v m h

theorem lookup_filter (g : Key × Buf × Nat → Bool) (k : Key) :
    ∀ m : List (Key × Buf × Nat), UniqueKeys m →
    lookup k (m.filter g) = match lookup k m with
      | some v => if g (k, v) then some v else none
      | none => none
  | [], _ => rfl
  | (k1, v1) :: m, h => by
    simp only [List.filter_cons, lookup]
    by_cases h1 : k1 = k
    · subst h1
      simp only [if_true]
      split
      · simp [lookup]
      · rename_i hg
        rw [lookup_filter_none g k1 m h.1]
    · simp only [h1, if_false]
      split
      · simp only [lookup, h1, if_false]; exact lookup_filter g k m h.2
      · exact lookup_filter g k m h.2

/-- a delivery for stream `k`: the result and the new entry of `k` depend on the entry of `k` only -/
theorem step_same_key {s s' : Session} (k : Key) (fo : Nat) (mf : Bool) (pl : Bytes) (ts : Nat)
    (h : lookup k s.pool.active = lookup k s'.pool.active)
    (hu : UniqueKeys s.pool.active) (hu' : UniqueKeys s'.pool.active) :
    (s.step (.deliver (.frag k fo mf pl) ts)).2 = (s'.step (.deliver (.frag k fo mf pl) ts)).2 ∧
    lookup k (s.step (.deliver (.frag k fo mf pl) ts)).1.pool.active =
      lookup k (s'.step (.deliver (.frag k fo mf pl) ts)).1.pool.active := by
  by_cases hf : mf = true ∨ fo ≠ 0
  · cases hl : lookup k s.pool.active with
    | none =>
      have hl' : lookup k s'.pool.active = none := by rw [← h, hl]
      cases ha : (Buf.new k.payloadIpNumber).add fo mf pl with
      | ok b' =>
        simp only [Session.step, process_vacant_ok _ k fo mf pl ts hf hl ha,
          process_vacant_ok _ k fo mf pl ts hf hl' ha]
        exact ⟨trivial, by rw [lookup_append_self k _ _ hl, lookup_append_self k _ _ hl']⟩
      | error e' =>
        simp only [Session.step, process_vacant_err _ k fo mf pl ts hf hl ha,
          process_vacant_err _ k fo mf pl ts hf hl' ha]
        exact ⟨trivial, by rw [hl, hl']⟩
    | some v =>
      obtain ⟨b, t⟩ := v
      have hl' : lookup k s'.pool.active = some (b, t) := by rw [← h, hl]
      cases ha : b.add fo mf pl with
      | error e' =>
        simp only [Session.step, process_occupied_err _ k fo mf pl ts hf hl ha,
          process_occupied_err _ k fo mf pl ts hf hl' ha]
        exact ⟨trivial, by rw [hl, hl']⟩
      | ok b' =>
        cases hc : b'.isComplete with
        | true =>
          simp only [Session.step, process_occupied_complete _ k fo mf pl ts hf hl ha hc,
            process_occupied_complete _ k fo mf pl ts hf hl' ha hc]
          exact ⟨trivial, by rw [lookup_erase_self k _ hu, lookup_erase_self k _ hu']⟩
        | false =>
          simp only [Session.step, process_occupied_more _ k fo mf pl ts hf hl ha hc,
            process_occupied_more _ k fo mf pl ts hf hl' ha hc]
          exact ⟨trivial, by
            rw [lookup_replace_self k _ _ (by simp [hl]), lookup_replace_self k _ _ (by simp [hl'])]⟩
  · simp only [Session.step, process_notfrag _ k fo mf pl ts hf]
    exact ⟨trivial, h⟩

end EpModel.Lemmas.Defrag
