import EpModel.Lemmas.CodecNetBits
import EpModel.Model.Codec.NetIpv4
import EpModel.Lemmas.Checksum
/- Helper lemmas about the Ipv4Header / Ipv4HeaderSlice model. -/
namespace EpModel.Lemmas.CodecNet.Ipv4
open EpModel EpModel.CodecNet EpModel.Lemmas.CodecNet

theorem flagBits_eq (h : Ipv4Header) :
    h.flagBits = (if h.dontFragment then 64 else 0) + (if h.moreFragments then 32 else 0) := by
  unfold Ipv4Header.flagBits
  cases h.dontFragment <;> cases h.moreFragments <;> rfl

theorem ihl_eq (h : Ipv4Header) (ho : h.options.length ≤ 40) : h.ihl = h.options.length / 4 + 5 := by
  unfold Ipv4Header.ihl Ipv4Header.optLenU8; omega

/-- the twelve fixed bytes in front of the addresses as plain arithmetic (for in-range values). -/
theorem fixedPart_eq (h : Ipv4Header) (cks : Nat) (wf : h.WF) :
    h.fixedPart cks =
      [ u8 (64 + (h.options.length / 4 + 5)), u8 (h.dscp * 4 + h.ecn),
        u8 (h.totalLen / 256), u8 h.totalLen, u8 (h.identification / 256), u8 h.identification,
        u8 ((if h.dontFragment then 64 else 0) + (if h.moreFragments then 32 else 0)
              + h.fragmentOffset / 256),
        u8 (h.fragmentOffset % 256), u8 h.timeToLive, u8 h.protocol, u8 (cks / 256), u8 cks ]
        ++ h.source ++ h.destination := by
  obtain ⟨h1, h2, _, _, h5, _, _, _, _, _, h11, _⟩ := wf
  have e0 : (4 <<< 4) ||| h.ihl = 64 + (h.options.length / 4 + 5) := by
    rw [ihl_eq h h11]; exact or_eq_add 4 (by decide) (by omega)
  have e1 : shl8 h.dscp 2 ||| h.ecn = h.dscp * 4 + h.ecn := by
    unfold shl8; rw [Nat.shiftLeft_eq, or_eq_add 2 (by omega) (by omega)]; omega
  have e6 : (h.fragAndFlags).1 = (if h.dontFragment then 64 else 0)
      + (if h.moreFragments then 32 else 0) + h.fragmentOffset / 256 := by
    unfold Ipv4Header.fragAndFlags
    simp only [flagBits_eq, and31]
    rw [or_eq_add 5 (by split <;> split <;> omega) (by omega)]; omega
  have e7 : (h.fragAndFlags).2 = h.fragmentOffset % 256 := rfl
  unfold Ipv4Header.fixedPart
  rw [e0, e1, e6, e7]

theorem fixedPart_length (h : Ipv4Header) (cks : Nat) (wf : h.WF) :
    (h.fixedPart cks).length = 20 := by
  obtain ⟨_, _, _, _, _, _, _, _, h9, h10, _, _⟩ := wf
  simp [Ipv4Header.fixedPart, h9, h10]

/-- `to_bytes` (60 byte array truncated by `set_len`) is the fixed part followed by the options. -/
theorem toBytes_eq (h : Ipv4Header) (wf : h.WF) :
    h.toBytes = h.fixedPart h.headerChecksum ++ h.options := by
  have hl := fixedPart_length h h.headerChecksum wf
  unfold Ipv4Header.toBytes Ipv4Header.optBuf Ipv4Header.headerLen
  show ((h.fixedPart h.headerChecksum) ++ (h.options ++ zeros (40 - h.options.length))).take
      (20 + h.options.length) = _
  rw [← List.append_assoc, List.take_left']
  simp [hl]

theorem toBytes_length (h : Ipv4Header) (wf : h.WF) : h.toBytes.length = 20 + h.options.length := by
  rw [toBytes_eq h wf, List.length_append, fixedPart_length h _ wf]

theorem slice_of_toBytes (h : Ipv4Header) (tail : Bytes) (wf : h.WF) :
    Ipv4HeaderSlice.fromSlice (h.toBytes ++ tail) = .ok { slice := h.toBytes } := by
  have hl := toBytes_length h wf
  have hb0 : bAt (h.toBytes ++ tail) 0 = 64 + (h.options.length / 4 + 5) := by
    rw [toBytes_eq h wf, fixedPart_eq h _ wf]
    have := wf.2.2.2.2.2.2.2.2.2.2.1
    simp; omega
  obtain ⟨_, _, _, _, _, _, _, _, _, _, h11, h12⟩ := wf
  unfold Ipv4HeaderSlice.fromSlice
  simp only [hb0, List.length_append, hl, Nat.shiftRight_eq_div_pow, and15]
  have c1 : ¬ (20 + h.options.length + tail.length < 20) := by omega
  have c2 : ¬ (4 ≠ (64 + (h.options.length / 4 + 5)) / 2 ^ 4) := by omega
  have c3 : ¬ ((64 + (h.options.length / 4 + 5)) % 16 < 5) := by omega
  have c4 : (64 + (h.options.length / 4 + 5)) % 16 * 4 = 20 + h.options.length := by omega
  simp only [c1, c2, c3, c4, if_false]
  have c5 : ¬ (20 + h.options.length + tail.length < 20 + h.options.length) := by omega
  simp only [c5, if_false]
  rw [List.take_left' hl]

theorem toHeader_toBytes (h : Ipv4Header) (wf : h.WF) :
    Ipv4HeaderSlice.toHeader { slice := h.toBytes } = h := by
  have hl := toBytes_length h wf
  have hb := toBytes_eq h wf
  rw [fixedPart_eq h _ wf] at hb
  obtain ⟨dscp, ecn, tl, id, df, mf, fo, ttl, proto, ck, src, dst, opts⟩ := h
  obtain ⟨h1, h2, h3, h4, h5, h6, h7, h8, h9, h10, h11, h12⟩ := wf
  simp only at h1 h2 h3 h4 h5 h6 h7 h8 h9 h10 h11 h12 hl hb
  have hf : ((if df = true then 64 else 0) + (if mf = true then 32 else 0) + fo / 256) < 256 := by
    split <;> split <;> omega
  simp only [Ipv4HeaderSlice.toHeader, Ipv4HeaderSlice.dcp, Ipv4HeaderSlice.ecn,
    Ipv4HeaderSlice.totalLen, Ipv4HeaderSlice.identification, Ipv4HeaderSlice.dontFragment,
    Ipv4HeaderSlice.moreFragments, Ipv4HeaderSlice.fragmentsOffset, Ipv4HeaderSlice.ttl,
    Ipv4HeaderSlice.protocol, Ipv4HeaderSlice.headerChecksum, Ipv4HeaderSlice.source,
    Ipv4HeaderSlice.destination, Ipv4HeaderSlice.options, hb]
  simp [be16, sub, Nat.shiftRight_eq_div_pow, and3, and31, h9, h10]
  rw [Nat.mod_eq_of_lt hf, and64 _ hf, and32 _ hf]
  refine ⟨by omega, by omega, by omega, by omega, ?_, ?_, ?_, by omega, by omega, by omega, ?_⟩
  · cases df <;> cases mf <;> simp <;> omega
  · cases df <;> cases mf <;> simp <;> omega
  · cases df <;> cases mf <;> simp <;> omega
  · have e : 4 + (4 + opts.length) - 8 = opts.length := by omega
    rw [e, ← List.append_assoc, List.drop_left' (by simp [h9, h10]), List.take_length]

/-- every header decoded from a slice of 20..60 bytes (multiple of 4) is in range. -/
theorem toHeader_wf (s : Ipv4HeaderSlice) (h20 : 20 ≤ s.slice.length) (h60 : s.slice.length ≤ 60)
    (h4 : s.slice.length % 4 = 0) : s.toHeader.WF := by
  have a1 := bAt_lt s.slice 1; have a6 := bAt_lt s.slice 6; have a7 := bAt_lt s.slice 7
  refine ⟨?_, ?_, be16_lt _ _, be16_lt _ _, ?_, bAt_lt _ _, bAt_lt _ _, be16_lt _ _, ?_, ?_, ?_, ?_⟩
  · show bAt s.slice 1 >>> 2 < 64
    rw [Nat.shiftRight_eq_div_pow]; omega
  · show bAt s.slice 1 &&& 3 < 4
    rw [and3]; omega
  · show (bAt s.slice 6 &&& 0x1f) * 256 + bAt s.slice 7 < 8192
    rw [and31]; omega
  · exact sub_length _ _ _ (by omega)
  · exact sub_length _ _ _ (by omega)
  · show (sub s.slice 20 (s.slice.length - 20)).length ≤ 40
    rw [sub_length _ _ _ (by omega)]; omega
  · show (sub s.slice 20 (s.slice.length - 20)).length % 4 = 0
    rw [sub_length _ _ _ (by omega)]; omega

/-- what a successful `Ipv4Header::from_slice` says about its input. -/
theorem fromSlice_ok (b : Bytes) (h : Ipv4Header) (rest : Bytes)
    (hd : Ipv4Header.fromSlice b = .ok (h, rest)) :
    20 ≤ b.length ∧ bAt b 0 / 16 = 4 ∧ 5 ≤ bAt b 0 % 16 ∧ bAt b 0 % 16 * 4 ≤ b.length ∧
      h = Ipv4HeaderSlice.toHeader { slice := b.take (bAt b 0 % 16 * 4) } ∧
      rest = b.drop (bAt b 0 % 16 * 4) := by
  unfold Ipv4Header.fromSlice Ipv4HeaderSlice.fromSlice at hd
  simp only [Nat.shiftRight_eq_div_pow, and15] at hd
  by_cases c1 : b.length < 20
  · simp [c1] at hd
  · by_cases c2 : 4 ≠ bAt b 0 / 2 ^ 4
    · simp [c1, c2] at hd
    · by_cases c3 : bAt b 0 % 16 < 5
      · simp [c1, c2, c3] at hd
      · by_cases c4 : b.length < bAt b 0 % 16 * 4
        · simp [c1, c2, c3, c4] at hd
        · simp only [c1, c2, c3, c4, if_false, Except.ok.injEq, Prod.mk.injEq] at hd
          have hlen : (List.take (bAt b 0 % 16 * 4) b).length = bAt b 0 % 16 * 4 := by
            simp; omega
          have hopt : (Ipv4HeaderSlice.toHeader { slice := b.take (bAt b 0 % 16 * 4) }).headerLen
              = bAt b 0 % 16 * 4 := by
            show 20 + (sub (b.take (bAt b 0 % 16 * 4)) 20
              ((b.take (bAt b 0 % 16 * 4)).length - 20)).length = _
            rw [sub_length _ _ _ (by omega)]; omega
          rw [hopt] at hd
          exact ⟨by omega, by omega, by omega, by omega, hd.1.symm, hd.2.symm⟩

/-- re-encoding the header decoded from `20 + n` bytes whose first byte is `0x40 | (5 + n/4)` gives
    the bytes back with bit 7 of byte 6 (reserved flag) cleared. -/
theorem toBytes_toHeader (b0 b1 b2 b3 b4 b5 b6 b7 b8 b9 b10 b11 b12 b13 b14 b15 b16 b17 b18 b19 : UInt8)
    (r : Bytes) (hr : r.length ≤ 40) (hr4 : r.length % 4 = 0)
    (hb0 : b0.toNat = 64 + (r.length / 4 + 5)) :
    (Ipv4HeaderSlice.toHeader { slice := b0 :: b1 :: b2 :: b3 :: b4 :: b5 :: b6 :: b7 :: b8 :: b9 ::
        b10 :: b11 :: b12 :: b13 :: b14 :: b15 :: b16 :: b17 :: b18 :: b19 :: r }).toBytes
      = b0 :: b1 :: b2 :: b3 :: b4 :: b5 :: u8 (b6.toNat &&& 127) :: b7 :: b8 :: b9 ::
        b10 :: b11 :: b12 :: b13 :: b14 :: b15 :: b16 :: b17 :: b18 :: b19 :: r := by
  have l1 := b1.toNat_lt; have l2 := b2.toNat_lt; have l3 := b3.toNat_lt
  have l4 := b4.toNat_lt; have l5 := b5.toNat_lt; have l6 := b6.toNat_lt; have l7 := b7.toNat_lt
  have l8 := b8.toNat_lt; have l9 := b9.toNat_lt; have l10 := b10.toNat_lt
  have l11 := b11.toNat_lt
  have wf := toHeader_wf { slice := b0 :: b1 :: b2 :: b3 :: b4 :: b5 :: b6 :: b7 :: b8 :: b9 ::
        b10 :: b11 :: b12 :: b13 :: b14 :: b15 :: b16 :: b17 :: b18 :: b19 :: r }
    (by simp) (by simp; omega) (by simp; omega)
  rw [toBytes_eq _ wf, fixedPart_eq _ _ wf]
  simp only [Ipv4HeaderSlice.toHeader, Ipv4HeaderSlice.dcp, Ipv4HeaderSlice.ecn,
    Ipv4HeaderSlice.totalLen, Ipv4HeaderSlice.identification, Ipv4HeaderSlice.dontFragment,
    Ipv4HeaderSlice.moreFragments, Ipv4HeaderSlice.fragmentsOffset, Ipv4HeaderSlice.ttl,
    Ipv4HeaderSlice.protocol, Ipv4HeaderSlice.headerChecksum, Ipv4HeaderSlice.source,
    Ipv4HeaderSlice.destination, Ipv4HeaderSlice.options]
  simp [be16, sub, Nat.shiftRight_eq_div_pow, and3, and31, and127, and64 _ l6, and32 _ l6]
  refine ⟨u8_eq_of (by omega), u8_eq_of (by omega), u8_eq_of (by omega), u8_eq_of (by omega),
    u8_eq_of (by omega), u8_eq_of (by omega), ?_, u8_eq_of (by omega), u8_eq_of (by omega),
    u8_eq_of (by omega), u8_eq_of (by omega), u8_eq_of (by omega)⟩
  congr 1
  split <;> split <;> omega

/-- the reserved-bit table of the IPv4 header applied to a header of at least 7 bytes. -/
theorem maskReserved_eq (b0 b1 b2 b3 b4 b5 b6 : UInt8) (r : Bytes) :
    maskReserved .ipv4 (b0 :: b1 :: b2 :: b3 :: b4 :: b5 :: b6 :: r)
      = b0 :: b1 :: b2 :: b3 :: b4 :: b5 :: u8 (b6.toNat &&& 127) :: r := by
  simp [maskReserved, reservedTable, clearBits]

/-- one 8 byte step of `u64_16bit_word::add_slice` (unfolding lemma for concrete examples). -/
theorem addSlice64_step (s : Nat) (b : Bytes) (h : 8 ≤ b.length) :
    Checksum.addSlice64 s b = Checksum.addSlice64 (Checksum.add8_64 s (b.take 8)) (b.drop 8) := by
  rw [Checksum.addSlice64]; simp [h]

end EpModel.Lemmas.CodecNet.Ipv4
