import EpModel.Model.Builder
import EpModel.Lemmas.CodecNetAuth
import EpModel.Lemmas.CodecNetRawExt
import EpModel.Lemmas.CodecNetIpv4
import EpModel.Lemmas.CodecNetIpv6
import EpModel.Lemmas.CodecNetIpv6Frag
import EpModel.Props.C08Link
/- Helper lemmas for C10 (PacketBuilder model). -/
namespace EpModel.Lemmas.Builder
open EpModel EpModel.Codec EpModel.CodecNet EpModel.Builder EpModel.Checksum

/-! ### IPv6 extension chain: `write_internal` after `set_next_headers` -/
section Exts
open Ipv6Exts

theorem writeLoop_done (e : Ipv6Exts) (x : Nat) (rw : Bool) (out : Bytes) :
    writeLoop e x rw { hbh := false, dest := false, routing := false, fragment := false,
                       auth := false, finalDest := false } out = (out, none) := by
  rw [writeLoop]
  simp [notWritten]

theorem writeLoop_43 (e : Ipv6Exts) (rw : Bool) (n : Needs) (out : Bytes) (r : Ipv6Routing)
    (he : e.routing = some r) (hn : n.routing = true) :
    writeLoop e 43 rw n out
      = writeLoop e r.routing.nextHeader true { n with routing := false } (out ++ r.routing.toBytes) := by
  rw [writeLoop]; simp [he, hn]

theorem writeLoop_44 (e : Ipv6Exts) (rw : Bool) (n : Needs) (out : Bytes) (h : Ipv6FragmentHeader)
    (he : e.fragment = some h) (hn : n.fragment = true) :
    writeLoop e 44 rw n out
      = writeLoop e h.nextHeader rw { n with fragment := false } (out ++ h.toBytes) := by
  rw [writeLoop]; simp [he, hn]

theorem writeLoop_51 (e : Ipv6Exts) (rw : Bool) (n : Needs) (out : Bytes) (h : IpAuthHeader)
    (he : e.auth = some h) (hn : n.auth = true) :
    writeLoop e 51 rw n out
      = writeLoop e h.nextHeader rw { n with auth := false } (out ++ h.toBytes) := by
  rw [writeLoop]; simp [he, hn]

theorem writeLoop_60_dest (e : Ipv6Exts) (n : Needs) (out : Bytes) (h : Ipv6RawExtHeader)
    (he : e.dest = some h) (hn : n.dest = true) :
    writeLoop e 60 false n out
      = writeLoop e h.nextHeader false { n with dest := false } (out ++ h.toBytes) := by
  rw [writeLoop]; simp [he, hn]

theorem writeLoop_60_final (e : Ipv6Exts) (n : Needs) (out : Bytes) (h : Ipv6RawExtHeader)
    (he : e.finalDest = some h) (hn : n.finalDest = true) :
    writeLoop e 60 true n out
      = writeLoop e h.nextHeader true { n with finalDest := false } (out ++ h.toBytes) := by
  rw [writeLoop]; simp [he, hn]

/-- the headers of an extension set in the order `set_next_headers` chains them (RFC 8200 4.1) -/
def stdBytes (e : Ipv6Exts) : Bytes :=
  (match e.hbh with | some h => h.toBytes | none => []) ++
  (match e.dest with | some h => h.toBytes | none => []) ++
  (match e.routing with | some r => r.routing.toBytes | none => []) ++
  (match e.fragment with | some h => h.toBytes | none => []) ++
  (match e.auth with | some h => h.toBytes | none => []) ++
  (match e.finalDest with | some h => h.toBytes | none => [])

/-- after `set_next_headers`, `write_internal` started at the returned number writes every present
    header, in the standard order, and reports no error — for every extension set and every
    last protocol number (also 0, 43, 44, 51, 60). -/
theorem write_after_set (e : Ipv6Exts) (last : Nat) :
    writeInternal (e.setNextHeaders last).1 (e.setNextHeaders last).2
      = (stdBytes (e.setNextHeaders last).1, none) := by
  obtain ⟨hbh, dest, routing, fragment, auth⟩ := e
  cases hbh <;> cases dest <;> cases fragment <;> cases auth <;>
    rcases routing with _ | ⟨r, _ | fd⟩ <;>
    simp [setNextHeaders, writeInternal, finalDest, stdBytes, rawWithNext, fragWithNext, authWithNext,
      writeLoop_done, writeLoop_43, writeLoop_44, writeLoop_51, writeLoop_60_dest, writeLoop_60_final]

theorem rawWithNext_wf (h : Ipv6RawExtHeader) (n : Nat) (wf : h.WF) (hn : n < 256) : (rawWithNext h n).WF := by
  obtain ⟨_, a, b, c⟩ := wf; exact ⟨hn, a, b, c⟩
theorem fragWithNext_wf (h : Ipv6FragmentHeader) (n : Nat) (wf : h.WF) (hn : n < 256) : (fragWithNext h n).WF := by
  obtain ⟨_, a, b⟩ := wf; exact ⟨hn, a, b⟩
theorem authWithNext_wf (h : IpAuthHeader) (n : Nat) (wf : h.WF) (hn : n < 256) : (authWithNext h n).WF := by
  obtain ⟨_, a, b, c, d⟩ := wf; exact ⟨hn, a, b, c, d⟩

theorem setNextHeaders_wf (e : Ipv6Exts) (last : Nat) (wf : e.WF) (hl : last < 256) :
    (e.setNextHeaders last).1.WF ∧ (e.setNextHeaders last).2 < 256 := by
  obtain ⟨hbh, dest, routing, fragment, auth⟩ := e
  obtain ⟨w1, w2, w3, w4, w5⟩ := wf
  cases hbh <;> cases dest <;> cases fragment <;> cases auth <;>
    rcases routing with _ | ⟨r, _ | fd⟩ <;>
    simp_all [setNextHeaders, finalDest, Ipv6Exts.WF, optP, Ipv6Routing.WF,
      rawWithNext_wf, fragWithNext_wf, authWithNext_wf]

theorem setNextHeaders_headerLen (e : Ipv6Exts) (last : Nat) :
    (e.setNextHeaders last).1.headerLen = e.headerLen := by
  obtain ⟨hbh, dest, routing, fragment, auth⟩ := e
  cases hbh <;> cases dest <;> cases fragment <;> cases auth <;>
    rcases routing with _ | ⟨r, _ | fd⟩ <;>
    simp [setNextHeaders, finalDest, headerLen, optLen, rawWithNext, fragWithNext, authWithNext,
      Ipv6RawExtHeader.headerLen, Ipv6RawExtHeader.headerLength, IpAuthHeader.headerLen,
      IpAuthHeader.rawIcvLen, Ipv6FragmentHeader.headerLen]

theorem stdBytes_length (e : Ipv6Exts) (wf : e.WF) : (stdBytes e).length = e.headerLen := by
  obtain ⟨hbh, dest, routing, fragment, auth⟩ := e
  obtain ⟨w1, w2, w3, w4, w5⟩ := wf
  cases hbh <;> cases dest <;> cases fragment <;> cases auth <;>
    rcases routing with _ | ⟨r, _ | fd⟩ <;>
    simp_all [stdBytes, finalDest, headerLen, optLen, optP, Ipv6Routing.WF,
      CodecNet.RawExt.toBytes_length, CodecNet.RawExt.headerLen_eq, CodecNet.Auth.toBytes_length,
      CodecNet.Auth.headerLen_eq, Ipv6FragmentHeader.headerLen, CodecNet.Ipv6Frag.toBytes_length] <;>
    omega

end Exts


/-! ### lengths of the emitted headers -/

theorem eth2_len (h : Eth2) (hd : h.dst.length = 6) (hs : h.src.length = 6) : (Eth2.toBytes h).length = 14 := by
  simp [Eth2.toBytes, hd, hs]
theorem sll_len (h : Sll) (ha : h.addr.length = 8) : (Sll.toBytes h).length = 16 := by
  simp [Sll.toBytes, ha]
theorem vlan_len (h : Vlan) : (Vlan.toBytes h).length = 4 := by simp [Vlan.toBytes]
theorem udp_len (h : Udp) : (Udp.toBytes h).length = 8 := by simp [Udp.toBytes]
theorem tcp_len (h : Tcp) (hb : h.opts.buf.length = 40) (hl : h.opts.len ≤ 40) :
    (Tcp.toBytes h).length = 20 + h.opts.len := by
  rw [EpModel.Props.C08Link.Tcp.toBytes_eq]
  simp [EpModel.Props.C08Link.Tcp.fixed_length, hb]; omega
theorem icmp4_len (h : Icmp4) (ok : icmp4LenOk h.ty) : (Icmp4.toBytes h).length = h.headerLen := by
  obtain ⟨ty, ck⟩ := h
  cases ty <;> simp_all [Icmp4.toBytes, Icmp4.headerLen, icmp4LenOk, Icmp4.re4u8, Icmp4.re2u16, Icmp4.reZero,
    Icmp4.reTimestamp, Codec.zeros] <;> (try split) <;> simp [Icmp4.re4u8, Icmp4.reZero, Codec.zeros]
theorem icmp6_len (h : Icmp6) (ok : icmp6LenOk h.ty) : (Icmp6.toBytes h).length = 8 := by
  obtain ⟨ty, ck⟩ := h
  cases ty <;> simp_all [Icmp6.toBytes, icmp6LenOk, Icmp6.return4u8, Icmp6.returnTrivial, Codec.zeros,
    Icmp6.raBytes, Icmp6.naBytes]
theorem arp_len (h : Arp) (wf : h.WF) : (Arp.toBytes h).length = h.headerLen := by
  obtain ⟨_, _, _, a, b, c, d⟩ := wf
  simp [Arp.toBytes, Arp.headerLen, Arp.hwSize, Arp.protoSize]
  omega
theorem ipv4_len (h : Ipv4Header) (hs : h.source.length = 4) (hd : h.destination.length = 4)
    (ho : h.options.length ≤ 40) : h.toBytes.length = 20 + h.options.length := by
  simp [Ipv4Header.toBytes, Ipv4Header.optBuf, Ipv4Header.headerLen, hs, hd, CodecNet.zeros]
  omega
theorem ipv6_len (h : Ipv6Header) (hs : h.source.length = 16) (hd : h.destination.length = 16) :
    h.toBytes.length = 40 := by
  simp [Ipv6Header.toBytes, hs, hd]



/-! ### closed form of a successful build -/

def endNum (c : Cfg) : Nat := match c.tp with | some t => t.ipNumber | none => c.last

def firstEt (vlan : Option VlanH) (netEt : Nat) : Nat :=
  match vlan with
  | some (.single _) => 0x8100
  | some (.double _ _) => 0x88a8
  | none => netEt

/-- the link header as emitted -/
def outLinkOf (link : Option Link) (vlan : Option VlanH) (netEt : Nat) : Bytes :=
  match link with
  | none => []
  | some (.eth2 h) => Eth2.toBytes { dst := h.dst, src := h.src, et := firstEt vlan netEt }
  | some (.sll s) =>
    Sll.toBytes { ptype := s.ptype, hrd := s.hrd, alen := s.alen, addr := s.addr,
                  proto := sllChangeValue s.proto netEt }

def outLink (c : Cfg) : Bytes := outLinkOf c.link c.vlan c.net.etherType

def outVlan (c : Cfg) : Bytes := vlanBytes c.vlan c.net.etherType

/-- IPv4 header as emitted: total length, protocol, checksum derived -/
def ipv4Out (ip : Ipv4Header) (e : Ipv4Extensions) (num inner : Nat) : Ipv4Header :=
  let h : Ipv4Header :=
    { ip with totalLen := (ip.headerLen + inner) % 65536, protocol := (ipv4ExtsSetNextHeaders e num).2 }
  { h with headerChecksum := h.calcHeaderChecksum }

def ipv4ExtsOut (e : Ipv4Extensions) (num : Nat) : Bytes :=
  match e.auth with
  | some h => (Ipv6Exts.authWithNext h num).toBytes
  | none => []

/-- IPv6 header as emitted -/
def ipv6Out (ip : Ipv6Header) (e : Ipv6Exts) (num inner : Nat) : Ipv6Header :=
  { ip with payloadLength := inner % 65536, nextHeader := (e.setNextHeaders num).2 }

def ipv6ExtsOut (e : Ipv6Exts) (num : Nat) : Bytes := stdBytes (e.setNextHeaders num).1

theorem linkBytes_ok (link : Option Link) (vlan : Option VlanH) (et : Nat) (wf : optP Link.WF link) :
    linkBytes link vlan et = .ok (outLinkOf link vlan et) := by
  unfold linkBytes outLinkOf firstEt
  rcases link with _ | ⟨h | s⟩
  · rfl
  · rcases vlan with _ | ⟨v | ⟨o, i⟩⟩ <;> rfl
  · have : s.hrd = 1 := wf.2
    simp [this]


/-- checksum the builder stores into the transport header over IPv4 -/
def ck4 (t : Tp) (ip : Ipv4Header) (p : Bytes) : Nat :=
  match t with
  | .udp h => udpPostIp h [ip.source, ip.destination, [0, 17], enc16 h.len] p
  | .tcp h => tcpPostIp h [ip.source, ip.destination, [0, 6], enc16 (h.headerLen + p.length)] p
  | .icmp4 h => icmp4Checksum h.ty p
  | .icmp6 h => h.ck

/-- checksum the builder stores into the transport header over IPv6 -/
def ck6 (t : Tp) (ip : Ipv6Header) (p : Bytes) : Nat :=
  match t with
  | .udp h => udpPostIp h (split16 ip.source ++ split16 ip.destination ++ [[0, 17], enc16 h.len]) p
  | .tcp h =>
    tcpPostIp h (split16 ip.source ++ split16 ip.destination ++ [enc32 (h.headerLen + p.length), [0, 6]]) p
  | .icmp4 h => icmp4Checksum h.ty p
  | .icmp6 h =>
    swap16 (onesComplement64 (addSlice64
      (addParts 0 (split16 ip.source ++ split16 ip.destination ++ [[0, 58], enc32 (p.length + 8)]
                    ++ icmp6Parts h.ty)) p))

theorem updateChecksumIpv4_ok (t : Tp) (ip : Ipv4Header) (p : Bytes)
    (h6 : isIcmp6 (some t) = false) (hlen : t.headerLen + p.length ≤ 65535) (wf : t.WF) :
    updateChecksumIpv4 t ip p = .ok (withCk t (ck4 t ip p)) := by
  cases t with
  | udp h =>
    have : ¬ (65535 - 8 < p.length) := by simp [Tp.headerLen, Udp.headerLen] at hlen; omega
    simp [updateChecksumIpv4, udpChecksumIpv4, this, ck4]
  | tcp h =>
    simp only [Tp.headerLen] at hlen
    have h1 : ¬ (65535 - h.headerLen < p.length) := by omega
    have h2 : h.headerLen % 65536 + p.length % 65536 = h.headerLen + p.length := by omega
    have h3 : ¬ (65536 ≤ h.headerLen + p.length) := by omega
    simp [updateChecksumIpv4, tcpChecksumIpv4, h1, h2, h3, ck4]
  | icmp4 h => simp [updateChecksumIpv4, ck4]
  | icmp6 h => simp [isIcmp6] at h6

theorem updateChecksumIpv6_ok (t : Tp) (ip : Ipv6Header) (p : Bytes)
    (hlen : t.headerLen + p.length ≤ 65535) :
    updateChecksumIpv6 t ip p = .ok (withCk t (ck6 t ip p)) := by
  cases t with
  | udp h =>
    have : ¬ (4294967295 - 8 < p.length) := by simp [Tp.headerLen, Udp.headerLen] at hlen; omega
    simp [updateChecksumIpv6, udpChecksumIpv6, this, ck6]
  | tcp h =>
    simp only [Tp.headerLen] at hlen
    have h1 : ¬ (4294967295 - h.headerLen < p.length) := by omega
    have h2 : h.headerLen % 65536 + p.length % 4294967296 = h.headerLen + p.length := by omega
    have h3 : ¬ (4294967296 ≤ h.headerLen + p.length) := by omega
    simp [updateChecksumIpv6, tcpChecksumIpv6, h1, h2, h3, ck6]
  | icmp4 h => simp [updateChecksumIpv6, ck6]
  | icmp6 h =>
    simp only [Tp.headerLen, Icmp6.headerLen] at hlen
    have h1 : ¬ (4294967295 - 8 < p.length) := by omega
    have h2 : (p.length + 8) % 4294967296 = p.length + 8 := by omega
    simp [updateChecksumIpv6, icmp6Checksum, h1, h2, ck6]


/-- the net layer as emitted (header with derived fields, then the extension headers) -/
def outNet (c : Cfg) (n : Nat) : Bytes :=
  match c.net with
  | .arp a => a.toBytes
  | .ipv4 ip e => (ipv4Out ip e (endNum c) (innerLen c n)).toBytes ++ ipv4ExtsOut e (endNum c)
  | .ipv6 ip e => (ipv6Out ip e (endNum c) (innerLen c n)).toBytes ++ ipv6ExtsOut e (endNum c)

/-- the transport header as emitted (UDP length set, checksum computed) -/
def outTpHeader (c : Cfg) (p : Bytes) : Option Tp :=
  match setUdpLen c.tp p.length with
  | none => none
  | some t =>
    match c.net with
    | .arp _ => some t
    | .ipv4 ip e => some (withCk t (ck4 t (ipv4Out ip e (endNum c) (innerLen c p.length)) p))
    | .ipv6 ip e => some (withCk t (ck6 t (ipv6Out ip e (endNum c) (innerLen c p.length)) p))

def buildOk (c : Cfg) (p : Bytes) : Bytes :=
  outLink c ++ outVlan c ++ outNet c p.length ++ tpBytes (outTpHeader c p) ++ p

theorem setUdpLen_headerLen (tp : Option Tp) (n : Nat) : tpHeaderLen (setUdpLen tp n) = tpHeaderLen tp := by
  rcases tp with _ | ⟨h | h | h | h⟩ <;> rfl

theorem setUdpLen_isIcmp6 (tp : Option Tp) (n : Nat) : isIcmp6 (setUdpLen tp n) = isIcmp6 tp := by
  rcases tp with _ | ⟨h | h | h | h⟩ <;> rfl

theorem ipv4Exts_write (e : Ipv4Extensions) (num : Nat) :
    (ipv4ExtsSetNextHeaders e num).1.writeOut (ipv4ExtsSetNextHeaders e num).2 = .ok (ipv4ExtsOut e num) := by
  rcases e with ⟨_ | h⟩ <;> simp [ipv4ExtsSetNextHeaders, Ipv4Extensions.writeOut, ipv4ExtsOut, ipNumberAuth]

/-- `udp.length = (8 + n) as u16` on a transport header -/
def setLenT (t : Tp) (n : Nat) : Tp :=
  match t with
  | .udp u => .udp { sp := u.sp, dp := u.dp, len := (8 + n) % 65536, ck := u.ck }
  | x => x

theorem setUdpLen_some (t : Tp) (n : Nat) : setUdpLen (some t) n = some (setLenT t n) := by
  cases t <;> rfl
theorem setLenT_headerLen (t : Tp) (n : Nat) : (setLenT t n).headerLen = t.headerLen := by cases t <;> rfl
theorem setLenT_ipNumber (t : Tp) (n : Nat) : (setLenT t n).ipNumber = t.ipNumber := by cases t <;> rfl
theorem setLenT_isIcmp6 (t : Tp) (n : Nat) : isIcmp6 (some (setLenT t n)) = isIcmp6 (some t) := by cases t <;> rfl
theorem setLenT_wf (t : Tp) (n : Nat) (wf : t.WF) : (setLenT t n).WF := by
  cases t with
  | udp u => obtain ⟨a, b, _, d⟩ := wf; exact ⟨a, b, Nat.mod_lt _ (by omega), d⟩
  | _ => exact wf

theorem ipv4Arm_some (pre : Bytes) (ip : Ipv4Header) (e : Ipv4Extensions) (t : Tp) (p : Bytes)
    (hopt : ip.options.length ≤ 40)
    (hmax : 20 + ip.options.length + (e.headerLen + t.headerLen + p.length) ≤ 65535)
    (h6 : isIcmp6 (some t) = false) (wt : t.WF) :
    ipv4Arm pre ip e (some t) p
      = .ok (pre ++ (ipv4Out ip e t.ipNumber (e.headerLen + t.headerLen + p.length)).toBytes
              ++ ipv4ExtsOut e t.ipNumber
              ++ (withCk t (ck4 t (ipv4Out ip e t.ipNumber (e.headerLen + t.headerLen + p.length)) p)).toBytes
              ++ p) := by
  have hm : ¬ (e.headerLen + t.headerLen + p.length > 65535 - ip.options.length % 256 - 20) := by omega
  have hlen : t.headerLen + p.length ≤ 65535 := by omega
  simp [ipv4Arm, ipv4SetPayloadLen, Ipv4Header.optLenU8, tpHeaderLen, hm, ipv4Exts_write,
    updateChecksumIpv4_ok _ _ _ h6 hlen wt, ipv4Out, Ipv4Header.headerLen]

theorem ipv6Arm_some (pre : Bytes) (ip : Ipv6Header) (e : Ipv6Exts) (t : Tp) (p : Bytes)
    (hmax : e.headerLen + t.headerLen + p.length ≤ 65535) :
    ipv6Arm pre ip e (some t) p
      = .ok (pre ++ (ipv6Out ip e t.ipNumber (e.headerLen + t.headerLen + p.length)).toBytes
              ++ ipv6ExtsOut e t.ipNumber
              ++ (withCk t (ck6 t (ipv6Out ip e t.ipNumber (e.headerLen + t.headerLen + p.length)) p)).toBytes
              ++ p) := by
  have hm : ¬ (65535 < e.headerLen + t.headerLen + p.length) := by omega
  have hlen : t.headerLen + p.length ≤ 65535 := by omega
  simp [ipv6Arm, ipv6SetPayloadLength, tpHeaderLen, hm, write_after_set,
    updateChecksumIpv6_ok _ _ _ hlen, ipv6Out, ipv6ExtsOut]

theorem build_ok (c : Cfg) (p : Bytes) (wf : c.WF) (enc : Encodable c p.length) :
    build c p = .ok (buildOk c p) := by
  obtain ⟨wl, wv, wn, wt, wlast⟩ := wf
  obtain ⟨link, vlan, net, tp, last⟩ := c
  simp only at wl wv wn wt wlast
  cases net with
  | arp a =>
    have hp : rawPrep { link := link, vlan := vlan, net := .arp a, tp := tp, last := last }
        = { link := link, vlan := vlan, net := .arp a, tp := tp, last := last } := by
      cases tp <;> rfl
    unfold build finalWriteWithNet
    rw [hp]
    simp only []
    rw [linkBytes_ok _ _ _ wl]
    simp only [buildOk, outNet, outTpHeader, outVlan, outLink]
    cases setUdpLen tp p.length <;> simp
  | ipv4 ip e =>
    simp only [Encodable, innerLen, Net.extsLen] at enc
    obtain ⟨enc1, enc2⟩ := enc
    have hmax : ¬ (e.headerLen + tpHeaderLen tp + p.length > 65535 - ip.options.length % 256 - 20) := by
      have := wn.1.2.2.2.2.2.2.2.2.2.2.1
      omega
    cases tp with
    | none =>
      have hmax' : ¬ (e.headerLen + p.length > 65535 - ip.options.length % 256 - 20) := by
        simpa [tpHeaderLen] using hmax
      have hx : (ipv4ExtsSetNextHeaders e last).1.headerLen = e.headerLen := by
        rcases e with ⟨_ | h⟩ <;> simp [ipv4ExtsSetNextHeaders, Ipv4Extensions.headerLen, Ipv6Exts.authWithNext, IpAuthHeader.headerLen, IpAuthHeader.rawIcvLen]
      simp [build, finalWriteWithNet, rawPrep, linkBytes_ok _ _ _ wl, ipv4Arm, setUdpLen, ipv4SetPayloadLen,
        Ipv4Header.optLenU8, tpHeaderLen, hmax', hx, ipv4Exts_write, Net.etherType, buildOk, outNet,
        outTpHeader, outVlan, outLink, ipv4Out, endNum, innerLen, Net.extsLen, tpBytes,
        Ipv4Header.headerLen]
    | some t =>
      have hopt := wn.1.2.2.2.2.2.2.2.2.2.2.1
      have h := ipv4Arm_some (outLinkOf link vlan 2048 ++ vlanBytes vlan 2048) ip e (setLenT t p.length) p hopt
        (by rw [setLenT_headerLen]; simpa [tpHeaderLen] using enc1)
        (by rw [setLenT_isIcmp6]; exact enc2) (setLenT_wf _ _ wt)
      simp only [setLenT_headerLen, setLenT_ipNumber] at h
      simp [build, finalWriteWithNet, rawPrep, linkBytes_ok _ _ _ wl, Net.etherType, setUdpLen_some, h,
        buildOk, outNet, outTpHeader, outVlan, outLink, endNum, innerLen, Net.extsLen, tpBytes, tpHeaderLen]
  | ipv6 ip e =>
    simp only [Encodable, innerLen, Net.extsLen] at enc
    cases tp with
    | none =>
      have hm : ¬ (65535 < e.headerLen + p.length) := by simpa [tpHeaderLen] using enc
      simp [build, finalWriteWithNet, rawPrep, linkBytes_ok _ _ _ wl, ipv6Arm, setUdpLen, ipv6SetPayloadLength,
        tpHeaderLen, hm, setNextHeaders_headerLen, write_after_set, Net.etherType, buildOk,
        outNet, outTpHeader, outVlan, outLink, ipv6Out, ipv6ExtsOut, endNum, innerLen, Net.extsLen, tpBytes]
    | some t =>
      have h := ipv6Arm_some (outLinkOf link vlan 0x86dd ++ vlanBytes vlan 0x86dd) ip e (setLenT t p.length) p
        (by rw [setLenT_headerLen]; simpa [tpHeaderLen] using enc)
      simp only [setLenT_headerLen, setLenT_ipNumber] at h
      simp [build, finalWriteWithNet, rawPrep, linkBytes_ok _ _ _ wl, Net.etherType, setUdpLen_some, h,
        buildOk, outNet, outTpHeader, outVlan, outLink, endNum, innerLen, Net.extsLen, tpBytes, tpHeaderLen]



/-! ### size of the closed form -/

theorem withCk_len (t : Tp) (ck : Nat) (wf : t.WF) : (withCk t ck).toBytes.length = t.headerLen := by
  cases t with
  | udp h => simp [withCk, Tp.toBytes, Tp.headerLen, udp_len, Udp.headerLen]
  | tcp h =>
    obtain ⟨_, _, _, _, _, _, _, ho1, _, ho3, _⟩ := wf
    simp only [withCk, Tp.toBytes, Tp.headerLen, Tcp.headerLen]
    exact tcp_len _ ho3 ho1
  | icmp4 h => simp [withCk, Tp.toBytes, Tp.headerLen]; exact icmp4_len _ wf
  | icmp6 h => simp [withCk, Tp.toBytes, Tp.headerLen, Icmp6.headerLen]; exact icmp6_len _ wf

theorem tp_len (t : Tp) (wf : t.WF) : t.toBytes.length = t.headerLen := by
  cases t with
  | udp h => simp [Tp.toBytes, Tp.headerLen, udp_len, Udp.headerLen]
  | tcp h =>
    obtain ⟨_, _, _, _, _, _, _, ho1, _, ho3, _⟩ := wf
    simp only [Tp.toBytes, Tp.headerLen, Tcp.headerLen]
    exact tcp_len _ ho3 ho1
  | icmp4 h => simp [Tp.toBytes, Tp.headerLen]; exact icmp4_len _ wf
  | icmp6 h => simp [Tp.toBytes, Tp.headerLen, Icmp6.headerLen]; exact icmp6_len _ wf

theorem outTp_len (c : Cfg) (p : Bytes) (wf : optP Tp.WF c.tp) :
    (tpBytes (outTpHeader c p)).length = tpHeaderLen c.tp := by
  unfold outTpHeader
  rcases htp : c.tp with _ | t
  · simp [setUdpLen, tpBytes, tpHeaderLen]
  · rw [htp] at wf
    have w := setLenT_wf t p.length wf
    rw [setUdpLen_some]
    cases c.net <;> simp [tpBytes, tpHeaderLen, withCk_len _ _ w, tp_len _ w, setLenT_headerLen]

theorem outLink_len (c : Cfg) (wf : optP Link.WF c.link) :
    (outLink c).length = (match c.link with
      | some (.eth2 h) => h.headerLen | some (.sll h) => h.headerLen | none => 0) := by
  unfold outLink outLinkOf
  rcases hl : c.link with _ | ⟨h | s⟩
  · rfl
  · rw [hl] at wf
    simp only [Eth2.headerLen]
    exact eth2_len _ wf.1 wf.2.1
  · rw [hl] at wf
    have := wf.1.2.2.2.1
    simp only [Sll.headerLen]
    exact sll_len _ this

theorem outVlan_len (c : Cfg) :
    (outVlan c).length = (match c.vlan with
      | some (.single _) => 4 | some (.double _ _) => 4 * 2 | none => 0) := by
  unfold outVlan vlanBytes
  rcases c.vlan with _ | ⟨v | ⟨o, i⟩⟩ <;> simp [vlan_len]

theorem ipv4ExtsOut_len (e : Ipv4Extensions) (num : Nat) (wf : optP IpAuthHeader.WF e.auth) (hn : num < 256) :
    (ipv4ExtsOut e num).length = e.headerLen := by
  rcases e with ⟨_ | h⟩
  · rfl
  · have w := authWithNext_wf h num wf hn
    simp only [ipv4ExtsOut, Ipv4Extensions.headerLen, CodecNet.Auth.headerLen_eq _ wf]
    exact CodecNet.Auth.toBytes_length _ w

theorem endNum_lt (c : Cfg) (wf : c.WF) : endNum c < 256 := by
  unfold endNum
  rcases c.tp with _ | ⟨h | h | h | h⟩ <;> simp [Tp.ipNumber, wf.2.2.2.2]

theorem outNet_len (c : Cfg) (n : Nat) (wf : c.WF) :
    (outNet c n).length = (match c.net with
      | .ipv4 h e => h.headerLen + e.headerLen
      | .ipv6 _ e => 40 + e.headerLen
      | .arp p => p.headerLen) := by
  have hn := endNum_lt c wf
  obtain ⟨_, _, wn, _, _⟩ := wf
  unfold outNet
  cases hnet : c.net with
  | arp a => rw [hnet] at wn; simp [arp_len a wn]
  | ipv4 ip e =>
    rw [hnet] at wn
    obtain ⟨wi, we⟩ := wn
    have hs := wi.2.2.2.2.2.2.2.2.1
    have hd := wi.2.2.2.2.2.2.2.2.2.1
    have ho := wi.2.2.2.2.2.2.2.2.2.2.1
    simp only [List.length_append, ipv4ExtsOut_len e _ we hn]
    rw [ipv4_len _ (by simpa [ipv4Out] using hs) (by simpa [ipv4Out] using hd) (by simpa [ipv4Out] using ho)]
    simp [ipv4Out, Ipv4Header.headerLen]
  | ipv6 ip e =>
    rw [hnet] at wn
    obtain ⟨wi, we⟩ := wn
    have hs := wi.2.2.2.2.2.1
    have hd := wi.2.2.2.2.2.2
    have hw := (setNextHeaders_wf e (endNum c) we hn).1
    simp only [List.length_append, ipv6ExtsOut, stdBytes_length _ hw, setNextHeaders_headerLen]
    rw [ipv6_len _ (by simpa [ipv6Out] using hs) (by simpa [ipv6Out] using hd)]

theorem buildOk_length (c : Cfg) (p : Bytes) (wf : c.WF) : (buildOk c p).length = size c p.length := by
  unfold buildOk size
  simp only [List.length_append, outLink_len c wf.1, outVlan_len c, outNet_len c p.length wf,
    outTp_len c p wf.2.2.2.1]
  congr 2
  rcases c.tp with _ | ⟨h | h | h | h⟩ <;> simp [tpHeaderLen, Tp.headerLen, Udp.headerLen]



/-! ### configurations that are not encodable -/

/-- the failure of a configuration that is not encodable: which error, and what has been handed
    to the writer before it (link and VLAN header; for ICMPv6 in IPv4 also the IPv4 header and its
    extension header, because the transport checksum is computed after they are written). -/
def buildFail (c : Cfg) (p : Bytes) : BuildFail :=
  match c.net with
  | .arp _ => { err := .panic "ARP is always encodable", written := [] }
  | .ipv4 ip _ =>
    if 20 + ip.options.length + innerLen c p.length ≤ 65535 then
      { err := .icmpv6InIpv4, written := outLink c ++ outVlan c ++ outNet c p.length }
    else
      { err := .payloadLen { actual := innerLen c p.length, maxAllowed := 65535 - ip.options.length - 20,
                             ty := "Ipv4PayloadLength" },
        written := outLink c ++ outVlan c }
  | .ipv6 _ _ =>
    { err := .payloadLen { actual := innerLen c p.length, maxAllowed := 65535, ty := "Ipv6PayloadLength" },
      written := outLink c ++ outVlan c }

theorem rawPrep_some (c : Cfg) (t : Tp) (h : c.tp = some t) : rawPrep c = c := by
  obtain ⟨link, vlan, net, tp, last⟩ := c
  simp only at h; subst h
  cases net <;> rfl

theorem build_err (c : Cfg) (p : Bytes) (wf : c.WF) (nenc : ¬ Encodable c p.length) :
    build c p = .error (buildFail c p) := by
  obtain ⟨wl, wv, wn, wt, wlast⟩ := wf
  obtain ⟨link, vlan, net, tp, last⟩ := c
  simp only at wl wv wn wt wlast
  cases net with
  | arp a => exact absurd trivial nenc
  | ipv4 ip e =>
    simp only [Encodable, innerLen, Net.extsLen] at nenc
    have hopt := wn.1.2.2.2.2.2.2.2.2.2.2.1
    by_cases hfit : 20 + ip.options.length + (e.headerLen + tpHeaderLen tp + p.length) ≤ 65535
    · -- fits: the transport header is ICMPv6
      have h6 : isIcmp6 tp = true := by
        cases hh : isIcmp6 tp
        · exact absurd ⟨hfit, hh⟩ nenc
        · rfl
      rcases tp with _ | ⟨h | h | h | h⟩ <;> simp [isIcmp6] at h6
      have hfit' : 20 + ip.options.length + (e.headerLen + 8 + p.length) ≤ 65535 := by
        simpa [tpHeaderLen, Tp.headerLen, Icmp6.headerLen] using hfit
      have hm : ¬ (e.headerLen + 8 + p.length > 65535 - ip.options.length % 256 - 20) := by omega
      simp [build, finalWriteWithNet, rawPrep, linkBytes_ok _ _ _ wl, Net.etherType, setUdpLen, ipv4Arm,
        ipv4SetPayloadLen, Ipv4Header.optLenU8, tpHeaderLen, Tp.headerLen, Icmp6.headerLen, hm,
        ipv4Exts_write, updateChecksumIpv4, buildFail, innerLen, Net.extsLen, hfit', outNet, outLink, outVlan,
        ipv4Out, endNum, Ipv4Header.headerLen]
    · have hx : (ipv4ExtsSetNextHeaders e last).1.headerLen = e.headerLen := by
        rcases e with ⟨_ | h⟩ <;> simp [ipv4ExtsSetNextHeaders, Ipv4Extensions.headerLen, Ipv6Exts.authWithNext, IpAuthHeader.headerLen, IpAuthHeader.rawIcvLen]
      cases tp with
      | none =>
        have hfit' : ¬ 20 + ip.options.length + (e.headerLen + p.length) ≤ 65535 := by
          simpa [tpHeaderLen] using hfit
        have e1 : ip.options.length % 256 = ip.options.length := by omega
        have hm : 65535 - ip.options.length - 20 < e.headerLen + p.length := by omega
        simp [build, finalWriteWithNet, rawPrep, linkBytes_ok _ _ _ wl, Net.etherType, setUdpLen, ipv4Arm,
          ipv4SetPayloadLen, Ipv4Header.optLenU8, tpHeaderLen, e1, hm, hx, buildFail, innerLen, Net.extsLen, hfit',
          outLink, outVlan]
      | some t =>
        have hfit' : ¬ 20 + ip.options.length + (e.headerLen + t.headerLen + p.length) ≤ 65535 := by
          simpa [tpHeaderLen] using hfit
        have e1 : ip.options.length % 256 = ip.options.length := by omega
        have hm : 65535 - ip.options.length - 20 < e.headerLen + t.headerLen + p.length := by omega
        simp [build, finalWriteWithNet, rawPrep, linkBytes_ok _ _ _ wl, Net.etherType, setUdpLen_some, ipv4Arm,
          ipv4SetPayloadLen, Ipv4Header.optLenU8, tpHeaderLen, setLenT_headerLen, e1, hm, buildFail, innerLen,
          Net.extsLen, hfit', outLink, outVlan]
  | ipv6 ip e =>
    simp only [Encodable, innerLen, Net.extsLen] at nenc
    cases tp with
    | none =>
      have hm : 65535 < e.headerLen + p.length := by simp [tpHeaderLen] at nenc; omega
      simp [build, finalWriteWithNet, rawPrep, linkBytes_ok _ _ _ wl, Net.etherType, setUdpLen, ipv6Arm,
        ipv6SetPayloadLength, tpHeaderLen, hm, setNextHeaders_headerLen, buildFail, innerLen, Net.extsLen,
        outLink, outVlan]
    | some t =>
      have hm : 65535 < e.headerLen + t.headerLen + p.length := by simp [tpHeaderLen] at nenc; omega
      simp [build, finalWriteWithNet, rawPrep, linkBytes_ok _ _ _ wl, Net.etherType, setUdpLen_some, ipv6Arm,
        ipv6SetPayloadLength, tpHeaderLen, setLenT_headerLen, hm, buildFail, innerLen, Net.extsLen,
        outLink, outVlan]


end EpModel.Lemmas.Builder
