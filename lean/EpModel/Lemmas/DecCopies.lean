import EpModel.Lemmas.DecRefineEntry
/- The hand-copied IP doors agree (C06): dispatching vs version-specific, slice vs struct, strict and lax;
   starting at the IP ether types vs starting at IP. -/
set_option linter.unusedSimpArgs false
namespace EpModel.Lemmas.Copies
open EpModel EpModel.Dec EpModel.Lemmas.Refine

/-- error renaming of the dispatching decoders applied to a result -/
def renameErr {α : Type} : Except PErr α → Except PErr α
  | .error e => .error (renameIp e)
  | .ok x => .ok x

theorem ipv4AfterHeaderStrict_noRename (g : Mem) (o l hl : Nat) :
    renameErr (ipv4AfterHeaderStrict g o l hl) = ipv4AfterHeaderStrict g o l hl := by
  unfold ipv4AfterHeaderStrict
  simp only
  split
  · rfl
  · split
    · split <;> rfl
    · rfl

/-- IpHeaders::from_ipv4_slice is Ipv4Slice::from_slice (same header checks, same boundary, same AH) -/
theorem ipHeaders_ipv4_eq_ipv4Slice (g : Mem) (o l : Nat) :
    ipHeadersFromIpv4Slice g o l = ipv4SliceFromSlice g o l := rfl

/-- IpSlice::from_slice on a version 4 nibble, 20 bytes or more: Ipv4Slice::from_slice up to the
    names of the content errors -/
theorem ipSlice_eq_ipv4Slice (g : Mem) (o l : Nat) (h4 : g o / 16 = 4) (h20 : 20 ≤ l) :
    ipSliceFromSlice g o l = renameErr (ipv4SliceFromSlice g o l) := by
  rw [ipSlice_v4 g o l h4 h20]
  unfold ipv4SliceFromSlice
  cases ipv4HeaderFromSlice g o l with
  | error e => rfl
  | ok hl => exact (ipv4AfterHeaderStrict_noRename g o l hl).symm

/-- IpHeaders::from_slice on a version 4 nibble, any length: IpHeaders::from_ipv4_slice up to the
    names of the content errors (this copy checks `len < 20` first, like the version-specific one) -/
theorem ipHeaders_eq_ipv4 (g : Mem) (o l : Nat) (h4 : g o / 16 = 4) (h0 : 0 < l) :
    ipHeadersFromSlice g o l = renameErr (ipHeadersFromIpv4Slice g o l) := by
  unfold ipHeadersFromSlice ipDispatchHeader ipHeadersFromIpv4Slice ipv4HeaderFromSlice
  have h0' : ¬ l = 0 := by omega
  simp only [h0', h4, if_true, if_false, true_and, ne_eq, not_true_eq_false]
  by_cases h20 : l < 20
  · simp [h20, renameErr, renameIp]
  · simp only [h20, if_false, decide_false, Bool.false_eq_true]
    by_cases hi : g o % 16 < 5
    · simp [hi, renameErr, renameIp]
    · simp only [hi, if_false]
      by_cases hl : l < g o % 16 * 4
      · simp [hl, renameErr, renameIp]
      · simp only [hl, if_false]
        exact (ipv4AfterHeaderStrict_noRename g o l _).symm

/-- version 6: the dispatching decoders are the version-specific ones, errors included -/
theorem ipSlice_eq_ipv6Slice (g : Mem) (o l : Nat) (h6 : g o / 16 = 6) (h0 : 0 < l) :
    ipSliceFromSlice g o l = ipv6SliceFromSlice g o l := ipSlice_v6 g o l h6 h0

theorem ipHeaders_eq_ipv6 (g : Mem) (o l : Nat) (h6 : g o / 16 = 6) (h0 : 0 < l) :
    ipHeadersFromSlice g o l = ipHeadersFromIpv6Slice g o l := by
  unfold ipHeadersFromSlice ipDispatchHeader ipHeadersFromIpv6Slice ipv6HeaderFromSlice
  have h0' : ¬ l = 0 := by omega
  simp only [h0', h6, if_false, show ¬ (6 = 4) by omega, if_true, ne_eq, not_true_eq_false]
  by_cases h40 : l < 40 <;> simp [h40]

/-! ### lax copies -/

def renameErrLax {α : Type} : Except PErr α → Except PErr α := renameErr

theorem laxIpSlice_eq_laxIpv4Slice (g : Mem) (o l : Nat) (h4 : g o / 16 = 4) (h20 : 20 ≤ l) :
    laxIpSliceFromSlice g o l = renameErr (laxIpv4SliceFromSlice g o l) := by
  unfold laxIpSliceFromSlice ipDispatchHeader laxIpv4SliceFromSlice ipv4HeaderFromSlice
  have h0' : ¬ l = 0 := by omega
  have h20' : ¬ l < 20 := by omega
  simp only [h0', h4, h20', if_true, if_false, Bool.false_eq_true, false_and, ne_eq, not_true_eq_false]
  by_cases hi : g o % 16 < 5
  · simp [hi, renameErr, renameIp]
  · simp only [hi, if_false]
    by_cases hl : l < g o % 16 * 4
    · simp [hl, renameErr, renameIp]
    · simp [hl, renameErr]

theorem laxIpSlice_eq_laxIpv6Slice (g : Mem) (o l : Nat) (h6 : g o / 16 = 6) (h0 : 0 < l) :
    laxIpSliceFromSlice g o l = laxIpv6SliceFromSlice g o l := by
  unfold laxIpSliceFromSlice ipDispatchHeader laxIpv6SliceFromSlice ipv6HeaderFromSlice
  have h0' : ¬ l = 0 := by omega
  simp only [h0', h6, if_false, show ¬ (6 = 4) by omega, if_true, ne_eq, not_true_eq_false]
  by_cases h40 : l < 40 <;> simp [h40]

/-- IpHeaders::from_slice_lax = IpHeaders::from_ipv4_slice_lax on a version 4 nibble: this pair even
    agrees on the error names -/
theorem ipHeadersLax_eq_ipv4Lax (g : Mem) (o l : Nat) (h4 : g o / 16 = 4) (h0 : 0 < l) :
    ipHeadersFromSliceLax g o l = ipHeadersFromIpv4SliceLax g o l := by
  unfold ipHeadersFromSliceLax ipDispatchHeader ipHeadersFromIpv4SliceLax ipv4HeaderFromSlice
  have h0' : ¬ l = 0 := by omega
  simp only [h0', h4, if_true, if_false, true_and, ne_eq, not_true_eq_false]
  by_cases h20 : l < 20
  · simp [h20]
  · simp only [h20, if_false, decide_false, Bool.false_eq_true]
    by_cases hi : g o % 16 < 5
    · simp [hi]
    · simp only [hi, if_false]
      by_cases hl : l < g o % 16 * 4 <;> simp [hl]

theorem ipHeadersLax_eq_ipv6Lax (g : Mem) (o l : Nat) (h6 : g o / 16 = 6) (h0 : 0 < l) :
    ipHeadersFromSliceLax g o l = ipHeadersFromIpv6SliceLax g o l := by
  unfold ipHeadersFromSliceLax ipDispatchHeader ipHeadersFromIpv6SliceLax ipv6HeaderFromSlice
  have h0' : ¬ l = 0 := by omega
  simp only [h0', h6, if_false, show ¬ (6 = 4) by omega, if_true, ne_eq, not_true_eq_false]
  by_cases h40 : l < 40 <;> simp [h40]

/-! ### starting at the IP ether types = starting at IP -/

def Packet.withLink (p : Packet) (lk : Option LinkR) : Packet :=
  { link := lk, exts := p.exts, net := p.net, tp := p.tp, stop := p.stop }

def mapOk {α β : Type} (f : α → β) : Except PErr α → Except PErr β
  | .ok x => .ok (f x)
  | .error e => .error e

theorem sliceTransport_link (c : Cur) (lk : Option LinkR) (g : Mem) (num o l : Nat) :
    ({ c with r := Packet.withLink c.r lk } : Cur).sliceTransport g num o l =
      mapOk (Packet.withLink · lk) (c.sliceTransport g num o l) := by
  unfold Cur.sliceTransport
  simp only
  repeat' split
  all_goals rfl

theorem afterIp_link (c : Cur) (lk : Option LinkR) (g : Mem) (o : Nat) (ip : IpR) :
    ({ c with r := Packet.withLink c.r lk } : Cur).afterIp g o ip =
      mapOk (Packet.withLink · lk) (c.afterIp g o ip) := by
  unfold Cur.afterIp
  simp only
  split
  · rfl
  · exact sliceTransport_link { off := c.off + (ip.pl.w.o - o), src := ip.pl.src, r := c.r.setNet (.ip ip) } lk g _ _ _

theorem lenAddOff_rename (k : Nat) (e : PErr) : lenAddOff k (renameIp e) = renameIp (lenAddOff k e) := by
  cases e <;> rfl

/-- the IPv4 path of the strict cursor; `ren` names the header content errors -/
def ipv4Path (ren : PErr → PErr) (c : Cur) (g : Mem) (o l : Nat) : Except PErr Packet :=
  match ipv4HeaderFromSlice g o l with
  | .error e => .error (lenAddOff c.off (ren e))
  | .ok hl =>
    match ipv4AfterHeaderStrict g o l hl with
    | .error e => .error (lenAddOff c.off e)
    | .ok ip => c.afterIp g o ip

theorem sliceIpv4_path (c : Cur) (g : Mem) (o l : Nat) : c.sliceIpv4 g o l = ipv4Path id c g o l := by
  unfold Cur.sliceIpv4 ipv4SliceFromSlice ipv4Path
  cases ipv4HeaderFromSlice g o l with
  | error e => rfl
  | ok hl => cases ipv4AfterHeaderStrict g o l hl <;> rfl

/-- `slice_ip` on a version 4 nibble (20 bytes or more) is `slice_ipv4` except for the names of the
    header content errors -/
theorem sliceIp_path (c : Cur) (g : Mem) (o l : Nat) (h4 : g o / 16 = 4) (h20 : 20 ≤ l) :
    c.sliceIp g o l = ipv4Path renameIp c g o l := by
  unfold Cur.sliceIp ipv4Path
  rw [ipSlice_v4 g o l h4 h20]
  cases ipv4HeaderFromSlice g o l with
  | error e => rfl
  | ok hl => cases ipv4AfterHeaderStrict g o l hl <;> rfl

theorem ipv4Path_link (ren : PErr → PErr) (c : Cur) (lk : Option LinkR) (g : Mem) (o l : Nat) :
    ipv4Path ren ({ c with r := Packet.withLink c.r lk } : Cur) g o l =
      mapOk (Packet.withLink · lk) (ipv4Path ren c g o l) := by
  unfold ipv4Path
  cases ipv4HeaderFromSlice g o l with
  | error e => rfl
  | ok hl =>
    dsimp only
    cases ipv4AfterHeaderStrict g o l hl with
    | error e => rfl
    | ok ip => dsimp only; exact afterIp_link c lk g o ip

/-- SlicedPacket::from_ether_type(IPV4, bytes) = SlicedPacket::from_ip(bytes) with the link set, up to
    the names of the header content errors (version 4 nibble, at least 20 bytes) -/
theorem from_ether_type_ipv4_vs_from_ip (g : Mem) (n : Nat) (h4 : g 0 / 16 = 4) (h20 : 20 ≤ n) :
    slicedFromEtherType g 0x0800 n =
        mapOk (Packet.withLink · (some (.etherPayload 0x0800 ⟨0, n⟩))) (ipv4Path id Cur.new g 0 n) ∧
      slicedFromIp g n = ipv4Path renameIp Cur.new g 0 n := by
  constructor
  · unfold slicedFromEtherType
    rw [Cur.sliceEtherType]
    simp only [show ¬ ((0x0800 : Nat) = 0x8100 ∨ (0x0800 : Nat) = 0x88a8 ∨ (0x0800 : Nat) = 0x9100) by omega,
      show ¬ ((0x0800 : Nat) = 0x88e5) by omega, show ¬ ((0x0800 : Nat) = 0x0806) by omega, if_false, if_true]
    rw [sliceIpv4_path]
    exact ipv4Path_link id Cur.new _ g 0 n
  · unfold slicedFromIp
    exact sliceIp_path Cur.new g 0 n h4 h20

/-- the same for IPv6: no renaming at all -/
theorem from_ether_type_ipv6_vs_from_ip (g : Mem) (n : Nat) (h6 : g 0 / 16 = 6) (h0 : 0 < n) :
    slicedFromEtherType g 0x86dd n =
      mapOk (Packet.withLink · (some (.etherPayload 0x86dd ⟨0, n⟩))) (slicedFromIp g n) := by
  unfold slicedFromEtherType slicedFromIp
  rw [Cur.sliceEtherType]
  simp only [show ¬ ((0x86dd : Nat) = 0x8100 ∨ (0x86dd : Nat) = 0x88a8 ∨ (0x86dd : Nat) = 0x9100) by omega,
    show ¬ ((0x86dd : Nat) = 0x88e5) by omega, show ¬ ((0x86dd : Nat) = 0x0806) by omega,
    show ¬ ((0x86dd : Nat) = 0x0800) by omega, if_false, if_true]
  unfold Cur.sliceIp Cur.sliceIpv6
  rw [ipSlice_v6 g 0 n h6 h0]
  cases ipv6SliceFromSlice g 0 n with
  | error e => rfl
  | ok ip => dsimp only; exact afterIp_link Cur.new _ g 0 ip

end EpModel.Lemmas.Copies
