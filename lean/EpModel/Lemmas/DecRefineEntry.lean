import EpModel.Lemmas.DecRefine
/- Refinement, continued: ARP, the link-extension loop, and the four strict entry points. -/
namespace EpModel.Lemmas.Refine
open EpModel EpModel.Dec EpModel.Spec
set_option linter.unusedSimpArgs false

theorem arp_refines (c : Cur) (g : Mem) (o l : Nat) (ctx : Ctx) (k : Nat) (ht : Tied c ctx o l) :
    Rel (c.sliceArp g o l) (walkN false g (k + 1) c.r (.ether 0x0806) ctx) := by
  have hstep := arp_step g c.r ctx o l ht.coff ht.stop
  unfold Cur.sliceArp
  split at hstep
  · rename_i w hw
    obtain ⟨c', hs1⟩ := hstep
    rw [hw, walkN_next false g k _ _ _ _ _ _ (by simp) hs1, walkN_done]
    simp [Rel]
  · rename_i e he
    obtain ⟨f, hf, hrel⟩ := hstep
    rw [he, walkN_fault false g k _ _ _ _ _ _ f (by simp) hf]
    simp only [Rel, ErrMatch]
    exact lenRel_addOff e f c o ctx.lim ht.off hrel (lenRel_src_weak hrel)

/-- the link-extension loop and what follows, against the spec walk from an ether type tag -/
theorem ether_refines (c : Cur) (g : Mem) (hg : ByteMem g) (n et o l : Nat) (ctx : Ctx) (k : Nat)
    (ht : Tied c ctx o l) (hn : ctx.nExt + n = 3) (hk : n + 3 ≤ k) :
    Rel (c.sliceEtherType g n et o l) (walkN false g k c.r (.ether et) ctx) := by
  fun_induction Cur.sliceEtherType c g n et o l generalizing ctx k
  case case1 c et o l het =>
    -- a VLAN ether type but no room for another link extension
    obtain ⟨k', rfl⟩ : ∃ k', k = k' + 1 := ⟨k - 1, by omega⟩
    have hne : ctx.nExt = 3 := by omega
    have hv : isVlanType et = true := by simpa [isVlanType] using het
    have hstep : Spec.step false g c.r (.ether et) ctx = ⟨c.r, .done, ctx, none⟩ := by
      simp [Spec.step, hv, hne]
    rw [walkN_next false g k' _ _ _ _ _ _ (by simp) hstep, walkN_done]
    simp [Rel]
  case case2 c et o l het n e hv =>
    obtain ⟨k', rfl⟩ : ∃ k', k = k' + 1 := ⟨k - 1, by omega⟩
    have hne : ¬ ctx.nExt = 3 := by omega
    have hvl : isVlanType et = true := by simpa [isVlanType] using het
    have hav : ctx.avail = l := by unfold Ctx.avail; have := ht.coff; have := ht.stop; omega
    have hl4 : l < 4 ∧ e = { req := 4, len := l, src := .slice, layer := .vlanHeader, off := 0 } := by
      unfold vlanFromSlice at hv
      split at hv
      · cases hv; exact ⟨by assumption, rfl⟩
      · contradiction
    have hstep : Spec.step false g c.r (.ether et) ctx = ⟨c.r, .done, ctx, some (mkFault ctx .cutShort .vlan 4)⟩ := by
      simp [Spec.step, hvl, hne, hav, hl4.1]
    rw [walkN_fault false g k' _ _ _ _ _ _ _ (by simp) hstep]
    simp only [Rel, ErrMatch]
    have hrel : LenRel e (mkFault ctx .cutShort .vlan 4) o ctx.lim := by
      rw [hl4.2]
      have hco := ht.coff
      lenrel
    exact lenRel_addOff e _ c o ctx.lim ht.off hrel (by rw [hl4.2]; simp)
  case case3 c et o l het n w hv ih =>
    obtain ⟨k', rfl⟩ : ∃ k', k = k' + 1 := ⟨k - 1, by omega⟩
    have hne : ¬ ctx.nExt = 3 := by omega
    have hvl : isVlanType et = true := by simpa [isVlanType] using het
    have hav : ctx.avail = l := by unfold Ctx.avail; have := ht.coff; have := ht.stop; omega
    have hw := EpModel.Lemmas.Dec.vlan_in o l w hv
    have hl4 : ¬ l < 4 := by omega
    have hstep : Spec.step false g c.r (.ether et) ctx =
        ⟨c.r.pushExt (.vlan w), .ether (g16 g (o + 2)), { ctx with off := o + 4, nExt := ctx.nExt + 1 }, none⟩ := by
      simp [Spec.step, hvl, hne, hav, hl4, addExt_eq, ht.coff, hw.1]
    rw [walkN_next false g k' _ _ _ _ _ _ (by simp) hstep]
    apply ih
    · exact ⟨by simp [ht.off], rfl, by simp [ht.stop]; omega, by simpa using ht.src⟩
    · simp; omega
    · omega
  case case4 c o l hnv =>
    obtain ⟨k', rfl⟩ : ∃ k', k = k' + 1 := ⟨k - 1, by omega⟩
    have hne : ctx.nExt = 3 := by omega
    have hstep : Spec.step false g c.r (.ether 0x88e5) ctx = ⟨c.r, .done, ctx, none⟩ := by
      simp [Spec.step, isVlanType, hne]
    rw [walkN_next false g k' _ _ _ _ _ _ (by simp) hstep, walkN_done]
    simp [Rel]
  case case5 c o l n e he hnv =>
    obtain ⟨k', rfl⟩ : ∃ k', k = k' + 1 := ⟨k - 1, by omega⟩
    have hstep := macsec_step g hg c.r ctx o l ht.coff ht.stop (by omega)
    rw [he] at hstep
    obtain ⟨f, hf, hrel⟩ := hstep
    rw [walkN_fault false g k' _ _ _ _ _ _ f (by simp) hf]
    simp only [Rel, ErrMatch]
    exact lenRel_addOff e f c o ctx.lim ht.off hrel (lenRel_src_weak hrel)
  case case6 c o l n e hnl he hnv =>
    obtain ⟨k', rfl⟩ : ∃ k', k = k' + 1 := ⟨k - 1, by omega⟩
    have hstep := macsec_step g hg c.r ctx o l ht.coff ht.stop (by omega)
    rw [he] at hstep
    cases e with
    | len le => exact absurd rfl (fun h => hnl le h)
    | _ =>
      obtain ⟨f, hf, hrel⟩ := hstep
      rw [walkN_fault false g k' _ _ _ _ _ _ f (by simp) hf]
      simpa only [Rel, ErrMatch] using hrel
  case case7 c o l n hdr pl src inc hm c' et' hnx hnv ih =>
    obtain ⟨k', rfl⟩ : ∃ k', k = k' + 1 := ⟨k - 1, by omega⟩
    have hstep := macsec_step g hg c.r ctx o l ht.coff ht.stop (by omega)
    rw [hm] at hstep
    obtain ⟨hs1, hplo, _, _, hiff, hsrc⟩ := hstep
    rw [hnx] at hs1
    rw [walkN_next false g k' _ _ _ _ _ _ (by simp) hs1]
    apply ih
    · refine ⟨by simp only [c', ht.off]; omega, rfl, rfl, ?_⟩
      simp only [c']
      by_cases h0 : 0 < g (o + 1) % 64
      · simp only [h0, if_true, hiff.mp h0, inherit]; right; simp
      · have hsl : src = .slice := by
          rcases hsrc with h | h
          · exact h
          · exact absurd (hiff.mpr h) h0
        simp only [h0, if_false, hsl, inherit, if_true]
        exact ht.src
    · simp only; omega
    · omega
  case case8 c o l n hdr pl src inc hm c' hnx hnv =>
    obtain ⟨k', rfl⟩ : ∃ k', k = k' + 1 := ⟨k - 1, by omega⟩
    have hstep := macsec_step g hg c.r ctx o l ht.coff ht.stop (by omega)
    rw [hm] at hstep
    obtain ⟨hs1, _⟩ := hstep
    rw [hnx] at hs1
    rw [walkN_next false g k' _ _ _ _ _ _ (by simp) hs1, walkN_done]
    simp [Rel, c']
  case case9 c o l n x hno hx hnv =>
    have hstep := macsec_step g hg c.r ctx o l ht.coff ht.stop (by omega)
    rw [hx] at hstep
    cases x <;> first | exact (hno _ _ _ _ rfl).elim | exact hstep.elim
  case case10 n c o l _ _ =>
    obtain ⟨k', rfl⟩ : ∃ k', k = k' + 1 := ⟨k - 1, by omega⟩
    exact arp_refines c g o l ctx k' ht
  case case11 n c o l _ _ _ =>
    obtain ⟨k', rfl⟩ : ∃ k', k = k' + 3 := ⟨k - 3, by omega⟩
    have hstep : Spec.step false g c.r (.ether 0x0800) ctx = ⟨c.r, .ipv4, ctx, none⟩ := by
      simp [Spec.step, isVlanType]
    rw [walkN_next false g (k' + 2) _ _ _ _ _ _ (by simp) hstep]
    exact ipv4_refines c g hg o l ctx k' ht
  case case12 n c o l _ _ _ _ =>
    obtain ⟨k', rfl⟩ : ∃ k', k = k' + 3 := ⟨k - 3, by omega⟩
    have hstep : Spec.step false g c.r (.ether 0x86dd) ctx = ⟨c.r, .ipv6, ctx, none⟩ := by
      simp [Spec.step, isVlanType]
    rw [walkN_next false g (k' + 2) _ _ _ _ _ _ (by simp) hstep]
    exact ipv6_refines c g hg o l ctx k' ht
  case case13 n c et o l h1 h2 h3 h4 h5 =>
    obtain ⟨k', rfl⟩ : ∃ k', k = k' + 1 := ⟨k - 1, by omega⟩
    have hv : isVlanType et = false := by simpa [isVlanType] using h1
    have hstep : Spec.step false g c.r (.ether et) ctx = ⟨c.r, .done, ctx, none⟩ := by
      simp [Spec.step, hv, h2, h3, h4, h5]
    rw [walkN_next false g k' _ _ _ _ _ _ (by simp) hstep, walkN_done]
    simp [Rel]


theorem nonstd_eq (v : Nat) : sllNonStandard v = isLinuxNonstandardEtherType v := by
  unfold sllNonStandard isLinuxNonstandardEtherType
  rw [Bool.eq_iff_iff]
  simp only [List.mem_cons, List.mem_nil_iff, or_false, decide_eq_true_eq, List.elem_eq_mem,
    Bool.decide_or, Bool.decide_and, Bool.or_eq_true, Bool.and_eq_true]
  omega

def ctx0 (n : Nat) : Ctx := { off := 0, stop := n, lim := .slice, nExt := 0 }

theorem from_ether_type_refines (g : Mem) (hg : ByteMem g) (et n : Nat) :
    Rel (slicedFromEtherType g et n)
      (walkN false g maxSteps (startPacket n (.etherType et)) (.ether et) (ctx0 n)) := by
  unfold slicedFromEtherType
  exact ether_refines _ g hg 3 et 0 n (ctx0 n) maxSteps ⟨rfl, rfl, by simp [ctx0], Or.inl rfl⟩ (by simp [ctx0])
    (by simp [maxSteps])

theorem from_ethernet_refines (g : Mem) (hg : ByteMem g) (n : Nat) :
    Rel (slicedFromEthernet g n) (walkN false g maxSteps Packet.empty .eth (ctx0 n)) := by
  unfold slicedFromEthernet eth2FromSlice
  have hav : (ctx0 n).avail = n := by simp [ctx0, Ctx.avail]
  by_cases h : n < 14
  · simp only [h, if_true]
    have hstep : Spec.step false g Packet.empty .eth (ctx0 n) =
        ⟨Packet.empty, .done, ctx0 n, some (mkFault (ctx0 n) .cutShort .eth 14)⟩ := by
      simp [Spec.step, hav, h]
    rw [show maxSteps = 11 + 1 from rfl, walkN_fault false g 11 _ _ _ _ _ _ _ (by simp) hstep]
    simp only [Rel, ErrMatch]
    refine ⟨by simp [mkFault], by simp [mkFault, LayerUnit, LenError.addOffset], by simp [mkFault, LenError.addOffset, ctx0],
      by simp [mkFault, LenError.addOffset, hav], by simp [mkFault, LenError.addOffset],
      by simp [mkFault, LenError.addOffset]⟩
  · simp only [h, if_false]
    have hstep : Spec.step false g Packet.empty .eth (ctx0 n) =
        ⟨Packet.empty.setLink (.eth2 ⟨0, n⟩), .ether (g16 g 12), { ctx0 n with off := 14 }, none⟩ := by
      have hav' : ({ off := 0, stop := n, lim := LenSource.slice, nExt := 0 } : Ctx).avail = n := hav
      simp [Spec.step, hav', h, setLink_eq, ctx0]
    rw [show maxSteps = 11 + 1 from rfl, walkN_next false g 11 _ _ _ _ _ _ (by simp) hstep]
    exact ether_refines _ g hg 3 (g16 g 12) 14 (n - 14) _ 11
      ⟨rfl, rfl, by simp [ctx0]; omega, Or.inl rfl⟩ (by simp [ctx0]) (by omega)

theorem from_linux_sll_refines (g : Mem) (hg : ByteMem g) (n : Nat) :
    Rel (slicedFromLinuxSll g n) (walkN false g maxSteps Packet.empty .sll (ctx0 n)) := by
  unfold slicedFromLinuxSll sllFromSlice
  have hav : ({ off := 0, stop := n, lim := LenSource.slice, nExt := 0 } : Ctx).avail = n := by simp [Ctx.avail]
  rw [show maxSteps = 11 + 1 from rfl]
  by_cases h : n < 16
  · simp only [h, if_true]
    have hstep : Spec.step false g Packet.empty .sll (ctx0 n) =
        ⟨Packet.empty, .done, ctx0 n, some (mkFault (ctx0 n) .cutShort .sll 16)⟩ := by
      simp [Spec.step, hav, h, ctx0]
    rw [walkN_fault false g 11 _ _ _ _ _ _ _ (by simp) hstep]
    simp only [Rel, ErrMatch, lenAddOff]
    refine ⟨by simp [mkFault], by simp [mkFault, LayerUnit, LenError.addOffset], by simp [mkFault, LenError.addOffset, ctx0],
      by simp [mkFault, LenError.addOffset, hav, ctx0], by simp [mkFault, LenError.addOffset],
      by simp [mkFault, LenError.addOffset]⟩
  · simp only [h, if_false]
    by_cases hpt : 8 ≤ g16 g 0
    · simp only [hpt, if_true]
      have hstep : Spec.step false g Packet.empty .sll (ctx0 n) =
          ⟨Packet.empty, .done, ctx0 n, some (mkFault (ctx0 n) .content .sll 0 (g16 g 0))⟩ := by
        simp [Spec.step, hav, h, ctx0, show g16 g 0 > 7 from hpt]
      rw [walkN_fault false g 11 _ _ _ _ _ _ _ (by simp) hstep]
      simp [Rel, ErrMatch, lenAddOff, ContentMatch, mkFault]
    · simp only [hpt, if_false]
      have hpt' : ¬ g16 g 0 > 7 := by omega
      unfold sllProtoOf
      by_cases h1 : g16 g 2 = 824
      · have hstep : Spec.step false g Packet.empty .sll (ctx0 n) =
            ⟨Packet.empty.setLink (.sll ⟨0, n⟩), .done, { ctx0 n with off := 16 }, none⟩ := by
          simp [Spec.step, hav, h, ctx0, hpt', h1, sllSupportedHw, setLink_eq]
        rw [walkN_next false g 11 _ _ _ _ _ _ (by simp) hstep, walkN_done]
        simp [h1, Rel]
      · by_cases h2 : g16 g 2 = 778
        · have hstep : Spec.step false g Packet.empty .sll (ctx0 n) =
              ⟨Packet.empty.setLink (.sll ⟨0, n⟩), .done, { ctx0 n with off := 16 }, none⟩ := by
            simp [Spec.step, hav, h, ctx0, hpt', h2, sllSupportedHw, setLink_eq]
          rw [walkN_next false g 11 _ _ _ _ _ _ (by simp) hstep, walkN_done]
          simp [h2, Rel]
        · by_cases h3 : g16 g 2 = 803
          · have hstep : Spec.step false g Packet.empty .sll (ctx0 n) =
                ⟨Packet.empty.setLink (.sll ⟨0, n⟩), .done, { ctx0 n with off := 16 }, none⟩ := by
              simp [Spec.step, hav, h, ctx0, hpt', h3, sllSupportedHw, setLink_eq]
            rw [walkN_next false g 11 _ _ _ _ _ _ (by simp) hstep, walkN_done]
            simp [h3, Rel]
          · by_cases h4 : g16 g 2 = 770
            · have hstep : Spec.step false g Packet.empty .sll (ctx0 n) =
                  ⟨Packet.empty.setLink (.sll ⟨0, n⟩), .done, { ctx0 n with off := 16 }, none⟩ := by
                simp [Spec.step, hav, h, ctx0, hpt', h4, sllSupportedHw, setLink_eq]
              rw [walkN_next false g 11 _ _ _ _ _ _ (by simp) hstep, walkN_done]
              simp [h4, Rel]
            · by_cases h5 : g16 g 2 = 1
              · simp only [h1, h2, h3, h4, h5, if_true, if_false]
                rw [← nonstd_eq]
                by_cases hns : sllNonStandard (g16 g 14) = true
                · have hstep : Spec.step false g Packet.empty .sll (ctx0 n) =
                      ⟨Packet.empty.setLink (.sll ⟨0, n⟩), .done, { ctx0 n with off := 16 }, none⟩ := by
                    simp [Spec.step, hav, h, ctx0, hpt', h5, sllSupportedHw, setLink_eq, hns]
                  rw [walkN_next false g 11 _ _ _ _ _ _ (by simp) hstep, walkN_done]
                  simp [hns, Rel]
                · have hstep : Spec.step false g Packet.empty .sll (ctx0 n) =
                      ⟨Packet.empty.setLink (.sll ⟨0, n⟩), .ether (g16 g 14), { ctx0 n with off := 16 }, none⟩ := by
                    simp [Spec.step, hav, h, ctx0, hpt', h5, sllSupportedHw, setLink_eq, hns]
                  rw [walkN_next false g 11 _ _ _ _ _ _ (by simp) hstep]
                  simp only [hns, if_false, Bool.false_eq_true]
                  exact ether_refines _ g hg 3 (g16 g 14) 16 (n - 16) _ 11
                    ⟨rfl, rfl, by simp [ctx0]; omega, Or.inl rfl⟩ (by simp [ctx0]) (by omega)
              · have hstep : Spec.step false g Packet.empty .sll (ctx0 n) =
                    ⟨Packet.empty, .done, ctx0 n, some (mkFault (ctx0 n) .content .sll 0 (g16 g 2))⟩ := by
                  simp [Spec.step, hav, h, ctx0, hpt', sllSupportedHw, h1, h2, h3, h4, h5]
                rw [walkN_fault false g 11 _ _ _ _ _ _ _ (by simp) hstep]
                simp [h1, h2, h3, h4, h5, Rel, ErrMatch, lenAddOff, ContentMatch, mkFault]

/-- the version-dispatching decoders name the same faults with their own error variants -/
def renameIp : PErr → PErr
  | .ipv4Ihl v => .ipIhl v
  | .ipv4Version v => .ipVersion v
  | .ipv6Version v => .ipVersion v
  | e => e

theorem ipSlice_v4 (g : Mem) (o l : Nat) (h4 : g o / 16 = 4) (h20 : 20 ≤ l) :
    ipSliceFromSlice g o l =
      (match ipv4HeaderFromSlice g o l with
       | .error e => .error (renameIp e)
       | .ok hl => ipv4AfterHeaderStrict g o l hl) := by
  unfold ipSliceFromSlice ipDispatchHeader ipv4HeaderFromSlice
  have h0 : ¬ l = 0 := by omega
  have h20' : ¬ l < 20 := by omega
  simp only [h0, h4, h20', if_true, if_false, Bool.false_eq_true, false_and, ne_eq, not_true_eq_false]
  by_cases hi : g o % 16 < 5
  · simp [hi, renameIp]
  · simp only [hi, if_false]
    by_cases hl : l < g o % 16 * 4
    · simp [hl, renameIp]
    · simp [hl]

theorem ipSlice_v6 (g : Mem) (o l : Nat) (h6 : g o / 16 = 6) (h0 : 0 < l) :
    ipSliceFromSlice g o l = ipv6SliceFromSlice g o l := by
  unfold ipSliceFromSlice ipDispatchHeader ipv6SliceFromSlice ipv6HeaderFromSlice
  have h0 : ¬ l = 0 := by omega
  simp only [h0, h6, if_false, show ¬ (6 = 4) by omega, if_true, ne_eq, not_true_eq_false]
  by_cases h40 : l < 40 <;> simp [h40]

theorem ipSlice_other (g : Mem) (o l : Nat) (h4 : g o / 16 ≠ 4) (h6 : g o / 16 ≠ 6) (h0 : 0 < l) :
    ipSliceFromSlice g o l = .error (.ipVersion (g o / 16)) := by
  unfold ipSliceFromSlice ipDispatchHeader
  have h0 : ¬ l = 0 := by omega
  simp [h0, h4, h6]

theorem ipv4Header_err_kind (g : Mem) (o l : Nat) (e : PErr) (h4 : g o / 16 = 4)
    (h : ipv4HeaderFromSlice g o l = .error e) : (∃ v, e = .ipv4Ihl v) ∨ ∃ le, e = .len le := by
  unfold ipv4HeaderFromSlice at h
  simp only [h4, ne_eq, not_true_eq_false, if_false] at h
  split at h
  · cases h; exact Or.inr ⟨_, rfl⟩
  · split at h
    · cases h; exact Or.inl ⟨_, rfl⟩
    · split at h
      · cases h; exact Or.inr ⟨_, rfl⟩
      · cases h

theorem rel_rename (k : Nat) (e : PErr) (s : Packet × Option Fault)
    (hk : (∃ v, e = .ipv4Ihl v) ∨ ∃ le, e = .len le) (h : Rel (.error (lenAddOff k e)) s) :
    Rel (.error (lenAddOff k (renameIp e))) s := by
  rcases hk with ⟨v, rfl⟩ | ⟨le, rfl⟩
  · obtain ⟨p, f⟩ := s
    cases f with
    | none => simp [Rel] at h
    | some f => simpa [Rel, lenAddOff, renameIp, ErrMatch, ContentMatch] using h
  · simpa [renameIp] using h

/-- what `IpSlice::from_slice` says about an IPv4 header in fewer than 20 bytes: it looks at the IHL
    before the length, so it may name the bad IHL or require the IHL's length where the
    version-specific decoder (and the spec) say "20 bytes needed".  Both describe the bytes. -/
def ShortV4 (g : Mem) (o l : Nat) (c : Cur) (e : PErr) : Prop :=
  (g o % 16 < 5 ∧ e = .ipIhl (g o % 16)) ∨
  (5 ≤ g o % 16 ∧
    e = .len { req := g o % 16 * 4, len := l, src := .slice, layer := .ipv4Header, off := c.off })

theorem ip_refines (c : Cur) (g : Mem) (hg : ByteMem g) (o l : Nat) (ctx : Ctx) (k : Nat) (ht : Tied c ctx o l) :
    if g o / 16 = 4 ∧ 0 < l ∧ l < 20 then
      (∃ e, c.sliceIp g o l = .error e ∧ ShortV4 g o l c e) ∧
        (walkN false g (k + 3) c.r .ipAny ctx).2 = some (mkFault ctx .cutShort .ipv4Header 20)
    else Rel (c.sliceIp g o l) (walkN false g (k + 3) c.r .ipAny ctx) := by
  have hav : ctx.avail = l := by unfold Ctx.avail; have := ht.coff; have := ht.stop; omega
  have hco := ht.coff
  by_cases h0 : l = 0
  · have hc : ¬ (g o / 16 = 4 ∧ 0 < l ∧ l < 20) := by omega
    simp only [hc, if_false]
    have hstep : Spec.step false g c.r .ipAny ctx = ⟨c.r, .done, ctx, some (mkFault ctx .cutShort .ipAny 1)⟩ := by
      simp [Spec.step, hav, h0]
    rw [walkN_fault false g (k + 2) _ _ _ _ _ _ _ (by simp) hstep]
    unfold Cur.sliceIp ipSliceFromSlice ipDispatchHeader
    simp only [h0, if_true, Rel, ErrMatch, lenAddOff]
    refine ⟨by simp [mkFault], by simp [mkFault, LayerUnit, LenError.addOffset],
      by simp [mkFault, LenError.addOffset, ht.off, hco], by simp [mkFault, LenError.addOffset, hav, h0],
      by simp [mkFault, LenError.addOffset], by simp [mkFault, LenError.addOffset]⟩
  · have hl1 : ¬ ctx.avail < 1 := by omega
    by_cases h4 : g o / 16 = 4
    · have hstep : Spec.step false g c.r .ipAny ctx = ⟨c.r, .ipv4, ctx, none⟩ := by
        simp [Spec.step, hl1, hco, h4]
      rw [walkN_next false g (k + 2) _ _ _ _ _ _ (by simp) hstep]
      by_cases h20 : l < 20
      · have hc : (g o / 16 = 4 ∧ 0 < l ∧ l < 20) := ⟨h4, by omega, h20⟩
        simp only [hc, and_self, if_true]
        constructor
        · unfold Cur.sliceIp ipSliceFromSlice ipDispatchHeader ShortV4
          simp only [h0, h4, if_true, if_false, Bool.false_eq_true, false_and]
          by_cases hi : g o % 16 < 5
          · simp [hi, lenAddOff]
          · have : l < g o % 16 * 4 := by omega
            simp [hi, this, lenAddOff, LenError.addOffset]; omega
        · have hstep2 : Spec.step false g c.r .ipv4 ctx =
              ⟨c.r, .done, ctx, some (mkFault ctx .cutShort .ipv4Header 20)⟩ := by
            simp [Spec.step, hav, h20]
          rw [walkN_fault false g (k + 1) _ _ _ _ _ _ _ (by simp) hstep2]
      · have hc : ¬ (g o / 16 = 4 ∧ 0 < l ∧ l < 20) := by omega
        simp only [hc, if_false]
        have hr := ipv4_refines c g hg o l ctx k ht
        unfold Cur.sliceIp
        unfold Cur.sliceIpv4 ipv4SliceFromSlice at hr
        rw [ipSlice_v4 g o l h4 (by omega)]
        cases hh : ipv4HeaderFromSlice g o l with
        | error e =>
          rw [hh] at hr
          exact rel_rename c.off e _ (ipv4Header_err_kind g o l e h4 hh) hr
        | ok hl => rw [hh] at hr; exact hr
    · have hc : ¬ (g o / 16 = 4 ∧ 0 < l ∧ l < 20) := by simp [h4]
      simp only [hc, if_false]
      by_cases h6 : g o / 16 = 6
      · have hstep : Spec.step false g c.r .ipAny ctx = ⟨c.r, .ipv6, ctx, none⟩ := by
          simp [Spec.step, hl1, hco, h6]
        rw [walkN_next false g (k + 2) _ _ _ _ _ _ (by simp) hstep]
        unfold Cur.sliceIp
        rw [ipSlice_v6 g o l h6 (by omega)]
        exact ipv6_refines c g hg o l ctx k ht
      · have hstep : Spec.step false g c.r .ipAny ctx =
            ⟨c.r, .done, ctx, some (mkFault ctx .content .ipAny 0 (g o / 16))⟩ := by
          simp [Spec.step, hl1, hco, h4, h6]
        rw [walkN_fault false g (k + 2) _ _ _ _ _ _ _ (by simp) hstep]
        unfold Cur.sliceIp
        rw [ipSlice_other g o l h4 h6 (by omega)]
        simp [Rel, ErrMatch, lenAddOff, ContentMatch, mkFault]

theorem from_ip_refines (g : Mem) (hg : ByteMem g) (n : Nat) :
    if g 0 / 16 = 4 ∧ 0 < n ∧ n < 20 then
      (∃ e, slicedFromIp g n = .error e ∧ ShortV4 g 0 n Cur.new e) ∧
        (walkN false g maxSteps Packet.empty .ipAny (ctx0 n)).2 =
          some (mkFault (ctx0 n) .cutShort .ipv4Header 20)
    else Rel (slicedFromIp g n) (walkN false g maxSteps Packet.empty .ipAny (ctx0 n)) :=
  ip_refines Cur.new g hg 0 n (ctx0 n) 9 ⟨rfl, rfl, by simp [ctx0], Or.inl rfl⟩

end EpModel.Lemmas.Refine
