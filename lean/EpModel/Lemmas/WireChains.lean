import EpModel.Lemmas.BuilderChecksum
import EpModel.Model.ChecksumWire
import EpModel.Lemmas.CodecNetIpv4
import EpModel.Props.C08Link
import EpModel.Model.ChecksumIgmp
/-
  Helper lemmas for Props/C09Wire.lean: zeroing the checksum field of a header, word sums of the pieces the
  crate's checksum chains add against the words of the header bytes.
-/
namespace EpModel.Lemmas.WireChains
open EpModel EpModel.Codec EpModel.CodecNet EpModel.Builder EpModel.Checksum EpModel.Lemmas.Builder

theorem noZeroW_eq (v : Nat) : noZeroW v = noZero v := rfl

theorem enc16_len (n : Nat) : (enc16 n).length = 2 := by simp [enc16]

theorem enc32_len (n : Nat) : (enc32 n).length = 4 := by simp [enc32]

/-- zeroing two bytes behind a prefix -/
theorem zeroAt_append (a x b : Bytes) (hx : x.length = 2) :
    zeroAt (a ++ x ++ b) a.length 2 = a ++ [0, 0] ++ b := by
  have h1 : (a ++ x ++ b).take a.length = a := by rw [List.append_assoc, List.take_left' rfl]
  have h2 : (a ++ x ++ b).drop (a.length + 2) = b := by
    have : a.length + 2 = (a ++ x).length := by simp [hx]
    rw [this, List.drop_left' rfl]
  unfold zeroAt
  rw [h1, h2]
  rfl

theorem udp_words_gen (h : Udp) (src dst p : Bytes) (hs : src.length = 4) (hd : dst.length = 4) :
    udpPostIp h [src, dst, [0, 17], enc16 h.len] p
      = noZero (Spec.checksum (src ++ dst ++ [0, 17] ++ enc16 h.len
                                ++ (enc16 h.sp ++ enc16 h.dp ++ enc16 h.len) ++ p)) := by
  simp only [udpPostIp, swap16_noZero]
  rw [chain_eq]
  · simp
  · simp [PartOk, hs, hd]

/-- replacing an even-length piece at an even offset by one with the same 16 bit word sum -/
theorem checksum_swap_mid (a x y b : Bytes) (ha : a.length % 2 = 0) (hx : x.length % 2 = 0) (hy : y.length % 2 = 0)
    (h : Spec.beWords x = Spec.beWords y) : Spec.checksum (a ++ x ++ b) = Spec.checksum (a ++ y ++ b) := by
  apply checksum_congr
  rw [List.append_assoc, List.append_assoc, Lemmas.Builder.beWords_append_even a _ ha,
    Lemmas.Builder.beWords_append_even a _ ha, Lemmas.Builder.beWords_append_even x _ hx,
    Lemmas.Builder.beWords_append_even y _ hy, h]

theorem enc32_small (n : Nat) (h : n < 65536) : enc32 n = [0, 0] ++ enc16 n := by
  simp only [enc32, enc16, u8]
  have h1 : n / 16777216 % 256 = 0 := by omega
  have h2 : n / 65536 % 256 = 0 := by omega
  simp [h1, h2]

theorem udp6_words_gen (h : Udp) (src dst p : Bytes) (hs : src.length = 16) (hd : dst.length = 16) :
    udpPostIp h (split16 src ++ split16 dst ++ [[0, 17], enc16 h.len]) p
      = noZero (Spec.checksum (src ++ dst ++ [0, 17] ++ enc16 h.len
                                ++ (enc16 h.sp ++ enc16 h.dp ++ enc16 h.len) ++ p)) := by
  simp only [udpPostIp, swap16_noZero]
  rw [chain_eq]
  · simp only [List.append_assoc]
    rw [split16_flatten_app, split16_flatten_app]
    simp
  · simp [PartOk, split16, hs, hd]

/-- the TCP header bytes with the checksum field zeroed -/
theorem tcp_zeroAt (h : Tcp) :
    zeroAt (Tcp.toBytes h) 16 2 =
      enc16 h.sp ++ enc16 h.dp ++ enc32 h.seq ++ enc32 h.ack ++ [u8 h.byte12, u8 h.byte13] ++ enc16 h.win
        ++ [0, 0] ++ (enc16 h.urgp ++ h.opts.asSlice) := by
  rw [EpModel.Props.C08Link.Tcp.toBytes_eq h]
  have := zeroAt_append (enc16 h.sp ++ enc16 h.dp ++ enc32 h.seq ++ enc32 h.ack ++ [u8 h.byte12, u8 h.byte13] ++ enc16 h.win)
    (enc16 h.ck) (enc16 h.urgp ++ h.opts.buf.take h.opts.len) (enc16_len _)
  simp only [List.length_append, enc16_len, enc32_len, List.length_cons, List.length_nil] at this
  simp only [Tcp.fixed, TcpOpts.asSlice, List.append_assoc] at this ⊢
  exact this

theorem list4 (b : Bytes) (h : b.length = 4) : ∃ a0 a1 a2 a3, b = [a0, a1, a2, a3] := by
  match b, h with
  | [a0, a1, a2, a3], _ => exact ⟨a0, a1, a2, a3, rfl⟩

/-- the words `Icmpv4Type::calc_checksum` adds are the words of the header bytes with a zeroed checksum field -/
theorem icmp4_parts_words (t : Icmp4Type) (ck : Nat) (ok : icmp4LenOk t) :
    Spec.beWords (icmp4Parts t).flatten = Spec.beWords (zeroAt (Icmp4.toBytes ⟨t, ck⟩) 2 2) ∧
      (icmp4Parts t).flatten.length % 2 = 0 ∧ (zeroAt (Icmp4.toBytes ⟨t, ck⟩) 2 2).length % 2 = 0 := by
  cases t with
  | unknown t c b =>
    obtain ⟨a0, a1, a2, a3, rfl⟩ := list4 b ok
    simp [icmp4Parts, Icmp4.toBytes, Icmp4.re4u8, zeroAt, Spec.beWords, enc16, Codec.zeros, List.replicate]
  | redirect c g =>
    obtain ⟨a0, a1, a2, a3, rfl⟩ := list4 g ok
    simp [icmp4Parts, Icmp4.toBytes, Icmp4.re4u8, zeroAt, Spec.beWords, enc16, Codec.zeros, List.replicate]
  | echoReply id seq =>
    simp [icmp4Parts, Icmp4.toBytes, Icmp4.re2u16, zeroAt, Spec.beWords, enc16, Codec.zeros, List.replicate]
  | echoRequest id seq =>
    simp [icmp4Parts, Icmp4.toBytes, Icmp4.re2u16, zeroAt, Spec.beWords, enc16, Codec.zeros, List.replicate]
  | destUnreach code mtu =>
    by_cases h4 : code = 4 <;>
      simp [icmp4Parts, Icmp4.toBytes, Icmp4.re4u8, Icmp4.reZero, zeroAt, Spec.beWords, enc16, Codec.zeros, List.replicate, h4]
  | timeExceeded code =>
    simp [icmp4Parts, Icmp4.toBytes, Icmp4.reZero, zeroAt, Spec.beWords, enc16, Codec.zeros, List.replicate]
  | paramProblem code ptr =>
    by_cases h0 : code = 0 <;>
      simp [icmp4Parts, Icmp4.toBytes, Icmp4.re4u8, Icmp4.reZero, zeroAt, Spec.beWords, enc16, Codec.zeros, List.replicate, h0]
  | tsRequest id seq o r t =>
    simp [icmp4Parts, Icmp4.toBytes, Icmp4.reTimestamp, zeroAt, Spec.beWords, enc16, enc32, Codec.zeros, List.replicate]
  | tsReply id seq o r t =>
    simp [icmp4Parts, Icmp4.toBytes, Icmp4.reTimestamp, zeroAt, Spec.beWords, enc16, enc32, Codec.zeros, List.replicate]

theorem zeroAt_append_right (a b : Bytes) (i n : Nat) (h : i + n ≤ a.length) :
    zeroAt (a ++ b) i n = zeroAt a i n ++ b := by
  unfold zeroAt
  rw [List.take_append_of_le_length (by omega), List.drop_append_of_le_length h]
  simp [List.append_assoc]

theorem zeroAt_length (a : Bytes) (i n : Nat) (h : i + n ≤ a.length) : (zeroAt a i n).length = a.length := by
  unfold zeroAt
  simp; omega

theorem icmp6_parts_words (t : Icmp6Type) (ck : Nat) (ok : icmp6LenOk t) :
    Spec.beWords (icmp6Parts t).flatten = Spec.beWords (zeroAt (Icmp6.toBytes ⟨t, ck⟩) 2 2) ∧
      (icmp6Parts t).flatten.length % 2 = 0 ∧ (zeroAt (Icmp6.toBytes ⟨t, ck⟩) 2 2).length = 8 := by
  cases t with
  | unknown t c b =>
    obtain ⟨a0, a1, a2, a3, rfl⟩ := list4 b ok
    simp [icmp6Parts, Icmp6.toBytes, Icmp6.return4u8, zeroAt, Spec.beWords, enc16, Codec.zeros, List.replicate]
  | routerAdvertisement chl m o lt =>
    simp [icmp6Parts, Icmp6.toBytes, Icmp6.return4u8, Icmp6.raBytes, zeroAt, Spec.beWords, enc16, Codec.zeros, List.replicate]
  | neighborAdvertisement r s o =>
    simp [icmp6Parts, Icmp6.toBytes, Icmp6.return4u8, Icmp6.naBytes, zeroAt, Spec.beWords, enc16, Codec.zeros, List.replicate]
  | _ =>
    simp [icmp6Parts, Icmp6.toBytes, Icmp6.return4u8, Icmp6.returnTrivial, zeroAt, Spec.beWords, enc16, enc32, Codec.zeros,
      List.replicate]

theorem list2 (b : Bytes) (h : b.length = 2) : ∃ a0 a1, b = [a0, a1] := by
  match b, h with
  | [a0, a1], _ => exact ⟨a0, a1, rfl⟩

theorem igmp_parts_ok (t : IgmpType) (wf : Igmp.IgmpType.WF t) : ∀ p ∈ igmpParts t, PartOk p := by
  cases t <;> simp_all [igmpParts, PartOk, Igmp.IgmpType.WF]

theorem igmp_parts_words (t : IgmpType) (ck : Nat) (wf : Igmp.IgmpType.WF t) :
    Spec.beWords (igmpParts t).flatten = Spec.beWords (zeroAt (Igmp.toBytes ⟨t, ck⟩) 2 2) ∧
      (igmpParts t).flatten.length % 2 = 0 ∧ (zeroAt (Igmp.toBytes ⟨t, ck⟩) 2 2).length % 2 = 0 ∧
      2 + 2 ≤ (Igmp.toBytes ⟨t, ck⟩).length := by
  cases t with
  | membershipQuery m g =>
    obtain ⟨a0, a1, a2, a3, rfl⟩ := list4 g wf.2
    simp [igmpParts, Igmp.toBytes, Igmp.eight, zeroAt, Spec.beWords, enc16, Codec.zeros, List.replicate]
  | membershipQueryWithSources m g r q n =>
    obtain ⟨a0, a1, a2, a3, rfl⟩ := list4 g wf.2.1
    simp [igmpParts, Igmp.toBytes, zeroAt, Spec.beWords, enc16]
  | membershipReportV1 g =>
    obtain ⟨a0, a1, a2, a3, rfl⟩ := list4 g wf
    simp [igmpParts, Igmp.toBytes, Igmp.eight, zeroAt, Spec.beWords, enc16, Codec.zeros, List.replicate]
  | membershipReportV2 g =>
    obtain ⟨a0, a1, a2, a3, rfl⟩ := list4 g wf
    simp [igmpParts, Igmp.toBytes, Igmp.eight, zeroAt, Spec.beWords, enc16, Codec.zeros, List.replicate]
  | leaveGroup g =>
    obtain ⟨a0, a1, a2, a3, rfl⟩ := list4 g wf
    simp [igmpParts, Igmp.toBytes, Igmp.eight, zeroAt, Spec.beWords, enc16, Codec.zeros, List.replicate]
  | membershipReportV3 f n =>
    obtain ⟨a0, a1, rfl⟩ := list2 f wf.1
    simp [igmpParts, Igmp.toBytes, Igmp.eight, zeroAt, Spec.beWords, enc16, Codec.zeros, List.replicate]
  | unknown t r raw =>
    obtain ⟨a0, a1, a2, a3, rfl⟩ := list4 raw wf.2.2.1
    simp [igmpParts, Igmp.toBytes, Igmp.eight, zeroAt, Spec.beWords, enc16, Codec.zeros, List.replicate]

end EpModel.Lemmas.WireChains
