import EpModel.Model.Codec.NetCommon
/-
  Helper lemmas for the network-layer codec proofs (C08): `Nat` bit operations on bounded values
  as arithmetic, byte lists as cons cells, reserved-bit clearing.
-/
namespace EpModel.Lemmas.CodecNet
open EpModel EpModel.CodecNet

theorem and_mask (x n : Nat) : x &&& (2 ^ n - 1) = x % 2 ^ n := Nat.and_two_pow_sub_one_eq_mod x n

/-- `a | b = a + b` when `a` is a multiple of `2^i` and `b < 2^i`. -/
theorem or_eq_add {a b : Nat} (i : Nat) (ha : a % 2 ^ i = 0) (hb : b < 2 ^ i) : a ||| b = a + b := by
  have h1 : a = (a / 2 ^ i) <<< i := by
    rw [Nat.shiftLeft_eq]
    have := Nat.div_add_mod a (2 ^ i)
    rw [ha] at this
    rw [Nat.mul_comm]; omega
  rw [h1, ← Nat.shiftLeft_add_eq_or_of_lt hb]

theorem and1 (x : Nat) : x &&& 1 = x % 2 := and_mask x 1
theorem and3 (x : Nat) : x &&& 3 = x % 4 := and_mask x 2
theorem and15 (x : Nat) : x &&& 15 = x % 16 := and_mask x 4
theorem and31 (x : Nat) : x &&& 31 = x % 32 := and_mask x 5
theorem and63 (x : Nat) : x &&& 63 = x % 64 := and_mask x 6
theorem and127 (x : Nat) : x &&& 127 = x % 128 := and_mask x 7

set_option maxRecDepth 100000 in
theorem and64 : ∀ x : Nat, x < 256 → x &&& 64 = (x / 64 % 2) * 64 := by decide
set_option maxRecDepth 100000 in
theorem and32 : ∀ x : Nat, x < 256 → x &&& 32 = (x / 32 % 2) * 32 := by decide
set_option maxRecDepth 100000 in
theorem and249 : ∀ x : Nat, x < 256 → x &&& 249 = x / 8 * 8 + x % 2 := by decide

@[simp] theorem bAt_cons_zero (x : UInt8) (l : Bytes) : bAt (x :: l) 0 = x.toNat := by simp [bAt]
@[simp] theorem bAt_cons_succ (x : UInt8) (l : Bytes) (i : Nat) :
    bAt (x :: l) (i + 1) = bAt l i := by
  simp [bAt]

theorem u8_eq_of {n : Nat} {x : UInt8} (h : n % 256 = x.toNat) : u8 n = x := by
  apply UInt8.toNat_inj.mp; rw [u8_toNat]; exact h

theorem exists_cons (b : Bytes) (h : 0 < b.length) : ∃ x r, b = x :: r := by
  cases b with
  | nil => simp at h
  | cons x r => exact ⟨x, r, rfl⟩

theorem bAt_take (b : Bytes) (n i : Nat) (h : i < n) : bAt (b.take n) i = bAt b i := by
  unfold bAt
  simp [List.getD_eq_getElem?_getD, h]

theorem be32_take (b : Bytes) (n i : Nat) (h : i + 3 < n) : be32 (b.take n) i = be32 b i := by
  unfold be32
  rw [bAt_take _ _ _ (by omega), bAt_take _ _ _ (by omega), bAt_take _ _ _ (by omega),
    bAt_take _ _ _ (by omega)]

end EpModel.Lemmas.CodecNet
