import EpModel.Lemmas.CodecLink
/-
  Bit-field facts about single header bytes, each proved by exhaustive evaluation (`decide`
  over all values of the byte / of the fields packed into it).  Used by Props/C08Link.lean.
-/
namespace EpModel.Lemmas.Codec
open EpModel EpModel.Codec

/-! ### 802.1Q: byte 0 = pcp(3) dei(1) vid-high(4) -/

theorem vlan_b0_fwd : ∀ pcp, pcp < 8 → ∀ hi, hi < 16 → ∀ dei : Bool,
    let B := ((if dei then hi ||| 0x10 else hi) ||| ((pcp <<< 5) % 256)) % 256
    ((B >>> 5) &&& 0b111 = pcp ∧ decide ((B &&& 0x10) ≠ 0) = dei ∧ B &&& 0b1111 = hi) := by decide

set_option maxRecDepth 8000 in
theorem vlan_b0_bwd : ∀ x, x < 256 →
    ((if decide ((x &&& 0x10) ≠ 0) then (x &&& 0b1111) ||| 0x10 else (x &&& 0b1111)) |||
      ((((x >>> 5) &&& 0b111) <<< 5) % 256)) % 256 = x ∧ (x >>> 5) &&& 0b111 < 8 ∧ x &&& 0b1111 < 16 := by
  decide

/-! ### TCP byte 12 (data offset, reserved, ns) and byte 13 (flags) -/

theorem tcp_b12_fwd : ∀ len, len < 41 → len % 4 = 0 → ∀ ns : Bool,
    let v := (((5 + (len >>> 2)) <<< 4) % 256) &&& 0xF0
    let B := (if ns then v ||| 1 else v) % 256
    ((B &&& 0xf0) >>> 2 = 20 + len ∧ (B &&& 0b1111_0000) >>> 4 = 5 + len / 4 ∧
      decide ((B &&& 1) ≠ 0) = ns) := by decide

set_option maxRecDepth 8000 in
theorem tcp_b12_bwd : ∀ x, x < 256 → 20 ≤ (x &&& 0xf0) >>> 2 →
    let len := (((x &&& 0b1111_0000) >>> 4) * 4 - 20) % 256
    let v := (((5 + (len >>> 2)) <<< 4) % 256) &&& 0xF0
    ((if decide ((x &&& 1) ≠ 0) then v ||| 1 else v) % 256 = x &&& 0xF1 ∧
      (x &&& 0xf0) >>> 2 = ((x &&& 0b1111_0000) >>> 4) * 4 ∧ (x &&& 0xf0) >>> 2 ≤ 60) := by decide

theorem tcp_b13_fwd : ∀ (fin syn rst psh ack urg ece cwr : Bool),
    let v := 0
    let v := if fin then v ||| 1 else v
    let v := if syn then v ||| 2 else v
    let v := if rst then v ||| 4 else v
    let v := if psh then v ||| 8 else v
    let v := if ack then v ||| 16 else v
    let v := if urg then v ||| 32 else v
    let v := if ece then v ||| 64 else v
    let v := if cwr then v ||| 128 else v
    let B := v % 256
    (decide ((B &&& 1) ≠ 0) = fin ∧ decide ((B &&& 2) ≠ 0) = syn ∧ decide ((B &&& 4) ≠ 0) = rst ∧
     decide ((B &&& 8) ≠ 0) = psh ∧ decide ((B &&& 16) ≠ 0) = ack ∧ decide ((B &&& 32) ≠ 0) = urg ∧
     decide ((B &&& 64) ≠ 0) = ece ∧ decide ((B &&& 128) ≠ 0) = cwr) := by decide

set_option maxRecDepth 8000 in
theorem tcp_b13_bwd : ∀ x, x < 256 →
    (let v := 0
     let v := if decide ((x &&& 1) ≠ 0) then v ||| 1 else v
     let v := if decide ((x &&& 2) ≠ 0) then v ||| 2 else v
     let v := if decide ((x &&& 4) ≠ 0) then v ||| 4 else v
     let v := if decide ((x &&& 8) ≠ 0) then v ||| 8 else v
     let v := if decide ((x &&& 16) ≠ 0) then v ||| 16 else v
     let v := if decide ((x &&& 32) ≠ 0) then v ||| 32 else v
     let v := if decide ((x &&& 64) ≠ 0) then v ||| 64 else v
     let v := if decide ((x &&& 128) ≠ 0) then v ||| 128 else v
     v) = x := by decide

end EpModel.Lemmas.Codec
