import EpModel.Lemmas.CodecLink
/-
  Bit-field facts about single header bytes, each proved by exhaustive evaluation (`decide`
  over all values of the byte / of the fields packed into it).  Used by Props/C08Link.lean.
-/
namespace EpModel.Lemmas.Codec
open EpModel EpModel.Codec

/-! ### 802.1Q: byte 0 = pcp(3) dei(1) vid-high(4) -/

theorem vlan_b0_fwd : ∀ pcp, pcp < 8 → ∀ hi, hi < 16 → ∀ dei : Bool,
    let B := ((if dei then hi ||| 0x10 else hi) ||| ((pcp <<< 5) % 256)) % 256
    ((B >>> 5) &&& 0b111 = pcp ∧ decide ((B &&& 0x10) ≠ 0) = dei ∧ B &&& 0b1111 = hi) := by decide

set_option maxRecDepth 8000 in
theorem vlan_b0_bwd : ∀ x, x < 256 →
    ((if decide ((x &&& 0x10) ≠ 0) then (x &&& 0b1111) ||| 0x10 else (x &&& 0b1111)) |||
      ((((x >>> 5) &&& 0b111) <<< 5) % 256)) % 256 = x ∧ (x >>> 5) &&& 0b111 < 8 ∧ x &&& 0b1111 < 16 := by
  decide

end EpModel.Lemmas.Codec
