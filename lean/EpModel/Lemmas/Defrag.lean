import EpModel.Model.Defrag
import EpModel.Spec.Reassembly
/-
  Helper lemmas for C11 (EpModel/Props/C11.lean): ranges and the merge loop, the data buffer,
  the abstract fact set, the refinement invariant between `Buf` and the facts.
-/
namespace EpModel.Lemmas.Defrag
open EpModel EpModel.Defrag

/-! ### ranges -/

/-- `start ≤ end` -/
def Range.Valid (r : Range) : Prop := r.start ≤ r.stop
/-- not connected: a gap of at least one position between the two (closed) intervals -/
def Range.Disc (a b : Range) : Prop := a.stop < b.start ∨ b.stop < a.start
/-- byte position `i` lies in the section -/
def Range.Has (r : Range) (i : Nat) : Prop := r.start ≤ i ∧ i < r.stop

instance (a b : Range) : Decidable (Range.Disc a b) := by unfold Range.Disc; exact inferInstance
instance (r : Range) : Decidable (Range.Valid r) := by unfold Range.Valid; exact inferInstance

theorem Range.Disc.symm {a b : Range} (h : Range.Disc a b) : Range.Disc b a := Or.symm h

/-- some section contains byte position `i` -/
def covers (rs : List Range) (i : Nat) : Prop := ∃ r ∈ rs, Range.Has r i

/-- the largest `end` of the sections (0 if there is none) -/
def extentR : List Range → Nat
  | [] => 0
  | r :: rs => max r.stop (extentR rs)

theorem merge_none_iff (a b : Range) (ha : Range.Valid a) (hb : Range.Valid b) :
    a.merge b = none ↔ Range.Disc a b := by
  unfold Range.merge Range.isValueConnected Range.Disc
  unfold Range.Valid at ha hb
  split <;> simp <;> omega

theorem merge_some {a b m : Range} (ha : Range.Valid a) (hb : Range.Valid b)
    (h : a.merge b = some m) :
    m.start = min a.start b.start ∧ m.stop = max a.stop b.stop ∧ ¬ Range.Disc a b := by
  have hn : ¬ Range.Disc a b := by
    intro hd; rw [(merge_none_iff a b ha hb).2 hd] at h; cases h
  unfold Range.merge at h
  split at h
  · cases h; exact ⟨rfl, rfl, hn⟩
  · cases h

theorem merge_valid {a b m : Range} (ha : Range.Valid a) (hb : Range.Valid b)
    (h : a.merge b = some m) : Range.Valid m := by
  have := merge_some ha hb h
  unfold Range.Valid at *; omega

/-- the hull of two connected sections contains exactly the positions of the two -/
theorem merge_has {a b m : Range} (ha : Range.Valid a) (hb : Range.Valid b)
    (h : a.merge b = some m) (i : Nat) : Range.Has m i ↔ Range.Has a i ∨ Range.Has b i := by
  have := merge_some ha hb h
  unfold Range.Valid Range.Disc Range.Has at *; omega

/-- a section disconnected from two connected sections is disconnected from their hull -/
theorem merge_disc {a b m x : Range} (ha : Range.Valid a) (hb : Range.Valid b) (hx : Range.Valid x)
    (h : a.merge b = some m) (h1 : Range.Disc x a) (h2 : Range.Disc x b) : Range.Disc x m := by
  have := merge_some ha hb h
  unfold Range.Valid Range.Disc at *; omega

/-! ### the merge loop of `add` -/

theorem mergeLoop_cons_some {ns it m : Range} {rest : List Range} (h : ns.merge it = some m) :
    mergeLoop ns (it :: rest) = mergeLoop m rest := by
  simp [mergeLoop, h]

theorem mergeLoop_cons_none {ns it : Range} {rest : List Range} (h : ns.merge it = none) :
    mergeLoop ns (it :: rest) = ((mergeLoop ns rest).1, it :: (mergeLoop ns rest).2) := by
  simp [mergeLoop, h]

theorem mergeLoop_valid (rs : List Range) : ∀ (ns : Range), Range.Valid ns →
    (∀ r ∈ rs, Range.Valid r) → Range.Valid (mergeLoop ns rs).1 := by
  induction rs with
  | nil => intro ns h _; simpa [mergeLoop] using h
  | cons it rest ih =>
    intro ns hns hrs
    have hit : Range.Valid it := hrs it (by simp)
    have hrest : ∀ r ∈ rest, Range.Valid r := fun r hr => hrs r (by simp [hr])
    cases hm : ns.merge it with
    | some m => rw [mergeLoop_cons_some hm]; exact ih m (merge_valid hns hit hm) hrest
    | none => rw [mergeLoop_cons_none hm]; exact ih ns hns hrest

theorem mergeLoop_sublist (rs : List Range) : ∀ (ns : Range), (mergeLoop ns rs).2.Sublist rs := by
  induction rs with
  | nil => intro ns; simp [mergeLoop]
  | cons it rest ih =>
    intro ns
    cases hm : ns.merge it with
    | some m => rw [mergeLoop_cons_some hm]; exact (ih m).cons it
    | none => rw [mergeLoop_cons_none hm]; exact (ih ns).cons_cons it

/-- positions: the new section and the retained ones contain what the inserted range and the old
    sections contained -/
theorem mergeLoop_has (rs : List Range) : ∀ (ns : Range), Range.Valid ns →
    (∀ r ∈ rs, Range.Valid r) → ∀ i,
    (Range.Has (mergeLoop ns rs).1 i ∨ covers (mergeLoop ns rs).2 i) ↔ (Range.Has ns i ∨ covers rs i) := by
  induction rs with
  | nil => intro ns _ _ i; simp [mergeLoop]
  | cons it rest ih =>
    intro ns hns hrs i
    have hit : Range.Valid it := hrs it (by simp)
    have hrest : ∀ r ∈ rest, Range.Valid r := fun r hr => hrs r (by simp [hr])
    cases hm : ns.merge it with
    | some m =>
      rw [mergeLoop_cons_some hm, ih m (merge_valid hns hit hm) hrest i, merge_has hns hit hm i]
      simp only [covers, List.mem_cons, exists_eq_or_imp]
      constructor
      · rintro ((h | h) | h)
        · exact Or.inl h
        · exact Or.inr (Or.inl h)
        · exact Or.inr (Or.inr h)
      · rintro (h | h | h)
        · exact Or.inl (Or.inl h)
        · exact Or.inl (Or.inr h)
        · exact Or.inr h
    | none =>
      rw [mergeLoop_cons_none hm]
      have := ih ns hns hrest i
      simp only [covers, List.mem_cons, exists_eq_or_imp] at this ⊢
      constructor
      · rintro (h | h | h)
        · rcases this.1 (Or.inl h) with h | h
          · exact Or.inl h
          · exact Or.inr (Or.inr h)
        · exact Or.inr (Or.inl h)
        · rcases this.1 (Or.inr h) with h | h
          · exact Or.inl h
          · exact Or.inr (Or.inr h)
      · rintro (h | h | h)
        · rcases this.2 (Or.inl h) with h | h
          · exact Or.inl h
          · exact Or.inr (Or.inr h)
        · exact Or.inr (Or.inl h)
        · rcases this.2 (Or.inr h) with h | h
          · exact Or.inl h
          · exact Or.inr (Or.inr h)

/-- a section disconnected from the inserted range and from all old sections is disconnected from
    the final new section -/
theorem mergeLoop_disc (rs : List Range) : ∀ (ns x : Range), Range.Valid ns → Range.Valid x →
    (∀ r ∈ rs, Range.Valid r) → Range.Disc x ns → (∀ r ∈ rs, Range.Disc x r) →
    Range.Disc x (mergeLoop ns rs).1 := by
  induction rs with
  | nil => intro ns x _ _ _ h _; simpa [mergeLoop] using h
  | cons it rest ih =>
    intro ns x hns hx hrs hd hds
    have hit : Range.Valid it := hrs it (by simp)
    have hrest : ∀ r ∈ rest, Range.Valid r := fun r hr => hrs r (by simp [hr])
    have hdrest : ∀ r ∈ rest, Range.Disc x r := fun r hr => hds r (by simp [hr])
    cases hm : ns.merge it with
    | some m =>
      rw [mergeLoop_cons_some hm]
      exact ih m x (merge_valid hns hit hm) hx hrest (merge_disc hns hit hx hm hd (hds it (by simp))) hdrest
    | none => rw [mergeLoop_cons_none hm]; exact ih ns x hns hx hrest hd hdrest

/-- every retained section is disconnected from the final new section -/
theorem mergeLoop_kept_disc (rs : List Range) : ∀ (ns : Range), Range.Valid ns →
    (∀ r ∈ rs, Range.Valid r) → rs.Pairwise Range.Disc →
    ∀ k ∈ (mergeLoop ns rs).2, Range.Disc k (mergeLoop ns rs).1 := by
  induction rs with
  | nil => intro ns _ _ _ k hk; simp [mergeLoop] at hk
  | cons it rest ih =>
    intro ns hns hrs hp k hk
    have hit : Range.Valid it := hrs it (by simp)
    have hrest : ∀ r ∈ rest, Range.Valid r := fun r hr => hrs r (by simp [hr])
    rw [List.pairwise_cons] at hp
    cases hm : ns.merge it with
    | some m =>
      rw [mergeLoop_cons_some hm] at hk ⊢
      exact ih m (merge_valid hns hit hm) hrest hp.2 k hk
    | none =>
      rw [mergeLoop_cons_none hm] at hk ⊢
      simp only [List.mem_cons] at hk
      rcases hk with rfl | hk
      · exact mergeLoop_disc rest ns k hns hit hrest
          (((merge_none_iff ns k hns hit).1 hm).symm) hp.1
      · exact ih ns hns hrest hp.2 k hk

/-- the final new section contains the inserted range -/
theorem mergeLoop_bounds (rs : List Range) : ∀ (ns : Range), Range.Valid ns →
    (∀ r ∈ rs, Range.Valid r) →
    (mergeLoop ns rs).1.start ≤ ns.start ∧ ns.stop ≤ (mergeLoop ns rs).1.stop := by
  induction rs with
  | nil => intro ns _ _; simp [mergeLoop]
  | cons it rest ih =>
    intro ns hns hrs
    have hit : Range.Valid it := hrs it (by simp)
    have hrest : ∀ r ∈ rest, Range.Valid r := fun r hr => hrs r (by simp [hr])
    cases hm : ns.merge it with
    | some m =>
      rw [mergeLoop_cons_some hm]
      have := ih m (merge_valid hns hit hm) hrest
      have := merge_some hns hit hm
      omega
    | none => rw [mergeLoop_cons_none hm]; exact ih ns hns hrest

theorem extentR_append (a b : List Range) : extentR (a ++ b) = max (extentR a) (extentR b) := by
  induction a with
  | nil => simp [extentR]
  | cons r rs ih => simp only [List.cons_append, extentR, ih]; omega

/-- the largest end after the loop -/
theorem mergeLoop_extent (rs : List Range) : ∀ (ns : Range), Range.Valid ns →
    (∀ r ∈ rs, Range.Valid r) →
    max (mergeLoop ns rs).1.stop (extentR (mergeLoop ns rs).2) = max ns.stop (extentR rs) := by
  induction rs with
  | nil => intro ns _ _; simp [mergeLoop]
  | cons it rest ih =>
    intro ns hns hrs
    have hit : Range.Valid it := hrs it (by simp)
    have hrest : ∀ r ∈ rest, Range.Valid r := fun r hr => hrs r (by simp [hr])
    cases hm : ns.merge it with
    | some m =>
      rw [mergeLoop_cons_some hm, ih m (merge_valid hns hit hm) hrest]
      have := merge_some hns hit hm
      simp only [extentR]; omega
    | none =>
      rw [mergeLoop_cons_none hm]
      have := ih ns hns hrest
      simp only [extentR] at this ⊢; omega

/-! ### the data buffer -/

theorem growTo_length (d : List Cell) (n : Nat) : (growTo d n).length = max d.length n := by
  unfold growTo; split
  · simp; omega
  · omega

theorem growTo_getElem? (d : List Cell) (n i : Nat) :
    (growTo d n)[i]? = if i < d.length then d[i]? else if i < n then some none else none := by
  unfold growTo
  split
  · rw [List.getElem?_append]
    split
    · rfl
    · rw [List.getElem?_replicate]; split <;> split <;> first | rfl | omega
  · split
    · rfl
    · rw [List.getElem?_eq_none (by omega)]; split <;> first | rfl | omega

theorem writeAt_length (d : List Cell) (off : Nat) (p : Bytes) (h : off + p.length ≤ d.length) :
    (writeAt d off p).length = d.length := by
  unfold writeAt; simp; omega

theorem writeAt_getElem? (d : List Cell) (off : Nat) (p : Bytes) (h : off + p.length ≤ d.length)
    (i : Nat) :
    (writeAt d off p)[i]? = if off ≤ i ∧ i < off + p.length then some p[i - off]? else d[i]? := by
  unfold writeAt
  rw [List.append_assoc, List.getElem?_append]
  simp only [List.length_take, List.getElem?_take]
  have hmin : min off d.length = off := by omega
  rw [hmin]
  by_cases h1 : i < off
  · simp [h1]; omega
  · simp only [h1, if_false]
    rw [List.getElem?_append]
    simp only [List.length_map, List.getElem?_map, List.getElem?_drop]
    by_cases h2 : i - off < p.length
    · have h3 : off ≤ i ∧ i < off + p.length := by omega
      simp only [h2, h3, if_true, and_self]
      rw [List.getElem?_eq_getElem h2]; rfl
    · have h3 : ¬ (off ≤ i ∧ i < off + p.length) := by omega
      simp only [h2, h3, if_false]
      congr 1; omega

/-! ### the abstract fact set -/

open Spec.Reasm in
theorem covered_cons (f : Frag) (fs : List Frag) (i : Nat) :
    covered (f :: fs) i ↔ (f.off ≤ i ∧ i < f.stop) ∨ covered fs i := by
  simp [covered]

open Spec.Reasm in
theorem covered_lt_extent (fs : List Frag) (i : Nat) (h : covered fs i) : i < extent fs := by
  induction fs with
  | nil => simp [covered] at h
  | cons f fs ih =>
    rw [covered_cons] at h
    simp only [extent]
    rcases h with h | h
    · omega
    · have := ih h; omega

open Spec.Reasm in
theorem byteAt_isSome_iff (fs : List Frag) (i : Nat) : (byteAt fs i).isSome ↔ covered fs i := by
  induction fs with
  | nil => simp [byteAt, covered]
  | cons f fs ih =>
    rw [covered_cons]
    simp only [byteAt]
    split
    · rename_i h
      have : i - f.off < f.bytes.length := by unfold Frag.stop at h; omega
      simp [List.getElem?_eq_getElem this, h]
    · rename_i h
      rw [ih]; simp [h]

open Spec.Reasm in
theorem byteAt_none_of_ge (fs : List Frag) (i : Nat) (h : extent fs ≤ i) : byteAt fs i = none := by
  cases hb : byteAt fs i with
  | none => rfl
  | some v =>
    have : covered fs i := (byteAt_isSome_iff fs i).1 (by simp [hb])
    have := covered_lt_extent fs i this
    omega

/-! ### refinement invariant between a reconstruction buffer and the accepted facts -/

open Spec.Reasm

/-- the fact a call `add(fo, mf, payload)` delivers -/
def factOf (fo : Nat) (mf : Bool) (p : Bytes) : Frag := { fo := fo, last := !mf, bytes := p }

/-- the crate's error value for an abstract rejection -/
def errOf : Reject → Err
  | .unaligned fo len => .unalignedFragmentPayloadLen fo len
  | .tooBig fo len => .segmentTooBig fo len 65535
  | .endConflict a b => .conflictingEnd a b

/-- `Inv b fs`: buffer `b` represents exactly the accepted facts `fs` (newest first). -/
structure Inv (b : Buf) (fs : List Frag) : Prop where
  valid : ∀ r ∈ b.sections, Range.Valid r
  pairwise : b.sections.Pairwise Range.Disc
  cover : ∀ i, covers b.sections i ↔ covered fs i
  extent : extentR b.sections = extent fs
  empty : b.sections = [] ↔ fs = []
  endEq : b.endKnown = endOf fs
  endExt : ∀ e, b.endKnown = some e → extentR b.sections = e
  len : b.data.length = extentR b.sections
  bytes : ∀ i, i < b.data.length → b.data[i]? = some (byteAt fs i)

theorem inv_new (ip : Nat) : Inv (Buf.new ip) [] := by
  refine ⟨?_, ?_, ?_, ?_, ?_, ?_, ?_, ?_, ?_⟩ <;> simp [Buf.new, covers, covered, extentR, extent, endOf]

theorem maxStop_none {rs : List Range} (h : maxStop rs = none) : rs = [] := by
  cases rs with
  | nil => rfl
  | cons r rs => simp only [maxStop] at h; split at h <;> cases h

theorem maxStop_some {rs : List Range} {m : Nat} (h : maxStop rs = some m) : m = extentR rs := by
  induction rs generalizing m with
  | nil => simp [maxStop] at h
  | cons r rs ih =>
    simp only [maxStop] at h
    split at h
    · rename_i hn
      cases h
      have := maxStop_none hn
      subst this; simp [extentR]
    · rename_i m' hs
      cases h
      rw [ih hs]; simp [extentR]

theorem endOf_le_extent {fs : List Frag} {e : Nat} (h : endOf fs = some e) : e ≤ extent fs := by
  induction fs with
  | nil => simp [endOf] at h
  | cons f fs ih =>
    simp only [endOf] at h
    simp only [extent]
    split at h
    · cases h; omega
    · have := ih h; omega

/-- the validation of `add` is the abstract consistency check -/
theorem addCheck_eq {b : Buf} {fs : List Frag} (h : Inv b fs) (fo : Nat) (mf : Bool) (p : Bytes) :
    b.addCheck fo mf p = (check fs (factOf fo mf p)).map errOf := by
  unfold Buf.addCheck check factOf Frag.stop Frag.off maxLen
  simp only []
  by_cases h1 : p.length > 65535
  · have : 8 * fo + p.length > 65535 := by omega
    simp [h1, this, errOf]
  · by_cases h2 : fo * 8 + p.length > 65535
    · have : 8 * fo + p.length > 65535 := by omega
      simp [h1, h2, this, errOf]
    · have h2' : ¬ (8 * fo + p.length > 65535) := by omega
      simp only [h1, h2, h2', if_false]
      cases mf with
      | true =>
        by_cases h3 : p.length % 8 ≠ 0
        · simp [h3, errOf]
        · simp only [h3, and_false, if_false, Bool.not_true, Bool.false_eq_true, false_and, or_false,
            Bool.true_eq_false]
          rw [← h.endEq]
          cases he : b.endKnown with
          | none => simp
          | some e =>
            simp only []
            have : fo * 8 = 8 * fo := by omega
            rw [this]
            by_cases hc : e < 8 * fo + p.length <;> simp [hc, errOf]
      | false =>
        simp only [Bool.false_eq_true, false_and, if_false, Bool.not_false, true_and]
        rw [← h.endEq]
        have hc : fo * 8 = 8 * fo := by omega
        rw [hc]
        cases he : b.endKnown with
        | some e =>
          simp only []
          by_cases hc : e < 8 * fo + p.length ∨ 8 * fo + p.length ≠ e
          · simp [hc, errOf]
          · simp only [hc, if_false]
            have hx := h.endExt e he
            cases hm : maxStop b.sections with
            | none => simp
            | some m =>
              have := maxStop_some hm
              have : ¬ (m > 8 * fo + p.length) := by omega
              simp [this]
        | none =>
          simp only []
          rw [← h.extent]
          cases hm : maxStop b.sections with
          | none =>
            have := maxStop_none hm
            rw [this]; simp [extentR]
          | some m =>
            rw [maxStop_some hm]
            simp only [gt_iff_lt]
            by_cases hc : 8 * fo + p.length < extentR b.sections <;> simp [hc, errOf]

theorem covers_append (a b : List Range) (i : Nat) : covers (a ++ b) i ↔ covers a i ∨ covers b i := by
  simp only [covers, List.mem_append]
  constructor
  · rintro ⟨r, hr | hr, h⟩
    · exact Or.inl ⟨r, hr, h⟩
    · exact Or.inr ⟨r, hr, h⟩
  · rintro (⟨r, hr, h⟩ | ⟨r, hr, h⟩)
    · exact ⟨r, Or.inl hr, h⟩
    · exact ⟨r, Or.inr hr, h⟩

theorem covers_singleton (r : Range) (i : Nat) : covers [r] i ↔ Range.Has r i := by
  simp [covers]

/-- what `check … = none` says about the new fragment -/
theorem check_none {fs : List Frag} {fo : Nat} {mf : Bool} {p : Bytes}
    (h : check fs (factOf fo mf p) = none) :
    8 * fo + p.length ≤ 65535 ∧ (mf = true → p.length % 8 = 0) ∧
    (∀ e, endOf fs = some e → 8 * fo + p.length ≤ e ∧ (mf = false → 8 * fo + p.length = e)) ∧
    (endOf fs = none → mf = false → extent fs ≤ 8 * fo + p.length) := by
  unfold check factOf Frag.stop Frag.off at h
  simp only [] at h
  split at h
  · cases h
  · rename_i h1
    split at h
    · cases h
    · rename_i h2
      refine ⟨by omega, ?_, ?_, ?_⟩
      · intro hm; subst hm; simp at h2; omega
      · intro e he
        rw [he] at h
        simp only [] at h
        split at h
        · cases h
        · rename_i h3
          cases mf <;> simp at h3 <;> simp <;> omega
      · intro he hm
        rw [he] at h
        simp only [] at h
        split at h
        · cases h
        · rename_i h3
          subst hm; simp at h3; omega

/-- the mutation half of `add` keeps the invariant, with the new fact added -/
theorem addCore_inv {b : Buf} {fs : List Frag} (h : Inv b fs) (fo : Nat) (mf : Bool) (p : Bytes)
    (hc : check fs (factOf fo mf p) = none) : Inv (b.addCore fo mf p) (factOf fo mf p :: fs) := by
  obtain ⟨_, _, hA, hB⟩ := check_none hc
  have hns : Range.Valid { start := fo * 8, stop := fo * 8 + p.length } := by
    unfold Range.Valid; simp
  have hsub := mergeLoop_sublist b.sections { start := fo * 8, stop := fo * 8 + p.length }
  have hext := mergeLoop_extent b.sections _ hns h.valid
  -- the largest end after the call
  have hext' : extentR ((mergeLoop { start := fo * 8, stop := fo * 8 + p.length } b.sections).2 ++
      [(mergeLoop { start := fo * 8, stop := fo * 8 + p.length } b.sections).1]) =
      max (fo * 8 + p.length) (extentR b.sections) := by
    rw [extentR_append]; simp only [extentR]; simp only [] at hext; omega
  -- a last fragment is never in front of received data
  have hlast : mf = false → extentR b.sections ≤ fo * 8 + p.length := by
    intro hm
    cases he : endOf fs with
    | none => have := hB he hm; rw [h.extent]; omega
    | some e =>
      have := (hA e he).2 hm
      have := h.endExt e (by rw [h.endEq, he]); omega
  have hknown : ∀ e, b.endKnown = some e → fo * 8 + p.length ≤ e := by
    intro e he
    have := (hA e (by rw [← h.endEq, he])).1; omega
  have hlen : (writeAt (growTo b.data (fo * 8 + p.length)) (fo * 8) p).length =
      max b.data.length (fo * 8 + p.length) := by
    rw [writeAt_length _ _ _ (by rw [growTo_length]; omega), growTo_length]
  refine ⟨?_, ?_, ?_, ?_, ?_, ?_, ?_, ?_, ?_⟩
  · -- valid
    intro r hr
    simp only [Buf.addCore, List.mem_append, List.mem_singleton] at hr
    rcases hr with hr | rfl
    · exact h.valid r (hsub.subset hr)
    · exact mergeLoop_valid _ _ hns h.valid
  · -- pairwise
    simp only [Buf.addCore]
    rw [List.pairwise_append]
    refine ⟨h.pairwise.sublist hsub, by simp, ?_⟩
    intro a ha c hc
    simp only [List.mem_singleton] at hc
    subst hc
    exact mergeLoop_kept_disc _ _ hns h.valid h.pairwise a ha
  · -- cover
    intro i
    simp only [Buf.addCore]
    rw [covers_append, covers_singleton, covered_cons, Or.comm,
      mergeLoop_has _ _ hns h.valid i, h.cover i]
    simp only [Range.Has, factOf, Frag.stop, Frag.off]
    have : fo * 8 = 8 * fo := by omega
    rw [this]
  · -- extent
    simp only [Buf.addCore]
    rw [hext', h.extent]
    simp only [extent, factOf, Frag.stop, Frag.off]; omega
  · -- empty
    simp [Buf.addCore]
  · -- endEq
    simp only [Buf.addCore, endOf, factOf, Frag.stop, Frag.off]
    cases mf with
    | true => simp [h.endEq]
    | false => simp; omega
  · -- endExt
    intro e he
    simp only [Buf.addCore] at he ⊢
    rw [hext']
    cases mf with
    | false =>
      simp at he
      have := hlast rfl; omega
    | true =>
      simp at he
      have := hknown e he
      have := h.endExt e he; omega
  · -- len
    simp only [Buf.addCore]
    rw [hext']
    cases mf with
    | false =>
      simp only [if_true]
      rw [List.length_take, hlen]
      have := hlast rfl
      have := h.len; omega
    | true =>
      simp only [Bool.true_eq_false, if_false]
      rw [hlen, h.len]; omega
  · -- bytes
    intro i hi
    have hw := writeAt_getElem? (growTo b.data (fo * 8 + p.length)) (fo * 8) p
      (by rw [growTo_length]; omega) i
    have hg := growTo_getElem? b.data (fo * 8 + p.length) i
    have hold : i < b.data.length → b.data[i]? = some (byteAt fs i) := h.bytes i
    have hnone : b.data.length ≤ i → byteAt fs i = none := by
      intro hge; apply byteAt_none_of_ge; rw [← h.extent, ← h.len]; exact hge
    have hbyte : byteAt (factOf fo mf p :: fs) i =
        if fo * 8 ≤ i ∧ i < fo * 8 + p.length then p[i - fo * 8]? else byteAt fs i := by
      simp only [byteAt, factOf, Frag.stop, Frag.off]
      have : fo * 8 = 8 * fo := by omega
      rw [this]
      split <;> rename_i hh <;> simp [hh]
    -- the cell in the written buffer
    have hcell : i < max b.data.length (fo * 8 + p.length) →
        (writeAt (growTo b.data (fo * 8 + p.length)) (fo * 8) p)[i]? =
          some (byteAt (factOf fo mf p :: fs) i) := by
      intro hi'
      rw [hw, hbyte]
      split
      · rfl
      · rw [hg]
        split
        · rename_i hlt; exact hold hlt
        · rename_i hge
          split
          · rw [hnone (by omega)]
          · omega
    simp only [Buf.addCore] at hi ⊢
    cases mf with
    | false =>
      simp only [if_true] at hi ⊢
      rw [List.length_take, hlen] at hi
      rw [List.getElem?_take]
      have : i < fo * 8 + p.length := by omega
      simp only [this, if_true]
      exact hcell (by omega)
    | true =>
      simp only [Bool.true_eq_false, if_false] at hi ⊢
      rw [hlen] at hi
      exact hcell hi

/-- `add` = abstract check, then the invariant-preserving mutation -/
theorem add_eq {b : Buf} {fs : List Frag} (h : Inv b fs) (fo : Nat) (mf : Bool) (p : Bytes) :
    b.add fo mf p = match check fs (factOf fo mf p) with
      | some r => .error (errOf r)
      | none => .ok (b.addCore fo mf p) := by
  unfold Buf.add
  rw [addCheck_eq h]
  cases check fs (factOf fo mf p) <;> rfl

/-! ### completeness -/

theorem le_extentR {rs : List Range} {r : Range} (h : r ∈ rs) : r.stop ≤ extentR rs := by
  induction rs with
  | nil => cases h
  | cons a rs ih =>
    simp only [extentR]
    rcases List.mem_cons.1 h with rfl | h
    · omega
    · have := ih h; omega

theorem exists_gt_of_extentR : ∀ (rs : List Range) (n : Nat), n < extentR rs → ∃ r ∈ rs, n < r.stop
  | [], n, h => by simp [extentR] at h
  | r :: rs, n, h => by
    simp only [extentR] at h
    by_cases hr : n < r.stop
    · exact ⟨r, by simp, hr⟩
    · obtain ⟨r', hr', hlt⟩ := exists_gt_of_extentR rs n (by omega)
      exact ⟨r', by simp [hr'], hlt⟩

theorem pairwise_ne {rs : List Range} (hp : rs.Pairwise Range.Disc) {a c : Range}
    (ha : a ∈ rs) (hc : c ∈ rs) (hne : a ≠ c) : Range.Disc a c := by
  induction rs with
  | nil => cases ha
  | cons x rs ih =>
    rw [List.pairwise_cons] at hp
    rcases List.mem_cons.1 ha with ha1 | ha1
    · rcases List.mem_cons.1 hc with hc1 | hc1
      · exact absurd (ha1.trans hc1.symm) hne
      · rw [ha1]; exact hp.1 c hc1
    · rcases List.mem_cons.1 hc with hc1 | hc1
      · rw [hc1]; exact (hp.1 a ha1).symm
      · exact ih hp.2 ha1 hc1

theorem all_eq_singleton {rs : List Range} {s0 : Range} (hne : rs ≠ []) (hall : ∀ t ∈ rs, t = s0)
    (hp : rs.Pairwise Range.Disc) (hv : Range.Valid s0) : rs = [s0] := by
  cases rs with
  | nil => exact absurd rfl hne
  | cons a rest =>
    have ha := hall a (by simp)
    subst ha
    cases rest with
    | nil => rfl
    | cons c rest' =>
      have hc := hall c (by simp)
      subst hc
      rw [List.pairwise_cons] at hp
      have := hp.1 c (by simp)
      unfold Range.Disc Range.Valid at *; omega

/-- disconnected sections that contain every position below their largest end are one section -/
theorem single_section {rs : List Range} {e : Nat} (hv : ∀ r ∈ rs, Range.Valid r)
    (hp : rs.Pairwise Range.Disc) (hne : rs ≠ []) (hext : extentR rs = e)
    (hcov : ∀ i, i < e → covers rs i) : rs = [{ start := 0, stop := e }] := by
  by_cases he : e = 0
  · subst he
    apply all_eq_singleton hne _ hp (by unfold Range.Valid; simp)
    intro t ht
    have h1 := le_extentR ht
    have h2 := hv t ht
    unfold Range.Valid at h2
    cases t with
    | mk a c => simp only [Range.mk.injEq] at *; omega
  · obtain ⟨s0, hs0, h0⟩ := hcov 0 (by omega)
    unfold Range.Has at h0
    have hle := le_extentR hs0
    have hstop : s0.stop = e := by
      by_cases hlt : s0.stop < e
      · obtain ⟨s1, hs1, h1⟩ := hcov s0.stop (by omega)
        unfold Range.Has at h1
        have hne1 : s0 ≠ s1 := by intro hh; subst hh; omega
        have := pairwise_ne hp hs0 hs1 hne1
        unfold Range.Disc at this; omega
      · omega
    have hs0eq : s0 = { start := 0, stop := e } := by
      cases s0 with
      | mk a c => simp only [Range.mk.injEq] at *; omega
    subst hs0eq
    apply all_eq_singleton hne _ hp (by unfold Range.Valid; simp)
    intro t ht
    apply Classical.byContradiction
    intro hne2
    have hd := pairwise_ne hp hs0 ht (fun hh => hne2 hh.symm)
    have h1 := le_extentR ht
    have h2 := hv t ht
    unfold Range.Disc Range.Valid at *
    simp only [] at hd
    omega

theorem endOf_some_ne_nil {fs : List Frag} {e : Nat} (h : endOf fs = some e) : fs ≠ [] := by
  intro hh; subst hh; simp [endOf] at h

/-- `is_complete` holds exactly when the end is known and every position below it was delivered -/
theorem isComplete_iff {b : Buf} {fs : List Frag} (h : Inv b fs) :
    b.isComplete = true ↔ ∃ e, complete fs e := by
  constructor
  · intro hc
    unfold Buf.isComplete at hc
    split at hc
    · rename_i e s he hs
      have hst : s.start = 0 := by simpa using hc
      have hx := h.endExt e he
      rw [hs] at hx
      simp only [extentR] at hx
      refine ⟨e, by rw [← h.endEq, he], ?_⟩
      intro i hi
      rw [← h.cover i, hs, covers_singleton]
      unfold Range.Has; omega
    · cases hc
  · rintro ⟨e, he, hcov⟩
    have hek : b.endKnown = some e := by rw [h.endEq, he]
    have hne : b.sections ≠ [] := fun hh => endOf_some_ne_nil he (h.empty.1 hh)
    have := single_section h.valid h.pairwise hne (h.endExt e hek)
      (fun i hi => (h.cover i).2 (hcov i hi))
    unfold Buf.isComplete
    rw [hek, this]
    simp

theorem emit_isSome_iff (fs : List Frag) : (emit fs).isSome ↔ ∃ e, complete fs e := by
  unfold emit complete
  cases he : endOf fs with
  | none => simp
  | some e =>
    simp only []
    constructor
    · intro hh
      split at hh
      · rename_i hc; exact ⟨e, rfl, hc⟩
      · cases hh
    · rintro ⟨e', he', hc⟩
      cases he'
      split
      · rfl
      · rename_i hn; exact absurd hc hn

/-- the data of a complete buffer is the abstract payload, every cell written -/
theorem complete_data {b : Buf} {fs : List Frag} (h : Inv b fs) {bs : Bytes} (he : emit fs = some bs) :
    b.data = bs.map some := by
  unfold emit at he
  split at he
  · rename_i e hend
    split at he
    · rename_i hcov
      cases he
      have hek : b.endKnown = some e := by rw [h.endEq, hend]
      have hlen : b.data.length = e := by rw [h.len, h.endExt e hek]
      apply List.ext_getElem?
      intro i
      by_cases hi : i < e
      · rw [h.bytes i (by omega)]
        simp only [payload, List.getElem?_map, List.getElem?_range hi, Option.map_some]
        have := (byteAt_isSome_iff fs i).2 (hcov i hi)
        cases hb : byteAt fs i with
        | none => rw [hb] at this; cases this
        | some v => simp
      · rw [List.getElem?_eq_none (by omega), List.getElem?_eq_none (by simp [payload]; omega)]
    · cases he
  · cases he

end EpModel.Lemmas.Defrag
