import EpModel.Model.Defrag
import EpModel.Spec.Reassembly
/-
  Helper lemmas for C11 (EpModel/Props/C11.lean): ranges and the merge loop, the data buffer,
  the abstract fact set, the refinement invariant between `Buf` and the facts.
-/
namespace EpModel.Lemmas.Defrag
open EpModel EpModel.Defrag

/-! ### ranges -/

/-- `start ≤ end` -/
def Range.Valid (r : Range) : Prop := r.start ≤ r.stop
/-- not connected: a gap of at least one position between the two (closed) intervals -/
def Range.Disc (a b : Range) : Prop := a.stop < b.start ∨ b.stop < a.start
/-- byte position `i` lies in the section -/
def Range.Has (r : Range) (i : Nat) : Prop := r.start ≤ i ∧ i < r.stop

instance (a b : Range) : Decidable (Range.Disc a b) := by unfold Range.Disc; exact inferInstance
instance (r : Range) : Decidable (Range.Valid r) := by unfold Range.Valid; exact inferInstance

theorem Range.Disc.symm {a b : Range} (h : Range.Disc a b) : Range.Disc b a := Or.symm h

/-- some section contains byte position `i` -/
def covers (rs : List Range) (i : Nat) : Prop := ∃ r ∈ rs, Range.Has r i

/-- the largest `end` of the sections (0 if there is none) -/
def extentR : List Range → Nat
  | [] => 0
  | r :: rs => max r.stop (extentR rs)

theorem merge_none_iff (a b : Range) (ha : Range.Valid a) (hb : Range.Valid b) :
    a.merge b = none ↔ Range.Disc a b := by
  unfold Range.merge Range.isValueConnected Range.Disc
  unfold Range.Valid at ha hb
  split <;> simp <;> omega

theorem merge_some {a b m : Range} (ha : Range.Valid a) (hb : Range.Valid b)
    (h : a.merge b = some m) :
    m.start = min a.start b.start ∧ m.stop = max a.stop b.stop ∧ ¬ Range.Disc a b := by
  have hn : ¬ Range.Disc a b := by
    intro hd; rw [(merge_none_iff a b ha hb).2 hd] at h; cases h
  unfold Range.merge at h
  split at h
  · cases h; exact ⟨rfl, rfl, hn⟩
  · cases h

theorem merge_valid {a b m : Range} (ha : Range.Valid a) (hb : Range.Valid b)
    (h : a.merge b = some m) : Range.Valid m := by
  have := merge_some ha hb h
  unfold Range.Valid at *; omega

/-- the hull of two connected sections contains exactly the positions of the two -/
theorem merge_has {a b m : Range} (ha : Range.Valid a) (hb : Range.Valid b)
    (h : a.merge b = some m) (i : Nat) : Range.Has m i ↔ Range.Has a i ∨ Range.Has b i := by
  have := merge_some ha hb h
  unfold Range.Valid Range.Disc Range.Has at *; omega

/-- a section disconnected from two connected sections is disconnected from their hull -/
theorem merge_disc {a b m x : Range} (ha : Range.Valid a) (hb : Range.Valid b) (hx : Range.Valid x)
    (h : a.merge b = some m) (h1 : Range.Disc x a) (h2 : Range.Disc x b) : Range.Disc x m := by
  have := merge_some ha hb h
  unfold Range.Valid Range.Disc at *; omega

/-! ### the merge loop of `add` -/

theorem mergeLoop_cons_some {ns it m : Range} {rest : List Range} (h : ns.merge it = some m) :
    mergeLoop ns (it :: rest) = mergeLoop m rest := by
  simp [mergeLoop, h]

theorem mergeLoop_cons_none {ns it : Range} {rest : List Range} (h : ns.merge it = none) :
    mergeLoop ns (it :: rest) = ((mergeLoop ns rest).1, it :: (mergeLoop ns rest).2) := by
  simp [mergeLoop, h]

theorem mergeLoop_valid (rs : List Range) : ∀ (ns : Range), Range.Valid ns →
    (∀ r ∈ rs, Range.Valid r) → Range.Valid (mergeLoop ns rs).1 := by
  induction rs with
  | nil => intro ns h _; simpa [mergeLoop] using h
  | cons it rest ih =>
    intro ns hns hrs
    have hit : Range.Valid it := hrs it (by simp)
    have hrest : ∀ r ∈ rest, Range.Valid r := fun r hr => hrs r (by simp [hr])
    cases hm : ns.merge it with
    | some m => rw [mergeLoop_cons_some hm]; exact ih m (merge_valid hns hit hm) hrest
    | none => rw [mergeLoop_cons_none hm]; exact ih ns hns hrest

theorem mergeLoop_sublist (rs : List Range) : ∀ (ns : Range), (mergeLoop ns rs).2.Sublist rs := by
  induction rs with
  | nil => intro ns; simp [mergeLoop]
  | cons it rest ih =>
    intro ns
    cases hm : ns.merge it with
    | some m => rw [mergeLoop_cons_some hm]; exact (ih m).cons it
    | none => rw [mergeLoop_cons_none hm]; exact (ih ns).cons_cons it

/-- positions: the new section and the retained ones contain what the inserted range and the old
    sections contained -/
theorem mergeLoop_has (rs : List Range) : ∀ (ns : Range), Range.Valid ns →
    (∀ r ∈ rs, Range.Valid r) → ∀ i,
    (Range.Has (mergeLoop ns rs).1 i ∨ covers (mergeLoop ns rs).2 i) ↔ (Range.Has ns i ∨ covers rs i) := by
  induction rs with
  | nil => intro ns _ _ i; simp [mergeLoop]
  | cons it rest ih =>
    intro ns hns hrs i
    have hit : Range.Valid it := hrs it (by simp)
    have hrest : ∀ r ∈ rest, Range.Valid r := fun r hr => hrs r (by simp [hr])
    cases hm : ns.merge it with
    | some m =>
      rw [mergeLoop_cons_some hm, ih m (merge_valid hns hit hm) hrest i, merge_has hns hit hm i]
      simp only [covers, List.mem_cons, exists_eq_or_imp]
      constructor
      · rintro ((h | h) | h)
        · exact Or.inl h
        · exact Or.inr (Or.inl h)
        · exact Or.inr (Or.inr h)
      · rintro (h | h | h)
        · exact Or.inl (Or.inl h)
        · exact Or.inl (Or.inr h)
        · exact Or.inr h
    | none =>
      rw [mergeLoop_cons_none hm]
      have := ih ns hns hrest i
      simp only [covers, List.mem_cons, exists_eq_or_imp] at this ⊢
      constructor
      · rintro (h | h | h)
        · rcases this.1 (Or.inl h) with h | h
          · exact Or.inl h
          · exact Or.inr (Or.inr h)
        · exact Or.inr (Or.inl h)
        · rcases this.1 (Or.inr h) with h | h
          · exact Or.inl h
          · exact Or.inr (Or.inr h)
      · rintro (h | h | h)
        · rcases this.2 (Or.inl h) with h | h
          · exact Or.inl h
          · exact Or.inr (Or.inr h)
        · exact Or.inr (Or.inl h)
        · rcases this.2 (Or.inr h) with h | h
          · exact Or.inl h
          · exact Or.inr (Or.inr h)

/-- a section disconnected from the inserted range and from all old sections is disconnected from
    the final new section -/
theorem mergeLoop_disc (rs : List Range) : ∀ (ns x : Range), Range.Valid ns → Range.Valid x →
    (∀ r ∈ rs, Range.Valid r) → Range.Disc x ns → (∀ r ∈ rs, Range.Disc x r) →
    Range.Disc x (mergeLoop ns rs).1 := by
  induction rs with
  | nil => intro ns x _ _ _ h _; simpa [mergeLoop] using h
  | cons it rest ih =>
    intro ns x hns hx hrs hd hds
    have hit : Range.Valid it := hrs it (by simp)
    have hrest : ∀ r ∈ rest, Range.Valid r := fun r hr => hrs r (by simp [hr])
    have hdrest : ∀ r ∈ rest, Range.Disc x r := fun r hr => hds r (by simp [hr])
    cases hm : ns.merge it with
    | some m =>
      rw [mergeLoop_cons_some hm]
      exact ih m x (merge_valid hns hit hm) hx hrest (merge_disc hns hit hx hm hd (hds it (by simp))) hdrest
    | none => rw [mergeLoop_cons_none hm]; exact ih ns x hns hx hrest hd hdrest

/-- every retained section is disconnected from the final new section -/
theorem mergeLoop_kept_disc (rs : List Range) : ∀ (ns : Range), Range.Valid ns →
    (∀ r ∈ rs, Range.Valid r) → rs.Pairwise Range.Disc →
    ∀ k ∈ (mergeLoop ns rs).2, Range.Disc k (mergeLoop ns rs).1 := by
  induction rs with
  | nil => intro ns _ _ _ k hk; simp [mergeLoop] at hk
  | cons it rest ih =>
    intro ns hns hrs hp k hk
    have hit : Range.Valid it := hrs it (by simp)
    have hrest : ∀ r ∈ rest, Range.Valid r := fun r hr => hrs r (by simp [hr])
    rw [List.pairwise_cons] at hp
    cases hm : ns.merge it with
    | some m =>
      rw [mergeLoop_cons_some hm] at hk ⊢
      exact ih m (merge_valid hns hit hm) hrest hp.2 k hk
    | none =>
      rw [mergeLoop_cons_none hm] at hk ⊢
      simp only [List.mem_cons] at hk
      rcases hk with rfl | hk
      · exact mergeLoop_disc rest ns k hns hit hrest
          (((merge_none_iff ns k hns hit).1 hm).symm) hp.1
      · exact ih ns hns hrest hp.2 k hk

theorem extentR_append (a b : List Range) : extentR (a ++ b) = max (extentR a) (extentR b) := by
  induction a with
  | nil => simp [extentR]
  | cons r rs ih => simp only [List.cons_append, extentR, ih]; omega

/-- the largest end after the loop -/
theorem mergeLoop_extent (rs : List Range) : ∀ (ns : Range), Range.Valid ns →
    (∀ r ∈ rs, Range.Valid r) →
    max (mergeLoop ns rs).1.stop (extentR (mergeLoop ns rs).2) = max ns.stop (extentR rs) := by
  induction rs with
  | nil => intro ns _ _; simp [mergeLoop]
  | cons it rest ih =>
    intro ns hns hrs
    have hit : Range.Valid it := hrs it (by simp)
    have hrest : ∀ r ∈ rest, Range.Valid r := fun r hr => hrs r (by simp [hr])
    cases hm : ns.merge it with
    | some m =>
      rw [mergeLoop_cons_some hm, ih m (merge_valid hns hit hm) hrest]
      have := merge_some hns hit hm
      simp only [extentR]; omega
    | none =>
      rw [mergeLoop_cons_none hm]
      have := ih ns hns hrest
      simp only [extentR] at this ⊢; omega

/-! ### the data buffer -/

theorem growTo_length (d : List Cell) (n : Nat) : (growTo d n).length = max d.length n := by
  unfold growTo; split
  · simp; omega
  · omega

theorem growTo_getElem? (d : List Cell) (n i : Nat) :
    (growTo d n)[i]? = if i < d.length then d[i]? else if i < n then some none else none := by
  unfold growTo
  split
  · rw [List.getElem?_append]
    split
    · rfl
    · rw [List.getElem?_replicate]; split <;> split <;> first | rfl | omega
  · split
    · rfl
    · rw [List.getElem?_eq_none (by omega)]; split <;> first | rfl | omega

theorem writeAt_length (d : List Cell) (off : Nat) (p : Bytes) (h : off + p.length ≤ d.length) :
    (writeAt d off p).length = d.length := by
  unfold writeAt; simp; omega

theorem writeAt_getElem? (d : List Cell) (off : Nat) (p : Bytes) (h : off + p.length ≤ d.length)
    (i : Nat) :
    (writeAt d off p)[i]? = if off ≤ i ∧ i < off + p.length then some p[i - off]? else d[i]? := by
  unfold writeAt
  rw [List.append_assoc, List.getElem?_append]
  simp only [List.length_take, List.getElem?_take]
  have hmin : min off d.length = off := by omega
  rw [hmin]
  by_cases h1 : i < off
  · simp [h1]; omega
  · simp only [h1, if_false]
    rw [List.getElem?_append]
    simp only [List.length_map, List.getElem?_map, List.getElem?_drop]
    by_cases h2 : i - off < p.length
    · have h3 : off ≤ i ∧ i < off + p.length := by omega
      simp only [h2, h3, if_true, and_self]
      rw [List.getElem?_eq_getElem h2]; rfl
    · have h3 : ¬ (off ≤ i ∧ i < off + p.length) := by omega
      simp only [h2, h3, if_false]
      congr 1; omega

/-! ### the abstract fact set -/

open Spec.Reasm in
theorem covered_cons (f : Frag) (fs : List Frag) (i : Nat) :
    covered (f :: fs) i ↔ (f.off ≤ i ∧ i < f.stop) ∨ covered fs i := by
  simp [covered]

open Spec.Reasm in
theorem covered_lt_extent (fs : List Frag) (i : Nat) (h : covered fs i) : i < extent fs := by
  induction fs with
  | nil => simp [covered] at h
  | cons f fs ih =>
    rw [covered_cons] at h
    simp only [extent]
    rcases h with h | h
    · omega
    · have := ih h; omega

open Spec.Reasm in
theorem byteAt_isSome_iff (fs : List Frag) (i : Nat) : (byteAt fs i).isSome ↔ covered fs i := by
  induction fs with
  | nil => simp [byteAt, covered]
  | cons f fs ih =>
    rw [covered_cons]
    simp only [byteAt]
    split
    · rename_i h
      have : i - f.off < f.bytes.length := by unfold Frag.stop at h; omega
      simp [List.getElem?_eq_getElem this, h]
    · rename_i h
      rw [ih]; simp [h]

open Spec.Reasm in
theorem byteAt_none_of_ge (fs : List Frag) (i : Nat) (h : extent fs ≤ i) : byteAt fs i = none := by
  cases hb : byteAt fs i with
  | none => rfl
  | some v =>
    have : covered fs i := (byteAt_isSome_iff fs i).1 (by simp [hb])
    have := covered_lt_extent fs i this
    omega

end EpModel.Lemmas.Defrag
