import EpModel.Lemmas.StructSlice
/- The lax pair of C04: LaxPacketHeaders (lphLoop / lphNet / lphAddIp / lphTransport) against the lax slicing
   cursor, all three doors. -/
set_option linter.unusedSimpArgs false
set_option linter.unusedVariables false
namespace EpModel.Lemmas.StructSlice
open EpModel EpModel.Dec EpModel.Lemmas.Dec

/-! ## the lax pair: LaxPacketHeaders against LaxSlicedPacket -/

/-- stop errors of the struct family against the slice family's: identical, except that the struct
    family keeps `Slice` where the cursor propagates an outer limiter (both admissible under C07) -/
def StopAgree (K : Nat) : Option (PErr × Layer) → Option (PErr × Layer) → Prop
  | none, none => True
  | some (.len a, la), some (.len b, lb) =>
    la = lb ∧ a.req = b.req ∧ a.len = b.len ∧ a.layer = b.layer ∧ a.off + K = b.off ∧ (a.src = b.src ∨ a.src = .slice)
  | some (a, la), some (b, lb) => a = b ∧ la = lb
  | _, _ => False

theorem StopAgree.refl_nonlen (K : Nat) (e : PErr) (ly : Layer) (h : ∀ le, e ≠ .len le) : StopAgree K (some (e, ly)) (some (e, ly)) := by
  cases e <;> simp_all [StopAgree]

/-- lax IP results (layer + optional stop error of the extension area) of the two families -/
def LaxIpVerdict (s f : IpR × Option (PErr × Layer)) : Prop :=
  (IpAgree s.1 f.1 ∧ s.2 = f.2) ∨ (EarlyIp s.1 ∧ s.2 = none)

theorem ipv6AfterLax_struct_slice (g : Mem) (o l : Nat) :
    LaxIpVerdict (ipv6AfterHeaderLax g true o l) (ipv6AfterHeaderLax g false o l) := by
  unfold ipv6AfterHeaderLax
  simp only
  have h := extsWalk_struct_slice g (g (o + 6)) (ipv6BoundLax o l (g16 g (o + 4))).1.o (ipv6BoundLax o l (g16 g (o + 4))).1.l
  generalize extsWalk g true (g (o + 6)) (ipv6BoundLax o l (g16 g (o + 4))).1.o (ipv6BoundLax o l (g16 g (o + 4))).1.l = rs at h
  generalize extsWalk g false (g (o + 6)) (ipv6BoundLax o l (g16 g (o + 4))).1.o (ipv6BoundLax o l (g16 g (o + 4))).1.l = rf at h
  rcases h with ⟨h1, h2, h3, h4⟩ | ⟨h1, h2⟩
  · left
    refine ⟨⟨rfl, rfl, rfl, ?_, ?_, ?_⟩, ?_⟩
    · simp [mkV6, h3]
    · simp [mkV6, extsFirst, h3]
    · simp [mkV6, h1, h2, h3]
    · simp only [h4]
  · right
    refine ⟨⟨rfl, ?_⟩, ?_⟩
    · simpa [mkV6] using h2
    · simp only [h1]

def LaxIpRes (s f : Except PErr (IpR × Option (PErr × Layer))) : Prop :=
  match s, f with
  | .ok a, .ok b => LaxIpVerdict a b
  | .error e, .error e' => e = e'
  | _, _ => False

theorem laxIpVerdict_refl (x : IpR × Option (PErr × Layer)) : LaxIpVerdict x x :=
  Or.inl ⟨⟨rfl, rfl, rfl, rfl, rfl, rfl⟩, rfl⟩

theorem laxIpHeaders_vs_laxIpSlice (g : Mem) (o l : Nat) :
    (g o / 16 = 4 ∧ l < 20 ∧
        ipHeadersFromSliceLax g o l =
          .error (.len { req := 20, len := l, src := .slice, layer := .ipv4Header, off := 0 }) ∧
        laxIpSliceFromSlice g o l = .error (if g o % 16 < 5 then .ipIhl (g o % 16) else
          .len { req := g o % 16 * 4, len := l, src := .slice, layer := .ipv4Header, off := 0 })) ∨
      LaxIpRes (ipHeadersFromSliceLax g o l) (laxIpSliceFromSlice g o l) := by
  by_cases h0 : l = 0
  · right
    unfold ipHeadersFromSliceLax laxIpSliceFromSlice ipDispatchHeader
    simp [h0, LaxIpRes]
  · by_cases h4 : g o / 16 = 4
    · by_cases h20 : l < 20
      · left
        refine ⟨h4, h20, ?_, ?_⟩
        · unfold ipHeadersFromSliceLax ipDispatchHeader
          simp [h0, h4, h20]
        · unfold laxIpSliceFromSlice ipDispatchHeader
          simp only [h0, h4, if_true, if_false, Bool.false_eq_true, false_and]
          by_cases hi : g o % 16 < 5
          · simp [hi]
          · have : l < g o % 16 * 4 := by omega
            simp [hi, this]
      · right
        unfold ipHeadersFromSliceLax laxIpSliceFromSlice ipDispatchHeader
        simp only [h0, h4, h20, if_true, if_false, true_and, Bool.false_eq_true, false_and]
        by_cases hi : g o % 16 < 5
        · simp [hi, LaxIpRes]
        · simp only [hi, if_false]
          by_cases hl : l < g o % 16 * 4
          · simp [hl, LaxIpRes]
          · simp only [hl, if_false, LaxIpRes]
            exact laxIpVerdict_refl _
    · right
      unfold ipHeadersFromSliceLax laxIpSliceFromSlice ipDispatchHeader
      simp only [h0, h4, if_false]
      by_cases h6 : g o / 16 = 6
      · simp only [h6, if_true]
        by_cases h40 : l < 40
        · simp [h40, LaxIpRes]
        · simp only [h40, if_false, LaxIpRes]
          exact ipv6AfterLax_struct_slice g o l
      · simp [h6, LaxIpRes]

/-! ### errors of the transport decoders name the slice -/

theorem icmp4_err_src (g : Mem) (o l : Nat) (e : LenError) (h : icmp4FromSlice g o l = .error e) : e.src = .slice := by
  unfold icmp4FromSlice at h
  repeat' split at h
  all_goals first | (cases h; rfl) | cases h

theorem udpLax_err_src (g : Mem) (o l : Nat) (e : LenError) (h : udpFromSliceLax g o l = .error e) : e.src = .slice := by
  unfold udpFromSliceLax at h
  split at h
  · cases h; rfl
  · simp only at h
    split at h <;> cases h

theorem tcp_err_src (g : Mem) (o l : Nat) (e : LenError) (h : tcpFromSlice g o l = .error (.len e)) : e.src = .slice := by
  unfold tcpFromSlice at h
  split at h
  · cases h; rfl
  · simp only at h
    split at h
    · cases h
    · split at h
      · cases h; rfl
      · cases h

theorem icmp6_err_src (o l : Nat) (e : LenError) (h : icmp6FromSlice o l = .error e) : e.src = .slice := by
  unfold icmp6FromSlice at h
  repeat' split at h
  all_goals first | (cases h; rfl) | cases h

theorem fix_eq (e : LenError) (k : Nat) (s : LenSource) (h : e.src = .slice) :
    (if e.src = LenSource.slice then PErr.len ((e.withSrc s).addOffset k) else PErr.len e) =
      PErr.len ((e.addOffset k).srcIfSlice s) := by
  simp [h, LenError.srcIfSlice, LenError.addOffset, LenError.withSrc]

theorem stop_fix_agree (e : LenError) (a K : Nat) (s : LenSource) (ly : Layer) (hs : e.src = .slice) :
    StopAgree K (some (.len ((e.addOffset a).srcIfSlice s), ly))
      (some (.len ((e.addOffset (a + K)).srcIfSlice s), ly)) := by
  simp [StopAgree, LenError.addOffset, LenError.srcIfSlice, LenError.withSrc, hs, Nat.add_assoc]

/-- payload of the lax struct result for a sliced lax packet -/
def PayAgreeLax (g : Mem) (pay : Pay) (p : Packet) : Prop :=
  match p.tp, p.net with
  | some (.udp w), some (.ip f) => pay = .udp ⟨w.o + 8, w.l - 8⟩ f.pl.inc
  | some (.tcp w hl), some (.ip f) => pay = .tcp ⟨w.o + hl, w.l - hl⟩ f.pl.inc
  | some (.icmp4 w), some (.ip f) =>
    pay = .icmp4 ⟨w.o + icmp4HeaderLen g w.o, w.l - icmp4HeaderLen g w.o⟩ f.pl.inc
  | some (.icmp6 w), some (.ip f) => pay = .icmp6 ⟨w.o + 8, w.l - 8⟩ f.pl.inc
  | none, some (.ip f) => pay = .ip f.pl
  | none, some (.arp _) => pay = .empty
  | _, _ => True

/-- the one place where the two lax families stop with differently worded (both true) errors: an IPv4
    nibble in fewer than 20 bytes - the struct door checks `len < 20` first, the slice door the IHL -/
def ShortV4Stops (g : Mem) (a b : Option (PErr × Layer)) : Prop :=
  ∃ (o : Nat) (la lb : LenError),
    g o / 16 = 4 ∧
    a = some (.len { req := 20, len := la.len, src := la.src, layer := .ipv4Header, off := la.off }, .ipHeader) ∧
    (b = some (.ipIhl (g o % 16), .ipHeader) ∨
      b = some (.len { req := g o % 16 * 4, len := lb.len, src := lb.src, layer := .ipv4Header, off := lb.off },
        .ipHeader)) ∧
    la.len < 20

/-- lax struct result `x` against lax slicing result `p` -/
structure LaxAgree (g : Mem) (K : Nat) (x : Headers) (p : Packet) (r cr : Packet) : Prop where
  linkS : x.p.link = r.link
  linkF : p.link = cr.link
  exts : x.p.exts = p.exts.map hdrExt
  net : NetAgree x.p.net p.net
  tp : x.p.tp = p.tp
  stop : StopAgree K x.p.stop p.stop ∨ ShortV4Stops g x.p.stop p.stop
  pay : PayAgreeLax g x.pay p

/-- the documented exception in the lax family: the struct ended, without a stop error, at an extension
    header that no longer fits -/
def EarlyLax (x : Headers) : Prop :=
  ∃ ip, x.p.net = some (.ip ip) ∧ EarlyIp ip ∧ x.p.tp = none ∧ x.p.stop = none ∧ x.pay = .ip ip.pl

/-- the transport step of the two lax families on the same IP payload -/
theorem laxTransport_agree (c : Cur) (g : Mem) (K : Nat) (ipS ipF : IpR) (r : Packet) (off' : Nat)
    (hag : IpAgree ipS ipF) (hoff : c.off = off' + K) (hnf : ipF.pl.frag = false) (hst : c.r.stop = none)
    (hcr : c.r.tp = none) (hnet : c.r.net = some (.ip ipF)) (hexts : r.exts = c.r.exts.map hdrExt)
    (hrn : r.net = some (.ip ipS)) (hrt : r.tp = none) (hrs : r.stop = none) :
    LaxAgree g K (lphTransport g ipS r off') (c.laxSliceTransport g ipF.pl) r c.r := by
  obtain ⟨h1, h2, h3, h4, h5, h6⟩ := hag
  have hnet' : NetAgree (some (.ip ipS)) (some (.ip ipF)) := ⟨h1, h2, h3, h4, h5, h6⟩
  unfold Cur.laxSliceTransport lphTransport
  simp only [hnf, hst, Option.isSome_none, Bool.false_eq_true, or_self, if_false]
  simp only [h6]
  by_cases n1 : ipF.pl.num = 1
  · simp only [n1, if_true]
    cases hx : icmp4FromSlice g ipF.pl.w.o ipF.pl.w.l with
    | error e =>
      have hs := icmp4_err_src g _ _ e hx
      simp only [hx]
      refine ⟨rfl, rfl, by simpa [Packet.setStop] using hexts, by simp [Packet.setStop, hrn, hnet, hnet'],
        by simp [Packet.setStop, hrt, hcr], ?_, by simp [PayAgreeLax, Packet.setStop, hcr, hnet]⟩
      left; simp only [Packet.setStop, h6, fix_eq e off' ipF.pl.src hs, hoff]; exact stop_fix_agree e off' K ipF.pl.src _ hs
    | ok w =>
      have hw := (icmp4_in g _ _ w hx).1
      simp only [hx]
      refine ⟨rfl, rfl, by simpa [Packet.setTp] using hexts, by simp [Packet.setTp, hrn, hnet, hnet'],
        by simp [Packet.setTp], by left; simp [Packet.setTp, hrs, hst, StopAgree], ?_⟩
      simp [PayAgreeLax, Packet.setTp, hnet, hw]
  · simp only [n1, if_false]
    by_cases n58 : ipF.pl.num = 58
    · simp only [n58, if_true, show ¬ ((58 : Nat) = 17) by omega, show ¬ ((58 : Nat) = 6) by omega, if_false]
      cases hx : icmp6FromSlice ipF.pl.w.o ipF.pl.w.l with
      | error e =>
        have hs := icmp6_err_src _ _ e hx
        simp only [hx]
        refine ⟨rfl, rfl, by simpa [Packet.setStop] using hexts, by simp [Packet.setStop, hrn, hnet, hnet'],
          by simp [Packet.setStop, hrt, hcr], ?_, by simp [PayAgreeLax, Packet.setStop, hcr, hnet]⟩
        left; simp only [Packet.setStop, h6, fix_eq e off' ipF.pl.src hs, hoff]; exact stop_fix_agree e off' K ipF.pl.src _ hs
      | ok w =>
        have hw := (icmp6_in _ _ w hx).1
        simp only [hx]
        refine ⟨rfl, rfl, by simpa [Packet.setTp] using hexts, by simp [Packet.setTp, hrn, hnet, hnet'],
          by simp [Packet.setTp], by left; simp [Packet.setTp, hrs, hst, StopAgree], ?_⟩
        simp [PayAgreeLax, Packet.setTp, hnet, hw]
    · simp only [n58, if_false]
      by_cases n17 : ipF.pl.num = 17
      · simp only [n17, if_true]
        cases hx : udpFromSliceLax g ipF.pl.w.o ipF.pl.w.l with
        | error e =>
          have hs := udpLax_err_src g _ _ e hx
          simp only [hx]
          refine ⟨rfl, rfl, by simpa [Packet.setStop] using hexts, by simp [Packet.setStop, hrn, hnet, hnet'],
            by simp [Packet.setStop, hrt, hcr], ?_, by simp [PayAgreeLax, Packet.setStop, hcr, hnet]⟩
          left; simp only [Packet.setStop, h6, fix_eq e off' ipF.pl.src hs, hoff]; exact stop_fix_agree e off' K ipF.pl.src _ hs
        | ok w =>
          simp only [hx]
          refine ⟨rfl, rfl, by simpa [Packet.setTp] using hexts, by simp [Packet.setTp, hrn, hnet, hnet'],
            by simp [Packet.setTp], by left; simp [Packet.setTp, hrs, hst, StopAgree], ?_⟩
          simp [PayAgreeLax, Packet.setTp, hnet]
      · simp only [n17, if_false]
        by_cases n6 : ipF.pl.num = 6
        · simp only [n6, if_true]
          cases hx : tcpFromSlice g ipF.pl.w.o ipF.pl.w.l with
          | error e =>
            cases e with
            | len le =>
              have hs := tcp_err_src g _ _ le hx
              refine ⟨rfl, rfl, by simpa [Packet.setStop] using hexts, by simp [Packet.setStop, hrn, hnet, hnet'],
                by simp [Packet.setStop, hrt, hcr], ?_, by simp [PayAgreeLax, Packet.setStop, hcr, hnet]⟩
              left; simp only [Packet.setStop, h6, fix_eq le off' ipF.pl.src hs, hoff]; exact stop_fix_agree le off' K ipF.pl.src _ hs
            | _ =>
              refine ⟨rfl, rfl, by simpa [Packet.setStop] using hexts, by simp [Packet.setStop, hrn, hnet, hnet'],
                by simp [Packet.setStop, hrt, hcr], by left; simp [Packet.setStop, StopAgree],
                by simp [PayAgreeLax, Packet.setStop, hcr, hnet]⟩
          | ok hl =>
            simp only [hx]
            refine ⟨rfl, rfl, by simpa [Packet.setTp] using hexts, by simp [Packet.setTp, hrn, hnet, hnet'],
              by simp [Packet.setTp], by left; simp [Packet.setTp, hrs, hst, StopAgree], ?_⟩
            simp [PayAgreeLax, Packet.setTp, hnet]
        · simp only [n6, if_false]
          exact ⟨rfl, rfl, hexts, by simp [hrn, hnet, hnet'], by simp [hrt, hcr], by left; simp [hrs, hst, StopAgree],
            by simp [PayAgreeLax, hcr, hnet]⟩

/-! ### the IP branch -/

theorem ipv4AfterLax_stop_src (g : Mem) (o l hl : Nat) (e : LenError) (ly : Layer)
    (h : (ipv4AfterHeaderLax g o l hl).2 = some (.len e, ly)) : e.src = (ipv4AfterHeaderLax g o l hl).1.pl.src := by
  unfold ipv4AfterHeaderLax at h ⊢
  simp only at h ⊢
  by_cases h51 : g (o + 9) = 51
  · simp only [h51, if_true] at h ⊢
    cases hae : ahFromSlice g (ipv4BoundLax o l hl (g16 g (o + 2))).1.o (ipv4BoundLax o l hl (g16 g (o + 2))).1.l with
    | ok al => rw [hae] at h; simp at h
    | error ae =>
      rw [hae] at h
      dsimp only at h ⊢
      cases ae with
      | len le =>
        simp only [Option.some.injEq, Prod.mk.injEq, PErr.len.injEq] at h
        rw [← h.1]
        simp [mkV4, LenError.addOffset, LenError.withSrc]
      | zero => simp at h
  · simp [h51] at h

theorem ipv6AfterLax_stop_src (g : Mem) (sm : Bool) (o l : Nat) (e : LenError) (ly : Layer)
    (h : (ipv6AfterHeaderLax g sm o l).2 = some (.len e, ly)) : e.src = (ipv6AfterHeaderLax g sm o l).1.pl.src := by
  unfold ipv6AfterHeaderLax at h ⊢
  simp only at h ⊢
  generalize extsWalk g sm (g (o + 6)) (ipv6BoundLax o l (g16 g (o + 4))).1.o (ipv6BoundLax o l (g16 g (o + 4))).1.l = r at h ⊢
  cases hst : r.stop with
  | none => rw [hst] at h; simp at h
  | some x =>
    obtain ⟨e', ly'⟩ := x
    rw [hst] at h
    cases e' with
    | len le =>
      simp only [Option.some.injEq, Prod.mk.injEq, PErr.len.injEq] at h
      rw [← h.1]
      simp [mkV6, LenError.addOffset, LenError.withSrc]
    | _ => simp [extErrToPErr] at h

theorem laxIpSlice_stop_src (g : Mem) (o l : Nat) (ip : IpR) (e : LenError) (ly : Layer)
    (h : laxIpSliceFromSlice g o l = .ok (ip, some (.len e, ly))) : e.src = ip.pl.src := by
  unfold laxIpSliceFromSlice at h
  cases hd : ipDispatchHeader g false o l with
  | error e' => rw [hd] at h; simp at h
  | ok x =>
    rw [hd] at h
    cases x with
    | inl hl =>
      simp only [Except.ok.injEq] at h
      have := ipv4AfterLax_stop_src g o l hl e ly (by rw [h])
      rw [h] at this; exact this
    | inr u =>
      simp only [Except.ok.injEq] at h
      have := ipv6AfterLax_stop_src g false o l e ly (by rw [h])
      rw [h] at this; exact this

/-- the IP branch of `lphNet` -/
def lphIpBranch (g : Mem) (off o l : Nat) (r : Packet) (pay : Pay) : Headers :=
  match lphAddIp g off o l r with
  | .ok h => h
  | .error (.len e) => { p := r.setStop (.len (e.addOffset off)) .ipHeader, pay := pay }
  | .error e => { p := r.setStop e .ipHeader, pay := pay }

theorem lphNet_ip (g : Mem) (off et o l : Nat) (r : Packet) (pay : Pay) (h : et = 0x0800 ∨ et = 0x86dd) :
    lphNet g off et o l r pay = lphIpBranch g off o l r pay := by
  unfold lphNet lphIpBranch
  simp only [h, if_true]
  cases lphAddIp g off o l r with
  | ok x => rfl
  | error e => cases e <;> rfl

theorem lax_ip_agree (c : Cur) (g : Mem) (K off o l : Nat) (r : Packet) (pay : Pay)
    (hoff : c.off = off + K) (hexts : r.exts = c.r.exts.map hdrExt)
    (hr : r.net = none ∧ r.tp = none ∧ r.stop = none) (hc : c.r.net = none ∧ c.r.tp = none ∧ c.r.stop = none) :
    LaxAgree g K (lphIpBranch g off o l r pay) (c.laxSliceIp g o l) r c.r ∨
      EarlyLax (lphIpBranch g off o l r pay) := by
  unfold lphIpBranch lphAddIp Cur.laxSliceIp
  rcases laxIpHeaders_vs_laxIpSlice g o l with ⟨h4, h20, hs, hf⟩ | hres
  · -- IPv4 nibble in fewer than 20 bytes: both stop at the IP header, with differently worded errors
    left
    rw [hs, hf]
    by_cases hi : g o % 16 < 5
    · simp only [hi, if_true]
      refine ⟨rfl, rfl, by simpa [Packet.setStop] using hexts, by simp [Packet.setStop, hr.1, hc.1, NetAgree],
        by simp [Packet.setStop, hr.2.1, hc.2.1], ?_, by simp [PayAgreeLax, Packet.setStop, hc.1, hc.2.1]⟩
      right
      exact ⟨o, { req := 20, len := l, src := .slice, layer := .ipv4Header, off := 0 + off },
        { req := 0, len := 0, src := .slice, layer := .ipv4Header, off := 0 }, h4,
        by simp [Packet.setStop, LenError.addOffset], Or.inl (by simp [Packet.setStop]), h20⟩
    · simp only [hi, if_false]
      refine ⟨rfl, rfl, by simpa [Packet.setStop] using hexts, by simp [Packet.setStop, hr.1, hc.1, NetAgree],
        by simp [Packet.setStop, hr.2.1, hc.2.1], ?_, by simp [PayAgreeLax, Packet.setStop, hc.1, hc.2.1]⟩
      right
      exact ⟨o, { req := 20, len := l, src := .slice, layer := .ipv4Header, off := 0 + off },
        { req := 0, len := l, src := if (LenSource.slice = LenSource.slice) then c.src else .slice,
          layer := .ipv4Header, off := 0 + c.off }, h4,
        by simp [Packet.setStop, LenError.addOffset],
        Or.inr (by simp [Packet.setStop, LenError.addOffset, LenError.srcIfSlice, LenError.withSrc]), h20⟩
  · cases hS : ipHeadersFromSliceLax g o l with
    | error e =>
      cases hF : laxIpSliceFromSlice g o l with
      | ok y => rw [hS, hF] at hres; simp [LaxIpRes] at hres
      | error e' =>
        rw [hS, hF] at hres
        simp only [LaxIpRes] at hres
        subst hres
        left
        cases e with
        | len le =>
          refine ⟨rfl, rfl, by simpa [Packet.setStop] using hexts, by simp [Packet.setStop, hr.1, hc.1, NetAgree],
            by simp [Packet.setStop, hr.2.1, hc.2.1], ?_, by simp [PayAgreeLax, Packet.setStop, hc.1, hc.2.1]⟩
          left
          simp only [Packet.setStop, StopAgree, LenError.addOffset, LenError.srcIfSlice, LenError.withSrc, hoff, true_and]
          by_cases hsl : le.src = .slice
          · simp [hsl, Nat.add_assoc]
          · simp [hsl, Nat.add_assoc]
        | _ =>
          refine ⟨rfl, rfl, by simpa [Packet.setStop] using hexts, by simp [Packet.setStop, hr.1, hc.1, NetAgree],
            by simp [Packet.setStop, hr.2.1, hc.2.1], by left; simp [Packet.setStop, StopAgree],
            by simp [PayAgreeLax, Packet.setStop, hc.1, hc.2.1]⟩
    | ok sx =>
      cases hF : laxIpSliceFromSlice g o l with
      | error e' => rw [hS, hF] at hres; simp [LaxIpRes] at hres
      | ok fx =>
        rw [hS, hF] at hres
        simp only [LaxIpRes] at hres
        obtain ⟨ipS, stS⟩ := sx
        obtain ⟨ipF, stF⟩ := fx
        dsimp only
        rcases hres with ⟨hag, hst⟩ | ⟨hE, hst⟩
        · simp only at hag hst
          subst hst
          have hpl : ipS.pl = ipF.pl := hag.2.2.2.2.2
          have hnet' : NetAgree (some (.ip ipS)) (some (.ip ipF)) := hag
          cases stS with
          | some st =>
            obtain ⟨e, ly⟩ := st
            left
            cases e with
            | len le =>
              have hsrc := laxIpSlice_stop_src g o l ipF le ly hF
              dsimp only
              unfold Cur.laxSliceTransport
              simp only [Packet.setStop, Option.isSome_some, or_true, if_true]
              refine ⟨rfl, rfl, by simpa [Packet.setNet] using hexts, by simpa [Packet.setNet] using hnet',
                by simp [Packet.setNet, hr.2.1, hc.2.1], ?_, by simp [PayAgreeLax, Packet.setNet, hc.2.1, hpl]⟩
              left
              simp only [StopAgree, LenError.addOffset, LenError.srcIfSlice, LenError.withSrc, hoff, true_and, hpl]
              by_cases hsl : le.src = .slice
              · simp [hsl, ← hsrc, Nat.add_assoc]
              · have hsl' : ¬ ipF.pl.src = .slice := by rw [← hsrc]; exact hsl
                simp [hsl, hsrc, hsl', Nat.add_assoc]
            | _ =>
              dsimp only
              unfold Cur.laxSliceTransport
              simp only [Packet.setStop, Option.isSome_some, or_true, if_true]
              exact ⟨rfl, rfl, by simpa [Packet.setNet] using hexts, by simpa [Packet.setNet] using hnet',
                by simp [Packet.setNet, hr.2.1, hc.2.1], by left; simp [StopAgree],
                by simp [PayAgreeLax, Packet.setNet, hc.2.1, hpl]⟩
          | none =>
            dsimp only
            by_cases hfr : ipS.pl.frag = true
            · left
              have hfr' : ipF.pl.frag = true := by rw [← hpl]; exact hfr
              unfold Cur.laxSliceTransport
              simp only [hfr, hfr', if_true, true_or]
              exact ⟨rfl, rfl, by simpa [Packet.setNet] using hexts, by simpa [Packet.setNet] using hnet',
                by simp [Packet.setNet, hr.2.1, hc.2.1], by left; simp [Packet.setNet, hr.2.2, hc.2.2, StopAgree],
                by simp [PayAgreeLax, Packet.setNet, hc.2.1, hpl]⟩
            · left
              simp only [hfr, if_false, Bool.false_eq_true]
              have hfr' : ipF.pl.frag = false := by rw [← hpl]; simpa using hfr
              have key := laxTransport_agree
                { off := c.off + (ipF.pl.w.o - o), src := if ipF.pl.src ≠ .slice then ipF.pl.src else c.src,
                  r := c.r.setNet (.ip ipF) } g K ipS ipF (r.setNet (.ip ipS)) (off + (ipS.pl.w.o - o)) hag
                (by simp only [hoff, hpl]; omega) hfr' (by simp [Packet.setNet, hc.2.2]) (by simp [Packet.setNet, hc.2.1])
                (by simp [Packet.setNet]) (by simpa [Packet.setNet] using hexts) (by simp [Packet.setNet])
                (by simp [Packet.setNet, hr.2.1]) (by simp [Packet.setNet, hr.2.2])
              simp only at key
              have key' := key
              exact ⟨key'.linkS.trans (by simp [Packet.setNet]), key'.linkF.trans (by simp [Packet.setNet]), key'.exts,
                key'.net, key'.tp, key'.stop, key'.pay⟩
        · simp only at hE hst
          subst hst
          right
          dsimp only
          have hnum := hE.2
          by_cases hfr : ipS.pl.frag = true
          · simp only [hfr, if_true]
            exact ⟨ipS, by simp [Packet.setNet], hE, by simp [Packet.setNet, hr.2.1], by simp [Packet.setNet, hr.2.2], rfl⟩
          · have h1 : ¬ ipS.pl.num = 1 := by omega
            have h2 : ¬ ipS.pl.num = 58 := by omega
            have h3 : ¬ ipS.pl.num = 17 := by omega
            have h4 : ¬ ipS.pl.num = 6 := by omega
            have hT : ∀ r1 k, lphTransport g ipS r1 k = { p := r1, pay := .ip ipS.pl } := by
              intro r1 k; unfold lphTransport; simp [h1, h2, h3, h4]
            simp only [hfr, if_false, Bool.false_eq_true, hT]
            exact ⟨ipS, by simp [Packet.setNet], hE, by simp [Packet.setNet, hr.2.1], by simp [Packet.setNet, hr.2.2], rfl⟩

/-! ### the lax loops -/

theorem LaxAgree.relink {g : Mem} {K : Nat} {x : Headers} {p r r' cr cr' : Packet}
    (hv : LaxAgree g K x p r' cr') (h1 : r'.link = r.link) (h2 : cr'.link = cr.link) : LaxAgree g K x p r cr :=
  ⟨hv.linkS.trans h1, hv.linkF.trans h2, hv.exts, hv.net, hv.tp, hv.stop, hv.pay⟩

theorem stop_src_agree (K off : Nat) (e : LenError) (s : LenSource) (ly : Layer) (coff : Nat) (hoff : coff = off + K) :
    StopAgree K (some (.len (e.addOffset off), ly)) (some (.len ((e.addOffset coff).srcIfSlice s), ly)) := by
  subst hoff
  by_cases hsl : e.src = .slice <;>
    simp [StopAgree, LenError.addOffset, LenError.srcIfSlice, LenError.withSrc, hsl, Nat.add_assoc]

theorem lphNet_agree (c : Cur) (g : Mem) (K off et o l : Nat) (r : Packet) (pay : Pay)
    (hoff : c.off = off + K) (hexts : r.exts = c.r.exts.map hdrExt)
    (hr : r.net = none ∧ r.tp = none ∧ r.stop = none) (hc : c.r.net = none ∧ c.r.tp = none ∧ c.r.stop = none) :
    LaxAgree g K (lphNet g off et o l r pay)
        (if et = 0x0806 then c.laxSliceArp g o l else if et = 0x0800 ∨ et = 0x86dd then c.laxSliceIp g o l else c.r)
        r c.r ∨
      EarlyLax (lphNet g off et o l r pay) := by
  by_cases hip : et = 0x0800 ∨ et = 0x86dd
  · have hna : ¬ et = 0x0806 := by omega
    rw [lphNet_ip g off et o l r pay hip]
    simp only [hna, hip, if_false, if_true]
    exact lax_ip_agree c g K off o l r pay hoff hexts hr hc
  · left
    unfold lphNet
    simp only [hip, if_false]
    by_cases ha : et = 0x0806
    · simp only [ha, if_true]
      unfold Cur.laxSliceArp
      cases arpFromSlice g o l with
      | error e =>
        exact ⟨rfl, rfl, by simpa [Packet.setStop] using hexts, by simp [Packet.setStop, hr.1, hc.1, NetAgree],
          by simp [Packet.setStop, hr.2.1, hc.2.1], Or.inl (stop_src_agree K off e c.src .arp c.off hoff),
          by simp [PayAgreeLax, Packet.setStop, hc.1, hc.2.1]⟩
      | ok w =>
        exact ⟨rfl, rfl, by simpa [Packet.setNet] using hexts, by simp [Packet.setNet, NetAgree],
          by simp [Packet.setNet, hr.2.1, hc.2.1], by left; simp [Packet.setNet, hr.2.2, hc.2.2, StopAgree],
          by simp [PayAgreeLax, Packet.setNet, hc.2.1]⟩
    · simp only [ha, if_false]
      exact ⟨rfl, rfl, hexts, by simp [hr.1, hc.1, NetAgree], by simp [hr.2.1, hc.2.1],
        by left; simp [hr.2.2, hc.2.2, StopAgree], by simp [PayAgreeLax, hc.1, hc.2.1]⟩

theorem laxMacsec_err_layer (g : Mem) (o l : Nat) (e : LenError) (h : laxMacsecFromSlice g o l = .error (.len e)) :
    e.layer = .macsecHeader := by
  unfold laxMacsecFromSlice at h
  cases hh : macsecHeaderFromSlice g o l with
  | error e' =>
    rw [hh] at h
    simp only [Except.error.injEq] at h
    subst h
    unfold macsecHeaderFromSlice at hh
    split at hh
    · cases hh; rfl
    · simp only at hh
      split at hh
      · cases hh
      · split at hh
        · cases hh
        · split at hh
          · cases hh; rfl
          · cases hh
  | ok hl =>
    rw [hh] at h
    simp only at h
    split at h
    · split at h <;> cases h
    · cases h

theorem laxMacsec_shape (g : Mem) (o l : Nat) (hdr pl : Win) (src : LenSource) (inc : Bool)
    (h : laxMacsecFromSlice g o l = .ok (.macsec hdr pl src inc)) : pl.o = o + hdr.l := by
  unfold laxMacsecFromSlice at h
  split at h
  · cases h
  · split at h
    · simp only at h
      split at h <;> (cases h; rfl)
    · cases h; rfl

/-- the loop of `LaxPacketHeaders::from_ether_type` against the loop of the lax slicing cursor -/
theorem lax_loop_agree (c : Cur) (g : Mem) (K n et o l off : Nat) (src : LenSource) (r : Packet) (pay : Pay)
    (hoff : c.off = off + K) (hexts : r.exts = c.r.exts.map hdrExt)
    (hr : r.net = none ∧ r.tp = none ∧ r.stop = none) (hc : c.r.net = none ∧ c.r.tp = none ∧ c.r.stop = none) :
    LaxAgree g K (lphLoop g n off et o l src r pay) (c.laxSliceEtherType g n et o l) r c.r ∨
      EarlyLax (lphLoop g n off et o l src r pay) := by
  fun_induction Cur.laxSliceEtherType c g n et o l generalizing r pay src off
  case case1 c et o l het =>
    rw [lphLoop]
    simp only [het, if_true]
    have h1 : ¬ et = 0x0800 := by omega
    have h2 : ¬ et = 0x86dd := by omega
    have h3 : ¬ et = 0x0806 := by omega
    have := lphNet_agree c g K off et o l r pay hoff hexts hr hc
    simpa [h1, h2, h3] using this
  case case2 c et o l het n e hv =>
    rw [lphLoop]
    simp only [het, if_true, hv]
    left
    refine ⟨rfl, rfl, by simpa [Packet.setStop] using hexts, by simp [Packet.setStop, hr.1, hc.1, NetAgree],
      by simp [Packet.setStop, hr.2.1, hc.2.1], ?_, by simp [PayAgreeLax, Packet.setStop, hc.1, hc.2.1]⟩
    left
    simp [Packet.setStop, StopAgree, LenError.addOffset, hoff, Nat.add_assoc]
  case case3 c et o l het n w hv ih =>
    rw [lphLoop]
    simp only [het, if_true, hv]
    have hw := vlan_in o l w hv
    rcases ih (src := src) (off := off + 4) (r := r.pushExt (.vlan ⟨w.o, 4⟩)) (pay := _)
      (by simp only [hoff]; omega) (by simp [Packet.pushExt, hexts, hdrExt]) (by simpa [Packet.pushExt] using hr)
      (by simpa [Packet.pushExt] using hc) with h | h
    · left; exact h.relink rfl rfl
    · right; exact h
  case case4 c o l hnv =>
    rw [lphLoop]
    simp only [hnv, if_false, if_true]
    have := lphNet_agree c g K off 0x88e5 o l r pay hoff hexts hr hc
    simpa using this
  case case5 c o l n e he hnv =>
    rw [lphLoop]
    simp only [hnv, if_false, if_true, he]
    have hly := laxMacsec_err_layer g o l e he
    left
    refine ⟨rfl, rfl, by simpa [Packet.setStop] using hexts, by simp [Packet.setStop, hr.1, hc.1, NetAgree],
      by simp [Packet.setStop, hr.2.1, hc.2.1], ?_, by simp [PayAgreeLax, Packet.setStop, hc.1, hc.2.1]⟩
    left
    simp [Packet.setStop, StopAgree, LenError.addOffset, hoff, Nat.add_assoc, hly]
  case case6 c o l n e hnl he hnv =>
    rw [lphLoop]
    simp only [hnv, if_false, if_true, he]
    left
    cases e with
    | len le => exact absurd rfl (fun h => hnl le h)
    | _ =>
      exact ⟨rfl, rfl, by simpa [Packet.setStop] using hexts, by simp [Packet.setStop, hr.1, hc.1, NetAgree],
        by simp [Packet.setStop, hr.2.1, hc.2.1], by left; simp [Packet.setStop, StopAgree],
        by simp [PayAgreeLax, Packet.setStop, hc.1, hc.2.1]⟩
  case case7 c o l n hdr pl msrc inc hm r' et' hnx hnv ih =>
    rw [lphLoop]
    simp only [hnv, if_false, if_true, hm, hnx]
    have hsh := laxMacsec_shape g o l hdr pl msrc inc hm
    rcases ih (src := _) (off := off + hdr.l) (r := r.pushExt (.macsec hdr pl msrc inc)) (pay := _)
      (by simp only [hoff]; omega) (by simp [r', Packet.pushExt, hexts, hdrExt]) (by simpa [Packet.pushExt] using hr)
      (by simpa [r', Packet.pushExt] using hc) with h | h
    · left; exact h.relink rfl rfl
    · right; exact h
  case case8 c o l n hdr pl msrc inc hm r' hnx hnv =>
    rw [lphLoop]
    simp only [hnv, if_false, if_true, hm, hnx]
    left
    exact ⟨rfl, rfl, by simp [r', Packet.pushExt, hexts, hdrExt], by simp [r', Packet.pushExt, hr.1, hc.1, NetAgree],
      by simp [r', Packet.pushExt, hr.2.1, hc.2.1], by left; simp [r', Packet.pushExt, hr.2.2, hc.2.2, StopAgree],
      by simp [PayAgreeLax, r', Packet.pushExt, hc.1, hc.2.1]⟩
  case case9 c o l n x hno hx hnv =>
    rw [lphLoop]
    simp only [hnv, if_false, if_true, hx]
    left
    cases x with
    | macsec a b c d => exact (hno _ _ _ _ rfl).elim
    | _ =>
      exact ⟨rfl, rfl, hexts, by simp [hr.1, hc.1, NetAgree], by simp [hr.2.1, hc.2.1],
        by left; simp [hr.2.2, hc.2.2, StopAgree], by simp [PayAgreeLax, hc.1, hc.2.1]⟩
  case case10 n c o l h1 h2 =>
    unfold lphLoop
    simp only [h1, h2, if_false]
    have := lphNet_agree c g K off 0x0806 o l r pay hoff hexts hr hc
    simpa using this
  case case11 n c et o l h1 h2 h3 h4 =>
    unfold lphLoop
    simp only [h1, h2, if_false]
    have := lphNet_agree c g K off et o l r pay hoff hexts hr hc
    simpa [h3, h4] using this
  case case12 n c et o l h1 h2 h3 h4 =>
    unfold lphLoop
    simp only [h1, h2, if_false]
    have := lphNet_agree c g K off et o l r pay hoff hexts hr hc
    simpa [h3, h4] using this

/-! ### the three lax doors -/

/-- LaxPacketHeaders::from_ether_type against LaxSlicedPacket::from_ether_type -/
theorem lax_from_ether_type_agree (g : Mem) (et n : Nat) :
    LaxAgree g 0 (lphFromEtherType g et 0 n) (laxSlicedFromEtherType g et n) Packet.empty
        (Packet.empty.setLink (.etherPayload et ⟨0, n⟩)) ∨
      EarlyLax (lphFromEtherType g et 0 n) := by
  unfold lphFromEtherType laxSlicedFromEtherType
  exact lax_loop_agree _ g 0 3 et 0 n 0 .slice Packet.empty _ (by simp) (by simp [Packet.empty, Packet.setLink])
    (by simp [Packet.empty]) (by simp [Packet.empty, Packet.setLink])

theorem stopAddOff_agree (K : Nat) (p q : Packet) (h : StopAgree K p.stop q.stop) :
    StopAgree 0 (stopAddOff K p).stop q.stop := by
  unfold stopAddOff
  cases hp : p.stop with
  | none =>
    rw [hp] at h
    simp only [hp]
    cases hq : q.stop with
    | none => simp [StopAgree]
    | some y => rw [hq] at h; simp [StopAgree] at h
  | some x =>
    obtain ⟨e, ly⟩ := x
    rw [hp] at h
    cases e with
    | len le =>
      simp only
      cases hq : q.stop with
      | none => rw [hq] at h; simp [StopAgree] at h
      | some y =>
        obtain ⟨e', ly'⟩ := y
        rw [hq] at h
        cases e' <;> simp_all [StopAgree, LenError.addOffset]
    | _ => simp only [hp]; cases hq : q.stop <;> simp_all [StopAgree]

theorem stopAddOff_short (g : Mem) (K : Nat) (p q : Packet) (h : ShortV4Stops g p.stop q.stop) :
    ShortV4Stops g (stopAddOff K p).stop q.stop := by
  obtain ⟨o, la, lb, h4, ha, hb, hlt⟩ := h
  unfold stopAddOff
  rw [ha]
  exact ⟨o, { req := 0, len := la.len, src := la.src, layer := .ipv4Header, off := la.off + K }, lb, h4,
    by simp [LenError.addOffset], hb, hlt⟩

theorem stopAddOff_fields (K : Nat) (p : Packet) :
    (stopAddOff K p).link = p.link ∧ (stopAddOff K p).exts = p.exts ∧ (stopAddOff K p).net = p.net ∧
      (stopAddOff K p).tp = p.tp ∧ ((stopAddOff K p).stop = none ↔ p.stop = none) := by
  unfold stopAddOff
  cases hp : p.stop with
  | none => simp [hp]
  | some x => obtain ⟨e, ly⟩ := x; cases e <;> simp [hp]

/-- LaxPacketHeaders::from_ethernet against LaxSlicedPacket::from_ethernet -/
theorem lax_from_ethernet_agree (g : Mem) (n : Nat) :
    match laxSlicedFromEthernet g n, lphFromEthernet g n with
    | .ok p, .ok x =>
      (x.p.link = some (.eth2 ⟨0, 14⟩) ∧ p.link = some (.eth2 ⟨0, n⟩) ∧ x.p.exts = p.exts.map hdrExt ∧
        NetAgree x.p.net p.net ∧ x.p.tp = p.tp ∧ (StopAgree 0 x.p.stop p.stop ∨ ShortV4Stops g x.p.stop p.stop) ∧
        PayAgreeLax g x.pay p) ∨ EarlyLax x
    | .error e, .error e' => e = e'
    | _, _ => False := by
  unfold laxSlicedFromEthernet lphFromEthernet
  cases hh : eth2FromSlice 0 n with
  | error e => simp
  | ok w =>
    have hw : w = ⟨0, n⟩ := by
      unfold eth2FromSlice at hh
      split at hh
      · cases hh
      · cases hh; rfl
    subst hw
    simp only
    unfold lphFromEtherType
    have key := lax_loop_agree { off := 14, src := .slice, r := Packet.empty.setLink (.eth2 ⟨0, n⟩) } g 14 3
      (g16 g 12) 14 (n - 14) 0 .slice Packet.empty (.ether (g16 g 12) .slice ⟨14, n - 14⟩ false) (by simp)
      (by simp [Packet.empty, Packet.setLink]) (by simp [Packet.empty]) (by simp [Packet.empty, Packet.setLink])
    revert key
    generalize Cur.laxSliceEtherType { off := 14, src := .slice, r := Packet.empty.setLink (.eth2 ⟨0, n⟩) } g 3
      (g16 g 12) 14 (n - 14) = sres
    generalize lphLoop g 3 0 (g16 g 12) 14 (n - 14) .slice Packet.empty
      (.ether (g16 g 12) .slice ⟨14, n - 14⟩ false) = hres
    intro key
    have hf := stopAddOff_fields 14 hres.p
    rcases key with key | key
    · left
      refine ⟨by simp [Packet.setLink], by simpa [Packet.setLink] using key.linkF,
        by simpa [Packet.setLink, hf.2.1] using key.exts, by simpa [Packet.setLink, hf.2.2.1] using key.net,
        by simpa [Packet.setLink, hf.2.2.2.1] using key.tp, ?_, key.pay⟩
      rcases key.stop with hs | hs
      · left; simpa [Packet.setLink] using stopAddOff_agree 14 hres.p sres hs
      · right; simpa [Packet.setLink] using stopAddOff_short g 14 hres.p sres hs
    · right
      obtain ⟨ip, h1, h2, h3, h4, h5⟩ := key
      exact ⟨ip, by simpa [Packet.setLink, hf.2.2.1] using h1, h2, by simpa [Packet.setLink, hf.2.2.2.1] using h3,
        by simpa [Packet.setLink] using hf.2.2.2.2.mpr h4, h5⟩

theorem laxSliceTransport_src (off : Nat) (a b : LenSource) (r : Packet) (g : Mem) (pl : IpPl) :
    ({ off := off, src := a, r := r } : Cur).laxSliceTransport g pl =
      ({ off := off, src := b, r := r } : Cur).laxSliceTransport g pl := by
  unfold Cur.laxSliceTransport; rfl

theorem srcIfSlice_slice (e : LenError) : (e.addOffset 0).srcIfSlice .slice = e := by
  unfold LenError.srcIfSlice LenError.addOffset LenError.withSrc
  cases e
  simp only [Nat.add_zero]
  split
  · simp_all
  · rfl

theorem laxSlicedFromIp_ok (g : Mem) (n : Nat) (y : IpR × Option (PErr × Layer))
    (h : laxIpSliceFromSlice g 0 n = .ok y) : laxSlicedFromIp g n = .ok (Cur.new.laxSliceIp g 0 n) := by
  unfold laxSlicedFromIp Cur.laxSliceIp
  rw [h]
  obtain ⟨ip, stop⟩ := y
  simp only [Cur.new, Except.ok.injEq, Nat.zero_add, Nat.sub_zero]
  cases stop with
  | none => exact laxSliceTransport_src _ _ _ _ g ip.pl
  | some st =>
    obtain ⟨e, ly⟩ := st
    cases e with
    | len le => simp only [srcIfSlice_slice]; exact laxSliceTransport_src _ _ _ _ g ip.pl
    | _ => exact laxSliceTransport_src _ _ _ _ g ip.pl

/-- LaxPacketHeaders::from_ip against LaxSlicedPacket::from_ip -/
theorem lax_from_ip_agree (g : Mem) (n : Nat) :
    match laxSlicedFromIp g n, lphFromIp g n with
    | .ok p, .ok x => LaxAgree g 0 x p Packet.empty Packet.empty ∨ EarlyLax x
    | .error e, .error e' => e = e' ∨ (g 0 / 16 = 4 ∧ n < 20)
    | _, _ => False := by
  rcases laxIpHeaders_vs_laxIpSlice g 0 n with ⟨h4, h20, hs, hf⟩ | hres
  · have e1 : lphFromIp g n =
        .error (.len { req := 20, len := n, src := .slice, layer := .ipv4Header, off := 0 }) := by
      unfold lphFromIp lphAddIp; rw [hs]
    have e2 : laxSlicedFromIp g n = .error (if g 0 % 16 < 5 then PErr.ipIhl (g 0 % 16) else
        PErr.len { req := g 0 % 16 * 4, len := n, src := .slice, layer := .ipv4Header, off := 0 }) := by
      unfold laxSlicedFromIp; rw [hf]
    rw [e1, e2]
    exact Or.inr ⟨h4, h20⟩
  · cases hS : ipHeadersFromSliceLax g 0 n with
    | error e =>
      cases hF : laxIpSliceFromSlice g 0 n with
      | ok y => rw [hS, hF] at hres; simp [LaxIpRes] at hres
      | error e' =>
        rw [hS, hF] at hres
        simp only [LaxIpRes] at hres
        have e1 : lphFromIp g n = .error e := by unfold lphFromIp lphAddIp; rw [hS]
        have e2 : laxSlicedFromIp g n = .error e' := by unfold laxSlicedFromIp; rw [hF]
        rw [e1, e2]
        exact Or.inl hres.symm
    | ok sx =>
      cases hF : laxIpSliceFromSlice g 0 n with
      | error e' => rw [hS, hF] at hres; simp [LaxIpRes] at hres
      | ok fx =>
        rw [laxSlicedFromIp_ok g n fx hF]
        have key := lax_ip_agree Cur.new g 0 0 0 n Packet.empty .empty (by simp [Cur.new])
          (by simp [Cur.new, Packet.empty]) (by simp [Packet.empty]) (by simp [Cur.new, Packet.empty])
        have hb : ∃ h, lphAddIp g 0 0 n Packet.empty = .ok h := by
          unfold lphAddIp
          rw [hS]
          obtain ⟨ip, stop⟩ := sx
          cases stop with
          | none => dsimp only; split <;> exact ⟨_, rfl⟩
          | some st => obtain ⟨e, ly⟩ := st; cases e <;> exact ⟨_, rfl⟩
        obtain ⟨h, hh⟩ := hb
        have hbr : lphIpBranch g 0 0 n Packet.empty .empty = h := by unfold lphIpBranch; rw [hh]
        rw [hbr] at key
        unfold lphFromIp
        rw [hh]
        exact key

end EpModel.Lemmas.StructSlice
