import EpModel.Lemmas.DecRefineLax
/-
  Lax refinement (C05), part 2: the IP layer — IPv4 with its authentication header, IPv6 with its
  extension chain, the version dispatch of `LaxIpSlice::from_slice`, and `Cur.laxSliceIp`.
-/
namespace EpModel.Lemmas.RefineLax
set_option linter.unusedSimpArgs false
open EpModel EpModel.Dec EpModel.Spec EpModel.Lemmas.Refine

/-- how a stop error of an IP layer (relative to the IP slice at `o`) describes a fault -/
def IpStopRel (e : PErr) (f : Fault) (o : Nat) (lim : LenSource) : Prop :=
  match e with
  | .len le => LenRel le f o lim
  | e => ContentMatch e f

theorem inherit_self (a b : LenSource) : b = .slice ∨ b = inherit a b := by
  unfold inherit; by_cases h : b = .slice <;> simp [h]

/-- what the IP step lemmas say about the result of a lax IP decoder `(ip, stop)` -/
def IpStepL (g : Mem) (p : Packet) (ctx : Ctx) (o : Nat) (t : Tag) (r : IpR × Option (PErr × Layer)) : Prop :=
  ∃ t' c' fo,
    Spec.step true g p t ctx = ⟨p.setNet (.ip r.1), t', c', fo⟩ ∧ o ≤ r.1.pl.w.o ∧
    match r.2, fo with
    | none, none =>
      t' = (if r.1.pl.frag then .done else .tp r.1.pl.num) ∧
      c' = { off := r.1.pl.w.o, stop := r.1.pl.w.o + r.1.pl.w.l, lim := inherit ctx.lim r.1.pl.src, nExt := ctx.nExt }
    | some (e, ly), some f => StopLayer ly f.unit ∧ IpStopRel e f o ctx.lim
    | _, _ => False

/-- the part of the IPv4 step behind the boundary -/
theorem ipv4_tailL (g : Mem) (hg : ByteMem g) (p : Packet) (ctx : Ctx) (o l : Nat) (hc : ctx.off = o)
    (hs : ctx.stop = o + l) (h20 : 20 ≤ l) (hv : g o / 16 = 4) (hi : 5 ≤ g o % 16) (hl : g o % 16 * 4 ≤ l)
    (S : Nat) (src : LenSource) (inc : Bool) (hS : o + g o % 16 * 4 ≤ S)
    (hsrc : src = .slice ∨ src = .ipv4HeaderTotalLen)
    (hb : Spec.bound true ctx .ipv4Packet .ipv4HeaderTotalLen (g o % 16 * 4) (g16 g (o + 2)) = .ok (S, src, inc))
    (hm : ipv4BoundLax o l (g o % 16 * 4) (g16 g (o + 2)) = (⟨o + g o % 16 * 4, S - (o + g o % 16 * 4)⟩, src, inc)) :
    IpStepL g p ctx o .ipv4 (ipv4AfterHeaderLax g o l (g o % 16 * 4)) := by
  have hav : ctx.avail = l := by unfold Ctx.avail; omega
  have h20' : ¬ l < 20 := by omega
  have hi' : ¬ g o % 16 < 5 := by omega
  have hl' : ¬ l < g o % 16 * 4 := by omega
  unfold IpStepL ipv4AfterHeaderLax
  simp only [Spec.step, hav, hc, h20', hv, hi', hl', ne_eq, not_true_eq_false, if_false, hb, hm]
  rw [frag4_eq g hg o]
  generalize hhl : g o % 16 * 4 = H at *
  simp only [Ctx.avail]
  by_cases h51 : g (o + 9) = 51
  · simp only [h51, if_true]
    unfold ahFromSlice
    simp only
    by_cases h12 : S - (o + H) < 12
    · simp only [h12, if_true]
      refine ⟨_, _, _, rfl, by simp [mkV4], ?_⟩
      refine ⟨by simp [mkFault, StopLayer], ?_⟩
      simp only [IpStopRel]
      refine ⟨by simp [mkFault], by simp [mkFault, LayerUnit, LenError.addOffset, LenError.withSrc],
        by simp [mkFault, LenError.addOffset, LenError.withSrc]; omega,
        by simp [mkFault, LenError.addOffset, LenError.withSrc, Ctx.avail],
        by simp [mkFault, LenError.addOffset, LenError.withSrc], ?_⟩
      rcases hsrc with h | h <;> subst h <;> simp [mkFault, LenError.addOffset, LenError.withSrc, inherit]
    · simp only [h12, if_false]
      by_cases hz : g (o + H + 1) < 1
      · have hz' : g (o + H + 1) = 0 := by omega
        simp only [hz, hz', if_true]
        refine ⟨_, _, _, rfl, by simp [mkV4], ?_⟩
        exact ⟨by simp [mkFault, StopLayer], by simp [IpStopRel, ContentMatch, mkFault]⟩
      · have hz' : ¬ g (o + H + 1) = 0 := by omega
        simp only [hz, hz', if_false]
        by_cases hal : S - (o + H) < (g (o + H + 1) + 2) * 4
        · simp only [hal, if_true]
          refine ⟨_, _, _, rfl, by simp [mkV4], ?_⟩
          refine ⟨by simp [mkFault, StopLayer], ?_⟩
          simp only [IpStopRel]
          refine ⟨by simp [mkFault], by simp [mkFault, LayerUnit, LenError.addOffset, LenError.withSrc],
            by simp [mkFault, LenError.addOffset, LenError.withSrc]; omega,
            by simp [mkFault, LenError.addOffset, LenError.withSrc, Ctx.avail],
            by simp [mkFault, LenError.addOffset, LenError.withSrc], ?_⟩
          rcases hsrc with h | h <;> subst h <;> simp [mkFault, LenError.addOffset, LenError.withSrc, inherit]
        · simp only [hal, if_false]
          generalize (g (o + H + 1) + 2) * 4 = al at *
          have e2 : S - (o + H + al) = S - (o + H) - al := by omega
          refine ⟨_, _, _, by simp only [mkV4, noExts, setNet_eq, e2]; rfl, by simp [mkV4]; omega, ?_⟩
          simp only [mkV4]
          exact ⟨rfl, by simp; omega⟩
  · simp only [h51, if_false]
    refine ⟨_, _, _, rfl, by simp [mkV4], ?_⟩
    simp only [mkV4]
    exact ⟨rfl, by simp; omega⟩
/-- the IPv4 step of the lax walk against `ipv4AfterHeaderLax` (header checks passed) -/
theorem ipv4_stepL (g : Mem) (hg : ByteMem g) (p : Packet) (ctx : Ctx) (o l : Nat) (hc : ctx.off = o)
    (hs : ctx.stop = o + l) (h20 : 20 ≤ l) (hv : g o / 16 = 4) (hi : 5 ≤ g o % 16) (hl : g o % 16 * 4 ≤ l) :
    IpStepL g p ctx o .ipv4 (ipv4AfterHeaderLax g o l (g o % 16 * 4)) := by
  have hav : ctx.avail = l := by unfold Ctx.avail; omega
  by_cases htl : g16 g (o + 2) < g o % 16 * 4
  · refine ipv4_tailL g hg p ctx o l hc hs h20 hv hi hl (o + l) .slice false (by omega) (Or.inl rfl) ?_ ?_
    · simp [Spec.bound, htl, hs]
    · have e : o + l - (o + g o % 16 * 4) = l - g o % 16 * 4 := by omega
      simp [ipv4BoundLax, htl, e]
  · by_cases hlt : l < g16 g (o + 2)
    · refine ipv4_tailL g hg p ctx o l hc hs h20 hv hi hl (o + l) .slice true (by omega) (Or.inl rfl) ?_ ?_
      · simp [Spec.bound, htl, hs, hav, hlt]
      · have e : o + l - (o + g o % 16 * 4) = l - g o % 16 * 4 := by omega
        simp [ipv4BoundLax, htl, hlt, e]
    · refine ipv4_tailL g hg p ctx o l hc hs h20 hv hi hl (o + g16 g (o + 2)) .ipv4HeaderTotalLen false (by omega)
        (Or.inr rfl) ?_ ?_
      · simp [Spec.bound, htl, hc, hav, hlt]
      · have e : o + g16 g (o + 2) - (o + g o % 16 * 4) = g16 g (o + 2) - g o % 16 * 4 := by omega
        simp [ipv4BoundLax, htl, hlt, e]

/-- the layer recorded by the slice-mode loop names the unit at which the spec chain faults -/
theorem chain_loop_layer (g : Mem) (hg : ByteMem g) (lim : LenSource) (l0 nh : Nat) (frag : Bool) (slots : ExtSlots) (o l : Nat) :
    match (extsLoop g false l0 nh frag slots o l).stop, (Spec.chain g lim false nh frag o (o + l)).2 with
    | some (_, ly), some f => StopLayer ly f.unit
    | _, _ => True := by
  fun_induction extsLoop g false l0 nh frag slots o l
  case case1 frag slots o l =>
    rw [Spec.chain]
    simp [extsFail, mkFault, StopLayer]
  case case2 h => simp at h
  case case3 nh frag slots o l h0 hor _ h8 =>
    rw [Spec.chain]
    rcases hor with h60 | h43
    · subst h60
      simp [extsFail, mkFault, StopLayer, rawLayer, h8]
    · subst h43
      simp [extsFail, mkFault, StopLayer, rawLayer, h8]
  case case4 nh frag slots o l h0 hor _ h8 hl =>
    rw [Spec.chain]
    rcases hor with h60 | h43
    · subst h60
      simp [extsFail, mkFault, StopLayer, rawLayer, h8, hl]
    · subst h43
      simp [extsFail, mkFault, StopLayer, rawLayer, h8, hl]
  case case5 nh frag slots o l h0 hor _ h8 hl ih =>
    rw [Spec.chain]
    have e : o + l = o + (g (o + 1) + 1) * 8 + (l - (g (o + 1) + 1) * 8) := by omega
    rw [← e] at ih
    rcases hor with h60 | h43
    · subst h60
      simp only [show ¬ ((60 : Nat) = 0) by omega, if_false, if_true, Nat.add_sub_cancel_left, h8, hl, dite_false]
      exact ih
    · subst h43
      simp only [show ¬ ((43 : Nat) = 0) by omega, show ¬ ((43 : Nat) = 60) by omega, if_false, if_true,
        Nat.add_sub_cancel_left, h8, hl, dite_false]
      exact ih
  case case6 h _ _ => simp at h
  case case7 frag slots o l _ h8 _ _ =>
    rw [Spec.chain]
    simp [extsFail, mkFault, StopLayer, h8]
  case case8 frag slots o l _ h8 _ _ ih =>
    rw [Spec.chain]
    have e : o + l = o + 8 + (l - 8) := by omega
    rw [← e] at ih
    simp only [show ¬ ((44 : Nat) = 0) by omega, show ¬ ((44 : Nat) = 60) by omega, show ¬ ((44 : Nat) = 43) by omega,
      if_false, if_true, Nat.add_sub_cancel_left, h8, dite_false, frag6_eq g hg o]
    exact ih
  case case9 h _ _ _ => simp at h
  case case10 frag slots o l _ h12 _ _ _ =>
    rw [Spec.chain]
    simp [extsFail, mkFault, StopLayer, h12]
  case case11 frag slots o l _ h12 hz _ _ _ =>
    rw [Spec.chain]
    have hz' : g (o + 1) = 0 := by omega
    simp [extsFail, mkFault, StopLayer, h12, hz']
  case case12 frag slots o l _ h12 hz hl _ _ _ =>
    rw [Spec.chain]
    have hz' : ¬ g (o + 1) = 0 := by omega
    simp [extsFail, mkFault, StopLayer, h12, hz', hl]
  case case13 frag slots o l _ h12 hz hl _ _ _ ih =>
    rw [Spec.chain]
    have hz' : ¬ g (o + 1) = 0 := by omega
    have e : o + l = o + (g (o + 1) + 2) * 4 + (l - (g (o + 1) + 2) * 4) := by omega
    rw [← e] at ih
    simp only [show ¬ ((51 : Nat) = 0) by omega, show ¬ ((51 : Nat) = 60) by omega, show ¬ ((51 : Nat) = 43) by omega,
      show ¬ ((51 : Nat) = 44) by omega, if_false, if_true, Nat.add_sub_cancel_left, h12, dite_false, hz', hl]
    exact ih
  case case14 nh frag slots o l h0 h1 h2 h3 =>
    simp [extsDone]

/-- the IPv6 step of the spec behind the boundary, in projection form -/
theorem step_ipv6_eq (lax : Bool) (g : Mem) (p : Packet) (c : Ctx) (h40 : ¬ c.avail < 40) (hv : g c.off / 16 = 6)
    (S : Nat) (lim' : LenSource) (inc : Bool)
    (hr : (if g16 g (c.off + 4) = 0 ∧ c.avail > 40 then Except.ok (c.stop, LenSource.slice, false)
           else bound lax c .ipv6Packet .ipv6HeaderPayloadLen 40 (40 + g16 g (c.off + 4))) = .ok (S, lim', inc)) :
    Spec.step lax g p .ipv6 c =
      ⟨setNet p (.ip
          { v4 := false, hdr := ⟨c.off, 40⟩, auth := none,
            exts := ⟨c.off + 40, (chain g (inherit c.lim lim') true (g (c.off + 6)) false (c.off + 40) S).1.off - (c.off + 40)⟩,
            first := if (chain g (inherit c.lim lim') true (g (c.off + 6)) false (c.off + 40) S).1.off = c.off + 40 then none
                     else some (g (c.off + 6)),
            slots := ExtSlots.none,
            pl := { num := (chain g (inherit c.lim lim') true (g (c.off + 6)) false (c.off + 40) S).1.next,
                    frag := (chain g (inherit c.lim lim') true (g (c.off + 6)) false (c.off + 40) S).1.frag,
                    src := lim',
                    w := ⟨(chain g (inherit c.lim lim') true (g (c.off + 6)) false (c.off + 40) S).1.off,
                          S - (chain g (inherit c.lim lim') true (g (c.off + 6)) false (c.off + 40) S).1.off⟩,
                    inc := inc } }),
        (match (chain g (inherit c.lim lim') true (g (c.off + 6)) false (c.off + 40) S).2 with
          | some _ => .done
          | none => if (chain g (inherit c.lim lim') true (g (c.off + 6)) false (c.off + 40) S).1.frag then .done
                    else .tp (chain g (inherit c.lim lim') true (g (c.off + 6)) false (c.off + 40) S).1.next),
        { off := (chain g (inherit c.lim lim') true (g (c.off + 6)) false (c.off + 40) S).1.off, stop := S,
          lim := inherit c.lim lim', nExt := c.nExt },
        (chain g (inherit c.lim lim') true (g (c.off + 6)) false (c.off + 40) S).2⟩ := by
  simp only [Spec.step, h40, hv, ne_eq, not_true_eq_false, if_false, hr]
  generalize chain g (inherit c.lim lim') true (g (c.off + 6)) false (c.off + 40) S = chf
  obtain ⟨ch, f⟩ := chf
  cases f <;> rfl

theorem chain_walk_layer (g : Mem) (hg : ByteMem g) (lim : LenSource) (nh o l : Nat) :
    match (extsWalk g false nh o l).stop, (Spec.chain g lim true nh false o (o + l)).2 with
    | some (_, ly), some f => StopLayer ly f.unit
    | _, _ => True := by
  unfold extsWalk
  by_cases h0 : nh = 0
  · subst h0
    simp only [if_true]
    rw [Spec.chain]
    unfold rawExtFromSlice
    simp only [if_true, Nat.add_sub_cancel_left]
    by_cases h8 : l < 8
    · simp [h8, mkFault, StopLayer]
    · simp only [h8, if_false, dite_false]
      by_cases hl : l < (g (o + 1) + 1) * 8
      · simp [hl, mkFault, StopLayer]
      · simp only [hl, if_false, dite_false]
        have e : o + l = o + (g (o + 1) + 1) * 8 + (l - (g (o + 1) + 1) * 8) := by omega
        have := chain_loop_layer g hg lim l (g o) false
          { hbh := some ⟨o, (g (o + 1) + 1) * 8⟩, dest := none, routing := none, finalDest := none, frag := none,
            auth := none } (o + (g (o + 1) + 1) * 8) (l - (g (o + 1) + 1) * 8)
        rw [← e] at this
        exact this
  · simp only [h0, if_false]
    rw [chain_first_irrelevant g lim nh false o (o + l) h0]
    exact chain_loop_layer g hg lim l nh false ExtSlots.none o l

/-- the stop error `ipv6AfterHeaderLax` makes of a stop of the extension walk -/
def v6Stop (src : LenSource) : Option (ExtErr × Layer) → Option (PErr × Layer)
  | none => none
  | some (.len e, ly) => some (.len ((e.withSrc src).addOffset 40), ly)
  | some (e, ly) => some (extErrToPErr e, ly)

theorem ipv6AfterHeaderLax_eq (g : Mem) (o l : Nat) (hp : Win) (src : LenSource) (inc : Bool)
    (hm : ipv6BoundLax o l (g16 g (o + 4)) = (hp, src, inc)) :
    ipv6AfterHeaderLax g false o l =
      (mkV6 false o (g (o + 6)) hp (extsWalk g false (g (o + 6)) hp.o hp.l) src inc,
        v6Stop src (extsWalk g false (g (o + 6)) hp.o hp.l).stop) := by
  unfold ipv6AfterHeaderLax
  simp only [hm]
  generalize (extsWalk g false (g (o + 6)) hp.o hp.l).stop = st
  cases st with
  | none => rfl
  | some x =>
    obtain ⟨e, ly⟩ := x
    cases e <;> rfl

/-- the part of the IPv6 step behind the boundary: the chain and the resulting layer -/
theorem ipv6_tailL (g : Mem) (hg : ByteMem g) (p : Packet) (ctx : Ctx) (l : Nat)
    (hs : ctx.stop = ctx.off + l) (h40 : 40 ≤ l) (hv : g ctx.off / 16 = 6)
    (L : Nat) (src : LenSource) (inc : Bool) (hsrc : src = .slice ∨ src = .ipv6HeaderPayloadLen)
    (hr : (if g16 g (ctx.off + 4) = 0 ∧ ctx.avail > 40 then Except.ok (ctx.stop, LenSource.slice, false)
           else bound true ctx .ipv6Packet .ipv6HeaderPayloadLen 40 (40 + g16 g (ctx.off + 4))) =
             .ok (ctx.off + 40 + L, src, inc))
    (hm : ipv6BoundLax ctx.off l (g16 g (ctx.off + 4)) = (⟨ctx.off + 40, L⟩, src, inc)) :
    IpStepL g p ctx ctx.off .ipv6 (ipv6AfterHeaderLax g false ctx.off l) := by
  have hav : ctx.avail = l := by unfold Ctx.avail; omega
  unfold IpStepL
  rw [step_ipv6_eq true g p ctx (by omega) hv _ src inc hr, ipv6AfterHeaderLax_eq g ctx.off l _ src inc hm]
  simp only
  have hw := chain_walk g hg (inherit ctx.lim src) (g (ctx.off + 6)) (ctx.off + 40) L
  have hly := chain_walk_layer g hg (inherit ctx.lim src) (g (ctx.off + 6)) (ctx.off + 40) L
  have hsuf := EpModel.Lemmas.Dec.extsWalk_suffix g false (g (ctx.off + 6)) (ctx.off + 40) L
  generalize extsWalk g false (g (ctx.off + 6)) (ctx.off + 40) L = r at *
  generalize Spec.chain g (inherit ctx.lim src) true (g (ctx.off + 6)) false (ctx.off + 40) (ctx.off + 40 + L) = chf at *
  obtain ⟨ch, fo⟩ := chf
  obtain ⟨h1, h2⟩ := hw
  simp only at h1 h2 hly ⊢
  subst h1
  simp only
  have e1 : r.rest.o - (ctx.off + 40) = L - r.rest.l := by omega
  have e2 : ctx.off + 40 + L - r.rest.o = r.rest.l := by omega
  have hp : setNet p (.ip
      { v4 := false, hdr := ⟨ctx.off, 40⟩, auth := none, exts := ⟨ctx.off + 40, r.rest.o - (ctx.off + 40)⟩,
        first := if r.rest.o = ctx.off + 40 then none else some (g (ctx.off + 6)), slots := ExtSlots.none,
        pl := { num := r.next, frag := r.frag, src := src, w := ⟨r.rest.o, ctx.off + 40 + L - r.rest.o⟩, inc := inc } }) =
      p.setNet (.ip (mkV6 false ctx.off (g (ctx.off + 6)) ⟨ctx.off + 40, L⟩ r src inc)) := by
    simp only [setNet_eq, mkV6, extsFirst]
    rw [e1, e2]
    have hrw : (⟨r.rest.o, r.rest.l⟩ : Win) = r.rest := rfl
    rw [hrw]
    by_cases hx : r.rest.l = L
    · have : r.rest.o = ctx.off + 40 := by omega
      simp [hx, this]
    · have : ¬ r.rest.o = ctx.off + 40 := by omega
      simp [hx, this]
  rw [hp]
  refine ⟨_, _, _, rfl, by simp [mkV6]; omega, ?_⟩
  cases hst : r.stop with
  | none =>
    rw [hst] at h2
    cases fo with
    | some f => exact absurd h2 (by simp)
    | none =>
      simp only [v6Stop, mkV6]
      exact ⟨rfl, by simp; omega⟩
  | some x =>
    obtain ⟨e, ly⟩ := x
    rw [hst] at h2 hly
    cases fo with
    | none => exact absurd h2 (by simp)
    | some f =>
      simp only at h2 hly
      cases e with
      | len le =>
        simp only [v6Stop, IpStopRel]
        refine ⟨hly, ?_⟩
        simp only [ExtRel] at h2
        obtain ⟨hrel, hsl⟩ := h2
        obtain ⟨c1, c2, c3, c4, c5, c6⟩ := hrel
        have hlim : f.lim = inherit ctx.lim src := by
          rcases c6 with ⟨_, hl⟩ | ⟨hne, _⟩
          · exact hl
          · exact absurd hsl hne
        refine ⟨c1, by simpa [LenError.addOffset, LenError.withSrc] using c2,
          by simp [LenError.addOffset, LenError.withSrc]; omega,
          by simpa [LenError.addOffset, LenError.withSrc] using c4,
          by simpa [LenError.addOffset, LenError.withSrc] using c5, ?_⟩
        simp only [LenError.addOffset, LenError.withSrc]
        rcases hsrc with hs' | hs'
        · left
          subst hs'
          simp [hlim, inherit]
        · right
          subst hs'
          simp [hlim, inherit]
      | hopByHop =>
        simp only [ExtRel] at h2
        exact ⟨hly, by simp [v6Stop, IpStopRel, extErrToPErr, ContentMatch, h2.1, h2.2]⟩
      | authZero =>
        simp only [ExtRel] at h2
        exact ⟨hly, by simp [v6Stop, IpStopRel, extErrToPErr, ContentMatch, h2.1, h2.2]⟩
/-- the IPv6 step of the lax walk against `ipv6AfterHeaderLax` (header checks passed) -/
theorem ipv6_stepL (g : Mem) (hg : ByteMem g) (p : Packet) (ctx : Ctx) (o l : Nat) (hc : ctx.off = o)
    (hs : ctx.stop = o + l) (h40 : 40 ≤ l) (hv : g o / 16 = 6) :
    IpStepL g p ctx o .ipv6 (ipv6AfterHeaderLax g false o l) := by
  subst hc
  have hav : ctx.avail = l := by unfold Ctx.avail; omega
  by_cases hz : g16 g (ctx.off + 4) = 0 ∧ l > 40
  · refine ipv6_tailL g hg p ctx l hs h40 hv (l - 40) .slice false (Or.inl rfl) ?_ ?_
    · have e : ctx.off + 40 + (l - 40) = ctx.off + l := by omega
      simp [hav, hz, hs, e]
    · simp [ipv6BoundLax, hz]
  · by_cases hlt : l < 40 + g16 g (ctx.off + 4)
    · refine ipv6_tailL g hg p ctx l hs h40 hv (l - 40) .slice true (Or.inl rfl) ?_ ?_
      · have e : ctx.off + 40 + (l - 40) = ctx.off + l := by omega
        simp only [hav, hz, if_false, Spec.bound, hlt, if_true, hs, e]
        simp
      · simp only [ipv6BoundLax, hz, if_false, hlt, if_true]
    · refine ipv6_tailL g hg p ctx l hs h40 hv (g16 g (ctx.off + 4)) .ipv6HeaderPayloadLen false (Or.inr rfl) ?_ ?_
      · have e : ctx.off + 40 + g16 g (ctx.off + 4) = ctx.off + (40 + g16 g (ctx.off + 4)) := by omega
        simp only [hav, hz, if_false, Spec.bound, hlt, e]
        simp
      · simp only [ipv6BoundLax, hz, if_false, hlt]

/-- what `Cur.laxSliceIp` does with a decoded IP layer and its optional stop error -/
def laxIpCont (c : Cur) (g : Mem) (o : Nat) (r : IpR × Option (PErr × Layer)) : Packet :=
  match r.2 with
  | none =>
    Cur.laxSliceTransport
      { off := c.off + (r.1.pl.w.o - o), src := if r.1.pl.src ≠ .slice then r.1.pl.src else c.src,
        r := c.r.setNet (.ip r.1) } g r.1.pl
  | some (.len e, ly) => (c.r.setNet (.ip r.1)).setStop (.len ((e.addOffset c.off).srcIfSlice c.src)) ly
  | some (e, ly) => (c.r.setNet (.ip r.1)).setStop e ly

theorem laxSliceTransport_stopped (c : Cur) (g : Mem) (pl : IpPl) (h : c.r.stop.isSome = true) :
    c.laxSliceTransport g pl = c.r := by
  unfold Cur.laxSliceTransport
  simp [h]

theorem laxSliceIp_ok (c : Cur) (g : Mem) (o l : Nat) (r : IpR × Option (PErr × Layer))
    (h : laxIpSliceFromSlice g o l = .ok r) : c.laxSliceIp g o l = laxIpCont c g o r := by
  unfold Cur.laxSliceIp laxIpCont
  rw [h]
  obtain ⟨ip, stop⟩ := r
  cases stop with
  | none => rfl
  | some x =>
    obtain ⟨e, ly⟩ := x
    cases e <;> exact laxSliceTransport_stopped _ g ip.pl rfl

theorem laxSliceIp_errLen (c : Cur) (g : Mem) (o l : Nat) (e : LenError)
    (h : laxIpSliceFromSlice g o l = .error (.len e)) :
    c.laxSliceIp g o l = c.r.setStop (.len ((e.addOffset c.off).srcIfSlice c.src)) .ipHeader := by
  unfold Cur.laxSliceIp
  rw [h]

theorem laxSliceIp_err (c : Cur) (g : Mem) (o l : Nat) (e : PErr)
    (h : laxIpSliceFromSlice g o l = .error e) (hne : ∀ le, e ≠ .len le) :
    c.laxSliceIp g o l = c.r.setStop e .ipHeader := by
  unfold Cur.laxSliceIp
  rw [h]
  cases e <;> first | rfl | exact absurd rfl (hne _)

theorem contentMatch_err {e : PErr} {f : Fault} (h : ContentMatch e f) : ErrMatch e f := by
  cases e <;> first | exact h | exact h.2.elim

/-- the cursor behind a decoded IP layer, against the walk that continues behind the IP step -/
theorem afterIpL (c : Cur) (g : Mem) (o l : Nat) (ctx : Ctx) (k : Nat) (t : Tag) (r : IpR × Option (PErr × Layer))
    (ht : Tied c ctx o l) (hst : c.r.stop = none) (htd : t ≠ .done) (hstep : IpStepL g c.r ctx o t r) :
    RelLax (laxIpCont c g o r) (walkN true g (k + 2) c.r t ctx) := by
  obtain ⟨t', c', fo, hs1, hge, hm⟩ := hstep
  obtain ⟨ip, stop⟩ := r
  unfold laxIpCont
  simp only at hs1 hge hm ⊢
  cases stop with
  | none =>
    cases fo with
    | some f => exact absurd hm (by simp)
    | none =>
      simp only at hm ⊢
      obtain ⟨rfl, rfl⟩ := hm
      rw [walkN_next true g (k + 1) _ _ _ _ _ _ htd hs1]
      refine tp_refinesL _ g ip.pl _ k (by simp [hst]) ?_ rfl rfl (inherit_self _ _)
      have := ht.off
      simp only; omega
  | some x =>
    obtain ⟨e, ly⟩ := x
    cases fo with
    | none => exact absurd hm (by simp)
    | some f =>
      simp only at hm
      obtain ⟨hly, hrel⟩ := hm
      rw [walkN_fault true g (k + 1) _ _ _ _ _ _ f htd hs1]
      cases e with
      | len le =>
        exact relLax_stop (by simp [hst]) ⟨hly, lenRel_fix le f c ctx o l ht hrel⟩
      | _ => exact relLax_stop (by simp [hst]) ⟨hly, contentMatch_err hrel⟩

theorem laxIpSlice_v4 (g : Mem) (o l : Nat) (h4 : g o / 16 = 4) (h0 : 0 < l) :
    laxIpSliceFromSlice g o l =
      if g o % 16 < 5 then .error (.ipIhl (g o % 16))
      else if l < g o % 16 * 4 then
        .error (.len { req := g o % 16 * 4, len := l, src := .slice, layer := .ipv4Header, off := 0 })
      else .ok (ipv4AfterHeaderLax g o l (g o % 16 * 4)) := by
  unfold laxIpSliceFromSlice ipDispatchHeader
  have h0' : ¬ l = 0 := by omega
  simp only [h0', h4, if_true, if_false, Bool.false_eq_true, false_and]
  by_cases hi : g o % 16 < 5
  · simp [hi]
  · simp only [hi, if_false]
    by_cases hl : l < g o % 16 * 4 <;> simp [hl]

theorem laxIpSlice_v6 (g : Mem) (o l : Nat) (h6 : g o / 16 = 6) (h0 : 0 < l) :
    laxIpSliceFromSlice g o l =
      if l < 40 then .error (.len { req := 40, len := l, src := .slice, layer := .ipv6Header, off := 0 })
      else .ok (ipv6AfterHeaderLax g false o l) := by
  unfold laxIpSliceFromSlice ipDispatchHeader
  have h0' : ¬ l = 0 := by omega
  simp only [h0', h6, if_false, show ¬ (6 = 4) by omega, if_true]
  by_cases h40 : l < 40 <;> simp [h40]

theorem laxIpSlice_other (g : Mem) (o l : Nat) (h4 : g o / 16 ≠ 4) (h6 : g o / 16 ≠ 6) (h0 : 0 < l) :
    laxIpSliceFromSlice g o l = .error (.ipVersion (g o / 16)) := by
  unfold laxIpSliceFromSlice ipDispatchHeader
  have h0' : ¬ l = 0 := by omega
  simp [h0', h4, h6]

theorem laxIpSlice_empty (g : Mem) (o : Nat) :
    laxIpSliceFromSlice g o 0 = .error (.len { req := 1, len := 0, src := .slice, layer := .ipHeader, off := 0 }) := by
  unfold laxIpSliceFromSlice ipDispatchHeader
  simp

/-- what the lax cursor records for an IPv4 version nibble in 1..19 bytes (the wrinkle; the strict
    twin is `ShortV4`): the bad IHL, or a length error that requires `ihl*4` bytes -/
def ShortV4L (g : Mem) (o l : Nat) (c : Cur) (e : PErr) : Prop :=
  (g o % 16 < 5 ∧ e = .ipIhl (g o % 16)) ∨
  (5 ≤ g o % 16 ∧
    e = .len { req := g o % 16 * 4, len := l, src := c.src, layer := .ipv4Header, off := c.off })

/-- the wrinkle: an IPv4 version nibble in 1..19 bytes -/
theorem ip_refinesL_short (c : Cur) (g : Mem) (o l : Nat) (ctx : Ctx) (k : Nat) (ht : Tied c ctx o l)
    (hw : g o / 16 = 4 ∧ 0 < l ∧ l < 20) :
    (∃ e, c.laxSliceIp g o l = c.r.setStop e .ipHeader ∧ ShortV4L g o l c e) ∧
      walkN true g (k + 3) c.r .ipAny ctx = (c.r, some (mkFault ctx .cutShort .ipv4Header 20)) := by
  have hav : ctx.avail = l := by unfold Ctx.avail; have := ht.coff; have := ht.stop; omega
  have hco := ht.coff
  obtain ⟨h4, h0, h20⟩ := hw
  have hl1 : ¬ ctx.avail < 1 := by omega
  have hstep : Spec.step true g c.r .ipAny ctx = ⟨c.r, .ipv4, ctx, none⟩ := by
    simp [Spec.step, hl1, hco, h4]
  have hstep2 : Spec.step true g c.r .ipv4 ctx =
      ⟨c.r, .done, ctx, some (mkFault ctx .cutShort .ipv4Header 20)⟩ := by
    simp [Spec.step, hav, h20]
  rw [walkN_next true g (k + 2) _ _ _ _ _ _ (by simp) hstep,
    walkN_fault true g (k + 1) _ _ _ _ _ _ _ (by simp) hstep2]
  refine ⟨?_, rfl⟩
  have hm := laxIpSlice_v4 g o l h4 h0
  by_cases hi : g o % 16 < 5
  · simp only [hi, if_true] at hm
    exact ⟨_, laxSliceIp_err c g o l _ hm (by simp), Or.inl ⟨hi, rfl⟩⟩
  · have hl : l < g o % 16 * 4 := by omega
    simp only [hi, hl, if_true, if_false] at hm
    refine ⟨_, laxSliceIp_errLen c g o l _ hm, Or.inr ⟨by omega, ?_⟩⟩
    simp [LenError.addOffset, LenError.srcIfSlice, LenError.withSrc]

/-- `Cur.laxSliceIp` against the lax walk from the version dispatch, outside the wrinkle -/
theorem ip_refinesL_main (c : Cur) (g : Mem) (hg : ByteMem g) (o l : Nat) (ctx : Ctx) (k : Nat) (ht : Tied c ctx o l)
    (hst : c.r.stop = none) (hnw : ¬ (g o / 16 = 4 ∧ 0 < l ∧ l < 20)) :
    RelLax (c.laxSliceIp g o l) (walkN true g (k + 3) c.r .ipAny ctx) := by
  have hav : ctx.avail = l := by unfold Ctx.avail; have := ht.coff; have := ht.stop; omega
  have hco := ht.coff
  by_cases h0 : l = 0
  · subst h0
    have hstep : Spec.step true g c.r .ipAny ctx = ⟨c.r, .done, ctx, some (mkFault ctx .cutShort .ipAny 1)⟩ := by
      simp [Spec.step, hav]
    rw [walkN_fault true g (k + 2) _ _ _ _ _ _ _ (by simp) hstep, laxSliceIp_errLen c g o 0 _ (laxIpSlice_empty g o)]
    refine relLax_stop hst ⟨by simp [mkFault, StopLayer], ?_⟩
    exact lenRel_fix _ _ c ctx o 0 ht (by lenrel)
  · have hl1 : ¬ ctx.avail < 1 := by omega
    by_cases h4 : g o / 16 = 4
    · have hstep : Spec.step true g c.r .ipAny ctx = ⟨c.r, .ipv4, ctx, none⟩ := by
        simp [Spec.step, hl1, hco, h4]
      rw [walkN_next true g (k + 2) _ _ _ _ _ _ (by simp) hstep]
      have hm := laxIpSlice_v4 g o l h4 (by omega)
      have h20 : ¬ l < 20 := by omega
      by_cases hi : g o % 16 < 5
      · simp only [hi, if_true] at hm
        rw [laxSliceIp_err c g o l _ hm (by simp)]
        have hstep2 : Spec.step true g c.r .ipv4 ctx =
            ⟨c.r, .done, ctx, some (mkFault ctx .content .ipv4Header 0 (g o % 16))⟩ := by
          simp [Spec.step, hav, h20, hco, h4, hi]
        rw [walkN_fault true g (k + 1) _ _ _ _ _ _ _ (by simp) hstep2]
        exact relLax_stop hst ⟨by simp [mkFault, StopLayer], by simp [ErrMatch, ContentMatch, mkFault]⟩
      · by_cases hl : l < g o % 16 * 4
        · simp only [hi, hl, if_true, if_false] at hm
          rw [laxSliceIp_errLen c g o l _ hm]
          have hstep2 : Spec.step true g c.r .ipv4 ctx =
              ⟨c.r, .done, ctx, some (mkFault ctx .cutShort .ipv4Header (g o % 16 * 4))⟩ := by
            simp [Spec.step, hav, h20, hco, h4, hi, hl]
          rw [walkN_fault true g (k + 1) _ _ _ _ _ _ _ (by simp) hstep2]
          refine relLax_stop hst ⟨by simp [mkFault, StopLayer], ?_⟩
          exact lenRel_fix _ _ c ctx o l ht (by lenrel)
        · simp only [hi, hl, if_false] at hm
          rw [laxSliceIp_ok c g o l _ hm]
          exact afterIpL c g o l ctx k .ipv4 _ ht hst (by simp)
            (ipv4_stepL g hg c.r ctx o l hco ht.stop (by omega) h4 (by omega) (by omega))
    · by_cases h6 : g o / 16 = 6
      · have hstep : Spec.step true g c.r .ipAny ctx = ⟨c.r, .ipv6, ctx, none⟩ := by
          simp [Spec.step, hl1, hco, h6]
        rw [walkN_next true g (k + 2) _ _ _ _ _ _ (by simp) hstep]
        by_cases h40 : l < 40
        · have hm := laxIpSlice_v6 g o l h6 (by omega)
          simp only [h40, if_true] at hm
          rw [laxSliceIp_errLen c g o l _ hm]
          have hstep2 : Spec.step true g c.r .ipv6 ctx =
              ⟨c.r, .done, ctx, some (mkFault ctx .cutShort .ipv6Header 40)⟩ := by
            simp [Spec.step, hav, h40]
          rw [walkN_fault true g (k + 1) _ _ _ _ _ _ _ (by simp) hstep2]
          refine relLax_stop hst ⟨by simp [mkFault, StopLayer], ?_⟩
          exact lenRel_fix _ _ c ctx o l ht (by lenrel)
        · have hm := laxIpSlice_v6 g o l h6 (by omega)
          simp only [h40, if_false] at hm
          rw [laxSliceIp_ok c g o l _ hm]
          exact afterIpL c g o l ctx k .ipv6 _ ht hst (by simp)
            (ipv6_stepL g hg c.r ctx o l hco ht.stop (by omega) h6)
      · have hstep : Spec.step true g c.r .ipAny ctx =
            ⟨c.r, .done, ctx, some (mkFault ctx .content .ipAny 0 (g o / 16))⟩ := by
          simp [Spec.step, hl1, hco, h4, h6]
        rw [walkN_fault true g (k + 2) _ _ _ _ _ _ _ (by simp) hstep,
          laxSliceIp_err c g o l _ (laxIpSlice_other g o l h4 h6 (by omega)) (by simp)]
        exact relLax_stop hst ⟨by simp [mkFault, StopLayer], by simp [ErrMatch, ContentMatch, mkFault]⟩

/-- `Cur.laxSliceIp` against the lax walk from the version dispatch, the wrinkle included -/
theorem ip_refinesL (c : Cur) (g : Mem) (hg : ByteMem g) (o l : Nat) (ctx : Ctx) (k : Nat) (ht : Tied c ctx o l)
    (hst : c.r.stop = none) :
    RelLaxW g (c.laxSliceIp g o l) (walkN true g (k + 3) c.r .ipAny ctx) := by
  by_cases hw : g o / 16 = 4 ∧ 0 < l ∧ l < 20
  · obtain ⟨⟨e, he, hsv⟩, hwalk⟩ := ip_refinesL_short c g o l ctx k ht hw
    have hav : ctx.avail = l := by unfold Ctx.avail; have := ht.coff; have := ht.stop; omega
    have hco := ht.coff
    rw [he, hwalk]
    refine ⟨by simp [noStop_of_none hst], ?_⟩
    right
    refine ⟨rfl, rfl, rfl, rfl, by simp [mkFault, hav]; omega, by simp [mkFault, hav]; omega,
      by simp [mkFault, hco, hw.1], ?_⟩
    rcases hsv with ⟨hi, rfl⟩ | ⟨hi, rfl⟩
    · left
      simp [mkFault, hco, hi]
    · right
      refine ⟨by simp [mkFault, hco]; omega, c.src, by simpa [mkFault] using ht.src, ?_⟩
      simp [mkFault, hco, hav, ht.off]
  · exact relLaxW_of (ip_refinesL_main c g hg o l ctx k ht hst hw)

end EpModel.Lemmas.RefineLax
