import EpModel.Lemmas.DecRefineLax
/-
  Lax refinement (C05), part 2: the IP layer — IPv4 with its authentication header, IPv6 with its
  extension chain, the version dispatch of `LaxIpSlice::from_slice`, and `Cur.laxSliceIp`.
-/
namespace EpModel.Lemmas.RefineLax
set_option linter.unusedSimpArgs false
open EpModel EpModel.Dec EpModel.Spec EpModel.Lemmas.Refine

/-- how a stop error of an IP layer (relative to the IP slice at `o`) describes a fault -/
def IpStopRel (e : PErr) (f : Fault) (o : Nat) (lim : LenSource) : Prop :=
  match e with
  | .len le => LenRel le f o lim
  | e => ContentMatch e f

theorem inherit_self (a b : LenSource) : b = .slice ∨ b = inherit a b := by
  unfold inherit; by_cases h : b = .slice <;> simp [h]

/-- what the IP step lemmas say about the result of a lax IP decoder `(ip, stop)` -/
def IpStepL (g : Mem) (p : Packet) (ctx : Ctx) (o : Nat) (t : Tag) (r : IpR × Option (PErr × Layer)) : Prop :=
  ∃ t' c' fo,
    Spec.step true g p t ctx = ⟨p.setNet (.ip r.1), t', c', fo⟩ ∧ o ≤ r.1.pl.w.o ∧
    match r.2, fo with
    | none, none =>
      t' = (if r.1.pl.frag then .done else .tp r.1.pl.num) ∧
      c' = { off := r.1.pl.w.o, stop := r.1.pl.w.o + r.1.pl.w.l, lim := inherit ctx.lim r.1.pl.src, nExt := ctx.nExt }
    | some (e, ly), some f => StopLayer ly f.unit ∧ IpStopRel e f o ctx.lim
    | _, _ => False

/-- the part of the IPv4 step behind the boundary -/
theorem ipv4_tailL (g : Mem) (hg : ByteMem g) (p : Packet) (ctx : Ctx) (o l : Nat) (hc : ctx.off = o)
    (hs : ctx.stop = o + l) (h20 : 20 ≤ l) (hv : g o / 16 = 4) (hi : 5 ≤ g o % 16) (hl : g o % 16 * 4 ≤ l)
    (S : Nat) (src : LenSource) (inc : Bool) (hS : o + g o % 16 * 4 ≤ S)
    (hsrc : src = .slice ∨ src = .ipv4HeaderTotalLen)
    (hb : Spec.bound true ctx .ipv4Packet .ipv4HeaderTotalLen (g o % 16 * 4) (g16 g (o + 2)) = .ok (S, src, inc))
    (hm : ipv4BoundLax o l (g o % 16 * 4) (g16 g (o + 2)) = (⟨o + g o % 16 * 4, S - (o + g o % 16 * 4)⟩, src, inc)) :
    IpStepL g p ctx o .ipv4 (ipv4AfterHeaderLax g o l (g o % 16 * 4)) := by
  have hav : ctx.avail = l := by unfold Ctx.avail; omega
  have h20' : ¬ l < 20 := by omega
  have hi' : ¬ g o % 16 < 5 := by omega
  have hl' : ¬ l < g o % 16 * 4 := by omega
  unfold IpStepL ipv4AfterHeaderLax
  simp only [Spec.step, hav, hc, h20', hv, hi', hl', ne_eq, not_true_eq_false, if_false, hb, hm]
  rw [frag4_eq g hg o]
  generalize hhl : g o % 16 * 4 = H at *
  simp only [Ctx.avail]
  by_cases h51 : g (o + 9) = 51
  · simp only [h51, if_true]
    unfold ahFromSlice
    simp only
    by_cases h12 : S - (o + H) < 12
    · simp only [h12, if_true]
      refine ⟨_, _, _, rfl, by simp [mkV4], ?_⟩
      refine ⟨by simp [mkFault, StopLayer], ?_⟩
      simp only [IpStopRel]
      refine ⟨by simp [mkFault], by simp [mkFault, LayerUnit, LenError.addOffset, LenError.withSrc],
        by simp [mkFault, LenError.addOffset, LenError.withSrc]; omega,
        by simp [mkFault, LenError.addOffset, LenError.withSrc, Ctx.avail],
        by simp [mkFault, LenError.addOffset, LenError.withSrc], ?_⟩
      rcases hsrc with h | h <;> subst h <;> simp [mkFault, LenError.addOffset, LenError.withSrc, inherit]
    · simp only [h12, if_false]
      by_cases hz : g (o + H + 1) < 1
      · have hz' : g (o + H + 1) = 0 := by omega
        simp only [hz, hz', if_true]
        refine ⟨_, _, _, rfl, by simp [mkV4], ?_⟩
        exact ⟨by simp [mkFault, StopLayer], by simp [IpStopRel, ContentMatch, mkFault]⟩
      · have hz' : ¬ g (o + H + 1) = 0 := by omega
        simp only [hz, hz', if_false]
        by_cases hal : S - (o + H) < (g (o + H + 1) + 2) * 4
        · simp only [hal, if_true]
          refine ⟨_, _, _, rfl, by simp [mkV4], ?_⟩
          refine ⟨by simp [mkFault, StopLayer], ?_⟩
          simp only [IpStopRel]
          refine ⟨by simp [mkFault], by simp [mkFault, LayerUnit, LenError.addOffset, LenError.withSrc],
            by simp [mkFault, LenError.addOffset, LenError.withSrc]; omega,
            by simp [mkFault, LenError.addOffset, LenError.withSrc, Ctx.avail],
            by simp [mkFault, LenError.addOffset, LenError.withSrc], ?_⟩
          rcases hsrc with h | h <;> subst h <;> simp [mkFault, LenError.addOffset, LenError.withSrc, inherit]
        · simp only [hal, if_false]
          generalize (g (o + H + 1) + 2) * 4 = al at *
          have e2 : S - (o + H + al) = S - (o + H) - al := by omega
          refine ⟨_, _, _, by simp only [mkV4, noExts, setNet_eq, e2]; rfl, by simp [mkV4]; omega, ?_⟩
          simp only [mkV4]
          exact ⟨rfl, by simp; omega⟩
  · simp only [h51, if_false]
    refine ⟨_, _, _, rfl, by simp [mkV4], ?_⟩
    simp only [mkV4]
    exact ⟨rfl, by simp; omega⟩
/-- the IPv4 step of the lax walk against `ipv4AfterHeaderLax` (header checks passed) -/
theorem ipv4_stepL (g : Mem) (hg : ByteMem g) (p : Packet) (ctx : Ctx) (o l : Nat) (hc : ctx.off = o)
    (hs : ctx.stop = o + l) (h20 : 20 ≤ l) (hv : g o / 16 = 4) (hi : 5 ≤ g o % 16) (hl : g o % 16 * 4 ≤ l) :
    IpStepL g p ctx o .ipv4 (ipv4AfterHeaderLax g o l (g o % 16 * 4)) := by
  have hav : ctx.avail = l := by unfold Ctx.avail; omega
  by_cases htl : g16 g (o + 2) < g o % 16 * 4
  · refine ipv4_tailL g hg p ctx o l hc hs h20 hv hi hl (o + l) .slice false (by omega) (Or.inl rfl) ?_ ?_
    · simp [Spec.bound, htl, hs]
    · have e : o + l - (o + g o % 16 * 4) = l - g o % 16 * 4 := by omega
      simp [ipv4BoundLax, htl, e]
  · by_cases hlt : l < g16 g (o + 2)
    · refine ipv4_tailL g hg p ctx o l hc hs h20 hv hi hl (o + l) .slice true (by omega) (Or.inl rfl) ?_ ?_
      · simp [Spec.bound, htl, hs, hav, hlt]
      · have e : o + l - (o + g o % 16 * 4) = l - g o % 16 * 4 := by omega
        simp [ipv4BoundLax, htl, hlt, e]
    · refine ipv4_tailL g hg p ctx o l hc hs h20 hv hi hl (o + g16 g (o + 2)) .ipv4HeaderTotalLen false (by omega)
        (Or.inr rfl) ?_ ?_
      · simp [Spec.bound, htl, hc, hav, hlt]
      · have e : o + g16 g (o + 2) - (o + g o % 16 * 4) = g16 g (o + 2) - g o % 16 * 4 := by omega
        simp [ipv4BoundLax, htl, hlt, e]

end EpModel.Lemmas.RefineLax
