import EpModel.Lemmas.Dec
/- Every window handed out by the decode model lies inside the input (C01). -/
namespace EpModel.Lemmas.Dec
open EpModel EpModel.Dec

/-- window `w` lies inside the window `(o, l)` -/
def WIn (w : Win) (o l : Nat) : Prop := o ≤ w.o ∧ w.o + w.l ≤ o + l

theorem WIn.mono {w : Win} {o l o' l' : Nat} (h : WIn w o l) (h1 : o' ≤ o) (h2 : o + l ≤ o' + l') : WIn w o' l' := by
  unfold WIn at *; omega

def OptIn (w : Option Win) (o l : Nat) : Prop := ∀ x, w = some x → WIn x o l

def SlotsIn (s : ExtSlots) (o l : Nat) : Prop :=
  OptIn s.hbh o l ∧ OptIn s.dest o l ∧ OptIn s.routing o l ∧ OptIn s.finalDest o l ∧ OptIn s.frag o l ∧ OptIn s.auth o l

def IpIn (r : IpR) (o l : Nat) : Prop :=
  WIn r.hdr o l ∧ OptIn r.auth o l ∧ WIn r.exts o l ∧ SlotsIn r.slots o l ∧ WIn r.pl.w o l

def LinkIn : LinkR → Nat → Nat → Prop
  | .eth2 w, o, l => WIn w o l ∧ 14 ≤ w.l
  | .sll w, o, l => WIn w o l ∧ 16 ≤ w.l
  | .etherPayload _ w, o, l => WIn w o l

def ExtIn : ExtR → Nat → Nat → Prop
  | .vlan w, o, l => WIn w o l ∧ 4 ≤ w.l
  | .macsec h p _ _, o, l => WIn h o l ∧ WIn p o l ∧ 6 ≤ h.l

def NetIn : NetR → Nat → Nat → Prop
  | .arp w, o, l => WIn w o l ∧ 8 ≤ w.l
  | .ip r, o, l => IpIn r o l

def TpIn : TpR → Nat → Nat → Prop
  | .udp w, o, l => WIn w o l ∧ 8 ≤ w.l
  | .tcp w hl, o, l => WIn w o l ∧ 20 ≤ hl ∧ hl ≤ w.l
  | .icmp4 w, o, l => WIn w o l ∧ 8 ≤ w.l
  | .icmp6 w, o, l => WIn w o l ∧ 8 ≤ w.l

/-- every slice a (lax) sliced packet hands out lies inside `(o, l)` and is long enough for the
    unchecked accessors of its type -/
def PacketIn (p : Packet) (o l : Nat) : Prop :=
  (∀ x, p.link = some x → LinkIn x o l) ∧ (∀ x ∈ p.exts, ExtIn x o l) ∧
    (∀ x, p.net = some x → NetIn x o l) ∧ (∀ x, p.tp = some x → TpIn x o l)

/-! ### leaves -/

theorem udp_in (g : Mem) (o l : Nat) (w : Win) (h : udpFromSlice g o l = .ok w) : WIn w o l ∧ 8 ≤ w.l := by
  unfold udpFromSlice at h
  split at h
  · contradiction
  · simp only at h
    split at h
    · contradiction
    · split at h
      · cases h; simp [WIn]; omega
      · split at h
        · contradiction
        · cases h; simp [WIn]; omega

theorem udpLax_in (g : Mem) (o l : Nat) (w : Win) (h : udpFromSliceLax g o l = .ok w) : WIn w o l ∧ 8 ≤ w.l := by
  unfold udpFromSliceLax at h
  split at h
  · contradiction
  · simp only at h
    split at h <;> cases h <;> simp [WIn] <;> omega

theorem tcp_ok (g : Mem) (o l hl : Nat) (h : tcpFromSlice g o l = .ok hl) : 20 ≤ hl ∧ hl ≤ l := by
  unfold tcpFromSlice at h
  split at h
  · contradiction
  · simp only at h
    split at h
    · contradiction
    · split at h
      · contradiction
      · cases h; omega

theorem icmp4_in (g : Mem) (o l : Nat) (w : Win) (h : icmp4FromSlice g o l = .ok w) : w = ⟨o, l⟩ ∧ 8 ≤ l := by
  unfold icmp4FromSlice at h
  repeat (first | contradiction | split at h)
  cases h; simp; omega

theorem icmp6_in (o l : Nat) (w : Win) (h : icmp6FromSlice o l = .ok w) : w = ⟨o, l⟩ ∧ 8 ≤ l := by
  unfold icmp6FromSlice at h
  repeat (first | contradiction | split at h)
  cases h; simp; omega

theorem arp_in (g : Mem) (o l : Nat) (w : Win) (h : arpFromSlice g o l = .ok w) : WIn w o l ∧ 8 ≤ w.l := by
  unfold arpFromSlice at h
  split at h
  · contradiction
  · simp only at h
    split at h
    · contradiction
    · cases h; simp [WIn]; omega

theorem macsecHeaderLen_bounds (t : Nat) : 6 ≤ macsecHeaderLen t ∧ macsecHeaderLen t ≤ 16 := by
  unfold macsecHeaderLen; constructor <;> (repeat' split) <;> omega

theorem macsecHeader_ok (g : Mem) (o l hl : Nat) (h : macsecHeaderFromSlice g o l = .ok hl) :
    hl = macsecHeaderLen (g o) ∧ hl ≤ l := by
  unfold macsecHeaderFromSlice at h
  split at h
  · contradiction
  · simp only at h
    split at h
    · contradiction
    · split at h
      · contradiction
      · split at h
        · contradiction
        · cases h; omega

theorem macsec_in (g : Mem) (o l : Nat) (x : ExtR) (h : macsecFromSlice g o l = .ok x) : ExtIn x o l := by
  unfold macsecFromSlice at h
  split at h
  · contradiction
  · rename_i hl hh
    have hb := macsecHeader_ok g o l hl hh
    have := macsecHeaderLen_bounds (g o)
    split at h
    · simp only at h
      split at h
      · contradiction
      · cases h; simp [ExtIn, WIn]; omega
    · cases h; simp [ExtIn, WIn]; omega

theorem laxMacsec_in (g : Mem) (o l : Nat) (x : ExtR) (h : laxMacsecFromSlice g o l = .ok x) : ExtIn x o l := by
  unfold laxMacsecFromSlice at h
  split at h
  · contradiction
  · rename_i hl hh
    have hb := macsecHeader_ok g o l hl hh
    have := macsecHeaderLen_bounds (g o)
    split at h
    · simp only at h
      split at h <;> cases h <;> simp [ExtIn, WIn] <;> omega
    · cases h; simp [ExtIn, WIn]; omega

/-! ### IP layer -/

theorem ipv4Header_ok (g : Mem) (o l hl : Nat) (h : ipv4HeaderFromSlice g o l = .ok hl) :
    20 ≤ hl ∧ hl ≤ l ∧ hl = (g o % 16) * 4 := by
  unfold ipv4HeaderFromSlice at h
  split at h
  · contradiction
  · simp only at h
    split at h
    · contradiction
    · split at h
      · contradiction
      · split at h
        · contradiction
        · cases h; omega

theorem ah_ok (g : Mem) (o l al : Nat) (h : ahFromSlice g o l = .ok al) :
    12 ≤ al ∧ al ≤ l ∧ al = (g (o + 1) + 2) * 4 := by
  unfold ahFromSlice at h
  split at h
  · contradiction
  · simp only at h
    split at h
    · contradiction
    · split at h
      · contradiction
      · cases h; omega

theorem ipDispatch_ok (g : Mem) (m : Bool) (o l : Nat) (x : Nat ⊕ Unit) (h : ipDispatchHeader g m o l = .ok x) :
    match x with
    | .inl hl => 20 ≤ hl ∧ hl ≤ l ∧ hl = (g o % 16) * 4 ∧ g o / 16 = 4
    | .inr _ => 40 ≤ l ∧ g o / 16 = 6 := by
  unfold ipDispatchHeader at h
  split at h
  · contradiction
  · simp only at h
    split at h
    · split at h
      · contradiction
      · split at h
        · contradiction
        · split at h
          · contradiction
          · cases h; simp; omega
    · split at h
      · split at h
        · contradiction
        · cases h; simp; omega
      · contradiction

theorem ipv6Header_ok (g : Mem) (o l : Nat) (h : ipv6HeaderFromSlice g o l = .ok ()) : 40 ≤ l ∧ g o / 16 = 6 := by
  unfold ipv6HeaderFromSlice at h
  split at h
  · contradiction
  · simp only at h
    split at h
    · contradiction
    · omega

theorem slotsIn_none (o l : Nat) : SlotsIn ExtSlots.none o l := by
  simp [SlotsIn, ExtSlots.none, OptIn]

theorem ipv4AfterHeaderStrict_in (g : Mem) (o l hl : Nat) (r : IpR) (h20 : 20 ≤ hl) (hle : hl ≤ l)
    (h : ipv4AfterHeaderStrict g o l hl = .ok r) : IpIn r o l ∧ r.hdr = ⟨o, hl⟩ := by
  unfold ipv4AfterHeaderStrict at h
  simp only at h
  split at h
  · contradiction
  · rename_i hp hb
    have hpin : hp.o = o + hl ∧ hp.o + hp.l ≤ o + l := by
      unfold ipv4BoundStrict at hb
      split at hb
      · contradiction
      · split at hb
        · contradiction
        · cases hb; simp; omega
    split at h
    · split at h
      · contradiction
      · contradiction
      · rename_i al ha
        have := ah_ok g hp.o hp.l al ha
        cases h
        simp [IpIn, mkV4, WIn, OptIn, noExts, slotsIn_none]
        omega
    · cases h
      simp [IpIn, mkV4, WIn, OptIn, noExts, slotsIn_none]
      omega

theorem ipv4BoundLax_in (o l hl tl : Nat) (hle : hl ≤ l) :
    (ipv4BoundLax o l hl tl).1.o = o + hl ∧ (ipv4BoundLax o l hl tl).1.o + (ipv4BoundLax o l hl tl).1.l ≤ o + l := by
  unfold ipv4BoundLax
  split
  · simp; omega
  · split <;> simp <;> omega

theorem ipv4AfterHeaderLax_in (g : Mem) (o l hl : Nat) (h20 : 20 ≤ hl) (hle : hl ≤ l) :
    IpIn (ipv4AfterHeaderLax g o l hl).1 o l ∧ (ipv4AfterHeaderLax g o l hl).1.hdr = ⟨o, hl⟩ := by
  unfold ipv4AfterHeaderLax
  have hb := ipv4BoundLax_in o l hl (g16 g (o + 2)) hle
  simp only
  split
  · split
    · rename_i al ha
      have := ah_ok g _ _ al ha
      simp [IpIn, mkV4, WIn, OptIn, noExts, slotsIn_none]
      omega
    · simp [IpIn, mkV4, WIn, OptIn, noExts, slotsIn_none]
      omega
  · simp [IpIn, mkV4, WIn, OptIn, noExts, slotsIn_none]
    omega

theorem optIn_some (w : Win) (O L : Nat) (h : WIn w O L) : OptIn (some w) O L := by
  intro x hx; cases hx; exact h

theorem rawStore_in (nh : Nat) (slots : ExtSlots) (w : Win) (O L : Nat) (hs : SlotsIn slots O L)
    (hw : WIn w O L) : SlotsIn (rawStore nh slots w) O L := by
  obtain ⟨h1, h2, h3, h4, h5, h6⟩ := hs
  unfold rawStore
  split
  · split
    · exact ⟨h1, h2, h3, optIn_some w O L hw, h5, h6⟩
    · exact ⟨h1, optIn_some w O L hw, h3, h4, h5, h6⟩
  · exact ⟨h1, h2, optIn_some w O L hw, h4, h5, h6⟩

theorem fragStore_in (slots : ExtSlots) (w : Win) (O L : Nat) (hs : SlotsIn slots O L)
    (hw : WIn w O L) : SlotsIn (fragStore slots w) O L := by
  obtain ⟨h1, h2, h3, h4, h5, h6⟩ := hs
  exact ⟨h1, h2, h3, h4, optIn_some w O L hw, h6⟩

theorem authStore_in (slots : ExtSlots) (w : Win) (O L : Nat) (hs : SlotsIn slots O L)
    (hw : WIn w O L) : SlotsIn (authStore slots w) O L := by
  obtain ⟨h1, h2, h3, h4, h5, h6⟩ := hs
  exact ⟨h1, h2, h3, h4, h5, optIn_some w O L hw⟩

/-- slots and rest of a walk stay inside the slice walked -/
theorem extsLoop_in (g : Mem) (sm : Bool) (l0 nh : Nat) (frag : Bool) (slots : ExtSlots) (o l O L : Nat)
    (hs : SlotsIn slots O L) (hw : O ≤ o ∧ o + l ≤ O + L) :
    SlotsIn (extsLoop g sm l0 nh frag slots o l).slots O L := by
  fun_induction extsLoop g sm l0 nh frag slots o l
  all_goals try (simp_all [extsFail, extsDone]; done)
  · rename_i ih
    exact ih (rawStore_in _ _ _ O L hs (by unfold WIn; simp; omega)) (by omega)
  · rename_i ih
    exact ih (fragStore_in _ _ O L hs (by unfold WIn; simp; omega)) (by omega)
  · rename_i ih
    exact ih (authStore_in _ _ O L hs (by unfold WIn; simp; omega)) (by omega)

theorem extsWalk_in (g : Mem) (sm : Bool) (nh o l : Nat) :
    SlotsIn (extsWalk g sm nh o l).slots o l ∧ WIn (extsWalk g sm nh o l).rest o l := by
  have hsuf := extsWalk_suffix g sm nh o l
  refine ⟨?_, by unfold WIn; omega⟩
  unfold extsWalk
  split
  · split
    · exact slotsIn_none o l
    · rename_i hl hok
      have hb : 8 ≤ hl ∧ hl ≤ l := by
        unfold rawExtFromSlice at hok
        split at hok
        · contradiction
        · simp only at hok
          split at hok
          · contradiction
          · cases hok; omega
      apply extsLoop_in
      · refine ⟨optIn_some _ _ _ (by unfold WIn; simp; omega), ?_, ?_, ?_, ?_, ?_⟩ <;> simp [OptIn]
      · omega
  · exact extsLoop_in g sm l nh false ExtSlots.none o l o l (slotsIn_none o l) (by omega)

theorem ipv6BoundStrict_ok (o l pl : Nat) (hp : Win) (src : LenSource) (h40 : 40 ≤ l)
    (h : ipv6BoundStrict o l pl = .ok (hp, src)) : hp.o = o + 40 ∧ hp.o + hp.l ≤ o + l := by
  unfold ipv6BoundStrict at h
  split at h
  · cases h; simp; omega
  · split at h
    · contradiction
    · cases h; simp; omega

theorem ipv6BoundLax_ok (o l pl : Nat) (h40 : 40 ≤ l) :
    (ipv6BoundLax o l pl).1.o = o + 40 ∧ (ipv6BoundLax o l pl).1.o + (ipv6BoundLax o l pl).1.l ≤ o + l := by
  unfold ipv6BoundLax
  split
  · simp; omega
  · split <;> simp <;> omega

theorem mkV6_in (g : Mem) (sm : Bool) (o l nh : Nat) (hp : Win) (src : LenSource) (inc : Bool)
    (h40 : 40 ≤ l) (hh : hp.o = o + 40 ∧ hp.o + hp.l ≤ o + l) :
    IpIn (mkV6 sm o nh hp (extsWalk g sm nh hp.o hp.l) src inc) o l := by
  have h1 := extsWalk_in g sm nh hp.o hp.l
  have h2 := extsWalk_suffix g sm nh hp.o hp.l
  obtain ⟨⟨s1, s2, s3, s4, s5, s6⟩, hr⟩ := h1
  have mono : ∀ w : Option Win, OptIn w hp.o hp.l → OptIn w o l := by
    intro w hw x hx
    exact (hw x hx).mono (by omega) (by omega)
  unfold mkV6
  refine ⟨by unfold WIn; simp; omega, by simp [OptIn], by unfold WIn; simp; omega, ?_, ?_⟩
  · simp only
    split
    · exact ⟨mono _ s1, mono _ s2, mono _ s3, mono _ s4, mono _ s5, mono _ s6⟩
    · exact slotsIn_none o l
  · exact hr.mono (by omega) (by omega)

theorem ipv6ChainStrict_ok (g : Mem) (sm : Bool) (o : Nat) (hp : Win) (src : LenSource) (r : IpR)
    (h : ipv6ChainStrict g sm o hp src = .ok r) :
    r = mkV6 sm o (g (o + 6)) hp (extsWalk g sm (g (o + 6)) hp.o hp.l) src false ∧
      (extsWalk g sm (g (o + 6)) hp.o hp.l).stop = none := by
  unfold ipv6ChainStrict at h
  split at h
  · contradiction
  · contradiction
  · rename_i r' hr'
    have : r' = extsWalk g sm (g (o + 6)) hp.o hp.l ∧ (extsWalk g sm (g (o + 6)) hp.o hp.l).stop = none := by
      unfold extsWalkStrict at hr'
      simp only at hr'
      split at hr'
      · contradiction
      · rename_i hs
        cases hr'; exact ⟨rfl, hs⟩
    cases h
    rw [this.1]
    exact ⟨rfl, this.2⟩

theorem ipv6AfterHeaderStrict_in (g : Mem) (sm : Bool) (o l : Nat) (r : IpR) (h40 : 40 ≤ l)
    (h : ipv6AfterHeaderStrict g sm o l = .ok r) : IpIn r o l ∧ r.hdr = ⟨o, 40⟩ := by
  unfold ipv6AfterHeaderStrict at h
  split at h
  · contradiction
  · rename_i hp src hb
    have hh := ipv6BoundStrict_ok o l _ hp src h40 hb
    have := (ipv6ChainStrict_ok g sm o hp src r h).1
    rw [this]
    exact ⟨mkV6_in g sm o l _ hp src false h40 hh, rfl⟩

theorem ipv6AfterHeaderLax_in (g : Mem) (sm : Bool) (o l : Nat) (h40 : 40 ≤ l) :
    IpIn (ipv6AfterHeaderLax g sm o l).1 o l ∧ (ipv6AfterHeaderLax g sm o l).1.hdr = ⟨o, 40⟩ := by
  unfold ipv6AfterHeaderLax
  have hh := ipv6BoundLax_ok o l (g16 g (o + 4)) h40
  simp only
  exact ⟨mkV6_in g sm o l _ _ _ _ h40 hh, rfl⟩

/-! ### the IP boundary implementations -/

theorem ipv4Slice_in (g : Mem) (o l : Nat) (r : IpR) (h : ipv4SliceFromSlice g o l = .ok r) : IpIn r o l := by
  unfold ipv4SliceFromSlice at h
  split at h
  · contradiction
  · rename_i hl hh
    have := ipv4Header_ok g o l hl hh
    exact (ipv4AfterHeaderStrict_in g o l hl r this.1 this.2.1 h).1

theorem ipv6Slice_in (g : Mem) (o l : Nat) (r : IpR) (h : ipv6SliceFromSlice g o l = .ok r) : IpIn r o l := by
  unfold ipv6SliceFromSlice at h
  split at h
  · contradiction
  · rename_i hh
    have := ipv6Header_ok g o l hh
    exact (ipv6AfterHeaderStrict_in g false o l r this.1 h).1

theorem ipSlice_in (g : Mem) (o l : Nat) (r : IpR) (h : ipSliceFromSlice g o l = .ok r) : IpIn r o l := by
  unfold ipSliceFromSlice at h
  split at h
  · contradiction
  · rename_i hl hh
    have := ipDispatch_ok g false o l _ hh
    exact (ipv4AfterHeaderStrict_in g o l hl r this.1 this.2.1 h).1
  · rename_i hh
    have := ipDispatch_ok g false o l _ hh
    exact (ipv6AfterHeaderStrict_in g false o l r this.1 h).1

theorem laxIpSlice_in (g : Mem) (o l : Nat) (r : IpR) (st : Option (PErr × Layer))
    (h : laxIpSliceFromSlice g o l = .ok (r, st)) : IpIn r o l := by
  unfold laxIpSliceFromSlice at h
  split at h
  · contradiction
  · rename_i hl hh
    have := ipDispatch_ok g false o l _ hh
    have h2 := (ipv4AfterHeaderLax_in g o l hl this.1 this.2.1).1
    simp only [Except.ok.injEq] at h
    have e : r = _ := (congrArg Prod.fst h).symm
    rw [e]
    exact h2
  · rename_i hh
    have := ipDispatch_ok g false o l _ hh
    have h2 := (ipv6AfterHeaderLax_in g false o l this.1).1
    simp only [Except.ok.injEq] at h
    have e : r = _ := (congrArg Prod.fst h).symm
    rw [e]
    exact h2

theorem ipHeaders_in (g : Mem) (o l : Nat) (r : IpR) (h : ipHeadersFromSlice g o l = .ok r) : IpIn r o l := by
  unfold ipHeadersFromSlice at h
  split at h
  · contradiction
  · rename_i hl hh
    have := ipDispatch_ok g true o l _ hh
    exact (ipv4AfterHeaderStrict_in g o l hl r this.1 this.2.1 h).1
  · rename_i hh
    have := ipDispatch_ok g true o l _ hh
    exact (ipv6AfterHeaderStrict_in g true o l r this.1 h).1

theorem ipHeadersLax_in (g : Mem) (o l : Nat) (r : IpR) (st : Option (PErr × Layer))
    (h : ipHeadersFromSliceLax g o l = .ok (r, st)) : IpIn r o l := by
  unfold ipHeadersFromSliceLax at h
  split at h
  · contradiction
  · rename_i hl hh
    have := ipDispatch_ok g true o l _ hh
    have h2 := (ipv4AfterHeaderLax_in g o l hl this.1 this.2.1).1
    simp only [Except.ok.injEq] at h
    have e : r = _ := (congrArg Prod.fst h).symm
    rw [e]
    exact h2
  · rename_i hh
    have := ipDispatch_ok g true o l _ hh
    have h2 := (ipv6AfterHeaderLax_in g true o l this.1).1
    simp only [Except.ok.injEq] at h
    have e : r = _ := (congrArg Prod.fst h).symm
    rw [e]
    exact h2

theorem ipHeadersV4_in (g : Mem) (o l : Nat) (r : IpR) (h : ipHeadersFromIpv4Slice g o l = .ok r) : IpIn r o l :=
  ipv4Slice_in g o l r h

theorem ipHeadersV6_in (g : Mem) (o l : Nat) (r : IpR) (h : ipHeadersFromIpv6Slice g o l = .ok r) : IpIn r o l := by
  unfold ipHeadersFromIpv6Slice at h
  split at h
  · contradiction
  · rename_i hh
    have := ipv6Header_ok g o l hh
    exact (ipv6AfterHeaderStrict_in g true o l r this.1 h).1

/-! ### packets -/

theorem packetIn_empty (o l : Nat) : PacketIn Packet.empty o l := by
  simp [PacketIn, Packet.empty]

theorem packetIn_setLink {p : Packet} {x : LinkR} {o l : Nat} (h : PacketIn p o l) (hx : LinkIn x o l) :
    PacketIn (p.setLink x) o l := by
  obtain ⟨_, h2, h3, h4⟩ := h
  refine ⟨?_, h2, h3, h4⟩
  intro y hy; simp [Packet.setLink] at hy; subst hy; exact hx

theorem packetIn_pushExt {p : Packet} {x : ExtR} {o l : Nat} (h : PacketIn p o l) (hx : ExtIn x o l) :
    PacketIn (p.pushExt x) o l := by
  obtain ⟨h1, h2, h3, h4⟩ := h
  refine ⟨h1, ?_, h3, h4⟩
  intro y hy
  simp [Packet.pushExt] at hy
  rcases hy with hy | hy
  · exact h2 y hy
  · subst hy; exact hx

theorem packetIn_setNet {p : Packet} {x : NetR} {o l : Nat} (h : PacketIn p o l) (hx : NetIn x o l) :
    PacketIn (p.setNet x) o l := by
  obtain ⟨h1, h2, _, h4⟩ := h
  refine ⟨h1, h2, ?_, h4⟩
  intro y hy; simp [Packet.setNet] at hy; subst hy; exact hx

theorem packetIn_setTp {p : Packet} {x : TpR} {o l : Nat} (h : PacketIn p o l) (hx : TpIn x o l) :
    PacketIn (p.setTp x) o l := by
  obtain ⟨h1, h2, h3, _⟩ := h
  refine ⟨h1, h2, h3, ?_⟩
  intro y hy; simp [Packet.setTp] at hy; subst hy; exact hx

theorem packetIn_setStop {p : Packet} {e : PErr} {ly : Layer} {o l : Nat} (h : PacketIn p o l) :
    PacketIn (p.setStop e ly) o l := h

/-- strict transport step -/
theorem sliceTransport_in (c : Cur) (g : Mem) (num o l O L : Nat) (p : Packet) (hc : PacketIn c.r O L)
    (hw : O ≤ o ∧ o + l ≤ O + L) (h : c.sliceTransport g num o l = .ok p) : PacketIn p O L := by
  unfold Cur.sliceTransport at h
  simp only at h
  split at h
  · split at h
    · contradiction
    · rename_i w hw'
      have := icmp4_in g o l w hw'
      cases h
      exact packetIn_setTp hc (by rw [this.1]; simp [TpIn, WIn]; omega)
  · split at h
    · split at h
      · contradiction
      · rename_i w hw'
        have := udp_in g o l w hw'
        cases h
        exact packetIn_setTp hc ⟨this.1.mono hw.1 hw.2, this.2⟩
    · split at h
      · split at h
        · contradiction
        · contradiction
        · rename_i hl hw'
          have := tcp_ok g o l hl hw'
          cases h
          exact packetIn_setTp hc (by simp [TpIn, WIn]; omega)
      · split at h
        · split at h
          · contradiction
          · rename_i w hw'
            have := icmp6_in o l w hw'
            cases h
            exact packetIn_setTp hc (by rw [this.1]; simp [TpIn, WIn]; omega)
        · cases h; exact hc

theorem OptIn.mono {w : Option Win} {o l o' l' : Nat} (h : OptIn w o l) (h1 : o' ≤ o) (h2 : o + l ≤ o' + l') :
    OptIn w o' l' := fun x hx => (h x hx).mono h1 h2

theorem IpIn.mono {r : IpR} {o l o' l' : Nat} (h : IpIn r o l) (h1 : o' ≤ o) (h2 : o + l ≤ o' + l') :
    IpIn r o' l' := by
  obtain ⟨a, b, c, ⟨s1, s2, s3, s4, s5, s6⟩, e⟩ := h
  exact ⟨a.mono h1 h2, b.mono h1 h2, c.mono h1 h2,
    ⟨s1.mono h1 h2, s2.mono h1 h2, s3.mono h1 h2, s4.mono h1 h2, s5.mono h1 h2, s6.mono h1 h2⟩, e.mono h1 h2⟩

theorem afterIp_in (c : Cur) (g : Mem) (o l O L : Nat) (ip : IpR) (p : Packet) (hc : PacketIn c.r O L)
    (hw : O ≤ o ∧ o + l ≤ O + L) (hip : IpIn ip o l) (h : c.afterIp g o ip = .ok p) : PacketIn p O L := by
  have hip' := hip.mono hw.1 hw.2
  have hnet : PacketIn (c.r.setNet (.ip ip)) O L := packetIn_setNet hc hip'
  unfold Cur.afterIp at h
  simp only at h
  split at h
  · cases h; exact hnet
  · have hpl := hip'.2.2.2.2
    exact sliceTransport_in _ g _ _ _ O L p hnet (by unfold WIn at hpl; omega) h

theorem sliceIp_in (c : Cur) (g : Mem) (o l O L : Nat) (p : Packet) (hc : PacketIn c.r O L)
    (hw : O ≤ o ∧ o + l ≤ O + L) (h : c.sliceIp g o l = .ok p) : PacketIn p O L := by
  unfold Cur.sliceIp at h
  split at h
  · contradiction
  · rename_i ip hip
    exact afterIp_in c g o l O L ip p hc hw (ipSlice_in g o l ip hip) h

theorem sliceIpv4_in (c : Cur) (g : Mem) (o l O L : Nat) (p : Packet) (hc : PacketIn c.r O L)
    (hw : O ≤ o ∧ o + l ≤ O + L) (h : c.sliceIpv4 g o l = .ok p) : PacketIn p O L := by
  unfold Cur.sliceIpv4 at h
  split at h
  · contradiction
  · rename_i ip hip
    exact afterIp_in c g o l O L ip p hc hw (ipv4Slice_in g o l ip hip) h

theorem sliceIpv6_in (c : Cur) (g : Mem) (o l O L : Nat) (p : Packet) (hc : PacketIn c.r O L)
    (hw : O ≤ o ∧ o + l ≤ O + L) (h : c.sliceIpv6 g o l = .ok p) : PacketIn p O L := by
  unfold Cur.sliceIpv6 at h
  split at h
  · contradiction
  · rename_i ip hip
    exact afterIp_in c g o l O L ip p hc hw (ipv6Slice_in g o l ip hip) h

theorem sliceArp_in (c : Cur) (g : Mem) (o l O L : Nat) (p : Packet) (hc : PacketIn c.r O L)
    (hw : O ≤ o ∧ o + l ≤ O + L) (h : c.sliceArp g o l = .ok p) : PacketIn p O L := by
  unfold Cur.sliceArp at h
  split at h
  · contradiction
  · rename_i w hw'
    have := arp_in g o l w hw'
    cases h
    exact packetIn_setNet hc ⟨this.1.mono hw.1 hw.2, this.2⟩

theorem vlan_in (o l : Nat) (w : Win) (h : vlanFromSlice o l = .ok w) : w = ⟨o, l⟩ ∧ 4 ≤ l := by
  unfold vlanFromSlice at h
  split at h
  · contradiction
  · cases h; simp; omega

theorem sliceEtherType_in (c : Cur) (g : Mem) (n et o l O L : Nat) (p : Packet) (hc : PacketIn c.r O L)
    (hw : O ≤ o ∧ o + l ≤ O + L) (h : c.sliceEtherType g n et o l = .ok p) : PacketIn p O L := by
  fun_induction Cur.sliceEtherType c g n et o l
  all_goals first
    | (cases h; exact hc; done)
    | contradiction
    | (exact sliceArp_in _ g _ _ O L p hc hw h; done)
    | (exact sliceIpv4_in _ g _ _ O L p hc hw h; done)
    | (exact sliceIpv6_in _ g _ _ O L p hc hw h; done)
    | skip
  case case7 c o l n hdr pl src inc hm c' et' hn hne ih =>
    -- macsec, unmodified payload: continue
    have hin := macsec_in g o l _ hm
    have hin' : ExtIn (.macsec hdr pl src inc) O L :=
      ⟨hin.1.mono hw.1 hw.2, hin.2.1.mono hw.1 hw.2, hin.2.2⟩
    exact ih (packetIn_pushExt hc hin') (by have := hin'.2.1; unfold WIn at this; omega) h
  case case8 c o l n hdr pl src inc hm c' hn hne =>
    -- macsec, modified payload: stop
    have hin := macsec_in g o l _ hm
    have hin' : ExtIn (.macsec hdr pl src inc) O L :=
      ⟨hin.1.mono hw.1 hw.2, hin.2.1.mono hw.1 hw.2, hin.2.2⟩
    cases h
    exact packetIn_pushExt hc hin'
  case case3 c et o l het n w hv ih =>
    -- vlan
    have := vlan_in o l w hv
    exact ih (packetIn_pushExt hc (by rw [this.1]; simp [ExtIn, WIn]; omega)) (by omega) h

/-! ### strict entry points -/

theorem sll_in (g : Mem) (o l : Nat) (w : Win) (h : sllFromSlice g o l = .ok w) : w = ⟨o, l⟩ ∧ 16 ≤ l := by
  unfold sllFromSlice at h
  split at h
  · contradiction
  · simp only at h
    split at h
    · contradiction
    · split at h
      · contradiction
      · cases h; simp; omega

theorem slicedFromEthernet_in (g : Mem) (n : Nat) (p : Packet) (h : slicedFromEthernet g n = .ok p) :
    PacketIn p 0 n := by
  unfold slicedFromEthernet at h
  split at h
  · contradiction
  · rename_i w hw
    have hb : w = ⟨0, n⟩ ∧ 14 ≤ n := by
      unfold eth2FromSlice at hw
      split at hw
      · contradiction
      · cases hw; simp; omega
    apply sliceEtherType_in _ g 3 _ 14 (n - 14) 0 n p _ (by omega) h
    exact packetIn_setLink (packetIn_empty 0 n) (by rw [hb.1]; simp [LinkIn, WIn]; omega)

theorem slicedFromLinuxSll_in (g : Mem) (n : Nat) (p : Packet) (h : slicedFromLinuxSll g n = .ok p) :
    PacketIn p 0 n := by
  unfold slicedFromLinuxSll at h
  split at h
  · contradiction
  · rename_i w hw
    have hb := sll_in g 0 n w hw
    have hl : PacketIn (Packet.empty.setLink (.sll w)) 0 n :=
      packetIn_setLink (packetIn_empty 0 n) (by rw [hb.1]; simp [LinkIn, WIn]; omega)
    simp only at h
    split at h
    · exact sliceEtherType_in _ g 3 _ 16 (n - 16) 0 n p hl (by omega) h
    · cases h; exact hl

theorem slicedFromEtherType_in (g : Mem) (et n : Nat) (p : Packet) (h : slicedFromEtherType g et n = .ok p) :
    PacketIn p 0 n := by
  unfold slicedFromEtherType at h
  apply sliceEtherType_in _ g 3 et 0 n 0 n p _ (by omega) h
  exact packetIn_setLink (packetIn_empty 0 n) (by simp [LinkIn, WIn])

theorem slicedFromIp_in (g : Mem) (n : Nat) (p : Packet) (h : slicedFromIp g n = .ok p) : PacketIn p 0 n := by
  unfold slicedFromIp at h
  exact sliceIp_in Cur.new g 0 n 0 n p (packetIn_empty 0 n) (by omega) h

/-! ### lax cursor -/

theorem laxSliceTransport_in (c : Cur) (g : Mem) (pl : IpPl) (O L : Nat) (hc : PacketIn c.r O L)
    (hw : WIn pl.w O L) : PacketIn (c.laxSliceTransport g pl) O L := by
  unfold WIn at hw
  unfold Cur.laxSliceTransport
  split
  · exact hc
  · simp only
    split
    · split
      · rename_i w hw'
        have := icmp4_in g _ _ w hw'
        exact packetIn_setTp hc (by rw [this.1]; simp [TpIn, WIn]; omega)
      · exact hc
    · split
      · split
        · rename_i w hw'
          have := udpLax_in g _ _ w hw'
          exact packetIn_setTp hc ⟨this.1.mono hw.1 (by omega), this.2⟩
        · exact hc
      · split
        · split
          · rename_i hl hw'
            have := tcp_ok g _ _ hl hw'
            exact packetIn_setTp hc (by simp [TpIn, WIn]; omega)
          · exact hc
          · exact hc
        · split
          · split
            · rename_i w hw'
              have := icmp6_in _ _ w hw'
              exact packetIn_setTp hc (by rw [this.1]; simp [TpIn, WIn]; omega)
            · exact hc
          · exact hc

theorem laxSliceIp_in (c : Cur) (g : Mem) (o l O L : Nat) (hc : PacketIn c.r O L)
    (hw : O ≤ o ∧ o + l ≤ O + L) : PacketIn (c.laxSliceIp g o l) O L := by
  unfold Cur.laxSliceIp
  split
  · exact hc
  · exact hc
  · rename_i ip stop hip
    have hin := (laxIpSlice_in g o l ip stop hip).mono hw.1 hw.2
    have hnet : PacketIn (c.r.setNet (.ip ip)) O L := packetIn_setNet hc hin
    apply laxSliceTransport_in _ g ip.pl O L _ hin.2.2.2.2
    simp only
    split
    · exact hnet
    · exact hnet
    · exact hnet

theorem laxSliceArp_in (c : Cur) (g : Mem) (o l O L : Nat) (hc : PacketIn c.r O L)
    (hw : O ≤ o ∧ o + l ≤ O + L) : PacketIn (c.laxSliceArp g o l) O L := by
  unfold Cur.laxSliceArp
  split
  · exact hc
  · rename_i w hw'
    have := arp_in g o l w hw'
    exact packetIn_setNet hc ⟨this.1.mono hw.1 hw.2, this.2⟩

theorem laxSliceEtherType_in (c : Cur) (g : Mem) (n et o l O L : Nat) (hc : PacketIn c.r O L)
    (hw : O ≤ o ∧ o + l ≤ O + L) : PacketIn (c.laxSliceEtherType g n et o l) O L := by
  fun_induction Cur.laxSliceEtherType c g n et o l
  all_goals first
    | (exact hc; done)
    | (exact laxSliceArp_in _ g _ _ O L hc hw; done)
    | (exact laxSliceIp_in _ g _ _ O L hc hw; done)
    | skip
  case case3 c et o l het n w hv ih =>
    have := vlan_in o l w hv
    exact ih (packetIn_pushExt hc (by rw [this.1]; simp [ExtIn, WIn]; omega)) (by omega)
  case case7 c o l n hdr pl src inc hm r' et' hn hne ih =>
    have hin := laxMacsec_in g o l _ hm
    have hin' : ExtIn (.macsec hdr pl src inc) O L :=
      ⟨hin.1.mono hw.1 hw.2, hin.2.1.mono hw.1 hw.2, hin.2.2⟩
    exact ih (packetIn_pushExt hc hin') (by have := hin'.2.1; unfold WIn at this; omega)
  case case8 c o l n hdr pl src inc hm r' hn hne =>
    have hin := laxMacsec_in g o l _ hm
    have hin' : ExtIn (.macsec hdr pl src inc) O L :=
      ⟨hin.1.mono hw.1 hw.2, hin.2.1.mono hw.1 hw.2, hin.2.2⟩
    exact packetIn_pushExt hc hin'

/-! ### lax entry points -/

theorem laxSlicedFromEthernet_in (g : Mem) (n : Nat) (p : Packet) (h : laxSlicedFromEthernet g n = .ok p) :
    PacketIn p 0 n := by
  unfold laxSlicedFromEthernet at h
  split at h
  · contradiction
  · rename_i w hw
    have hb : w = ⟨0, n⟩ ∧ 14 ≤ n := by
      unfold eth2FromSlice at hw
      split at hw
      · contradiction
      · cases hw; simp; omega
    cases h
    apply laxSliceEtherType_in _ g 3 _ 14 (n - 14) 0 n _ (by omega)
    exact packetIn_setLink (packetIn_empty 0 n) (by rw [hb.1]; simp [LinkIn, WIn]; omega)

theorem laxSlicedFromEtherType_in (g : Mem) (et n : Nat) : PacketIn (laxSlicedFromEtherType g et n) 0 n := by
  unfold laxSlicedFromEtherType
  apply laxSliceEtherType_in _ g 3 et 0 n 0 n _ (by omega)
  exact packetIn_setLink (packetIn_empty 0 n) (by simp [LinkIn, WIn])

theorem laxSlicedFromIp_in (g : Mem) (n : Nat) (p : Packet) (h : laxSlicedFromIp g n = .ok p) :
    PacketIn p 0 n := by
  unfold laxSlicedFromIp at h
  split at h
  · contradiction
  · rename_i ip stop hip
    have hin := laxIpSlice_in g 0 n ip stop hip
    have hnet : PacketIn (Packet.empty.setNet (.ip ip)) 0 n := packetIn_setNet (packetIn_empty 0 n) hin
    cases h
    apply laxSliceTransport_in _ g ip.pl 0 n _ hin.2.2.2.2
    simp only
    split
    · exact hnet
    · exact hnet

end EpModel.Lemmas.Dec
