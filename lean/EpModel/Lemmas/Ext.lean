/- Helper lemmas for property C12 (extension header chain walkers). -/
import EpModel.Model.Ipv6Exts
import EpModel.Model.Ipv4Exts
import EpModel.Spec.Rfc8200Order
open EpModel
namespace EpModel.Ext

/-- flags only name headers that are present (holds initially, preserved by both loops). -/
def Flags.Sub (fl : Flags) (e : Exts) : Prop :=
  (fl.hopByHopOptions = true → e.hopByHopOptions.isSome) ∧
  (fl.destinationOptions = true → e.destinationOptions.isSome) ∧
  (fl.routing = true → e.routing.isSome) ∧
  (fl.fragment = true → e.fragment.isSome) ∧
  (fl.auth = true → e.auth.isSome) ∧
  (fl.finalDestinationOptions = true → e.finalDest.isSome)

theorem Flags.ofExts_sub (e : Exts) : (Flags.ofExts e).Sub e := by
  unfold Flags.Sub Flags.ofExts Exts.finalDest
  cases e.routing <;> simp

theorem nextHeaderLoop_no_panic (e : Exts) (fl : Flags) (rr : Bool) (next : Nat) (h : fl.Sub e) :
    nextHeaderLoop e fl rr next ≠ .error .panic := by
  fun_induction nextHeaderLoop e fl rr next <;> simp_all [Flags.Sub, Exts.finalDest]

theorem Raw.toBytes_length (r : Raw) (h : r.WF) : r.toBytes.length = r.headerLen := by
  obtain ⟨_, h1, h2, h3⟩ := h
  simp [Raw.toBytes, Raw.headerLen, Raw.headerLength]; omega

theorem Frag.toBytes_length (f : Frag) : f.toBytes.length = f.headerLen := by
  simp [Frag.toBytes, Frag.headerLen]

theorem Auth.toBytes_length (a : Auth) (h : a.WF) : a.toBytes.length = a.headerLen := by
  obtain ⟨_, _, _, h1, h2⟩ := h
  simp [Auth.toBytes, Auth.headerLen, Auth.rawIcvLen]; omega

def olen {α : Type} (f : α → Nat) (b : Bool) (o : Option α) : Nat :=
  if b then (match o with | some a => f a | none => 0) else 0

/-- bytes still to be written according to the flags. -/
def pending (e : Exts) (fl : Flags) : Nat :=
  olen Raw.headerLen fl.hopByHopOptions e.hopByHopOptions +
  olen Raw.headerLen fl.destinationOptions e.destinationOptions +
  olen (fun r => r.routing.headerLen) fl.routing e.routing +
  olen Raw.headerLen fl.finalDestinationOptions e.finalDest +
  olen Frag.headerLen fl.fragment e.fragment +
  olen Auth.headerLen fl.auth e.auth

theorem writeLoop_len (e : Exts) (hwf : e.WF) (fl : Flags) (rw : Bool) (out : Bytes) (next : Nat)
    (out' : Bytes) (fl' : Flags) (n : Nat)
    (h : writeLoop e fl rw out next = (out', .ok (fl', n))) :
    out'.length + pending e fl' = out.length + pending e fl := by
  fun_induction writeLoop e fl rw out next <;>
    simp_all [pending, olen, Exts.finalDest, Exts.WF, optWF, Raw.toBytes_length, Frag.toBytes_length, Auth.toBytes_length] <;> omega

theorem writeLoop_snd (e : Exts) (fl : Flags) (rw : Bool) (out : Bytes) (next : Nat) :
    (writeLoop e fl rw out next).2 = nextHeaderLoop e fl rw next := by
  fun_induction writeLoop e fl rw out next <;> simp_all [nextHeaderLoop]

theorem finish_eq (w : Bytes × Except (Fault WalkErr) (Flags × Nat)) :
    (finishWrite w).2 = (finishWalk w.2).map (fun _ => ()) := by
  obtain ⟨o, r⟩ := w
  cases r with
  | error f => simp [finishWrite, finishWalk, Except.map]
  | ok p => simp [finishWrite, finishWalk, Except.map]; cases p.1.check <;> simp

/-- `write` and `next_header` return the same verdict (same error value) for every struct. -/
theorem write_snd_eq (e : Exts) (first : Nat) :
    (e.write first).2 = (e.nextHeader first).map (fun _ => ()) := by
  unfold Exts.write Exts.nextHeader
  split
  · cases e.hopByHopOptions <;> simp only [finish_eq, writeLoop_snd]
  · simp only [finish_eq, writeLoop_snd]

theorem write_isOk_eq (e : Exts) (first : Nat) :
    (e.write first).2.isOk = (e.nextHeader first).isOk := by
  rw [write_snd_eq]; cases e.nextHeader first <;> rfl

theorem Flags.check_ne_panic (fl : Flags) : fl.check ≠ .error .panic := by
  unfold Flags.check
  repeat' split
  all_goals simp

theorem finishWalk_ne_panic (r : Except (Fault WalkErr) (Flags × Nat)) (h : r ≠ .error .panic) :
    finishWalk r ≠ .error .panic := by
  cases r with
  | error f => simpa [finishWalk] using h
  | ok p =>
    have := Flags.check_ne_panic p.1
    simp only [finishWalk]
    cases hc : p.1.check <;> simp_all

theorem nextHeader_no_panic (e : Exts) (first : Nat) : e.nextHeader first ≠ .error .panic := by
  unfold Exts.nextHeader
  have hs := Flags.ofExts_sub e
  split
  · cases hh : e.hopByHopOptions
    · exact finishWalk_ne_panic _ (nextHeaderLoop_no_panic _ _ _ _ hs)
    · apply finishWalk_ne_panic _ (nextHeaderLoop_no_panic _ _ _ _ _)
      simp_all [Flags.Sub]
  · exact finishWalk_ne_panic _ (nextHeaderLoop_no_panic _ _ _ _ hs)


theorem Flags.check_ok (fl : Flags) (h : fl.check = .ok ()) :
    fl.hopByHopOptions = false ∧ fl.destinationOptions = false ∧ fl.routing = false ∧
    fl.fragment = false ∧ fl.auth = false ∧ fl.finalDestinationOptions = false := by
  unfold Flags.check at h
  repeat' split at h
  all_goals simp_all

theorem pending_ofExts (e : Exts) : pending e (Flags.ofExts e) = e.headerLen := by
  unfold pending Flags.ofExts Exts.headerLen Exts.finalDest olen
  rcases e with ⟨_ | a, _ | b, _ | ⟨c, _ | d⟩, _ | f, _ | g⟩ <;> simp <;> omega

theorem finishWrite_ok (w : Bytes × Except (Fault WalkErr) (Flags × Nat)) (out : Bytes)
    (h : finishWrite w = (out, .ok ())) : ∃ fl n, w = (out, .ok (fl, n)) ∧ fl.check = .ok () := by
  obtain ⟨o, r⟩ := w
  cases r with
  | error f => simp [finishWrite] at h
  | ok p => obtain ⟨fl, n⟩ := p; simp [finishWrite] at h; exact ⟨fl, n, by simp [h.1], h.2⟩

theorem write_len_core (e : Exts) (hwf : e.WF) (fl0 : Flags) (out0 : Bytes) (next : Nat) (out : Bytes)
    (h : finishWrite (writeLoop e fl0 false out0 next) = (out, .ok ())) :
    out.length = out0.length + pending e fl0 := by
  obtain ⟨fl, n, hw, hc⟩ := finishWrite_ok _ _ h
  have := writeLoop_len e hwf _ _ _ _ _ _ _ hw
  have hz := Flags.check_ok fl hc
  simp [pending, olen, hz] at this
  exact this

theorem write_len' (e : Exts) (hwf : e.WF) (first : Nat) (out : Bytes)
    (h : e.write first = (out, .ok ())) : out.length = e.headerLen := by
  unfold Exts.write at h
  have hp := pending_ofExts e
  split at h
  · cases hh : e.hopByHopOptions with
    | none =>
      simp only [hh] at h
      rw [write_len_core e hwf _ _ _ _ h, ← hp]; simp
    | some hd =>
      simp only [hh] at h
      rw [write_len_core e hwf _ _ _ _ h, ← hp]
      have : hd.WF := by simp [Exts.WF, hh, optWF] at hwf; exact hwf.1
      simp [pending, olen, Flags.ofExts, hh, Raw.toBytes_length hd this]; omega
  · rw [write_len_core e hwf _ _ _ _ h, ← hp]; simp


open Spec.Ext

theorem nextHeaderLoop_done (e : Exts) (fl : Flags) (rr : Bool) (n : Nat)
    (h : fl = ⟨false, false, false, false, false, false⟩) :
    nextHeaderLoop e fl rr n = .ok (fl, n) := by
  subst h
  unfold nextHeaderLoop
  split <;> simp

theorem writeLoop_done (e : Exts) (fl : Flags) (rr : Bool) (out : Bytes) (n : Nat)
    (h : fl = ⟨false, false, false, false, false, false⟩) :
    writeLoop e fl rr out n = (out, .ok (fl, n)) := by
  subst h
  unfold writeLoop
  split <;> simp

/-- the header of kind `k` stored in the struct, as a Spec header. -/
def Exts.hdr (e : Exts) : Kind → Option Hdr
  | .hopByHop => e.hopByHopOptions.map fun h => ⟨.hopByHop, h.nextHeader, h.toBytes⟩
  | .destOpts => e.destinationOptions.map fun h => ⟨.destOpts, h.nextHeader, h.toBytes⟩
  | .routing => e.routing.map fun r => ⟨.routing, r.routing.nextHeader, r.routing.toBytes⟩
  | .fragment => e.fragment.map fun h => ⟨.fragment, h.nextHeader, h.toBytes⟩
  | .auth => e.auth.map fun h => ⟨.auth, h.nextHeader, h.toBytes⟩
  | .esp => none
  | .finalDestOpts => e.finalDest.map fun h => ⟨.finalDestOpts, h.nextHeader, h.toBytes⟩

/-- the present headers listed in the RFC 8200 order. -/
def Exts.rfcChain (e : Exts) : List Hdr := rfc8200Order.filterMap e.hdr

theorem Exts.hdr_kind (e : Exts) (k : Kind) (h : Hdr) (hh : e.hdr k = some h) : h.kind = k := by
  cases k <;> simp [Exts.hdr] at hh <;> obtain ⟨_, _, rfl⟩ := hh <;> rfl

theorem filterMap_map_sublist {α β : Type} (f : α → Option β) (g : β → α)
    (hfg : ∀ a b, f a = some b → g b = a) (l : List α) : ((l.filterMap f).map g).Sublist l := by
  induction l with
  | nil => simp
  | cons a l ih =>
    simp only [List.filterMap_cons]
    split
    · exact ih.cons _
    · rename_i b hb
      simp only [List.map_cons, hfg a b hb]
      exact ih.cons_cons _

theorem rfcChain_inOrder (e : Exts) : InRfcOrder e.rfcChain :=
  filterMap_map_sublist e.hdr (·.kind) (fun k h hh => e.hdr_kind k h hh) rfc8200Order

theorem link_write_order (e e' : Exts) (n first' : Nat) (h : e.setNextHeaders n = (e', first')) :
    e'.write first' = (serialise e'.rfcChain, .ok ()) ∧ Walk first' e'.rfcChain n := by
  rcases e with ⟨_ | a, _ | b, _ | ⟨c, _ | d⟩, _ | f, _ | g⟩ <;>
    simp [Exts.setNextHeaders] at h <;> obtain ⟨rfl, rfl⟩ := h <;>
    simp [Exts.write, Flags.ofExts, writeLoop, writeLoop_done, finishWrite, Flags.check,
      serialise, Exts.rfcChain, rfc8200Order, Exts.hdr, Exts.finalDest, Walk, Kind.ipNumber, List.filterMap_cons]


theorem link_walk_all (e e' : Exts) (n first' : Nat) (h : e.setNextHeaders n = (e', first')) :
    e'.nextHeader first' = .ok n := by
  rcases e with ⟨_ | a, _ | b, _ | ⟨c, _ | d⟩, _ | f, _ | g⟩ <;>
    simp [Exts.setNextHeaders] at h <;> obtain ⟨rfl, rfl⟩ := h <;>
    simp [Exts.nextHeader, Flags.ofExts, nextHeaderLoop, nextHeaderLoop_done, finishWalk, Flags.check]


end EpModel.Ext
