/- Helper lemmas for property C12 (extension header chain walkers). -/
import EpModel.Model.Ipv6Exts
import EpModel.Model.Ipv4Exts
import EpModel.Spec.Rfc8200Order
open EpModel
namespace EpModel.Ext

/-- flags only name headers that are present (holds initially, preserved by both loops). -/
def Flags.Sub (fl : Flags) (e : Exts) : Prop :=
  (fl.hopByHopOptions = true → e.hopByHopOptions.isSome) ∧
  (fl.destinationOptions = true → e.destinationOptions.isSome) ∧
  (fl.routing = true → e.routing.isSome) ∧
  (fl.fragment = true → e.fragment.isSome) ∧
  (fl.auth = true → e.auth.isSome) ∧
  (fl.finalDestinationOptions = true → e.finalDest.isSome)

theorem Flags.ofExts_sub (e : Exts) : (Flags.ofExts e).Sub e := by
  unfold Flags.Sub Flags.ofExts Exts.finalDest
  cases e.routing <;> simp

theorem nextHeaderLoop_no_panic (e : Exts) (fl : Flags) (rr : Bool) (next : Nat) (h : fl.Sub e) :
    nextHeaderLoop e fl rr next ≠ .error .panic := by
  fun_induction nextHeaderLoop e fl rr next <;> simp_all [Flags.Sub, Exts.finalDest]

theorem Raw.toBytes_length (r : Raw) (h : r.WF) : r.toBytes.length = r.headerLen := by
  obtain ⟨_, h1, h2, h3⟩ := h
  simp [Raw.toBytes, Raw.headerLen, Raw.headerLength]; omega

theorem Frag.toBytes_length (f : Frag) : f.toBytes.length = f.headerLen := by
  simp [Frag.toBytes, Frag.headerLen]

theorem Auth.toBytes_length (a : Auth) (h : a.WF) : a.toBytes.length = a.headerLen := by
  obtain ⟨_, _, _, h1, h2⟩ := h
  simp [Auth.toBytes, Auth.headerLen, Auth.rawIcvLen]; omega

def olen {α : Type} (f : α → Nat) (b : Bool) (o : Option α) : Nat :=
  if b then (match o with | some a => f a | none => 0) else 0

/-- bytes still to be written according to the flags. -/
def pending (e : Exts) (fl : Flags) : Nat :=
  olen Raw.headerLen fl.hopByHopOptions e.hopByHopOptions +
  olen Raw.headerLen fl.destinationOptions e.destinationOptions +
  olen (fun r => r.routing.headerLen) fl.routing e.routing +
  olen Raw.headerLen fl.finalDestinationOptions e.finalDest +
  olen Frag.headerLen fl.fragment e.fragment +
  olen Auth.headerLen fl.auth e.auth

theorem writeLoop_len (e : Exts) (hwf : e.WF) (fl : Flags) (rw : Bool) (out : Bytes) (next : Nat)
    (out' : Bytes) (fl' : Flags) (n : Nat)
    (h : writeLoop e fl rw out next = (out', .ok (fl', n))) :
    out'.length + pending e fl' = out.length + pending e fl := by
  fun_induction writeLoop e fl rw out next <;>
    simp_all [pending, olen, Exts.finalDest, Exts.WF, optWF, Raw.toBytes_length, Frag.toBytes_length, Auth.toBytes_length] <;> omega

theorem writeLoop_snd (e : Exts) (fl : Flags) (rw : Bool) (out : Bytes) (next : Nat) :
    (writeLoop e fl rw out next).2 = nextHeaderLoop e fl rw next := by
  fun_induction writeLoop e fl rw out next <;> simp_all [nextHeaderLoop]

theorem finish_eq (w : Bytes × Except (Fault WalkErr) (Flags × Nat)) :
    (finishWrite w).2 = (finishWalk w.2).map (fun _ => ()) := by
  obtain ⟨o, r⟩ := w
  cases r with
  | error f => simp [finishWrite, finishWalk, Except.map]
  | ok p => simp [finishWrite, finishWalk, Except.map]; cases p.1.check <;> simp

/-- `write` and `next_header` return the same verdict (same error value) for every struct. -/
theorem write_snd_eq (e : Exts) (first : Nat) :
    (e.write first).2 = (e.nextHeader first).map (fun _ => ()) := by
  unfold Exts.write Exts.nextHeader
  split
  · cases e.hopByHopOptions <;> simp only [finish_eq, writeLoop_snd]
  · simp only [finish_eq, writeLoop_snd]

theorem write_isOk_eq (e : Exts) (first : Nat) :
    (e.write first).2.isOk = (e.nextHeader first).isOk := by
  rw [write_snd_eq]; cases e.nextHeader first <;> rfl

theorem Flags.check_ne_panic (fl : Flags) : fl.check ≠ .error .panic := by
  unfold Flags.check
  repeat' split
  all_goals simp

theorem finishWalk_ne_panic (r : Except (Fault WalkErr) (Flags × Nat)) (h : r ≠ .error .panic) :
    finishWalk r ≠ .error .panic := by
  cases r with
  | error f => simpa [finishWalk] using h
  | ok p =>
    have := Flags.check_ne_panic p.1
    simp only [finishWalk]
    cases hc : p.1.check <;> simp_all

theorem nextHeader_no_panic (e : Exts) (first : Nat) : e.nextHeader first ≠ .error .panic := by
  unfold Exts.nextHeader
  have hs := Flags.ofExts_sub e
  split
  · cases hh : e.hopByHopOptions
    · exact finishWalk_ne_panic _ (nextHeaderLoop_no_panic _ _ _ _ hs)
    · apply finishWalk_ne_panic _ (nextHeaderLoop_no_panic _ _ _ _ _)
      simp_all [Flags.Sub]
  · exact finishWalk_ne_panic _ (nextHeaderLoop_no_panic _ _ _ _ hs)


theorem Flags.check_ok (fl : Flags) (h : fl.check = .ok ()) :
    fl.hopByHopOptions = false ∧ fl.destinationOptions = false ∧ fl.routing = false ∧
    fl.fragment = false ∧ fl.auth = false ∧ fl.finalDestinationOptions = false := by
  unfold Flags.check at h
  repeat' split at h
  all_goals simp_all

theorem pending_ofExts (e : Exts) : pending e (Flags.ofExts e) = e.headerLen := by
  unfold pending Flags.ofExts Exts.headerLen Exts.finalDest olen
  rcases e with ⟨_ | a, _ | b, _ | ⟨c, _ | d⟩, _ | f, _ | g⟩ <;> simp <;> omega

theorem finishWrite_ok (w : Bytes × Except (Fault WalkErr) (Flags × Nat)) (out : Bytes)
    (h : finishWrite w = (out, .ok ())) : ∃ fl n, w = (out, .ok (fl, n)) ∧ fl.check = .ok () := by
  obtain ⟨o, r⟩ := w
  cases r with
  | error f => simp [finishWrite] at h
  | ok p => obtain ⟨fl, n⟩ := p; simp [finishWrite] at h; exact ⟨fl, n, by simp [h.1], h.2⟩

theorem write_len_core (e : Exts) (hwf : e.WF) (fl0 : Flags) (out0 : Bytes) (next : Nat) (out : Bytes)
    (h : finishWrite (writeLoop e fl0 false out0 next) = (out, .ok ())) :
    out.length = out0.length + pending e fl0 := by
  obtain ⟨fl, n, hw, hc⟩ := finishWrite_ok _ _ h
  have := writeLoop_len e hwf _ _ _ _ _ _ _ hw
  have hz := Flags.check_ok fl hc
  simp [pending, olen, hz] at this
  exact this

theorem write_len' (e : Exts) (hwf : e.WF) (first : Nat) (out : Bytes)
    (h : e.write first = (out, .ok ())) : out.length = e.headerLen := by
  unfold Exts.write at h
  have hp := pending_ofExts e
  split at h
  · cases hh : e.hopByHopOptions with
    | none =>
      simp only [hh] at h
      rw [write_len_core e hwf _ _ _ _ h, ← hp]; simp
    | some hd =>
      simp only [hh] at h
      rw [write_len_core e hwf _ _ _ _ h, ← hp]
      have : hd.WF := by simp [Exts.WF, hh, optWF] at hwf; exact hwf.1
      simp [pending, olen, Flags.ofExts, hh, Raw.toBytes_length hd this]; omega
  · rw [write_len_core e hwf _ _ _ _ h, ← hp]; simp


open Spec.Ext

theorem nextHeaderLoop_done (e : Exts) (fl : Flags) (rr : Bool) (n : Nat)
    (h : fl = ⟨false, false, false, false, false, false⟩) :
    nextHeaderLoop e fl rr n = .ok (fl, n) := by
  subst h
  unfold nextHeaderLoop
  split <;> simp

theorem writeLoop_done (e : Exts) (fl : Flags) (rr : Bool) (out : Bytes) (n : Nat)
    (h : fl = ⟨false, false, false, false, false, false⟩) :
    writeLoop e fl rr out n = (out, .ok (fl, n)) := by
  subst h
  unfold writeLoop
  split <;> simp

/-- the header of kind `k` stored in the struct, as a Spec header. -/
def Exts.hdr (e : Exts) : Kind → Option Hdr
  | .hopByHop => e.hopByHopOptions.map fun h => ⟨.hopByHop, h.nextHeader, h.toBytes⟩
  | .destOpts => e.destinationOptions.map fun h => ⟨.destOpts, h.nextHeader, h.toBytes⟩
  | .routing => e.routing.map fun r => ⟨.routing, r.routing.nextHeader, r.routing.toBytes⟩
  | .fragment => e.fragment.map fun h => ⟨.fragment, h.nextHeader, h.toBytes⟩
  | .auth => e.auth.map fun h => ⟨.auth, h.nextHeader, h.toBytes⟩
  | .esp => none
  | .finalDestOpts => e.finalDest.map fun h => ⟨.finalDestOpts, h.nextHeader, h.toBytes⟩

/-- the present headers listed in the RFC 8200 order. -/
def Exts.rfcChain (e : Exts) : List Hdr := rfc8200Order.filterMap e.hdr

theorem Exts.hdr_kind (e : Exts) (k : Kind) (h : Hdr) (hh : e.hdr k = some h) : h.kind = k := by
  cases k <;> simp [Exts.hdr] at hh <;> obtain ⟨_, _, rfl⟩ := hh <;> rfl

theorem filterMap_map_sublist {α β : Type} (f : α → Option β) (g : β → α)
    (hfg : ∀ a b, f a = some b → g b = a) (l : List α) : ((l.filterMap f).map g).Sublist l := by
  induction l with
  | nil => simp
  | cons a l ih =>
    simp only [List.filterMap_cons]
    split
    · exact ih.cons _
    · rename_i b hb
      simp only [List.map_cons, hfg a b hb]
      exact ih.cons_cons _

theorem rfcChain_inOrder (e : Exts) : InRfcOrder e.rfcChain :=
  filterMap_map_sublist e.hdr (·.kind) (fun k h hh => e.hdr_kind k h hh) rfc8200Order

theorem link_write_order (e e' : Exts) (n first' : Nat) (h : e.setNextHeaders n = (e', first')) :
    e'.write first' = (serialise e'.rfcChain, .ok ()) ∧ Walk first' e'.rfcChain n := by
  rcases e with ⟨_ | a, _ | b, _ | ⟨c, _ | d⟩, _ | f, _ | g⟩ <;>
    simp [Exts.setNextHeaders] at h <;> obtain ⟨rfl, rfl⟩ := h <;>
    simp [Exts.write, Flags.ofExts, writeLoop, writeLoop_done, finishWrite, Flags.check,
      serialise, Exts.rfcChain, rfc8200Order, Exts.hdr, Exts.finalDest, Walk, Kind.ipNumber, List.filterMap_cons]


theorem link_walk_all (e e' : Exts) (n first' : Nat) (h : e.setNextHeaders n = (e', first')) :
    e'.nextHeader first' = .ok n := by
  rcases e with ⟨_ | a, _ | b, _ | ⟨c, _ | d⟩, _ | f, _ | g⟩ <;>
    simp [Exts.setNextHeaders] at h <;> obtain ⟨rfl, rfl⟩ := h <;>
    simp [Exts.nextHeader, Flags.ofExts, nextHeaderLoop, nextHeaderLoop_done, finishWalk, Flags.check]


/-! ### single header round trips -/

theorem raw_roundtrip (r : Raw) (h : r.WF) (rest : Bytes) :
    rawSliceLen (r.toBytes ++ rest) = .ok r.headerLen ∧
    rawToHeader (r.toBytes ++ rest) r.headerLen = .ok r ∧
    (r.toBytes ++ rest).drop r.headerLen = rest := by
  obtain ⟨h0, h1, h2, h3⟩ := h
  have hl : r.headerLength = (r.payload.length - 6) / 8 := by unfold Raw.headerLength; omega
  have hlen : r.headerLen = 2 + r.payload.length := by unfold Raw.headerLen; omega
  refine ⟨?_, ?_, ?_⟩
  · unfold rawSliceLen
    simp only [Raw.toBytes, List.cons_append, List.nil_append, List.length_cons, List.length_append]
    rw [if_neg (by omega)]
    have : bAt (u8 r.nextHeader :: u8 r.headerLength :: (r.payload ++ rest)) 1 = r.headerLength := by
      simp [bAt]; omega
    simp only [this]
    rw [if_neg (by omega)]
    congr 1; omega
  · unfold rawToHeader Raw.newRaw
    have hb : bAt (r.toBytes ++ rest) 0 = r.nextHeader := by simp [Raw.toBytes, bAt]; omega
    have hs : sub (r.toBytes ++ rest) 2 (r.headerLen - 2) = r.payload := by
      simp [Raw.toBytes, sub, hlen]
    rw [hb, hs]
    rw [if_neg (by omega), if_neg (by omega), if_neg (by omega)]
  · have : r.headerLen = r.payload.length + 1 + 1 := by omega
    simp only [Raw.toBytes, List.cons_append, List.nil_append, this, List.drop_succ_cons]
    simp


theorem frag_roundtrip (f : Frag) (h : f.WF) (rest : Bytes) :
    fragFromSlice (f.toBytes ++ rest) = .ok f ∧ (f.toBytes ++ rest).drop 8 = rest := by
  obtain ⟨h0, h1, h2⟩ := h
  refine ⟨?_, ?_⟩
  · unfold fragFromSlice
    rw [if_neg (by simp [Frag.toBytes]; omega)]
    rcases f with ⟨nh, off, more, ident⟩
    simp only at h0 h1 h2
    simp only [Frag.toBytes, enc16, enc32, List.cons_append, List.nil_append, be16, be32, bAt,
      List.getD_cons_zero, List.getD_cons_succ, u8_toNat]
    simp only [Except.ok.injEq, Frag.mk.injEq]
    have hm : (if more = true then 1 else 0) ≤ 1 := by split <;> omega
    generalize hv : (if more = true then 1 else 0) = m at *
    refine ⟨?_, ?_, ?_, ?_⟩
    · omega
    · omega
    · cases more
      · simp at hv; subst hv
        have : (off * 8 % 65536 + 0) % 256 % 2 = 0 := by omega
        rw [this]; rfl
      · simp at hv; subst hv
        have : (off * 8 % 65536 + 1) % 256 % 2 = 1 := by omega
        rw [this]; rfl
    · omega
  · simp [Frag.toBytes, enc16, enc32]

theorem auth_roundtrip {ε : Type} (a : Auth) (h : a.WF) (rest : Bytes) :
    authSliceLen (a.toBytes ++ rest) = .ok a.headerLen ∧
    authToHeader (ε := ε) (a.toBytes ++ rest) a.headerLen = .ok a ∧
    (a.toBytes ++ rest).drop a.headerLen = rest ∧ bAt (a.toBytes ++ rest) 0 = a.nextHeader := by
  obtain ⟨h0, h1, h2, h3, h4⟩ := h
  have hl : a.rawIcvLen = a.rawIcv.length / 4 := by unfold Auth.rawIcvLen; omega
  have hlen : a.headerLen = 12 + a.rawIcv.length := by unfold Auth.headerLen; omega
  refine ⟨?_, ?_, ?_, ?_⟩
  · unfold authSliceLen
    simp only [Auth.toBytes, enc32, List.cons_append, List.nil_append, List.length_cons, List.length_append]
    rw [if_neg (by omega)]
    simp only [bAt, List.getD_cons_zero, List.getD_cons_succ, u8_toNat]
    rw [if_neg (by omega), if_neg (by omega)]
    congr 1; omega
  · unfold authToHeader Auth.new
    have hs : sub (a.toBytes ++ rest) 12 (a.headerLen - 12) = a.rawIcv := by
      simp [Auth.toBytes, enc32, sub, hlen]
    have hb : bAt (a.toBytes ++ rest) 0 = a.nextHeader := by simp [Auth.toBytes, bAt]; omega
    have h4' : be32 (a.toBytes ++ rest) 4 = a.spi := by
      simp only [Auth.toBytes, enc32, List.cons_append, List.nil_append, be32, bAt,
        List.getD_cons_zero, List.getD_cons_succ, u8_toNat]
      omega
    have h8 : be32 (a.toBytes ++ rest) 8 = a.sequenceNumber := by
      simp only [Auth.toBytes, enc32, List.cons_append, List.nil_append, be32, bAt,
        List.getD_cons_zero, List.getD_cons_succ, u8_toNat]
      omega
    rw [hs, hb, h4', h8, if_neg (by omega), if_neg (by omega)]
  · have : a.headerLen = a.rawIcv.length + 1 + 1 + 1 + 1 + 1 + 1 + 1 + 1 + 1 + 1 + 1 + 1 := by omega
    simp only [Auth.toBytes, enc32, List.cons_append, List.nil_append, this, List.drop_succ_cons]
    simp
  · simp [Auth.toBytes, bAt]; omega


/-! ### write → from_slice -/

/-- the part of `e` already handled according to the flags (cleared flag = written / decoded). -/
def Exts.restrict (e : Exts) (fl : Flags) : Exts :=
  { hopByHopOptions := if fl.hopByHopOptions then none else e.hopByHopOptions
    destinationOptions := if fl.destinationOptions then none else e.destinationOptions
    routing := if fl.routing then none else
      e.routing.map fun r => { r with finalDestinationOptions := if fl.finalDestinationOptions then none else r.finalDestinationOptions }
    fragment := if fl.fragment then none else e.fragment
    auth := if fl.auth then none else e.auth }

theorem fromSliceLoop_stop (slice : Bytes) (r : Exts) (rest : Bytes) (n : Nat) (h : isWalked n = false) :
    fromSliceLoop slice r rest n = .ok (r, n, rest) := by
  unfold fromSliceLoop
  split <;> simp_all [isWalked]

theorem loop_decode (e : Exts) (hwf : e.WF) (slice : Bytes) (fl : Flags) (rw : Bool) (out : Bytes) (next : Nat)
    (out' : Bytes) (fl' : Flags) (last : Nat)
    (hw : writeLoop e fl rw out next = (out', .ok (fl', last)))
    (hlast : isWalked last = false)
    (hsub : fl.Sub e)
    (hrw : rw = (!fl.routing && e.routing.isSome))
    (hI : fl.routing = true → fl.finalDestinationOptions = e.finalDest.isSome) :
    ∃ suffix, out' = out ++ suffix ∧
      ∀ tail, fromSliceLoop slice (e.restrict fl) (suffix ++ tail) next = .ok (e.restrict fl', last, tail) := by
  fun_induction writeLoop e fl rw out next
  all_goals try (simp at hw; done)
  all_goals try (simp at hw; obtain ⟨_, _, rfl⟩ := hw; simp [isWalked] at hlast; done)
  case case19 fl rw out n h0 h60 h43 h44 h51 =>
    simp at hw; obtain ⟨rfl, rfl, rfl⟩ := hw
    exact ⟨[], by simp, fun tail => by simpa using fromSliceLoop_stop slice _ tail _ hlast⟩
  case case14 fl rw out hfl header hx ih =>
    have hsub2 : Flags.Sub { fl with fragment := false } e := by simp_all [Flags.Sub]
    obtain ⟨suffix, rfl, hdec⟩ := ih hw hsub2 hrw hI
    refine ⟨header.toBytes ++ suffix, by simp, fun tail => ?_⟩
    have hwfh : header.WF := by simp [Exts.WF, hx, optWF] at hwf; exact hwf.2.2.2.1
    obtain ⟨hf, hd⟩ := frag_roundtrip header hwfh (suffix ++ tail)
    rw [fromSliceLoop]
    split
    · rename_i hfr; simp [Exts.restrict, hfl] at hfr
    · rw [List.append_assoc, hf]
      simp only [hd]
      rw [← hdec tail]
      congr 1
      simp [Exts.restrict, hx]
  case case17 fl rw out hfl header hx ih =>
    have hsub2 : Flags.Sub { fl with auth := false } e := by simp_all [Flags.Sub]
    obtain ⟨suffix, rfl, hdec⟩ := ih hw hsub2 hrw hI
    refine ⟨header.toBytes ++ suffix, by simp, fun tail => ?_⟩
    have hwfh : header.WF := by simp [Exts.WF, hx, optWF] at hwf; exact hwf.2.2.2.2
    obtain ⟨hl, hh, hd, _⟩ := auth_roundtrip (ε := SliceErr) header hwfh (suffix ++ tail)
    rw [fromSliceLoop]
    split
    · rename_i hfr; simp [Exts.restrict, hfl] at hfr
    · rw [List.append_assoc, hl]
      simp only [hh, hd]
      rw [← hdec tail]
      congr 1
      simp [Exts.restrict, hx]
  case case8 fl rw out hrwf hfl header hx ih =>
    have hsub2 : Flags.Sub { fl with destinationOptions := false } e := by simp_all [Flags.Sub]
    obtain ⟨suffix, rfl, hdec⟩ := ih hw hsub2 hrw hI
    refine ⟨header.toBytes ++ suffix, by simp, fun tail => ?_⟩
    have hwfh : header.WF := by simp [Exts.WF, hx, optWF] at hwf; exact hwf.2.1
    obtain ⟨hl, hh, hd⟩ := raw_roundtrip header hwfh (suffix ++ tail)
    rw [fromSliceLoop]
    split
    · rename_i ro hro
      exfalso
      simp [Exts.restrict] at hro
      obtain ⟨h1, a, h2, _⟩ := hro
      simp [h1, h2] at hrw
      exact hrwf hrw
    · split
      · rename_i hfr; simp [Exts.restrict, hfl] at hfr
      · rw [List.append_assoc, hl]
        simp only [hh, hd]
        rw [← hdec tail]
        congr 1
        simp [Exts.restrict, hx]
  case case11 fl rw out hfl r hx ih =>
    have hsub2 : Flags.Sub { fl with routing := false } e := by simp_all [Flags.Sub]
    obtain ⟨suffix, rfl, hdec⟩ := ih hw hsub2 (by simp [hx]) (by simp)
    refine ⟨r.routing.toBytes ++ suffix, by simp, fun tail => ?_⟩
    have hwfh : r.routing.WF := by simp [Exts.WF, hx, optWF] at hwf; exact hwf.2.2.1.1
    obtain ⟨hl, hh, hd⟩ := raw_roundtrip r.routing hwfh (suffix ++ tail)
    rw [fromSliceLoop]
    split
    · rename_i hfr; simp [Exts.restrict, hfl] at hfr
    · rw [List.append_assoc, hl]
      simp only [hh, hd]
      rw [← hdec tail]
      congr 1
      have := hI hfl
      simp [Exts.restrict, hx, hfl]
      intro hf
      rw [hf] at this
      simp [Exts.finalDest, hx] at this
      exact this.symm
  case case5 fl out hfl r hx header hxf ih =>
    have hsub2 : Flags.Sub { fl with finalDestinationOptions := false } e := by
      obtain ⟨a, b, c, d, f, _⟩ := hsub
      exact ⟨a, b, c, d, f, by simp⟩
    have hr : fl.routing = false := by simpa [hx] using hrw
    obtain ⟨suffix, rfl, hdec⟩ := ih hw hsub2 (by simp [hx, hr]) (by simp [hr])
    refine ⟨header.toBytes ++ suffix, by simp, fun tail => ?_⟩
    have hwfh : header.WF := by simp [Exts.WF, hx, hxf, optWF] at hwf; exact hwf.2.2.1.2
    obtain ⟨hl, hh, hd⟩ := raw_roundtrip header hwfh (suffix ++ tail)
    rw [fromSliceLoop]
    split
    · rename_i ro hro
      simp [Exts.restrict, hr, hx, hfl] at hro
      subst hro
      split
      · rename_i hfr; simp at hfr
      · rw [List.append_assoc, hl]
        simp only [hh, hd]
        rw [← hdec tail]
        congr 1
        simp [Exts.restrict, hx, hxf, hr]
    · rename_i hro
      simp [Exts.restrict, hr, hx] at hro


theorem restrict_ofExts (e : Exts) : e.restrict (Flags.ofExts e) = Exts.empty := by
  rcases e with ⟨_ | a, _ | b, _ | ⟨c, _ | d⟩, _ | f, _ | g⟩ <;> simp [Exts.restrict, Flags.ofExts, Exts.empty]

theorem restrict_ofExts_hop (e : Exts) :
    e.restrict { Flags.ofExts e with hopByHopOptions := false } = { Exts.empty with hopByHopOptions := e.hopByHopOptions } := by
  rcases e with ⟨_ | a, _ | b, _ | ⟨c, _ | d⟩, _ | f, _ | g⟩ <;> simp [Exts.restrict, Flags.ofExts, Exts.empty]

theorem restrict_none (e : Exts) (fl : Flags) (h : fl.check = .ok ()) : e.restrict fl = e := by
  obtain ⟨h1, h2, h3, h4, h5, h6⟩ := Flags.check_ok fl h
  rcases e with ⟨_ | a, _ | b, _ | ⟨c, _ | d⟩, _ | f, _ | g⟩ <;> simp [Exts.restrict, *]

theorem ofExts_pre (e : Exts) :
    (false = (!(Flags.ofExts e).routing && e.routing.isSome)) ∧
    ((Flags.ofExts e).routing = true → (Flags.ofExts e).finalDestinationOptions = e.finalDest.isSome) := by
  rcases e with ⟨_ | a, _ | b, _ | ⟨c, _ | d⟩, _ | f, _ | g⟩ <;> simp [Flags.ofExts, Exts.finalDest]

theorem finishWalk_ok (r : Except (Fault WalkErr) (Flags × Nat)) (fl : Flags) (n last : Nat)
    (hr : r = .ok (fl, n)) (h : finishWalk r = .ok last) : n = last := by
  subst hr
  simp only [finishWalk] at h
  cases hc : fl.check <;> simp_all

theorem write_decode' (e : Exts) (hwf : e.WF) (first : Nat) (out : Bytes) (last : Nat) (tail : Bytes)
    (hw : e.write first = (out, .ok ()))
    (hn : e.nextHeader first = .ok last)
    (hl : isWalked last = false) :
    Exts.fromSlice first (out ++ tail) = .ok (e, last, tail) := by
  obtain ⟨hp1, hp2⟩ := ofExts_pre e
  by_cases h0 : IPV6_HOP_BY_HOP = first
  · cases hh : e.hopByHopOptions with
    | none =>
      exfalso
      simp only [Exts.write, Exts.nextHeader, if_pos h0, hh] at hw hn
      obtain ⟨fl', n, hwl, hc⟩ := finishWrite_ok _ _ hw
      have h2 := writeLoop_snd e (Flags.ofExts e) false [] first
      rw [hwl] at h2
      have := finishWalk_ok _ fl' n last h2.symm hn
      subst this
      subst h0
      rw [writeLoop] at hwl
      split at hwl <;> simp at hwl
      obtain ⟨_, _, rfl⟩ := hwl
      simp [isWalked] at hl
    | some hd =>
      simp only [Exts.write, Exts.nextHeader, if_pos h0, hh] at hw hn
      obtain ⟨fl', n, hwl, hc⟩ := finishWrite_ok _ _ hw
      have h2 := writeLoop_snd e { Flags.ofExts e with hopByHopOptions := false } false hd.toBytes hd.nextHeader
      rw [hwl] at h2
      have := finishWalk_ok _ fl' n last h2.symm hn
      subst this
      have hsub : Flags.Sub { Flags.ofExts e with hopByHopOptions := false } e := by
        obtain ⟨_, b, c, d, f, g⟩ := Flags.ofExts_sub e
        exact ⟨by simp, b, c, d, f, g⟩
      obtain ⟨suffix, hout, hdec⟩ := loop_decode e hwf (out ++ tail) _ _ _ _ _ _ _ hwl hl hsub hp1 hp2
      have hwfh : hd.WF := by simp [Exts.WF, hh, optWF] at hwf; exact hwf.1
      obtain ⟨hl', hh', hd'⟩ := raw_roundtrip hd hwfh (suffix ++ tail)
      unfold Exts.fromSlice
      rw [if_pos h0]
      have e1 : out ++ tail = hd.toBytes ++ (suffix ++ tail) := by rw [hout]; simp
      rw [e1, hl']
      simp only [hh', hd']
      rw [← e1, ← restrict_none e fl' hc, ← hdec tail, restrict_ofExts_hop, hh]
  · simp only [Exts.write, Exts.nextHeader, if_neg h0] at hw hn
    obtain ⟨fl', n, hwl, hc⟩ := finishWrite_ok _ _ hw
    have h2 := writeLoop_snd e (Flags.ofExts e) false [] first
    rw [hwl] at h2
    have := finishWalk_ok _ fl' n last h2.symm hn
    subst this
    obtain ⟨suffix, hout, hdec⟩ := loop_decode e hwf (out ++ tail) _ _ _ _ _ _ _ hwl hl (Flags.ofExts_sub e) hp1 hp2
    unfold Exts.fromSlice
    rw [if_neg h0]
    simp at hout
    subst hout
    rw [← restrict_none e fl' hc, ← hdec tail, restrict_ofExts]


/-! ### inconsistent chains -/

/-- the loop never touches the hop-by-hop flag, keeps `Sub`, and its only error is
    `HopByHopNotAtStart` with the hop-by-hop flag still set. -/
theorem nextHeaderLoop_ok_inv (e : Exts) (fl : Flags) (rr : Bool) (next : Nat) (fl' : Flags) (n : Nat)
    (h : nextHeaderLoop e fl rr next = .ok (fl', n)) (hs : fl.Sub e) :
    fl'.hopByHopOptions = fl.hopByHopOptions ∧ fl'.Sub e := by
  fun_induction nextHeaderLoop e fl rr next
  all_goals try (simp at h; done)
  all_goals try (simp at h; obtain ⟨rfl, rfl⟩ := h; exact ⟨rfl, hs⟩)
  all_goals
    rename_i ih
    obtain ⟨a, b, c, d, f, g⟩ := hs
    exact ih h ⟨a, by simp_all, by simp_all, by simp_all, by simp_all, by simp_all⟩

theorem nextHeaderLoop_err (e : Exts) (fl : Flags) (rr : Bool) (next : Nat) (w : WalkErr)
    (h : nextHeaderLoop e fl rr next = .error (.err w)) :
    w = .hopByHopNotAtStart ∧ fl.hopByHopOptions = true := by
  fun_induction nextHeaderLoop e fl rr next
  all_goals try (simp at h; done)
  all_goals try (simp at h; subst h; simp_all; done)
  all_goals
    rename_i ih
    exact ih h

/-- flags of kinds whose number `m` is never referenced stay as they are. -/
theorem nextHeaderLoop_unref (e : Exts) (m : Nat) (fl : Flags) (rr : Bool) (next : Nat) (fl' : Flags) (n : Nat)
    (h : nextHeaderLoop e fl rr next = .ok (fl', n))
    (hnext : next ≠ m)
    (hrefs : ∀ k hd, e.hdr k = some hd → hd.next ≠ m) :
    (m = 60 → fl'.destinationOptions = fl.destinationOptions ∧ fl'.finalDestinationOptions = fl.finalDestinationOptions) ∧
    (m = 43 → fl'.routing = fl.routing) ∧ (m = 44 → fl'.fragment = fl.fragment) ∧ (m = 51 → fl'.auth = fl.auth) := by
  fun_induction nextHeaderLoop e fl rr next
  all_goals try (simp at h; done)
  all_goals try (simp at h; obtain ⟨rfl, rfl⟩ := h; simp; done)
  case case5 fl hfl r hx header hxf ih =>
    have := ih h (by simpa [Exts.hdr, Exts.finalDest, hx, hxf] using hrefs .finalDestOpts)
    simp at this
    refine ⟨fun hm => absurd hm.symm hnext, this.2⟩
  case case8 fl rr hrr hfl header hx ih =>
    have := ih h (by simpa [Exts.hdr, hx] using hrefs .destOpts)
    simp at this
    refine ⟨fun hm => absurd hm.symm hnext, this.2⟩
  case case11 fl rr hfl r hx ih =>
    have := ih h (by simpa [Exts.hdr, hx] using hrefs .routing)
    simp at this
    refine ⟨this.1, fun hm => absurd hm.symm hnext, this.2.2⟩
  case case14 fl rr hfl header hx ih =>
    have := ih h (by simpa [Exts.hdr, hx] using hrefs .fragment)
    simp at this
    refine ⟨this.1, this.2.1, fun hm => absurd hm.symm hnext, this.2.2.2⟩
  case case17 fl rr hfl header hx ih =>
    have := ih h (by simpa [Exts.hdr, hx] using hrefs .auth)
    simp at this
    refine ⟨this.1, this.2.1, this.2.2.1, fun hm => absurd hm.symm hnext⟩



theorem Flags.check_hop (fl : Flags) (h : fl.hopByHopOptions = true) :
    fl.check = .error (.err (.extNotReferenced 0)) := by
  simp [Flags.check, h]

theorem hop_not_first_is_error (e : Exts) (first : Nat) (hd : Raw)
    (hh : e.hopByHopOptions = some hd) (hf : first ≠ 0) :
    e.nextHeader first = .error (.err .hopByHopNotAtStart) ∨
    e.nextHeader first = .error (.err (.extNotReferenced 0)) := by
  have hnp := nextHeader_no_panic e first
  simp only [Exts.nextHeader, if_neg (Ne.symm hf)] at hnp ⊢
  cases hloop : nextHeaderLoop e (Flags.ofExts e) false first with
  | error f =>
    cases f with
    | panic => rw [hloop] at hnp; simp [finishWalk] at hnp
    | err w => left; simp [finishWalk, (nextHeaderLoop_err _ _ _ _ _ hloop).1]
  | ok p =>
    obtain ⟨fl', n⟩ := p
    right
    have := (nextHeaderLoop_ok_inv _ _ _ _ _ _ hloop (Flags.ofExts_sub e)).1
    have hc := Flags.check_hop fl' (by rw [this]; simp [Flags.ofExts, hh])
    simp [finishWalk, hc]



/-- flag belonging to a header kind. -/
def Flags.of (fl : Flags) : Kind → Bool
  | .hopByHop => fl.hopByHopOptions
  | .destOpts => fl.destinationOptions
  | .routing => fl.routing
  | .fragment => fl.fragment
  | .auth => fl.auth
  | .esp => false
  | .finalDestOpts => fl.finalDestinationOptions

theorem Flags.check_of (fl : Flags) (k : Kind) (h : fl.of k = true) : ∃ m, fl.check = .error (.err (.extNotReferenced m)) := by
  unfold Flags.check
  repeat' split
  all_goals first | exact ⟨_, rfl⟩ | (cases k <;> simp_all [Flags.of])

theorem ofExts_of (e : Exts) (k : Kind) (hd : Hdr) (h : e.hdr k = some hd) : (Flags.ofExts e).of k = true := by
  rcases e with ⟨_ | a, _ | b, _ | ⟨c, _ | d⟩, _ | f, _ | g⟩ <;> cases k <;>
    simp_all [Exts.hdr, Flags.ofExts, Flags.of, Exts.finalDest]

theorem loop_unref_of (e : Exts) (k : Kind) (hk0 : k ≠ .hopByHop) (fl : Flags) (rr : Bool) (next : Nat) (fl' : Flags) (n : Nat)
    (h : nextHeaderLoop e fl rr next = .ok (fl', n))
    (hnext : next ≠ k.ipNumber)
    (hrefs : ∀ k' hd, e.hdr k' = some hd → hd.next ≠ k.ipNumber) : fl'.of k = fl.of k := by
  have := nextHeaderLoop_unref e k.ipNumber fl rr next fl' n h hnext hrefs
  cases k <;> simp_all [Kind.ipNumber, Flags.of]

theorem finishWalk_flag (fl' : Flags) (n : Nat) (k : Kind) (h : fl'.of k = true) :
    ∃ w, finishWalk (.ok (fl', n)) = .error (.err w) := by
  obtain ⟨m, hm⟩ := Flags.check_of fl' k h
  exact ⟨.extNotReferenced m, by simp [finishWalk, hm]⟩

theorem unreferenced_is_error' (e : Exts) (first : Nat) (k : Kind) (hd : Hdr)
    (hk : e.hdr k = some hd) (h1 : first ≠ k.ipNumber)
    (h2 : ∀ k' hd', e.hdr k' = some hd' → hd'.next ≠ k.ipNumber) :
    ∃ w, e.nextHeader first = .error (.err w) := by
  by_cases hk0 : k = .hopByHop
  · subst hk0
    simp [Exts.hdr] at hk
    obtain ⟨a, ha, _⟩ := hk
    rcases hop_not_first_is_error e first a ha h1 with h | h <;> exact ⟨_, h⟩
  · have hnp := nextHeader_no_panic e first
    have key : ∀ fl next, fl.Sub e → fl.of k = true → next ≠ k.ipNumber →
        finishWalk (nextHeaderLoop e fl false next) ≠ .error .panic →
        ∃ w, finishWalk (nextHeaderLoop e fl false next) = .error (.err w) := by
      intro fl next hs hf hne hnp
      cases hloop : nextHeaderLoop e fl false next with
      | error f =>
        cases f with
        | panic => rw [hloop] at hnp; simp [finishWalk] at hnp
        | err w => exact ⟨w, by simp [finishWalk]⟩
      | ok p =>
        obtain ⟨fl', n⟩ := p
        have := loop_unref_of e k hk0 fl false next fl' n hloop hne h2
        exact finishWalk_flag fl' n k (by rw [this]; exact hf)
    have hof := ofExts_of e k hd hk
    by_cases h0 : IPV6_HOP_BY_HOP = first
    · cases hh : e.hopByHopOptions with
      | none =>
        simp only [Exts.nextHeader, if_pos h0, hh] at hnp ⊢
        exact key _ _ (Flags.ofExts_sub e) hof h1 hnp
      | some a =>
        simp only [Exts.nextHeader, if_pos h0, hh] at hnp ⊢
        refine key _ _ ?_ ?_ ?_ hnp
        · obtain ⟨_, b, c, d, f, g⟩ := Flags.ofExts_sub e
          exact ⟨by simp, b, c, d, f, g⟩
        · cases k <;> simp_all [Flags.of]
        · simpa [Exts.hdr, hh] using h2 .hopByHop
    · simp only [Exts.nextHeader, if_neg h0] at hnp ⊢
      exact key _ _ (Flags.ofExts_sub e) hof h1 hnp



theorem Flags.check_err (fl : Flags) (m : Nat) (h : fl.check = .error (.err (.extNotReferenced m))) :
    ∃ k, fl.of k = true ∧ k.ipNumber = m := by
  unfold Flags.check at h
  repeat' split at h
  all_goals simp at h
  all_goals subst h
  · exact ⟨.hopByHop, by simpa [Flags.of], rfl⟩
  · exact ⟨.destOpts, by simpa [Flags.of], rfl⟩
  · exact ⟨.routing, by simpa [Flags.of], rfl⟩
  · exact ⟨.fragment, by simpa [Flags.of], rfl⟩
  · exact ⟨.auth, by simpa [Flags.of], rfl⟩
  · exact ⟨.finalDestOpts, by simpa [Flags.of], rfl⟩

theorem sub_of (fl : Flags) (e : Exts) (k : Kind) (hs : fl.Sub e) (h : fl.of k = true) : ∃ hd, e.hdr k = some hd := by
  obtain ⟨a, b, c, d, f, g⟩ := hs
  cases k <;> simp [Flags.of] at h <;> simp [Exts.hdr]
  · obtain ⟨x, hx⟩ := Option.isSome_iff_exists.mp (a h); exact ⟨_, x, hx, rfl⟩
  · obtain ⟨x, hx⟩ := Option.isSome_iff_exists.mp (b h); exact ⟨_, x, hx, rfl⟩
  · obtain ⟨x, hx⟩ := Option.isSome_iff_exists.mp (c h); exact ⟨_, x, hx, rfl⟩
  · obtain ⟨x, hx⟩ := Option.isSome_iff_exists.mp (d h); exact ⟨_, x, hx, rfl⟩
  · obtain ⟨x, hx⟩ := Option.isSome_iff_exists.mp (f h); exact ⟨_, x, hx, rfl⟩
  · obtain ⟨x, hx⟩ := Option.isSome_iff_exists.mp (g h); exact ⟨_, x, hx, rfl⟩

theorem finish_names (e : Exts) (fl : Flags) (next m : Nat) (hs : fl.Sub e)
    (h : finishWalk (nextHeaderLoop e fl false next) = .error (.err (.extNotReferenced m))) :
    ∃ k hd, e.hdr k = some hd ∧ k.ipNumber = m := by
  cases hloop : nextHeaderLoop e fl false next with
  | error f =>
    rw [hloop] at h
    simp [finishWalk] at h
    subst h
    have := (nextHeaderLoop_err _ _ _ _ _ hloop).1
    simp at this
  | ok p =>
    obtain ⟨fl', n⟩ := p
    rw [hloop] at h
    have hs' := (nextHeaderLoop_ok_inv _ _ _ _ _ _ hloop hs).2
    simp only [finishWalk] at h
    cases hc : fl'.check with
    | ok u => simp [hc] at h
    | error f =>
      simp [hc] at h
      subst h
      obtain ⟨k, hk, hm⟩ := Flags.check_err fl' m hc
      obtain ⟨hd, hhd⟩ := sub_of fl' e k hs' hk
      exact ⟨k, hd, hhd, hm⟩

theorem hop_cleared_sub (e : Exts) : Flags.Sub { Flags.ofExts e with hopByHopOptions := false } e := by
  obtain ⟨_, b, c, d, f, g⟩ := Flags.ofExts_sub e
  exact ⟨by simp, b, c, d, f, g⟩

theorem error_names_present' (e : Exts) (first m : Nat)
    (h : e.nextHeader first = .error (.err (.extNotReferenced m))) :
    ∃ k hd, e.hdr k = some hd ∧ k.ipNumber = m := by
  by_cases h0 : IPV6_HOP_BY_HOP = first
  · cases hh : e.hopByHopOptions with
    | none =>
      simp only [Exts.nextHeader, if_pos h0, hh] at h
      exact finish_names e _ _ m (Flags.ofExts_sub e) h
    | some a =>
      simp only [Exts.nextHeader, if_pos h0, hh] at h
      exact finish_names e _ _ m (hop_cleared_sub e) h
  · simp only [Exts.nextHeader, if_neg h0] at h
    exact finish_names e _ _ m (Flags.ofExts_sub e) h

theorem finish_hop (e : Exts) (fl : Flags) (next : Nat)
    (h : finishWalk (nextHeaderLoop e fl false next) = .error (.err .hopByHopNotAtStart)) :
    fl.hopByHopOptions = true := by
  cases hloop : nextHeaderLoop e fl false next with
  | error f =>
    rw [hloop] at h
    simp [finishWalk] at h
    subst h
    exact (nextHeaderLoop_err _ _ _ _ _ hloop).2
  | ok p =>
    obtain ⟨fl', n⟩ := p
    rw [hloop] at h
    simp only [finishWalk] at h
    cases hc : fl'.check with
    | ok u => simp [hc] at h
    | error f =>
      simp [hc] at h
      subst h
      unfold Flags.check at hc
      repeat' split at hc
      all_goals simp at hc

theorem hopByHopNotAtStart_means' (e : Exts) (first : Nat)
    (h : e.nextHeader first = .error (.err .hopByHopNotAtStart)) :
    e.hopByHopOptions.isSome = true ∧ first ≠ 0 := by
  by_cases h0 : IPV6_HOP_BY_HOP = first
  · cases hh : e.hopByHopOptions with
    | none =>
      simp only [Exts.nextHeader, if_pos h0, hh] at h
      have := finish_hop e _ _ h
      simp [Flags.ofExts, hh] at this
    | some a =>
      simp only [Exts.nextHeader, if_pos h0, hh] at h
      have := finish_hop e _ _ h
      simp at this
  · simp only [Exts.nextHeader, if_neg h0] at h
    have := finish_hop e _ _ h
    simp [Flags.ofExts] at this
    exact ⟨this, fun hf => h0 hf.symm⟩


/-! ### a successful walk is a linked permutation of the present headers -/

def ol (b : Bool) (o : Option Hdr) : List Hdr := if b then o.toList else []

/-- headers still outstanding according to the flags (in RFC 8200 order). -/
def pendingHdrs (e : Exts) (fl : Flags) : List Hdr :=
  ol fl.hopByHopOptions (e.hdr .hopByHop) ++ (ol fl.destinationOptions (e.hdr .destOpts) ++
  (ol fl.routing (e.hdr .routing) ++ (ol fl.fragment (e.hdr .fragment) ++ (ol fl.auth (e.hdr .auth) ++
  ol fl.finalDestinationOptions (e.hdr .finalDestOpts)))))

theorem pendingHdrs_ofExts (e : Exts) : pendingHdrs e (Flags.ofExts e) = e.rfcChain := by
  rcases e with ⟨_ | a, _ | b, _ | ⟨c, _ | d⟩, _ | f, _ | g⟩ <;>
    simp [pendingHdrs, ol, Flags.ofExts, Exts.rfcChain, rfc8200Order, Exts.hdr, Exts.finalDest, List.filterMap_cons]

theorem writeLoop_chain (e : Exts) (fl : Flags) (rw : Bool) (out : Bytes) (next : Nat)
    (out' : Bytes) (fl' : Flags) (n : Nat)
    (h : writeLoop e fl rw out next = (out', .ok (fl', n))) :
    ∃ chain, out' = out ++ serialise chain ∧ Walk next chain n ∧
      (chain ++ pendingHdrs e fl').Perm (pendingHdrs e fl) := by
  fun_induction writeLoop e fl rw out next
  all_goals try (simp at h; done)
  all_goals try (simp at h; obtain ⟨rfl, rfl, rfl⟩ := h; exact ⟨[], by simp [serialise], by simp [Walk], by simp⟩)
  case case14 fl rw out hfl header hx ih =>
    obtain ⟨chain, ho, hwk, hp⟩ := ih h
    refine ⟨⟨.fragment, header.nextHeader, header.toBytes⟩ :: chain, by simp [ho, serialise], ⟨rfl, hwk⟩, ?_⟩
    refine (List.Perm.cons _ hp).trans ?_
    rw [List.perm_iff_count]
    intro a
    simp [pendingHdrs, ol, hfl, hx, Exts.hdr, List.count_cons]
    omega
  case case17 fl rw out hfl header hx ih =>
    obtain ⟨chain, ho, hwk, hp⟩ := ih h
    refine ⟨⟨.auth, header.nextHeader, header.toBytes⟩ :: chain, by simp [ho, serialise], ⟨rfl, hwk⟩, ?_⟩
    refine (List.Perm.cons _ hp).trans ?_
    rw [List.perm_iff_count]
    intro a
    simp [pendingHdrs, ol, hfl, hx, Exts.hdr, List.count_cons]
    omega
  case case11 fl rw out hfl r hx ih =>
    obtain ⟨chain, ho, hwk, hp⟩ := ih h
    refine ⟨⟨.routing, r.routing.nextHeader, r.routing.toBytes⟩ :: chain, by simp [ho, serialise], ⟨rfl, hwk⟩, ?_⟩
    refine (List.Perm.cons _ hp).trans ?_
    rw [List.perm_iff_count]
    intro a
    simp [pendingHdrs, ol, hfl, hx, Exts.hdr, List.count_cons]
    omega
  case case8 fl rw out hrwf hfl header hx ih =>
    obtain ⟨chain, ho, hwk, hp⟩ := ih h
    refine ⟨⟨.destOpts, header.nextHeader, header.toBytes⟩ :: chain, by simp [ho, serialise], ⟨rfl, hwk⟩, ?_⟩
    refine (List.Perm.cons _ hp).trans ?_
    rw [List.perm_iff_count]
    intro a
    simp [pendingHdrs, ol, hfl, hx, Exts.hdr, List.count_cons]
    omega
  case case5 fl out hfl r hx header hxf ih =>
    obtain ⟨chain, ho, hwk, hp⟩ := ih h
    refine ⟨⟨.finalDestOpts, header.nextHeader, header.toBytes⟩ :: chain, by simp [ho, serialise], ⟨rfl, hwk⟩, ?_⟩
    refine (List.Perm.cons _ hp).trans ?_
    rw [List.perm_iff_count]
    intro a
    simp [pendingHdrs, ol, hfl, hx, hxf, Exts.hdr, Exts.finalDest, List.count_cons]
    omega

theorem pendingHdrs_none (e : Exts) (fl : Flags) (h : fl.check = .ok ()) : pendingHdrs e fl = [] := by
  obtain ⟨h1, h2, h3, h4, h5, h6⟩ := Flags.check_ok fl h
  simp [pendingHdrs, ol, *]

/-- a successful walk visits every present header exactly once along next_header links. -/
theorem walk_ok_chain (e : Exts) (first n : Nat) (h : e.nextHeader first = .ok n) :
    ∃ chain, chain.Perm e.rfcChain ∧ Walk first chain n ∧ e.write first = (serialise chain, .ok ()) := by
  have hw := write_snd_eq e first
  rw [h] at hw
  simp only [Except.map] at hw
  have key : ∀ fl next out0, finishWrite (writeLoop e fl false out0 next) = ((finishWrite (writeLoop e fl false out0 next)).1, .ok ()) →
      finishWalk (nextHeaderLoop e fl false next) = .ok n →
      ∃ chain, (finishWrite (writeLoop e fl false out0 next)).1 = out0 ++ serialise chain ∧ Walk next chain n ∧
        chain.Perm (pendingHdrs e fl) := by
    intro fl next out0 hfw hfn
    obtain ⟨fl', n', hwl, hc⟩ := finishWrite_ok _ _ hfw
    have h2 := writeLoop_snd e fl false out0 next
    rw [hwl] at h2
    have := finishWalk_ok _ fl' n' n h2.symm hfn
    subst this
    obtain ⟨chain, ho, hwk, hp⟩ := writeLoop_chain e fl false out0 next _ fl' n' hwl
    rw [pendingHdrs_none e fl' hc] at hp
    exact ⟨chain, ho, hwk, by simpa using hp⟩
  have hout : e.write first = ((e.write first).1, .ok ()) := by rw [← hw]
  by_cases h0 : IPV6_HOP_BY_HOP = first
  · cases hh : e.hopByHopOptions with
    | none =>
      simp only [Exts.write, Exts.nextHeader, if_pos h0, hh] at hout h ⊢
      obtain ⟨chain, ho, hwk, hp⟩ := key _ _ [] hout h
      refine ⟨chain, by rw [← pendingHdrs_ofExts]; exact hp, hwk, ?_⟩
      rw [hout, ho]; simp
    | some a =>
      simp only [Exts.write, Exts.nextHeader, if_pos h0, hh] at hout h ⊢
      obtain ⟨chain, ho, hwk, hp⟩ := key _ _ a.toBytes hout h
      refine ⟨⟨.hopByHop, a.nextHeader, a.toBytes⟩ :: chain, ?_, ⟨h0.symm, hwk⟩, ?_⟩
      · rw [← pendingHdrs_ofExts]
        refine (List.Perm.cons _ hp).trans ?_
        simp [pendingHdrs, ol, Flags.ofExts, hh, Exts.hdr]
      · rw [hout, ho]; simp [serialise]
  · simp only [Exts.write, Exts.nextHeader, if_neg h0] at hout h ⊢
    obtain ⟨chain, ho, hwk, hp⟩ := key _ _ [] hout h
    refine ⟨chain, by rw [← pendingHdrs_ofExts]; exact hp, hwk, ?_⟩
    rw [hout, ho]; simp



/-! ### from_slice never panics -/

theorem rawToHeader_ok (s : Bytes) (len : Nat) (h : rawSliceLen s = .ok len) :
    ∃ r, rawToHeader s len = .ok r := by
  unfold rawSliceLen at h
  split at h
  · simp at h
  · simp only at h
    split at h
    · simp at h
    · simp at h
      have hb := bAt_lt s 1
      have hlen : (sub s 2 (len - 2)).length = len - 2 := sub_length s 2 (len - 2) (by omega)
      unfold rawToHeader Raw.newRaw
      rw [hlen, if_neg (by omega), if_neg (by omega), if_neg (by omega)]
      exact ⟨_, rfl⟩

theorem authToHeader_ok {ε : Type} (s : Bytes) (len : Nat) (h : authSliceLen s = .ok len) :
    ∃ a, authToHeader (ε := ε) s len = .ok a := by
  unfold authSliceLen at h
  split at h
  · simp at h
  · simp only at h
    split at h
    · simp at h
    · split at h
      · simp at h
      · simp at h
        have hb := bAt_lt s 1
        have hlen : (sub s 12 (len - 12)).length = len - 12 := sub_length s 12 (len - 12) (by omega)
        unfold authToHeader Auth.new
        rw [hlen, if_neg (by omega), if_neg (by omega)]
        exact ⟨_, rfl⟩

theorem lenErrAt_ne_panic (slice rest : Bytes) (err : LenError) (h : rest.length ≤ slice.length) :
    lenErrAt slice rest err ≠ .panic := by
  simp [lenErrAt, h]

theorem fromSliceLoop_no_panic (slice : Bytes) (result : Exts) (rest : Bytes) (next : Nat)
    (h : rest.length ≤ slice.length) :
    fromSliceLoop slice result rest next ≠ .error .panic := by
  fun_induction fromSliceLoop slice result rest next
  all_goals try (simp; done)
  all_goals try (simp; exact lenErrAt_ne_panic _ _ _ h)
  all_goals try (rename_i ih; exact ih (by simp; omega))
  all_goals
    rename_i hl f hf
    first
    | (obtain ⟨r, hr⟩ := rawToHeader_ok _ _ hl; rw [hr] at hf; simp at hf)
    | (obtain ⟨r, hr⟩ := authToHeader_ok (ε := SliceErr) _ _ hl; rw [hr] at hf; simp at hf)

theorem fromSlice_no_panic (first : Nat) (slice : Bytes) : Exts.fromSlice first slice ≠ .error .panic := by
  unfold Exts.fromSlice
  split
  · split
    · simp
    · rename_i len hl
      obtain ⟨r, hr⟩ := rawToHeader_ok _ _ hl
      simp only [hr]
      exact fromSliceLoop_no_panic _ _ _ _ (by simp)
  · exact fromSliceLoop_no_panic _ _ _ _ (Nat.le_refl _)


/-! ### decode window -/

theorem rawToHeader_len (s : Bytes) (len : Nat) (r : Raw) (h : rawSliceLen s = .ok len)
    (hr : rawToHeader s len = .ok r) : r.headerLen = len ∧ len ≤ s.length := by
  unfold rawSliceLen at h
  split at h
  · simp at h
  · simp only at h
    split at h
    · simp at h
    · simp at h
      have hb := bAt_lt s 1
      have hlen : (sub s 2 (len - 2)).length = len - 2 := sub_length s 2 (len - 2) (by omega)
      unfold rawToHeader Raw.newRaw at hr
      rw [hlen, if_neg (by omega), if_neg (by omega), if_neg (by omega)] at hr
      simp at hr
      subst hr
      simp [Raw.headerLen, Raw.headerLength, hlen]
      omega

theorem authToHeader_len {ε : Type} (s : Bytes) (len : Nat) (a : Auth) (h : authSliceLen s = .ok len)
    (hr : authToHeader (ε := ε) s len = .ok a) : a.headerLen = len ∧ len ≤ s.length := by
  unfold authSliceLen at h
  split at h
  · simp at h
  · simp only at h
    split at h
    · simp at h
    · split at h
      · simp at h
      · simp at h
        have hb := bAt_lt s 1
        have hlen : (sub s 12 (len - 12)).length = len - 12 := sub_length s 12 (len - 12) (by omega)
        unfold authToHeader Auth.new at hr
        rw [hlen, if_neg (by omega), if_neg (by omega)] at hr
        simp at hr
        subst hr
        simp [Auth.headerLen, Auth.rawIcvLen, hlen]
        omega

def osum {α : Type} (f : α → Nat) : Option α → Nat
  | some a => f a
  | none => 0

theorem headerLen_eq (e : Exts) : e.headerLen =
    osum Raw.headerLen e.hopByHopOptions + osum Raw.headerLen e.destinationOptions +
    osum (fun r => r.routing.headerLen + osum Raw.headerLen r.finalDestinationOptions) e.routing +
    osum Frag.headerLen e.fragment + osum Auth.headerLen e.auth := by
  rcases e with ⟨_ | a, _ | b, _ | ⟨c, _ | d⟩, _ | f, _ | g⟩ <;> simp [Exts.headerLen, osum] <;> omega

/-- what has been read so far is exactly the serialised length of the headers decoded so far. -/
def Window (slice : Bytes) (result : Exts) (rest : Bytes) : Prop :=
  ∃ pre, slice = pre ++ rest ∧ pre.length = result.headerLen

theorem Window.step (slice : Bytes) (result result' : Exts) (rest : Bytes) (len : Nat)
    (h : Window slice result rest) (hlen : len ≤ rest.length) (hr : result'.headerLen = result.headerLen + len) :
    Window slice result' (rest.drop len) := by
  obtain ⟨pre, hs, hp⟩ := h
  refine ⟨pre ++ rest.take len, ?_, ?_⟩
  · rw [List.append_assoc, List.take_append_drop]; exact hs
  · simp [hp, hr]; omega

theorem fromSliceLoop_window (slice : Bytes) (result : Exts) (rest : Bytes) (next : Nat)
    (e : Exts) (n : Nat) (rest' : Bytes)
    (h : fromSliceLoop slice result rest next = .ok (e, n, rest'))
    (hw : Window slice result rest) : Window slice e rest' := by
  fun_induction fromSliceLoop slice result rest next
  all_goals try (simp at h; done)
  all_goals try (simp at h; obtain ⟨rfl, rfl, rfl⟩ := h; exact hw)
  case case5 result rest routing hr hf len hl header hh ih =>
    obtain ⟨h1, h2⟩ := rawToHeader_len _ _ _ hl hh
    exact ih h (Window.step _ _ _ _ _ hw h2 (by simp [headerLen_eq, osum, hr, hf, h1]; omega))
  case case9 result rest hr hd len hl header hh ih =>
    obtain ⟨h1, h2⟩ := rawToHeader_len _ _ _ hl hh
    exact ih h (Window.step _ _ _ _ _ hw h2 (by simp [headerLen_eq, osum, hr, hd, h1]; omega))
  case case13 result rest hr len hl header hh ih =>
    obtain ⟨h1, h2⟩ := rawToHeader_len _ _ _ hl hh
    exact ih h (Window.step _ _ _ _ _ hw h2 (by simp [headerLen_eq, osum, hr, h1]; omega))
  case case16 result rest hfr header hh ih =>
    have h2 : 8 ≤ rest.length := by
      unfold fragFromSlice at hh; split at hh <;> simp at hh; omega
    exact ih h (Window.step _ _ _ _ _ hw h2 (by simp [headerLen_eq, osum, hfr, Frag.headerLen]; omega))
  case case21 result rest ha len hl header hh ih =>
    obtain ⟨h1, h2⟩ := authToHeader_len _ _ _ hl hh
    exact ih h (Window.step _ _ _ _ _ hw h2 (by simp [headerLen_eq, osum, ha, h1]))

/-- `from_slice` returns as `rest` the suffix of the input behind exactly `header_len()` bytes. -/
theorem fromSlice_window (first : Nat) (slice : Bytes) (e : Exts) (n : Nat) (rest : Bytes)
    (h : Exts.fromSlice first slice = .ok (e, n, rest)) :
    ∃ pre, slice = pre ++ rest ∧ pre.length = e.headerLen := by
  unfold Exts.fromSlice at h
  split at h
  · split at h
    · simp at h
    · rename_i len hl
      split at h
      · simp at h
      · rename_i header hh
        obtain ⟨h1, h2⟩ := rawToHeader_len _ _ _ hl hh
        refine fromSliceLoop_window _ _ _ _ _ _ _ h ?_
        exact Window.step slice Exts.empty _ slice len ⟨[], by simp, by simp [Exts.headerLen, Exts.empty]⟩ h2
          (by simp [Exts.headerLen, Exts.empty, h1])
  · exact fromSliceLoop_window _ _ _ _ _ _ _ h ⟨[], by simp, by simp [Exts.headerLen, Exts.empty]⟩


theorem setNextHeaders_WF (e e' : Exts) (n first' : Nat) (hn : n < 256) (hwf : e.WF)
    (h : e.setNextHeaders n = (e', first')) : e'.WF := by
  rcases e with ⟨_ | a, _ | b, _ | ⟨c, _ | d⟩, _ | f, _ | g⟩ <;>
    simp [Exts.setNextHeaders] at h <;> obtain ⟨rfl, rfl⟩ := h <;>
    simp_all [Exts.WF, optWF, Raw.WF, Frag.WF, Auth.WF, AUTH, IPV6_FRAG, IPV6_ROUTE, IPV6_DEST_OPTIONS]

theorem setNextHeaders_isFrag (e : Exts) (n : Nat) :
    (e.setNextHeaders n).1.isFragmentingPayload = e.isFragmentingPayload := by
  rcases e with ⟨_ | a, _ | b, _ | ⟨c, _ | d⟩, _ | f, _ | g⟩ <;>
    simp [Exts.setNextHeaders, Exts.isFragmentingPayload, Frag.isFragmentingPayload]


/-! ### from_slice_lax vs from_slice -/


/-- relation between the results of the strict and the lax copy on the same state. -/
def LaxAgrees : Except (Fault SliceErr) (Exts × Nat × Bytes) → Except (Fault SliceErr) LaxResult → Prop
  | .ok (e, n, r), lax => lax = .ok (e, n, r, none)
  | .error .panic, lax => lax = .error .panic
  | .error (.err er), lax => ∃ e n r layer, lax = .ok (e, n, r, some (er, layer))

theorem laxLenErr_agrees (slice : Bytes) (result : Exts) (next : Nat) (rest : Bytes) (err : LenError) (layer : Layer) :
    LaxAgrees (.error (lenErrAt slice rest err)) (laxLenErr slice result next rest err layer) := by
  unfold laxLenErr
  cases h : lenErrAt slice rest err with
  | panic => simp [LaxAgrees]
  | err e => exact ⟨_, _, _, _, rfl⟩

theorem rawToHeader_err (s : Bytes) (len : Nat) (f : Fault SliceErr) (h : rawToHeader s len = .error f) : f = .panic := by
  unfold rawToHeader at h
  split at h <;> simp at h
  exact h.symm

theorem authToHeader_err {ε : Type} (s : Bytes) (len : Nat) (f : Fault ε) (h : authToHeader s len = .error f) : f = .panic := by
  unfold authToHeader at h
  split at h <;> simp at h
  exact h.symm

theorem laxLoop_agrees (slice : Bytes) (result : Exts) (rest : Bytes) (next : Nat) :
    LaxAgrees (fromSliceLoop slice result rest next) (fromSliceLaxLoop slice result rest next) := by
  fun_induction fromSliceLoop slice result rest next
  all_goals unfold fromSliceLaxLoop
  all_goals try (simp [LaxAgrees]; done)
  all_goals (repeat' split)
  all_goals try (simp_all [LaxAgrees]; done)
  all_goals try (simp_all; exact laxLenErr_agrees ..)
  all_goals
    simp_all
    first
    | (have := rawToHeader_err _ _ _ ‹rawToHeader _ _ = Except.error _›; subst this; simp [LaxAgrees])
    | (have := authToHeader_err _ _ _ ‹authToHeader _ _ = Except.error _›; subst this; simp [LaxAgrees])



theorem lax_agrees (first : Nat) (slice : Bytes) :
    LaxAgrees (Exts.fromSlice first slice) (Exts.fromSliceLax first slice) := by
  unfold Exts.fromSlice Exts.fromSliceLax
  split
  · cases hl : rawSliceLen slice with
    | error err => exact ⟨_, _, _, _, rfl⟩
    | ok len =>
      cases hh : rawToHeader slice len with
      | error f =>
        have := rawToHeader_err _ _ _ hh
        subst this
        simp [LaxAgrees, hh]
      | ok header => simp only [hh]; exact laxLoop_agrees ..
  · exact laxLoop_agrees ..

theorem fromSliceLax_no_panic (first : Nat) (slice : Bytes) : ∃ r, Exts.fromSliceLax first slice = .ok r := by
  have h := lax_agrees first slice
  have hnp := fromSlice_no_panic first slice
  cases hs : Exts.fromSlice first slice with
  | ok r => obtain ⟨e, n, rest⟩ := r; rw [hs] at h; exact ⟨_, h⟩
  | error f =>
    cases f with
    | panic => exact absurd hs hnp
    | err er => rw [hs] at h; obtain ⟨e, n, r, layer, hr⟩ := h; exact ⟨_, hr⟩


end EpModel.Ext
