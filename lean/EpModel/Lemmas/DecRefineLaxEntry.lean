import EpModel.Lemmas.DecRefineLaxIp
/-
  Lax refinement (C05), part 3: ARP, the lax link-extension loop (`Cur.laxSliceEtherType`) and the
  three lax entry points of `LaxSlicedPacket`.
-/
namespace EpModel.Lemmas.RefineLax
set_option linter.unusedSimpArgs false
open EpModel EpModel.Dec EpModel.Spec EpModel.Lemmas.Refine

theorem arp_fault_unit (lax : Bool) (g : Mem) (p : Packet) (ctx : Ctx) (f : Fault)
    (h : (Spec.step lax g p (.ether 0x0806) ctx).fault = some f) : f.unit = .arp := by
  simp only [Spec.step, isVlanType] at h
  simp only [show ¬ ((0x0806 : Nat) = 0x8100 ∨ (0x0806 : Nat) = 0x88a8 ∨ (0x0806 : Nat) = 0x9100) by omega,
    decide_false, Bool.false_eq_true, if_false, show ¬ ((0x0806 : Nat) = 0x88e5) by omega, if_true] at h
  repeat' split at h
  all_goals (simp at h)
  all_goals (subst h; simp [mkFault])

theorem arp_refinesL (c : Cur) (g : Mem) (o l : Nat) (ctx : Ctx) (k : Nat) (ht : Tied c ctx o l)
    (hst : c.r.stop = none) :
    RelLax (c.laxSliceArp g o l) (walkN true g (k + 1) c.r (.ether 0x0806) ctx) := by
  have hstep := arp_step g c.r ctx o l ht.coff ht.stop
  rw [← step_arp_indep true] at hstep
  unfold Cur.laxSliceArp
  split at hstep
  · rename_i w hw
    obtain ⟨c', hs1⟩ := hstep
    rw [hw, walkN_next true g k _ _ _ _ _ _ (by simp) hs1, walkN_done]
    exact relLax_ok (by simp [hst])
  · rename_i e he
    obtain ⟨f, hf, hrel⟩ := hstep
    rw [he, walkN_fault true g k _ _ _ _ _ _ f (by simp) hf]
    have hu := arp_fault_unit true g c.r ctx f (by rw [hf])
    exact relLax_stop hst ⟨by rw [hu]; trivial, lenRel_fix e f c ctx o l ht hrel⟩

/-- the lax link-extension loop and what follows, against the lax walk from an ether type tag -/
theorem ether_refinesL (c : Cur) (g : Mem) (hg : ByteMem g) (n et o l : Nat) (ctx : Ctx) (k : Nat)
    (ht : Tied c ctx o l) (hst : c.r.stop = none) (hn : ctx.nExt + n = 3) (hk : n + 4 ≤ k) :
    RelLaxW g (c.laxSliceEtherType g n et o l) (walkN true g k c.r (.ether et) ctx) := by
  fun_induction Cur.laxSliceEtherType c g n et o l generalizing ctx k
  case case1 c et o l het =>
    obtain ⟨k', rfl⟩ : ∃ k', k = k' + 1 := ⟨k - 1, by omega⟩
    have hne : ctx.nExt = 3 := by omega
    have hv : isVlanType et = true := by simpa [isVlanType] using het
    have hstep : Spec.step true g c.r (.ether et) ctx = ⟨c.r, .done, ctx, none⟩ := by
      simp [Spec.step, hv, hne]
    rw [walkN_next true g k' _ _ _ _ _ _ (by simp) hstep, walkN_done]
    exact relLaxW_of (relLax_ok hst)
  case case2 c et o l het n e hv =>
    obtain ⟨k', rfl⟩ : ∃ k', k = k' + 1 := ⟨k - 1, by omega⟩
    have hne : ¬ ctx.nExt = 3 := by omega
    have hvl : isVlanType et = true := by simpa [isVlanType] using het
    have hav : ctx.avail = l := by unfold Ctx.avail; have := ht.coff; have := ht.stop; omega
    have hl4 : l < 4 ∧ e = { req := 4, len := l, src := .slice, layer := .vlanHeader, off := 0 } := by
      unfold vlanFromSlice at hv
      split at hv
      · cases hv; exact ⟨by assumption, rfl⟩
      · contradiction
    have hstep : Spec.step true g c.r (.ether et) ctx = ⟨c.r, .done, ctx, some (mkFault ctx .cutShort .vlan 4)⟩ := by
      simp [Spec.step, hvl, hne, hav, hl4.1]
    rw [walkN_fault true g k' _ _ _ _ _ _ _ (by simp) hstep]
    have hrel : LenRel e (mkFault ctx .cutShort .vlan 4) o ctx.lim := by
      rw [hl4.2]
      have hco := ht.coff
      lenrel
    exact relLaxW_of (relLax_stop hst ⟨by simp [mkFault, StopLayer],
      lenRel_addOff e _ c o ctx.lim ht.off hrel (by rw [hl4.2]; simp)⟩)
  case case3 c et o l het n w hv ih =>
    obtain ⟨k', rfl⟩ : ∃ k', k = k' + 1 := ⟨k - 1, by omega⟩
    have hne : ¬ ctx.nExt = 3 := by omega
    have hvl : isVlanType et = true := by simpa [isVlanType] using het
    have hav : ctx.avail = l := by unfold Ctx.avail; have := ht.coff; have := ht.stop; omega
    have hw := EpModel.Lemmas.Dec.vlan_in o l w hv
    have hl4 : ¬ l < 4 := by omega
    have hstep : Spec.step true g c.r (.ether et) ctx =
        ⟨c.r.pushExt (.vlan w), .ether (g16 g (o + 2)), { ctx with off := o + 4, nExt := ctx.nExt + 1 }, none⟩ := by
      simp [Spec.step, hvl, hne, hav, hl4, addExt_eq, ht.coff, hw.1]
    rw [walkN_next true g k' _ _ _ _ _ _ (by simp) hstep]
    apply ih
    · exact ⟨by simp [ht.off], rfl, by simp [ht.stop]; omega, by simpa using ht.src⟩
    · simp [hst]
    · simp; omega
    · omega
  case case4 c o l hnv =>
    obtain ⟨k', rfl⟩ : ∃ k', k = k' + 1 := ⟨k - 1, by omega⟩
    have hne : ctx.nExt = 3 := by omega
    have hstep : Spec.step true g c.r (.ether 0x88e5) ctx = ⟨c.r, .done, ctx, none⟩ := by
      simp [Spec.step, isVlanType, hne]
    rw [walkN_next true g k' _ _ _ _ _ _ (by simp) hstep, walkN_done]
    exact relLaxW_of (relLax_ok hst)
  case case5 c o l n e he hnv =>
    obtain ⟨k', rfl⟩ : ∃ k', k = k' + 1 := ⟨k - 1, by omega⟩
    have hstep := macsec_stepL g hg c.r ctx o l ht.coff ht.stop (by omega)
    rw [he] at hstep
    obtain ⟨f, hf, hrel, hly, hu⟩ := hstep
    rw [walkN_fault true g k' _ _ _ _ _ _ f (by simp) hf]
    exact relLaxW_of (relLax_stop hst ⟨by rw [hu, hly]; trivial,
      lenRel_addOff e f c o ctx.lim ht.off hrel (lenRel_src_weak hrel)⟩)
  case case6 c o l n e hnl he hnv =>
    obtain ⟨k', rfl⟩ : ∃ k', k = k' + 1 := ⟨k - 1, by omega⟩
    have hstep := macsec_stepL g hg c.r ctx o l ht.coff ht.stop (by omega)
    rw [he] at hstep
    cases e with
    | len le => exact absurd rfl (fun h => hnl le h)
    | _ =>
      obtain ⟨f, hf, hrel, hu⟩ := hstep
      rw [walkN_fault true g k' _ _ _ _ _ _ f (by simp) hf]
      exact relLaxW_of (relLax_stop hst ⟨by rw [hu]; trivial, contentMatch_err hrel⟩)
  case case7 c o l n hdr pl src inc hm r' et' hnx hnv ih =>
    obtain ⟨k', rfl⟩ : ∃ k', k = k' + 1 := ⟨k - 1, by omega⟩
    have hstep := macsec_stepL g hg c.r ctx o l ht.coff ht.stop (by omega)
    rw [hm] at hstep
    obtain ⟨hs1, hplo, _, _, hsrc⟩ := hstep
    rw [hnx] at hs1
    rw [walkN_next true g k' _ _ _ _ _ _ (by simp) hs1]
    apply ih
    · refine ⟨by simp only [ht.off]; omega, rfl, rfl, ?_⟩
      simp only
      by_cases h0 : src = .slice
      · simp only [h0, ne_eq, not_true_eq_false, if_false, inherit, if_true]
        exact ht.src
      · simp only [h0, ne_eq, not_false_eq_true, if_true, inherit, if_false]; right; trivial
    · simp [r', hst]
    · simp only; omega
    · omega
  case case8 c o l n hdr pl src inc hm r' hnx hnv =>
    obtain ⟨k', rfl⟩ : ∃ k', k = k' + 1 := ⟨k - 1, by omega⟩
    have hstep := macsec_stepL g hg c.r ctx o l ht.coff ht.stop (by omega)
    rw [hm] at hstep
    obtain ⟨hs1, _⟩ := hstep
    rw [hnx] at hs1
    rw [walkN_next true g k' _ _ _ _ _ _ (by simp) hs1, walkN_done]
    exact relLaxW_of (relLax_ok (by simp [r', hst]))
  case case9 c o l n x hno hx hnv =>
    have hstep := macsec_stepL g hg c.r ctx o l ht.coff ht.stop (by omega)
    rw [hx] at hstep
    cases x <;> first | exact (hno _ _ _ _ rfl).elim | exact hstep.elim
  case case10 n c o l _ _ =>
    obtain ⟨k', rfl⟩ : ∃ k', k = k' + 1 := ⟨k - 1, by omega⟩
    exact relLaxW_of (arp_refinesL c g o l ctx k' ht hst)
  case case11 n c et o l h1 h2 h3 hip =>
    obtain ⟨k', rfl⟩ : ∃ k', k = k' + 4 := ⟨k - 4, by omega⟩
    have hstep : Spec.step true g c.r (.ether et) ctx = ⟨c.r, .ipAny, ctx, none⟩ := by
      rcases hip with h | h <;> subst h <;> simp [Spec.step, isVlanType]
    rw [walkN_next true g (k' + 3) _ _ _ _ _ _ (by simp) hstep]
    exact ip_refinesL c g hg o l ctx k' ht hst
  case case12 n c et o l h1 h2 h3 h4 =>
    obtain ⟨k', rfl⟩ : ∃ k', k = k' + 1 := ⟨k - 1, by omega⟩
    have hv : isVlanType et = false := by simpa [isVlanType] using h1
    have h5 : ¬ et = 0x0800 := fun h => h4 (Or.inl h)
    have h6 : ¬ et = 0x86dd := fun h => h4 (Or.inr h)
    have hstep : Spec.step true g c.r (.ether et) ctx = ⟨c.r, .done, ctx, none⟩ := by
      simp [Spec.step, hv, h2, h3, h5, h6]
    rw [walkN_next true g k' _ _ _ _ _ _ (by simp) hstep, walkN_done]
    exact relLaxW_of (relLax_ok hst)

/-- no stop layer names the Ethernet II header: a lax result with a stop error has its fault elsewhere -/
theorem stopLayer_not_eth (ly : Layer) : ¬ StopLayer ly .eth := by
  cases ly <;> simp [StopLayer]

theorem relLaxW_fault_not_eth {g : Mem} {m : Packet} {s : Packet × Option Fault} (h : RelLaxW g m s) (f : Fault)
    (hf : s.2 = some f) : f.unit ≠ .eth := by
  obtain ⟨_, h2⟩ := h
  rw [hf] at h2
  cases hm : m.stop with
  | none => rw [hm] at h2; exact absurd h2 (by simp)
  | some x =>
    obtain ⟨e, ly⟩ := x
    rw [hm] at h2
    simp only at h2
    rcases h2 with h2 | h2
    · intro hu
      exact stopLayer_not_eth ly (hu ▸ h2.1)
    · rw [h2.2.2.1]; simp

/-- `LaxSlicedPacket::from_ether_type` against the lax wire-format walk -/
theorem lax_from_ether_type_refinesW (g : Mem) (hg : ByteMem g) (et n : Nat) :
    RelLaxW g (laxSlicedFromEtherType g et n)
      (walkN true g maxSteps (startPacket n (.etherType et)) (.ether et) (ctx0 n)) := by
  unfold laxSlicedFromEtherType
  exact ether_refinesL _ g hg 3 et 0 n (ctx0 n) maxSteps ⟨rfl, rfl, by simp [ctx0], Or.inl rfl⟩ rfl
    (by simp [ctx0]) (by simp [maxSteps])

theorem lax_from_ether_type_refines (g : Mem) (hg : ByteMem g) (et n : Nat)
    (hnw : ¬ ShortV4Fault (walkN true g maxSteps (startPacket n (.etherType et)) (.ether et) (ctx0 n))) :
    RelLax (laxSlicedFromEtherType g et n)
      (walkN true g maxSteps (startPacket n (.etherType et)) (.ether et) (ctx0 n)) :=
  relLax_of_W (lax_from_ether_type_refinesW g hg et n) hnw

/-- `LaxSlicedPacket::from_ethernet`: `Err` exactly when the walk faults at the Ethernet II header -/
theorem lax_from_ethernet_refinesW (g : Mem) (hg : ByteMem g) (n : Nat) :
    match laxSlicedFromEthernet g n with
    | .error e =>
      ∃ f, walkN true g maxSteps Packet.empty .eth (ctx0 n) = (Packet.empty, some f) ∧ f.unit = .eth ∧ LenMatch e f
    | .ok m =>
      RelLaxW g m (walkN true g maxSteps Packet.empty .eth (ctx0 n)) ∧
        ∀ f, (walkN true g maxSteps Packet.empty .eth (ctx0 n)).2 = some f → f.unit ≠ .eth := by
  unfold laxSlicedFromEthernet eth2FromSlice
  have hav : (ctx0 n).avail = n := by simp [ctx0, Ctx.avail]
  by_cases h : n < 14
  · simp only [h, if_true]
    have hstep : Spec.step true g Packet.empty .eth (ctx0 n) =
        ⟨Packet.empty, .done, ctx0 n, some (mkFault (ctx0 n) .cutShort .eth 14)⟩ := by
      simp [Spec.step, hav, h]
    rw [show maxSteps = 11 + 1 from rfl, walkN_fault true g 11 _ _ _ _ _ _ _ (by simp) hstep]
    refine ⟨_, rfl, rfl, ?_⟩
    refine ⟨by simp [mkFault], by simp [mkFault, LayerUnit], by simp [mkFault, ctx0],
      by simp [mkFault, hav], by simp [mkFault], by simp [mkFault]⟩
  · simp only [h, if_false]
    have hstep : Spec.step true g Packet.empty .eth (ctx0 n) =
        ⟨Packet.empty.setLink (.eth2 ⟨0, n⟩), .ether (g16 g 12), { ctx0 n with off := 14 }, none⟩ := by
      have hav' : ({ off := 0, stop := n, lim := LenSource.slice, nExt := 0 } : Ctx).avail = n := hav
      simp [Spec.step, hav', h, setLink_eq, ctx0]
    rw [show maxSteps = 11 + 1 from rfl, walkN_next true g 11 _ _ _ _ _ _ (by simp) hstep]
    have key := ether_refinesL { off := 14, src := .slice, r := Packet.empty.setLink (.eth2 ⟨0, n⟩) } g hg 3
      (g16 g 12) 14 (n - 14) { ctx0 n with off := 14 } 11
      ⟨rfl, rfl, by simp [ctx0]; omega, Or.inl rfl⟩ rfl (by simp [ctx0]) (by omega)
    exact ⟨key, fun f hf => relLaxW_fault_not_eth key f hf⟩

theorem fix_zero_slice (e : LenError) : (e.addOffset 0).srcIfSlice .slice = e := by
  cases e with
  | mk req len src layer off =>
    unfold LenError.srcIfSlice LenError.addOffset LenError.withSrc
    by_cases h : src = .slice <;> simp [h]

/-- `parse_from_ip` is the cursor's `slice_ip` on a fresh cursor, except that an undecodable first
    header is returned as `Err` -/
theorem laxSlicedFromIp_eq (g : Mem) (n : Nat) :
    match laxIpSliceFromSlice g 0 n with
    | .error e => laxSlicedFromIp g n = .error e
    | .ok _ => laxSlicedFromIp g n = .ok (Cur.new.laxSliceIp g 0 n) := by
  unfold laxSlicedFromIp
  cases h : laxIpSliceFromSlice g 0 n with
  | error e => rfl
  | ok r =>
    simp only
    rw [laxSliceIp_ok Cur.new g 0 n r h]
    obtain ⟨ip, stop⟩ := r
    unfold laxIpCont
    cases stop with
    | none =>
      simp only [Cur.new, Nat.zero_add, Nat.sub_zero]
      unfold Cur.laxSliceTransport
      rfl
    | some x =>
      obtain ⟨e, ly⟩ := x
      cases e with
      | len le =>
        simp only [Cur.new, fix_zero_slice]
        rw [laxSliceTransport_stopped _ g ip.pl rfl]
      | _ => exact congrArg _ (laxSliceTransport_stopped _ g ip.pl rfl)
theorem laxSliceTransport_net (c : Cur) (g : Mem) (pl : IpPl) : (c.laxSliceTransport g pl).net = c.r.net := by
  unfold Cur.laxSliceTransport
  simp only
  repeat' split
  all_goals rfl

theorem laxIpCont_net (c : Cur) (g : Mem) (o : Nat) (r : IpR × Option (PErr × Layer)) :
    (laxIpCont c g o r).net = some (.ip r.1) := by
  obtain ⟨ip, stop⟩ := r
  unfold laxIpCont
  cases stop with
  | none => simp only; rw [laxSliceTransport_net]; rfl
  | some x =>
    obtain ⟨e, ly⟩ := x
    cases e <;> rfl

theorem stopLayer_ipHeader (u : Unit_) :
    StopLayer .ipHeader u ↔ (u = .ipAny ∨ u = .ipv4Header ∨ u = .ipv6Header) := by
  cases u <;> simp [StopLayer]

/-- `LaxSlicedPacket::from_ip` against the lax wire-format walk.  `Err` exactly when the first header
    is undecodable (then the walk faults before any layer, at the IP header); the wrinkle is the one
    of the strict `from_ip` (`ShortV4`). -/
theorem lax_from_ip_refines (g : Mem) (hg : ByteMem g) (n : Nat) :
    if g 0 / 16 = 4 ∧ 0 < n ∧ n < 20 then
      (∃ e, laxSlicedFromIp g n = .error e ∧ ShortV4 g 0 n Cur.new e) ∧
        walkN true g maxSteps Packet.empty .ipAny (ctx0 n) =
          (Packet.empty, some (mkFault (ctx0 n) .cutShort .ipv4Header 20))
    else
      match laxSlicedFromIp g n with
      | .error e =>
        ∃ f, walkN true g maxSteps Packet.empty .ipAny (ctx0 n) = (Packet.empty, some f) ∧
          (f.unit = .ipAny ∨ f.unit = .ipv4Header ∨ f.unit = .ipv6Header) ∧ ErrMatch e f
      | .ok m => RelLax m (walkN true g maxSteps Packet.empty .ipAny (ctx0 n)) ∧ m.net.isSome := by
  have ht : Tied Cur.new (ctx0 n) 0 n := ⟨rfl, rfl, by simp [ctx0], Or.inl rfl⟩
  have heq := laxSlicedFromIp_eq g n
  split
  · rename_i hw
    have hwalk : walkN true g maxSteps Packet.empty .ipAny (ctx0 n) =
        (Packet.empty, some (mkFault (ctx0 n) .cutShort .ipv4Header 20)) :=
      (ip_refinesL_short Cur.new g 0 n (ctx0 n) 9 ht hw).2
    refine ⟨?_, hwalk⟩
    have hm := laxIpSlice_v4 g 0 n hw.1 hw.2.1
    by_cases hi : g 0 % 16 < 5
    · simp only [hi, if_true] at hm
      rw [hm] at heq
      exact ⟨_, heq, Or.inl ⟨hi, rfl⟩⟩
    · have hl : n < g 0 % 16 * 4 := by omega
      simp only [hi, hl, if_true, if_false] at hm
      rw [hm] at heq
      exact ⟨_, heq, Or.inr ⟨by omega, rfl⟩⟩
  · rename_i hnw
    have h : RelLax (Cur.new.laxSliceIp g 0 n) (walkN true g maxSteps Packet.empty .ipAny (ctx0 n)) :=
      ip_refinesL_main Cur.new g hg 0 n (ctx0 n) 9 ht rfl hnw
    cases hd : laxIpSliceFromSlice g 0 n with
    | error e =>
      rw [hd] at heq
      simp only at heq
      rw [heq]
      simp only
      have hcur : Cur.new.laxSliceIp g 0 n = Packet.empty.setStop e .ipHeader := by
        cases e with
        | len le => rw [laxSliceIp_errLen Cur.new g 0 n le hd]; simp only [Cur.new, fix_zero_slice]
        | _ => exact laxSliceIp_err Cur.new g 0 n _ hd (by simp)
      rw [hcur] at h
      obtain ⟨h1, h2⟩ := h
      generalize walkN true g maxSteps Packet.empty .ipAny (ctx0 n) = s at *
      obtain ⟨p, fo⟩ := s
      cases fo with
      | none => simp at h2
      | some f =>
        simp only [stop_setStop] at h2
        have : p = Packet.empty := h1.symm
        subst this
        exact ⟨f, rfl, (stopLayer_ipHeader _).mp h2.1, h2.2⟩
    | ok r =>
      rw [hd] at heq
      simp only at heq
      rw [heq]
      simp only
      refine ⟨h, ?_⟩
      rw [laxSliceIp_ok Cur.new g 0 n r hd, laxIpCont_net]
      rfl

theorem extsLoop_stop_layer (g : Mem) (sm : Bool) (l0 nh : Nat) (frag : Bool) (slots : ExtSlots) (o l : Nat)
    (e : ExtErr) (ly : Layer) (h : (extsLoop g sm l0 nh frag slots o l).stop = some (e, ly)) : ly ≠ .ipHeader := by
  fun_induction extsLoop g sm l0 nh frag slots o l <;> simp_all [extsFail, extsDone, rawLayer]
  all_goals (try (obtain ⟨_, rfl⟩ := h))
  all_goals (try (split <;> simp))
  all_goals (try simp)

theorem extsWalk_stop_layer (g : Mem) (sm : Bool) (nh o l : Nat)
    (e : ExtErr) (ly : Layer) (h : (extsWalk g sm nh o l).stop = some (e, ly)) : ly ≠ .ipHeader := by
  unfold extsWalk at h
  split at h
  · split at h
    · simp at h; rw [← h.2]; simp
    · exact extsLoop_stop_layer _ _ _ _ _ _ _ _ _ _ h
  · exact extsLoop_stop_layer _ _ _ _ _ _ _ _ _ _ h
theorem ipv4AfterHeaderLax_stop_layer (g : Mem) (o l hl : Nat) (e : PErr) (ly : Layer)
    (h : (ipv4AfterHeaderLax g o l hl).2 = some (e, ly)) : ly ≠ .ipHeader := by
  unfold ipv4AfterHeaderLax at h
  simp only at h
  split at h
  · split at h
    · simp at h
    · rename_i e' _
      cases e' <;> (simp at h; rw [← h.2]; simp)
  · simp at h

theorem ipv6AfterHeaderLax_stop_layer (g : Mem) (sm : Bool) (o l : Nat) (e : PErr) (ly : Layer)
    (h : (ipv6AfterHeaderLax g sm o l).2 = some (e, ly)) : ly ≠ .ipHeader := by
  unfold ipv6AfterHeaderLax at h
  simp only at h
  split at h
  · simp at h
  · rename_i e' ly' hst
    simp at h
    rw [← h.2]
    exact extsWalk_stop_layer _ _ _ _ _ _ _ hst
  · rename_i e' ly' _ hst
    simp at h
    rw [← h.2]
    exact extsWalk_stop_layer _ _ _ _ _ _ _ hst

theorem laxIpSlice_stop_layer (g : Mem) (o l : Nat) (r : IpR × Option (PErr × Layer)) (e : PErr) (ly : Layer)
    (h : laxIpSliceFromSlice g o l = .ok r) (hs : r.2 = some (e, ly)) : ly ≠ .ipHeader := by
  unfold laxIpSliceFromSlice at h
  split at h
  · cases h
  · cases h; exact ipv4AfterHeaderLax_stop_layer _ _ _ _ _ _ hs
  · cases h; exact ipv6AfterHeaderLax_stop_layer _ _ _ _ _ _ hs

theorem laxSliceTransport_stop_layer (c : Cur) (g : Mem) (pl : IpPl) (e : PErr) (ly : Layer)
    (hc : c.r.stop = none) (h : (c.laxSliceTransport g pl).stop = some (e, ly)) : ly ≠ .ipHeader := by
  unfold Cur.laxSliceTransport at h
  simp only at h
  repeat' split at h
  all_goals (first | (simp [hc] at h; done) | (simp at h; rw [← h.2]; simp))

theorem laxIpCont_stop_layer (c : Cur) (g : Mem) (o : Nat) (r : IpR × Option (PErr × Layer)) (e : PErr) (ly : Layer)
    (hc : c.r.stop = none) (hr : ∀ e ly, r.2 = some (e, ly) → ly ≠ .ipHeader)
    (h : (laxIpCont c g o r).stop = some (e, ly)) : ly ≠ .ipHeader := by
  obtain ⟨ip, stop⟩ := r
  unfold laxIpCont at h
  cases stop with
  | none => exact laxSliceTransport_stop_layer _ g ip.pl e ly (by simp [hc]) h
  | some x =>
    obtain ⟨e', ly'⟩ := x
    have := hr e' ly' rfl
    cases e' <;> (simp at h; rw [← h.2]; exact this)

/-- a lax `from_ip` result that is `Ok` never has a stop error at the first (IP) header -/
theorem laxSlicedFromIp_stop_layer (g : Mem) (n : Nat) (m : Packet) (e : PErr) (ly : Layer)
    (h : laxSlicedFromIp g n = .ok m) (hs : m.stop = some (e, ly)) : ly ≠ .ipHeader := by
  have heq := laxSlicedFromIp_eq g n
  cases hd : laxIpSliceFromSlice g 0 n with
  | error e' => rw [hd] at heq; simp only at heq; rw [heq] at h; cases h
  | ok r =>
    rw [hd] at heq
    simp only at heq
    rw [heq] at h
    cases h
    rw [laxSliceIp_ok Cur.new g 0 n r hd] at hs
    exact laxIpCont_stop_layer Cur.new g 0 r e ly rfl (fun e ly h => laxIpSlice_stop_layer g 0 n r e ly hd h) hs

theorem stopLayer_first (ly : Layer) (u : Unit_) (h : StopLayer ly u)
    (hu : u = .ipAny ∨ u = .ipv4Header ∨ u = .ipv6Header) : ly = .ipHeader := by
  rcases hu with rfl | rfl | rfl <;> cases ly <;> simp_all [StopLayer]

/-- if lax `from_ip` is `Ok`, a fault of the walk is not at the first (IP) header -/
theorem lax_from_ip_ok_fault_unit (g : Mem) (hg : ByteMem g) (n : Nat) (m : Packet)
    (h : laxSlicedFromIp g n = .ok m) (f : Fault)
    (hf : (walkN true g maxSteps Packet.empty .ipAny (ctx0 n)).2 = some f) :
    ¬ (f.unit = .ipAny ∨ f.unit = .ipv4Header ∨ f.unit = .ipv6Header) := by
  have key := lax_from_ip_refines g hg n
  split at key
  · obtain ⟨⟨e, he, _⟩, _⟩ := key
    rw [he] at h; cases h
  · rw [h] at key
    simp only at key
    obtain ⟨⟨_, h2⟩, _⟩ := key
    rw [hf] at h2
    cases hm : m.stop with
    | none => rw [hm] at h2; exact absurd h2 (by simp)
    | some x =>
      obtain ⟨e, ly⟩ := x
      rw [hm] at h2
      simp only at h2
      intro hu
      exact laxSlicedFromIp_stop_layer g n m e ly h hm (stopLayer_first ly f.unit h2.1 hu)

/-- `RelLax` spelled out -/
theorem relLax_iff (m : Packet) (s : Packet × Option Fault) :
    RelLax m s ↔
      (noStop m = s.1 ∧ (m.stop = none ↔ s.2 = none) ∧
        ∀ e ly f, m.stop = some (e, ly) → s.2 = some f → StopLayer ly f.unit ∧ ErrMatch e f) := by
  obtain ⟨p, fo⟩ := s
  unfold RelLax StopMatch
  cases hm : m.stop with
  | none => cases fo <;> simp
  | some x =>
    obtain ⟨e, ly⟩ := x
    cases fo <;> simp

/-- `RelLaxW` spelled out -/
theorem relLaxW_iff (g : Mem) (m : Packet) (s : Packet × Option Fault) :
    RelLaxW g m s ↔
      (noStop m = s.1 ∧ (m.stop = none ↔ s.2 = none) ∧
        ∀ e ly f, m.stop = some (e, ly) → s.2 = some f →
          (StopLayer ly f.unit ∧ ErrMatch e f) ∨ ShortV4Stop g e ly f) := by
  obtain ⟨p, fo⟩ := s
  unfold RelLaxW StopMatch
  cases hm : m.stop with
  | none => cases fo <;> simp
  | some x =>
    obtain ⟨e, ly⟩ := x
    cases fo <;> simp

/-- also inside the wrinkle a stop error is located where the fault is: the recorded layer names the
    faulting unit, and a length error carries the fault's absolute offset and available bytes -/
theorem relLaxW_located {g : Mem} {m : Packet} {s : Packet × Option Fault} (h : RelLaxW g m s)
    (e : PErr) (ly : Layer) (f : Fault) (hm : m.stop = some (e, ly)) (hf : s.2 = some f) :
    StopLayer ly f.unit ∧ ∀ le, e = .len le → le.off = f.off ∧ le.len = f.avail := by
  obtain ⟨_, _, h3⟩ := (relLaxW_iff g m s).mp h
  rcases h3 e ly f hm hf with ⟨h1, h2⟩ | h2
  · refine ⟨h1, ?_⟩
    rintro le rfl
    exact ⟨h2.off, h2.len⟩
  · obtain ⟨rfl, _, hu, _, _, _, _, h8⟩ := h2
    refine ⟨by rw [hu]; trivial, ?_⟩
    rintro le rfl
    rcases h8 with ⟨_, h⟩ | ⟨_, s', _, h⟩
    · cases h
    · cases h; exact ⟨rfl, rfl⟩

theorem byteMem_memOf (b : Bytes) : ByteMem (memOf b) := fun i => bAt_lt b i

end EpModel.Lemmas.RefineLax
