import EpModel.Lemmas.DecRefineLaxIp
/-
  Lax refinement (C05), part 3: ARP, the lax link-extension loop (`Cur.laxSliceEtherType`) and the
  three lax entry points of `LaxSlicedPacket`.
-/
namespace EpModel.Lemmas.RefineLax
set_option linter.unusedSimpArgs false
open EpModel EpModel.Dec EpModel.Spec EpModel.Lemmas.Refine

theorem arp_fault_unit (lax : Bool) (g : Mem) (p : Packet) (ctx : Ctx) (f : Fault)
    (h : (Spec.step lax g p (.ether 0x0806) ctx).fault = some f) : f.unit = .arp := by
  simp only [Spec.step, isVlanType] at h
  simp only [show ¬ ((0x0806 : Nat) = 0x8100 ∨ (0x0806 : Nat) = 0x88a8 ∨ (0x0806 : Nat) = 0x9100) by omega,
    decide_false, Bool.false_eq_true, if_false, show ¬ ((0x0806 : Nat) = 0x88e5) by omega, if_true] at h
  repeat' split at h
  all_goals (simp at h)
  all_goals (subst h; simp [mkFault])

theorem arp_refinesL (c : Cur) (g : Mem) (o l : Nat) (ctx : Ctx) (k : Nat) (ht : Tied c ctx o l)
    (hst : c.r.stop = none) :
    RelLax (c.laxSliceArp g o l) (walkN true g (k + 1) c.r (.ether 0x0806) ctx) := by
  have hstep := arp_step g c.r ctx o l ht.coff ht.stop
  rw [← step_arp_indep true] at hstep
  unfold Cur.laxSliceArp
  split at hstep
  · rename_i w hw
    obtain ⟨c', hs1⟩ := hstep
    rw [hw, walkN_next true g k _ _ _ _ _ _ (by simp) hs1, walkN_done]
    exact relLax_ok (by simp [hst])
  · rename_i e he
    obtain ⟨f, hf, hrel⟩ := hstep
    rw [he, walkN_fault true g k _ _ _ _ _ _ f (by simp) hf]
    have hu := arp_fault_unit true g c.r ctx f (by rw [hf])
    exact relLax_stop hst ⟨by rw [hu]; trivial, lenRel_fix e f c ctx o l ht hrel⟩

/-- the lax link-extension loop and what follows, against the lax walk from an ether type tag -/
theorem ether_refinesL (c : Cur) (g : Mem) (hg : ByteMem g) (n et o l : Nat) (ctx : Ctx) (k : Nat)
    (ht : Tied c ctx o l) (hst : c.r.stop = none) (hn : ctx.nExt + n = 3) (hk : n + 4 ≤ k) :
    RelLaxW g (c.laxSliceEtherType g n et o l) (walkN true g k c.r (.ether et) ctx) := by
  fun_induction Cur.laxSliceEtherType c g n et o l generalizing ctx k
  case case1 c et o l het =>
    obtain ⟨k', rfl⟩ : ∃ k', k = k' + 1 := ⟨k - 1, by omega⟩
    have hne : ctx.nExt = 3 := by omega
    have hv : isVlanType et = true := by simpa [isVlanType] using het
    have hstep : Spec.step true g c.r (.ether et) ctx = ⟨c.r, .done, ctx, none⟩ := by
      simp [Spec.step, hv, hne]
    rw [walkN_next true g k' _ _ _ _ _ _ (by simp) hstep, walkN_done]
    exact relLaxW_of (relLax_ok hst)
  case case2 c et o l het n e hv =>
    obtain ⟨k', rfl⟩ : ∃ k', k = k' + 1 := ⟨k - 1, by omega⟩
    have hne : ¬ ctx.nExt = 3 := by omega
    have hvl : isVlanType et = true := by simpa [isVlanType] using het
    have hav : ctx.avail = l := by unfold Ctx.avail; have := ht.coff; have := ht.stop; omega
    have hl4 : l < 4 ∧ e = { req := 4, len := l, src := .slice, layer := .vlanHeader, off := 0 } := by
      unfold vlanFromSlice at hv
      split at hv
      · cases hv; exact ⟨by assumption, rfl⟩
      · contradiction
    have hstep : Spec.step true g c.r (.ether et) ctx = ⟨c.r, .done, ctx, some (mkFault ctx .cutShort .vlan 4)⟩ := by
      simp [Spec.step, hvl, hne, hav, hl4.1]
    rw [walkN_fault true g k' _ _ _ _ _ _ _ (by simp) hstep]
    have hrel : LenRel e (mkFault ctx .cutShort .vlan 4) o ctx.lim := by
      rw [hl4.2]
      have hco := ht.coff
      lenrel
    exact relLaxW_of (relLax_stop hst ⟨by simp [mkFault, StopLayer],
      lenRel_addOff e _ c o ctx.lim ht.off hrel (by rw [hl4.2]; simp)⟩)
  case case3 c et o l het n w hv ih =>
    obtain ⟨k', rfl⟩ : ∃ k', k = k' + 1 := ⟨k - 1, by omega⟩
    have hne : ¬ ctx.nExt = 3 := by omega
    have hvl : isVlanType et = true := by simpa [isVlanType] using het
    have hav : ctx.avail = l := by unfold Ctx.avail; have := ht.coff; have := ht.stop; omega
    have hw := EpModel.Lemmas.Dec.vlan_in o l w hv
    have hl4 : ¬ l < 4 := by omega
    have hstep : Spec.step true g c.r (.ether et) ctx =
        ⟨c.r.pushExt (.vlan w), .ether (g16 g (o + 2)), { ctx with off := o + 4, nExt := ctx.nExt + 1 }, none⟩ := by
      simp [Spec.step, hvl, hne, hav, hl4, addExt_eq, ht.coff, hw.1]
    rw [walkN_next true g k' _ _ _ _ _ _ (by simp) hstep]
    apply ih
    · exact ⟨by simp [ht.off], rfl, by simp [ht.stop]; omega, by simpa using ht.src⟩
    · simp [hst]
    · simp; omega
    · omega
  case case4 c o l hnv =>
    obtain ⟨k', rfl⟩ : ∃ k', k = k' + 1 := ⟨k - 1, by omega⟩
    have hne : ctx.nExt = 3 := by omega
    have hstep : Spec.step true g c.r (.ether 0x88e5) ctx = ⟨c.r, .done, ctx, none⟩ := by
      simp [Spec.step, isVlanType, hne]
    rw [walkN_next true g k' _ _ _ _ _ _ (by simp) hstep, walkN_done]
    exact relLaxW_of (relLax_ok hst)
  case case5 c o l n e he hnv =>
    obtain ⟨k', rfl⟩ : ∃ k', k = k' + 1 := ⟨k - 1, by omega⟩
    have hstep := macsec_stepL g hg c.r ctx o l ht.coff ht.stop (by omega)
    rw [he] at hstep
    obtain ⟨f, hf, hrel, hly, hu⟩ := hstep
    rw [walkN_fault true g k' _ _ _ _ _ _ f (by simp) hf]
    exact relLaxW_of (relLax_stop hst ⟨by rw [hu, hly]; trivial,
      lenRel_addOff e f c o ctx.lim ht.off hrel (lenRel_src_weak hrel)⟩)
  case case6 c o l n e hnl he hnv =>
    obtain ⟨k', rfl⟩ : ∃ k', k = k' + 1 := ⟨k - 1, by omega⟩
    have hstep := macsec_stepL g hg c.r ctx o l ht.coff ht.stop (by omega)
    rw [he] at hstep
    cases e with
    | len le => exact absurd rfl (fun h => hnl le h)
    | _ =>
      obtain ⟨f, hf, hrel, hu⟩ := hstep
      rw [walkN_fault true g k' _ _ _ _ _ _ f (by simp) hf]
      exact relLaxW_of (relLax_stop hst ⟨by rw [hu]; trivial, contentMatch_err hrel⟩)
  case case7 c o l n hdr pl src inc hm r' et' hnx hnv ih =>
    obtain ⟨k', rfl⟩ : ∃ k', k = k' + 1 := ⟨k - 1, by omega⟩
    have hstep := macsec_stepL g hg c.r ctx o l ht.coff ht.stop (by omega)
    rw [hm] at hstep
    obtain ⟨hs1, hplo, _, _, hsrc⟩ := hstep
    rw [hnx] at hs1
    rw [walkN_next true g k' _ _ _ _ _ _ (by simp) hs1]
    apply ih
    · refine ⟨by simp only [ht.off]; omega, rfl, rfl, ?_⟩
      simp only
      by_cases h0 : src = .slice
      · simp only [h0, ne_eq, not_true_eq_false, if_false, inherit, if_true]
        exact ht.src
      · simp only [h0, ne_eq, not_false_eq_true, if_true, inherit, if_false]; right; trivial
    · simp [r', hst]
    · simp only; omega
    · omega
  case case8 c o l n hdr pl src inc hm r' hnx hnv =>
    obtain ⟨k', rfl⟩ : ∃ k', k = k' + 1 := ⟨k - 1, by omega⟩
    have hstep := macsec_stepL g hg c.r ctx o l ht.coff ht.stop (by omega)
    rw [hm] at hstep
    obtain ⟨hs1, _⟩ := hstep
    rw [hnx] at hs1
    rw [walkN_next true g k' _ _ _ _ _ _ (by simp) hs1, walkN_done]
    exact relLaxW_of (relLax_ok (by simp [r', hst]))
  case case9 c o l n x hno hx hnv =>
    have hstep := macsec_stepL g hg c.r ctx o l ht.coff ht.stop (by omega)
    rw [hx] at hstep
    cases x <;> first | exact (hno _ _ _ _ rfl).elim | exact hstep.elim
  case case10 n c o l _ _ =>
    obtain ⟨k', rfl⟩ : ∃ k', k = k' + 1 := ⟨k - 1, by omega⟩
    exact relLaxW_of (arp_refinesL c g o l ctx k' ht hst)
  case case11 n c et o l h1 h2 h3 hip =>
    obtain ⟨k', rfl⟩ : ∃ k', k = k' + 4 := ⟨k - 4, by omega⟩
    have hstep : Spec.step true g c.r (.ether et) ctx = ⟨c.r, .ipAny, ctx, none⟩ := by
      rcases hip with h | h <;> subst h <;> simp [Spec.step, isVlanType]
    rw [walkN_next true g (k' + 3) _ _ _ _ _ _ (by simp) hstep]
    exact ip_refinesL c g hg o l ctx k' ht hst
  case case12 n c et o l h1 h2 h3 h4 =>
    obtain ⟨k', rfl⟩ : ∃ k', k = k' + 1 := ⟨k - 1, by omega⟩
    have hv : isVlanType et = false := by simpa [isVlanType] using h1
    have h5 : ¬ et = 0x0800 := fun h => h4 (Or.inl h)
    have h6 : ¬ et = 0x86dd := fun h => h4 (Or.inr h)
    have hstep : Spec.step true g c.r (.ether et) ctx = ⟨c.r, .done, ctx, none⟩ := by
      simp [Spec.step, hv, h2, h3, h5, h6]
    rw [walkN_next true g k' _ _ _ _ _ _ (by simp) hstep, walkN_done]
    exact relLaxW_of (relLax_ok hst)

end EpModel.Lemmas.RefineLax
