import EpModel.Model.BitFields
import EpModel.Spec.BitLayout
/-
  Helper lemmas for C15: bitwise or of disjoint operands is addition, byte access into literal
  lists, well-formedness predicates of the six header models and the "arithmetic form" of each
  `to_bytes` (the same bytes written with `+` instead of `|||`, valid for well-formed headers).
-/
namespace EpModel.BitFields
open EpModel EpModel.Spec.BitLayout

/-! ### bitwise or -/

/-- `a | b = a + b` when `a` is a multiple of `2^i` and `b` is below `2^i`. -/
theorem lor_eq_add (i a b : Nat) (ha : a % 2 ^ i = 0) (hb : b < 2 ^ i) : a ||| b = a + b := by
  have h := Nat.two_pow_add_eq_or_of_lt hb (a / 2 ^ i)
  have e : 2 ^ i * (a / 2 ^ i) = a := by
    have := Nat.div_add_mod a (2 ^ i); omega
  rw [e] at h; exact h.symm

/-- the same with the operands swapped. -/
theorem lor_eq_add' (i a b : Nat) (ha : a < 2 ^ i) (hb : b % 2 ^ i = 0) : a ||| b = a + b := by
  rw [Nat.or_comm, lor_eq_add i b a hb ha, Nat.add_comm]

/-- setting bit 3 of a byte (`raw |= 0b1000`), whatever its previous value. -/
theorem lor_8 (x : Nat) : x ||| 8 = x / 16 * 16 + 8 + x % 8 := by
  have small : ∀ r, r < 16 → r ||| 8 = 8 + r % 8 := by decide
  have hr : x % 16 < 2 ^ 4 := by omega
  have h1 := Nat.two_pow_add_eq_or_of_lt hr (x / 16)
  have hx : x = 2 ^ 4 * (x / 16) + x % 16 := by omega
  have h2 : (x % 16 ||| 8) < 2 ^ 4 := Nat.or_lt_two_pow hr (by omega)
  have h3 := Nat.two_pow_add_eq_or_of_lt h2 (x / 16)
  calc x ||| 8 = (2 ^ 4 * (x / 16) ||| x % 16) ||| 8 := by rw [← h1, ← hx]
    _ = 2 ^ 4 * (x / 16) ||| (x % 16 ||| 8) := Nat.or_assoc _ _ _
    _ = 2 ^ 4 * (x / 16) + (x % 16 ||| 8) := h3.symm
    _ = x / 16 * 16 + 8 + x % 8 := by rw [small _ (by omega)]; omega

/-! ### bytes of literal lists -/

@[simp] theorem bAt_cons_zero (x : UInt8) (xs : Bytes) : bAt (x :: xs) 0 = x.toNat := by
  simp [bAt]
@[simp] theorem bAt_cons_succ (x : UInt8) (xs : Bytes) (n : Nat) :
    bAt (x :: xs) (n + 1) = bAt xs n := by
  simp [bAt]
@[simp] theorem bAt_nil (n : Nat) : bAt [] n = 0 := by simp [bAt]

theorem arr_toNat (b : Bytes) (i : Nat) : (arr b i).toNat = bAt b i := rfl

theorem u8_congr {a b : Nat} (h : a % 256 = b % 256) : u8 a = u8 b := by
  unfold u8; rw [h]

/-- a byte rebuilt from its value. -/
theorem u8_toNat_self (x : UInt8) : u8 x.toNat = x := by
  unfold u8
  have := x.toNat_lt
  rw [Nat.mod_eq_of_lt (by omega)]
  exact UInt8.ofNat_toNat

theorem u8_bAt (b : Bytes) (i : Nat) : u8 (bAt b i) = arr b i := by
  unfold bAt arr; exact u8_toNat_self _

theorem list4_eta (l : Bytes) (h : l.length = 4) : [arr l 0, arr l 1, arr l 2, arr l 3] = l := by
  match l, h with
  | [_, _, _, _], _ => rfl

theorem list16_eta (l : Bytes) (h : l.length = 16) :
    [arr l 0, arr l 1, arr l 2, arr l 3, arr l 4, arr l 5, arr l 6, arr l 7,
     arr l 8, arr l 9, arr l 10, arr l 11, arr l 12, arr l 13, arr l 14, arr l 15] = l := by
  match l, h with
  | [_, _, _, _, _, _, _, _, _, _, _, _, _, _, _, _], _ => rfl

/-! ### well-formed header values: every field holds a value of its Rust type -/

def Vlan.WF (h : Vlan) : Prop := h.pcp < 8 ∧ h.vid < 4096 ∧ h.etherType < 65536
instance (h : Vlan) : Decidable h.WF := by unfold Vlan.WF; infer_instance

def Ip4.WF (h : Ip4) : Prop :=
  h.dscp < 64 ∧ h.ecn < 4 ∧ h.totalLen < 65536 ∧ h.ident < 65536 ∧ h.fragOff < 8192 ∧ h.ttl < 256 ∧
  h.proto < 256 ∧ h.checksum < 65536 ∧ h.src.length = 4 ∧ h.dst.length = 4 ∧
  h.options.length ≤ 40 ∧ h.options.length % 4 = 0
instance (h : Ip4) : Decidable h.WF := by unfold Ip4.WF; infer_instance

def Ip6.WF (h : Ip6) : Prop :=
  h.trafficClass < 256 ∧ h.flowLabel < 1048576 ∧ h.payloadLen < 65536 ∧ h.nextHeader < 256 ∧
  h.hopLimit < 256 ∧ h.src.length = 16 ∧ h.dst.length = 16
instance (h : Ip6) : Decidable h.WF := by unfold Ip6.WF; infer_instance

def Frag6.WF (h : Frag6) : Prop := h.nextHeader < 256 ∧ h.fragOff < 8192 ∧ h.ident < 4294967296
instance (h : Frag6) : Decidable h.WF := by unfold Frag6.WF; infer_instance

def PType.WF : PType → Prop
  | .unmodified e => e < 65536
  | _ => True
instance (p : PType) : Decidable p.WF := by cases p <;> unfold PType.WF <;> infer_instance

def Macsec.WF (h : Macsec) : Prop :=
  h.ptype.WF ∧ h.an < 4 ∧ h.shortLen < 64 ∧ h.pn < 4294967296 ∧
  (∀ s, h.sci = some s → s < 18446744073709551616)
instance (h : Macsec) : Decidable h.WF := by
  unfold Macsec.WF
  cases h.sci <;> simp <;> infer_instance

def Query.WF (h : Query) : Prop :=
  h.maxRespCode < 256 ∧ h.group.length = 4 ∧ h.rawByte8 < 256 ∧ h.qqic < 256 ∧ h.numSources < 65536
instance (h : Query) : Decidable h.WF := by unfold Query.WF; infer_instance

/-! ### checked constructors -/

/-- what it means for `f` to be the checked constructor of a `bits` wide type: it accepts exactly
    the values below `2^bits`, returns them unchanged, and otherwise reports the offending value,
    the maximum and the value type. -/
def Exact (bits : Nat) (vt : ValueType) (f : Nat → Except TooBig Nat) : Prop :=
  ∀ v, ((f v).isOk = true ↔ v < 2 ^ bits) ∧ (v < 2 ^ bits → f v = .ok v) ∧
    (¬ v < 2 ^ bits → f v = .error ⟨v, 2 ^ bits - 1, vt⟩)

theorem exact_of (bits : Nat) (vt : ValueType) (f : Nat → Except TooBig Nat)
    (h : ∀ v, f v = if v ≤ 2 ^ bits - 1 then .ok v else .error ⟨v, 2 ^ bits - 1, vt⟩) :
    Exact bits vt f := by
  intro v
  have hp : 0 < 2 ^ bits := Nat.two_pow_pos bits
  rw [h v]
  refine ⟨?_, ?_, ?_⟩
  · split <;> simp [Except.isOk, Except.toBool] <;> omega
  · intro hv; rw [if_pos (by omega)]
  · intro hv; rw [if_neg (by omega)]

/-! ### named access to header fields (names as in the layout tables of `Spec.BitLayout`) -/

def b2n (b : Bool) : Nat := if b then 1 else 0

def Vlan.get (h : Vlan) (name : String) : Nat :=
  if name = "pcp" then h.pcp else if name = "dei" then b2n h.dei
  else if name = "vid" then h.vid else if name = "ether_type" then h.etherType else 0

def Vlan.set (h : Vlan) (name : String) (v : Nat) : Vlan :=
  if name = "pcp" then { h with pcp := v } else if name = "dei" then { h with dei := decide (v ≠ 0) }
  else if name = "vid" then { h with vid := v }
  else if name = "ether_type" then { h with etherType := v } else h

/-! ### arithmetic form of the encoders -/

theorem Vlan.toBytes_arith (h : Vlan) (wf : h.WF) :
    h.toBytes = [u8 (h.pcp * 32 + (if h.dei then 16 else 0) + h.vid / 256), u8 (h.vid % 256),
      u8 (h.etherType / 256 % 256), u8 (h.etherType % 256)] := by
  obtain ⟨h1, h2, h3⟩ := wf
  unfold Vlan.toBytes
  have e1 : h.vid / 256 % 256 ||| 16 = h.vid / 256 % 256 + 16 :=
    lor_eq_add' 4 _ _ (by omega) (by omega)
  simp only [e1]
  have e2 : ∀ x, x < 32 → x ||| (h.pcp * 32 % 256) = x + h.pcp * 32 % 256 :=
    fun x hx => lor_eq_add' 5 _ _ (by omega) (by omega)
  cases hd : h.dei <;> simp only [if_true, if_false, Bool.false_eq_true]
  · rw [e2 _ (by omega)]
    have : h.vid / 256 % 256 + h.pcp * 32 % 256 = h.pcp * 32 + 0 + h.vid / 256 := by omega
    rw [this]
  · rw [e2 _ (by omega)]
    have : h.vid / 256 % 256 + 16 + h.pcp * 32 % 256 = h.pcp * 32 + 16 + h.vid / 256 := by omega
    rw [this]

/-! ### Ipv6FragmentHeader -/

def Frag6.get (h : Frag6) (name : String) : Nat :=
  if name = "next_header" then h.nextHeader else if name = "frag_off" then h.fragOff
  else if name = "m" then b2n h.mf else if name = "identification" then h.ident else 0

def Frag6.set (h : Frag6) (name : String) (v : Nat) : Frag6 :=
  if name = "next_header" then { h with nextHeader := v }
  else if name = "frag_off" then { h with fragOff := v }
  else if name = "m" then { h with mf := decide (v ≠ 0) }
  else if name = "identification" then { h with ident := v } else h

def Frag6.settable : List String := ["next_header", "frag_off", "m", "identification"]

theorem Frag6.toBytes_arith (h : Frag6) (wf : h.WF) :
    h.toBytes = [u8 h.nextHeader, 0, u8 ((h.fragOff * 8 + b2n h.mf) / 256 % 256),
      u8 ((h.fragOff * 8 + b2n h.mf) % 256),
      u8 (h.ident / 16777216 % 256), u8 (h.ident / 65536 % 256), u8 (h.ident / 256 % 256),
      u8 (h.ident % 256)] := by
  obtain ⟨h1, h2, h3⟩ := wf
  unfold Frag6.toBytes
  have e : (h.fragOff * 8 % 65536) ||| (if h.mf then 1 else 0) = h.fragOff * 8 + b2n h.mf := by
    rw [lor_eq_add 3 _ _ (by omega) (by split <;> omega)]
    unfold b2n; omega
  simp only [e]

/-! ### igmp::MembershipQueryWithSourcesHeader (IGMPv3 query) -/

@[simp] theorem arr_cons_zero (x : UInt8) (xs : Bytes) : arr (x :: xs) 0 = x := by simp [arr]
@[simp] theorem arr_cons_succ (x : UInt8) (xs : Bytes) (n : Nat) :
    arr (x :: xs) (n + 1) = arr xs n := by simp [arr]

def Query.get (h : Query) (checksum : Nat) (name : String) : Nat :=
  if name = "type" then 17 else if name = "max_resp_code" then h.maxRespCode
  else if name = "checksum" then checksum else if name = "group" then spanVal h.group 0 4
  else if name = "flags" then h.rawByte8 / 16 else if name = "s" then h.rawByte8 / 8 % 2
  else if name = "qrv" then h.rawByte8 % 8 else if name = "qqic" then h.qqic
  else if name = "num_sources" then h.numSources else 0

theorem Query.setFlags_arith (raw v : Nat) :
    Query.setFlags raw v = raw % 16 + v % 16 * 16 := by
  unfold Query.setFlags
  rw [lor_eq_add' 4 _ _ (by omega) (by omega)]; omega

theorem Query.setSFlag_arith (raw : Nat) (v : Bool) :
    Query.setSFlag raw v = raw / 16 * 16 + b2n v * 8 + raw % 8 := by
  unfold Query.setSFlag b2n
  cases v <;> simp [lor_8] <;> omega

theorem Query.setQrv_arith (raw v : Nat) : Query.setQrv raw v = raw / 8 * 8 + v % 8 := by
  unfold Query.setQrv
  rw [lor_eq_add 3 _ _ (by omega) (by omega)]

/-! ### Ipv6Header -/

theorem spanVal_lt_aux (b : Bytes) (off n : Nat) : spanVal b off n < 256 ^ n := by
  induction n with
  | zero => simp [spanVal]
  | succ n ih =>
    have := bAt_lt b (off + n)
    simp only [spanVal, Nat.pow_succ]
    omega

/-- a field that consists of `n` whole bytes is the big endian value of those bytes. -/
theorem extract_whole_aux (name : String) (off n : Nat) (b : Bytes) :
    extract ⟨name, off, 0, 8 * n⟩ b = spanVal b off n := by
  have h1 : (0 + 8 * n + 7) / 8 = n := by omega
  have h2 : n * 8 - 0 - 8 * n = 0 := by omega
  have h3 : (2 : Nat) ^ (8 * n) = 256 ^ n := by rw [Nat.pow_mul]
  simp only [extract, Field.nBytes, Field.low, h1, h2, Nat.pow_zero, Nat.div_one, h3]
  exact Nat.mod_eq_of_lt (spanVal_lt_aux b off n)

theorem bAt_sub_aux (b : Bytes) (o l i : Nat) (h : i < l) : bAt (sub b o l) i = bAt b (o + i) := by
  unfold bAt sub
  simp [List.getD_eq_getElem?_getD, h]

theorem tc_or_aux (x y : Nat) (hy : y < 256) :
    (x * 16 % 256) ||| (y / 16) = x * 16 % 256 + y / 16 :=
  lor_eq_add 4 _ _ (by omega) (by omega)

def Ip6.get (h : Ip6) (name : String) : Nat :=
  if name = "version" then 6 else if name = "traffic_class" then h.trafficClass
  else if name = "flow_label" then h.flowLabel else if name = "payload_len" then h.payloadLen
  else if name = "next_header" then h.nextHeader else if name = "hop_limit" then h.hopLimit
  else if name = "src" then spanVal h.src 0 16 else if name = "dst" then spanVal h.dst 0 16 else 0

def Ip6.set (h : Ip6) (name : String) (v : Nat) : Ip6 :=
  if name = "traffic_class" then { h with trafficClass := v }
  else if name = "flow_label" then { h with flowLabel := v }
  else if name = "payload_len" then { h with payloadLen := v }
  else if name = "next_header" then { h with nextHeader := v }
  else if name = "hop_limit" then { h with hopLimit := v } else h

def Ip6.settable : List String :=
  ["traffic_class", "flow_label", "payload_len", "next_header", "hop_limit"]

theorem Ip6.toBytes_arith (h : Ip6) (wf : h.WF) :
    h.toBytes =
  [ u8 (96 + h.trafficClass / 16),
    u8 (h.trafficClass * 16 % 256 + h.flowLabel / 65536),
    u8 (h.flowLabel / 256 % 256), u8 (h.flowLabel % 256),
    u8 (h.payloadLen / 256 % 256), u8 (h.payloadLen % 256),
    u8 h.nextHeader, u8 h.hopLimit,
    arr h.src 0, arr h.src 1, arr h.src 2, arr h.src 3,
    arr h.src 4, arr h.src 5, arr h.src 6, arr h.src 7,
    arr h.src 8, arr h.src 9, arr h.src 10, arr h.src 11,
    arr h.src 12, arr h.src 13, arr h.src 14, arr h.src 15,
    arr h.dst 0, arr h.dst 1, arr h.dst 2, arr h.dst 3,
    arr h.dst 4, arr h.dst 5, arr h.dst 6, arr h.dst 7,
    arr h.dst 8, arr h.dst 9, arr h.dst 10, arr h.dst 11,
    arr h.dst 12, arr h.dst 13, arr h.dst 14, arr h.dst 15 ] := by
  obtain ⟨h1, h2, h3, h4, h5, h6, h7⟩ := wf
  unfold Ip6.toBytes
  have e0 : (6 * 16) ||| (h.trafficClass / 16) = 96 + h.trafficClass / 16 :=
    lor_eq_add 4 _ _ (by omega) (by omega)
  have e1 : (h.trafficClass * 16 % 256) ||| (h.flowLabel / 65536 % 256)
      = h.trafficClass * 16 % 256 + h.flowLabel / 65536 := by
    rw [lor_eq_add 4 _ _ (by omega) (by omega)]; omega
  simp only [e0, e1]

/-! ### Ipv4Header -/

def Ip4.get (h : Ip4) (name : String) : Nat :=
  if name = "version" then 4 else if name = "ihl" then 5 + h.options.length / 4
  else if name = "dscp" then h.dscp else if name = "ecn" then h.ecn
  else if name = "total_len" then h.totalLen else if name = "identification" then h.ident
  else if name = "df" then b2n h.df else if name = "mf" then b2n h.mf
  else if name = "frag_off" then h.fragOff else if name = "ttl" then h.ttl
  else if name = "protocol" then h.proto else if name = "checksum" then h.checksum
  else if name = "src" then spanVal h.src 0 4 else if name = "dst" then spanVal h.dst 0 4 else 0

def Ip4.set (h : Ip4) (name : String) (v : Nat) : Ip4 :=
  if name = "dscp" then { h with dscp := v } else if name = "ecn" then { h with ecn := v }
  else if name = "total_len" then { h with totalLen := v }
  else if name = "identification" then { h with ident := v }
  else if name = "df" then { h with df := decide (v ≠ 0) }
  else if name = "mf" then { h with mf := decide (v ≠ 0) }
  else if name = "frag_off" then { h with fragOff := v } else if name = "ttl" then { h with ttl := v }
  else if name = "protocol" then { h with proto := v }
  else if name = "checksum" then { h with checksum := v } else h

def Ip4.settable : List String :=
  ["dscp", "ecn", "total_len", "identification", "df", "mf", "frag_off", "ttl", "protocol", "checksum"]

theorem Ip4.first20_arith (h : Ip4) (wf : h.WF) (c : Nat) :
    h.first20 c =
  [ u8 (64 + (5 + h.options.length / 4)),
    u8 (h.dscp * 4 + h.ecn),
    u8 (h.totalLen / 256 % 256), u8 (h.totalLen % 256),
    u8 (h.ident / 256 % 256), u8 (h.ident % 256),
    u8 (b2n h.df * 64 + b2n h.mf * 32 + h.fragOff / 256), u8 (h.fragOff % 256),
    u8 h.ttl, u8 h.proto,
    u8 (c / 256 % 256), u8 (c % 256),
    arr h.src 0, arr h.src 1, arr h.src 2, arr h.src 3,
    arr h.dst 0, arr h.dst 1, arr h.dst 2, arr h.dst 3 ] := by
  obtain ⟨h1, h2, h3, h4, h5, h6, h7, h8, h9, h10, h11, h12⟩ := wf
  unfold Ip4.first20 Ip4.fragAndFlags Ip4.ihl
  have e0 : (4 * 16) ||| ((h.options.length % 256 / 4 + 5) % 256) = 64 + (5 + h.options.length / 4) := by
    rw [lor_eq_add 6 _ _ (by omega) (by omega)]; omega
  have e1 : (h.dscp * 4 % 256) ||| h.ecn = h.dscp * 4 + h.ecn := by
    rw [lor_eq_add 2 _ _ (by omega) (by omega)]; omega
  have e2 : ((if h.mf then (if h.df then 0 ||| 64 else 0) ||| 32 else (if h.df then 0 ||| 64 else 0))
      ||| (h.fragOff / 256 % 256 % 32)) = b2n h.df * 64 + b2n h.mf * 32 + h.fragOff / 256 := by
    have z : (0 : Nat) ||| 64 = 64 := by decide
    have a : (64 : Nat) ||| 32 = 96 := by decide
    have b : (0 : Nat) ||| 32 = 32 := by decide
    cases h.df <;> cases h.mf <;> simp only [z, a, b, b2n, if_true, if_false, Bool.false_eq_true] <;>
      rw [lor_eq_add 5 _ _ (by omega) (by omega)] <;> omega
  simp only [e0, e1, e2]

/-! ### Ipv4Header, decoding (and the reader copies) -/

/-- what `Ipv4HeaderSlice::from_slice` + `to_header` return when the four checks pass. -/
theorem Ip4.fromSlice_ok_aux (b : Bytes) (h20 : 20 ≤ b.length) (hv : bAt b 0 / 16 = 4)
    (hi : 5 ≤ bAt b 0 % 16) (hl : bAt b 0 % 16 * 4 ≤ b.length) :
    Ip4.fromSlice b = .ok (
      { dscp := bAt b 1 / 4, ecn := bAt b 1 % 4, totalLen := be16 b 2,
        ident := be16 b 4, df := decide (bAt b 6 / 64 % 2 * 64 ≠ 0),
        mf := decide (bAt b 6 / 32 % 2 * 32 ≠ 0), fragOff := (bAt b 6 % 32) * 256 + bAt b 7,
        ttl := bAt b 8, proto := bAt b 9, checksum := be16 b 10, src := sub b 12 4,
        dst := sub b 16 4, options := sub b 20 (bAt b 0 % 16 * 4 - 20) },
      b.drop (bAt b 0 % 16 * 4)) := by
  unfold Ip4.fromSlice
  rw [if_neg (by omega)]
  simp only
  rw [if_neg (by omega), if_neg (by omega), if_neg (by omega)]

/-- the converse: success means the four checks passed. -/
theorem Ip4.fromSlice_inv_aux (b : Bytes) (h : Ip4) (r : Bytes) (hd : Ip4.fromSlice b = .ok (h, r)) :
    20 ≤ b.length ∧ bAt b 0 / 16 = 4 ∧ 5 ≤ bAt b 0 % 16 ∧ bAt b 0 % 16 * 4 ≤ b.length := by
  unfold Ip4.fromSlice at hd
  split at hd
  · cases hd
  · simp only at hd
    split at hd
    · cases hd
    · split at hd
      · cases hd
      · split at hd
        · cases hd
        · omega

/-! ### MacsecHeader -/

def Macsec.get (h : Macsec) (name : String) : Nat :=
  if name = "v" then 0 else if name = "es" then b2n h.es else if name = "sc" then b2n h.sci.isSome
  else if name = "scb" then b2n h.scb else if name = "e" then b2n h.encrypted
  else if name = "c" then b2n h.userdataChanged else if name = "an" then h.an
  else if name = "sl_reserved" then 0 else if name = "short_len" then h.shortLen
  else if name = "pn" then h.pn else if name = "sci" then h.sci.getD 0
  else if name = "ether_type" then (match h.ptype with | .unmodified e => e | _ => 0) else 0

theorem Macsec.tciAn_arith (h : Macsec) :
    h.tciAn = h.an % 4 + b2n h.userdataChanged * 4 + b2n h.encrypted * 8 + b2n h.scb * 16
      + b2n h.sci.isSome * 32 + b2n h.es * 64 := by
  unfold Macsec.tciAn b2n
  cases h.userdataChanged <;> cases h.encrypted <;> cases h.scb <;> cases h.sci.isSome <;>
    cases h.es <;> simp only [if_true, if_false, Bool.false_eq_true, Nat.or_zero] <;>
    (repeat (first
      | rw [lor_eq_add' 2 _ 4 (by omega) (by omega)]
      | rw [lor_eq_add' 3 _ 8 (by omega) (by omega)]
      | rw [lor_eq_add' 4 _ 16 (by omega) (by omega)]
      | rw [lor_eq_add' 5 _ 32 (by omega) (by omega)]
      | rw [lor_eq_add' 6 _ 64 (by omega) (by omega)])) <;> omega

@[simp] theorem b2n_true_aux : b2n true = 1 := rfl
@[simp] theorem b2n_false_aux : b2n false = 0 := rfl

/-! ### MacsecHeader, decoding -/

end EpModel.BitFields
