import EpModel.Lemmas.DecWithinHeaders
/- Progress / totality lemmas about the decode model (C02). -/
namespace EpModel.Lemmas.Dec
open EpModel EpModel.Dec
set_option linter.unusedSimpArgs false

theorem extIterNext_progress (g : Mem) (nh o l : Nat) (k : ExtKind) (w : Win) (nh' o' l' : Nat)
    (h : extIterNext g nh o l = some (.ok (k, w, nh', o', l'))) : l' + 8 ≤ l ∧ o' + l' = o + l ∧ w.o = o ∧ w.o + w.l = o' := by
  unfold extIterNext at h
  split at h
  · contradiction
  · split at h
    · simp only at h
      split at h
      · simp at h
      · split at h
        · simp at h
        · simp at h
          obtain ⟨_, rfl, _, rfl, rfl⟩ := h
          simp; omega
    · split at h
      · split at h
        · simp at h
        · simp at h
          obtain ⟨_, rfl, _, rfl, rfl⟩ := h
          simp; omega
      · split at h
        · split at h
          · simp at h
          · simp only at h
            split at h
            · simp at h
            · simp at h
              obtain ⟨_, rfl, _, rfl, rfl⟩ := h
              simp; omega
        · contradiction

theorem extIterAll_bound (g : Mem) (nh o l : Nat) (xs : List (ExtKind × Win)) (h : extIterAll g nh o l = .ok xs) :
    xs.length * 8 ≤ l := by
  induction l using Nat.strongRecOn generalizing nh o xs with
  | _ l ih =>
    rw [extIterAll] at h
    split at h
    · cases h; simp
    · contradiction
    · rename_i k w nh' o' l' hn
      have hp := extIterNext_progress g nh o l k w nh' o' l' hn
      split at h
      · split at h
        · rename_i ys hys
          cases h
          have := ih l' (by omega) nh' o' ys hys
          simp; omega
        · contradiction
      · contradiction

/-- `IpSlice::to_header` / `LaxIpSlice`-style conversions re-decode a validated extension slice in
    struct mode and `expect` success: that re-decode cannot fail. -/
theorem structLoop_total_on_validated (g : Mem) (l0 nh : Nat) (frag : Bool) (slots : ExtSlots) (o l : Nat)
    (h : (extsLoop g false l0 nh frag slots o l).stop = none) :
    ∀ (l0' : Nat) (frag' : Bool) (slots' : ExtSlots),
      (extsLoop g true l0' nh frag' slots' o (l - (extsLoop g false l0 nh frag slots o l).rest.l)).stop = none := by
  fun_induction extsLoop g false l0 nh frag slots o l
  all_goals try (simp [extsFail] at h; done)
  case case2 h1 => simp at h1
  case case6 h1 _ _ => simp at h1
  case case9 h1 _ _ _ => simp at h1
  case case14 nh frag slots o l h0 h1 h2 h3 =>
    intro l0' frag' slots'
    simp only [extsDone, Nat.sub_self]
    rw [extsLoop]
    simp [h0, h1, h2, h3, extsDone]
  case case5 nh frag slots o l h0 h1 _ h8 hl ih =>
    intro l0' frag' slots'
    have hs := (extsLoop_suffix g false l0 (g o) frag (rawStore nh slots ⟨o, (g (o + 1) + 1) * 8⟩)
      (o + (g (o + 1) + 1) * 8) (l - (g (o + 1) + 1) * 8)).2
    have ih' := ih h
    generalize (extsLoop g false l0 (g o) frag (rawStore nh slots ⟨o, (g (o + 1) + 1) * 8⟩)
      (o + (g (o + 1) + 1) * 8) (l - (g (o + 1) + 1) * 8)).rest.l = R at *
    rw [extsLoop]
    simp only [h0, h1, if_true, if_false]
    split
    · simp [extsDone]
    · have h8' : ¬ (l - R < 8) := by omega
      have hl' : ¬ (l - R < (g (o + 1) + 1) * 8) := by omega
      simp only [h8', hl', dite_false]
      have e : l - R - (g (o + 1) + 1) * 8 = l - (g (o + 1) + 1) * 8 - R := by omega
      rw [e]
      exact ih' _ _ _
  case case8 frag slots o l _ h8 _ _ ih =>
    intro l0' frag' slots'
    have hs := (extsLoop_suffix g false l0 (g o) (frag || fragIsFragmenting g o) (fragStore slots ⟨o, 8⟩) (o + 8) (l - 8)).2
    have ih' := ih h
    generalize (extsLoop g false l0 (g o) (frag || fragIsFragmenting g o) (fragStore slots ⟨o, 8⟩) (o + 8) (l - 8)).rest.l = R at *
    rw [extsLoop]
    simp only [show ¬ ((44 : Nat) = 0) by omega, show ¬ ((44 : Nat) = 60 ∨ (44 : Nat) = 43) by omega, if_true, if_false]
    split
    · simp [extsDone]
    · have h8' : ¬ (l - R < 8) := by omega
      simp only [h8', dite_false]
      have e : l - R - 8 = l - 8 - R := by omega
      rw [e]
      exact ih' _ _ _
  case case13 frag slots o l _ h12 hz hl _ _ _ ih =>
    intro l0' frag' slots'
    have hs := (extsLoop_suffix g false l0 (g o) frag (authStore slots ⟨o, (g (o + 1) + 2) * 4⟩)
      (o + (g (o + 1) + 2) * 4) (l - (g (o + 1) + 2) * 4)).2
    have ih' := ih h
    generalize (extsLoop g false l0 (g o) frag (authStore slots ⟨o, (g (o + 1) + 2) * 4⟩)
      (o + (g (o + 1) + 2) * 4) (l - (g (o + 1) + 2) * 4)).rest.l = R at *
    rw [extsLoop]
    simp only [show ¬ ((51 : Nat) = 0) by omega, show ¬ ((51 : Nat) = 60 ∨ (51 : Nat) = 43) by omega,
      show ¬ ((51 : Nat) = 44) by omega, if_true, if_false]
    split
    · simp [extsDone]
    · have h12' : ¬ (l - R < 12) := by omega
      have hl' : ¬ (l - R < (g (o + 1) + 2) * 4) := by omega
      simp only [h12', hz, hl', dite_false, if_false]
      have e : l - R - (g (o + 1) + 2) * 4 = l - (g (o + 1) + 2) * 4 - R := by omega
      rw [e]
      exact ih' _ _ _

theorem rawExt_ok (g : Mem) (o l hl : Nat) (h : rawExtFromSlice g o l = .ok hl) :
    8 ≤ hl ∧ hl ≤ l ∧ hl = (g (o + 1) + 1) * 8 := by
  unfold rawExtFromSlice at h
  split at h
  · contradiction
  · simp only at h
    split at h
    · contradiction
    · cases h; omega

theorem structWalk_total_on_validated (g : Mem) (nh o l : Nat) (r : ExtsOut)
    (h : extsWalkStrict g false nh o l = .ok r) : (extsWalk g true nh o (l - r.rest.l)).stop = none := by
  unfold extsWalkStrict at h
  simp only at h
  split at h
  · contradiction
  · rename_i hstop
    cases h
    unfold extsWalk at hstop ⊢
    split
    · rename_i hnh
      simp only [hnh, if_true] at hstop
      split at hstop
      · simp at hstop
      · rename_i hl hok
        have hb := rawExt_ok g o l hl hok
        have hs := (extsLoop_suffix g false l (g o) false
          { hbh := some ⟨o, hl⟩, dest := none, routing := none, finalDest := none, frag := none, auth := none }
          (o + hl) (l - hl)).2
        have key := structLoop_total_on_validated g l (g o) false
          { hbh := some ⟨o, hl⟩, dest := none, routing := none, finalDest := none, frag := none, auth := none }
          (o + hl) (l - hl) hstop
        simp only [hnh, if_true, hok]
        generalize (extsLoop g false l (g o) false
          { hbh := some ⟨o, hl⟩, dest := none, routing := none, finalDest := none, frag := none, auth := none }
          (o + hl) (l - hl)).rest.l = R at *
        have hok' : rawExtFromSlice g o (l - R) = .ok hl := by
          unfold rawExtFromSlice
          have h1 : ¬ (l - R < 8) := by omega
          have h2 : ¬ (l - R < (g (o + 1) + 1) * 8) := by omega
          simp [h1, h2, hb.2.2]
        rw [hok']
        simp only
        have e : l - R - hl = l - hl - R := by omega
        rw [e]
        exact key _ _ _
    · rename_i hnh
      simp only [hnh, if_false] at hstop ⊢
      exact structLoop_total_on_validated g l nh false ExtSlots.none o l hstop _ _ _

end EpModel.Lemmas.Dec
