import EpModel.Lemmas.IoSkip
/- helper lemmas for C16: the Read + Seek skipping of IPv6 extension headers over a reader whose
   `seek` can fail (`SReader`, `skipExtSf`, `skipAllSf` of Model/IoSkip.lean) -/
namespace EpModel.Lemmas.IoSkipSeek
open EpModel EpModel.Io EpModel.Io.Skip EpModel.Lemmas.Io EpModel.Lemmas.IoSkip

/-- a result of the old functions (seek never fails) seen as a result of the new ones -/
def liftRes : Except IoError Nat → Except SkipError Nat
  | .ok n => .ok n
  | .error e => .error (.io e)

/-- `Steps d avail nh pos m nh' pos'`: `m` skippable extension headers, each completely inside the
    first `avail` bytes of `d`, lead from offset `pos` / next header `nh` to offset `pos'` / next
    header `nh'` (which may or may not be skippable: a `Chain` without its end condition, with
    the number of headers). -/
inductive Steps (d : Bytes) (avail : Nat) : Nat → Nat → Nat → Nat → Nat → Prop where
  | zero {nh pos : Nat} : Steps d avail nh pos 0 nh pos
  | succ {nh pos m nh' pos' : Nat} {kind : Kind} : kindOf nh = some kind →
      pos + hdrLen kind d pos ≤ avail →
      Steps d avail (bAt d pos) (pos + hdrLen kind d pos) m nh' pos' →
      Steps d avail nh pos (m + 1) nh' pos'

/-- steps that end in front of a header that is not skippable are a `Chain`. -/
theorem Steps.toChain {d : Bytes} {avail nh pos m f p : Nat} (h : Steps d avail nh pos m f p)
    (hf : ¬ isSkippable f) : Chain d avail nh pos f p := by
  induction h with
  | zero => exact Chain.stop hf
  | succ hk hfit _ ih => exact Chain.step hk hfit (ih hf)

theorem Chain.toSteps {d : Bytes} {avail nh pos f p : Nat} (h : Chain d avail nh pos f p) :
    ∃ m, Steps d avail nh pos m f p := by
  induction h with
  | stop _ => exact ⟨0, Steps.zero⟩
  | step hk hfit _ ih =>
    obtain ⟨m, hm⟩ := ih
    exact ⟨m + 1, Steps.succ hk hfit hm⟩

/-- steps never go backwards and stay inside the available bytes. -/
theorem Steps.bounds {d : Bytes} {avail nh pos m nh' pos' : Nat} (h : Steps d avail nh pos m nh' pos') :
    pos + 8 * m ≤ pos' ∧ (pos ≤ avail → pos' ≤ avail) := by
  induction h with
  | zero => exact ⟨by omega, id⟩
  | @succ nh pos m nh' pos' kind hk hfit _ ih =>
    have := hdrLen_ge kind d pos
    exact ⟨by omega, fun _ => ih.2 hfit⟩

theorem firstRead_le_hdrLen (k : Kind) (d : Bytes) (pos : Nat) : k.firstRead ≤ hdrLen k d pos := by
  have := hdrLen_ge k d pos
  have := (firstRead_pos k).2
  omega

/-! ### one header -/

theorem skipExtSf_not_skippable (s : SReader) (nh : Nat) (h : kindOf nh = none) :
    skipExtSf s nh = (s, .ok nh) := by
  simp [skipExtSf, h]

/-- the first read fails: the seek is not reached; the result is that of the old function. -/
theorem skipExtSf_first_read_fails (rd : Reader) (c : Nat) (sf : Option Nat) (nh : Nat) (kind : Kind)
    (hk : kindOf nh = some kind) (h : ¬ rd.pos + kind.firstRead ≤ rd.limit) :
    skipExtSf { rd := rd, seeks := c, seekFail := sf } nh =
      ({ rd := (skipHeaderExtension rd nh).1, seeks := c, seekFail := sf },
       liftRes (skipHeaderExtension rd nh).2) := by
  have hf := firstRead_pos kind
  unfold skipExtSf skipHeaderExtension
  simp only [hk, SReader.readExact]
  rw [readExact_err rd kind.firstRead hf.1 h]
  rfl

/-- the first read succeeds and this seek call is the failing one: the seek error, the reader
    stands behind the bytes of the first read, one more seek call is counted, nothing else. -/
theorem skipExtSf_seek_fails (rd : Reader) (c : Nat) (nh : Nat) (kind : Kind)
    (hk : kindOf nh = some kind) (h : rd.pos + kind.firstRead ≤ rd.limit) :
    skipExtSf { rd := rd, seeks := c, seekFail := some c } nh =
      ({ rd := { data := rd.data, pos := rd.pos + kind.firstRead, failAt := rd.failAt },
         seeks := c + 1, seekFail := some c }, .error .seek) := by
  have hf := firstRead_pos kind
  unfold skipExtSf
  simp only [hk, SReader.readExact]
  rw [readExact_ok rd kind.firstRead hf.1 h]
  simp [SReader.seekCur]

/-- the first read succeeds and this seek call is not the failing one: the result is that of the
    old function, one more seek call is counted. -/
theorem skipExtSf_seek_ok (rd : Reader) (c : Nat) (sf : Option Nat) (nh : Nat) (kind : Kind)
    (hk : kindOf nh = some kind) (h : rd.pos + kind.firstRead ≤ rd.limit) (hsf : sf ≠ some c) :
    skipExtSf { rd := rd, seeks := c, seekFail := sf } nh =
      ({ rd := (skipHeaderExtension rd nh).1, seeks := c + 1, seekFail := sf },
       liftRes (skipHeaderExtension rd nh).2) := by
  have hf := firstRead_pos kind
  unfold skipExtSf skipHeaderExtension
  simp only [hk, SReader.readExact]
  rw [readExact_ok rd kind.firstRead hf.1 h]
  simp only [SReader.seekCur, hsf, if_false]
  cases h3 : (seekCur { data := rd.data, pos := rd.pos + kind.firstRead, failAt := rd.failAt }
      (kind.restLength (sub rd.data rd.pos kind.firstRead) - 1)).readExact 1 with
  | mk r3 res3 => cases res3 <;> rfl

/-! ### the loop: unfolding equations -/

theorem skipAllSf_stop (s : SReader) (nh : Nat) (h : ¬ isSkippable nh) :
    skipAllSf s nh = (s, .ok nh) := by
  unfold skipAllSf; rw [dif_neg h]

theorem skipAllSf_err (s : SReader) (nh : Nat) (hs : isSkippable nh) (s' : SReader) (e : SkipError)
    (h : skipExtSf s nh = (s', .error e)) : skipAllSf s nh = (s', .error e) := by
  unfold skipAllSf; rw [dif_pos hs]
  split
  · rename_i s'' e' heq
    rw [h] at heq; cases heq; rfl
  · rename_i s'' next heq
    rw [h] at heq; cases heq

theorem skipAllSf_step (s : SReader) (nh : Nat) (hs : isSkippable nh) (s' : SReader) (next : Nat)
    (h : skipExtSf s nh = (s', .ok next)) : skipAllSf s nh = skipAllSf s' next := by
  conv => lhs; unfold skipAllSf
  rw [dif_pos hs]
  split
  · rename_i s'' e' heq
    rw [h] at heq; cases heq
  · rename_i s'' next' heq
    rw [h] at heq; cases heq; rfl

theorem skipAll_stop (r : Reader) (nh : Nat) (h : ¬ isSkippable nh) : skipAll r nh = (r, .ok nh) := by
  unfold skipAll; rw [dif_neg h]

theorem skipAll_err (r : Reader) (nh : Nat) (hs : isSkippable nh) (r' : Reader) (e : IoError)
    (h : skipHeaderExtension r nh = (r', .error e)) : skipAll r nh = (r', .error e) := by
  unfold skipAll; rw [dif_pos hs]
  split
  · rename_i r'' e' heq
    rw [h] at heq; cases heq; rfl
  · rename_i r'' next heq
    rw [h] at heq; cases heq

theorem skipAll_step (r : Reader) (nh : Nat) (hs : isSkippable nh) (r' : Reader) (next : Nat)
    (h : skipHeaderExtension r nh = (r', .ok next)) : skipAll r nh = skipAll r' next := by
  conv => lhs; unfold skipAll
  rw [dif_pos hs]
  split
  · rename_i r'' e' heq
    rw [h] at heq; cases heq
  · rename_i r'' next' heq
    rw [h] at heq; cases heq; rfl

/-! ### the loop: complete comparison with the function whose seek never fails -/

/-- the run in which no seek fails, started with `c` seek calls on the counter -/
abbrev freeRun (rd : Reader) (c : Nat) (nh : Nat) : SReader × Except SkipError Nat :=
  skipAllSf { rd := rd, seeks := c, seekFail := none } nh

/-- everything about `skipAllSf` at once (one induction along the old loop):
    * the run in which no seek fails is the old function, its counter only grows, an `Ok` run
      made exactly one seek call per skipped header, and a run that ends in a read error inside
      header number `m` made `m` seek calls, plus one if the first read of that header succeeded
      (the error then comes from the read behind the seek);
    * a failing seek that is not in reach (its index `j` is already behind the counter, or the
      free run stops before its `j`-th seek call): the same reader, counter and result as the
      free run;
    * a failing seek in reach: the seek error, the counter says that the failing call was the
      last seek call, and the reader stands behind the first read of the header whose seek failed
      — `j - c` complete headers further. -/
theorem skipAllSf_spec (rd : Reader) (nh c : Nat) (sf : Option Nat) :
    ((freeRun rd c nh).1.rd = (skipAll rd nh).1 ∧ (freeRun rd c nh).2 = liftRes (skipAll rd nh).2 ∧
      c ≤ (freeRun rd c nh).1.seeks ∧
      (∀ f, (skipAll rd nh).2 = .ok f →
        Steps rd.data rd.limit nh rd.pos ((freeRun rd c nh).1.seeks - c) f (skipAll rd nh).1.pos) ∧
      (∀ e, (skipAll rd nh).2 = .error e →
        ∃ m nh' pos' kind, Steps rd.data rd.limit nh rd.pos m nh' pos' ∧ kindOf nh' = some kind ∧
          ¬ pos' + hdrLen kind rd.data pos' ≤ rd.limit ∧
          (freeRun rd c nh).1.seeks = c + m + (if pos' + kind.firstRead ≤ rd.limit then 1 else 0))) ∧
    ((∀ j, sf = some j → j < c ∨ (freeRun rd c nh).1.seeks ≤ j) →
      skipAllSf { rd := rd, seeks := c, seekFail := sf } nh =
        ({ rd := (freeRun rd c nh).1.rd, seeks := (freeRun rd c nh).1.seeks, seekFail := sf },
         (freeRun rd c nh).2)) ∧
    (∀ j, sf = some j → c ≤ j → j < (freeRun rd c nh).1.seeks →
      ∃ nh' pos' kind, Steps rd.data rd.limit nh rd.pos (j - c) nh' pos' ∧
        kindOf nh' = some kind ∧ pos' + kind.firstRead ≤ rd.limit ∧
        skipAllSf { rd := rd, seeks := c, seekFail := sf } nh =
          ({ rd := { data := rd.data, pos := pos' + kind.firstRead, failAt := rd.failAt },
             seeks := j + 1, seekFail := sf }, .error .seek)) := by
  fun_induction skipAll rd nh generalizing c with
  | case1 rd nh hs r' e heq =>
    -- the old function fails in this header (a read error)
    obtain ⟨kind, hk⟩ := (isSkippable_iff nh).1 hs
    by_cases h1 : rd.pos + kind.firstRead ≤ rd.limit
    · -- the first read succeeds: the seek is called
      have hfree := skipExtSf_seek_ok rd c none nh kind hk h1 (by simp)
      rw [heq] at hfree
      have hF : freeRun rd c nh = ({ rd := r', seeks := c + 1, seekFail := none }, .error (.io e)) :=
        skipAllSf_err _ nh hs _ _ hfree
      rw [hF]
      have hcut : ¬ rd.pos + hdrLen kind rd.data rd.pos ≤ rd.limit := by
        intro hfit
        rw [skip_ok rd nh kind hk hfit] at heq; cases heq
      refine ⟨⟨rfl, rfl, by simp, fun f hf => (by cases hf),
        fun _ _ => ⟨0, nh, rd.pos, kind, Steps.zero, hk, hcut, by simp [h1]⟩⟩,
        fun hun => ?_, fun j hj hcj hjn => ?_⟩
      · have hsf : sf ≠ some c := by
          intro hc
          have := hun c hc
          dsimp only at this
          omega
        have hrun := skipExtSf_seek_ok rd c sf nh kind hk h1 hsf
        rw [heq] at hrun
        exact skipAllSf_err _ nh hs _ _ hrun
      · have hjc : j = c := by simp at hjn; omega
        subst hjc; subst hj
        refine ⟨nh, rd.pos, kind, by rw [Nat.sub_self]; exact Steps.zero, hk, h1, ?_⟩
        exact skipAllSf_err _ nh hs _ _ (skipExtSf_seek_fails rd j nh kind hk h1)
    · -- the first read fails: no seek call
      have hfree := skipExtSf_first_read_fails rd c none nh kind hk h1
      rw [heq] at hfree
      have hF : freeRun rd c nh = ({ rd := r', seeks := c, seekFail := none }, .error (.io e)) :=
        skipAllSf_err _ nh hs _ _ hfree
      rw [hF]
      have hcut : ¬ rd.pos + hdrLen kind rd.data rd.pos ≤ rd.limit := by
        intro hfit
        rw [skip_ok rd nh kind hk hfit] at heq; cases heq
      refine ⟨⟨rfl, rfl, by simp, fun f hf => (by cases hf),
        fun _ _ => ⟨0, nh, rd.pos, kind, Steps.zero, hk, hcut, by simp [h1]⟩⟩,
        fun _ => ?_, fun j hj hcj hjn => ?_⟩
      · have hrun := skipExtSf_first_read_fails rd c sf nh kind hk h1
        rw [heq] at hrun
        exact skipAllSf_err _ nh hs _ _ hrun
      · simp at hjn; omega
  | case2 rd nh hs r' next heq ih =>
    -- the old function skips this header completely
    obtain ⟨kind, hk⟩ := (isSkippable_iff nh).1 hs
    have hfit : rd.pos + hdrLen kind rd.data rd.pos ≤ rd.limit := by
      by_cases hfit : rd.pos + hdrLen kind rd.data rd.pos ≤ rd.limit
      · exact hfit
      · have := (skip_err rd nh kind hk hfit).1
        rw [heq] at this; cases this
    have hok := skip_ok rd nh kind hk hfit
    rw [heq] at hok
    simp only [Prod.mk.injEq, Except.ok.injEq] at hok
    obtain ⟨hr', hnext⟩ := hok
    subst hnext
    have h1 : rd.pos + kind.firstRead ≤ rd.limit := by
      have := firstRead_le_hdrLen kind rd.data rd.pos
      omega
    have hfree := skipExtSf_seek_ok rd c none nh kind hk h1 (by simp)
    rw [heq] at hfree
    have hF : freeRun rd c nh = freeRun r' (c + 1) (bAt rd.data rd.pos) := skipAllSf_step _ nh hs _ _ hfree
    rw [hF]
    obtain ⟨⟨i1, i2, i3, i4, i5⟩, iun, ire⟩ := ih (c + 1)
    have hd : r'.data = rd.data := by rw [hr']
    have hl : r'.limit = rd.limit := by rw [hr']; rfl
    have hfa : r'.failAt = rd.failAt := by rw [hr']
    have hp : r'.pos = rd.pos + hdrLen kind rd.data rd.pos := by rw [hr']
    refine ⟨⟨i1, i2, by omega, fun f hf => ?_, fun e he => ?_⟩, fun hun => ?_, fun j hj hcj hjn => ?_⟩
    · have hst := i4 f hf
      rw [hd, hl, hp] at hst
      generalize (freeRun r' (c + 1) (bAt rd.data rd.pos)).1.seeks = n at hst i3 ⊢
      have hm : n - c = (n - (c + 1)) + 1 := by omega
      rw [hm]
      exact Steps.succ hk hfit hst
    · obtain ⟨m, nh', pos', kind', hst, hk', hcut, hn⟩ := i5 e he
      rw [hd, hl, hp] at hst
      rw [hd, hl] at hcut
      rw [hl] at hn
      exact ⟨m + 1, nh', pos', kind', Steps.succ hk hfit hst, hk', hcut, by rw [hn]; omega⟩
    · have hsf : sf ≠ some c := by
        intro hc
        have := hun c hc
        omega
      have hrun := skipExtSf_seek_ok rd c sf nh kind hk h1 hsf
      rw [heq] at hrun
      rw [skipAllSf_step _ nh hs _ _ hrun]
      exact iun (fun j hj => by
        rcases hun j hj with h | h
        · left; omega
        · right; exact h)
    · by_cases hjc : j = c
      · subst hjc; subst hj
        refine ⟨nh, rd.pos, kind, by rw [Nat.sub_self]; exact Steps.zero, hk, h1, ?_⟩
        exact skipAllSf_err _ nh hs _ _ (skipExtSf_seek_fails rd j nh kind hk h1)
      · have hsf : sf ≠ some c := by
          intro hc
          rw [hj] at hc
          simp only [Option.some.injEq] at hc
          exact hjc hc
        have hrun := skipExtSf_seek_ok rd c sf nh kind hk h1 hsf
        rw [heq] at hrun
        rw [skipAllSf_step _ nh hs _ _ hrun]
        obtain ⟨nh', pos', kind', hst, hk', hfr, hres⟩ := ire j hj (by omega) hjn
        rw [hd, hl, hp] at hst
        rw [hl] at hfr
        rw [hd, hfa] at hres
        have hm : j - c = (j - (c + 1)) + 1 := by omega
        exact ⟨nh', pos', kind', by rw [hm]; exact Steps.succ hk hfit hst, hk', hfr, hres⟩
  | case3 rd nh hs =>
    -- not a skippable extension header: nothing is called
    have hF : freeRun rd c nh = ({ rd := rd, seeks := c, seekFail := none }, .ok nh) :=
      skipAllSf_stop _ nh hs
    rw [hF]
    refine ⟨⟨rfl, rfl, by simp, fun f hf => ?_, fun e he => by cases he⟩, fun _ => skipAllSf_stop _ nh hs,
      fun j hj hcj hjn => ?_⟩
    · cases hf
      simp only [Nat.sub_self]
      exact Steps.zero
    · simp at hjn; omega

end EpModel.Lemmas.IoSkipSeek
