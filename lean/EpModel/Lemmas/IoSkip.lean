import EpModel.Model.IoSkip
import EpModel.Lemmas.Io
/- helper lemmas for C16: the Read + Seek skipping of IPv6 extension headers -/
namespace EpModel.Lemmas.IoSkip
open EpModel EpModel.Io EpModel.Io.Skip EpModel.Lemmas.Io

theorem bAt_sub (b : Bytes) (o l i : Nat) (h : i < l) : bAt (sub b o l) i = bAt b (o + i) := by
  unfold bAt sub
  congr 1
  simp only [List.getD_eq_getElem?_getD, List.getElem?_take, h, if_true, List.getElem?_drop]

/-- length on the wire of the extension header an arm skips, from the length byte at `pos + 1`:
    fragment header 8, authentication header `(len + 2) * 4`, the others `(len + 1) * 8`. -/
def hdrLen (k : Kind) (d : Bytes) (pos : Nat) : Nat :=
  match k with
  | .frag => 8
  | .auth => (bAt d (pos + 1) + 2) * 4
  | .generic => (bAt d (pos + 1) + 1) * 8

theorem hdrLen_ge (k : Kind) (d : Bytes) (pos : Nat) : 8 ≤ hdrLen k d pos := by
  cases k <;> simp only [hdrLen] <;> omega

/-- first read + seek + last read add up to the header length -/
theorem reads_add_up (k : Kind) (d : Bytes) (pos : Nat) :
    k.firstRead + (k.restLength (sub d pos k.firstRead) - 1) + 1 = hdrLen k d pos := by
  cases k
  · simp [Kind.firstRead, Kind.restLength, hdrLen]
  · simp only [Kind.firstRead, Kind.restLength, hdrLen, bAt_sub d pos 2 1 (by omega)]; omega
  · simp only [Kind.firstRead, Kind.restLength, hdrLen, bAt_sub d pos 2 1 (by omega)]; omega

theorem firstRead_pos (k : Kind) : k.firstRead ≠ 0 ∧ k.firstRead ≤ 2 := by
  cases k <;> simp [Kind.firstRead]

theorem isSkippable_iff (nh : Nat) : isSkippable nh ↔ ∃ k, kindOf nh = some k := by
  unfold isSkippable kindOf
  constructor
  · intro h
    by_cases h1 : nh = 44
    · exact ⟨_, by rw [if_pos h1]⟩
    · by_cases h2 : nh = 51
      · exact ⟨_, by rw [if_neg h1, if_pos h2]⟩
      · exact ⟨_, by rw [if_neg h1, if_neg h2, if_pos (by omega)]⟩
  · rintro ⟨k, hk⟩
    by_cases h1 : nh = 44
    · omega
    · by_cases h2 : nh = 51
      · omega
      · rw [if_neg h1, if_neg h2] at hk
        split at hk
        · omega
        · cases hk

theorem not_skippable (r : Reader) (nh : Nat) (h : ¬ isSkippable nh) :
    skipHeaderExtension r nh = (r, .ok nh) := by
  have : kindOf nh = none := by
    cases hk : kindOf nh with
    | none => rfl
    | some k => exact absurd ((isSkippable_iff nh).2 ⟨k, hk⟩) h
  simp [skipHeaderExtension, this]

/-- the whole header lies inside what the reader can hand out: the skip succeeds, returns the
    first byte of the header and leaves the reader exactly behind the header. -/
theorem skip_ok (r : Reader) (nh : Nat) (kind : Kind) (hk : kindOf nh = some kind)
    (h : r.pos + hdrLen kind r.data r.pos ≤ r.limit) :
    skipHeaderExtension r nh =
      ({ data := r.data, pos := r.pos + hdrLen kind r.data r.pos, failAt := r.failAt },
       .ok (bAt r.data r.pos)) := by
  have hge := hdrLen_ge kind r.data r.pos
  have hf := firstRead_pos kind
  have hsum := reads_add_up kind r.data r.pos
  unfold skipHeaderExtension
  simp only [hk]
  rw [readExact_ok r kind.firstRead hf.1 (by omega)]
  simp only
  generalize hn : kind.restLength (sub r.data r.pos kind.firstRead) - 1 = n at hsum
  have hl : (seekCur { data := r.data, pos := r.pos + kind.firstRead, failAt := r.failAt } n).limit
      = r.limit := rfl
  rw [readExact_ok _ 1 (by omega) (by rw [hl]; show r.pos + kind.firstRead + n + 1 ≤ r.limit; omega)]
  simp only [seekCur]
  have hb : bAt (sub r.data r.pos kind.firstRead) 0 = bAt r.data r.pos := by
    rw [bAt_sub _ _ _ _ (by omega)]; rfl
  rw [hb]
  congr 2
  omega

/-- some byte of the header is not there: the skip returns the error of the reader (the injected
    one if the reader was told to fail inside the data, end of file otherwise) — never `Ok`. -/
theorem skip_err (r : Reader) (nh : Nat) (kind : Kind) (hk : kindOf nh = some kind)
    (h : ¬ r.pos + hdrLen kind r.data r.pos ≤ r.limit) :
    (skipHeaderExtension r nh).2 = .error r.dryError ∧
    (skipHeaderExtension r nh).1.data = r.data ∧
    (skipHeaderExtension r nh).1.failAt = r.failAt ∧
    r.pos ≤ (skipHeaderExtension r nh).1.pos := by
  have hge := hdrLen_ge kind r.data r.pos
  have hf := firstRead_pos kind
  have hsum := reads_add_up kind r.data r.pos
  unfold skipHeaderExtension
  simp only [hk]
  by_cases h1 : r.pos + kind.firstRead ≤ r.limit
  · rw [readExact_ok r kind.firstRead hf.1 h1]
    simp only
    generalize hn : kind.restLength (sub r.data r.pos kind.firstRead) - 1 = n at hsum
    have hl : (seekCur { data := r.data, pos := r.pos + kind.firstRead, failAt := r.failAt } n).limit
        = r.limit := rfl
    rw [readExact_err _ 1 (by omega)
      (by rw [hl]; show ¬ r.pos + kind.firstRead + n + 1 ≤ r.limit; omega)]
    refine ⟨rfl, rfl, rfl, ?_⟩
    show r.pos ≤ max (r.pos + kind.firstRead + n) _
    omega
  · rw [readExact_err r kind.firstRead hf.1 h1]
    refine ⟨rfl, rfl, rfl, ?_⟩
    show r.pos ≤ max r.pos r.limit
    omega

/-! ### the loop -/

/-- `Chain d avail nh pos f p`: starting at offset `pos` with next header `nh`, a sequence of
    skippable extension headers, each completely inside the first `avail` bytes of `d`, ends at
    offset `p` in front of the first header `f` that is not a skippable extension header. -/
inductive Chain (d : Bytes) (avail : Nat) : Nat → Nat → Nat → Nat → Prop where
  | stop {nh pos : Nat} : ¬ isSkippable nh → Chain d avail nh pos nh pos
  | step {nh pos f p : Nat} {kind : Kind} : kindOf nh = some kind →
      pos + hdrLen kind d pos ≤ avail →
      Chain d avail (bAt d pos) (pos + hdrLen kind d pos) f p → Chain d avail nh pos f p

/-- the chain never leaves the available bytes, and its end is the start plus the sum of the
    header lengths (so in particular not in front of the start). -/
theorem Chain.bounds {d : Bytes} {avail nh pos f p : Nat} (h : Chain d avail nh pos f p) :
    pos ≤ p ∧ (pos ≤ avail → p ≤ avail) ∧ ¬ isSkippable f := by
  induction h with
  | stop hn => exact ⟨Nat.le_refl _, id, hn⟩
  | step hk hfit _ ih => exact ⟨by omega, fun _ => ih.2.1 hfit, ih.2.2⟩

/-- a chain of complete headers is skipped completely. -/
theorem skipAll_of_chain (d : Bytes) (fa : Option Nat) (nh pos f p : Nat)
    (h : Chain d (Reader.limit { data := d, pos := pos, failAt := fa }) nh pos f p) :
    skipAll { data := d, pos := pos, failAt := fa } nh = ({ data := d, pos := p, failAt := fa }, .ok f) := by
  generalize ha : Reader.limit { data := d, pos := pos, failAt := fa } = avail at h
  induction h with
  | stop hn => unfold skipAll; rw [dif_neg hn]
  | @step nh pos f p kind hk hfit _ ih =>
    have hs : isSkippable nh := (isSkippable_iff nh).2 ⟨kind, hk⟩
    have hok := skip_ok { data := d, pos := pos, failAt := fa } nh kind hk (by rw [ha]; exact hfit)
    unfold skipAll
    rw [dif_pos hs]
    split
    · rename_i r' e heq
      rw [hok] at heq; cases heq
    · rename_i r' next heq
      rw [hok] at heq
      simp only [Prod.mk.injEq, Except.ok.injEq] at heq
      obtain ⟨h1, h2⟩ := heq
      subst h1; subst h2
      exact ih ha

/-- what the loop returns, in both directions: `Ok(f)` with the reader at `p` iff a chain of
    complete headers leads from the start to `p`/`f`; an error is always the reader's error. -/
theorem skipAll_spec (r : Reader) (nh : Nat) :
    (∀ f, (skipAll r nh).2 = .ok f →
      Chain r.data r.limit nh r.pos f (skipAll r nh).1.pos ∧
      (skipAll r nh).1.data = r.data ∧ (skipAll r nh).1.failAt = r.failAt) ∧
    (∀ e, (skipAll r nh).2 = .error e → e = r.dryError) := by
  fun_induction skipAll r nh with
  | case1 r nh hs r' e heq =>
    -- the skip of one header failed
    obtain ⟨kind, hk⟩ := (isSkippable_iff nh).1 hs
    refine ⟨fun f hf => (by cases hf), fun e' he => ?_⟩
    by_cases hfit : r.pos + hdrLen kind r.data r.pos ≤ r.limit
    · rw [skip_ok r nh kind hk hfit] at heq; cases heq
    · have := (skip_err r nh kind hk hfit).1
      rw [heq] at this
      simp only [Except.error.injEq] at this he
      rw [← he, this]
  | case2 r nh hs r' next heq ih =>
    obtain ⟨kind, hk⟩ := (isSkippable_iff nh).1 hs
    by_cases hfit : r.pos + hdrLen kind r.data r.pos ≤ r.limit
    · rw [skip_ok r nh kind hk hfit] at heq
      simp only [Prod.mk.injEq, Except.ok.injEq] at heq
      obtain ⟨h1, h2⟩ := heq
      subst h1; subst h2
      refine ⟨fun f hf => ?_, fun e he => ?_⟩
      · obtain ⟨hc, hd, hfa⟩ := ih.1 f hf
        exact ⟨Chain.step hk hfit hc, hd, hfa⟩
      · exact ih.2 e he
    · have := (skip_err r nh kind hk hfit).1
      rw [heq] at this; cases this
  | case3 r nh hs =>
    refine ⟨fun f hf => ?_, fun e he => by cases he⟩
    cases hf
    exact ⟨Chain.stop hs, rfl, rfl⟩

end EpModel.Lemmas.IoSkip
