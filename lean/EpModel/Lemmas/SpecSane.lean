import EpModel.Spec.Decode
/- Every fault the wire-format walk reports is a genuine shortage or excess (used by C07). -/
namespace EpModel.Spec
open EpModel EpModel.Dec

/-- a non-content fault is a genuine shortage (or, for `tooLong`, a genuine excess) -/
def FaultSane (f : Fault) : Prop :=
  (f.cls = .tooLong → f.need < f.avail) ∧
  ((f.cls = .cutShort ∨ f.cls = .claimsMore ∨ f.cls = .claimsLess) → f.avail < f.need)

theorem chain_sane (g : Mem) (lim : LenSource) (first : Bool) (nh : Nat) (frag : Bool) (o stop : Nat) (f : Fault)
    (h : (chain g lim first nh frag o stop).2 = some f) : FaultSane f := by
  fun_induction chain g lim first nh frag o stop <;> (try simp +zetaDelta only [] at h) <;>
    (try split at h) <;> (try split at h) <;> (try split at h) <;>
    (try simp_all +zetaDelta [FaultSane, mkFault, Ctx.avail]) <;> (try (subst h; simp <;> omega))

theorem bound_sane (lax : Bool) (c : Ctx) (u : Unit_) (field : LenSource) (hl total : Nat) (f : Fault)
    (h : bound lax c u field hl total = .error f) : FaultSane f := by
  unfold bound at h
  split at h
  · split at h
    · cases h
    · cases h; simp [FaultSane]; omega
  · split at h
    · split at h
      · cases h
      · cases h; simp [FaultSane, mkFault]; omega
    · cases h
theorem step_sane (lax : Bool) (g : Mem) (p : Packet) (t : Tag) (c : Ctx) (f : Fault)
    (h : (step lax g p t c).fault = some f) : FaultSane f := by
  cases t with
  | done => simp [step] at h
  | eth =>
    simp only [step] at h
    split at h
    · simp at h; subst h; simp_all [FaultSane, mkFault]
    · simp at h
  | sll =>
    simp only [step] at h
    repeat' split at h
    all_goals (simp at h)
    all_goals (subst h; simp_all [FaultSane, mkFault])
  | ipAny =>
    simp only [step] at h
    repeat' split at h
    all_goals (simp at h)
    all_goals (subst h; simp_all [FaultSane, mkFault])
  | tp num =>
    simp only [step] at h
    repeat' split at h
    all_goals (simp at h)
    all_goals (subst h; simp_all [FaultSane, mkFault])
    all_goals omega
  | ether et =>
    by_cases hv : isVlanType et = true
    · simp only [step, hv, if_true] at h
      repeat' split at h
      all_goals (simp at h)
      all_goals (subst h; simp_all [FaultSane, mkFault])
    · by_cases hm : et = 0x88e5
      · simp only [step, hv, hm, if_true, if_false, Bool.false_eq_true] at h
        repeat' split at h
        all_goals (try simp at h)
        all_goals (try subst h)
        all_goals (try (simp_all [FaultSane, mkFault]; done))
        rename_i hq
        repeat' split at hq
        all_goals (cases hq <;> simp_all [FaultSane, mkFault])
      · simp only [step, hv, hm, if_true, if_false, Bool.false_eq_true] at h
        repeat' split at h
        all_goals (simp at h)
        all_goals (subst h; simp_all [FaultSane, mkFault])
  | ipv4 =>
    by_cases h20 : c.avail < 20
    · simp only [step, h20, if_true] at h; simp at h; subst h; simp_all [FaultSane, mkFault]
    · by_cases hver : ¬ g c.off / 16 = 4
      · simp only [step, h20, hver, ne_eq, not_false_eq_true, if_true, if_false] at h; simp at h; subst h; simp_all [FaultSane, mkFault]
      · have hver' : g c.off / 16 = 4 := by omega
        by_cases hihl : g c.off % 16 < 5
        · simp only [step, h20, hver', ne_eq, not_true_eq_false, hihl, if_true, if_false] at h; simp at h; subst h; simp_all [FaultSane, mkFault]
        · by_cases hhl : c.avail < g c.off % 16 * 4
          · simp only [step, h20, hver', ne_eq, not_true_eq_false, hihl, hhl, if_true, if_false] at h; simp at h; subst h
            simp_all [FaultSane, mkFault]
          · simp only [step, h20, hver', ne_eq, not_true_eq_false, hihl, hhl, if_true, if_false] at h
            split at h
            · rename_i f' hb
              simp at h; subst h
              exact bound_sane _ _ _ _ _ _ _ hb
            · repeat' split at h
              all_goals (try simp at h)
              all_goals (try subst h)
              all_goals (try (simp_all [FaultSane, mkFault, Ctx.avail]; done))
  | ipv6 =>
    by_cases h40 : c.avail < 40
    · simp only [step, h40, if_true] at h; simp at h; subst h; simp_all [FaultSane, mkFault]
    · by_cases hver : ¬ g c.off / 16 = 6
      · simp only [step, h40, hver, ne_eq, not_false_eq_true, if_true, if_false] at h; simp at h; subst h
        simp_all [FaultSane, mkFault]
      · have hver' : g c.off / 16 = 6 := by omega
        simp only [step, h40, hver', ne_eq, not_true_eq_false, if_true, if_false] at h
        split at h
        · rename_i f' hb
          simp at h; subst h
          split at hb
          · cases hb
          · exact bound_sane _ _ _ _ _ _ _ hb
        · rename_i stop' lim' inc hb
          generalize hch : chain g (inherit c.lim lim') true (g (c.off + 6)) false (c.off + 40) stop' = chf at h
          obtain ⟨ch, fo⟩ := chf
          cases fo with
          | none => simp at h
          | some f' =>
            simp at h; subst h
            exact chain_sane _ _ _ _ _ _ _ _ (by rw [hch])
theorem walkN_sane (lax : Bool) (g : Mem) (k : Nat) (p : Packet) (t : Tag) (c : Ctx) (f : Fault)
    (h : (walkN lax g k p t c).2 = some f) : FaultSane f := by
  induction k generalizing p t c with
  | zero =>
    simp only [walkN] at h
    split at h
    · simp at h
    · simp at h; subst h; simp [FaultSane, mkFault]
  | succ k ih =>
    simp only [walkN] at h
    split at h
    · simp at h
    · split at h
      · rename_i f' hf'
        simp at h; subst h
        exact step_sane _ _ _ _ _ _ hf'
      · exact ih _ _ _ h

theorem decode_sane (st : Start) (g : Mem) (n : Nat) (f : Fault) (h : decode st g n = .error f) :
    FaultSane f := by
  unfold decode at h
  generalize hw : walkN false g maxSteps (startPacket n st) (startTag false st)
      { off := 0, stop := n, lim := .slice, nExt := 0 } = r at h
  obtain ⟨p, fo⟩ := r
  cases fo with
  | none => simp [verdict] at h
  | some f' =>
    simp [verdict] at h; subst h
    exact walkN_sane _ _ _ _ _ _ _ (by rw [hw])

end EpModel.Spec
