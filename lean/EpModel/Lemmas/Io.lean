import EpModel.Model.Io
/- helper lemmas for C16: failing reader and read programs, LimitedReader invariant, slice writer -/
namespace EpModel.Lemmas.Io
open EpModel EpModel.Io

theorem readExact_zero (r : Reader) : r.readExact 0 = (r, .ok []) := by simp [Reader.readExact]

theorem readExact_ok (r : Reader) (n : Nat) (h : n ≠ 0) (h2 : r.pos + n ≤ r.limit) :
    r.readExact n = ({ data := r.data, pos := r.pos + n, failAt := r.failAt }, .ok (sub r.data r.pos n)) := by
  simp [Reader.readExact, h, h2]

theorem readExact_err (r : Reader) (n : Nat) (h : n ≠ 0) (h2 : ¬ r.pos + n ≤ r.limit) :
    r.readExact n = ({ data := r.data, pos := max r.pos r.limit, failAt := r.failAt }, .error r.dryError) := by
  simp [Reader.readExact, h, h2]

theorem readExact_cases (r : Reader) (n : Nat) :
    (r.readExact n = (r, .ok []) ∧ n = 0) ∨
    (n ≠ 0 ∧ r.pos + n ≤ r.limit ∧
      r.readExact n = ({ data := r.data, pos := r.pos + n, failAt := r.failAt }, .ok (sub r.data r.pos n))) ∨
    (n ≠ 0 ∧ ¬ r.pos + n ≤ r.limit ∧
      r.readExact n = ({ data := r.data, pos := max r.pos r.limit, failAt := r.failAt }, .error r.dryError)) := by
  by_cases h : n = 0
  · left; subst h; exact ⟨readExact_zero r, rfl⟩
  · by_cases h2 : r.pos + n ≤ r.limit
    · right; left; exact ⟨h, h2, readExact_ok r n h h2⟩
    · right; right; exact ⟨h, h2, readExact_err r n h h2⟩

theorem readExact_same (r : Reader) (n : Nat) :
    (r.readExact n).1.data = r.data ∧ (r.readExact n).1.failAt = r.failAt ∧
    (r.readExact n).1.limit = r.limit ∧ r.pos ≤ (r.readExact n).1.pos ∧
    (r.pos ≤ r.limit → (r.readExact n).1.pos ≤ r.limit) := by
  rcases readExact_cases r n with ⟨h, _⟩ | ⟨_, h2, h⟩ | ⟨_, h2, h⟩ <;> rw [h] <;>
    refine ⟨rfl, rfl, rfl, ?_, ?_⟩ <;> simp only [] <;> omega


/-- running a read program never moves the reader backwards, never changes what it reads from,
    and never takes it beyond the point where it fails. -/
theorem run_same {α : Type} (p : RProg α) (r : Reader) :
    (p.run r).1.data = r.data ∧ (p.run r).1.failAt = r.failAt ∧ r.pos ≤ (p.run r).1.pos ∧
    (r.pos ≤ r.limit → (p.run r).1.pos ≤ r.limit) := by
  induction p generalizing r with
  | done res => cases res <;> simp [RProg.run]
  | read n k ih =>
    have hs := readExact_same r n
    simp only [RProg.run]
    cases h : r.readExact n with
    | mk r' res =>
      rw [h] at hs
      simp only at hs
      obtain ⟨h1, h2, h3, h4, h5⟩ := hs
      cases res with
      | error e => simp only; exact ⟨h1, h2, h4, h5⟩
      | ok b =>
        simp only
        obtain ⟨i1, i2, i3, i4⟩ := ih b r'
        refine ⟨i1.trans h1, i2.trans h2, Nat.le_trans h4 i3, ?_⟩
        intro hl
        have := i4 (by rw [h3]; exact h5 hl)
        rw [h3] at this; exact this


theorem readU_ok (data : Bytes) (pos n : Nat) (h : n ≠ 0) (h2 : pos + n ≤ data.length) :
    ({ data := data, pos := pos, failAt := none } : Reader).readExact n =
      ({ data := data, pos := pos + n, failAt := none }, .ok (sub data pos n)) := by
  simp [Reader.readExact, Reader.limit, h, h2]

theorem readU_err (data : Bytes) (pos n : Nat) (h : n ≠ 0) (h2 : ¬ pos + n ≤ data.length) :
    ({ data := data, pos := pos, failAt := none } : Reader).readExact n =
      ({ data := data, pos := max pos data.length, failAt := none }, .error .unexpectedEof) := by
  simp [Reader.readExact, Reader.limit, Reader.dryError, h, h2]

theorem readK_ok (data : Bytes) (pos n k : Nat) (h : n ≠ 0) (h2 : pos + n ≤ min k data.length) :
    ({ data := data, pos := pos, failAt := some k } : Reader).readExact n =
      ({ data := data, pos := pos + n, failAt := some k }, .ok (sub data pos n)) := by
  simp [Reader.readExact, Reader.limit, h, h2]

theorem readK_err (data : Bytes) (pos n k : Nat) (h : n ≠ 0) (h2 : ¬ pos + n ≤ min k data.length) :
    ({ data := data, pos := pos, failAt := some k } : Reader).readExact n =
      ({ data := data, pos := max pos (min k data.length), failAt := some k },
       .error (if k ≤ data.length then .injected else .unexpectedEof)) := by
  simp [Reader.readExact, Reader.limit, Reader.dryError, h, h2]

/-- the same read program against the reader that fails at byte `k` and against the reader that
    never fails, over the same data. -/
theorem run_compare {α : Type} (p : RProg α) (data : Bytes) (k pos : Nat)
    (hk : pos ≤ k) (hl : pos ≤ data.length) :
    (k < (p.run { data := data, pos := pos, failAt := none }).1.pos →
      (p.run { data := data, pos := pos, failAt := some k }).2 = .error (.io .injected) ∧
      (p.run { data := data, pos := pos, failAt := some k }).1.pos = k) ∧
    ((p.run { data := data, pos := pos, failAt := none }).1.pos ≤ k →
      (∀ e, (p.run { data := data, pos := pos, failAt := none }).2 ≠ .error (.io e)) →
      (p.run { data := data, pos := pos, failAt := some k }).2 =
        (p.run { data := data, pos := pos, failAt := none }).2 ∧
      (p.run { data := data, pos := pos, failAt := some k }).1.pos =
        (p.run { data := data, pos := pos, failAt := none }).1.pos) := by
  induction p generalizing pos with
  | done res => cases res <;> simp [RProg.run] <;> omega
  | read n kont ih =>
    by_cases hn : n = 0
    · subst hn
      simp only [RProg.run, readExact_zero]
      exact ih [] pos hk hl
    · by_cases h1 : pos + n ≤ min k data.length
      · have h1' : pos + n ≤ data.length := by omega
        simp only [RProg.run, readU_ok data pos n hn h1', readK_ok data pos n k hn h1]
        exact ih _ (pos + n) (by omega) h1'
      · by_cases h2 : pos + n ≤ data.length
        · -- the unlimited reader goes on, the failing one fails here
          have hkk : k < pos + n := by omega
          simp only [RProg.run, readU_ok data pos n hn h2, readK_err data pos n k hn h1]
          have hm := (run_same (kont (sub data pos n))
            { data := data, pos := pos + n, failAt := none }).2.2.1
          simp only at hm
          have hkl : k ≤ data.length := by omega
          refine ⟨fun _ => ⟨by simp [hkl], by omega⟩, fun h => by omega⟩
        · simp only [RProg.run, readU_err data pos n hn h2, readK_err data pos n k hn h1]
          refine ⟨fun h => ?_, fun _ h => absurd rfl (h .unexpectedEof)⟩
          have hkl : k ≤ data.length := by omega
          exact ⟨by simp [hkl], by omega⟩


/-! ## LimitedReader -/


/-- the invariant of a `LimitedReader` created with limit `max0` over a reader at position `p0`. -/
structure LInv (max0 p0 : Nat) (l : Limited) : Prop where
  noPanic : l.panicked = false
  readLe : l.readLen ≤ l.maxLen
  posLe : l.inner.pos ≤ l.inner.limit
  p0Le : p0 ≤ l.inner.pos
  budget : (l.inner.pos - p0) + (l.maxLen - l.readLen) ≤ max0 ∨
    (l.inner.pos = l.inner.limit ∧ l.inner.pos - p0 ≤ max0)

theorem LInv.new (inner : Reader) (h : inner.pos ≤ inner.limit) (max0 : Nat) (src : String)
    (off : Nat) (layer : String) : LInv max0 inner.pos (Limited.new inner max0 src off layer) := by
  refine ⟨rfl, ?_, h, Nat.le_refl _, ?_⟩ <;> simp [Limited.new]

theorem LInv.pulled {max0 p0 : Nat} {l : Limited} (h : LInv max0 p0 l) : l.inner.pos - p0 ≤ max0 := by
  rcases h.budget with hb | hb <;> omega

theorem startLayer_inv {max0 p0 : Nat} {l : Limited} (h : LInv max0 p0 l) (layer : String) :
    LInv max0 p0 (l.startLayer layer) := by
  obtain ⟨h1, h2, h3, h4, h5⟩ := h
  unfold Limited.startLayer
  rw [if_pos h2]
  refine ⟨h1, by simp, h3, h4, ?_⟩
  simp only
  rcases h5 with hb | hb
  · left; omega
  · right; exact hb

theorem readExact_inv {max0 p0 : Nat} {l : Limited} (h : LInv max0 p0 l) (n : Nat) :
    LInv max0 p0 (l.readExact n).1 ∧ (l.readExact n).2 ≠ .error .panic := by
  obtain ⟨h1, h2, h3, h4, h5⟩ := h
  unfold Limited.readExact
  rw [if_neg (by omega)]
  by_cases hn : l.maxLen - l.readLen < n
  · rw [if_pos hn]
    exact ⟨⟨h1, h2, h3, h4, h5⟩, by simp⟩
  · rw [if_neg hn]
    have hs := readExact_same l.inner n
    rcases readExact_cases l.inner n with ⟨he, hz⟩ | ⟨hnz, hfit, he⟩ | ⟨hnz, hfit, he⟩
    · rw [he]; subst hz
      refine ⟨⟨h1, by simp; exact h2, h3, h4, ?_⟩, by simp⟩
      simpa using h5
    · rw [he]
      refine ⟨⟨h1, by simp; omega, ?_, by simp; omega, ?_⟩, by simp⟩
      · exact hfit
      · simp only
        rcases h5 with hb | hb
        · left; omega
        · omega
    · rw [he]
      refine ⟨⟨h1, h2, ?_, by simp; omega, ?_⟩, by simp⟩
      · show max l.inner.pos l.inner.limit ≤ l.inner.limit
        omega
      · right
        show max l.inner.pos l.inner.limit = l.inner.limit ∧ max l.inner.pos l.inner.limit - p0 ≤ max0
        rcases h5 with hb | hb <;> omega

theorem lrun_inv {α : Type} (p : LProg α) {max0 p0 : Nat} {l : Limited} (h : LInv max0 p0 l) :
    LInv max0 p0 (p.run l).1 ∧ (p.run l).2 ≠ .error .panic := by
  induction p generalizing l with
  | done res => cases res <;> simp [LProg.run, h]
  | read n k ih =>
    have hr := readExact_inv h n
    simp only [LProg.run]
    cases hx : l.readExact n with
    | mk l' res =>
      rw [hx] at hr
      simp only at hr
      cases res with
      | error e => simp only; exact ⟨hr.1, fun hc => hr.2 (by cases hc; rfl)⟩
      | ok b => simp only; exact ih b hr.1
  | start layer k ih =>
    have hs := startLayer_inv h layer
    simp only [LProg.run]
    rw [if_neg (by rw [hs.noPanic]; simp)]
    exact ih hs


/-! ## slice writer -/


theorem take_mid (a p c : Bytes) : (a ++ p ++ c).take (a.length + p.length) = a ++ p := by
  rw [← List.length_append]; exact List.take_left' rfl

theorem drop_mid (a p c : Bytes) (m : Nat) : (a ++ p ++ c).drop (a.length + p.length + m) = c.drop m := by
  rw [← List.length_append, List.drop_append]
  simp

/-- what a sequence of `SliceCoreWrite::write_all` calls does to the slice. -/
theorem sliceParts_spec (parts : List Bytes) (s : SliceWriter) (hp : s.pos ≤ s.buf.length) :
    ∃ m, m ≤ parts.flatten.length ∧ s.pos + m ≤ s.buf.length ∧
      (sliceParts parts s).1.buf =
        s.buf.take s.pos ++ parts.flatten.take m ++ s.buf.drop (s.pos + m) ∧
      (sliceParts parts s).1.pos = s.pos + m ∧
      (match (sliceParts parts s).2 with
       | .ok () => m = parts.flatten.length
       | .error e => e.len = s.buf.length ∧ s.buf.length < e.required ∧
                     e.required ≤ s.pos + parts.flatten.length) := by
  induction parts generalizing s with
  | nil =>
    refine ⟨0, by simp, by simpa using hp, ?_, by simp [sliceParts], by simp [sliceParts]⟩
    simp [sliceParts]
  | cons p ps ih =>
    by_cases hfit : p.length ≤ s.buf.length - s.pos
    · have hw : s.writeAll p =
          ({ buf := s.buf.take s.pos ++ p ++ s.buf.drop (s.pos + p.length), pos := s.pos + p.length },
           .ok ()) := by
        simp [SliceWriter.writeAll, hp, hfit]
      have hlen : (s.buf.take s.pos ++ p ++ s.buf.drop (s.pos + p.length)).length = s.buf.length := by
        simp [List.length_take, List.length_drop]; omega
      have htl : (s.buf.take s.pos).length = s.pos := by simp [List.length_take]; omega
      obtain ⟨m, hm1, hm2, hm3, hm4, hm5⟩ :=
        ih { buf := s.buf.take s.pos ++ p ++ s.buf.drop (s.pos + p.length), pos := s.pos + p.length }
          (by simp only [hlen]; omega)
      dsimp only at hm1 hm2 hm3 hm4 hm5
      simp only [hlen] at hm2 hm5
      refine ⟨p.length + m, by simp only [List.flatten_cons, List.length_append]; omega, by omega,
        ?_, ?_, ?_⟩
      · simp only [sliceParts, hw, hm3]
        have e1 : (s.buf.take s.pos ++ p ++ s.buf.drop (s.pos + p.length)).take (s.pos + p.length)
            = s.buf.take s.pos ++ p := by
          have := take_mid (s.buf.take s.pos) p (s.buf.drop (s.pos + p.length))
          rwa [htl] at this
        have e2 : (s.buf.take s.pos ++ p ++ s.buf.drop (s.pos + p.length)).drop (s.pos + p.length + m)
            = s.buf.drop (s.pos + p.length + m) := by
          have := drop_mid (s.buf.take s.pos) p (s.buf.drop (s.pos + p.length)) m
          rw [htl] at this
          rw [this, List.drop_drop]
        rw [e1, e2]
        simp only [List.flatten_cons, List.take_append, List.append_assoc]
        have : p.length + m - p.length = m := by omega
        rw [this, List.take_of_length_le (by omega : p.length ≤ p.length + m)]
        congr 4; omega
      · simp only [sliceParts, hw, hm4]; omega
      · simp only [sliceParts, hw]
        cases hr : (sliceParts ps { buf := s.buf.take s.pos ++ p ++ s.buf.drop (s.pos + p.length),
                                    pos := s.pos + p.length }).2 with
        | ok u => rw [hr] at hm5; simp at hm5 ⊢; omega
        | error e =>
          rw [hr] at hm5; simp only at hm5 ⊢
          simp only [List.flatten_cons, List.length_append]; omega
    · have hw : s.writeAll p = (s, .error { required := s.pos + p.length, len := s.buf.length }) := by
        simp [SliceWriter.writeAll, hfit]
      have hlt : s.buf.length < s.pos + p.length := by omega
      refine ⟨0, by simp, by simpa using hp, ?_, by simp [sliceParts, hw], ?_⟩
      · simp [sliceParts, hw]
      · simp only [sliceParts, hw, List.flatten_cons, List.length_append]
        exact ⟨trivial, hlt, by omega⟩


end EpModel.Lemmas.Io
