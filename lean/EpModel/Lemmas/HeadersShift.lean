import EpModel.Model.Dec.Headers
import EpModel.Lemmas.SpecShift
/-
  Placement independence of the struct decoders `PacketHeaders` / `LaxPacketHeaders` (used by C06).

  There is no wire-format refinement for the struct-decoding model (Model/Dec/Headers.lean), so the
  statement is proved directly on the model: every function the struct decoders call commutes with
  moving the memory (`g' i = g (k + i)`, e.g. `g' = shM k g`) and the start offset by `k`.  Windows in
  results move by `k` (`shW`, `shExt`, `shIp`, `shPacket` of Lemmas/SpecShift.lean, `shPay`, `shHeaders`
  here); errors do not change at all, because every error offset of these decoders is a difference of
  two positions inside the slice handed in (`o - o0`, `l0 - l`, `+ header length`).
-/
namespace EpModel.Lemmas.HeadersShift
set_option linter.unusedSimpArgs false
set_option linter.unusedVariables false
open EpModel EpModel.Dec EpModel.Spec

/-! ### A. shift operators for the struct results -/

def shPay (k : Nat) : Pay → Pay
  | .empty => .empty
  | .ether et src w inc => .ether et src (shW k w) inc
  | .macsecMod w inc => .macsecMod (shW k w) inc
  | .ip pl => .ip (shPl k pl)
  | .udp w inc => .udp (shW k w) inc
  | .tcp w inc => .tcp (shW k w) inc
  | .icmp4 w inc => .icmp4 (shW k w) inc
  | .icmp6 w inc => .icmp6 (shW k w) inc
  | .linuxSll w => .linuxSll (shW k w)

/-- every window of a `PacketHeaders` / `LaxPacketHeaders` result moved by `k` -/
def shHeaders (k : Nat) (h : Headers) : Headers := { p := shPacket k h.p, pay := shPay k h.pay }

def shTpPay (k : Nat) (x : Option TpR × Pay) : Option TpR × Pay := (x.1.map (shTp k), shPay k x.2)

def shExtsOut (k : Nat) (r : ExtsOut) : ExtsOut :=
  { next := r.next, frag := r.frag, rest := shW k r.rest, slots := shSlots k r.slots, stop := r.stop }

/-- `Except.map` with equations that `simp` can use -/
def exMap {ε α β : Type} (f : α → β) : Except ε α → Except ε β
  | .ok x => .ok (f x)
  | .error e => .error e

@[simp] theorem exMap_ok {ε α β : Type} (f : α → β) (x : α) : exMap f (.ok x : Except ε α) = .ok (f x) := rfl
@[simp] theorem exMap_error {ε α β : Type} (f : α → β) (e : ε) : exMap f (.error e : Except ε α) = .error e := rfl

theorem shPacket_setLink (k : Nat) (p : Packet) (x : LinkR) :
    shPacket k (p.setLink x) = (shPacket k p).setLink (shLink k x) := by
  simp [shPacket, Packet.setLink]

theorem shPacket_pushExt (k : Nat) (p : Packet) (x : ExtR) :
    shPacket k (p.pushExt x) = (shPacket k p).pushExt (shExt k x) := by
  simp [shPacket, Packet.pushExt]

theorem shPacket_setNet (k : Nat) (p : Packet) (x : NetR) :
    shPacket k (p.setNet x) = (shPacket k p).setNet (shNet k x) := by
  simp [shPacket, Packet.setNet]

theorem shPacket_setTp (k : Nat) (p : Packet) (x : TpR) :
    shPacket k (p.setTp x) = (shPacket k p).setTp (shTp k x) := by
  simp [shPacket, Packet.setTp]

theorem shPacket_setStop (k : Nat) (p : Packet) (e : PErr) (ly : Layer) :
    shPacket k (p.setStop e ly) = (shPacket k p).setStop e ly := by
  simp [shPacket, Packet.setStop]

theorem shPacket_stopAddOff (j k : Nat) (p : Packet) :
    shPacket k (stopAddOff j p) = stopAddOff j (shPacket k p) := by
  unfold stopAddOff
  rw [show (shPacket k p).stop = p.stop from rfl]
  split <;> rfl

@[simp] theorem shSlots_none (k : Nat) : shSlots k ExtSlots.none = ExtSlots.none := rfl

/-! ### B. single headers: no window in the result, the answer is simply the same -/

section
variable (k : Nat) (g g' : Mem) (hg : ∀ i, g' i = g (k + i))
include hg

theorem g16_sh' (i : Nat) : g16 g (k + i) = g16 g' i := (g16_sh k g g' hg i).symm

theorem macsecHeaderFromSlice_sh (o l : Nat) :
    macsecHeaderFromSlice g (k + o) l = macsecHeaderFromSlice g' o l := by
  simp only [macsecHeaderFromSlice, hg, Nat.add_assoc]

theorem macsecExpectedPayloadLen_sh (o : Nat) :
    macsecExpectedPayloadLen g (k + o) = macsecExpectedPayloadLen g' o := by
  simp only [macsecExpectedPayloadLen, hg, Nat.add_assoc]

theorem macsecNextEtherType_sh (o : Nat) :
    macsecNextEtherType g (k + o) = macsecNextEtherType g' o := by
  simp only [macsecNextEtherType, hg, g16_sh k g g' hg, Nat.add_assoc]

theorem ipv4HeaderFromSlice_sh (o l : Nat) :
    ipv4HeaderFromSlice g (k + o) l = ipv4HeaderFromSlice g' o l := by
  simp only [ipv4HeaderFromSlice, hg, Nat.add_assoc]

theorem ipv4IsFragmenting_sh (o : Nat) : ipv4IsFragmenting g (k + o) = ipv4IsFragmenting g' o := by
  simp only [ipv4IsFragmenting, hg, Nat.add_assoc]

theorem ipv6HeaderFromSlice_sh (o l : Nat) :
    ipv6HeaderFromSlice g (k + o) l = ipv6HeaderFromSlice g' o l := by
  simp only [ipv6HeaderFromSlice, hg, Nat.add_assoc]

theorem ahFromSlice_sh (o l : Nat) : ahFromSlice g (k + o) l = ahFromSlice g' o l := by
  simp only [ahFromSlice, hg, Nat.add_assoc]

theorem fragIsFragmenting_sh (o : Nat) : fragIsFragmenting g (k + o) = fragIsFragmenting g' o := by
  simp only [fragIsFragmenting, hg, Nat.add_assoc]

theorem ipDispatchHeader_sh (m : Bool) (o l : Nat) :
    ipDispatchHeader g m (k + o) l = ipDispatchHeader g' m o l := by
  simp only [ipDispatchHeader, hg, Nat.add_assoc]

theorem tcpFromSlice_sh (o l : Nat) : tcpFromSlice g (k + o) l = tcpFromSlice g' o l := by
  simp only [tcpFromSlice, hg, Nat.add_assoc]

theorem icmp4HeaderLen_sh (o : Nat) : icmp4HeaderLen g (k + o) = icmp4HeaderLen g' o := by
  simp only [icmp4HeaderLen, hg, Nat.add_assoc]

/-! ### C. single headers that hand out a window -/

omit hg in
theorem vlanFromSlice_sh (o l : Nat) : vlanFromSlice (k + o) l = exMap (shW k) (vlanFromSlice o l) := by
  unfold vlanFromSlice; split <;> rfl

theorem macsecFromSlice_sh (o l : Nat) :
    macsecFromSlice g (k + o) l = exMap (shExt k) (macsecFromSlice g' o l) := by
  unfold macsecFromSlice
  rw [macsecHeaderFromSlice_sh k g g' hg, macsecExpectedPayloadLen_sh k g g' hg]
  cases macsecHeaderFromSlice g' o l with
  | error e => rfl
  | ok hl =>
    dsimp only
    cases macsecExpectedPayloadLen g' o with
    | none => simp [shExt, shW, Nat.add_assoc]
    | some pl => dsimp only; split <;> simp [shExt, shW, Nat.add_assoc]

theorem laxMacsecFromSlice_sh (o l : Nat) :
    laxMacsecFromSlice g (k + o) l = exMap (shExt k) (laxMacsecFromSlice g' o l) := by
  unfold laxMacsecFromSlice
  rw [macsecHeaderFromSlice_sh k g g' hg, macsecExpectedPayloadLen_sh k g g' hg]
  cases macsecHeaderFromSlice g' o l with
  | error e => rfl
  | ok hl =>
    dsimp only
    cases macsecExpectedPayloadLen g' o with
    | none => simp [shExt, shW, Nat.add_assoc]
    | some pl => dsimp only; split <;> simp [shExt, shW, Nat.add_assoc]

theorem arpFromSlice_sh (o l : Nat) : arpFromSlice g (k + o) l = exMap (shW k) (arpFromSlice g' o l) := by
  simp only [arpFromSlice, hg, Nat.add_assoc]
  repeat' split
  all_goals simp [shW]

theorem udpFromSlice_sh (o l : Nat) : udpFromSlice g (k + o) l = exMap (shW k) (udpFromSlice g' o l) := by
  simp only [udpFromSlice, g16_sh k g g' hg, Nat.add_assoc]
  repeat' split
  all_goals simp [shW]

theorem udpFromSliceLax_sh (o l : Nat) :
    udpFromSliceLax g (k + o) l = exMap (shW k) (udpFromSliceLax g' o l) := by
  simp only [udpFromSliceLax, g16_sh k g g' hg, Nat.add_assoc]
  repeat' split
  all_goals simp [shW]

theorem icmp4FromSlice_sh (o l : Nat) :
    icmp4FromSlice g (k + o) l = exMap (shW k) (icmp4FromSlice g' o l) := by
  simp only [icmp4FromSlice, hg, Nat.add_assoc]
  repeat' split
  all_goals simp [shW]

omit hg in
theorem icmp6FromSlice_sh (o l : Nat) : icmp6FromSlice (k + o) l = exMap (shW k) (icmp6FromSlice o l) := by
  unfold icmp6FromSlice
  repeat' split
  all_goals simp [shW]

/-! ### D. the IP layer in struct mode -/

omit hg in
theorem ipv4BoundStrict_sh (o l hl tl : Nat) :
    ipv4BoundStrict (k + o) l hl tl = exMap (shW k) (ipv4BoundStrict o l hl tl) := by
  unfold ipv4BoundStrict
  repeat' split
  all_goals simp [shW, Nat.add_assoc]

omit hg in
theorem ipv4BoundLax_sh (o l hl tl : Nat) :
    ipv4BoundLax (k + o) l hl tl =
      (shW k (ipv4BoundLax o l hl tl).1, (ipv4BoundLax o l hl tl).2.1, (ipv4BoundLax o l hl tl).2.2) := by
  unfold ipv4BoundLax
  repeat' split
  all_goals simp [shW, Nat.add_assoc]

omit hg in
theorem ipv6BoundStrict_sh (o l pl : Nat) :
    ipv6BoundStrict (k + o) l pl = exMap (fun x => (shW k x.1, x.2)) (ipv6BoundStrict o l pl) := by
  unfold ipv6BoundStrict
  repeat' split
  all_goals simp [shW, Nat.add_assoc]

omit hg in
theorem ipv6BoundLax_sh (o l pl : Nat) :
    ipv6BoundLax (k + o) l pl =
      (shW k (ipv6BoundLax o l pl).1, (ipv6BoundLax o l pl).2.1, (ipv6BoundLax o l pl).2.2) := by
  unfold ipv6BoundLax
  repeat' split
  all_goals simp [shW, Nat.add_assoc]

omit hg in
theorem mkV4_sh (o hl : Nat) (auth : Option Win) (pl : IpPl) :
    mkV4 (k + o) hl (auth.map (shW k)) (shPl k pl) = shIp k (mkV4 o hl auth pl) := by
  simp [mkV4, shIp, shW, noExts]

theorem ipv4AfterHeaderStrict_sh (o l hl : Nat) :
    ipv4AfterHeaderStrict g (k + o) l hl = exMap (shIp k) (ipv4AfterHeaderStrict g' o l hl) := by
  have hg' : ∀ i, g (k + i) = g' i := fun i => (hg i).symm
  unfold ipv4AfterHeaderStrict
  simp only [ipv4BoundStrict_sh, g16_sh' k g g' hg, Nat.add_assoc, ipv4IsFragmenting_sh k g g' hg, hg']
  cases ipv4BoundStrict o l hl (g16 g' (o + 2)) with
  | error e => rfl
  | ok hp =>
    simp only [exMap_ok, shW, ahFromSlice_sh k g g' hg, hg', Nat.add_assoc]
    split
    · cases ahFromSlice g' hp.o hp.l with
      | error e => cases e <;> rfl
      | ok al => simp [mkV4, shIp, shW, noExts, shPl, Nat.add_assoc]
    · simp [mkV4, shIp, shW, noExts, shPl]

theorem ipv4AfterHeaderLax_sh (o l hl : Nat) :
    ipv4AfterHeaderLax g (k + o) l hl =
      (shIp k (ipv4AfterHeaderLax g' o l hl).1, (ipv4AfterHeaderLax g' o l hl).2) := by
  have hg' : ∀ i, g (k + i) = g' i := fun i => (hg i).symm
  unfold ipv4AfterHeaderLax
  simp only [ipv4BoundLax_sh, g16_sh' k g g' hg, Nat.add_assoc, ipv4IsFragmenting_sh k g g' hg, hg']
  generalize ipv4BoundLax o l hl (g16 g' (o + 2)) = b
  obtain ⟨hp, src, inc⟩ := b
  simp only [shW, ahFromSlice_sh k g g' hg, hg', Nat.add_assoc]
  split
  · cases ahFromSlice g' hp.o hp.l with
    | error e => cases e <;> simp [mkV4, shIp, shW, noExts, shPl, Nat.add_assoc]
    | ok al => simp [mkV4, shIp, shW, noExts, shPl, Nat.add_assoc]
  · simp [mkV4, shIp, shW, noExts, shPl]

omit hg in
theorem rawFits_sh (nh : Nat) (s : ExtSlots) : rawFits nh (shSlots k s) = rawFits nh s := by
  simp [rawFits, shSlots]

omit hg in
theorem rawStore_sh (nh : Nat) (s : ExtSlots) (w : Win) :
    rawStore nh (shSlots k s) (shW k w) = shSlots k (rawStore nh s w) := by
  unfold rawStore
  simp only [shSlots, Option.isSome_map]
  repeat' split
  all_goals rfl

omit hg in
theorem fragStore_sh (s : ExtSlots) (w : Win) :
    fragStore (shSlots k s) (shW k w) = shSlots k (fragStore s w) := rfl

omit hg in
theorem authStore_sh (s : ExtSlots) (w : Win) :
    authStore (shSlots k s) (shW k w) = shSlots k (authStore s w) := rfl

omit hg in
theorem extsDone_sh (nh : Nat) (frag : Bool) (s : ExtSlots) (o l : Nat) :
    extsDone nh frag (shSlots k s) (k + o) l = shExtsOut k (extsDone nh frag s o l) := rfl

omit hg in
theorem extsFail_sh (nh : Nat) (frag : Bool) (s : ExtSlots) (o l : Nat) (e : ExtErr) (ly : Layer) :
    extsFail nh frag (shSlots k s) (k + o) l e ly = shExtsOut k (extsFail nh frag s o l e ly) := rfl

/-- the IPv6 extension walk (slice mode and struct mode) is placement independent -/
theorem extsLoop_sh (sm : Bool) (l0 nh : Nat) (frag : Bool) (slots : ExtSlots) (o l : Nat) :
    extsLoop g sm l0 nh frag (shSlots k slots) (k + o) l =
      shExtsOut k (extsLoop g' sm l0 nh frag slots o l) := by
  have hg' : ∀ i, g (k + i) = g' i := fun i => (hg i).symm
  have hfr : ∀ s : ExtSlots, (shSlots k s).frag.isSome = s.frag.isSome := by intro s; simp [shSlots]
  have hau : ∀ s : ExtSlots, (shSlots k s).auth.isSome = s.auth.isSome := by intro s; simp [shSlots]
  have hrs : ∀ nh s o l, rawStore nh (shSlots k s) ⟨k + o, l⟩ = shSlots k (rawStore nh s ⟨o, l⟩) :=
    fun nh s o l => rawStore_sh k nh s ⟨o, l⟩
  have hfs : ∀ s o l, fragStore (shSlots k s) ⟨k + o, l⟩ = shSlots k (fragStore s ⟨o, l⟩) := fun _ _ _ => rfl
  have has : ∀ s o l, authStore (shSlots k s) ⟨k + o, l⟩ = shSlots k (authStore s ⟨o, l⟩) := fun _ _ _ => rfl
  fun_induction extsLoop g' sm l0 nh frag slots o l
  all_goals (conv => lhs; unfold extsLoop)
  all_goals simp_all [rawFits_sh, Nat.add_assoc, extsDone_sh, extsFail_sh, hfr, hau, hrs, hfs, has,
    fragIsFragmenting_sh k g g' hg]
  all_goals (repeat' split)
  all_goals first | rfl | omega | (simp_all; done)

theorem rawExtFromSlice_sh (o l : Nat) : rawExtFromSlice g (k + o) l = rawExtFromSlice g' o l := by
  simp only [rawExtFromSlice, hg, Nat.add_assoc]

theorem extsWalk_sh (sm : Bool) (nh o l : Nat) :
    extsWalk g sm nh (k + o) l = shExtsOut k (extsWalk g' sm nh o l) := by
  have hg' : ∀ i, g (k + i) = g' i := fun i => (hg i).symm
  unfold extsWalk
  split
  · rw [rawExtFromSlice_sh k g g' hg]
    cases rawExtFromSlice g' o l with
    | error e => rfl
    | ok hl =>
      dsimp only
      rw [← extsLoop_sh k g g' hg, Nat.add_assoc, hg']
      rfl
  · rw [← extsLoop_sh k g g' hg]; rfl

theorem extsWalkStrict_sh (sm : Bool) (nh o l : Nat) :
    extsWalkStrict g sm nh (k + o) l = exMap (shExtsOut k) (extsWalkStrict g' sm nh o l) := by
  unfold extsWalkStrict
  simp only [extsWalk_sh k g g' hg]
  rw [show (shExtsOut k (extsWalk g' sm nh o l)).stop = (extsWalk g' sm nh o l).stop from rfl]
  cases (extsWalk g' sm nh o l).stop with
  | none => rfl
  | some x => rfl

omit hg in
theorem mkV6_sh (sm : Bool) (o nh : Nat) (hp : Win) (r : ExtsOut) (src : LenSource) (inc : Bool) :
    mkV6 sm (k + o) nh (shW k hp) (shExtsOut k r) src inc = shIp k (mkV6 sm o nh hp r src inc) := by
  cases sm <;> rfl

theorem ipv6ChainStrict_sh (sm : Bool) (o : Nat) (hp : Win) (src : LenSource) :
    ipv6ChainStrict g sm (k + o) (shW k hp) src = exMap (shIp k) (ipv6ChainStrict g' sm o hp src) := by
  have hg' : ∀ i, g (k + i) = g' i := fun i => (hg i).symm
  unfold ipv6ChainStrict
  rw [show (shW k hp).o = k + hp.o from rfl, show (shW k hp).l = hp.l from rfl, Nat.add_assoc, hg',
    extsWalkStrict_sh k g g' hg]
  cases extsWalkStrict g' sm (g' (o + 6)) hp.o hp.l with
  | error e => cases e <;> rfl
  | ok r =>
    simp only [exMap_ok]
    rw [← mkV6_sh]

theorem ipv6AfterHeaderStrict_sh (sm : Bool) (o l : Nat) :
    ipv6AfterHeaderStrict g sm (k + o) l = exMap (shIp k) (ipv6AfterHeaderStrict g' sm o l) := by
  unfold ipv6AfterHeaderStrict
  rw [Nat.add_assoc, g16_sh' k g g' hg, ipv6BoundStrict_sh]
  cases ipv6BoundStrict o l (g16 g' (o + 4)) with
  | error e => rfl
  | ok x =>
    obtain ⟨hp, src⟩ := x
    exact ipv6ChainStrict_sh k g g' hg sm o hp src

theorem ipv6AfterHeaderLax_sh (sm : Bool) (o l : Nat) :
    ipv6AfterHeaderLax g sm (k + o) l =
      (shIp k (ipv6AfterHeaderLax g' sm o l).1, (ipv6AfterHeaderLax g' sm o l).2) := by
  have hg' : ∀ i, g (k + i) = g' i := fun i => (hg i).symm
  unfold ipv6AfterHeaderLax
  simp only [Nat.add_assoc, g16_sh' k g g' hg, ipv6BoundLax_sh, hg']
  generalize ipv6BoundLax o l (g16 g' (o + 4)) = b
  obtain ⟨hp, src, inc⟩ := b
  simp only
  rw [show (shW k hp).o = k + hp.o from rfl, show (shW k hp).l = hp.l from rfl, extsWalk_sh k g g' hg,
    ← mkV6_sh]
  rfl

/-! the entry points of `IpHeaders` used by the two struct decoders -/

theorem ipHeadersFromIpv4Slice_sh (o l : Nat) :
    ipHeadersFromIpv4Slice g (k + o) l = exMap (shIp k) (ipHeadersFromIpv4Slice g' o l) := by
  unfold ipHeadersFromIpv4Slice
  rw [ipv4HeaderFromSlice_sh k g g' hg]
  cases ipv4HeaderFromSlice g' o l with
  | error e => rfl
  | ok hl => exact ipv4AfterHeaderStrict_sh k g g' hg o l hl

theorem ipHeadersFromIpv6Slice_sh (o l : Nat) :
    ipHeadersFromIpv6Slice g (k + o) l = exMap (shIp k) (ipHeadersFromIpv6Slice g' o l) := by
  unfold ipHeadersFromIpv6Slice
  rw [ipv6HeaderFromSlice_sh k g g' hg]
  cases ipv6HeaderFromSlice g' o l with
  | error e => rfl
  | ok u => exact ipv6AfterHeaderStrict_sh k g g' hg true o l

theorem ipHeadersFromSlice_sh (o l : Nat) :
    ipHeadersFromSlice g (k + o) l = exMap (shIp k) (ipHeadersFromSlice g' o l) := by
  unfold ipHeadersFromSlice
  rw [ipDispatchHeader_sh k g g' hg]
  cases ipDispatchHeader g' true o l with
  | error e => rfl
  | ok x =>
    cases x with
    | inl hl => exact ipv4AfterHeaderStrict_sh k g g' hg o l hl
    | inr u => exact ipv6AfterHeaderStrict_sh k g g' hg true o l

def shIpStop (k : Nat) (x : IpR × Option (PErr × Layer)) : IpR × Option (PErr × Layer) := (shIp k x.1, x.2)

theorem ipHeadersFromSliceLax_sh (o l : Nat) :
    ipHeadersFromSliceLax g (k + o) l = exMap (shIpStop k) (ipHeadersFromSliceLax g' o l) := by
  unfold ipHeadersFromSliceLax
  rw [ipDispatchHeader_sh k g g' hg]
  cases ipDispatchHeader g' true o l with
  | error e => rfl
  | ok x =>
    cases x with
    | inl hl => simp only [exMap_ok, shIpStop]; rw [ipv4AfterHeaderLax_sh k g g' hg]
    | inr u => simp only [exMap_ok, shIpStop]; rw [ipv6AfterHeaderLax_sh k g g' hg]

/-! ### E. `PacketHeaders` -/

theorem readTransport_sh (pl : IpPl) :
    readTransport g (shPl k pl) = exMap (shTpPay k) (readTransport g' pl) := by
  unfold readTransport
  simp only [shPl, shW, icmp4FromSlice_sh k g g' hg, icmp6FromSlice_sh, udpFromSlice_sh k g g' hg,
    tcpFromSlice_sh k g g' hg, icmp4HeaderLen_sh k g g' hg]
  by_cases hf : pl.frag = true
  · simp [hf, shTpPay, shPay, shPl, shW]
  · have hf' : pl.frag = false := by simpa using hf
    simp only [hf, if_false, Bool.false_eq_true]
    by_cases h1 : pl.num = 1
    · simp only [h1, if_true]
      cases icmp4FromSlice g' pl.w.o pl.w.l with
      | error e => rfl
      | ok w => simp [shTpPay, shTp, shPay, shW, Nat.add_assoc]
    · by_cases h58 : pl.num = 58
      · simp only [h58, if_true, if_false, show ¬ ((58 : Nat) = 1) by omega]
        cases icmp6FromSlice pl.w.o pl.w.l with
        | error e => rfl
        | ok w => simp [shTpPay, shTp, shPay, shW, Nat.add_assoc]
      · by_cases h17 : pl.num = 17
        · simp only [h17, if_true, if_false, show ¬ ((17 : Nat) = 1) by omega, show ¬ ((17 : Nat) = 58) by omega]
          cases udpFromSlice g' pl.w.o pl.w.l with
          | error e => rfl
          | ok w => simp [shTpPay, shTp, shPay, shW, Nat.add_assoc]
        · by_cases h6 : pl.num = 6
          · simp only [h6, if_true, if_false, show ¬ ((6 : Nat) = 1) by omega, show ¬ ((6 : Nat) = 58) by omega,
              show ¬ ((6 : Nat) = 17) by omega]
            cases tcpFromSlice g' pl.w.o pl.w.l with
            | error e => cases e <;> rfl
            | ok hl => simp [shTpPay, shTp, shPay, shW, Nat.add_assoc]
          · simp [h1, h58, h17, h6, hf', shTpPay, shPay, shPl, shW]

theorem phIpPart_sh (o0 o : Nat) (r : Packet) (ipr : Except PErr IpR) :
    phIpPart g (k + o0) (k + o) (shPacket k r) (exMap (shIp k) ipr) =
      exMap (shHeaders k) (phIpPart g' o0 o r ipr) := by
  unfold phIpPart
  cases ipr with
  | error e => simp only [exMap_error, Nat.add_sub_add_left]
  | ok ip =>
    simp only [exMap_ok]
    rw [show (shIp k ip).pl = shPl k ip.pl from rfl, readTransport_sh k g g' hg]
    cases readTransport g' ip.pl with
    | error e => simp only [exMap_error, shPl, shW, Nat.add_sub_add_left]
    | ok x =>
      obtain ⟨tp, pay⟩ := x
      simp [shTpPay, shHeaders, shPacket, shNet]

theorem phNet_sh (o0 et o l : Nat) (r : Packet) (pay : Pay) :
    phNet g (k + o0) et (k + o) l (shPacket k r) (shPay k pay) =
      exMap (shHeaders k) (phNet g' o0 et o l r pay) := by
  unfold phNet
  split
  · rw [ipHeadersFromIpv4Slice_sh k g g' hg, phIpPart_sh k g g' hg]
  · split
    · rw [ipHeadersFromIpv6Slice_sh k g g' hg, phIpPart_sh k g g' hg]
    · split
      · rw [arpFromSlice_sh k g g' hg]
        cases arpFromSlice g' o l with
        | error e => simp only [exMap_error, Nat.add_sub_add_left]
        | ok w => simp [shHeaders, shPacket_setNet, shNet, shPay]
      · rfl

/-- the link-extension loop of `PacketHeaders::from_ether_type` is placement independent -/
theorem phLoop_sh (o0 n et o l : Nat) (src : LenSource) (r : Packet) (pay : Pay) :
    phLoop g (k + o0) n et (k + o) l src (shPacket k r) (shPay k pay) =
      exMap (shHeaders k) (phLoop g' o0 n et o l src r pay) := by
  induction n generalizing et o l src r pay with
  | zero =>
    unfold phLoop
    simp only [phNet_sh k g g' hg, ite_self]
  | succ n ih =>
    unfold phLoop
    split
    · simp only [vlanFromSlice_sh]
      cases vlanFromSlice o l with
      | error e => simp only [exMap_error, Nat.add_sub_add_left]
      | ok w =>
        simp only [exMap_ok, Nat.add_assoc, g16_sh' k g g' hg]
        rw [← ih]
        simp [shPacket_pushExt, shExt, shW, shPay]
    · split
      · simp only [macsecFromSlice_sh k g g' hg, macsecNextEtherType_sh k g g' hg]
        cases macsecFromSlice g' o l with
        | error e => cases e <;> simp only [exMap_error, Nat.add_sub_add_left]
        | ok x =>
          cases x with
          | vlan w => rfl
          | macsec hdr pl msrc inc =>
            simp only [exMap_ok, shExt]
            cases macsecNextEtherType g' o with
            | none => simp [shHeaders, shPacket_pushExt, shExt, shPay]
            | some et' =>
              simp only [show (shW k pl).o = k + pl.o from rfl, show (shW k pl).l = pl.l from rfl]
              rw [← ih]
              simp [shPacket_pushExt, shExt, shW, shPay]
      · exact phNet_sh k g g' hg o0 et o l r pay

/-- **`PacketHeaders::from_ether_type` is placement independent**: decoding at offset `k + o` of `g` is
    decoding at offset `o` of the memory seen from `k`, every window moved by `k`; errors are equal
    (their offsets are relative to the start of the slice handed in). -/
theorem phFromEtherType_sh (et o l : Nat) :
    phFromEtherType g et (k + o) l = exMap (shHeaders k) (phFromEtherType g' et o l) := by
  unfold phFromEtherType
  rw [← phLoop_sh k g g' hg]
  rfl

/-! ### F. `LaxPacketHeaders` -/

theorem lphTransport_sh (ip : IpR) (r1 : Packet) (off' : Nat) :
    lphTransport g (shIp k ip) (shPacket k r1) off' = shHeaders k (lphTransport g' ip r1 off') := by
  unfold lphTransport
  simp only [shIp, shPl, shW, icmp4FromSlice_sh k g g' hg, icmp6FromSlice_sh, udpFromSliceLax_sh k g g' hg,
    tcpFromSlice_sh k g g' hg, icmp4HeaderLen_sh k g g' hg]
  by_cases h1 : ip.pl.num = 1
  · simp only [h1, if_true]
    cases icmp4FromSlice g' ip.pl.w.o ip.pl.w.l with
    | error e => simp [shHeaders, shPacket_setStop, shPay, shPl, shW, h1]
    | ok w => simp [shHeaders, shPacket_setTp, shTp, shPay, shW, Nat.add_assoc]
  · by_cases h58 : ip.pl.num = 58
    · simp only [h58, if_true, if_false, show ¬ ((58 : Nat) = 1) by omega]
      cases icmp6FromSlice ip.pl.w.o ip.pl.w.l with
      | error e => simp [shHeaders, shPacket_setStop, shPay, shPl, shW, h58]
      | ok w => simp [shHeaders, shPacket_setTp, shTp, shPay, shW, Nat.add_assoc]
    · by_cases h17 : ip.pl.num = 17
      · simp only [h17, if_true, if_false, show ¬ ((17 : Nat) = 1) by omega, show ¬ ((17 : Nat) = 58) by omega]
        cases udpFromSliceLax g' ip.pl.w.o ip.pl.w.l with
        | error e => simp [shHeaders, shPacket_setStop, shPay, shPl, shW, h17]
        | ok w => simp [shHeaders, shPacket_setTp, shTp, shPay, shW, Nat.add_assoc]
      · by_cases h6 : ip.pl.num = 6
        · simp only [h6, if_true, if_false, show ¬ ((6 : Nat) = 1) by omega, show ¬ ((6 : Nat) = 58) by omega,
            show ¬ ((6 : Nat) = 17) by omega]
          cases tcpFromSlice g' ip.pl.w.o ip.pl.w.l with
          | error e => cases e <;> simp [shHeaders, shPacket_setStop, shPay, shPl, shW, h6]
          | ok hl => simp [shHeaders, shPacket_setTp, shTp, shPay, shW, Nat.add_assoc]
        · simp [h1, h58, h17, h6, shHeaders, shPay, shPl, shW]

theorem lphAddIp_sh (off o l : Nat) (r : Packet) :
    lphAddIp g off (k + o) l (shPacket k r) = exMap (shHeaders k) (lphAddIp g' off o l r) := by
  unfold lphAddIp
  rw [ipHeadersFromSliceLax_sh k g g' hg]
  cases ipHeadersFromSliceLax g' o l with
  | error e => rfl
  | ok x =>
    obtain ⟨ip, stop⟩ := x
    simp only [exMap_ok, shIpStop]
    cases stop with
    | some s =>
      obtain ⟨e, ly⟩ := s
      cases e <;> simp [shHeaders, shPacket_setNet, shPacket_setStop, shNet, shPay, shIp, shPl]
    | none =>
      simp only
      rw [show (shIp k ip).pl.frag = ip.pl.frag from rfl]
      split
      · simp [shHeaders, shPacket_setNet, shNet, shPay, shIp, shPl]
      · rw [show (shPacket k r).setNet (.ip (shIp k ip)) = shPacket k (r.setNet (.ip ip)) from
            (shPacket_setNet k r (.ip ip)).symm,
          show (shIp k ip).pl.w.o = k + ip.pl.w.o from rfl, Nat.add_sub_add_left,
          lphTransport_sh k g g' hg]
        rfl

theorem lphNet_sh (off et o l : Nat) (r : Packet) (pay : Pay) :
    lphNet g off et (k + o) l (shPacket k r) (shPay k pay) = shHeaders k (lphNet g' off et o l r pay) := by
  unfold lphNet
  split
  · rw [lphAddIp_sh k g g' hg]
    cases lphAddIp g' off o l r with
    | ok h => rfl
    | error e => cases e <;> rfl
  · split
    · rw [arpFromSlice_sh k g g' hg]
      cases arpFromSlice g' o l with
      | error e => rfl
      | ok w => simp [shHeaders, shPacket_setNet, shNet, shPay]
    · rfl

/-- the loop of `LaxPacketHeaders::from_ether_type` is placement independent -/
theorem lphLoop_sh (n off et o l : Nat) (src : LenSource) (r : Packet) (pay : Pay) :
    lphLoop g n off et (k + o) l src (shPacket k r) (shPay k pay) =
      shHeaders k (lphLoop g' n off et o l src r pay) := by
  induction n generalizing off et o l src r pay with
  | zero =>
    unfold lphLoop
    simp only [lphNet_sh k g g' hg, ite_self]
  | succ n ih =>
    unfold lphLoop
    split
    · simp only [vlanFromSlice_sh]
      cases vlanFromSlice o l with
      | error e => rfl
      | ok w =>
        simp only [exMap_ok, Nat.add_assoc, g16_sh' k g g' hg]
        rw [← ih]
        simp [shPacket_pushExt, shExt, shW, shPay]
    · split
      · simp only [laxMacsecFromSlice_sh k g g' hg, macsecNextEtherType_sh k g g' hg]
        cases laxMacsecFromSlice g' o l with
        | error e => cases e <;> rfl
        | ok x =>
          cases x with
          | vlan w => rfl
          | macsec hdr pl msrc inc =>
            simp only [exMap_ok, shExt]
            cases macsecNextEtherType g' o with
            | none => simp [shHeaders, shPacket_pushExt, shExt, shPay]
            | some et' =>
              simp only [show (shW k pl).o = k + pl.o from rfl, show (shW k pl).l = pl.l from rfl,
                show (shW k hdr).l = hdr.l from rfl]
              rw [← ih]
              simp [shPacket_pushExt, shExt, shW, shPay]
      · exact lphNet_sh k g g' hg off et o l r pay

/-- **`LaxPacketHeaders::from_ether_type` is placement independent** (stop errors included: their
    offsets are relative to the start of the slice handed in) -/
theorem lphFromEtherType_sh (et o l : Nat) :
    lphFromEtherType g et (k + o) l = shHeaders k (lphFromEtherType g' et o l) := by
  unfold lphFromEtherType
  rw [← lphLoop_sh k g g' hg]
  rfl

end

/-! ### G. the Ethernet II doors -/

/-- what `PacketHeaders::from_ethernet_slice` makes of the result of `PacketHeaders::from_ether_type` on the
    bytes behind the Ethernet II header: every window moved by 14, the offset of a length error moved
    by 14 (content errors carry no offset), the link is the Ethernet II header -/
def ethOfEtherTypeHeaders : Except PErr Headers → Except PErr Headers
  | .error e => .error (lenAddOff 14 e)
  | .ok h => .ok { p := (shPacket 14 h.p).setLink (.eth2 ⟨0, 14⟩), pay := shPay 14 h.pay }

/-- the lax twin: the result is always a value; the offset of a length stop error moved by 14 -/
def laxEthOfEtherTypeHeaders (h : Headers) : Headers :=
  { p := (stopAddOff 14 (shPacket 14 h.p)).setLink (.eth2 ⟨0, 14⟩), pay := shPay 14 h.pay }

theorem phFromEthernet_eq (g : Mem) (n : Nat) (h : 14 ≤ n) :
    phFromEthernet g n = ethOfEtherTypeHeaders (phFromEtherType (shM 14 g) (g16 g 12) 0 (n - 14)) := by
  unfold phFromEthernet eth2FromSlice
  rw [if_neg (by omega)]
  simp only
  rw [show (14 : Nat) = 14 + 0 from rfl, phFromEtherType_sh 14 g (shM 14 g) (fun _ => rfl)]
  cases phFromEtherType (shM 14 g) (g16 g 12) 0 (n - 14) with
  | error e => rfl
  | ok h => rfl

theorem lphFromEthernet_eq (g : Mem) (n : Nat) (h : 14 ≤ n) :
    lphFromEthernet g n = .ok (laxEthOfEtherTypeHeaders (lphFromEtherType (shM 14 g) (g16 g 12) 0 (n - 14))) := by
  unfold lphFromEthernet eth2FromSlice
  rw [if_neg (by omega)]
  simp only
  rw [show (14 : Nat) = 14 + 0 from rfl, lphFromEtherType_sh 14 g (shM 14 g) (fun _ => rfl)]
  simp only [laxEthOfEtherTypeHeaders, shHeaders, shPacket_stopAddOff]

theorem phFromEthernet_short (g : Mem) (n : Nat) (h : n < 14) :
    phFromEthernet g n =
      .error (.len { req := 14, len := n, src := .slice, layer := .ethernet2Header, off := 0 }) := by
  simp [phFromEthernet, eth2FromSlice, h]

theorem lphFromEthernet_short (g : Mem) (n : Nat) (h : n < 14) :
    lphFromEthernet g n = .error { req := 14, len := n, src := .slice, layer := .ethernet2Header, off := 0 } := by
  simp [lphFromEthernet, eth2FromSlice, h]

/-! ### H. the ether-type doors leave the link field as it was (`None`) -/

theorem phIpPart_link (g : Mem) (o0 o : Nat) (r : Packet) (ipr : Except PErr IpR) (h : Headers)
    (hh : phIpPart g o0 o r ipr = .ok h) : h.p.link = r.link := by
  unfold phIpPart at hh
  split at hh
  · cases hh
  · split at hh
    · cases hh
    · cases hh; rfl

theorem phNet_link (g : Mem) (o0 et o l : Nat) (r : Packet) (pay : Pay) (h : Headers)
    (hh : phNet g o0 et o l r pay = .ok h) : h.p.link = r.link := by
  unfold phNet at hh
  split at hh
  · exact phIpPart_link _ _ _ _ _ _ hh
  · split at hh
    · exact phIpPart_link _ _ _ _ _ _ hh
    · split at hh
      · split at hh
        · cases hh
        · cases hh; rfl
      · cases hh; rfl

theorem phLoop_link (g : Mem) (o0 n et o l : Nat) (src : LenSource) (r : Packet) (pay : Pay) (h : Headers)
    (hh : phLoop g o0 n et o l src r pay = .ok h) : h.p.link = r.link := by
  induction n generalizing et o l src r pay with
  | zero =>
    unfold phLoop at hh
    simp only [ite_self] at hh
    exact phNet_link _ _ _ _ _ _ _ _ hh
  | succ n ih =>
    unfold phLoop at hh
    simp only at hh
    split at hh
    · split at hh
      · cases hh
      · (have t := ih _ _ _ _ _ _ hh; exact t)
    · split at hh
      · split at hh
        · cases hh
        · cases hh
        · split at hh
          · (have t := ih _ _ _ _ _ _ hh; exact t)
          · cases hh; rfl
        · cases hh; rfl
      · exact phNet_link _ _ _ _ _ _ _ _ hh

theorem phFromEtherType_link (g : Mem) (et o l : Nat) (h : Headers)
    (hh : phFromEtherType g et o l = .ok h) : h.p.link = none :=
  phLoop_link _ _ _ _ _ _ _ _ _ _ hh

theorem lphTransport_link (g : Mem) (ip : IpR) (r1 : Packet) (off' : Nat) :
    (lphTransport g ip r1 off').p.link = r1.link := by
  unfold lphTransport
  simp only
  repeat' split
  all_goals rfl

theorem lphAddIp_link (g : Mem) (off o l : Nat) (r : Packet) (h : Headers)
    (hh : lphAddIp g off o l r = .ok h) : h.p.link = r.link := by
  unfold lphAddIp at hh
  split at hh
  · cases hh
  · simp only at hh
    split at hh
    · cases hh; rfl
    · cases hh; rfl
    · split at hh
      · cases hh; rfl
      · cases hh; exact lphTransport_link _ _ _ _

theorem lphNet_link (g : Mem) (off et o l : Nat) (r : Packet) (pay : Pay) :
    (lphNet g off et o l r pay).p.link = r.link := by
  unfold lphNet
  split
  · split
    · rename_i hh; exact lphAddIp_link _ _ _ _ _ _ hh
    · rfl
    · rfl
  · split
    · split <;> rfl
    · rfl

theorem lphLoop_link (g : Mem) (n off et o l : Nat) (src : LenSource) (r : Packet) (pay : Pay) :
    (lphLoop g n off et o l src r pay).p.link = r.link := by
  induction n generalizing off et o l src r pay with
  | zero =>
    unfold lphLoop
    simp only [ite_self]
    exact lphNet_link _ _ _ _ _ _ _
  | succ n ih =>
    unfold lphLoop
    simp only
    split
    · split
      · rfl
      · (rw [ih]; rfl)
    · split
      · split
        · rfl
        · rfl
        · split
          · (rw [ih]; rfl)
          · rfl
        · rfl
      · exact lphNet_link _ _ _ _ _ _ _

theorem lphFromEtherType_link (g : Mem) (et o l : Nat) : (lphFromEtherType g et o l).p.link = none :=
  lphLoop_link _ _ _ _ _ _ _ _ _

end EpModel.Lemmas.HeadersShift

