import EpModel.Lemmas.DecWithin
/- Windows of the struct-decoding families (PacketHeaders, LaxPacketHeaders) lie inside the input (C01). -/
namespace EpModel.Lemmas.Dec
open EpModel EpModel.Dec

def PayIn : Pay → Nat → Nat → Prop
  | .empty, _, _ => True
  | .ether _ _ w _, o, l => WIn w o l
  | .macsecMod w _, o, l => WIn w o l
  | .ip pl, o, l => WIn pl.w o l
  | .udp w _, o, l => WIn w o l
  | .tcp w _, o, l => WIn w o l
  | .icmp4 w _, o, l => WIn w o l
  | .icmp6 w _, o, l => WIn w o l
  | .linuxSll w, o, l => WIn w o l

def HeadersIn (h : Headers) (o l : Nat) : Prop := PacketIn h.p o l ∧ PayIn h.pay o l

theorem icmp4HeaderLen_le (g : Mem) (o l : Nat) (w : Win) (h : icmp4FromSlice g o l = .ok w) :
    icmp4HeaderLen g o ≤ l := by
  unfold icmp4FromSlice at h
  unfold icmp4HeaderLen
  repeat (first | contradiction | split at h)
  split <;> omega

theorem readTransport_in (g : Mem) (pl : IpPl) (O L : Nat) (tp : Option TpR) (pay : Pay)
    (hw : WIn pl.w O L) (h : readTransport g pl = .ok (tp, pay)) :
    (∀ x, tp = some x → TpIn x O L) ∧ PayIn pay O L := by
  unfold WIn at hw
  unfold readTransport at h
  split at h
  · cases h; simp [PayIn, WIn]; omega
  · simp only at h
    split at h
    · split at h
      · contradiction
      · rename_i w hw'
        have h1 := icmp4_in g _ _ w hw'
        have h2 := icmp4HeaderLen_le g _ _ w hw'
        cases h
        simp [PayIn, TpIn, WIn, h1.1]; omega
    · split at h
      · split at h
        · contradiction
        · rename_i w hw'
          have h1 := icmp6_in _ _ w hw'
          cases h
          simp [PayIn, TpIn, WIn, h1.1]; omega
      · split at h
        · split at h
          · contradiction
          · rename_i w hw'
            have h1 := udp_in g _ _ w hw'
            cases h
            unfold WIn at h1
            simp [PayIn, TpIn, WIn]; omega
        · split at h
          · split at h
            · contradiction
            · contradiction
            · rename_i hl hw'
              have h1 := tcp_ok g _ _ hl hw'
              cases h
              simp [PayIn, TpIn, WIn]; omega
          · cases h; simp [PayIn, WIn]; omega

theorem phNet_in (g : Mem) (o0 et o l O L : Nat) (r : Packet) (pay : Pay) (h' : Headers)
    (hr : PacketIn r O L) (hp : PayIn pay O L) (hw : O ≤ o ∧ o + l ≤ O + L)
    (h : phNet g o0 et o l r pay = .ok h') : HeadersIn h' O L := by
  have ipPart : ∀ (ipr : Except PErr IpR), (∀ ip, ipr = .ok ip → IpIn ip o l) →
      phIpPart g o0 o r ipr = .ok h' → HeadersIn h' O L := by
    intro ipr hin hh
    unfold phIpPart at hh
    split at hh
    · contradiction
    · rename_i ip
      have hip := (hin ip rfl).mono hw.1 hw.2
      split at hh
      · contradiction
      · rename_i tp pay' hrt
        have := readTransport_in g ip.pl O L tp pay' hip.2.2.2.2 hrt
        cases hh
        refine ⟨⟨hr.1, hr.2.1, ?_, ?_⟩, this.2⟩
        · intro x hx; simp at hx; subst hx; exact hip
        · exact this.1
  unfold phNet at h
  split at h
  · exact ipPart _ (fun ip hip => ipHeadersV4_in g o l ip hip) h
  · split at h
    · exact ipPart _ (fun ip hip => ipHeadersV6_in g o l ip hip) h
    · split at h
      · split at h
        · contradiction
        · rename_i w hw'
          have := arp_in g o l w hw'
          cases h
          exact ⟨packetIn_setNet hr ⟨this.1.mono hw.1 hw.2, this.2⟩, trivial⟩
      · cases h; exact ⟨hr, hp⟩

theorem phLoop_in (g : Mem) (o0 n et o l : Nat) (src : LenSource) (r : Packet) (pay : Pay) (O L : Nat)
    (h' : Headers) (hr : PacketIn r O L) (hp : PayIn pay O L) (hw : O ≤ o ∧ o + l ≤ O + L)
    (h : phLoop g o0 n et o l src r pay = .ok h') : HeadersIn h' O L := by
  fun_induction phLoop g o0 n et o l src r pay
  all_goals first
    | contradiction
    | (exact phNet_in g _ _ _ _ O L _ _ h' hr hp hw h; done)
    | skip
  case case3 et o l src r pay het n w hv et' ih =>
    have := vlan_in o l w hv
    exact ih (packetIn_pushExt hr (by rw [this.1]; simp [ExtIn, WIn]; omega))
      (by simp [PayIn, WIn]; omega) (by omega) h
  case case7 o l src r pay n hdr pl msrc inc hm r' et' hn src' hne ih =>
    have hin := macsec_in g o l _ hm
    have hin' : ExtIn (.macsec hdr pl msrc inc) O L :=
      ⟨hin.1.mono hw.1 hw.2, hin.2.1.mono hw.1 hw.2, hin.2.2⟩
    exact ih (packetIn_pushExt hr hin') hin'.2.1 (by have := hin'.2.1; unfold WIn at this; omega) h
  case case8 o l src r pay n hdr pl msrc inc hm r' hn hne =>
    have hin := macsec_in g o l _ hm
    have hin' : ExtIn (.macsec hdr pl msrc inc) O L :=
      ⟨hin.1.mono hw.1 hw.2, hin.2.1.mono hw.1 hw.2, hin.2.2⟩
    cases h
    exact ⟨packetIn_pushExt hr hin', hin'.2.1⟩
  case case9 => cases h; exact ⟨hr, hp⟩

theorem phFromEtherType_in (g : Mem) (et o l : Nat) (h' : Headers) (h : phFromEtherType g et o l = .ok h') :
    HeadersIn h' o l := by
  unfold phFromEtherType at h
  exact phLoop_in g o 3 et o l .slice _ _ o l h' (packetIn_empty o l) (by simp [PayIn, WIn]) (by omega) h

theorem HeadersIn.mono {h : Headers} {o l o' l' : Nat} (hh : HeadersIn h o l) (h1 : o' ≤ o)
    (h2 : o + l ≤ o' + l') : HeadersIn h o' l' := by
  obtain ⟨⟨a, b, c, d⟩, e⟩ := hh
  refine ⟨⟨?_, ?_, ?_, ?_⟩, ?_⟩
  · intro x hx
    have := a x hx
    cases x <;> simp only [LinkIn] at * <;> first | exact ⟨this.1.mono h1 h2, this.2⟩ | exact this.mono h1 h2
  · intro x hx
    have := b x hx
    cases x <;> simp only [ExtIn] at *
    · exact ⟨this.1.mono h1 h2, this.2⟩
    · exact ⟨this.1.mono h1 h2, this.2.1.mono h1 h2, this.2.2⟩
  · intro x hx
    have := c x hx
    cases x <;> simp only [NetIn] at *
    · exact ⟨this.1.mono h1 h2, this.2⟩
    · exact this.mono h1 h2
  · intro x hx
    have := d x hx
    cases x <;> simp only [TpIn] at * <;> exact ⟨this.1.mono h1 h2, this.2⟩
  · cases hp : h.pay <;> rw [hp] at e <;> simp only [PayIn] at * <;> first | trivial | exact e.mono h1 h2

theorem phFromEthernet_in (g : Mem) (n : Nat) (h' : Headers) (h : phFromEthernet g n = .ok h') :
    HeadersIn h' 0 n := by
  unfold phFromEthernet at h
  split at h
  · contradiction
  · rename_i w hw
    have hb : 14 ≤ n := by
      unfold eth2FromSlice at hw
      split at hw
      · contradiction
      · omega
    split at h
    · contradiction
    · rename_i hh hok
      have := (phFromEtherType_in g _ 14 (n - 14) hh hok).mono (o' := 0) (l' := n) (by omega) (by omega)
      cases h
      exact ⟨packetIn_setLink this.1 (by simp [LinkIn, WIn]; omega), this.2⟩

theorem phFromIp_in (g : Mem) (n : Nat) (h' : Headers) (h : phFromIp g n = .ok h') : HeadersIn h' 0 n := by
  unfold phFromIp at h
  split at h
  · contradiction
  · rename_i ip hip
    have hin := ipHeaders_in g 0 n ip hip
    split at h
    · contradiction
    · rename_i tp pay hrt
      have := readTransport_in g ip.pl 0 n tp pay hin.2.2.2.2 hrt
      cases h
      refine ⟨⟨by simp, by simp, ?_, this.1⟩, this.2⟩
      intro x hx; simp at hx; subst hx; exact hin

theorem lphAddIp_in (g : Mem) (off o l O L : Nat) (r : Packet) (h' : Headers) (hr : PacketIn r O L)
    (hw : O ≤ o ∧ o + l ≤ O + L) (h : lphAddIp g off o l r = .ok h') : HeadersIn h' O L := by
  unfold lphAddIp at h
  split at h
  · contradiction
  · rename_i ip stop hip
    have hin := (ipHeadersLax_in g o l ip stop hip).mono hw.1 hw.2
    have hnet : PacketIn (r.setNet (.ip ip)) O L := packetIn_setNet hr hin
    have hpl := hin.2.2.2.2
    have hplw := hpl
    unfold WIn at hplw
    simp only at h
    split at h
    · cases h; exact ⟨hnet, hpl⟩
    · cases h; exact ⟨hnet, hpl⟩
    · split at h
      · cases h; exact ⟨hnet, hpl⟩
      · unfold lphTransport at h
        simp only at h
        split at h
        · split at h
          · rename_i w hw'
            have h1 := icmp4_in g _ _ w hw'
            have h2 := icmp4HeaderLen_le g _ _ w hw'
            cases h
            exact ⟨packetIn_setTp hnet (by rw [h1.1]; simp [TpIn, WIn]; omega), by simp [PayIn, WIn]; omega⟩
          · cases h; exact ⟨hnet, hpl⟩
        · split at h
          · split at h
            · rename_i w hw'
              have h1 := icmp6_in _ _ w hw'
              cases h
              exact ⟨packetIn_setTp hnet (by rw [h1.1]; simp [TpIn, WIn]; omega), by simp [PayIn, WIn]; omega⟩
            · cases h; exact ⟨hnet, hpl⟩
          · split at h
            · split at h
              · rename_i w hw'
                have h1 := udpLax_in g _ _ w hw'
                have h1' := h1.1
                unfold WIn at h1'
                cases h
                exact ⟨packetIn_setTp hnet ⟨h1.1.mono hplw.1 (by omega), h1.2⟩, by simp [PayIn, WIn]; omega⟩
              · cases h; exact ⟨hnet, hpl⟩
            · split at h
              · split at h
                · rename_i hl hw'
                  have h1 := tcp_ok g _ _ hl hw'
                  cases h
                  exact ⟨packetIn_setTp hnet (by simp [TpIn, WIn]; omega), by simp [PayIn, WIn]; omega⟩
                · cases h; exact ⟨hnet, hpl⟩
                · cases h; exact ⟨hnet, hpl⟩
              · cases h; exact ⟨hnet, hpl⟩

theorem lphNet_in (g : Mem) (off et o l O L : Nat) (r : Packet) (pay : Pay) (hr : PacketIn r O L)
    (hp : PayIn pay O L) (hw : O ≤ o ∧ o + l ≤ O + L) : HeadersIn (lphNet g off et o l r pay) O L := by
  unfold lphNet
  split
  · split
    · rename_i h' hh
      exact lphAddIp_in g off o l O L r h' hr hw hh
    · exact ⟨hr, hp⟩
    · exact ⟨hr, hp⟩
  · split
    · split
      · exact ⟨hr, hp⟩
      · rename_i w hw'
        have := arp_in g o l w hw'
        exact ⟨packetIn_setNet hr ⟨this.1.mono hw.1 hw.2, this.2⟩, trivial⟩
    · exact ⟨hr, hp⟩

theorem lphLoop_in (g : Mem) (n off et o l : Nat) (src : LenSource) (r : Packet) (pay : Pay) (O L : Nat)
    (hr : PacketIn r O L) (hp : PayIn pay O L) (hw : O ≤ o ∧ o + l ≤ O + L) :
    HeadersIn (lphLoop g n off et o l src r pay) O L := by
  fun_induction lphLoop g n off et o l src r pay
  all_goals first
    | (exact ⟨hr, hp⟩; done)
    | (exact lphNet_in g _ _ _ _ O L _ _ hr hp hw; done)
    | skip
  case case3 off et o l src r pay het n w hv et' ih =>
    have := vlan_in o l w hv
    exact ih (packetIn_pushExt hr (by rw [this.1]; simp [ExtIn, WIn]; omega))
      (by simp [PayIn, WIn]; omega) (by omega)
  case case7 off o l src r pay n hdr pl msrc inc hm r' et' hn src' hne ih =>
    have hin := laxMacsec_in g o l _ hm
    have hin' : ExtIn (.macsec hdr pl msrc inc) O L :=
      ⟨hin.1.mono hw.1 hw.2, hin.2.1.mono hw.1 hw.2, hin.2.2⟩
    exact ih (packetIn_pushExt hr hin') hin'.2.1 (by have := hin'.2.1; unfold WIn at this; omega)
  case case8 off o l src r pay n hdr pl msrc inc hm r' hn hne =>
    have hin := laxMacsec_in g o l _ hm
    have hin' : ExtIn (.macsec hdr pl msrc inc) O L :=
      ⟨hin.1.mono hw.1 hw.2, hin.2.1.mono hw.1 hw.2, hin.2.2⟩
    exact ⟨packetIn_pushExt hr hin', hin'.2.1⟩

theorem lphFromEtherType_in (g : Mem) (et o l : Nat) : HeadersIn (lphFromEtherType g et o l) o l := by
  unfold lphFromEtherType
  exact lphLoop_in g 3 0 et o l .slice _ _ o l (packetIn_empty o l) (by simp [PayIn, WIn]) (by omega)

theorem stopAddOff_in (k : Nat) (p : Packet) (o l : Nat) (h : PacketIn p o l) : PacketIn (stopAddOff k p) o l := by
  unfold stopAddOff
  split
  · exact h
  · exact h

theorem lphFromEthernet_in (g : Mem) (n : Nat) (h' : Headers) (h : lphFromEthernet g n = .ok h') :
    HeadersIn h' 0 n := by
  unfold lphFromEthernet at h
  split at h
  · contradiction
  · rename_i w hw
    have hb : 14 ≤ n := by
      unfold eth2FromSlice at hw
      split at hw
      · contradiction
      · omega
    have := (lphFromEtherType_in g (g16 g 12) 14 (n - 14)).mono (o' := 0) (l' := n) (by omega) (by omega)
    cases h
    exact ⟨packetIn_setLink (stopAddOff_in 14 _ 0 n this.1) (by simp [LinkIn, WIn]; omega), this.2⟩

theorem lphFromIp_in (g : Mem) (n : Nat) (h' : Headers) (h : lphFromIp g n = .ok h') : HeadersIn h' 0 n := by
  unfold lphFromIp at h
  exact lphAddIp_in g 0 0 n 0 n _ h' (packetIn_empty 0 n) (by omega) h

theorem lphFromLinuxSll_in (g : Mem) (n : Nat) (h' : Headers) (h : lphFromLinuxSll g n = .ok h') :
    HeadersIn h' 0 n := by
  unfold lphFromLinuxSll at h
  split at h
  · contradiction
  · rename_i w hw
    have hb := (sll_in g 0 n w hw).2
    split at h
    · rename_i et _
      have := (lphFromEtherType_in g et 16 (n - 16)).mono (o' := 0) (l' := n) (by omega) (by omega)
      cases h
      exact ⟨packetIn_setLink (stopAddOff_in 16 _ 0 n this.1) (by simp [LinkIn, WIn]; omega), this.2⟩
    · cases h
      exact ⟨packetIn_setLink (packetIn_empty 0 n) (by simp [LinkIn, WIn]; omega), by simp [PayIn, WIn]; omega⟩

end EpModel.Lemmas.Dec
