import EpModel.Spec.Rfc1071
import EpModel.Model.Checksum
/-
  Helper lemmas for C09: arithmetic modulo 65535 of the accumulators in checksum.rs.
-/
namespace EpModel.Lemmas.Checksum
set_option linter.unusedSimpArgs false
open EpModel EpModel.Spec EpModel.Checksum

/-- two sums are in the same class if they agree modulo 65535 and on being zero
    (this is exactly what end-around-carry folding can observe). -/
def Cls (x y : Nat) : Prop := x % 65535 = y % 65535 ∧ (x = 0 ↔ y = 0)

theorem Cls.refl (x : Nat) : Cls x x := ⟨rfl, Iff.rfl⟩
theorem Cls.symm {x y : Nat} (h : Cls x y) : Cls y x := ⟨h.1.symm, h.2.symm⟩
theorem Cls.trans {x y z : Nat} (h : Cls x y) (h' : Cls y z) : Cls x z :=
  ⟨h.1.trans h'.1, h.2.trans h'.2⟩

theorem Cls.add {a b c d : Nat} (h : Cls a b) (h' : Cls c d) : Cls (a + c) (b + d) := by
  unfold Cls at *; omega

theorem Cls.mul256 {a b : Nat} (h : Cls a b) : Cls (256 * a) (256 * b) := by
  unfold Cls at *; omega

theorem fold16_le (x : Nat) : fold16 x ≤ 65535 := by unfold fold16; split <;> omega

theorem fold16_fix (x : Nat) (h : x ≤ 65535) : fold16 x = x := by
  unfold fold16; split <;> omega

theorem fold16_cls (x : Nat) : Cls (fold16 x) x := by
  unfold Cls fold16; split <;> omega

theorem fold16_congr {x y : Nat} (h : Cls x y) : fold16 x = fold16 y := by
  unfold Cls fold16 at *; split <;> split <;> omega

theorem cls_eq_of_le {x y : Nat} (h : Cls x y) (hx : x ≤ 65535) (hy : y ≤ 65535) : x = y := by
  have := fold16_congr h
  rwa [fold16_fix x hx, fold16_fix y hy] at this

/-- one's complement addition is addition followed by folding. -/
theorem ocAdd_fold (a b : Nat) (ha : a ≤ 65535) (hb : b ≤ 65535) : ocAdd a b = fold16 (a + b) := by
  unfold ocAdd fold16; simp only; split <;> split <;> omega

/-- the RFC's one's complement sum is the folded plain sum of the words. -/
theorem ocSum_eq_fold : ∀ b : Bytes, ocSum b = fold16 (beWords b)
  | [] => by simp [ocSum, beWords, fold16]
  | [a] => by
    have := a.toNat_lt
    simp only [ocSum, beWords]; rw [fold16_fix]; omega
  | a :: b :: rest => by
    have ha := a.toNat_lt
    have hb := b.toNat_lt
    have ih := ocSum_eq_fold rest
    simp only [ocSum, beWords]
    rw [ocAdd_fold _ _ (by omega) (by rw [ih]; exact fold16_le _), ih]
    apply fold16_congr
    exact Cls.add (Cls.refl _) (fold16_cls _)


/-! ### accumulators -/

/-- plain sum of the little endian 16 bit words (odd last byte padded with zero on the right). -/
def leWords : Bytes → Nat
  | [] => 0
  | [a] => a.toNat
  | a :: b :: rest => (a.toNat + 256 * b.toNat) + leWords rest

theorem addCarry64_cls (s v : Nat) (hs : s < 2^64) (hv : v < 2^64) :
    Cls (addCarry 64 s v) (s + v) ∧ addCarry 64 s v < 2^64 := by
  unfold addCarry Cls; simp only; split <;> omega

theorem addCarry32_cls (s v : Nat) (hs : s < 2^32) (hv : v < 2^32) :
    Cls (addCarry 32 s v) (s + v) ∧ addCarry 32 s v < 2^32 := by
  unfold addCarry Cls; simp only; split <;> omega

theorem leVal_lt : ∀ xs : Bytes, leVal xs < 256 ^ xs.length
  | [] => by simp [leVal]
  | a :: rest => by
    have := leVal_lt rest
    have := a.toNat_lt
    simp only [leVal, List.length_cons, Nat.pow_succ]
    omega

theorem leVal_cls : ∀ xs : Bytes, xs.length % 2 = 0 → Cls (leVal xs) (leWords xs)
  | [], _ => by simp [leVal, leWords, Cls.refl]
  | [a], h => by simp at h
  | a :: b :: rest, h => by
    have ih := leVal_cls rest (by simp at h; omega)
    simp only [leVal, leWords]
    unfold Cls at *
    omega

theorem tail64_cls (s : Nat) (r : Bytes) (hs : s < 2^64) (hr : r.length < 8) :
    Cls (tail64 s r) (s + leWords r) ∧ tail64 s r < 2^64 := by
  match r, hr with
  | [], _ => simp [tail64, leWords, Cls.refl, hs]
  | [a], _ =>
    have := a.toNat_lt
    simp [tail64, leWords, add2_64, addCarry, leVal, Cls]
    split <;> omega
  | [a, b], _ =>
    have := a.toNat_lt; have := b.toNat_lt
    simp [tail64, leWords, add2_64, addCarry, leVal, Cls, sub]
    split <;> omega
  | [a, b, c], _ =>
    have := a.toNat_lt; have := b.toNat_lt; have := c.toNat_lt
    simp [tail64, leWords, add2_64, addCarry, leVal, Cls, sub]
    repeat' split
    all_goals omega
  | [a, b, c, d], _ =>
    have := a.toNat_lt; have := b.toNat_lt; have := c.toNat_lt; have := d.toNat_lt
    simp [tail64, leWords, add4_64, add2_64, addCarry, leVal, Cls, sub]
    repeat' split
    all_goals omega
  | [a, b, c, d, e], _ =>
    have := a.toNat_lt; have := b.toNat_lt; have := c.toNat_lt; have := d.toNat_lt; have := e.toNat_lt
    simp [tail64, leWords, add4_64, add2_64, addCarry, leVal, Cls, sub]
    repeat' split
    all_goals omega
  | [a, b, c, d, e, f], _ =>
    have := a.toNat_lt; have := b.toNat_lt; have := c.toNat_lt; have := d.toNat_lt; have := e.toNat_lt
    have := f.toNat_lt
    simp [tail64, leWords, add4_64, add2_64, addCarry, leVal, Cls, sub]
    repeat' split
    all_goals omega
  | [a, b, c, d, e, f, g], _ =>
    have := a.toNat_lt; have := b.toNat_lt; have := c.toNat_lt; have := d.toNat_lt; have := e.toNat_lt
    have := f.toNat_lt; have := g.toNat_lt
    simp [tail64, leWords, add4_64, add2_64, addCarry, leVal, Cls, sub]
    repeat' split
    all_goals omega
  | _ :: _ :: _ :: _ :: _ :: _ :: _ :: _ :: _, h => exact absurd h (by simp)

theorem tail32_cls (s : Nat) (r : Bytes) (hs : s < 2^32) (hr : r.length < 4) :
    Cls (tail32 s r) (s + leWords r) ∧ tail32 s r < 2^32 := by
  match r, hr with
  | [], _ => simp [tail32, leWords, Cls.refl, hs]
  | [a], _ =>
    have := a.toNat_lt
    simp [tail32, leWords, add2_32, addCarry, leVal, Cls]
    split <;> omega
  | [a, b], _ =>
    have := a.toNat_lt; have := b.toNat_lt
    simp [tail32, leWords, add2_32, addCarry, leVal, Cls, sub]
    split <;> omega
  | [a, b, c], _ =>
    have := a.toNat_lt; have := b.toNat_lt; have := c.toNat_lt
    simp [tail32, leWords, add2_32, addCarry, leVal, Cls, sub]
    repeat' split
    all_goals omega
  | _ :: _ :: _ :: _ :: _, h => exact absurd h (by simp)

theorem leWords_append_even : ∀ (xs ys : Bytes), xs.length % 2 = 0 →
    leWords (xs ++ ys) = leWords xs + leWords ys
  | [], ys, _ => by simp [leWords]
  | [a], _, h => by simp at h
  | a :: b :: rest, ys, h => by
    have ih := leWords_append_even rest ys (by simp at h; omega)
    simp only [List.cons_append, leWords, ih]; omega

theorem addSlice64_cls (s : Nat) (b : Bytes) (hs : s < 2^64) :
    Cls (addSlice64 s b) (s + leWords b) ∧ addSlice64 s b < 2^64 := by
  induction h : b.length using Nat.strongRecOn generalizing s b with
  | _ n ih =>
    unfold addSlice64
    split
    · rename_i h8
      have hl : (b.take 8).length = 8 := by simp; omega
      have hv : leVal (b.take 8) < 2^64 := by
        have := leVal_lt (b.take 8); rw [hl] at this; omega
      have h1 := addCarry64_cls s (leVal (b.take 8)) hs hv
      have h2 := ih (b.drop 8).length (by simp; omega) (add8_64 s (b.take 8)) (b.drop 8) h1.2 rfl
      refine ⟨?_, h2.2⟩
      have hsplit : leWords b = leWords (b.take 8) + leWords (b.drop 8) := by
        rw [← leWords_append_even (b.take 8) (b.drop 8) (by rw [hl]), List.take_append_drop]
      have hc := leVal_cls (b.take 8) (by rw [hl])
      unfold add8_64 at *
      have := h2.1; have := h1.1
      unfold Cls at *
      omega
    · exact tail64_cls s b hs (by omega)

theorem addSlice32_cls (s : Nat) (b : Bytes) (hs : s < 2^32) :
    Cls (addSlice32 s b) (s + leWords b) ∧ addSlice32 s b < 2^32 := by
  induction h : b.length using Nat.strongRecOn generalizing s b with
  | _ n ih =>
    unfold addSlice32
    split
    · rename_i h8
      have hl : (b.take 4).length = 4 := by simp; omega
      have hv : leVal (b.take 4) < 2^32 := by
        have := leVal_lt (b.take 4); rw [hl] at this; omega
      have h1 := addCarry32_cls s (leVal (b.take 4)) hs hv
      have h2 := ih (b.drop 4).length (by simp; omega) (add4_32 s (b.take 4)) (b.drop 4) h1.2 rfl
      refine ⟨?_, h2.2⟩
      have hsplit : leWords b = leWords (b.take 4) + leWords (b.drop 4) := by
        rw [← leWords_append_even (b.take 4) (b.drop 4) (by rw [hl]), List.take_append_drop]
      have hc := leVal_cls (b.take 4) (by rw [hl])
      unfold add4_32 at *
      have := h2.1; have := h1.1
      unfold Cls at *
      omega
    · exact tail32_cls s b hs (by omega)

theorem addSlice64_nil (s : Nat) : addSlice64 s [] = s := by
  unfold addSlice64; simp [tail64]

/-! ### folding -/

/-- last folding stage: `y < 2^17`. -/
theorem foldLast (y : Nat) (hy : y ≤ 65535 + 65535) :
    (y / 65536 % 65536 + y % 65536) % 65536 = fold16 y := by
  unfold fold16
  by_cases h : y < 65536
  · have e1 : y / 65536 = 0 := by omega
    have e2 : y % 65536 = y := by omega
    rw [e1, e2]; split <;> omega
  · have e1 : y / 65536 = 1 := by omega
    have e2 : y % 65536 = y - 65536 := by omega
    rw [e1, e2]; split <;> omega

/-- middle folding stage keeps the class and brings the value below `2^17`. -/
theorem foldMid (x : Nat) (hx : x ≤ 4 * 65535) :
    Cls (x / 65536 % 65536 + x % 65536) x ∧ x / 65536 % 65536 + x % 65536 ≤ 65535 + 65535 := by
  have e1 : x / 65536 % 65536 = x / 65536 := by omega
  rw [e1]; unfold Cls; omega

theorem fold3 (x : Nat) (hx : x ≤ 4 * 65535) :
    (((x / 65536) % 65536 + x % 65536) / 65536 % 65536 + ((x / 65536) % 65536 + x % 65536) % 65536) % 65536 = fold16 x := by
  have h := foldMid x hx
  rw [foldLast _ h.2]
  exact fold16_congr h.1

theorem onesComplement64_eq (s : Nat) (hs : s < 2^64) : onesComplement64 s = 65535 - fold16 s := by
  unfold onesComplement64
  simp only
  have hd : s = s % 65536 + 65536 * ((s / 2^16) % 65536) + 4294967296 * ((s / 2^32) % 65536)
      + 281474976710656 * ((s / 2^48) % 65536) := by omega
  have h0 : s % 65536 < 65536 := by omega
  have h1 : (s / 2^16) % 65536 < 65536 := by omega
  have h2 : (s / 2^32) % 65536 < 65536 := by omega
  have h3 : (s / 2^48) % 65536 < 65536 := by omega
  generalize s % 65536 = d0 at *
  generalize (s / 2^16) % 65536 = d1 at *
  generalize (s / 2^32) % 65536 = d2 at *
  generalize (s / 2^48) % 65536 = d3 at *
  rw [fold3 _ (by omega)]
  congr 1
  apply fold16_congr
  subst hd
  unfold Cls
  omega

theorem onesComplement32_eq (s : Nat) (hs : s < 2^32) : onesComplement32 s = 65535 - fold16 s := by
  unfold onesComplement32
  simp only
  have hd : s = s % 65536 + 65536 * ((s / 65536) % 65536) := by omega
  have h0 : s % 65536 < 65536 := by omega
  have h1 : (s / 65536) % 65536 < 65536 := by omega
  generalize s % 65536 = d0 at *
  generalize (s / 65536) % 65536 = d1 at *
  rw [foldLast _ (by omega)]
  congr 1
  apply fold16_congr
  subst hd
  unfold Cls
  omega

/-! ### byte order -/

theorem swap16_cls (v : Nat) (hv : v ≤ 65535) : Cls (swap16 v) (256 * v) ∧ swap16 v ≤ 65535 := by
  unfold swap16 Cls
  have e : v / 256 % 256 = v / 256 := by omega
  rw [e]; omega

theorem swap16_compl (v : Nat) (hv : v ≤ 65535) : swap16 (65535 - v) = 65535 - swap16 v := by
  unfold swap16
  have e : v / 256 % 256 = v / 256 := by omega
  have e' : (65535 - v) / 256 % 256 = (65535 - v) / 256 := by omega
  rw [e, e']; omega

theorem swap16_fold (x : Nat) : swap16 (fold16 x) = fold16 (256 * x) := by
  have h := swap16_cls (fold16 x) (fold16_le x)
  apply cls_eq_of_le _ h.2 (fold16_le _)
  exact (h.1.trans (Cls.mul256 (fold16_cls x))).trans (fold16_cls _).symm

theorem leWords_beWords : ∀ b : Bytes, Cls (256 * leWords b) (beWords b)
  | [] => by simp [leWords, beWords, Cls.refl]
  | [a] => by simp only [leWords, beWords]; unfold Cls; omega
  | a :: b :: rest => by
    have ih := leWords_beWords rest
    simp only [leWords, beWords]; unfold Cls at *; omega

end EpModel.Lemmas.Checksum
