import EpModel.Model.Dec.Headers
/-
  Helper lemmas about the decode model (EpModel/Model/Dec): extension walks and the unchecked
  re-walk iterator.
-/
namespace EpModel.Lemmas.Dec
open EpModel EpModel.Dec

/-- the rest of an extension walk is a suffix of the slice walked -/
theorem extsLoop_suffix (g : Mem) (sm : Bool) (l0 nh : Nat) (frag : Bool) (slots : ExtSlots) (o l : Nat) :
    (extsLoop g sm l0 nh frag slots o l).rest.o + (extsLoop g sm l0 nh frag slots o l).rest.l = o + l ∧
      (extsLoop g sm l0 nh frag slots o l).rest.l ≤ l := by
  fun_induction extsLoop g sm l0 nh frag slots o l <;> simp_all [extsFail, extsDone] <;> omega

theorem extIterAll_zero (g : Mem) (nh o : Nat) : extIterAll g nh o 0 = .ok [] := by
  rw [extIterAll]; split <;> simp_all [extIterNext]

theorem extIterAll_step (g : Mem) (nh o L : Nat) (k : ExtKind) (w : Win) (nh' o' L' : Nat) (xs : List (ExtKind × Win))
    (h1 : extIterNext g nh o L = some (.ok (k, w, nh', o', L'))) (hlt : L' < L)
    (h2 : extIterAll g nh' o' L' = .ok xs) : extIterAll g nh o L = .ok ((k, w) :: xs) := by
  rw [extIterAll]
  split
  · simp_all
  · simp_all
  · rename_i k2 w2 nh2 o2 l2 heq
    rw [h1] at heq
    cases heq
    simp [hlt, h2]

theorem extIter_safe_loop (g : Mem) (l0 nh : Nat) (frag : Bool) (slots : ExtSlots) (o l : Nat) :
    ∃ xs, extIterAll g nh o (l - (extsLoop g false l0 nh frag slots o l).rest.l) = .ok xs := by
  fun_induction extsLoop g false l0 nh frag slots o l
  all_goals try (simp [extsFail, extsDone, extIterAll_zero]; done)
  · -- raw ext header parsed
    rename_i nh frag slots o l hnh hor _ h8 hl ih
    obtain ⟨xs, ih⟩ := ih
    have hs := (extsLoop_suffix g false l0 (g o) frag (rawStore nh slots ⟨o, (g (o + 1) + 1) * 8⟩)
      (o + (g (o + 1) + 1) * 8) (l - (g (o + 1) + 1) * 8)).2
    generalize (extsLoop g false l0 (g o) frag (rawStore nh slots ⟨o, (g (o + 1) + 1) * 8⟩)
      (o + (g (o + 1) + 1) * 8) (l - (g (o + 1) + 1) * 8)).rest.l = R at *
    generalize hv : (g (o + 1) + 1) * 8 = hlv at *
    have e : l - hlv - R = l - R - hlv := by omega
    rw [e] at ih
    refine ⟨_, extIterAll_step g nh o (l - R) (if nh = 0 then .hopByHop else if nh = 43 then .routing else .destOpts)
      ⟨o, hlv⟩ (g o) (o + hlv) (l - R - hlv) xs ?_ (by omega) ih⟩
    unfold extIterNext
    have h1 : ¬ (l - R = 0) := by omega
    have h2 : nh = 0 ∨ nh = 43 ∨ nh = 60 := by omega
    have h3 : ¬ (l - R < 2) := by omega
    have h4 : ¬ (l - R < hlv) := by omega
    simp [h1, h2, h3, hv, h4]
  · -- fragment header
    rename_i frag slots o l _ h8 _ _ ih
    obtain ⟨xs, ih⟩ := ih
    have hs := (extsLoop_suffix g false l0 (g o) (frag || fragIsFragmenting g o) (fragStore slots ⟨o, 8⟩) (o + 8) (l - 8)).2
    generalize (extsLoop g false l0 (g o) (frag || fragIsFragmenting g o) (fragStore slots ⟨o, 8⟩) (o + 8) (l - 8)).rest.l = R at *
    have e : l - 8 - R = l - R - 8 := by omega
    rw [e] at ih
    refine ⟨_, extIterAll_step g 44 o (l - R) .fragment ⟨o, 8⟩ (g o) (o + 8) (l - R - 8) xs ?_ (by omega) ih⟩
    unfold extIterNext
    have h1 : ¬ (l - R = 0) := by omega
    have h3 : ¬ (l - R < 8) := by omega
    simp [h1, h3]
  · -- authentication header
    rename_i frag slots o l _ h12 hz hl _ _ _ ih
    obtain ⟨xs, ih⟩ := ih
    have hs := (extsLoop_suffix g false l0 (g o) frag (authStore slots ⟨o, (g (o + 1) + 2) * 4⟩)
      (o + (g (o + 1) + 2) * 4) (l - (g (o + 1) + 2) * 4)).2
    generalize (extsLoop g false l0 (g o) frag (authStore slots ⟨o, (g (o + 1) + 2) * 4⟩)
      (o + (g (o + 1) + 2) * 4) (l - (g (o + 1) + 2) * 4)).rest.l = R at *
    generalize hv : (g (o + 1) + 2) * 4 = hlv at *
    have e : l - hlv - R = l - R - hlv := by omega
    rw [e] at ih
    refine ⟨_, extIterAll_step g 51 o (l - R) .auth ⟨o, hlv⟩ (g o) (o + hlv) (l - R - hlv) xs ?_ (by omega) ih⟩
    unfold extIterNext
    have h1 : ¬ (l - R = 0) := by omega
    have h3 : ¬ (l - R < 2) := by omega
    have h4 : ¬ (l - R < hlv) := by omega
    simp [h1, h3, hv, h4]

/-- the walk including the optional hop-by-hop header in front -/
theorem extsWalk_suffix (g : Mem) (sm : Bool) (nh o l : Nat) :
    (extsWalk g sm nh o l).rest.o + (extsWalk g sm nh o l).rest.l = o + l ∧
      (extsWalk g sm nh o l).rest.l ≤ l := by
  unfold extsWalk
  split
  · split
    · simp
    · rename_i hl hok
      have hb : 8 ≤ hl ∧ hl ≤ l := by
        unfold rawExtFromSlice at hok
        split at hok
        · contradiction
        · simp only at hok
          split at hok
          · contradiction
          · cases hok; omega
      have := extsLoop_suffix g sm l (g o) false
        { hbh := some ⟨o, hl⟩, dest := none, routing := none, finalDest := none, frag := none, auth := none }
        (o + hl) (l - hl)
      omega
  · exact extsLoop_suffix g sm l nh false ExtSlots.none o l

/-- **the unchecked re-walk never leaves the slice**: for the extension slice produced by a (strict
    or lax) slice-mode walk, iterating with `Ipv6ExtensionSliceIter` (first header, or UDP when the
    slice is empty) reaches no out-of-range access, whatever the memory holds. -/
theorem extIter_safe_walk (g : Mem) (nh o l : Nat) :
    ∃ xs, extIterAll g ((extsFirst nh l (extsWalk g false nh o l)).getD 17) o
      (l - (extsWalk g false nh o l).rest.l) = .ok xs := by
  have hsuf := extsWalk_suffix g false nh o l
  by_cases hrest : (extsWalk g false nh o l).rest.l = l
  · rw [hrest]; simp [extIterAll_zero]
  · have hfirst : extsFirst nh l (extsWalk g false nh o l) = some nh := by
      unfold extsFirst; simp [hrest]
    rw [hfirst]
    simp only [Option.getD_some]
    unfold extsWalk at hrest ⊢
    split
    · rename_i hnh
      split
      · rename_i herr
        rw [herr] at hrest
        simp [hnh] at hrest
      · rename_i hl hok
        have hb : 8 ≤ hl ∧ hl ≤ l ∧ hl = (g (o + 1) + 1) * 8 := by
          unfold rawExtFromSlice at hok
          split at hok
          · contradiction
          · simp only at hok
            split at hok
            · contradiction
            · cases hok; omega
        have hs := (extsLoop_suffix g false l (g o) false
          { hbh := some ⟨o, hl⟩, dest := none, routing := none, finalDest := none, frag := none, auth := none }
          (o + hl) (l - hl)).2
        obtain ⟨xs, ih⟩ := extIter_safe_loop g l (g o) false
          { hbh := some ⟨o, hl⟩, dest := none, routing := none, finalDest := none, frag := none, auth := none }
          (o + hl) (l - hl)
        generalize (extsLoop g false l (g o) false
          { hbh := some ⟨o, hl⟩, dest := none, routing := none, finalDest := none, frag := none, auth := none }
          (o + hl) (l - hl)).rest.l = R at *
        have e : l - hl - R = l - R - hl := by omega
        rw [e] at ih
        refine ⟨_, extIterAll_step g nh o (l - R) .hopByHop ⟨o, hl⟩ (g o) (o + hl) (l - R - hl) xs ?_ (by omega) ih⟩
        unfold extIterNext
        have h1 : ¬ (l - R = 0) := by omega
        have h3 : ¬ (l - R < 2) := by omega
        have h4 : ¬ (l - R < (g (o + 1) + 1) * 8) := by omega
        simp [h1, hnh, h3, h4, hb.2.2]
    · exact extIter_safe_loop g l nh false ExtSlots.none o l

end EpModel.Lemmas.Dec
