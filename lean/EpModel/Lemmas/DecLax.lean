import EpModel.Lemmas.DecWithinHeaders
/- strict ⊑ lax on the decode model (C05). -/
namespace EpModel.Lemmas.Dec
open EpModel EpModel.Dec

theorem udp_strict_lax (g : Mem) (o l : Nat) (w : Win) (h : udpFromSlice g o l = .ok w) :
    udpFromSliceLax g o l = .ok w ∨ (g16 g (o + 4) = 0 ∧ w = ⟨o, l⟩ ∧ udpFromSliceLax g o l = .ok ⟨o, l⟩) := by
  unfold udpFromSlice at h
  unfold udpFromSliceLax
  split at h
  · contradiction
  · rename_i h8
    simp only [h8, if_false] at h ⊢
    split at h
    · contradiction
    · split at h
      · cases h
        rename_i hz
        right
        simp [hz]
      · split at h
        · contradiction
        · cases h
          left
          rename_i h1 _ h3
          simp [h1, h3]

/-- UDP: a strict Ok is the lax result -/
theorem udp_strict_ok_lax_same (g : Mem) (o l : Nat) (w : Win) (h : udpFromSlice g o l = .ok w) :
    udpFromSliceLax g o l = .ok w := by
  rcases udp_strict_lax g o l w h with h' | ⟨_, hw, h'⟩
  · exact h'
  · rw [hw]; exact h'

theorem macsec_strict_ok_lax_same (g : Mem) (o l : Nat) (x : ExtR) (h : macsecFromSlice g o l = .ok x) :
    laxMacsecFromSlice g o l = .ok x := by
  unfold macsecFromSlice at h
  unfold laxMacsecFromSlice
  split at h
  · contradiction
  · rename_i hl hh
    simp only [hh]
    split at h
    · rename_i pl hp
      simp only at h ⊢
      split at h
      · contradiction
      · rename_i hlt
        cases h
        simp [hlt]
    · cases h; rfl

theorem ipv4Bound_strict_lax (o l hl tl : Nat) (hp : Win) (h : ipv4BoundStrict o l hl tl = .ok hp) :
    ipv4BoundLax o l hl tl = (hp, .ipv4HeaderTotalLen, false) := by
  unfold ipv4BoundStrict at h
  unfold ipv4BoundLax
  split at h
  · contradiction
  · rename_i h1
    split at h
    · contradiction
    · rename_i h2
      cases h
      simp [h1, h2]

theorem ipv4After_strict_lax (g : Mem) (o l hl : Nat) (r : IpR) (h : ipv4AfterHeaderStrict g o l hl = .ok r) :
    ipv4AfterHeaderLax g o l hl = (r, none) ∧ r.pl.inc = false := by
  unfold ipv4AfterHeaderStrict at h
  unfold ipv4AfterHeaderLax
  simp only at h ⊢
  split at h
  · contradiction
  · rename_i hp hb
    rw [ipv4Bound_strict_lax o l hl _ hp hb]
    simp only
    split at h
    · rename_i h51
      simp only [h51, if_true]
      split at h
      · contradiction
      · contradiction
      · rename_i al ha
        cases h
        simp [ha, mkV4]
    · rename_i h51
      cases h
      simp [h51, mkV4]

theorem ipv6Bound_strict_lax (o l pl : Nat) (hp : Win) (src : LenSource) (h : ipv6BoundStrict o l pl = .ok (hp, src)) :
    ipv6BoundLax o l pl = (hp, src, false) := by
  unfold ipv6BoundStrict at h
  unfold ipv6BoundLax
  split at h
  · rename_i h1
    cases h
    simp [h1]
  · rename_i h1
    split at h
    · contradiction
    · rename_i h2
      cases h
      simp [h1, h2]

theorem extsWalkStrict_ok (g : Mem) (sm : Bool) (nh o l : Nat) (r : ExtsOut) (h : extsWalkStrict g sm nh o l = .ok r) :
    r = extsWalk g sm nh o l ∧ (extsWalk g sm nh o l).stop = none := by
  unfold extsWalkStrict at h
  simp only at h
  split at h
  · contradiction
  · rename_i hs
    cases h
    exact ⟨rfl, hs⟩

theorem ipv6After_strict_lax (g : Mem) (sm : Bool) (o l : Nat) (r : IpR) (h : ipv6AfterHeaderStrict g sm o l = .ok r) :
    ipv6AfterHeaderLax g sm o l = (r, none) ∧ r.pl.inc = false := by
  unfold ipv6AfterHeaderStrict at h
  unfold ipv6AfterHeaderLax
  simp only at h ⊢
  split at h
  · contradiction
  · rename_i hp src hb
    rw [ipv6Bound_strict_lax o l _ hp src hb]
    simp only
    have := ipv6ChainStrict_ok g sm o hp src r h
    rw [this.1]
    simp [this.2, mkV6]

/-! ### IP entry points -/

theorem ipv4Header_dispatch (g : Mem) (m : Bool) (o l hl : Nat) (h : ipv4HeaderFromSlice g o l = .ok hl) :
    ipDispatchHeader g m o l = .ok (.inl hl) := by
  have hb := ipv4Header_ok g o l hl h
  unfold ipv4HeaderFromSlice at h
  unfold ipDispatchHeader
  split at h
  · contradiction
  · simp only at h
    split at h
    · contradiction
    · rename_i hv
      split at h
      · contradiction
      · rename_i hi
        split at h
        · contradiction
        · rename_i hlt
          cases h
          have h0 : ¬ l = 0 := by omega
          have h20 : ¬ (m = true ∧ l < 20) := by omega
          have hv' : g o / 16 = 4 := by omega
          simp [h0, hv', h20, hi, hlt]

theorem ipv6Header_dispatch (g : Mem) (m : Bool) (o l : Nat) (h : ipv6HeaderFromSlice g o l = .ok ()) :
    ipDispatchHeader g m o l = .ok (.inr ()) := by
  have hb := ipv6Header_ok g o l h
  unfold ipDispatchHeader
  have h0 : ¬ l = 0 := by omega
  have h4 : ¬ g o / 16 = 4 := by omega
  have h40 : ¬ l < 40 := by omega
  simp [h0, h4, hb.2, h40]

theorem ipSlice_strict_lax (g : Mem) (o l : Nat) (r : IpR) (h : ipSliceFromSlice g o l = .ok r) :
    laxIpSliceFromSlice g o l = .ok (r, none) ∧ r.pl.inc = false := by
  unfold ipSliceFromSlice at h
  unfold laxIpSliceFromSlice
  split at h
  · contradiction
  · rename_i hl hh
    have := ipv4After_strict_lax g o l hl r h
    simp [hh, this.1, this.2]
  · rename_i hh
    have := ipv6After_strict_lax g false o l r h
    simp [hh, this.1, this.2]

theorem ipv4Slice_strict_lax (g : Mem) (o l : Nat) (r : IpR) (h : ipv4SliceFromSlice g o l = .ok r) :
    laxIpSliceFromSlice g o l = .ok (r, none) ∧ laxIpv4SliceFromSlice g o l = .ok (r, none) ∧ r.pl.inc = false := by
  unfold ipv4SliceFromSlice at h
  unfold laxIpSliceFromSlice laxIpv4SliceFromSlice
  split at h
  · contradiction
  · rename_i hl hh
    have := ipv4After_strict_lax g o l hl r h
    simp [hh, ipv4Header_dispatch g false o l hl hh, this.1, this.2]

theorem ipv6Slice_strict_lax (g : Mem) (o l : Nat) (r : IpR) (h : ipv6SliceFromSlice g o l = .ok r) :
    laxIpSliceFromSlice g o l = .ok (r, none) ∧ laxIpv6SliceFromSlice g o l = .ok (r, none) ∧ r.pl.inc = false := by
  unfold ipv6SliceFromSlice at h
  unfold laxIpSliceFromSlice laxIpv6SliceFromSlice
  split at h
  · contradiction
  · rename_i hh
    have := ipv6After_strict_lax g false o l r h
    simp [hh, ipv6Header_dispatch g false o l hh, this.1, this.2]

theorem ipHeaders_strict_lax (g : Mem) (o l : Nat) (r : IpR) (h : ipHeadersFromSlice g o l = .ok r) :
    ipHeadersFromSliceLax g o l = .ok (r, none) ∧ r.pl.inc = false := by
  unfold ipHeadersFromSlice at h
  unfold ipHeadersFromSliceLax
  split at h
  · contradiction
  · rename_i hl hh
    have := ipv4After_strict_lax g o l hl r h
    simp [hh, this.1, this.2]
  · rename_i hh
    have := ipv6After_strict_lax g true o l r h
    simp [hh, this.1, this.2]

/-! ### cursors -/

theorem sliceTransport_strict_lax (c c' : Cur) (g : Mem) (pl : IpPl) (p : Packet)
    (hr : c'.r = c.r) (hs : c.r.stop = none) (hf : pl.frag = false)
    (h : c.sliceTransport g pl.num pl.w.o pl.w.l = .ok p) :
    c'.laxSliceTransport g pl = p ∧ p.stop = none := by
  unfold Cur.sliceTransport at h
  unfold Cur.laxSliceTransport
  have hcond : ¬ (pl.frag = true ∨ c'.r.stop.isSome = true) := by simp [hf, hr, hs]
  simp only [hcond, if_false] at h ⊢
  split at h
  · rename_i h1
    simp only [h1, if_true]
    split at h
    · contradiction
    · rename_i w hw
      cases h
      simp [hw, hr, Packet.setTp, hs]
  · rename_i h1
    simp only [h1, if_false]
    split at h
    · rename_i h17
      simp only [h17, if_true]
      split at h
      · contradiction
      · rename_i w hw
        cases h
        simp [udp_strict_ok_lax_same g _ _ w hw, hr, Packet.setTp, hs]
    · rename_i h17
      simp only [h17, if_false]
      split at h
      · rename_i h6
        simp only [h6, if_true]
        split at h
        · contradiction
        · contradiction
        · rename_i hl hw
          cases h
          simp [hw, hr, Packet.setTp, hs]
      · rename_i h6
        simp only [h6, if_false]
        split at h
        · rename_i h58
          simp only [h58, if_true]
          split at h
          · contradiction
          · rename_i w hw
            cases h
            simp [hw, hr, Packet.setTp, hs]
        · rename_i h58
          cases h
          simp [h58, hr, hs]

/-- what the lax cursor does with a decoded IP layer that has no stop error -/
theorem laxAfterIp (c : Cur) (g : Mem) (o l : Nat) (ip : IpR) (h : laxIpSliceFromSlice g o l = .ok (ip, none)) :
    c.laxSliceIp g o l =
      Cur.laxSliceTransport
        { off := c.off + (ip.pl.w.o - o), src := if ip.pl.src ≠ .slice then ip.pl.src else c.src,
          r := c.r.setNet (.ip ip) } g ip.pl := by
  unfold Cur.laxSliceIp
  simp [h]

theorem afterIp_strict_lax (c c' : Cur) (g : Mem) (o l : Nat) (ip : IpR) (p : Packet)
    (hr : c'.r = c.r) (hs : c.r.stop = none) (hlax : laxIpSliceFromSlice g o l = .ok (ip, none))
    (h : c.afterIp g o ip = .ok p) : c'.laxSliceIp g o l = p ∧ p.stop = none := by
  rw [laxAfterIp c' g o l ip hlax]
  unfold Cur.afterIp at h
  simp only at h
  split at h
  · rename_i hf
    cases h
    unfold Cur.laxSliceTransport
    simp [hf, hr, Packet.setNet, hs]
  · rename_i hf
    exact sliceTransport_strict_lax _ _ g ip.pl p (by simp [hr]) (by simp [Packet.setNet, hs])
      (by simpa using hf) h

theorem sliceArp_strict_lax (c c' : Cur) (g : Mem) (o l : Nat) (p : Packet)
    (hr : c'.r = c.r) (hs : c.r.stop = none) (h : c.sliceArp g o l = .ok p) :
    c'.laxSliceArp g o l = p ∧ p.stop = none := by
  unfold Cur.sliceArp at h
  unfold Cur.laxSliceArp
  split at h
  · contradiction
  · rename_i w hw
    cases h
    simp [hw, hr, Packet.setNet, hs]

theorem sliceEtherType_strict_lax (c c' : Cur) (g : Mem) (n et o l : Nat) (p : Packet)
    (hr : c'.r = c.r) (hs : c.r.stop = none) (h : c.sliceEtherType g n et o l = .ok p) :
    c'.laxSliceEtherType g n et o l = p ∧ p.stop = none := by
  fun_induction Cur.sliceEtherType c g n et o l generalizing c'
  all_goals try contradiction
  case case1 c et o l het =>
    cases h
    rw [Cur.laxSliceEtherType]
    simp [het, hr, hs]
  case case3 c et o l het n w hv ih =>
    rw [Cur.laxSliceEtherType]
    simp only [het, if_true, hv]
    exact ih _ (by simp [hr]) (by simp [Packet.pushExt, hs]) h
  case case4 c o l hne =>
    cases h
    rw [Cur.laxSliceEtherType]
    simp [hr, hs]
  case case7 c o l n hdr pl src inc hm cc et' hn hne ih =>
    rw [Cur.laxSliceEtherType]
    simp only [hne, if_false, if_true, macsec_strict_ok_lax_same g o l _ hm, hn]
    exact ih _ (by simp [cc, hr]) (by simp [cc, Packet.pushExt, hs]) h
  case case8 c o l n hdr pl src inc hm cc hn hne =>
    cases h
    rw [Cur.laxSliceEtherType]
    simp [macsec_strict_ok_lax_same g o l _ hm, hn, cc, hr, Packet.pushExt, hs]
  case case9 c o l n a hna hm hne =>
    exfalso
    have hx : ∃ hdr pl src inc, a = ExtR.macsec hdr pl src inc := by
      unfold macsecFromSlice at hm
      split at hm
      · contradiction
      · split at hm
        · simp only at hm
          split at hm
          · contradiction
          · cases hm; exact ⟨_, _, _, _, rfl⟩
        · cases hm; exact ⟨_, _, _, _, rfl⟩
    obtain ⟨hdr, pl, src, inc, ha⟩ := hx
    exact hna _ _ _ _ ha
  case case10 t c o l h1 h2 =>
    rw [Cur.laxSliceEtherType.eq_def]
    have := sliceArp_strict_lax c c' g o l p hr hs h
    cases t <;> simp [this]
  case case11 t c o l h1 h2 h3 =>
    have key : c'.laxSliceIp g o l = p ∧ p.stop = none := by
      unfold Cur.sliceIpv4 at h
      split at h
      · contradiction
      · rename_i ip hip
        exact afterIp_strict_lax c c' g o l ip p hr hs (ipv4Slice_strict_lax g o l ip hip).1 h
    rw [Cur.laxSliceEtherType.eq_def]
    cases t <;> simp [key]
  case case12 t c o l h1 h2 h3 h4 =>
    have key : c'.laxSliceIp g o l = p ∧ p.stop = none := by
      unfold Cur.sliceIpv6 at h
      split at h
      · contradiction
      · rename_i ip hip
        exact afterIp_strict_lax c c' g o l ip p hr hs (ipv6Slice_strict_lax g o l ip hip).1 h
    rw [Cur.laxSliceEtherType.eq_def]
    cases t <;> simp [key]
  case case13 t c et o l h1 h2 h3 h4 h5 =>
    cases h
    rw [Cur.laxSliceEtherType.eq_def]
    have h45 : ¬ (et = 2048 ∨ et = 34525) := by omega
    cases t <;> simp [h1, h2, h3, h45, hr, hs]

/-! ### nothing is marked incomplete by the strict decoders -/

def NoInc (p : Packet) : Prop :=
  (∀ hdr pl src inc, ExtR.macsec hdr pl src inc ∈ p.exts → inc = false) ∧
    (∀ r, p.net = some (.ip r) → r.pl.inc = false)

theorem noInc_setTp {p : Packet} {x : TpR} (h : NoInc p) : NoInc (p.setTp x) := h
theorem noInc_setLink {p : Packet} {x : LinkR} (h : NoInc p) : NoInc (p.setLink x) := h

theorem sliceTransport_noInc (c : Cur) (g : Mem) (num o l : Nat) (p : Packet) (hc : NoInc c.r)
    (h : c.sliceTransport g num o l = .ok p) : NoInc p := by
  unfold Cur.sliceTransport at h
  simp only at h
  repeat (first | contradiction | (cases h; exact hc) | split at h)

theorem afterIp_noInc (c : Cur) (g : Mem) (o : Nat) (ip : IpR) (p : Packet) (hc : NoInc c.r)
    (hip : ip.pl.inc = false) (h : c.afterIp g o ip = .ok p) : NoInc p := by
  have hnet : NoInc (c.r.setNet (.ip ip)) := by
    refine ⟨hc.1, ?_⟩
    intro r hr
    simp [Packet.setNet] at hr
    subst hr
    exact hip
  unfold Cur.afterIp at h
  simp only at h
  split at h
  · cases h; exact hnet
  · exact sliceTransport_noInc _ g _ _ _ p hnet h

theorem sliceEtherType_noInc (c : Cur) (g : Mem) (n et o l : Nat) (p : Packet) (hc : NoInc c.r)
    (h : c.sliceEtherType g n et o l = .ok p) : NoInc p := by
  fun_induction Cur.sliceEtherType c g n et o l
  all_goals try contradiction
  all_goals try (cases h; exact hc; done)
  case case3 c et o l het n w hv ih =>
    apply ih _ h
    refine ⟨?_, hc.2⟩
    intro hdr pl src inc hm
    simp [Packet.pushExt] at hm
    exact hc.1 _ _ _ _ hm
  case case7 c o l n hdr pl src inc hm cc et' hn hne ih =>
    apply ih _ h
    have hinc : inc = false := by
      unfold macsecFromSlice at hm
      split at hm
      · contradiction
      · split at hm
        · simp only at hm
          split at hm
          · contradiction
          · cases hm; rfl
        · cases hm; rfl
    refine ⟨?_, hc.2⟩
    intro hdr' pl' src' inc' hm'
    simp [cc, Packet.pushExt] at hm'
    rcases hm' with hm' | hm'
    · exact hc.1 _ _ _ _ hm'
    · rw [hm'.2.2.2]; exact hinc
  case case8 c o l n hdr pl src inc hm cc hn hne =>
    cases h
    have hinc : inc = false := by
      unfold macsecFromSlice at hm
      split at hm
      · contradiction
      · split at hm
        · simp only at hm
          split at hm
          · contradiction
          · cases hm; rfl
        · cases hm; rfl
    refine ⟨?_, hc.2⟩
    intro hdr' pl' src' inc' hm'
    simp [cc, Packet.pushExt] at hm'
    rcases hm' with hm' | hm'
    · exact hc.1 _ _ _ _ hm'
    · rw [hm'.2.2.2]; exact hinc
  case case10 t c o l h1 h2 =>
    unfold Cur.sliceArp at h
    split at h
    · contradiction
    · cases h
      refine ⟨hc.1, ?_⟩
      intro r hr
      simp [Packet.setNet] at hr
  case case11 t c o l h1 h2 h3 =>
    unfold Cur.sliceIpv4 at h
    split at h
    · contradiction
    · rename_i ip hip
      exact afterIp_noInc c g o ip p hc (ipv4Slice_strict_lax g o l ip hip).2.2 h
  case case12 t c o l h1 h2 h3 h4 =>
    unfold Cur.sliceIpv6 at h
    split at h
    · contradiction
    · rename_i ip hip
      exact afterIp_noInc c g o ip p hc (ipv6Slice_strict_lax g o l ip hip).2.2 h

theorem noInc_empty : NoInc Packet.empty := by simp [NoInc, Packet.empty]

/-! ### whole packets -/

theorem sliced_ethernet_strict_lax (g : Mem) (n : Nat) (p : Packet) (h : slicedFromEthernet g n = .ok p) :
    laxSlicedFromEthernet g n = .ok p ∧ p.stop = none ∧ NoInc p := by
  unfold slicedFromEthernet at h
  unfold laxSlicedFromEthernet
  split at h
  · contradiction
  · rename_i w hw
    have k := sliceEtherType_strict_lax _ { off := 14, src := .slice, r := Packet.empty.setLink (.eth2 w) } g 3 _ 14
      (n - 14) p rfl (by simp [Packet.setLink, Packet.empty]) h
    have k2 := sliceEtherType_noInc _ g 3 _ 14 (n - 14) p (noInc_setLink (x := .eth2 w) noInc_empty) h
    simp [hw, k.1, k.2, k2]

theorem sliced_ether_type_strict_lax (g : Mem) (et n : Nat) (p : Packet) (h : slicedFromEtherType g et n = .ok p) :
    laxSlicedFromEtherType g et n = p ∧ p.stop = none ∧ NoInc p := by
  unfold slicedFromEtherType at h
  unfold laxSlicedFromEtherType
  have k := sliceEtherType_strict_lax _
    { off := 0, src := .slice, r := Packet.empty.setLink (.etherPayload et ⟨0, n⟩) } g 3 et 0 n p rfl
    (by simp [Packet.setLink, Packet.empty]) h
  have k2 := sliceEtherType_noInc _ g 3 et 0 n p (noInc_setLink (x := .etherPayload et ⟨0, n⟩) noInc_empty) h
  exact ⟨k.1, k.2, k2⟩

theorem sliced_ip_strict_lax (g : Mem) (n : Nat) (p : Packet) (h : slicedFromIp g n = .ok p) :
    laxSlicedFromIp g n = .ok p ∧ p.stop = none ∧ NoInc p := by
  unfold slicedFromIp Cur.sliceIp at h
  unfold laxSlicedFromIp
  split at h
  · contradiction
  · rename_i ip hip
    have hl := ipSlice_strict_lax g 0 n ip hip
    simp only [hl.1]
    have hnoinc := afterIp_noInc Cur.new g 0 ip p noInc_empty hl.2 h
    unfold Cur.afterIp at h
    simp only at h
    split at h
    · rename_i hf
      cases h
      unfold Cur.laxSliceTransport
      simp [hf, Cur.new, Packet.setNet, Packet.empty] at hnoinc ⊢
      exact hnoinc
    · rename_i hf
      have k := sliceTransport_strict_lax _
        { off := ip.pl.w.o, src := .slice, r := Packet.empty.setNet (.ip ip) } g ip.pl p
        (by simp [Cur.new]) (by simp [Cur.new, Packet.setNet, Packet.empty]) (by simpa using hf) h
      simp [k.1, k.2, hnoinc]

end EpModel.Lemmas.Dec
