import EpModel.Lemmas.SpecShift
import EpModel.Lemmas.DecRefineEntry
import EpModel.Lemmas.DecRefineLaxEntry
/-
  Transfer of `Spec.walk_eth_eq_ether_shift` to the models of `SlicedPacket::from_ethernet` /
  `from_ether_type` and their lax twins through the proved refinements (C03, C05).  Used by C06.
-/
namespace EpModel.Lemmas.ShiftEntry
set_option linter.unusedSimpArgs false
open EpModel EpModel.Dec EpModel.Spec EpModel.Lemmas.Refine EpModel.Lemmas.RefineLax

/-! ### the bytes behind the first `k` -/

theorem memOf_drop (b : Bytes) (k i : Nat) : memOf (b.drop k) i = memOf b (k + i) := by
  simp [memOf, bAt, List.getD_eq_getElem?_getD, List.getElem?_drop]

theorem memOf_drop_eq (b : Bytes) (k : Nat) : memOf (b.drop k) = shM k (memOf b) := by
  funext i; exact memOf_drop b k i

theorem byteMem_shM (k : Nat) (g : Mem) (hg : ByteMem g) : ByteMem (shM k g) := fun i => hg (k + i)

/-! ### faults under a shift -/

theorem lenMatch_shift_off {e e' : LenError} {f : Fault} {k : Nat} (h : LenMatch e (shFault k f)) (h' : LenMatch e' f) :
    e.off = k + e'.off ∧ e.len = e'.len ∧ e.req = e'.req := by
  refine ⟨?_, ?_, ?_⟩
  · rw [h.off, h'.off]; rfl
  · rw [h.len, h'.len]; rfl
  · rw [h.req, h'.req]; rfl

/-- a walk that starts behind the link layer hands back the link field it was given -/
theorem walkN_link_eq (lax : Bool) (g : Mem) (n : Nat) (p : Packet) (t : Tag) (c : Ctx)
    (h1 : t ≠ .eth) (h2 : t ≠ .sll) (h3 : c.nExt ≤ 3) : (walkN lax g n p t c).1.link = p.link := by
  have h := walkN_link lax g n p t c p.link h1 h2 h3
  have hp : setLk p.link p = p := by cases p; rfl
  rw [hp] at h
  rw [h]
  rfl

/-! ### strict -/

/-- `SlicedPacket::from_ethernet` on `n ≥ 14` bytes against `SlicedPacket::from_ether_type` on the bytes
    behind the Ethernet II header (memory seen from offset 14, `n - 14` bytes), ether type taken from the
    header -/
theorem from_ethernet_vs_ether_type (g : Mem) (hg : ByteMem g) (n : Nat) (h : 14 ≤ n) :
    match slicedFromEthernet g n, slicedFromEtherType (shM 14 g) (g16 g 12) (n - 14) with
    | .ok p, .ok q =>
      p = setLk (some (.eth2 ⟨0, n⟩)) (shPacket 14 q) ∧ q.link = some (.etherPayload (g16 g 12) ⟨0, n - 14⟩)
    | .error e, .error e' => ∃ f, ErrMatch e' f ∧ ErrMatch e (shFault 14 f)
    | _, _ => False := by
  have R1 := from_ethernet_refines g hg n
  have R2 := from_ether_type_refines (shM 14 g) (byteMem_shM 14 g hg) (g16 g 12) (n - 14)
  have E := walk_eth_eq_ether_shift false g n h
  have L := walkN_link_eq false (shM 14 g) maxSteps (startPacket (n - 14) (.etherType (g16 g 12)))
    (.ether (g16 g 12)) (ctx0 (n - 14)) (by simp) (by simp) (by simp [ctx0])
  unfold ctx0 at R1 R2 L
  rw [E] at R1
  revert R1 R2 L
  generalize walkN false (shM 14 g) maxSteps (startPacket (n - 14) (.etherType (g16 g 12))) (.ether (g16 g 12))
    { off := 0, stop := n - 14, lim := .slice, nExt := 0 } = r
  intro R1 R2 L
  obtain ⟨q', fo⟩ := r
  cases hm : slicedFromEthernet g n with
  | ok p =>
    cases hm' : slicedFromEtherType (shM 14 g) (g16 g 12) (n - 14) with
    | ok q =>
      rw [hm] at R1; rw [hm'] at R2
      cases fo with
      | none =>
        simp only [Rel, ethOfEtherType, Option.map] at R1 R2
        subst R2
        exact ⟨R1, L⟩
      | some f => simp [Rel] at R2
    | error e' =>
      rw [hm] at R1; rw [hm'] at R2
      cases fo with
      | none => simp [Rel] at R2
      | some f => simp [Rel, ethOfEtherType] at R1
  | error e =>
    cases hm' : slicedFromEtherType (shM 14 g) (g16 g 12) (n - 14) with
    | ok q =>
      rw [hm] at R1; rw [hm'] at R2
      cases fo with
      | none => simp [Rel, ethOfEtherType] at R1
      | some f => simp [Rel] at R2
    | error e' =>
      rw [hm] at R1; rw [hm'] at R2
      cases fo with
      | none => simp [Rel] at R2
      | some f =>
        simp only [Rel, ethOfEtherType, Option.map] at R1 R2
        exact ⟨f, R2, R1⟩

/-! ### lax -/

/-- the layer a lax result records is determined by the faulting unit -/
def layerOfUnit : Unit_ → Option Layer
  | .vlan => some .vlanHeader
  | .macsecHeader => some .macsecHeader
  | .arp => some .arp
  | .ipAny => some .ipHeader
  | .ipv4Header => some .ipHeader
  | .ipv6Header => some .ipHeader
  | .auth => some .ipAuthHeader
  | .hopByHop => some .ipv6HopByHopHeader
  | .destOpts => some .ipv6DestOptionsHeader
  | .route => some .ipv6RouteHeader
  | .fragHeader => some .ipv6FragHeader
  | .udpHeader => some .udpHeader
  | .tcp => some .tcpHeader
  | .icmp4 => some .icmpv4
  | .icmp6 => some .icmpv6
  | _ => none

theorem stopLayer_layerOfUnit {ly : Layer} {u : Unit_} (h : StopLayer ly u) : layerOfUnit u = some ly := by
  cases ly <;> cases u <;> first | rfl | exact h.elim

/-- what a stop error says about a fault, with the short-IPv4 wrinkle admitted (as in `RelLaxW`) -/
def StopDescribes (g : Mem) (e : PErr) (ly : Layer) (f : Fault) : Prop :=
  StopMatch e ly f ∨ ShortV4Stop g e ly f

theorem stopDescribes_layer {g : Mem} {e : PErr} {ly : Layer} {f : Fault} (h : StopDescribes g e ly f) :
    layerOfUnit f.unit = some ly := by
  rcases h with h | h
  · exact stopLayer_layerOfUnit h.1
  · rw [h.2.2.1, h.1]; rfl

/-- `LaxSlicedPacket::from_ethernet` on `n ≥ 14` bytes against `LaxSlicedPacket::from_ether_type` on the
    bytes behind the Ethernet II header -/
theorem lax_from_ethernet_vs_ether_type (g : Mem) (hg : ByteMem g) (n : Nat) (h : 14 ≤ n) :
    ∃ m, laxSlicedFromEthernet g n = .ok m ∧
      noStop m = setLk (some (.eth2 ⟨0, n⟩))
        (shPacket 14 (noStop (laxSlicedFromEtherType (shM 14 g) (g16 g 12) (n - 14)))) ∧
      (laxSlicedFromEtherType (shM 14 g) (g16 g 12) (n - 14)).link =
        some (.etherPayload (g16 g 12) ⟨0, n - 14⟩) ∧
      match m.stop, (laxSlicedFromEtherType (shM 14 g) (g16 g 12) (n - 14)).stop with
      | none, none => True
      | some (e, ly), some (e', ly') =>
        ly = ly' ∧ ∃ f, StopDescribes (shM 14 g) e' ly' f ∧ StopDescribes g e ly (shFault 14 f)
      | _, _ => False := by
  have R1 := lax_from_ethernet_refinesW g hg n
  have R2 := lax_from_ether_type_refinesW (shM 14 g) (byteMem_shM 14 g hg) (g16 g 12) (n - 14)
  have E := walk_eth_eq_ether_shift true g n h
  have L := walkN_link_eq true (shM 14 g) maxSteps (startPacket (n - 14) (.etherType (g16 g 12)))
    (.ether (g16 g 12)) (ctx0 (n - 14)) (by simp) (by simp) (by simp [ctx0])
  unfold ctx0 at R1 R2 L
  rw [E] at R1
  revert R1 R2 L
  generalize walkN true (shM 14 g) maxSteps (startPacket (n - 14) (.etherType (g16 g 12))) (.ether (g16 g 12))
    { off := 0, stop := n - 14, lim := .slice, nExt := 0 } = r
  generalize laxSlicedFromEtherType (shM 14 g) (g16 g 12) (n - 14) = m'
  intro R1 R2 L
  obtain ⟨q', fo⟩ := r
  cases hm : laxSlicedFromEthernet g n with
  | error e =>
    rw [hm] at R1
    obtain ⟨f, hf, hu, _⟩ := R1
    -- the walk did not fault at the Ethernet II header
    cases fo with
    | none => simp [ethOfEtherType] at hf
    | some f' =>
      exfalso
      have h14 : ¬ n < 14 := by omega
      unfold laxSlicedFromEthernet eth2FromSlice at hm
      simp [h14] at hm
  | ok m =>
    rw [hm] at R1
    obtain ⟨⟨hn1, hs1⟩, _⟩ := R1
    obtain ⟨hn2, hs2⟩ := R2
    simp only at hn1 hn2 hs1 hs2 L
    refine ⟨m, rfl, ?_, ?_, ?_⟩
    · rw [hn1, hn2]; rfl
    · have : m'.link = (noStop m').link := rfl
      rw [this, hn2, L]; rfl
    · cases hst : m.stop with
      | none =>
        rw [hst] at hs1
        cases fo with
        | some f => simp [ethOfEtherType] at hs1
        | none =>
          cases hst' : m'.stop with
          | none => trivial
          | some x => rw [hst'] at hs2; simp at hs2
      | some x =>
        obtain ⟨e, ly⟩ := x
        rw [hst] at hs1
        cases fo with
        | none => simp [ethOfEtherType] at hs1
        | some f =>
          cases hst' : m'.stop with
          | none => rw [hst'] at hs2; simp at hs2
          | some x' =>
            obtain ⟨e', ly'⟩ := x'
            rw [hst'] at hs2
            simp only [ethOfEtherType, Option.map] at hs1 hs2
            have l1 := stopDescribes_layer (g := g) hs1
            have l2 := stopDescribes_layer (g := shM 14 g) hs2
            refine ⟨?_, f, hs2, hs1⟩
            have : (shFault 14 f).unit = f.unit := rfl
            rw [this, l2] at l1
            exact (Option.some.inj l1).symm

end EpModel.Lemmas.ShiftEntry
