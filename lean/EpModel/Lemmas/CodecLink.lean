import EpModel.Model.Codec.LinkCommon
/-
  Helper lemmas for the codec round-trip theorems (C08, link / ARP / transport half):
  reading big endian fields out of appended pieces, and gluing decoded pieces back together.
  Core Lean only.
-/
namespace EpModel.Lemmas.Codec
open EpModel EpModel.Codec

/-! ### reading from `a ++ r` and `x :: r` -/

theorem bAt_append_left (a r : Bytes) (i : Nat) (h : i < a.length) : bAt (a ++ r) i = bAt a i := by
  unfold bAt; simp [List.getD, List.getElem?_append_left h]

theorem bAt_append_right (a r : Bytes) (i : Nat) (h : a.length ≤ i) :
    bAt (a ++ r) i = bAt r (i - a.length) := by
  unfold bAt; simp [List.getD, List.getElem?_append_right h]

@[simp] theorem bAt_cons_zero (x : UInt8) (r : Bytes) : bAt (x :: r) 0 = x.toNat := by
  simp [bAt, List.getD]

@[simp] theorem bAt_cons_succ (x : UInt8) (r : Bytes) (i : Nat) : bAt (x :: r) (i + 1) = bAt r i := by
  simp [bAt, List.getD]

theorem be16_append_right (a r : Bytes) (i : Nat) (h : a.length ≤ i) :
    be16 (a ++ r) i = be16 r (i - a.length) := by
  unfold be16
  rw [bAt_append_right a r i h, bAt_append_right a r (i + 1) (by omega)]
  have e1 : i + 1 - a.length = i - a.length + 1 := by omega
  rw [e1]

@[simp] theorem be16_cons_succ (x : UInt8) (r : Bytes) (i : Nat) : be16 (x :: r) (i + 1) = be16 r i := by
  simp [be16]

theorem be16_enc16 (n : Nat) (r : Bytes) (h : n < 65536) : be16 (enc16 n ++ r) 0 = n := by
  simp [be16, bAt, enc16, List.getD]; omega

theorem be32_append_right (a r : Bytes) (i : Nat) (h : a.length ≤ i) :
    be32 (a ++ r) i = be32 r (i - a.length) := by
  unfold be32
  rw [bAt_append_right a r i h, bAt_append_right a r (i + 1) (by omega),
    bAt_append_right a r (i + 2) (by omega), bAt_append_right a r (i + 3) (by omega)]
  have e1 : i + 1 - a.length = i - a.length + 1 := by omega
  have e2 : i + 2 - a.length = i - a.length + 2 := by omega
  have e3 : i + 3 - a.length = i - a.length + 3 := by omega
  rw [e1, e2, e3]

@[simp] theorem be32_cons_succ (x : UInt8) (r : Bytes) (i : Nat) : be32 (x :: r) (i + 1) = be32 r i := by
  simp [be32]

theorem be32_enc32 (n : Nat) (r : Bytes) (h : n < 4294967296) : be32 (enc32 n ++ r) 0 = n := by
  simp [be32, bAt, enc32, List.getD]; omega

theorem be64_append_right (a r : Bytes) (i : Nat) (h : a.length ≤ i) :
    be64 (a ++ r) i = be64 r (i - a.length) := by
  unfold be64
  rw [be32_append_right a r i h, be32_append_right a r (i + 4) (by omega)]
  have e1 : i + 4 - a.length = i - a.length + 4 := by omega
  rw [e1]

theorem be64_enc64 (n : Nat) (r : Bytes) (h : n < 18446744073709551616) : be64 (enc64 n ++ r) 0 = n := by
  unfold be64 enc64
  rw [List.append_assoc, be32_enc32 _ _ (by omega), be32_append_right _ _ _ (by simp)]
  simp only [enc32_length, Nat.zero_add, Nat.sub_self]
  have : be32 (enc32 n ++ r) 0 = n % 4294967296 := by
    simp [be32, bAt, enc32, List.getD]; omega
  rw [this]; omega

theorem drop_append_right (a r : Bytes) (o : Nat) (h : a.length ≤ o) :
    (a ++ r).drop o = r.drop (o - a.length) := by
  rw [List.drop_append, List.drop_eq_nil_of_le h]; simp

theorem drop_append_exact (a r : Bytes) (o : Nat) (h : a.length = o) : (a ++ r).drop o = r := by
  subst h; simp

theorem sub_append_right (a r : Bytes) (o l : Nat) (h : a.length ≤ o) :
    sub (a ++ r) o l = sub r (o - a.length) l := by
  unfold sub; rw [drop_append_right a r o h]

theorem sub_append_exact (a r : Bytes) (l : Nat) (h : a.length = l) : sub (a ++ r) 0 l = a := by
  subst h; simp [sub]

@[simp] theorem sub_cons_succ (x : UInt8) (r : Bytes) (o l : Nat) : sub (x :: r) (o + 1) l = sub r o l := by
  simp [sub]


/-! ### skipping an encoded field in front (stated with literal offsets so that `simp` can use them) -/
@[simp] theorem bAt_skip_enc16 (n : Nat) (r : Bytes) (i : Nat) : bAt (enc16 n ++ r) (i + 2) = bAt r i := by
  rw [bAt_append_right _ _ _ (by simp)]; simp
@[simp] theorem bAt_skip_enc32 (n : Nat) (r : Bytes) (i : Nat) : bAt (enc32 n ++ r) (i + 4) = bAt r i := by
  rw [bAt_append_right _ _ _ (by simp)]; simp
@[simp] theorem bAt_skip_enc64 (n : Nat) (r : Bytes) (i : Nat) : bAt (enc64 n ++ r) (i + 8) = bAt r i := by
  rw [bAt_append_right _ _ _ (by simp)]; simp
@[simp] theorem be16_skip_enc16 (n : Nat) (r : Bytes) (i : Nat) : be16 (enc16 n ++ r) (i + 2) = be16 r i := by
  rw [be16_append_right _ _ _ (by simp)]; simp
@[simp] theorem be16_skip_enc32 (n : Nat) (r : Bytes) (i : Nat) : be16 (enc32 n ++ r) (i + 4) = be16 r i := by
  rw [be16_append_right _ _ _ (by simp)]; simp
@[simp] theorem be16_skip_enc64 (n : Nat) (r : Bytes) (i : Nat) : be16 (enc64 n ++ r) (i + 8) = be16 r i := by
  rw [be16_append_right _ _ _ (by simp)]; simp
@[simp] theorem be32_skip_enc16 (n : Nat) (r : Bytes) (i : Nat) : be32 (enc16 n ++ r) (i + 2) = be32 r i := by
  rw [be32_append_right _ _ _ (by simp)]; simp
@[simp] theorem be32_skip_enc32 (n : Nat) (r : Bytes) (i : Nat) : be32 (enc32 n ++ r) (i + 4) = be32 r i := by
  rw [be32_append_right _ _ _ (by simp)]; simp
@[simp] theorem be32_skip_enc64 (n : Nat) (r : Bytes) (i : Nat) : be32 (enc64 n ++ r) (i + 8) = be32 r i := by
  rw [be32_append_right _ _ _ (by simp)]; simp
@[simp] theorem be64_skip_enc16 (n : Nat) (r : Bytes) (i : Nat) : be64 (enc16 n ++ r) (i + 2) = be64 r i := by
  rw [be64_append_right _ _ _ (by simp)]; simp
@[simp] theorem be64_skip_enc32 (n : Nat) (r : Bytes) (i : Nat) : be64 (enc32 n ++ r) (i + 4) = be64 r i := by
  rw [be64_append_right _ _ _ (by simp)]; simp
@[simp] theorem be64_skip_enc64 (n : Nat) (r : Bytes) (i : Nat) : be64 (enc64 n ++ r) (i + 8) = be64 r i := by
  rw [be64_append_right _ _ _ (by simp)]; simp
@[simp] theorem sub_skip_enc16 (n : Nat) (r : Bytes) (i l : Nat) : sub (enc16 n ++ r) (i + 2) l = sub r i l := by
  rw [sub_append_right _ _ _ _ (by simp)]; simp
@[simp] theorem drop_skip_enc16 (n : Nat) (r : Bytes) (i : Nat) : (enc16 n ++ r).drop (i + 2) = r.drop i := by
  rw [drop_append_right _ _ _ (by simp)]; simp
@[simp] theorem sub_skip_enc32 (n : Nat) (r : Bytes) (i l : Nat) : sub (enc32 n ++ r) (i + 4) l = sub r i l := by
  rw [sub_append_right _ _ _ _ (by simp)]; simp
@[simp] theorem drop_skip_enc32 (n : Nat) (r : Bytes) (i : Nat) : (enc32 n ++ r).drop (i + 4) = r.drop i := by
  rw [drop_append_right _ _ _ (by simp)]; simp
@[simp] theorem sub_skip_enc64 (n : Nat) (r : Bytes) (i l : Nat) : sub (enc64 n ++ r) (i + 8) l = sub r i l := by
  rw [sub_append_right _ _ _ _ (by simp)]; simp
@[simp] theorem drop_skip_enc64 (n : Nat) (r : Bytes) (i : Nat) : (enc64 n ++ r).drop (i + 8) = r.drop i := by
  rw [drop_append_right _ _ _ (by simp)]; simp
@[simp] theorem be64_cons_succ (x : UInt8) (r : Bytes) (i : Nat) : be64 (x :: r) (i + 1) = be64 r i := by
  simp [be64]

/-! ### gluing decoded pieces back together -/

@[simp] theorem u8_toNat_self (x : UInt8) : u8 x.toNat = x := by
  unfold u8
  have := x.toNat_lt
  rw [Nat.mod_eq_of_lt (by omega)]
  simp

theorem sub_one (b : Bytes) (i : Nat) (h : i < b.length) : [u8 (bAt b i)] = sub b i 1 := by
  unfold sub bAt
  have e : b.drop i = b[i] :: b.drop (i + 1) := List.drop_eq_getElem_cons h
  rw [e]
  simp only [List.getD, List.getElem?_eq_getElem h, Option.getD_some, u8_toNat_self]
  rfl

theorem sub_append_sub (b : Bytes) (i k j m : Nat) (hj : j = i + k) :
    sub b i k ++ sub b j m = sub b i (k + m) := by
  subst hj
  unfold sub
  rw [List.take_add, List.drop_drop]

/-- glue two adjacent decoded pieces (all offsets explicit so that literals stay normalised). -/
theorem sub_glue (b : Bytes) (i k j m n : Nat) (hj : j = i + k) (hn : n = k + m) :
    sub b i k ++ sub b j m = sub b i n := by
  subst hn; exact sub_append_sub b i k j m hj

theorem sub_zero (b : Bytes) (n : Nat) : sub b 0 n = b.take n := by simp [sub]

theorem enc16_be16 (b : Bytes) (i : Nat) (h : i + 2 ≤ b.length) : enc16 (be16 b i) = sub b i 2 := by
  have h1 := sub_one b i (by omega)
  have h2 := sub_one b (i + 1) (by omega)
  rw [← sub_append_sub b i 1 (i + 1) 1 rfl, ← h1, ← h2]
  unfold enc16 be16
  have := bAt_lt b i; have := bAt_lt b (i + 1)
  have e1 : (bAt b i * 256 + bAt b (i + 1)) / 256 = bAt b i := by omega
  simp only [List.cons_append, List.nil_append, e1]
  congr 2
  unfold u8; congr 1; omega

theorem enc32_be32 (b : Bytes) (i : Nat) (h : i + 4 ≤ b.length) : enc32 (be32 b i) = sub b i 4 := by
  have h1 := sub_one b i (by omega)
  have h2 := sub_one b (i + 1) (by omega)
  have h3 := sub_one b (i + 2) (by omega)
  have h4 := sub_one b (i + 3) (by omega)
  rw [← sub_append_sub b i 3 (i + 3) 1 rfl, ← sub_append_sub b i 2 (i + 2) 1 rfl,
    ← sub_append_sub b i 1 (i + 1) 1 rfl, ← h1, ← h2, ← h3, ← h4]
  unfold enc32 be32
  have := bAt_lt b i; have := bAt_lt b (i + 1); have := bAt_lt b (i + 2); have := bAt_lt b (i + 3)
  simp only [List.cons_append, List.nil_append]
  congr 1
  · unfold u8; congr 1; omega
  congr 1
  · unfold u8; congr 1; omega
  congr 1
  · unfold u8; congr 1; omega
  congr 1
  unfold u8; congr 1; omega

theorem u8_congr (a b : Nat) (h : a % 256 = b % 256) : u8 a = u8 b := by
  unfold u8; rw [h]

theorem enc32_mod (n : Nat) : enc32 n = enc32 (n % 4294967296) := by
  unfold enc32
  rw [u8_congr (n / 16777216) (n % 4294967296 / 16777216) (by omega),
    u8_congr (n / 65536) (n % 4294967296 / 65536) (by omega),
    u8_congr (n / 256) (n % 4294967296 / 256) (by omega),
    u8_congr n (n % 4294967296) (by omega)]

theorem enc16_mod (n : Nat) : enc16 n = enc16 (n % 65536) := by
  unfold enc16
  rw [u8_congr (n / 256) (n % 65536 / 256) (by omega), u8_congr n (n % 65536) (by omega)]

theorem enc64_be64 (b : Bytes) (i : Nat) (h : i + 8 ≤ b.length) : enc64 (be64 b i) = sub b i 8 := by
  unfold enc64 be64
  have := be32_lt b i; have := be32_lt b (i + 4)
  have e1 : (be32 b i * 4294967296 + be32 b (i + 4)) / 4294967296 = be32 b i := by omega
  have e2 : enc32 (be32 b i * 4294967296 + be32 b (i + 4)) = enc32 (be32 b (i + 4)) := by
    rw [enc32_mod]
    congr 1; omega
  rw [e1, e2, enc32_be32 b i (by omega), enc32_be32 b (i + 4) (by omega)]
  exact sub_append_sub b i 4 (i + 4) 4 rfl

theorem sub_length' (b : Bytes) (o l : Nat) (h : o + l ≤ b.length) : (sub b o l).length = l :=
  sub_length b o l h

end EpModel.Lemmas.Codec
