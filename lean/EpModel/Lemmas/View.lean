import EpModel.Model.ViewAbs
import EpModel.Spec.IcmpTables
import EpModel.Spec.NdpFormat
import EpModel.Spec.IgmpArpFormat
/-
  Helper lemmas for C17 (typed control-message views): byte utilities, the normal form of one NDP
  iterator step, the step relation between the iterator model and the RFC 4861 TLV rule, and the
  induction over the option area (refinement and tiling).
-/
namespace EpModel.Lemmas.View
open EpModel EpModel.View EpModel.Spec
set_option linter.unusedSimpArgs false
set_option linter.unusedVariables false

theorem bytes5to8_eq_sub (b : Bytes) (h : 8 ≤ b.length) : bytes5to8 b = sub b 4 4 := by
  match b, h with
  | b0 :: b1 :: b2 :: b3 :: b4 :: b5 :: b6 :: b7 :: rest, _ => simp [bytes5to8, sub]


theorem bAt_take (s : Bytes) (n i : Nat) (h : i < n) : bAt (s.take n) i = bAt s i := by
  simp [bAt, List.getD_eq_getElem?_getD, h]

theorem bitSet_eq (v m : Nat) : (if bitSet v m = true then 1 else 0) = v / m % 2 := by
  unfold bitSet
  by_cases h : v / m % 2 = 1 <;> simp [h]
  omega

/-- the per-type `from_slice` on a chunk whose length is what its own length byte says. -/
theorem ndpOptFromSlice_chunk (s : Bytes) (t u : Nat) (h0 : bAt s 0 = t) (h1 : bAt s 1 = u)
    (hu : u ≠ 0) (hl : s.length = u * 8) :
    ndpOptFromSlice (ndpKindOfType t) s =
      if t = 3 ∧ u ≠ 4 then .error (.unexpectedSize 3 32 (u * 8))
      else if t = 5 ∧ u ≠ 1 then .error (.unexpectedSize 5 8 (u * 8))
      else .ok () := by
  have h2 : ¬ u * 8 < 2 := by omega
  have h8 : ¬ u * 8 < 8 := by omega
  have ht : t = 1 ∨ t = 2 ∨ t = 3 ∨ t = 4 ∨ t = 5 ∨ (t ≠ 1 ∧ t ≠ 2 ∧ t ≠ 3 ∧ t ≠ 4 ∧ t ≠ 5) := by omega
  rcases ht with rfl | rfl | rfl | rfl | rfl | ⟨t1, t2, t3, t4, t5⟩
  · simp [ndpKindOfType, ndpOptFromSlice, linkLayerOptFromSlice, ndpHeaderFromSlice, h2, h0, h1, hu, hl]
  · simp [ndpKindOfType, ndpOptFromSlice, linkLayerOptFromSlice, ndpHeaderFromSlice, h2, h0, h1, hu, hl]
  · by_cases h4 : u = 4
    · subst h4; simp [ndpKindOfType, ndpOptFromSlice, prefixOptFromSlice, h0, h1, hl]
    · have : ¬ u * 8 = 32 := by omega
      simp [ndpKindOfType, ndpOptFromSlice, prefixOptFromSlice, hl, h4, this]
  · simp [ndpKindOfType, ndpOptFromSlice, redirectedOptFromSlice, ndpHeaderFromSlice, h2, h8, h0, h1, hu, hl]
  · by_cases h4 : u = 1
    · subst h4; simp [ndpKindOfType, ndpOptFromSlice, mtuOptFromSlice, h0, h1, hl]
    · have : ¬ u * 8 = 8 := by omega
      simp [ndpKindOfType, ndpOptFromSlice, mtuOptFromSlice, hl, h4, this]
  · simp [ndpKindOfType, ndpOptFromSlice, unknownOptFromSlice, ndpHeaderFromSlice, h2, h0, h1, hu, hl, t1, t2, t3, t4, t5]

/-- normal form of one iterator step: exactly the TLV rule. -/
theorem ndpNext_eval (off : Nat) (s : Bytes) (hs : s ≠ []) :
    ndpNext ⟨off, s⟩ =
      if s.length < 2 then
        some (.error (.unexpectedSize (bAt s 0) 2 s.length), ⟨off + s.length, []⟩)
      else if bAt s 1 = 0 then some (.error (.zeroLength (bAt s 0)), ⟨off + s.length, []⟩)
      else if bAt s 1 * 8 > s.length then
        some (.error (.unexpectedEndOfSlice (bAt s 0) (bAt s 1 * 8) s.length), ⟨off + s.length, []⟩)
      else if bAt s 0 = 3 ∧ bAt s 1 ≠ 4 then
        some (.error (.unexpectedSize 3 32 (bAt s 1 * 8)), ⟨off + s.length, []⟩)
      else if bAt s 0 = 5 ∧ bAt s 1 ≠ 1 then
        some (.error (.unexpectedSize 5 8 (bAt s 1 * 8)), ⟨off + s.length, []⟩)
      else
        some (.ok ⟨ndpKindOfType (bAt s 0), off, s.take (bAt s 1 * 8)⟩,
              ⟨off + bAt s 1 * 8, s.drop (bAt s 1 * 8)⟩) := by
  have he : s.isEmpty = false := by cases s <;> simp_all
  unfold ndpNext ndpParseNext ndpHeaderFromSlice
  simp only [he]
  by_cases h2 : s.length < 2
  · simp [h2]
  · by_cases hu : bAt s 1 = 0
    · simp [h2, hu]
    · by_cases hl : bAt s 1 * 8 > s.length
      · simp [h2, hu, hl]
      · have hlen : (s.take (bAt s 1 * 8)).length = bAt s 1 * 8 := by simp; omega
        have hc := ndpOptFromSlice_chunk (s.take (bAt s 1 * 8)) (bAt s 0) (bAt s 1)
          (bAt_take _ _ _ (by omega)) (bAt_take _ _ _ (by omega)) hu hlen
        simp only [h2, hu, hl, if_false, Bool.false_eq_true]
        rw [hc]
        by_cases h3 : bAt s 0 = 3 ∧ bAt s 1 ≠ 4
        · simp [h3]
        · by_cases h5 : bAt s 0 = 5 ∧ bAt s 1 ≠ 1
          · simp [h3, h5]
          · simp [h3, h5]

/-- the crate error that corresponds to a Spec reject. -/
def rejectToErr : Ndp.Reject → NdpErr
  | .truncatedHeader t h => .unexpectedSize t 2 h
  | .zeroLength t => .zeroLength t
  | .truncated t n h => .unexpectedEndOfSlice t n h
  | .wrongSize t n h => .unexpectedSize t n h

theorem ndp_step (off : Nat) (s : Bytes) (hs : s ≠ []) :
    match Ndp.head off s with
    | .error r => ndpNext ⟨off, s⟩ = some (.error (rejectToErr r), ⟨off + s.length, []⟩)
    | .ok o => o.off = off ∧ o.len = bAt s 1 * 8 ∧ 0 < o.len ∧ o.len ≤ s.length ∧
        ndpNext ⟨off, s⟩ = some (.ok ⟨ndpKindOfType (bAt s 0), off, s.take o.len⟩,
                                 ⟨off + o.len, s.drop o.len⟩) ∧
        NdpOpt.view ⟨ndpKindOfType (bAt s 0), off, s.take o.len⟩ = o.view := by
  rw [ndpNext_eval off s hs]
  unfold Ndp.head
  have hm : 8 * bAt s 1 = bAt s 1 * 8 := Nat.mul_comm _ _
  by_cases h2 : s.length < 2
  · simp [h2, rejectToErr]
  · by_cases hu : bAt s 1 = 0
    · simp [h2, hu, rejectToErr]
    · by_cases hl : bAt s 1 * 8 > s.length
      · have : s.length < 8 * bAt s 1 := by omega
        simp [h2, hu, hl, this, rejectToErr, hm]
      · have hl' : ¬ s.length < 8 * bAt s 1 := by omega
        have hlen : (s.take (bAt s 1 * 8)).length = bAt s 1 * 8 := by simp; omega
        simp only [h2, hu, hl, hl', if_false]
        generalize htt : bAt s 0 = t
        have ht : t = 1 ∨ t = 2 ∨ t = 3 ∨ t = 4 ∨ t = 5 ∨ (t ≠ 1 ∧ t ≠ 2 ∧ t ≠ 3 ∧ t ≠ 4 ∧ t ≠ 5) := by
          omega
        rcases ht with rfl | rfl | rfl | rfl | rfl | ⟨t1, t2, t3, t4, t5⟩
        · simp [Ndp.optFmt, Ndp.optTable, List.find?, Option.filter, hm, hlen, NdpOpt.view, ndpKindOfType, readFields,
            Fld.read]
          omega
        · simp [Ndp.optFmt, Ndp.optTable, List.find?, Option.filter, hm, hlen, NdpOpt.view, ndpKindOfType, readFields,
            Fld.read]
          omega
        · by_cases h4 : bAt s 1 = 4
          · have h32 : 32 ≤ s.length := by omega
            simp [Ndp.optFmt, Ndp.optTable, List.find?, Option.filter, hm, hlen, NdpOpt.view, ndpKindOfType, readFields,
              Fld.read, h4, ofBool, bitSet_eq]
            omega
          · have : ¬ 4 = bAt s 1 := fun h => h4 h.symm
            simp [Ndp.optFmt, Ndp.optTable, List.find?, Option.filter, hm, h4, this, rejectToErr]
        · simp [Ndp.optFmt, Ndp.optTable, List.find?, Option.filter, hm, hlen, NdpOpt.view, ndpKindOfType, readFields,
            Fld.read]
          omega
        · by_cases h4 : bAt s 1 = 1
          · have h32 : 8 ≤ s.length := by omega
            simp [Ndp.optFmt, Ndp.optTable, List.find?, Option.filter, hm, hlen, NdpOpt.view, ndpKindOfType, readFields,
              Fld.read, h4]
            omega
          · have : ¬ 1 = bAt s 1 := fun h => h4 h.symm
            simp [Ndp.optFmt, Ndp.optTable, List.find?, Option.filter, hm, h4, this, rejectToErr]
        · simp [Ndp.optFmt, Ndp.optTable, List.find?, Option.filter, hm, hlen, NdpOpt.view, ndpKindOfType, readFields,
            Fld.read, t1, t2, t3, t4, t5]
          omega

theorem ndpRun_none {it : NdpIter} (h : ndpNext it = none) : ndpRun it = ([], none) := by
  rw [ndpRun]; split <;> simp_all

theorem ndpRun_err {it it' : NdpIter} {e : NdpErr} (h : ndpNext it = some (.error e, it')) :
    ndpRun it = ([], some e) := by
  rw [ndpRun]; split <;> simp_all

theorem ndpRun_ok {it it' : NdpIter} {o : NdpOpt} (h : ndpNext it = some (.ok o, it')) :
    ndpRun it = (o :: (ndpRun it').1, (ndpRun it').2) := by
  rw [ndpRun]; split <;> simp_all

theorem ndpNext_nil (off : Nat) : ndpNext ⟨off, []⟩ = none := by simp [ndpNext]

/-- refinement: running the iterator over an area gives exactly the options and the reject the
    format rule prescribes. -/
theorem ndp_refines (s : Bytes) : ∀ off : Nat,
    (ndpRun ⟨off, s⟩).1.map NdpOpt.view = (Ndp.parse off s).1.map (·.view) ∧
    (ndpRun ⟨off, s⟩).2 = (Ndp.parse off s).2.map rejectToErr := by
  induction hn : s.length using Nat.strongRecOn generalizing s with
  | _ n ih =>
    intro off
    by_cases hs : s = []
    · subst hs
      rw [ndpRun_none (ndpNext_nil off), Ndp.parse]
      simp
    · have hstep := ndp_step off s hs
      rw [Ndp.parse]
      simp only [hs, dite_false]
      split at hstep
      · rename_i r hr
        rw [ndpRun_err hstep]
        simp [hr]
      · rename_i o ho
        obtain ⟨ho1, ho2, ho3, ho4, hnext, hview⟩ := hstep
        rw [ndpRun_ok hnext]
        simp only [ho, ho3, ho4, and_self, dite_true]
        have := ih (s.drop o.len).length (by simp; omega) (s.drop o.len) rfl (off + o.len)
        simp [hview, this.1, this.2]

theorem bAt_drop (s : Bytes) (n i : Nat) : bAt (s.drop n) i = bAt s (n + i) := by
  simp [bAt, List.getD_eq_getElem?_getD]

/-- `opts` tile `area` from offset `o`: each option starts where the previous one ended, is
    `8 * unit` bytes long where `unit` is the (non-zero) byte at offset + 1 of the area, lies
    inside the area and consists of the area's bytes at that window. -/
def TilesFrom (area : Bytes) : Nat → List NdpOpt → Prop
  | _, [] => True
  | o, x :: xs => x.off = o ∧ x.bytes.length = 8 * bAt area (o + 1) ∧ 0 < x.bytes.length ∧
      o + x.bytes.length ≤ area.length ∧ x.bytes = sub area o x.bytes.length ∧
      TilesFrom area (o + x.bytes.length) xs

/-- offset just behind the last option of a tiling that starts at `o`. -/
def coveredEnd (o : Nat) : List NdpOpt → Nat
  | [] => o
  | x :: xs => coveredEnd (o + x.bytes.length) xs

theorem ndp_tiles_gen (area : Bytes) (s : Bytes) : ∀ off : Nat, s = area.drop off → off ≤ area.length →
    TilesFrom area off (ndpRun ⟨off, s⟩).1 ∧
    ((ndpRun ⟨off, s⟩).2 = none → coveredEnd off (ndpRun ⟨off, s⟩).1 = area.length) ∧
    (∀ e, (ndpRun ⟨off, s⟩).2 = some e →
        coveredEnd off (ndpRun ⟨off, s⟩).1 < area.length ∧
        ∃ rj, Ndp.head (coveredEnd off (ndpRun ⟨off, s⟩).1)
                (area.drop (coveredEnd off (ndpRun ⟨off, s⟩).1)) = .error rj ∧ e = rejectToErr rj) ∧
    (ndpRun ⟨off, s⟩).1.length ≤ s.length / 8 := by
  induction hn : s.length using Nat.strongRecOn generalizing s with
  | _ n ih =>
    intro off hsd hoff
    by_cases hs : s = []
    · subst hs
      have hl : (area.drop off).length = 0 := by rw [← hsd]; rfl
      simp only [List.length_drop] at hl
      rw [ndpRun_none (ndpNext_nil off)]
      simp [TilesFrom, coveredEnd]
      omega
    · have hstep := ndp_step off s hs
      have hsl : s.length = area.length - off := by rw [hsd]; simp
      have hpos : 0 < s.length := by
        rcases s with _ | ⟨a, t⟩
        · exact absurd rfl hs
        · simp
      split at hstep
      · rename_i r hr
        rw [ndpRun_err hstep]
        simp only [TilesFrom, coveredEnd, true_and, List.length_nil, Nat.zero_le, and_true]
        refine ⟨by simp, ?_⟩
        intro e he
        simp only [Option.some.injEq] at he
        refine ⟨by omega, r, ?_, he.symm⟩
        rw [← hsd]; exact hr
      · rename_i o ho
        obtain ⟨ho1, ho2, ho3, ho4, hnext, hview⟩ := hstep
        rw [ndpRun_ok hnext]
        have hd : s.drop o.len = area.drop (off + o.len) := by rw [hsd, List.drop_drop]
        have := ih (s.drop o.len).length (by simp; omega) (s.drop o.len) rfl (off + o.len) hd (by omega)
        obtain ⟨t1, t2, t3, t4⟩ := this
        have hlen : (s.take o.len).length = o.len := by simp; omega
        have hb : bAt area (off + 1) = bAt s 1 := by rw [hsd, bAt_drop]
        simp only [TilesFrom, coveredEnd, hlen, List.length_cons, true_and]
        refine ⟨⟨by rw [hb]; omega, ho3, by omega, by rw [hsd]; rfl, t1⟩, t2, t3, ?_⟩
        simp only [List.length_drop] at t4
        omega

/-! ### ICMP helper lemmas -/


theorem icmp4_exact_entries : ∀ e ∈ Icmp.icmp4Table, e.exactLen ≠ none →
    (e.type = 13 ∨ e.type = 14) ∧ e.code = 0 := by decide

theorem icmp6_exact_entries : ∀ e ∈ Icmp.icmp6Table, e.exactLen = none := by decide

theorem exactOf_icmp4 (t c : Nat) :
    Icmp.exactOf Icmp.icmp4Table t c = if (t = 13 ∨ t = 14) ∧ c = 0 then some 20 else none := by
  by_cases h : (t = 13 ∨ t = 14) ∧ c = 0
  · obtain ⟨rfl | rfl, rfl⟩ := h <;>
      simp [Icmp.exactOf, Icmp.lookup, Icmp.icmp4Table, List.find?]
  · simp only [h, if_false]
    unfold Icmp.exactOf
    cases hlk : Icmp.lookup Icmp.icmp4Table t c with
    | none => rfl
    | some e =>
      have hm : e ∈ Icmp.icmp4Table := List.mem_of_find?_eq_some hlk
      have hp := List.find?_some hlk
      simp only [decide_eq_true_eq] at hp
      by_cases hx : e.exactLen = none
      · simp [hx]
      · have := icmp4_exact_entries e hm hx
        exfalso; apply h; rw [hp.1, hp.2]; exact this

theorem exactOf_icmp6 (t c : Nat) : Icmp.exactOf Icmp.icmp6Table t c = none := by
  unfold Icmp.exactOf
  cases hlk : Icmp.lookup Icmp.icmp6Table t c with
  | none => rfl
  | some e => simp [icmp6_exact_entries e (List.mem_of_find?_eq_some hlk)]

theorem icmp4Type_headerLen (b : Bytes) :
    (icmp4Type b).headerLen = if (bAt b 0 = 13 ∨ bAt b 0 = 14) ∧ bAt b 1 = 0 then 20 else 8 := by
  unfold icmp4Type
  simp only
  repeat' split
  all_goals simp_all [Icmpv4Type.headerLen]

theorem icmp4_accept_len {b s : Bytes} (h : icmp4FromSlice b = .ok s) :
    s = b ∧ 8 ≤ b.length ∧ (((bAt b 0 = 13 ∨ bAt b 0 = 14) ∧ bAt b 1 = 0) → b.length = 20) := by
  unfold icmp4FromSlice at h
  split at h
  · contradiction
  · split at h
    · contradiction
    · split at h
      · contradiction
      · simp only [Except.ok.injEq] at h
        refine ⟨h.symm, by omega, ?_⟩
        rintro ⟨h1 | h1, hc⟩ <;> simp_all <;> omega

theorem icmp6_accept_len {b s : Bytes} (h : icmp6FromSlice b = .ok s) : s = b ∧ 8 ≤ b.length := by
  unfold icmp6FromSlice at h
  split at h
  · contradiction
  · split at h
    · contradiction
    · simp only [Except.ok.injEq] at h
      exact ⟨h.symm, by omega⟩

/-! ### byte-window helpers -/

theorem bytes4to6_eq_sub (b : Bytes) (h : 8 ≤ b.length) : [b.getD 4 0, b.getD 5 0] = sub b 4 2 := by
  match b, h with
  | b0 :: b1 :: b2 :: b3 :: b4 :: b5 :: b6 :: b7 :: rest, _ => simp [sub]

theorem sub_take (b : Bytes) (n o l : Nat) (h : o + l ≤ n) : sub (b.take n) o l = sub b o l := by
  unfold sub
  rw [List.drop_take, List.take_take]
  congr 1
  omega

theorem be16_take (b : Bytes) (n i : Nat) (h : i + 1 < n) : be16 (b.take n) i = be16 b i := by
  unfold be16; rw [bAt_take _ _ _ (by omega), bAt_take _ _ _ (by omega)]

theorem be32_drop (b : Bytes) (n i : Nat) : be32 (b.drop n) i = be32 b (n + i) := by
  unfold be32; simp only [bAt_drop]; rfl

theorem sub_drop (b : Bytes) (n o l : Nat) : sub (b.drop n) o l = sub b (n + o) l := by
  unfold sub; rw [List.drop_drop]


/-! ### tilings have no gap and no overlap -/

theorem sub_append (b : Bytes) (o l m : Nat) : sub b o l ++ sub b (o + l) m = sub b o (l + m) := by
  unfold sub
  rw [List.take_add, List.drop_drop]

theorem coveredEnd_ge (o : Nat) (xs : List NdpOpt) : o ≤ coveredEnd o xs := by
  induction xs generalizing o with
  | nil => simp [coveredEnd]
  | cons x xs ih => have := ih (o + x.bytes.length); simp only [coveredEnd]; omega

/-- a tiling has neither gap nor overlap: the concatenation of the options' bytes is exactly the
    stretch of the area from the start offset to the end of the last option. -/
theorem tiles_concat (area : Bytes) (xs : List NdpOpt) : ∀ o, TilesFrom area o xs →
    (xs.map (·.bytes)).flatten = sub area o (coveredEnd o xs - o) := by
  induction xs with
  | nil => intro o _; simp [coveredEnd, sub]
  | cons x xs ih =>
    intro o h
    obtain ⟨_, _, _, _, hb, ht⟩ := h
    have := ih _ ht
    have hge := coveredEnd_ge (o + x.bytes.length) xs
    simp only [List.map_cons, List.flatten_cons, coveredEnd, this]
    rw [hb]
    rw [sub_length _ _ _ (by omega)]
    rw [sub_append]
    congr 1
    omega

end EpModel.Lemmas.View
