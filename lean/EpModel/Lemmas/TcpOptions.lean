import EpModel.Spec.TcpOptions
/- Helper lemmas for C13 (TCP options). -/
namespace EpModel.Lemmas.TcpOptions
open EpModel EpModel.TcpOptions EpModel.Spec.TcpOpt

/-! ### bytes -/

theorem u8_toNat_self (x : UInt8) : u8 x.toNat = x := by
  unfold u8
  have := x.toNat_lt
  rw [Nat.mod_eq_of_lt (by omega)]
  simp

theorem bAt_cons_zero (x : UInt8) (t : Bytes) : bAt (x :: t) 0 = x.toNat := by simp [bAt]
theorem bAt_cons_succ (x : UInt8) (t : Bytes) (i : Nat) : bAt (x :: t) (i + 1) = bAt t i := by
  simp [bAt]

theorem bAt_drop (b : Bytes) (i j : Nat) : bAt (b.drop i) j = bAt b (i + j) := by
  simp [bAt, List.getD, List.getElem?_drop]

/-- a slice with at least one byte starts with its first byte. -/
theorem drop_eq_cons (b : Bytes) (i : Nat) (h : i < b.length) :
    b.drop i = u8 (bAt b i) :: b.drop (i + 1) := by
  rw [List.drop_eq_getElem_cons h]
  congr 1
  simp [bAt, List.getD, h, u8_toNat_self]

theorem u8_congr (x y : Nat) (h : x % 256 = y % 256) : u8 x = u8 y := by
  unfold u8; rw [h]

theorem enc16_be16 (b : Bytes) (i : Nat) :
    enc16 (be16 b i) = [u8 (bAt b i), u8 (bAt b (i + 1))] := by
  unfold enc16 be16
  have h0 := bAt_lt b i
  have h1 := bAt_lt b (i + 1)
  rw [u8_congr ((bAt b i * 256 + bAt b (i + 1)) / 256) (bAt b i) (by omega),
    u8_congr (bAt b i * 256 + bAt b (i + 1)) (bAt b (i + 1)) (by omega)]

theorem enc32_be32 (b : Bytes) (i : Nat) :
    enc32 (be32 b i) = [u8 (bAt b i), u8 (bAt b (i + 1)), u8 (bAt b (i + 2)), u8 (bAt b (i + 3))] := by
  unfold enc32 be32
  have h0 := bAt_lt b i
  have h1 := bAt_lt b (i + 1)
  have h2 := bAt_lt b (i + 2)
  have h3 := bAt_lt b (i + 3)
  have e : ∀ x y : Nat, x % 256 = y % 256 → u8 x = u8 y := by
    intro x y h; unfold u8; rw [h]
  congr 1
  · apply e; omega
  · congr 1
    · apply e; omega
    · congr 1
      · apply e; omega
      · congr 1; apply e; omega

theorem u8_lits : u8 1 = 1 ∧ u8 2 = 2 ∧ u8 3 = 3 ∧ u8 4 = 4 ∧ u8 5 = 5 ∧ u8 8 = 8 ∧ u8 10 = 10 ∧
    u8 18 = 18 ∧ u8 26 = 26 ∧ u8 34 = 34 := by decide

/-- the `n` bytes of `b` from offset `i`, read through `bAt`. -/
def bytesFrom (b : Bytes) (i : Nat) : Nat → Bytes
  | 0 => []
  | n + 1 => u8 (bAt b i) :: bytesFrom b (i + 1) n

theorem drop_eq_bytesFrom (b : Bytes) (i n : Nat) (h : i + n ≤ b.length) :
    b.drop i = bytesFrom b i n ++ b.drop (i + n) := by
  induction n generalizing i with
  | zero => simp [bytesFrom]
  | succ n ih =>
    rw [drop_eq_cons b i (by omega), bytesFrom, ih (i + 1) (by omega)]
    have : i + 1 + n = i + (n + 1) := by omega
    rw [this]; rfl

theorem split_at (b : Bytes) (n : Nat) (h : n ≤ b.length) : b = bytesFrom b 0 n ++ b.drop n := by
  have := drop_eq_bytesFrom b 0 n (by omega)
  simpa using this

/-! ### one step of the iterator -/

theorem expectSize_error (k n : Nat) (b : Bytes) (e : ReadErr) (hk : bAt b 0 = k)
    (hv : ValidLen k n) (hk5 : k ≠ 5) (hn : 2 ≤ n) (hb : 0 < b.length)
    (h : expectSize n b = .error e) : ErrAt e b := by
  unfold expectSize at h
  split at h
  · cases h
    refine ⟨hb, rfl, rfl, by assumption, Or.inl ⟨by omega, by rw [hk]; exact hv⟩⟩
  · split at h
    · cases h
      rename_i h1 h2
      refine ⟨by omega, rfl, rfl, ?_, ?_, ?_⟩
      · unfold ValidLen at hv; unfold Known; omega
      · unfold ValidLen at hv; omega
      · unfold ValidLen at hv ⊢; omega
    · cases h

/-- what one call of the `match self.options[0]` yields, in terms of the wire formats. -/
theorem nextRaw_spec (b : Bytes) (hb : 0 < b.length) :
    match nextRaw b with
    | (none, _) => bAt b 0 = 0
    | (some (.ok e), rest) => b = wire e ++ rest ∧ WF e ∧ normSack e = e
    | (some (.error err), _) => ErrAt err b := by
  unfold nextRaw
  simp only
  by_cases h0 : bAt b 0 = 0
  · rw [if_pos h0]; exact h0
  rw [if_neg h0]
  by_cases h1 : bAt b 0 = 1
  · rw [if_pos h1]
    simp only
    refine ⟨?_, trivial, rfl⟩
    have := split_at b 1 (by omega)
    simpa [bytesFrom, h1, wire, u8_lits] using this
  rw [if_neg h1]
  by_cases h2 : bAt b 0 = 2
  · rw [if_pos h2]
    cases hx : expectSize 4 b with
    | error e =>
      simp only
      exact expectSize_error 2 4 b e h2 (by unfold ValidLen; omega) (by omega) (by omega) hb hx
    | ok u =>
      simp only
      have := expectSize_ok _ _ _ hx
      refine ⟨?_, be16_lt _ _, rfl⟩
      have hs := split_at b 4 this.1
      simp only [bytesFrom, h2, this.2, Nat.zero_add, Nat.reduceAdd, u8_lits] at hs
      simp only [wire, enc16_be16, Nat.reduceAdd]
      exact hs
  rw [if_neg h2]
  by_cases h3 : bAt b 0 = 3
  · rw [if_pos h3]
    cases hx : expectSize 3 b with
    | error e =>
      simp only
      exact expectSize_error 3 3 b e h3 (by unfold ValidLen; omega) (by omega) (by omega) hb hx
    | ok u =>
      simp only
      have := expectSize_ok _ _ _ hx
      refine ⟨?_, bAt_lt _ _, rfl⟩
      have hs := split_at b 3 this.1
      simp only [bytesFrom, h3, this.2, Nat.zero_add, Nat.reduceAdd, u8_lits] at hs
      simp only [wire]
      exact hs
  rw [if_neg h3]
  by_cases h4 : bAt b 0 = 4
  · rw [if_pos h4]
    cases hx : expectSize 2 b with
    | error e =>
      simp only
      exact expectSize_error 4 2 b e h4 (by unfold ValidLen; omega) (by omega) (by omega) hb hx
    | ok u =>
      simp only
      have := expectSize_ok _ _ _ hx
      refine ⟨?_, trivial, rfl⟩
      have hs := split_at b 2 this.1
      simp only [bytesFrom, h4, this.2, Nat.zero_add, u8_lits] at hs
      simp only [wire]
      exact hs
  rw [if_neg h4]
  by_cases h5 : bAt b 0 = 5
  · rw [if_pos h5]
    by_cases hl2 : b.length < 2
    · rw [if_pos hl2]
      exact ⟨hb, rfl, rfl, hl2, Or.inr (Or.inl ⟨h5, hl2, rfl⟩)⟩
    rw [if_neg hl2]
    by_cases hv : bAt b 1 ≠ 10 ∧ bAt b 1 ≠ 18 ∧ bAt b 1 ≠ 26 ∧ bAt b 1 ≠ 34
    · rw [if_pos hv]
      refine ⟨by omega, rfl, rfl, ?_, by omega, ?_⟩
      · unfold Known; omega
      · unfold ValidLen; omega
    rw [if_neg hv]
    by_cases hlen : b.length < bAt b 1
    · rw [if_pos hlen]
      refine ⟨hb, rfl, rfl, hlen, Or.inr (Or.inr ⟨h5, by omega, rfl, ?_⟩)⟩
      unfold ValidLen; omega
    rw [if_neg hlen]
    simp only
    have hwf32 : ∀ i j, PairWF (be32 b i, be32 b j) := fun i j => ⟨be32_lt _ _, be32_lt _ _⟩
    have hcases : bAt b 1 = 10 ∨ bAt b 1 = 18 ∨ bAt b 1 = 26 ∨ bAt b 1 = 34 := by omega
    rcases hcases with hl | hl | hl | hl
    all_goals (
      rw [hl] at hlen ⊢
      have hs := split_at b _ (Nat.le_of_not_lt hlen)
      simp only [bytesFrom, h5, hl, Nat.zero_add, Nat.reduceAdd, u8_lits] at hs
      refine ⟨?_, ?_, ?_⟩
      · simp only [wire, sackBlock, present, wirePair, enc32_be32, Nat.reduceAdd, Nat.reduceMul,
          Nat.reduceLT, if_true, if_false, List.filterMap, id, List.map, List.flatten, List.length,
          List.append, List.cons_append, List.nil_append, u8_lits]
        exact hs
      · simp only [WF, sackBlock, SlotWF, Nat.reduceAdd, Nat.reduceMul, Nat.reduceLT, if_true, if_false]
        exact ⟨hwf32 _ _, by first | trivial | exact hwf32 _ _, by first | trivial | exact hwf32 _ _,
          by first | trivial | exact hwf32 _ _⟩
      · simp [normSack, sackBlock, present])
  rw [if_neg h5]
  by_cases h8 : bAt b 0 = 8
  · rw [if_pos h8]
    cases hx : expectSize 10 b with
    | error e =>
      simp only
      exact expectSize_error 8 10 b e h8 (by unfold ValidLen; omega) (by omega) (by omega) hb hx
    | ok u =>
      simp only
      have := expectSize_ok _ _ _ hx
      refine ⟨?_, ⟨be32_lt _ _, be32_lt _ _⟩, rfl⟩
      have hs := split_at b 10 this.1
      simp only [bytesFrom, h8, this.2, Nat.zero_add, Nat.reduceAdd, u8_lits] at hs
      simp only [wire, enc32_be32, Nat.reduceAdd, List.cons_append, List.nil_append]
      exact hs
  rw [if_neg h8]
  simp only
  exact ⟨hb, rfl, by unfold Known; omega⟩

/-- one call of `next`, in terms of the wire formats; in particular the new state is exhausted
    after END and after an error. -/
theorem next_spec (b : Bytes) :
    match next b with
    | (none, s) => s = [] ∧ (b = [] ∨ (0 < b.length ∧ bAt b 0 = 0))
    | (some (.ok e), rest) => b = wire e ++ rest ∧ WF e ∧ normSack e = e
    | (some (.error err), s) => s = [] ∧ ErrAt err b := by
  unfold next
  by_cases hb : b.length = 0
  · rw [if_pos hb]
    have : b = [] := List.length_eq_zero_iff.mp hb
    simp [this]
  rw [if_neg hb]
  have h := nextRaw_spec b (by omega)
  revert h
  cases nextRaw b with
  | mk r s =>
    cases r with
    | none => intro h; exact ⟨rfl, Or.inr ⟨by omega, h⟩⟩
    | some i =>
      cases i with
      | ok e => intro h; exact h
      | error e => intro h; exact ⟨rfl, h⟩

theorem next_nil : next [] = (none, []) := by simp [next]

theorem run_none (b s : Bytes) (h : next b = (none, s)) : run b = ([], s) := by
  rw [run]; split <;> simp_all

theorem run_some (b s : Bytes) (r : Item) (h : next b = (some r, s)) :
    run b = ((r, s) :: (run s).1, (run s).2) := by
  rw [run]; split <;> simp_all

theorem iterate_none (b s : Bytes) (h : next b = (none, s)) : iterate b = [] ∧ endState b = s := by
  simp [iterate, endState, run_none b s h]

theorem iterate_some (b s : Bytes) (r : Item) (h : next b = (some r, s)) :
    iterate b = r :: iterate s ∧ endState b = endState s := by
  simp [iterate, endState, run_some b s r h]

theorem iterate_nil : iterate [] = [] ∧ endState [] = [] := iterate_none [] [] next_nil

/-- the shape of a complete run over an arbitrary byte string. -/
def RunSpec (b : Bytes) : Prop :=
  ∃ (els : List Elem) (rest : Bytes),
    b = wireAll els ++ rest ∧ (∀ e ∈ els, WF e ∧ normSack e = e) ∧ endState b = [] ∧
      ((iterate b = els.map .ok ∧ (rest = [] ∨ (0 < rest.length ∧ bAt rest 0 = 0))) ∨
        (∃ err, iterate b = els.map .ok ++ [.error err] ∧ ErrAt err rest))

theorem run_spec_aux (n : Nat) : ∀ b : Bytes, b.length = n → RunSpec b := by
  induction n using Nat.strongRecOn with
  | _ n ih =>
    intro b hn
    have hspec := next_spec b
    cases hnx : next b with
    | mk r s =>
      rw [hnx] at hspec
      cases r with
      | none =>
        have hi := iterate_none b s hnx
        simp only at hspec
        refine ⟨[], b, by simp [wireAll], by simp, by rw [hi.2]; exact hspec.1, Or.inl ⟨by simp [hi.1], hspec.2⟩⟩
      | some i =>
        have hi := iterate_some b s i hnx
        cases i with
        | ok e =>
          simp only at hspec
          have hlt := next_shrinks b _ s hnx
          obtain ⟨els, rest, hb, hwf, hend, hres⟩ := ih s.length (by omega) s rfl
          refine ⟨e :: els, rest, ?_, ?_, by rw [hi.2]; exact hend, ?_⟩
          · rw [hspec.1, hb]; simp [wireAll]
          · intro x hx
            rcases List.mem_cons.mp hx with rfl | hx
            · exact hspec.2
            · exact hwf x hx
          · rcases hres with ⟨h1, h2⟩ | ⟨err, h1, h2⟩
            · exact Or.inl ⟨by rw [hi.1, h1]; rfl, h2⟩
            · exact Or.inr ⟨err, by rw [hi.1, h1]; rfl, h2⟩
        | error err =>
          simp only at hspec
          have hs : s = [] := hspec.1
          subst hs
          refine ⟨[], b, by simp [wireAll], by simp, by rw [hi.2]; exact iterate_nil.2, Or.inr ⟨err, ?_, hspec.2⟩⟩
          rw [hi.1, iterate_nil.1]; rfl

theorem run_spec (b : Bytes) : RunSpec b := run_spec_aux b.length b rfl

theorem iterate_length_aux (n : Nat) : ∀ b : Bytes, b.length = n → (iterate b).length ≤ b.length := by
  induction n using Nat.strongRecOn with
  | _ n ih =>
    intro b hn
    cases hnx : next b with
    | mk r s =>
      cases r with
      | none => simp [(iterate_none b s hnx).1]
      | some i =>
        have hlt := next_shrinks b i s hnx
        have := ih s.length (by omega) s rfl
        rw [(iterate_some b s i hnx).1]
        simp only [List.length_cons]
        omega

/-! ### the encoder -/

theorem writeElem_eq_wire (e : Elem) : writeElem e = wire e := by
  cases e with
  | sack f r0 r1 r2 =>
    obtain ⟨a, b⟩ := f
    cases r0 <;> cases r1 <;> cases r2 <;>
      simp [writeElem, wire, writePair, sackLen, present, wirePair]
  | _ => simp [writeElem, wire]

theorem writeElem_length (e : Elem) : (writeElem e).length = elemSize e := by
  cases e with
  | sack f r0 r1 r2 =>
    obtain ⟨a, b⟩ := f
    cases r0 <;> cases r1 <;> cases r2 <;>
      simp [writeElem, writePair, sackLen, elemSize]
  | _ => simp [writeElem, elemSize]

theorem wire_normSack (e : Elem) : wire (normSack e) = wire e := by
  cases e with
  | sack f r0 r1 r2 =>
    cases r0 <;> cases r1 <;> cases r2 <;> simp [normSack, wire, present]
  | _ => simp [normSack]

theorem foldl_size (es : List Elem) (a : Nat) :
    es.foldl (fun acc x => acc + elemSize x) a = a + (wireAll es).length := by
  induction es generalizing a with
  | nil => simp [wireAll]
  | cons e es ih =>
    simp only [List.foldl_cons, ih, wireAll, List.map_cons, List.flatten_cons, List.length_append]
    rw [← writeElem_eq_wire, writeElem_length]; omega

/-- `required_len` is the length of the concatenated wire forms. -/
theorem size_eq (es : List Elem) : size es = (wireAll es).length := by
  unfold size; rw [foldl_size]; omega

/-- the 40 byte buffer after `out` has been written from its start. -/
def bufOf (out : Bytes) : Bytes := out ++ List.replicate (40 - out.length) 0

theorem bufOf_length (out : Bytes) (h : out.length ≤ 40) : (bufOf out).length = 40 := by
  simp [bufOf]; omega

theorem bufWrite_bufOf (out data : Bytes) (h : out.length + data.length ≤ 40) :
    bufWrite (bufOf out) out.length data = some (bufOf (out ++ data)) := by
  unfold bufWrite
  rw [bufOf_length out (by omega), if_pos h]
  congr 1
  unfold bufOf
  have e1 : List.take out.length (out ++ List.replicate (40 - out.length) 0) = out := by simp
  have e2 : List.drop (out.length + data.length) (out ++ List.replicate (40 - out.length) 0) =
      List.replicate (40 - (out ++ data).length) 0 := by
    rw [List.drop_append]
    simp
    rw [List.drop_of_length_le (by omega), List.nil_append]
    congr 1
    omega
  rw [e1, e2]

theorem writeLoop_bufOf (es : List Elem) (out : Bytes) (h : out.length + (wireAll es).length ≤ 40) :
    writeLoop es (bufOf out) out.length =
      some (bufOf (out ++ wireAll es), out.length + (wireAll es).length) := by
  induction es generalizing out with
  | nil => simp [writeLoop, wireAll]
  | cons e es ih =>
    have hw : wireAll (e :: es) = writeElem e ++ wireAll es := by
      simp [wireAll, writeElem_eq_wire]
    rw [hw] at h ⊢
    simp only [List.length_append] at h
    unfold writeLoop
    rw [bufWrite_bufOf out (writeElem e) (by omega)]
    simp only
    have := ih (out ++ writeElem e) (by simp only [List.length_append]; omega)
    simp only [List.length_append] at this
    rw [this]
    simp [Nat.add_assoc]

theorem padLen_spec (n : Nat) : n ≤ padLen n ∧ padLen n < n + 4 ∧ padLen n % 4 = 0 ∧
    padLen n = (n + 3) / 4 * 4 := by
  unfold padLen; split <;> omega

/-- closed form of the encoder when the elements fit. -/
theorem encode_fits (es : List Elem) (h : size es ≤ 40) :
    encode es = .ok (wireAll es ++ List.replicate (padLen (size es) - size es) 0) := by
  unfold encode
  simp only
  rw [if_neg (by omega)]
  rw [size_eq] at h ⊢
  have hb : (List.replicate 40 0 : Bytes) = bufOf [] := by simp [bufOf]
  have := writeLoop_bufOf es [] (by simpa using h)
  simp only [List.length_nil, Nat.zero_add, List.nil_append] at this
  rw [hb, this]
  simp only
  have hp := padLen_spec (wireAll es).length
  have h40 : padLen (wireAll es).length ≤ 40 := by omega
  rw [Nat.mod_eq_of_lt (by omega)]
  congr 1
  unfold bufOf
  rw [List.take_append]
  simp
  rw [List.take_of_length_le hp.1, Nat.min_eq_left (by omega)]

/-- closed form of `try_from_slice` when the area fits. -/
theorem fromSlice_fits (s : Bytes) (h : s.length ≤ 40) :
    fromSlice s = .ok (s ++ List.replicate ((s.length + 3) / 4 * 4 - s.length) 0) := by
  unfold fromSlice
  rw [if_neg (by omega)]
  simp only
  have hb : (List.replicate 40 0 : Bytes) = bufOf [] := by simp [bufOf]
  have hw := bufWrite_bufOf [] s (by simpa using h)
  simp only [List.length_nil, List.nil_append] at hw
  rw [hb, hw]
  simp only
  rw [Nat.mod_eq_of_lt (by omega)]
  have hl : s.length / 4 * 4 + (if s.length % 4 ≠ 0 then 4 else 0) = (s.length + 3) / 4 * 4 := by
    split <;> omega
  rw [hl]
  congr 1
  unfold bufOf
  rw [List.take_append]
  simp
  rw [List.take_of_length_le (by omega), Nat.min_eq_left (by omega)]

/-! ### iterating an encoding -/

theorem be16_cons_succ (x : UInt8) (t : Bytes) (i : Nat) : be16 (x :: t) (i + 1) = be16 t i := by
  simp [be16, bAt_cons_succ]

theorem be32_cons_succ (x : UInt8) (t : Bytes) (i : Nat) : be32 (x :: t) (i + 1) = be32 t i := by
  simp [be32, bAt_cons_succ]

theorem be16_enc (v : Nat) (t : Bytes) (h : v < 65536) :
    be16 (u8 (v / 256) :: u8 v :: t) 0 = v := by
  simp [be16, bAt]; omega

theorem be32_enc (a : Nat) (t : Bytes) (h : a < 4294967296) :
    be32 (u8 (a / 16777216) :: u8 (a / 65536) :: u8 (a / 256) :: u8 a :: t) 0 = a := by
  simp [be32, bAt]; omega

theorem expectSize_ok_of (n : Nat) (b : Bytes) (h1 : n ≤ b.length) (h2 : bAt b 1 = n) :
    expectSize n b = .ok () := by
  unfold expectSize
  rw [if_neg (by omega), if_neg (by simp [h2])]

theorem next_wire (e : Elem) (t : Bytes) (h : WF e) :
    next (wire e ++ t) = (some (.ok (normSack e)), t) := by
  cases e with
  | noop => simp [wire, next, nextRaw, bAt, normSack]
  | mss v =>
    simp only [WF] at h
    have hx := expectSize_ok_of 4 (2 :: 4 :: u8 (v / 256) :: u8 v :: t) (by simp) (by simp [bAt])
    simp [wire, next, nextRaw, hx, bAt_cons_zero, normSack, enc16, be16_cons_succ, be16_enc v t h]
  | ws v =>
    simp only [WF] at h
    have hx := expectSize_ok_of 3 (3 :: 3 :: u8 v :: t) (by simp) (by simp [bAt])
    simp [wire, next, nextRaw, hx, bAt_cons_zero, bAt_cons_succ, normSack]
    exact h
  | sackPerm =>
    have hx := expectSize_ok_of 2 (4 :: 2 :: t) (by simp) (by simp [bAt])
    simp [wire, next, nextRaw, hx, bAt_cons_zero, normSack]
  | ts a b =>
    simp only [WF] at h
    have hx := expectSize_ok_of 10 (8 :: 10 :: (enc32 a ++ enc32 b ++ t)) (by simp; omega) (by simp [bAt])
    simp only [enc32, List.cons_append, List.nil_append] at hx
    simp [wire, next, nextRaw, hx, bAt_cons_zero, normSack, enc32,
      be32_cons_succ, be32_enc a _ h.1, be32_enc b _ h.2]
  | sack f r0 r1 r2 =>
    obtain ⟨a, b⟩ := f
    rcases r0 with _ | ⟨a0, b0⟩ <;> rcases r1 with _ | ⟨a1, b1⟩ <;> rcases r2 with _ | ⟨a2, b2⟩ <;>
    ( simp only [WF, PairWF, SlotWF, and_true, true_and] at h
      simp [wire, present, wirePair, next, nextRaw, sackBlock, normSack, enc32, bAt_cons_zero,
        bAt_cons_succ, be32_cons_succ, be32_enc, h]
      rw [if_neg (by omega), if_neg (by omega)] )

theorem iterate_wireAll (es : List Elem) (t : Bytes) (h : ∀ e ∈ es, WF e) :
    iterate (wireAll es ++ t) = (es.map normSack).map .ok ++ iterate t := by
  induction es with
  | nil => simp [wireAll]
  | cons e es ih =>
    have hw : wireAll (e :: es) ++ t = wire e ++ (wireAll es ++ t) := by simp [wireAll]
    rw [hw, (iterate_some _ _ _ (next_wire e (wireAll es ++ t) (h e (by simp)))).1,
      ih (fun x hx => h x (by simp [hx]))]
    simp

/-- END padding (or anything that starts with END) yields nothing. -/
theorem iterate_end (t : Bytes) : iterate (0 :: t) = [] := by
  have : next (0 :: t) = (none, []) := by simp [next, nextRaw, bAt]
  exact (iterate_none _ _ this).1

theorem iterate_zeros (n : Nat) : iterate (List.replicate n 0) = [] := by
  cases n with
  | zero => exact iterate_nil.1
  | succ n => rw [List.replicate_succ]; exact iterate_end _

end EpModel.Lemmas.TcpOptions
