import EpModel.Model.ChecksumWire
import EpModel.Lemmas.Checksum
import EpModel.Spec.Rfc1071
/- Sum16BitWords methods = add_slice; stored checksums verify; validation = complete sum folds to 0xffff. -/
namespace EpModel.Checksum
open EpModel

theorem addSlice64_lt8 (s : Nat) (r : Bytes) (h : r.length < 8) : addSlice64 s r = tail64 s r := by
  rw [addSlice64]
  have : ¬ 8 ≤ r.length := by omega
  simp [this]

theorem s16Method_eq (s : Nat) (v : Bytes) : s16Method s v = addSlice64 s v := by
  unfold s16Method
  split
  · rename_i h
    rw [addSlice64_lt8 s v (by omega)]
    simp [tail64, h, sub]
    rw [List.take_of_length_le (by omega)]
  · split
    · rename_i h
      rw [addSlice64_lt8 s v (by omega)]
      simp [tail64, h]
      rw [List.take_of_length_le (by omega)]
    · split
      · rename_i h
        rw [addSlice64]
        simp only [h, Nat.le_refl, if_true]
        rw [addSlice64_lt8 _ _ (by simp [h])]
        have hd : v.drop 8 = [] := List.drop_of_length_le (by omega)
        rw [hd, List.take_of_length_le (by omega)]
        simp [tail64]
      · split
        · rename_i h
          rw [addSlice64]
          simp only [h, show 8 ≤ 16 by omega, if_true]
          rw [addSlice64]
          simp only [List.length_drop, h, show 8 ≤ 16 - 8 by omega, if_true]
          rw [addSlice64_lt8 _ _ (by simp [h])]
          have hd : (v.drop 8).drop 8 = [] := List.drop_of_length_le (by simp [h])
          have ht : (v.drop 8).take 8 = v.drop 8 := List.take_of_length_le (by simp [h])
          rw [hd, ht]
          simp [tail64]
        · rfl
end EpModel.Checksum

namespace EpModel.Checksum
open EpModel EpModel.Spec EpModel.Lemmas.Checksum

theorem beWords_append_even : ∀ (xs ys : Bytes), xs.length % 2 = 0 → beWords (xs ++ ys) = beWords xs + beWords ys
  | [], ys, _ => by simp [beWords]
  | [a], ys, h => by simp at h
  | a :: b :: rest, ys, h => by
    have h' : rest.length % 2 = 0 := by simp at h; omega
    simp only [List.cons_append, beWords, beWords_append_even rest ys h']
    omega

theorem checksum_zero_iff (b : Bytes) : Spec.checksum b = 0 ↔ fold16 (beWords b) = 65535 := by
  unfold Spec.checksum
  rw [ocSum_eq_fold]
  have := fold16_le (beWords b)
  omega

end EpModel.Checksum
